/-
  SrcProps — the property theorems transported to the GENERATED code.

  The property theorems `Props/C01 … C20` speak about the hand-written model; the translator tie `Props/SrcTie<Group>`
  proves every generated function (`Generated/Src/<Group>.lean`, the Lean text derived from the CURRENT Rust source)
  equal to its model counterpart on well-formed inputs.  The modules imported here compose the two: every headline
  statement mentions only generated definitions (plus lists, sets, lengths and intrinsic well-formedness predicates on
  the generated types) in its conclusion; the model occurs in the proofs only.

  One module per group, importing only that group's `SrcTie` file and the model property file it uses, so that a
  change of one Rust function breaks only the corollaries about that function:

    module                 property   generated functions                                  headline theorems
    SrcPropsReplay         C04        ReplayProtection::{new, already_received,            replay_advance_then_already_received,
                                        advance_sequence}                                    replay_never_panics, replay_run_accepts_at_most_once,
                                                                                             replay_run_then_rejected
    SrcPropsPacket         C16, C06   renet Packet::{to_bytes, from_bytes}                 packet_roundtrip(_exists), packet_to_bytes_total,
                                                                                             packet_from_bytes_never_panics
    SrcPropsSendUnrel      C13,C09,   SendChannelUnreliable::{send_message,                send_unrel_packets_fit, send_unrel_send_message_accounting,
                           C14          get_packets_to_send} (+ Packet::to_bytes)            send_unrel_flush_accounting, send_unrel_send_then_flush,
                                                                                             send_unrel_budget, send_unrel_large_sent_whole
    SrcPropsSendRel        C13,C16,   SendChannelReliable::get_packets_to_send             send_rel_packets_fit, send_rel_packets_roundtrip,
                           C14          (+ Packet::{to_bytes, from_bytes})                   send_rel_budget
    SrcPropsAcks           C08, C16   RenetClient::{add_pending_ack, acked_largest}        acks_add_pending_ack_denotes / _exact / _evicts_oldest,
                                                                                             acks_acked_largest_denotes
    SrcPropsRecvUnrel      C09        ReceiveChannelUnreliable::{process_message,          recv_unrel_receive_accounting, recv_unrel_receive_total,
                                        receive_message}                                     recv_unrel_process_message_accounting
    SrcPropsSlice          C06, C03   SliceConstructor::{new, process_slice}               slice_process_slice_total / _never_panics, slice_new_inv,
                                                                                             slice_reassembly_exact, slices_concat
    SrcPropsRecvRel        C01/C02,   ReceiveChannelReliable::{process_message,            recv_rel_duplicate_ignored, recv_rel_second_copy_ignored,
                           C06          process_slice}                                       recv_rel_duplicate_slice_ignored,
                                                                                             recv_rel_process_message_never_panics
    SrcPropsNcAddr         C07        read_server_addresses                                nc_read_server_addresses_never_panics
    SrcPropsNcConnToken    C07        ConnectToken::read, PrivateConnectToken::read        nc_connect_token_read_never_panics,
                                                                                             nc_private_token_read_never_panics
    SrcPropsNcPacket       C07        renetcode Packet::read                               nc_packet_read_never_panics

  Shared, group-independent helpers (`NoPanic`, `RMem`, `RangesWF`, …): `Lemmas/SrcCorollaries.lean`.
  Every headline theorem has a concrete `example` evaluated on the generated text next to it.
-/
import RenetVerif.Props.SrcPropsReplay
import RenetVerif.Props.SrcPropsPacket
import RenetVerif.Props.SrcPropsSendUnrel
import RenetVerif.Props.SrcPropsSendRel
import RenetVerif.Props.SrcPropsAcks
import RenetVerif.Props.SrcPropsRecvUnrel
import RenetVerif.Props.SrcPropsSlice
import RenetVerif.Props.SrcPropsRecvRel
import RenetVerif.Props.SrcPropsNcAddr
import RenetVerif.Props.SrcPropsNcConnToken
import RenetVerif.Props.SrcPropsNcPacket
