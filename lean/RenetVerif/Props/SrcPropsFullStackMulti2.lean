/-
  C20M — THE FULL STACK WITH SEVERAL CLIENTS, ABOUT THE GENERATED CODE, part 2: what the header of
  `Props/SrcPropsFullStackMulti.lean` lists as NOT stated at generated level — `unordered_once`, the lock-step statements,
  the frame statement and the broadcast statements of `Props/C20M.lean`, on runs of the generated several-client stack `GMS`
  (generated `NetcodeClientTransport` + `RenetClient` twice, generated `NetcodeServerTransport` + `RenetServer`).

  READING THE GENERATED STATE (`Lemmas/SrcEquiv/SrcFullStackMulti2.lean`):
    `GLockStep g`      the generated `NetcodeServer::clients_id(&g.ts.netcode_server)` returns a duplicate-free list `ids`, the
                       generated `RenetServer`'s connection table `g.rs.connections` has exactly the keys `ids`
                       (`contains_key`), and the generated `RenetServer::clients_id(&g.rs)` (the connected entries) returns
                       members of `ids` only;
    `GNoDead g`        the generated `RenetServer::disconnections_id(&g.rs)` returns the empty list;
    `GSameForCid cid g g'`   the generated client transport `tc`, the generated `RenetClient` `rc`, the WHOLE generated
                       `NetcodeServerTransport` `ts` (so, in particular, the slot of `cid`), `cid`'s entry of the generated
                       `RenetServer` table (`gconn? rs cid` = `Map.find? rs.connections cid`), the socket histories and the six
                       ghost logs are equal; the ghost `ySeq` is compared through `gtrackSeq` as in the model.

  Hypotheses: those of `SrcPropsFullStackMulti.lean` (`MSGood ms0`, `SimMS ms0 gm0`: the generated start state represents a
  model state satisfying the model invariants; `MSRunOK`: the decidable range / local side condition along the run).
  The lock-step theorems take `GLockStep gm0.g` — a statement about the GENERATED start state — and no model-level lock-step;
  `src_multi_unordered_once` takes what `src_multi_ordered_prefix` takes.  The frame and broadcast theorems need neither
  `Established` nor the run hypotheses `MNoForgeryRunD` / `MSingleSessionRun`.
-/
import RenetVerif.Lemmas.SrcEquiv.SrcFullStackMulti2
set_option linter.unusedSimpArgs false
set_option linter.unusedVariables false
set_option maxRecDepth 100000
namespace RenetVerif.SrcPropsFullStackMulti2
open RenetVerif C RenetVerif.RustSem RenetVerif.System RenetVerif.Netcode RenetVerif.Transport RenetVerif.FullStack
  RenetVerif.FullStackMulti
open RenetVerif.SrcEquiv RenetVerif.SrcSystem RenetVerif.SrcMulti RenetVerif.SrcFullStack RenetVerif.SrcPropsFullStackMulti
  RenetVerif.SrcFullStackMulti2
open Src.renet.remote_connection Src.renet.server Src.renet_netcode.server Src.renet_netcode.client

/-! ## (1) C02 -/

/-- **C02, several clients, generated code.**  After every run of the generated several-client stack from (the representation
    of) a state in which `cid`'s session is established: on every ReliableUnordered channel of `cid`'s link, in either
    direction, the messages the generated receiver handed to its application are the messages submitted to the generated
    sender at pairwise distinct positions of the submission log — whatever the other generated client, the generated
    `RenetServer`'s per-id calls and broadcasts, and the adversary do. -/
theorem src_multi_unordered_once (a : AEAD) (hl : a.Laws) (cfg : Cfg) (cid : Nat) (ms0 : MS) (gm0 gm : GMS) (ops : List MOp)
    (he : Established cfg cid ms0.fs) (hgood : MSGood ms0) (hsim : SimMS ms0 gm0) (hr : gm0.run a cid ops = some gm)
    (hok : MSRunOK a cid ms0 ops) (hnf : MNoForgeryRunD a cid ms0 (ops.map cutMOp))
    (hss : MSingleSessionRun a cid ms0 (ops.map cutMOp)) :
    (GCountersUp cfg gm.g → ∀ ch, cfg.Unordered ch →
      ∃ ids : List Nat, ids.Nodup ∧ (gm.g.obtS ch).map some = ids.map (fun id => (gm.g.subC ch)[id]?)) ∧
    (GCountersDown cfg gm.g → ∀ ch, (Cfg.swap cfg).Unordered ch →
      ∃ ids : List Nat, ids.Nodup ∧ (gm.g.obtC ch).map some = ids.map (fun id => (gm.g.subS ch)[id]?)) := by
  obtain ⟨ms, hm, sim, -⟩ := mrun_gsim_conv a hl cid ops ms0 gm0 gm hgood hsim hok hr
  obtain ⟨h1, h2⟩ := C20M.multi_unordered_once a hl cfg cid ms0 ms _ he hm hnf hss
  constructor
  · intro hc ch hu
    obtain ⟨ids, hn, h⟩ := h1 (countersUp_of_sim sim.fs hc) ch hu
    rw [sim.fs.obtS, sim.fs.subC]
    exact ⟨ids, hn, unordered_map h⟩
  · intro hc ch hu
    obtain ⟨ids, hn, h⟩ := h2 (countersDown_of_sim sim.fs hc) ch hu
    rw [sim.fs.obtC, sim.fs.subS]
    exact ⟨ids, hn, unordered_map h⟩

/-! ## (2) lock-step -/

/-- **Lock-step with several clients, generated code.**  If at the start the generated `NetcodeServer::clients_id` and the
    keys of the generated `RenetServer`'s connection table agree (`GLockStep gm0.g`), they agree after EVERY run of the
    generated several-client stack — whatever mix of handshakes, disconnects, broadcasts and per-client calls — and the
    generated `RenetServer::clients_id` returns members of that list only. -/
theorem src_multi_lockstep (a : AEAD) (hl : a.Laws) (cid : Nat) (ms0 : MS) (gm0 gm : GMS) (ops : List MOp)
    (hgood : MSGood ms0) (hsim : SimMS ms0 gm0) (hok : MSRunOK a cid ms0 ops) (hk : GLockStep gm0.g)
    (hr : gm0.run a cid ops = some gm) : GLockStep gm.g := by
  obtain ⟨ms, hm, sim, -⟩ := mrun_gsim_conv a hl cid ops ms0 gm0 gm hgood hsim hok hr
  exact glockStep_of sim.fs (C20M.multi_lockstep a cid ms0 ms _ (lockStep_of_g hsim.fs hgood.fs hk) hm)

/-- … for the observed client: it has an entry in the generated `RenetServer` table exactly when the generated
    `NetcodeServer::clients_id` lists it -/
theorem src_multi_lockstep_cid (a : AEAD) (hl : a.Laws) (cid : Nat) (ms0 : MS) (gm0 gm : GMS) (ops : List MOp)
    (hgood : MSGood ms0) (hsim : SimMS ms0 gm0) (hok : MSRunOK a cid ms0 ops) (hk : GLockStep gm0.g)
    (hr : gm0.run a cid ops = some gm) :
    ∃ ids, (Src.renetcode.server.NetcodeServer.clients_id gm.g.ts.netcode_server : Res Empty _) = .ok ids ∧
      ((gconn? gm.g.rs cid).isSome = true ↔ cid ∈ ids) := by
  obtain ⟨ids, h1, -, h3, -⟩ := src_multi_lockstep a hl cid ms0 gm0 gm ops hgood hsim hok hk hr
  exact ⟨ids, h1, h3 cid⟩

/-- … and right after every generated `NetcodeServerTransport::update` the generated `RenetServer::disconnections_id` is
    empty: no disconnected connection remains in the generated table, for whichever client -/
theorem src_multi_lockstep_after_update (a : AEAD) (hl : a.Laws) (cid : Nat) (ms0 : MS) (gm0 gm : GMS) (ops : List MOp)
    (d : Nat) (inbox : List Dgram) (hgood : MSGood ms0) (hsim : SimMS ms0 gm0)
    (hok : MSRunOK a cid ms0 (ops ++ [.base (.srvUpdate d inbox)])) (hk : GLockStep gm0.g)
    (hr : gm0.run a cid (ops ++ [.base (.srvUpdate d inbox)]) = some gm) : GLockStep gm.g ∧ GNoDead gm.g := by
  obtain ⟨ms, hm, sim, -⟩ := mrun_gsim_conv a hl cid _ ms0 gm0 gm hgood hsim hok hr
  rw [List.map_append] at hm
  obtain ⟨q1, q2⟩ := C20M.multi_lockstep_after_update a cid ms0 ms (ops.map cutMOp) d
    (inbox.map (recvFrom C.TRANSPORT_SERVER_BUFFER)) (lockStep_of_g hsim.fs hgood.fs hk) hm
  exact ⟨glockStep_of sim.fs q1, gnoDead_of sim.fs q1.sorted q2⟩

/-! ## (3) frame -/

/-- **Frame, generated code.**  At any moment of a generated run: the generated `send_message(id, …)`,
    `receive_message(id, …)`, `disconnect(id)` for `id ≠ cid`, the generated `broadcast_message_except(cid, …)` and every
    generated call of the other client (`RenetClient::{send_message, receive_message, update, disconnect}`,
    `NetcodeClientTransport::{update, send_packets, disconnect}`) leave the observed client's generated transport and
    `RenetClient`, the generated `NetcodeServerTransport` (all slots), `cid`'s entry of the generated `RenetServer` table, the
    histories and the ghost logs exactly as they were. -/
theorem src_others_do_not_disturb (a : AEAD) (hl : a.Laws) (cid : Nat) (ms0 : MS) (gm0 gm gm' : GMS) (ops : List MOp) (op : MOp)
    (hgood : MSGood ms0) (hsim : SimMS ms0 gm0) (hok : MSRunOK a cid ms0 (ops ++ [op]))
    (hr : gm0.run a cid ops = some gm) (ho : isOther cid op = true) (hs : gm.step a cid op = some gm') :
    GSameForCid cid gm.g gm'.g := by
  have hok1 : MSRunOK a cid ms0 ops := msRunOK_prefix a cid ops _ ms0 hok
  obtain ⟨ms, hm, sim, hg⟩ := mrun_gsim_conv a hl cid ops ms0 gm0 gm hgood hsim hok1 hr
  obtain ⟨-, hrg, -⟩ := msRunOK_snoc a cid ops ms0 ms op hok hm
  exact gother_frame a cid hg sim op hrg ho hs

/-- … and, the other way round, every operation that is not the other client's leaves the other generated client
    (transport and `RenetClient`) unchanged — no hypothesis at all -/
theorem src_other_client_undisturbed (a : AEAD) (cid : Nat) (gm gm' : GMS) (op : MOp) (h : othAsCli op = none)
    (hs : gm.step a cid op = some gm') : gm'.to = gm.to ∧ gm'.ro = gm.ro :=
  gstep_other_client h hs

/-! ## (4) broadcasts -/

/-- **A generated broadcast is, for `cid`, exactly the generated `send_message(cid, …)`.**  Whenever the generated
    `RenetServer::broadcast_message(ch, m)` returns, the generated `RenetServer::send_message(cid, ch, m)` from the same
    generated state returns too, and the two resulting generated states are the same as far as `cid` is concerned. -/
theorem src_broadcast_is_send (a : AEAD) (hl : a.Laws) (cid : Nat) (ms0 : MS) (gm0 gm gm' : GMS) (ops : List MOp) (ch : Nat)
    (m : Bytes) (hgood : MSGood ms0) (hsim : SimMS ms0 gm0) (hok : MSRunOK a cid ms0 (ops ++ [.srvBroadcast ch m]))
    (hr : gm0.run a cid ops = some gm) (hs : gm.step a cid (.srvBroadcast ch m) = some gm') :
    ∃ g1, gm.g.step a cid (.srvSend ch m) = some g1 ∧ GSameForCid cid g1 gm'.g := by
  have hok1 : MSRunOK a cid ms0 ops := msRunOK_prefix a cid ops _ ms0 hok
  obtain ⟨ms, hm, sim, hg⟩ := mrun_gsim_conv a hl cid ops ms0 gm0 gm hgood hsim hok1 hr
  obtain ⟨-, hrg, -⟩ := msRunOK_snoc a cid ops ms0 ms _ hok hm
  exact gbroadcast_is_send a cid hg sim ch m hrg hs

/-- the same for the generated `broadcast_message_except(ex, ch, m)` with `ex ≠ cid` (for `ex = cid`:
    `src_others_do_not_disturb`) -/
theorem src_broadcast_except_is_send (a : AEAD) (hl : a.Laws) (cid : Nat) (ms0 : MS) (gm0 gm gm' : GMS) (ops : List MOp)
    (ex ch : Nat) (m : Bytes) (hne : ex ≠ cid) (hgood : MSGood ms0) (hsim : SimMS ms0 gm0)
    (hok : MSRunOK a cid ms0 (ops ++ [.srvBroadcastExcept ex ch m])) (hr : gm0.run a cid ops = some gm)
    (hs : gm.step a cid (.srvBroadcastExcept ex ch m) = some gm') :
    ∃ g1, gm.g.step a cid (.srvSend ch m) = some g1 ∧ GSameForCid cid g1 gm'.g := by
  have hok1 : MSRunOK a cid ms0 ops := msRunOK_prefix a cid ops _ ms0 hok
  obtain ⟨ms, hm, sim, hg⟩ := mrun_gsim_conv a hl cid ops ms0 gm0 gm hgood hsim hok1 hr
  obtain ⟨-, hrg, -⟩ := msRunOK_snoc a cid ops ms0 ms _ hok hm
  exact gbroadcastExcept_is_send a cid hg sim ex ch m hne hrg hs

/-! ## non-vacuity: the theorems APPLIED to the kernel-evaluated 38-operation generated run of `SrcPropsFullStackMulti.Ex`

  `grun : (gmOf ms0).run toyAead 7 ops = some gfin` is the kernel evaluation of the generated two-client session (client 9's
  handshake through the generated `NetcodeServerTransport::update`, generated broadcasts, per-id calls, both clients'
  traffic, client 9's disconnect).  Below every theorem of this file is applied to that run, or to the moment of that run at
  which the operation in question is executed (`grun_split`: the generated states before and after the operation are
  states of the evaluated run), with every hypothesis discharged; `gobs` evaluates in the kernel what the generated
  accessors return at those moments. -/
namespace Ex
open RenetVerif.C20 RenetVerif.SrcPropsFullStackMulti.Ex
open RenetVerif.C20M.Ex (h1 h2 h3 h4 h5 g1 g2 g3 g4 g5 t1 t3 toSrv9 opsMid)

/-- the generated start state is in lock-step (client 7 alone in both generated tables) -/
theorem g0_lockstep : GLockStep (gmOf ms0).g := glockStep_of (simMS_gmOf ms0).fs C20M.Ex.ms0_lockstep

/-- **`src_multi_lockstep` applied** to the generated run -/
theorem gfin_lockstep : GLockStep gfin.g :=
  src_multi_lockstep toyAead toyAead_laws 7 ms0 (gmOf ms0) gfin ops ms0_good (simMS_gmOf ms0) runOK g0_lockstep grun

/-- the run up to and including the server `update` that completes client 9's handshake -/
def opsH : List MOp := h1 ++ h2 ++ h3
def restH : List MOp := h5 ++ g1 ++ g2 ++ (g3 ++ g4 ++ g5)
theorem ops_splitH : ops = opsH ++ [.base (.srvUpdate 1000 (toSrv9 t3.emO t1.emO.length))] ++ restH := by
  simp only [C20M.Ex.ops, opsMid, opsH, restH, h4, List.append_assoc]

/-- the run up to the moment both clients are connected -/
def ops5 : List MOp := h1 ++ h2 ++ h3 ++ h4 ++ h5
def restB : List MOp := g1.drop 1 ++ g2 ++ (g3 ++ g4 ++ g5)
theorem ops_splitB : ops = ops5 ++ [.srvBroadcast 1 [5, 5]] ++ restB := by
  simp only [C20M.Ex.ops, opsMid, ops5, restB, g1, List.drop_succ_cons, List.drop_zero, List.append_assoc,
    List.cons_append, List.nil_append]

/-- … up to `broadcast_message_except(9, 1, [2])` … -/
def ops6 : List MOp := ops5 ++ [.srvBroadcast 1 [5, 5]]
def restE : List MOp := g1.drop 2 ++ g2 ++ (g3 ++ g4 ++ g5)
theorem ops_splitE : ops = ops6 ++ [.srvBroadcastExcept 9 1 [2]] ++ restE := by
  simp only [C20M.Ex.ops, opsMid, ops5, ops6, restE, g1, List.drop_succ_cons, List.drop_zero, List.append_assoc,
    List.cons_append, List.nil_append]

/-- … and up to `send_message(9, 1, [4])` -/
def ops7 : List MOp := ops6 ++ [.srvBroadcastExcept 9 1 [2]]
def restS : List MOp := g1.drop 3 ++ g2 ++ (g3 ++ g4 ++ g5)
theorem ops_splitS : ops = ops7 ++ [.srvSendTo 9 1 [4]] ++ restS := by
  simp only [C20M.Ex.ops, opsMid, ops5, ops6, ops7, restS, g1, List.drop_succ_cons, List.drop_zero, List.append_assoc,
    List.cons_append, List.nil_append]

theorem runOK_of_split {l1 : List MOp} {op : MOp} {l2 : List MOp} (h : ops = l1 ++ [op] ++ l2) :
    MSRunOK toyAead 7 ms0 (l1 ++ [op]) := by
  have := SrcPropsFullStackMulti.Ex.runOK
  rw [h] at this
  exact msRunOK_prefix toyAead 7 _ _ ms0 this

/-- **`src_multi_lockstep_after_update` applied**: the generated state right after the generated
    `NetcodeServerTransport::update` that completes client 9's handshake is a state of the evaluated run, in lock-step, and the
    generated `disconnections_id` is empty there -/
example : ∃ gm, (gmOf ms0).run toyAead 7 (opsH ++ [.base (.srvUpdate 1000 (toSrv9 t3.emO t1.emO.length))]) = some gm ∧
    gm.run toyAead 7 restH = some gfin ∧ GLockStep gm.g ∧ GNoDead gm.g := by
  have hr := grun
  rw [ops_splitH, gms_run_append] at hr
  cases h : (gmOf ms0).run toyAead 7 (opsH ++ [.base (.srvUpdate 1000 (toSrv9 t3.emO t1.emO.length))]) with
  | none => rw [h] at hr; cases hr
  | some gm =>
    rw [h] at hr
    exact ⟨gm, rfl, hr, src_multi_lockstep_after_update toyAead toyAead_laws 7 ms0 (gmOf ms0) gm opsH 1000 _ ms0_good
      (simMS_gmOf ms0) (runOK_of_split ops_splitH) g0_lockstep h⟩

/-- **`src_others_do_not_disturb` applied** to the generated `send_message(9, 1, [4])` of the run -/
example : ∃ gm gm', (gmOf ms0).run toyAead 7 ops7 = some gm ∧ gm.step toyAead 7 (.srvSendTo 9 1 [4]) = some gm' ∧
    gm'.run toyAead 7 restS = some gfin ∧ GSameForCid 7 gm.g gm'.g := by
  have hr := grun
  rw [ops_splitS] at hr
  obtain ⟨gm, gm', e1, e2, e3⟩ := grun_split toyAead 7 _ _ _ _ _ hr
  exact ⟨gm, gm', e1, e2, e3, src_others_do_not_disturb toyAead toyAead_laws 7 ms0 (gmOf ms0) gm gm' ops7 _ ms0_good
    (simMS_gmOf ms0) (runOK_of_split ops_splitS) e1 rfl e2⟩

/-- **`src_broadcast_except_is_send` applied** to the generated `broadcast_message_except(9, 1, [2])` of the run: for client 7
    it is the generated `send_message(7, 1, [2])` -/
example : ∃ gm gm' g1, (gmOf ms0).run toyAead 7 ops6 = some gm ∧
    gm.step toyAead 7 (.srvBroadcastExcept 9 1 [2]) = some gm' ∧ gm'.run toyAead 7 restE = some gfin ∧
    gm.g.step toyAead 7 (.srvSend 1 [2]) = some g1 ∧ GSameForCid 7 g1 gm'.g := by
  have hr := grun
  rw [ops_splitE] at hr
  obtain ⟨gm, gm', e1, e2, e3⟩ := grun_split toyAead 7 _ _ _ _ _ hr
  obtain ⟨g1, q1, q2⟩ := src_broadcast_except_is_send toyAead toyAead_laws 7 ms0 (gmOf ms0) gm gm' ops6 9 1 [2] (by decide)
    ms0_good (simMS_gmOf ms0) (runOK_of_split ops_splitE) e1 e2
  exact ⟨gm, gm', g1, e1, e2, e3, q1, q2⟩

/-- **`src_broadcast_is_send` applied** to the generated `broadcast_message(1, [5,5])` of the run -/
example : ∃ gm gm' g1, (gmOf ms0).run toyAead 7 ops5 = some gm ∧ gm.step toyAead 7 (.srvBroadcast 1 [5, 5]) = some gm' ∧
    gm'.run toyAead 7 restB = some gfin ∧ gm.g.step toyAead 7 (.srvSend 1 [5, 5]) = some g1 ∧ GSameForCid 7 g1 gm'.g := by
  have hr := grun
  rw [ops_splitB] at hr
  obtain ⟨gm, gm', e1, e2, e3⟩ := grun_split toyAead 7 _ _ _ _ _ hr
  obtain ⟨g1, q1, q2⟩ := src_broadcast_is_send toyAead toyAead_laws 7 ms0 (gmOf ms0) gm gm' ops5 1 [5, 5] ms0_good
    (simMS_gmOf ms0) (runOK_of_split ops_splitB) e1 e2
  exact ⟨gm, gm', g1, e1, e2, e3, q1, q2⟩

/-- … up to the other client's `send_message(1, [3,3])` -/
def ops8 : List MOp := ops7 ++ [.srvSendTo 9 1 [4], .srvSendTo 7 1 [9, 9]]
def restO : List MOp := g1.drop 5 ++ g2 ++ (g3 ++ g4 ++ g5)
theorem ops_splitO : ops = ops8 ++ [.othSend 1 [3, 3]] ++ restO := by
  simp only [C20M.Ex.ops, opsMid, ops5, ops6, ops7, ops8, restO, g1, List.drop_succ_cons, List.drop_zero, List.append_assoc,
    List.cons_append, List.nil_append]

/-- **`src_others_do_not_disturb` applied** to the other generated client's `RenetClient::send_message` of the run -/
example : ∃ gm gm', (gmOf ms0).run toyAead 7 ops8 = some gm ∧ gm.step toyAead 7 (.othSend 1 [3, 3]) = some gm' ∧
    gm'.run toyAead 7 restO = some gfin ∧ GSameForCid 7 gm.g gm'.g := by
  have hr := grun
  rw [ops_splitO] at hr
  obtain ⟨gm, gm', e1, e2, e3⟩ := grun_split toyAead 7 _ _ _ _ _ hr
  exact ⟨gm, gm', e1, e2, e3, src_others_do_not_disturb toyAead toyAead_laws 7 ms0 (gmOf ms0) gm gm' ops8 _ ms0_good
    (simMS_gmOf ms0) (runOK_of_split ops_splitO) e1 rfl e2⟩

/-! what the generated accessors return at those moments, evaluated by the kernel -/

def gH : GMS := ((gmOf ms0).run toyAead 7 (opsH ++ h4)).getD (gmOf ms0)
def g7 : GMS := ((gmOf ms0).run toyAead 7 ops7).getD (gmOf ms0)
def g7' : GMS := (g7.step toyAead 7 (.srvSendTo 9 1 [4])).getD g7

/-- after the handshake `update` both generated tables hold 7 and 9 and nobody is disconnected; the generated
    `send_message(9, 1, [4])` of the run CHANGED client 9's entry of the generated table (and, by the theorem, not client
    7's); at the end both generated tables hold client 7 alone -/
theorem gobs :
    ((Src.renetcode.server.NetcodeServer.clients_id gH.g.ts.netcode_server : Res Empty _) = .ok [7, 9] ∧
      (RenetServer.clients_id gH.g.rs : Res Empty _) = .ok [7, 9] ∧
      (RenetServer.disconnections_id gH.g.rs : Res Empty _) = .ok []) ∧
    (((gmOf ms0).run toyAead 7 ops7).isSome = true ∧ (g7.step toyAead 7 (.srvSendTo 9 1 [4])).isSome = true ∧
      decide (gconn? g7'.g.rs 9 = gconn? g7.g.rs 9) = false ∧ decide (gconn? g7'.g.rs 7 = gconn? g7.g.rs 7) = true) ∧
    ((Src.renetcode.server.NetcodeServer.clients_id gfin.g.ts.netcode_server : Res Empty _) = .ok [7] ∧
      (RenetServer.clients_id gfin.g.rs : Res Empty _) = .ok [7]) := by
  decide +kernel

/-- **`src_others_do_not_disturb` applied** to a generated `broadcast_message_except(7, 1, [3])` issued at the moment `g7` of
    the run (both clients connected): the side condition of the extended run is decided by evaluation, the generated call is
    evaluated by the kernel; it changed client 9's entry of the generated table (`gobsX`) and nothing of client 7's session -/
def g7x : GMS := (g7.step toyAead 7 (.srvBroadcastExcept 7 1 [3])).getD g7

theorem gobsX : (g7.step toyAead 7 (.srvBroadcastExcept 7 1 [3])).isSome = true ∧
    decide (gconn? g7x.g.rs 9 = gconn? g7.g.rs 9) = false := by
  decide +kernel

theorem runOK_X : MSRunOK toyAead 7 ms0 (ops7 ++ [.srvBroadcastExcept 7 1 [3]]) := by decide +kernel

example : GSameForCid 7 g7.g g7x.g :=
  src_others_do_not_disturb toyAead toyAead_laws 7 ms0 (gmOf ms0) g7 g7x ops7 _ ms0_good (simMS_gmOf ms0) runOK_X
    (some_getD gobs.2.1.1 _) rfl (some_getD gobsX.1 _)

end Ex

/-! `ExU` — ReliableUnordered with a second client around and generated broadcasts: the 15 operations of `C20M.ExU`
    (`broadcast_message(2, [8])`, flush, `broadcast_message_except(9, 2, [9])`, flush, …; the adversary delivers the LATER
    datagram first, replays) run through the GENERATED several-client stack by the kernel; `src_multi_unordered_once` applied
    to that run with every hypothesis discharged. -/
namespace ExU
open RenetVerif.C20

abbrev ms0 := C20M.ExU.ms0
abbrev ops := C20M.ExU.ops
abbrev cfg := C20F.ExU.cfg

theorem ms0_good : MSGood ms0 :=
  ⟨SrcPropsFullStack.ExU.fs0_good, SrcPropsFullStackMulti.Ex.o0_good.2, SrcPropsFullStackMulti.Ex.o0_good.1⟩

def gfin : GMS := ((gmOf ms0).run toyAead 7 ops).getD (gmOf ms0)

theorem cut_ops : ops.map cutMOp = ops := by decide +kernel
theorem runOK : MSRunOK toyAead 7 ms0 ops := by decide +kernel

/-- ONE kernel evaluation of the generated run: it returns normally; client 7 obtained `[9]`, then `[8]` (each once, out of
    order), the server obtained `[1]` once in spite of the replay; the counter conditions -/
theorem gall :
    ((gmOf ms0).run toyAead 7 ops).isSome = true ∧
    (gfin.g.subS 2 = [[8], [9]] ∧ gfin.g.obtC 2 = [[9], [8]] ∧ gfin.g.subC 2 = [[1]] ∧ gfin.g.obtS 2 = [[1]]) ∧
    (gfin.g.rc.packet_sequence ≤ Varint.MAX + 1 ∧ gfin.g.ySeq ≤ Varint.MAX + 1 ∧
      (∀ c ∈ cfg.send, c.id < 256 ∧ (gfin.g.subC c.id).length ≤ Varint.MAX + 1 ∧
        (gfin.g.subS c.id).length ≤ Varint.MAX + 1) ∧
      (∀ c ∈ cfg.send, ∀ m ∈ gfin.g.subC c.id ++ gfin.g.subCU c.id ++ gfin.g.subS c.id ++ gfin.g.subSU c.id,
        m.length ≤ MAX_NUM_SLICES * SLICE_SIZE)) := by
  decide +kernel

theorem grun : (gmOf ms0).run toyAead 7 ops = some gfin := some_getD gall.1 _

theorem gcountersUp : GCountersUp cfg gfin.g := by
  obtain ⟨h1, -, h3, h4⟩ := gall.2.2
  refine ⟨fun c hc => (h3 c hc).1, h1, fun c hc => (h3 c hc).2.1, fun c hc m hm => h4 c hc m ?_, fun c hc m hm => h4 c hc m ?_⟩
  · simp only [List.mem_append]; exact Or.inl (Or.inl (Or.inl hm))
  · simp only [List.mem_append]; exact Or.inl (Or.inl (Or.inr hm))

theorem gcountersDown : GCountersDown cfg gfin.g := by
  obtain ⟨-, h2, h3, h4⟩ := gall.2.2
  refine ⟨fun c hc => (h3 c hc).1, h2, fun c hc => (h3 c hc).2.2, fun c hc m hm => h4 c hc m ?_, fun c hc m hm => h4 c hc m ?_⟩
  · simp only [List.mem_append]; exact Or.inl (Or.inr hm)
  · simp only [List.mem_append]; exact Or.inr hm

/-- **`src_multi_unordered_once` applied** to the generated run (all hypotheses discharged), both directions -/
example : (∃ ids : List Nat, ids.Nodup ∧ (gfin.g.obtS 2).map some = ids.map (fun id => (gfin.g.subC 2)[id]?)) ∧
    (∃ ids : List Nat, ids.Nodup ∧ (gfin.g.obtC 2).map some = ids.map (fun id => (gfin.g.subS 2)[id]?)) :=
  let h := src_multi_unordered_once toyAead toyAead_laws cfg 7 ms0 (gmOf ms0) gfin ops C20F.ExU.fs0_established ms0_good
    (simMS_gmOf ms0) grun runOK (by rw [cut_ops]; exact C20M.ExU.noForgery) (by rw [cut_ops]; exact C20M.ExU.singleSession)
  ⟨h.1 gcountersUp 2 C20F.ExU.unordered2, h.2 gcountersDown 2 C20F.ExU.unordered2⟩

/-- what the generated code did (witness `ids = [1, 0]` server → client 7) -/
example : gfin.g.subS 2 = [[8], [9]] ∧ gfin.g.obtC 2 = [[9], [8]] ∧ gfin.g.subC 2 = [[1]] ∧ gfin.g.obtS 2 = [[1]] :=
  gall.2.1

end ExU

end RenetVerif.SrcPropsFullStackMulti2
