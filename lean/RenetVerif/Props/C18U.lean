/-
  C18 — Netcode liveness, the steady state of an established session (what Props/C18.lean, C18P.lean, C18T.lean leave
  open).

  A.  `client_never_timed_out`: the CLIENT-side analogue of `C18T.never_timed_out`.  Over every trace of client
      operations (`COp`: `update(d)`, `process_packet` on ANY bytes, `generate_payload_packet`, in any interleaving) a
      connected client that is fresh — most recent authentic packet at most `timeout` old — at every `update`, and
      that receives no authentic Disconnect packet, stays `Connected` with its token (keys, protocol id, timeout), id
      and server address.  The receive timer is *exactly* the ghost timer "time of the last authentic KeepAlive /
      Payload": forged / replayed / malformed datagrams move neither.

  B.  `session_stays_alive`: keep-alive traffic alone keeps BOTH ends connected.  From an `Established` pair whose two
      sides are in step (`Linked`), after ANY number `n` of lossless rounds (`NcLive2.round`: `server.update(d)`;
      `client.update(d)` → its keep-alive to the server's `process_packet`; `server.update_client(id)` → its
      keep-alive to the client's `process_packet`) of length `d` with both send rates `≤ d ≤` timeout, the pair is
      `Established` and in step again, and the server reported nothing but keep-alives to send.
      `session_stays_alive_lossy`: any schedule of `delivered` / `upLost` / `downLost` rounds in which each side's
      silence stays within its timeout (`SchedOK`).  `connect_and_stay_alive`: handshake (C18T B1) + schedule, all
      hypotheses on the initial states.

  C.  `silent_peer_times_out_once`: the `update_client` that finds the session timed out reports
      `ClientDisconnected id` — and over the rest of ANY trace in which no new handshake of `id` completes nothing
      reports it again; `update_client id` returns `None` from then on.

  Sign conventions checked against client.rs / server.rs: `timeout_seconds > 0 && last + timeout < now` (strict; a
  non-positive timeout disables the time-out), client gate `now - last_send < send_rate ⇒ nothing`, server keep-alive
  due when `last_send + NETCODE_SEND_RATE ≤ now`.  Proofs: Lemmas/NcLive3.lean; nothing is assumed of the AEAD beyond
  `AEAD.Laws`.
-/
import RenetVerif.Lemmas.NcLive3
import RenetVerif.Props.C18T
namespace RenetVerif.C18U
open RenetVerif RenetVerif.Netcode RenetVerif.Netcode.NS RenetVerif.NcLive2 RenetVerif.NcLive3

/-! ## A. a fresh connected client is never timed out — whole traces -/

/-- **`client_never_timed_out`** — a client at which authentic packets of the server keep arriving within every
    timeout period is never timed out.

    `ops` is any trace of client operations run from a `Connected` client `c` (`runCOps`: the trace runs to its end,
    results `rs`, final state `c'`).  `CFresh a c c.lastPacketReceivedTime ops` is the trace hypothesis
    (`cFresh_step`, `allowed_*`, `lastAfter_*` below spell it out): with `last` := the time, on the client's clock, of
    the most recent datagram that was `CAuthentic` — decoded under the server-to-client key, passed the replay
    window, KeepAlive or Payload —, initially the client's receive timer,
      * at every `update(d)`: the token's timeout is not positive, or `now + d ≤ last + timeout`;
      * no datagram decodes, under that key and window, to a Disconnect packet.
    Everything else is unconstrained: forged / replayed / malformed datagrams, other packet kinds, payloads.

    Then the client is still `Connected` (no disconnect reason), with the same connect token — hence the same keys,
    protocol id and timeout —, client id, server address and index, send rate; sequence number and clock only grew;
    and its receive timer equals the ghost timer at the end of the trace (`cLastRun`). -/
theorem client_never_timed_out (a : AEAD) {c c' : NetcodeClient} {ops : List COp} {rs : List COut}
    (hst : c.state = .connected) (hfresh : CFresh a c c.lastPacketReceivedTime ops)
    (hrun : runCOps a c ops = some (rs, c')) :
    c'.state = .connected ∧ c'.disconnectReason = none ∧ CKeeps c c' ∧
      c'.lastPacketReceivedTime = cLastRun a c c.lastPacketReceivedTime ops := by
  obtain ⟨h1, h2, _, h4⟩ := crun_keeps ops hst (Nat.le_refl _) hfresh hrun
  refine ⟨h1, ?_, h2, (h4 rfl).symm⟩
  unfold NetcodeClient.disconnectReason
  rw [h1]

/-- … with a ghost timer that is only known to be a lower bound of the receive timer -/
theorem client_never_timed_out_from (a : AEAD) {c c' : NetcodeClient} {ops : List COp} {rs : List COut} {last : Nat}
    (hst : c.state = .connected) (hlast : last ≤ c.lastPacketReceivedTime) (hfresh : CFresh a c last ops)
    (hrun : runCOps a c ops = some (rs, c')) :
    c'.state = .connected ∧ CKeeps c c' ∧ cLastRun a c last ops ≤ c'.lastPacketReceivedTime := by
  obtain ⟨h1, h2, h3, _⟩ := crun_keeps ops hst hlast hfresh hrun
  exact ⟨h1, h2, h3⟩

/-- … and so at every point of the trace: the client is never `Disconnected _` -/
theorem client_never_timed_out_throughout (a : AEAD) {c c₁ : NetcodeClient} {ops₁ ops₂ : List COp} {rs₁ : List COut}
    (hst : c.state = .connected) (hfresh : CFresh a c c.lastPacketReceivedTime (ops₁ ++ ops₂))
    (hrun : runCOps a c ops₁ = some (rs₁, c₁)) :
    c₁.state = .connected ∧ c₁.isDisconnected = false ∧ CKeeps c c₁ := by
  obtain ⟨h1, _, h3, _⟩ := client_never_timed_out a hst (cFresh_prefix hfresh) hrun
  refine ⟨h1, ?_, h3⟩
  unfold NetcodeClient.isDisconnected
  rw [h1]

/-- the trace hypothesis, one operation at a time -/
theorem cFresh_step {a : AEAD} {c : NetcodeClient} {last : Nat} {op : COp} {rest : List COp} :
    CFresh a c last (op :: rest) ↔
      cOpAllowed a c last op = true ∧
      ∀ r c', cstep a c op = some (r, c') → CFresh a c' (cLastAfter a c last op) rest := cFresh_cons

/-- `update(d)` is allowed iff the client is fresh: timeout not positive, or `now + d ≤ last + timeout` -/
theorem allowed_update {a : AEAD} {c : NetcodeClient} {last d : Nat} :
    cOpAllowed a c last (.update d) = true ↔
      (c.connectToken.timeoutSeconds ≤ 0 ∨
        c.currentTime + d ≤ last + fromSecs c.connectToken.timeoutSeconds.toNat) := by
  simp only [cOpAllowed, decide_eq_true_eq]
  exact Iff.rfl
/-- a datagram is allowed unless it is the server's authentic Disconnect packet -/
theorem allowed_packet {a : AEAD} {c : NetcodeClient} {last : Nat} {buf : Bytes} :
    cOpAllowed a c last (.packet buf) = true ↔ ¬ CAuthDisconnect a c buf := by
  simp only [cOpAllowed, Bool.not_eq_true', ← cAuthDisconnectB_iff]
  cases cAuthDisconnectB a c buf <;> simp
/-- `generate_payload_packet` is always allowed -/
theorem allowed_sendPayload {a : AEAD} {c : NetcodeClient} {last : Nat} {p : Bytes} :
    cOpAllowed a c last (.sendPayload p) = true := rfl

/-- the ghost timer moves exactly on a `CAuthentic` datagram, and then becomes the client's clock -/
theorem lastAfter_packet {a : AEAD} {c : NetcodeClient} {last : Nat} {buf : Bytes} :
    (CAuthentic a c buf → cLastAfter a c last (.packet buf) = c.currentTime) ∧
    (¬ CAuthentic a c buf → cLastAfter a c last (.packet buf) = last) := by
  rw [cLastAfter_packet, ← cAuthenticB_iff]
  constructor
  · intro h; rw [if_pos h]
  · intro h; rw [if_neg h]
theorem lastAfter_other {a : AEAD} {c : NetcodeClient} {last : Nat} {op : COp} (h : ∀ buf, op ≠ .packet buf) :
    cLastAfter a c last op = last := by
  cases op with
  | packet buf => exact absurd rfl (h buf)
  | _ => rfl

/-- **the real timer follows the ghost timer**: `process_packet` on a connected client moves the receive timer
    exactly when the datagram is `CAuthentic` (then to `now`); any other datagram that is not the authentic Disconnect
    leaves the client `Connected` with its timer untouched -/
theorem timer_moves_iff_authentic {a : AEAD} {c c' : NetcodeClient} {buf : Bytes} {r : Option Bytes}
    (hst : c.state = .connected) (hnd : ¬ CAuthDisconnect a c buf) (h : c.processPacket a buf = .ok (r, c')) :
    c'.state = .connected ∧
    (CAuthentic a c buf → c'.lastPacketReceivedTime = c.currentTime) ∧
    (¬ CAuthentic a c buf → c'.lastPacketReceivedTime = c.lastPacketReceivedTime) := by
  obtain ⟨_, _, _, _, h5⟩ := pp_connected hst h
  rcases h5 with ⟨hd, _⟩ | ⟨_, h6, h7⟩
  · exact absurd (cAuthDisconnectB_iff.mp hd) hnd
  · refine ⟨h6, ?_, ?_⟩
    · intro hau; rw [h7, if_pos (cAuthenticB_iff.mpr hau)]
    · intro hau
      rw [h7, if_neg]
      rw [cAuthenticB_iff]; exact hau

/-- `CAuthentic` means: the AEAD opened the body under the server-to-client key with nonce = the datagram's sequence
    number and AAD = version ‖ protocol id ‖ prefix byte, **and** the client's replay window had not seen that
    sequence number -/
theorem authentic_means {a : AEAD} {c : NetcodeClient} {buf : Bytes} (h : CAuthentic a c buf) :
    ∃ ty plain, Packet.SealedOpen a buf c.connectToken.protocolId c.connectToken.serverToClientKey ty plain ∧
      (ty = .keepAlive ∨ ty = .payload) ∧
      c.replayProtection.alreadyReceived (Packet.wireSeq buf) = false := cAuthentic_opens h

/-- **forged or replayed datagrams do not postpone the client's time-out**: a datagram whose body the AEAD does not
    open under the server-to-client key, or whose sequence number the window has already seen, is not `CAuthentic` -/
theorem forged_or_replayed_not_authentic {a : AEAD} {c : NetcodeClient} {buf : Bytes}
    (h : a.open c.connectToken.serverToClientKey (Packet.nonce (Packet.wireSeq buf))
          (Packet.additionalData (Packet.wirePrefix buf) c.connectToken.protocolId) (Packet.wireBody buf) = none ∨
      c.replayProtection.alreadyReceived (Packet.wireSeq buf) = true) : ¬ CAuthentic a c buf := by
  intro hau
  obtain ⟨ty, plain, hso, _, hw⟩ := cAuthentic_opens hau
  rcases h with h | h
  · rw [hso.opened] at h; cases h
  · rw [h] at hw; cases hw

/-! ## B. keep-alive traffic keeps both ends alive

  Vocabulary (Lemmas/NcLive2.lean, NcLive3.lean):
  * `Established addr t expire c s` — the client is `Connected`, the server (`ServerInv`) holds a session with the
    identity the token `t` gives (id, user data, keys, timeout, expiry) and address `addr`;
  * `Linked me t c s` — the two sides are in step: the client's token carries `t`'s keys and the server's protocol
    id, it talks to `me`, its timers are not in the future, each replay window is open above the peer's next sequence
    number.  (What the handshake establishes: `connect_and_stay_alive` needs no such hypothesis.)
  * `runRoundsEv a addr me id sched (c, s)` — `NcLive2.runRounds` also returning what the server reported, two
    results per round (`process_packet`, `update_client`); `Quiet addr r`: `r` is `None` or `PacketToSend addr _`;
  * `Within tmo x` — `tmo ≤ 0` (no time-out) or `x ≤ tmo` seconds. -/

section B
variable {a : AEAD} {addr me : Addr} {t : PrivateConnectToken} {expire : Nat}

/-- a quiet result is no disconnect report -/
theorem quiet_not_disconnect {r : ServerResult} (h : Quiet addr r) (id : Nat) (ad : Addr) (o : Option Bytes) :
    r ≠ .clientDisconnected id ad o := by
  rcases h with rfl | ⟨ka, rfl⟩ <;> (intro e; cases e)

/-- **`session_stays_alive_lossy`** — any schedule of rounds (`delivered`, `upLost`, `downLost`; any lengths ≥ the
    two send rates) keeps an established, linked pair up, provided `SchedOK`: counted from `ec` / `es` (how long ago
    the client / the server last heard its peer), the client's silence — reset by every `delivered` round — stays
    within the client's timeout at each of its `update`s, and the server's silence — reset by every round that is not
    `upLost` — stays within the session's timeout at the `update_client` of every `upLost` round.
    Range hypotheses (checked arithmetic in the model, as in the Rust debug build): both sequence numbers have room
    for one packet per round, both clocks for the schedule's duration plus the timeout addition.

    Then the schedule runs (`runRoundsEv`, hence `runRounds`) and ends with the pair `Established` and `Linked`
    again, the client `Connected` without disconnect reason, the id connected on the server; both clocks advanced by
    exactly the schedule's duration; every one of the `2 * rounds` server results is quiet — no `ClientDisconnected`
    for anybody. -/
theorem session_stays_alive_lossy (hl : a.Laws) {c : NetcodeClient} {s : NetcodeServer} {sched : List (Fate × Nat)}
    {ec es : Nat} (hE : Established addr t expire c s) (hL : Linked me t c s)
    (hec : c.currentTime ≤ c.lastPacketReceivedTime + ec)
    (hes : ∀ cn, findClientById s.clients t.clientId = some cn → s.currentTime ≤ cn.lastPacketReceivedTime + es)
    (hok : SchedOK c.sendRate c.connectToken.timeoutSeconds t.timeoutSeconds ec es sched)
    (hcseq : c.sequence + sched.length < U64_MAX)
    (hsseq : ∀ cn, findClientById s.clients t.clientId = some cn → cn.sequence + sched.length < U64_MAX)
    (hcclk : c.currentTime + totalTime sched + fromSecs c.connectToken.timeoutSeconds.toNat ≤ DURATION_MAX)
    (hsclk : s.currentTime + totalTime sched + fromSecs (2 ^ 31) ≤ DURATION_MAX) :
    ∃ c' s' evs, runRoundsEv a addr me t.clientId sched (c, s) = some ((c', s'), evs) ∧
      runRounds a addr me t.clientId sched (c, s) = some (c', s') ∧
      Established addr t expire c' s' ∧ Linked me t c' s' ∧
      c'.state = .connected ∧ c'.disconnectReason = none ∧ s'.isClientConnected t.clientId = true ∧
      c'.currentTime = c.currentTime + totalTime sched ∧ s'.currentTime = s.currentTime + totalTime sched ∧
      (∀ r ∈ evs, Quiet addr r) ∧ (∀ id ad o, ServerResult.clientDisconnected id ad o ∉ evs) ∧
      evs.length = 2 * sched.length := by
  have hst : Steady a addr me t expire c ec es (0 + sched.length) c s :=
    steady_of_established hE hL hec (by omega) fun cn h => ⟨by have := hsseq cn h; omega, hes cn h⟩
  obtain ⟨c', s', evs, hr, hst', ht, hs, hq, hlen⟩ := steady_run hl sched hst hok hcclk hsclk
  have hE' := hst'.established
  refine ⟨c', s', evs, hr, by rw [runRounds_of_ev, hr]; rfl, hE', hst'.linked, hst'.cst, ?_, hE'.isClientConnected, ht, hs,
    hq, fun id ad o hm => quiet_not_disconnect (hq _ hm) id ad o rfl, hlen⟩
  unfold NetcodeClient.disconnectReason
  rw [hst'.cst]

/-- … and so after every prefix of the schedule: the pair is `Established` at every round boundary -/
theorem session_stays_alive_lossy_throughout (hl : a.Laws) {c : NetcodeClient} {s : NetcodeServer}
    {sched₁ sched₂ : List (Fate × Nat)} {ec es : Nat} (hE : Established addr t expire c s) (hL : Linked me t c s)
    (hec : c.currentTime ≤ c.lastPacketReceivedTime + ec)
    (hes : ∀ cn, findClientById s.clients t.clientId = some cn → s.currentTime ≤ cn.lastPacketReceivedTime + es)
    (hok : SchedOK c.sendRate c.connectToken.timeoutSeconds t.timeoutSeconds ec es (sched₁ ++ sched₂))
    (hcseq : c.sequence + (sched₁ ++ sched₂).length < U64_MAX)
    (hsseq : ∀ cn, findClientById s.clients t.clientId = some cn → cn.sequence + (sched₁ ++ sched₂).length < U64_MAX)
    (hcclk : c.currentTime + totalTime (sched₁ ++ sched₂) + fromSecs c.connectToken.timeoutSeconds.toNat ≤ DURATION_MAX)
    (hsclk : s.currentTime + totalTime (sched₁ ++ sched₂) + fromSecs (2 ^ 31) ≤ DURATION_MAX) :
    ∃ c₁ s₁, runRounds a addr me t.clientId sched₁ (c, s) = some (c₁, s₁) ∧ Established addr t expire c₁ s₁ ∧
      c₁.disconnectReason = none ∧ s₁.isClientConnected t.clientId = true := by
  rw [List.length_append] at hcseq hsseq
  rw [totalTime_append] at hcclk hsclk
  obtain ⟨c₁, s₁, _, _, h2, h3, _, _, h5, h6, _⟩ := session_stays_alive_lossy (me := me) hl hE hL hec hes
    (schedOK_prefix hok) (by omega) (fun cn h => by have := hsseq cn h; omega) (by omega) (by omega)
  exact ⟨c₁, s₁, h2, h3, h5, h6⟩

/-- **`session_stays_alive`** — `n` lossless rounds of `d` nanoseconds each, for ANY `n`: with the client's send rate
    and `NETCODE_SEND_RATE` at most `d` (each side's gate is open in each round, so each round carries a keep-alive in
    both directions) and `d` within the client's timeout — counted, for the first round, from when the client last
    heard the server (`hfirst`; non-strict, as the model's test is `last + timeout < now`).  The server side needs
    no condition on `d`: it tests the session's timer in `update_client`, after the round's keep-alive arrived.
    Range hypotheses: sequence numbers `+ n`, clocks `+ n * d` (plus the timeout addition). -/
theorem session_stays_alive (hl : a.Laws) {c : NetcodeClient} {s : NetcodeServer} {n d : Nat}
    (hE : Established addr t expire c s) (hL : Linked me t c s)
    (hrc : c.sendRate ≤ d) (hrs : Netcode.C.NETCODE_SEND_RATE_NS ≤ d)
    (hfirst : Within c.connectToken.timeoutSeconds (c.currentTime - c.lastPacketReceivedTime + d))
    (hcseq : c.sequence + n < U64_MAX)
    (hsseq : ∀ cn, findClientById s.clients t.clientId = some cn → cn.sequence + n < U64_MAX)
    (hcclk : c.currentTime + n * d + fromSecs c.connectToken.timeoutSeconds.toNat ≤ DURATION_MAX)
    (hsclk : s.currentTime + n * d + fromSecs (2 ^ 31) ≤ DURATION_MAX) :
    ∃ c' s' evs, runRoundsEv a addr me t.clientId (List.replicate n (.delivered, d)) (c, s) = some ((c', s'), evs) ∧
      runRounds a addr me t.clientId (List.replicate n (.delivered, d)) (c, s) = some (c', s') ∧
      Established addr t expire c' s' ∧ Linked me t c' s' ∧
      c'.state = .connected ∧ c'.disconnectReason = none ∧ s'.isClientConnected t.clientId = true ∧
      c'.currentTime = c.currentTime + n * d ∧ s'.currentTime = s.currentTime + n * d ∧
      (∀ r ∈ evs, Quiet addr r) ∧ (∀ id ad o, ServerResult.clientDisconnected id ad o ∉ evs) ∧
      evs.length = 2 * n := by
  have hd : Within c.connectToken.timeoutSeconds d := by
    rcases hfirst with h | h
    · exact Or.inl h
    · exact Or.inr (by omega)
  have hok : SchedOK c.sendRate c.connectToken.timeoutSeconds t.timeoutSeconds
      (c.currentTime - c.lastPacketReceivedTime) s.currentTime (List.replicate n (.delivered, d)) :=
    schedOK_replicate hrc hrs hd n hfirst
  have h := session_stays_alive_lossy (me := me) hl hE hL (ec := c.currentTime - c.lastPacketReceivedTime)
    (es := s.currentTime) (by omega) (fun _ _ => Nat.le_add_left _ _) hok
    (by rw [List.length_replicate]; exact hcseq) (by rw [List.length_replicate]; exact hsseq)
    (by rw [totalTime_replicate]; exact hcclk) (by rw [totalTime_replicate]; exact hsclk)
  rw [totalTime_replicate, List.length_replicate] at h
  exact h

/-- **`connect_and_stay_alive`** — the whole life of a session with all hypotheses on the *initial* states: a client
    that has not sent anything yet and an open server (`C18T.handshake_through_update`'s hypotheses) connect in two
    delivered rounds `d₁`, `d₂`, and then survive any schedule satisfying `SchedOK` (from silence 0 on both sides).
    `Budget`: the handshake fits the token's window / time-out and the counters have room for the handshake and one
    packet per later round. -/
theorem connect_and_stay_alive {s0 : NetcodeServer} {xnonce : Bytes} (hT : TokOK a s0 t expire xnonce)
    {c0 : NetcodeClient} {s : NetcodeServer} {d₁ d₂ : Nat} {sched : List (Fate × Nat)}
    (hc : CliReq a s0 t expire xnonce c0) (hsend : c0.lastPacketSendTime = none) (hme : c0.serverAddr = me)
    (hs : SrvOpen a s0 addr t expire xnonce s) (hb : Budget t expire c0 s (d₁ + d₂) (sched.length + 2))
    (hok : SchedOK c0.sendRate c0.connectToken.timeoutSeconds t.timeoutSeconds 0 0 sched)
    (hcclk : c0.currentTime + d₁ + d₂ + totalTime sched + fromSecs c0.connectToken.timeoutSeconds.toNat ≤ DURATION_MAX)
    (hsclk : s.currentTime + d₁ + d₂ + totalTime sched + fromSecs (2 ^ 31) ≤ DURATION_MAX) :
    ∃ c2 s2 c' s' evs,
      runRounds a addr me t.clientId [(.delivered, d₁), (.delivered, d₂)] (c0, s) = some (c2, s2) ∧
      Established addr t expire c2 s2 ∧
      runRoundsEv a addr me t.clientId sched (c2, s2) = some ((c', s'), evs) ∧
      runRounds a addr me t.clientId ([(.delivered, d₁), (.delivered, d₂)] ++ sched) (c0, s) = some (c', s') ∧
      Established addr t expire c' s' ∧ c'.state = .connected ∧ s'.isClientConnected t.clientId = true ∧
      c'.currentTime = c0.currentTime + d₁ + d₂ + totalTime sched ∧
      s'.currentTime = s.currentTime + d₁ + d₂ + totalTime sched ∧
      (∀ r ∈ evs, Quiet addr r) ∧ (∀ id ad o, ServerResult.clientDisconnected id ad o ∉ evs) := by
  obtain ⟨c1, s1, c2, s2, hr1, hr2, hst, ht, hs'⟩ := handshake_steady (me := me) (d₁ := d₁) (d₂ := d₂)
    (N := 0 + sched.length) hT hc hsend hme hs (by rw [Nat.zero_add]; exact hb)
  obtain ⟨c', s', evs, hr, hst', ht', hs'', hq, _⟩ := steady_run hT.laws sched hst hok (by rw [ht]; exact hcclk)
    (by rw [hs']; exact hsclk)
  have h12 : runRounds a addr me t.clientId [(.delivered, d₁), (.delivered, d₂)] (c0, s) = some (c2, s2) :=
    runRounds_two hr1 hr2
  have hE' := hst'.established
  refine ⟨c2, s2, c', s', evs, h12, hst.established, hr, ?_, hE', hst'.cst, hE'.isClientConnected, by rw [ht', ht],
    by rw [hs'', hs'], hq, fun id ad o hm => quiet_not_disconnect (hq _ hm) id ad o rfl⟩
  rw [runRounds_append, h12, Option.bind_some, runRounds_of_ev, hr]
  rfl

end B

/-! ## C. a silent peer is reported exactly once -/

/-- **`silent_peer_times_out_once`** — the server has not heard an authentic packet of client `id` (slot `i`, session
    `c`) for more than the token's timeout: `timeout_seconds > 0` and `last_packet_received_time + timeout < now`
    (`C18T.never_timed_out` covers the time before).  Run `update_client id` and then ANY trace `post` of server
    operations in which no new handshake of `id` completes (`hnc`: no result is `ClientConnected id`).  Then the first
    result is `ClientDisconnected id addr` and it is the only such report of the whole trace — **exactly once** —;
    afterwards `id` is not connected, and `update_client id` returns `None` and changes nothing (the slot is free). -/
theorem silent_peer_times_out_once (a : AEAD) {s s' : NetcodeServer} {id i : Nat} {c : Connection} {post : List Op}
    {rs : List ServerResult} (hi : ServerInv s) (hc : At s.clients i c) (hid : c.clientId = id)
    (hclock : s.currentTime + fromSecs (2 ^ 31) ≤ DURATION_MAX)
    (hto : c.timeoutSeconds > 0 ∧ c.lastPacketReceivedTime + fromSecs c.timeoutSeconds.toNat < s.currentTime)
    (hrun : runOps a s (.updateClient id :: post) = some (rs, s'))
    (hnc : ∀ ad ud ka, ServerResult.clientConnected id ad ud ka ∉ rs) :
    ∃ o rs', rs = .clientDisconnected id c.addr o :: rs' ∧
      (∀ ad o', ServerResult.clientDisconnected id ad o' ∉ rs') ∧
      s'.isClientConnected id = false ∧ s'.updateClient a id = .ok (.none, s') ∧ ServerInv s' := by
  obtain ⟨r, s1, rs', hs, hr, rfl⟩ := runOps_cons hrun
  obtain ⟨o, hu⟩ := NS.server_timeout a hi hc hid hclock hto
  have hs1 := step_inv hi hs
  simp only [step, hu, Option.some.injEq, Prod.mk.injEq] at hs
  obtain ⟨rfl, rfl⟩ := hs
  have hn : NotConn id (s.clients.set i none) := by rw [← hid]; exact notConn_dropped hi hc
  obtain ⟨h1, h2, h3⟩ := run_notConn post hs1 hn hr fun ad ud ka hm => hnc ad ud ka (List.mem_cons_of_mem _ hm)
  exact ⟨o, rs', rfl, h1, notConn_isClientConnected h2, notConn_updateClient a h2, h3⟩

/-- … preceded by any trace in which the session was fresh: no report before, one at the time-out, none after -/
theorem fresh_then_silent_once (a : AEAD) {s s₁ s' : NetcodeServer} {id i : Nat} {c : Connection}
    {pre post : List Op} {rs₁ rs : List ServerResult} (hi : ServerInv s) (hc : At s.clients i c) (hid : c.clientId = id)
    (hfresh : Fresh a id s c.lastPacketReceivedTime pre) (hpre : runOps a s pre = some (rs₁, s₁))
    (hclock : s₁.currentTime + fromSecs (2 ^ 31) ≤ DURATION_MAX)
    (hto : ∀ c₁, At s₁.clients i c₁ →
      c₁.timeoutSeconds > 0 ∧ c₁.lastPacketReceivedTime + fromSecs c₁.timeoutSeconds.toNat < s₁.currentTime)
    (hrun : runOps a s₁ (.updateClient id :: post) = some (rs, s'))
    (hnc : ∀ ad ud ka, ServerResult.clientConnected id ad ud ka ∉ rs) :
    (∀ ad o, ServerResult.clientDisconnected id ad o ∉ rs₁) ∧
    ∃ o rs', rs = .clientDisconnected id c.addr o :: rs' ∧
      (∀ ad o', ServerResult.clientDisconnected id ad o' ∉ rs') ∧
      s'.isClientConnected id = false ∧ s'.updateClient a id = .ok (.none, s') := by
  obtain ⟨⟨c₁, hc₁, hident⟩, _, hnd, hi₁⟩ := C18T.never_timed_out a hi hc hid hfresh hpre
  obtain ⟨o, rs', h1, h2, h3, h4, _⟩ := silent_peer_times_out_once a hi₁ hc₁ (by rw [ident_id hident, hid]) hclock
    (hto c₁ hc₁) hrun hnc
  exact ⟨hnd, o, rs', by rw [h1, ident_addr hident], h2, h3, h4⟩

/-! ## examples: the hypotheses are satisfiable -/
section Examples
open Ex

/-! ### A — client A of Lemmas/NcExamples.lean (`cA4`: connected at 0.25 s, receive timer 0.25 s, timeout 5 s, replay
    window holding sequence 0), AEAD `Ex.a` -/

/-- the server's keep-alive with sequence number 1; a keep-alive-shaped datagram with a wrong tag; the server's
    Disconnect packet with sequence number 2 -/
def kaS1 : Bytes := 20 :: 1 :: (leBytes 0 4 ++ leBytes 2 4 ++ List.replicate 16 0)
def forgedS : Bytes := 20 :: 2 :: (leBytes 0 4 ++ leBytes 2 4 ++ List.replicate 15 0 ++ [1])
def discS : Bytes := 22 :: 2 :: List.replicate 16 0

/-- 4 s pass, the authentic keep-alive arrives (`last` := 4.25 s), 5 more seconds pass (now 9.25 s = `last` + timeout:
    the boundary), a forged keep-alive, the same keep-alive again (replay), a Challenge (wrong kind for a connected
    client), a payload is sent, a zero-length update -/
def traceCl : List COp :=
  [.update 4000000000, .packet kaS1, .update 5000000000, .packet forgedS, .packet kaS1, .packet chalA,
   .sendPayload [7, 7], .update 0]

theorem traceCl_fresh : CFresh Ex.a cA4 cA4.lastPacketReceivedTime traceCl := by decide +kernel
theorem traceCl_runs : (runCOps Ex.a cA4 traceCl).isSome = true := by decide +kernel

example : ∃ rs c', runCOps Ex.a cA4 traceCl = some (rs, c') ∧ c'.state = .connected ∧ c'.disconnectReason = none ∧
    CKeeps cA4 c' ∧ c'.lastPacketReceivedTime = cLastRun Ex.a cA4 cA4.lastPacketReceivedTime traceCl := by
  cases h : runCOps Ex.a cA4 traceCl with
  | none => have := traceCl_runs; rw [h] at this; cases this
  | some x =>
    obtain ⟨rs, c'⟩ := x
    exact ⟨rs, c', rfl, client_never_timed_out Ex.a rfl traceCl_fresh h⟩
/-- the ghost timer at the end of that trace is 4.25 s: only the first delivery of the keep-alive counted -/
example : cLastRun Ex.a cA4 cA4.lastPacketReceivedTime traceCl = 4250000000 := by decide +kernel
/-- … and in the middle of the trace -/
example : ∀ rs c', runCOps Ex.a cA4 (traceCl.take 5) = some (rs, c') → c'.isDisconnected = false :=
  fun rs c' h => (client_never_timed_out_throughout Ex.a (ops₁ := traceCl.take 5) (ops₂ := traceCl.drop 5) rfl
    (by rw [List.take_append_drop]; exact traceCl_fresh) h).2.1
/-- not vacuous the other way: without the keep-alive the second update is not fresh (and indeed times the client
    out); the server's Disconnect packet is not allowed -/
example : ¬ CFresh Ex.a cA4 cA4.lastPacketReceivedTime [.update 4000000000, .update 5000000000] := by decide +kernel
example : ¬ CFresh Ex.a cA4 cA4.lastPacketReceivedTime [.packet discS] := by decide +kernel
example : (match cA4.update Ex.a 5000000001 with
    | .ok (_, c') => c'.state
    | _ => .connected) = .disconnected .connectionTimedOut := by decide +kernel
/-- the keep-alive is authentic for `cA4`, the forged one is not (the AEAD does not open it) -/
example : CAuthentic Ex.a cA4 kaS1 := cAuthenticB_iff.mp (by decide +kernel)
example : ¬ CAuthentic Ex.a cA4 forgedS := forged_or_replayed_not_authentic (Or.inl (by decide +kernel))

/-! ### B — the model's toy AEAD (`AEAD.toy_laws`), server `s0`, client `C18P.cT` with token `privA` (timeout 5 s) -/

/-- handshake in two rounds of 250 ms, then: a delivered round, a round whose answer is lost (2 s), a round lost on
    the way up (2 s: the client has now heard nothing for 4 s), a delivered round of 1 s (5 s = the timeout, the
    boundary) — both sides connected after 5.75 s, and the server never reported a disconnect -/
def schedB : List (Fate × Nat) :=
  [(.delivered, 250000000), (.downLost, 2000000000), (.upLost, 2000000000), (.delivered, 1000000000)]

example : ∃ c2 s2 c' s' evs,
    runRounds AEAD.toy addrA srvAddr privA.clientId [(.delivered, 250000000), (.delivered, 250000000)] (C18P.cT, s0) =
      some (c2, s2) ∧
    Established addrA privA 30 c2 s2 ∧
    runRoundsEv AEAD.toy addrA srvAddr privA.clientId schedB (c2, s2) = some ((c', s'), evs) ∧
    runRounds AEAD.toy addrA srvAddr privA.clientId
      ([(.delivered, 250000000), (.delivered, 250000000)] ++ schedB) (C18P.cT, s0) = some (c', s') ∧
    Established addrA privA 30 c' s' ∧ c'.state = .connected ∧ s'.isClientConnected privA.clientId = true ∧
    c'.currentTime = C18P.cT.currentTime + 250000000 + 250000000 + totalTime schedB ∧
    s'.currentTime = s0.currentTime + 250000000 + 250000000 + totalTime schedB ∧
    (∀ r ∈ evs, Quiet addrA r) ∧ (∀ id ad o, ServerResult.clientDisconnected id ad o ∉ evs) :=
  connect_and_stay_alive (me := srvAddr) C18T.tokOK_toy C18T.cliReq_cT rfl rfl C18T.srvOpen_s0
    ⟨⟨by decide, by decide, by decide, by decide, Or.inr (by decide)⟩, by decide, by decide, Or.inr (by decide),
      by decide, by decide, by decide⟩
    (by decide) (by decide) (by decide)

/-- the schedule condition is not vacuous: one more second of silence on the way down breaks it -/
example : ¬ SchedOK C18P.cT.sendRate C18P.cT.connectToken.timeoutSeconds privA.timeoutSeconds 0 0
    [(.delivered, 250000000), (.downLost, 2000000000), (.upLost, 2000000000), (.delivered, 1000000001)] := by decide

/-- `session_stays_alive` for every `n` up to a million: after the handshake, `n` lossless rounds of one second keep
    the pair established (hypotheses discharged from the `Steady` state the handshake ends in) -/
example : ∃ c2 s2, runRounds AEAD.toy addrA srvAddr privA.clientId [(.delivered, 250000000), (.delivered, 250000000)]
      (C18P.cT, s0) = some (c2, s2) ∧
    ∀ n, n ≤ 1000000 → ∃ c' s', runRounds AEAD.toy addrA srvAddr privA.clientId
        (List.replicate n (.delivered, 1000000000)) (c2, s2) = some (c', s') ∧
      Established addrA privA 30 c' s' ∧ c'.disconnectReason = none ∧
      s'.isClientConnected privA.clientId = true := by
  obtain ⟨c1, s1, c2, s2, hr1, hr2, hst, ht, hs'⟩ := handshake_steady (me := srvAddr) (d₁ := 250000000)
    (d₂ := 250000000) (N := 1000000) C18T.tokOK_toy C18T.cliReq_cT rfl rfl C18T.srvOpen_s0
    ⟨⟨by decide, by decide, by decide, by decide, Or.inr (by decide)⟩, by decide, by decide, Or.inr (by decide),
      by decide, by decide, by decide⟩
  refine ⟨c2, s2, runRounds_two hr1 hr2, fun n hn => ?_⟩
  have hL := hst.linked
  have hD : DURATION_MAX = 18446744073709551616000000000 - 1 := by decide
  have hF : fromSecs C18P.cT.connectToken.timeoutSeconds.toNat = 5000000000 := by decide
  have hF2 : fromSecs (2 ^ 31) = 2147483648000000000 := by decide
  have hU : U64_MAX = 18446744073709551615 := by decide
  have h0 : C18P.cT.currentTime = 0 := rfl
  have h0' : s0.currentTime = 0 := rfl
  have hcs := hst.cseq
  obtain ⟨i, cn, hat, hid, _, _, _, hsq⟩ := hst.sess
  have hf : findClientById s2.clients privA.clientId = some cn :=
    hst.inv.slots.findById_iff.mpr ⟨(identT_fields hid).1, i, hat⟩
  obtain ⟨c', s', evs, _, hrun, hE, _, _, hdr, hconn, _⟩ := session_stays_alive (me := srvAddr) (n := n)
    (d := 1000000000) AEAD.toy_laws hst.established hL (by rw [hst.rate]; decide) (by decide)
    (by rw [hst.tok]
        have := hst.heard
        have e : c2.currentTime - c2.lastPacketReceivedTime = 0 := by omega
        rw [e]; decide)
    (by omega) (fun cn' e => by rw [hf] at e; cases e; omega)
    (by rw [hst.tok, hF, ht, h0]; omega) (by rw [hs', h0', hF2]; omega)
  exact ⟨c', s', hrun, hE, hdr, hconn⟩

/-! ### C — server `s2late` of Lemmas/NcExamples.lean: A (id 11, slot 0, timeout 5 s) last heard at 0, now 5 s + 1 ns -/

/-- the tick that finds A timed out, then: time passes, another tick, A's (now orphaned) keep-alive, a tick, an
    explicit `disconnect 11`, B's connection request -/
def traceC : List Op :=
  [.updateClient 11, .update 1000000000, .updateClient 11, .packet addrA kaFromA, .updateClient 11, .disconnect 11,
   .packet addrB reqB]

theorem traceC_results : (runOps Ex.a s2late traceC).map (·.1) =
    some [.clientDisconnected 11 addrA (some discA), .none, .none, .none, .none, .none, .packetToSend addrB chalB] := by
  decide +kernel

example : ∃ rs s', runOps Ex.a s2late traceC = some (rs, s') ∧
    ∃ o rs', rs = .clientDisconnected 11 addrA o :: rs' ∧
      (∀ ad o', ServerResult.clientDisconnected 11 ad o' ∉ rs') ∧
      s'.isClientConnected 11 = false ∧ s'.updateClient Ex.a 11 = .ok (.none, s') := by
  have hres := traceC_results
  cases h : runOps Ex.a s2late traceC with
  | none => rw [h] at hres; cases hres
  | some x =>
    obtain ⟨rs, s'⟩ := x
    rw [h] at hres
    simp only [Option.map_some, Option.some.injEq] at hres
    obtain ⟨o, rs', h1, h2, h3, h4, _⟩ := silent_peer_times_out_once Ex.a C18.inv_s2late (i := 0) (c := connA) rfl rfl
      (by decide) (by decide) h (by rw [hres]; intro ad ud ka hm; simp at hm)
    exact ⟨rs, s', rfl, o, rs', h1, h2, h3, h4⟩

end Examples

end RenetVerif.C18U
