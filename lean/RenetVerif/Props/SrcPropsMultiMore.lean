/-
  C11 — the MULTI-CLIENT system, ABOUT THE GENERATED CODE: the remaining safety theorems of `Props/C11E.lean`.

  `Props/SrcPropsMulti.lean` transfers `to_one_only_one`, `addressed_to_others_never_obtained`, `not_addressed_never_obtained`,
  `from_one_under_its_id`, `obtained_under_id_only_if_sent_by_it` to the generated system `GMulti`
  (`Lemmas/SrcEquiv/SrcMulti.lean`).  This file transfers the rest, along `SrcMulti.mrun_sim_conv`:

    * `src_broadcast_exactly_once_partial`, `src_from_one_at_most_once` — nothing is obtained more often than it was addressed /
      submitted (hypothesis `GCountersDown` / `GCountersUp` read off the GENERATED state, as in `SrcPropsMulti`);
    * `src_faults_are_local`, `src_faults_are_local_run`, `src_non_interference` — operations addressed to other clients leave
      the generated view of client `i` unchanged; two generated runs with the same local trace for `i` end in the same
      generated view of `i`.  "The same view" is `SrcMulti.GSameView`: the same slot in the server's table and the same link,
      where two generated connections count as the same iff they represent the same model connection, i.e. agree up to the
      field `most_recent_message_id` of the reliable receive channels (`SrcMulti.SameConn`; the simulation relation leaves
      this bookkeeping field free), and all emission histories, ghost logs, delivery records and taint flags are EQUAL.

    * `src_release_only_after_delivery_per_client` — C08 per client: a message released by the server's generated send channel
      for `i` was handed to client `i` by `i`'s own network (read by the generated decoder, `GDecodes`).

  All hypotheses are on the generated runs (`GMulti.exec P ops = some g`) and the range side condition `MRunInRange`; no
  hypothesis is on a model state.
-/
import RenetVerif.Lemmas.SrcEquiv.SrcMultiMore
import RenetVerif.Props.SrcPropsMulti
set_option maxRecDepth 100000
set_option linter.unusedVariables false
namespace RenetVerif.SrcPropsMultiMore
open RenetVerif C RenetVerif.System RenetVerif.MultiSystem RenetVerif.SrcEquiv RenetVerif.SrcSystem RenetVerif.SrcMulti
open RenetVerif.C11E

/-- **A broadcast is obtained at most once per client (generated code; reliable kinds)** — transports
    `C11E.broadcast_exactly_once_partial`.  No message is obtained by client `i`'s application more often than the operations
    of the run addressed it to `i`, whatever the networks duplicate or replay. -/
theorem src_broadcast_exactly_once_partial (P : Params) (ops : List MOp) (g : GMulti) (i : Nat) (gl : GLink)
    (hr : GMulti.exec P ops = some g) (hl : g.links i = some gl) (hclean : gl.tainted = false)
    (hrg : MRunInRange P ops) (hc : GCountersDown P g i gl) (ch : Nat)
    (hk : P.down.Ordered ch ∨ P.down.Unordered ch) (x : Bytes) :
    (gl.obtC ch).count (toNats x) ≤ (addressedTo i ch ops).count x := by
  obtain ⟨m, hm, sim⟩ := mrun_sim_conv P ops g hrg hr
  obtain ⟨l, hml, hsl⟩ := link_of_sim sim hl
  have hat : C11E.At P ops m i l := ⟨hm, hml, by rw [← hsl.tainted]; exact hclean⟩
  rw [hsl.obtC, count_map_toNats]
  exact C11E.broadcast_exactly_once_partial hat (countersDown_of_sim sim hsl hc) ch hk x

/-- **… the other direction (generated code)** — transports `C11E.from_one_at_most_once`: nothing is obtained by the server
    application under id `i` more often than client `i` submitted it. -/
theorem src_from_one_at_most_once (P : Params) (ops : List MOp) (g : GMulti) (i : Nat) (gl : GLink)
    (hr : GMulti.exec P ops = some g) (hl : g.links i = some gl) (hclean : gl.tainted = false)
    (hrg : MRunInRange P ops) (hc : GCountersUp P gl) (ch : Nat)
    (hk : P.up.Ordered ch ∨ P.up.Unordered ch) (x : Bytes) :
    (gl.obtS ch).count (toNats x) ≤ (sentBy i ch ops).count x := by
  obtain ⟨m, hm, sim⟩ := mrun_sim_conv P ops g hrg hr
  obtain ⟨l, hml, hsl⟩ := link_of_sim sim hl
  have hat : C11E.At P ops m i l := ⟨hm, hml, by rw [← hsl.tainted]; exact hclean⟩
  rw [hsl.obtS, count_map_toNats]
  exact C11E.from_one_at_most_once hat (countersUp_of_sim (m := m) (i := i) hsl hc) ch hk x

/-- **Non-interference (whole generated runs)** — transports `C11E.non_interference`.  Two executions of the generated code
    whose LOCAL TRACES for client `i` coincide (the operations addressed to `i`, the broadcasts that include `i`, the server's
    `update`s; everything addressed to other clients erased) end in generated states that agree on everything about client
    `i` (`GSameView`): the fault schedules, hostile packets, disconnections and traffic of all other clients may differ
    arbitrarily between the two runs. -/
theorem src_non_interference (P : Params) (ops1 ops2 : List MOp) (g1 g2 : GMulti) (i : Nat)
    (h1 : GMulti.exec P ops1 = some g1) (h2 : GMulti.exec P ops2 = some g2)
    (hrg1 : MRunInRange P ops1) (hrg2 : MRunInRange P ops2) (ht : trace i ops1 = trace i ops2) :
    GSameView g1 g2 i := by
  obtain ⟨m1, hm1, sim1⟩ := mrun_sim_conv P ops1 g1 hrg1 h1
  obtain ⟨m2, hm2, sim2⟩ := mrun_sim_conv P ops2 g2 hrg2 h2
  exact gsameView_of_sim sim1 sim2 (C11E.non_interference i hm1 hm2 ht).1

/-- **Faults are local (generated runs)** — transports `C11E.faults_are_local_run`.  A generated run extended by ANY operations
    addressed to other clients `j ≠ i` — hostile bytes in `j`'s name, any delivery (loss, duplication, reordering) on `j`'s
    network, `j`'s disconnection or removal, `j`'s own traffic — ends with the same generated view of `i`. -/
theorem src_faults_are_local_run (P : Params) (pre ops' : List MOp) (g g' : GMulti) (i : Nat)
    (h1 : GMulti.exec P pre = some g) (h2 : GMulti.exec P (pre ++ ops') = some g')
    (hrg : MRunInRange P (pre ++ ops')) (hall : ∀ op ∈ ops', ∃ j, target op = some j ∧ j ≠ i) :
    GSameView g' g i := by
  obtain ⟨m, hm, sim⟩ := mrun_sim_conv P pre g (mrunInRange_prefix P pre ops' hrg) h1
  obtain ⟨m', hm', sim'⟩ := mrun_of_exec P pre ops' m g' hm h2 hrg
  exact gsameView_of_sim sim' sim (C11E.faults_are_local_run i hm hm' hall)

/-- **Faults are local (one generated step)** — transports `C11E.faults_are_local`: one operation addressed to a client
    `j ≠ i` leaves the generated view of `i` unchanged. -/
theorem src_faults_are_local (P : Params) (pre : List MOp) (op : MOp) (g g' : GMulti) (i j : Nat)
    (h1 : GMulti.exec P pre = some g) (h2 : GMulti.exec P (pre ++ [op]) = some g')
    (hrg : MRunInRange P (pre ++ [op])) (htg : target op = some j) (hne : j ≠ i) :
    GSameView g' g i :=
  src_faults_are_local_run P pre [op] g g' i h1 h2 hrg (fun o ho => by
    rw [List.mem_singleton] at ho; subst ho; exact ⟨j, htg, hne⟩)

/-- **C08 per client, on the generated code** (server → client direction) — transports
    `C11E.release_only_after_delivery_per_client`.  `sA` is the GENERATED reliable send channel `ch` of the server's generated
    connection for `i` (field `connections`; the ghost copy `last` once the connection was removed); message `id` has been
    issued and is no longer in `sA.unacked_messages`.  Then every packet needed to rebuild it was handed to client `i` by
    `i`'s own network, and the GENERATED decoder `Packet::from_bytes` (`GDecodes`) reads it from the delivered datagram; acks
    forged in another client's name cannot touch it. -/
theorem src_release_only_after_delivery_per_client (P : Params) (ops : List MOp) (g : GMulti) (i : Nat) (gl : GLink)
    (hr : GMulti.exec P ops = some g) (hl : g.links i = some gl) (hclean : gl.tainted = false)
    (hrg : MRunInRange P ops) (hc : GCountersDown P g i gl) (ch : Nat)
    (sA : Src.renet.channel.reliable.SendChannelReliable)
    (hf : RustSem.Map.find? ((gconn? g.server i).getD gl.last).send_reliable_channels ch = some sA) (id : Nat)
    (hid : id < sA.next_reliable_message_id) (hrel : RustSem.Map.find? sA.unacked_messages id = none) :
    ∃ x, (gl.subS ch)[id]? = some x ∧
      (x.length ≤ SLICE_SIZE → ∃ k ∈ gl.delivC, ∃ bytes sq msgs, gl.outS[k]? = some bytes ∧
          GDecodes bytes (.SmallReliable sq ch msgs) ∧ (id, x) ∈ msgs) ∧
      (SLICE_SIZE < x.length → ∀ j, j < divCeil x.length SLICE_SIZE → ∃ k ∈ gl.delivC, ∃ bytes sq,
          gl.outS[k]? = some bytes ∧
          GDecodes bytes (.ReliableSlice sq ch
            ⟨id, j, divCeil x.length SLICE_SIZE, gSliceBytes x (divCeil x.length SLICE_SIZE) j⟩)) := by
  obtain ⟨m, hm, sim⟩ := mrun_sim_conv P ops g hrg hr
  obtain ⟨l, hml, hsl⟩ := link_of_sim sim hl
  have hat : C11E.At P ops m i l := ⟨hm, hml, by rw [← hsl.tainted]; exact hclean⟩
  obtain ⟨mrss, hS⟩ := sim.server
  obtain ⟨mrs, hlast⟩ := hsl.last
  have hA : ∃ mrs', (gconn? g.server i).getD gl.last = reprConn mrs' (C11E.projDown m i l).a := by
    rw [hS, gconn_repr, hlast]
    show ∃ mrs', _ = reprConn mrs' ((conn? m.server i).getD l.last)
    cases conn? m.server i with
    | none => exact ⟨_, rfl⟩
    | some c => exact ⟨_, rfl⟩
  obtain ⟨mrs', hA⟩ := hA
  rw [hA] at hf
  simp only [reprConn, find_mapVals] at hf
  cases hfm : SMap.find? (C11E.projDown m i l).a.sendRel ch with
  | none => rw [hfm] at hf; cases hf
  | some sM =>
    rw [hfm] at hf; cases hf
    obtain ⟨x, hx, h1, h2⟩ := C11E.release_only_after_delivery_per_client hat (countersDown_of_sim sim hsl hc) ch sM hfm id hid
      (unacked_none_of_repr hrel)
    refine ⟨toNats x, by rw [hsl.subS, List.getElem?_map, hx]; rfl, ?_, ?_⟩
    · intro hlen
      rw [toNats_length] at hlen
      obtain ⟨k, hk, bytes, sq, msgs, hb, hd, hin⟩ := h1 hlen
      refine ⟨k, by rw [hsl.delivC]; exact hk, toNats bytes, sq, _, by rw [hsl.outS, List.getElem?_map, hb]; rfl,
        gdecodes_of_fromBytes hd, ?_⟩
      exact List.mem_map.mpr ⟨(id, x), hin, rfl⟩
    · intro hlen j hj
      rw [toNats_length] at hlen hj
      obtain ⟨k, hk, bytes, sq, hb, hd⟩ := h2 hlen j hj
      refine ⟨k, by rw [hsl.delivC]; exact hk, toNats bytes, sq, by rw [hsl.outS, List.getElem?_map, hb]; rfl, ?_⟩
      have := gdecodes_of_fromBytes hd
      simp only [reprPacket, reprSlice, toNats_sliceBytes] at this
      rw [toNats_length]
      exact this

/-- what `GSameView` gives for the ghost logs: the link of `i` is present in both or in neither, with equal logs -/
theorem sameView_logs {g1 g2 : GMulti} {i : Nat} (h : GSameView g1 g2 i) {a : GLink} (ha : g1.links i = some a) :
    ∃ b, g2.links i = some b ∧ a.obtC = b.obtC ∧ a.subS = b.subS ∧ a.obtS = b.obtS ∧ a.subC = b.subC ∧
      a.outS = b.outS ∧ a.outC = b.outC ∧ a.delivC = b.delivC ∧ a.delivS = b.delivS ∧ a.tainted = b.tainted := by
  have h2 := h.2
  rw [ha] at h2
  cases hb : g2.links i with
  | none => rw [hb] at h2; exact h2.elim
  | some b =>
    rw [hb] at h2
    have s : GSameLink a b := h2
    exact ⟨b, rfl, s.obtC, s.subS, s.obtS, s.subC, s.outS, s.outC, s.delivC, s.delivS, s.tainted⟩

/-! ## non-vacuity: the run of `C11E.Ex` ON THE GENERATED CODE (`SrcPropsMulti.Ex`) -/
namespace Ex
open RenetVerif.SrcPropsMulti.Ex

/-- [60] was broadcast once: client 3 obtained it at most once; [41] went to client 3 only, once -/
example : (gl3.obtC 0).count (toNats [60]) ≤ 1 :=
  src_broadcast_exactly_once_partial P ops gfin 3 gl3 grun glink3 clean3 inRange gcountersD3 0 (Or.inl C11E.Ex.ordered0) [60]
example : (gl3.obtC 1).count (toNats [41]) ≤ 1 :=
  src_broadcast_exactly_once_partial P ops gfin 3 gl3 grun glink3 clean3 inRange gcountersD3 1 (Or.inr C11E.Ex.unordered1) [41]
/-- what the generated server obtained under id 1: [11] at most once -/
example : (gl1.obtS 0).count (toNats [11]) ≤ 1 :=
  src_from_one_at_most_once P ops gfin 1 gl1 grun glink1 clean1 inRange gcountersU1 0 (Or.inl C11E.Ex.upOrdered0) [11]

/-- the run with everything addressed to client 2 erased (`C11E.Ex.opsNo2`: no hostile bytes, no disconnection, no removal
    of client 2), executed by the kernel on the generated code -/
abbrev opsNo2 := C11E.Ex.opsNo2
def gNo2 : GMulti := (GMulti.exec P opsNo2).getD gzero
theorem inRangeNo2 : MRunInRange P opsNo2 := by decide +kernel
theorem grunNo2 : GMulti.exec P opsNo2 = some gNo2 := some_getD (by decide +kernel) _

/-- **`src_non_interference` applied**: clients 1 and 3 cannot tell the two generated runs apart -/
theorem same1 : GSameView gfin gNo2 1 := src_non_interference P ops opsNo2 gfin gNo2 1 grun grunNo2 inRange inRangeNo2 (by decide)
theorem same3 : GSameView gfin gNo2 3 := src_non_interference P ops opsNo2 gfin gNo2 3 grun grunNo2 inRange inRangeNo2 (by decide)

example : ∃ b, gNo2.links 3 = some b ∧ b.obtC = gl3.obtC ∧ b.delivC = gl3.delivC := by
  obtain ⟨b, hb, e1, -, -, -, -, -, e2, -⟩ := sameView_logs same3 glink3
  exact ⟨b, hb, e1.symm, e2.symm⟩

/-- **`src_faults_are_local` applied**: the hostile datagram in client 2's name (operation 12 of the run) changes nothing
    for client 1 -/
abbrev pre := C11E.Ex.pre
def gmid : GMulti := (GMulti.exec P pre).getD gzero
def gmid' : GMulti := (GMulti.exec P (pre ++ [.hostile 2 [255]])).getD gzero
theorem grunPre : GMulti.exec P pre = some gmid := some_getD (by decide +kernel) _
theorem grunPre' : GMulti.exec P (pre ++ [.hostile 2 [255]]) = some gmid' := some_getD (by decide +kernel) _
example : GSameView gmid' gmid 1 :=
  src_faults_are_local P pre (.hostile 2 [255]) gmid gmid' 1 2 grunPre grunPre' (by decide +kernel) rfl (by decide)

end Ex

/-
  NOT transferred: `C11E.per_client_system_inv` as such (its conclusion is the model invariant package `Inv1`/`Inv2`/`InvR`/`InvU`
  of the projections, which has no counterpart on generated states; its consequences above and in `SrcPropsMulti` are
  transferred), `C11E.ordered_in_submission_order` / `obtained_only_if_addressed` (contained in `SrcPropsMulti.src_to_one_only_one`),
  and a non-vacuity example for `src_release_only_after_delivery_per_client`.
-/

end RenetVerif.SrcPropsMultiMore
