/-
  C12 — Once a connection is disconnected it stays so and keeps the first reason: it emits no packets,
  accepts no packets and yields no messages, and no transport status call revives it.  A server reports
  for every client id an alternation ClientConnected, ClientDisconnected, ClientConnected, … in that
  order: never a disconnect without a preceding connect, never two connects without a disconnect between
  them, and a removal reports the reason the connection was first disconnected with (Transport if it was
  still healthy).

  Model: Renet/Conn.lean (`RenetClient`), Renet/Server.lean (`RenetServer`).
  Vocabulary (Lemmas/ServerLemmas.lean, namespace `RenetVerif.SL`):
    `ConnOp`, `ConnOp.apply`, `Conn.runOps`  – every public operation of a connection, as data
    `SrvOp`, `SrvOp.apply`, `runSrv`         – every public operation of the server, as data; the state is
                                               the server plus the events `get_event` already popped
    `eventLog st = popped ++ pending`        – all events ever pushed, in order
    `Alternates`, `lastIsConnected`          – see `alternates_first`, `alternates_no_repeat`
-/
import RenetVerif.Lemmas.ServerLemmas
namespace RenetVerif.C12
open RenetVerif RenetVerif.SL

/-! ### 1. Disconnected is absorbing and keeps the first reason -/

/-- A disconnected connection: the status calls of the transport (`set_connected`, `set_connecting`) and
    any further `disconnect` leave it untouched; `send_message` is ignored; `receive_message` yields
    nothing; `process_packet` accepts nothing (state unchanged); `get_packets_to_send` emits nothing;
    `update` (the one operation the code does not guard) keeps the status. -/
theorem disconnected_absorbing (c : Conn) (r : Reason) (h : c.status = .disconnected r) :
    c.setConnected = c ∧ c.setConnecting = c ∧ (∀ r', c.disconnectWith r' = c) ∧
    (∀ ch m, c.sendMessage ch m = .ok c) ∧
    (∀ ch, c.receiveMessage ch = .ok (c, none)) ∧
    (∀ bytes, c.processPacket bytes = .ok c) ∧
    c.getPacketsToSend = .ok (c, []) ∧
    (∀ dt c', c.update dt = .ok c' → c'.status = .disconnected r) :=
  ⟨Conn.setConnected_of_disconnected h, Conn.setConnecting_of_disconnected h,
   fun r' => Conn.disconnectWith_of_disconnected h r',
   fun ch m => Conn.sendMessage_of_disconnected h ch m,
   fun ch => Conn.receiveMessage_of_disconnected h ch,
   fun b => Conn.processPacket_of_disconnected h b,
   Conn.getPacketsToSend_of_disconnected h,
   fun _ _ hu => Conn.update_keeps hu r h⟩

/-- `update` never writes the status, whatever it is. -/
theorem update_never_writes_status (c c' : Conn) (dt : Nat) (h : c.update dt = .ok c') :
    c'.status = c.status := Conn.update_status h

/-- One operation of any kind, with any arguments, on any connection: a disconnected status and its
    reason survive. -/
theorem status_first_reason (c c' : Conn) (op : ConnOp) (r : Reason)
    (h : op.apply c = .ok c') (hr : c.status = .disconnected r) : c'.status = .disconnected r :=
  ConnOp.apply_keeps h r hr

/-- … and so for every sequence of operations. -/
theorem status_monotone (ops : List ConnOp) (c c' : Conn) (r : Reason)
    (h : Conn.runOps c ops = .ok c') (hr : c.status = .disconnected r) : c'.status = .disconnected r :=
  Conn.runOps_keeps ops c c' h r hr

/-- The first reason wins: disconnect a live connection with `r`, then do anything (including
    disconnecting again with other reasons); the status is still `disconnected r`. -/
theorem first_reason_wins (c c' : Conn) (r : Reason) (ops : List ConnOp) (hc : c.isDisconnected = false)
    (h : Conn.runOps (c.disconnectWith r) ops = .ok c') : c'.status = .disconnected r := by
  apply status_monotone ops _ c' r h
  rw [Conn.disconnectWith_status, hc]; rfl

/-- Apart from `update` (which only advances the clock and expires bookkeeping), operations on a
    disconnected connection do not change it at all. -/
theorem disconnected_frozen (c : Conn) (r : Reason) (h : c.status = .disconnected r) (op : ConnOp)
    (hop : ∀ dt, op ≠ .update dt) : op.apply c = .ok c := ConnOp.apply_of_disconnected h op hop

/-! ### 2. Event alternation -/

/-- What `Alternates` says, part 1: the first event about a client is a connect ("never a disconnect
    without a preceding connect" – together with part 2). -/
theorem alternates_first (e : Event) (l : List Event) (h : Alternates (e :: l)) : Event.isConnect e = true :=
  alternates_head h

/-- What `Alternates` says, part 2: two consecutive events are of different kinds ("never two connects
    without a disconnect between them", and never two disconnects without a connect between them). -/
theorem alternates_no_repeat (l1 l2 : List Event) (a b : Event) (h : Alternates (l1 ++ a :: b :: l2)) :
    Event.isConnect a ≠ Event.isConnect b := alternates_adjacent h

/-- Starting from a fresh server, after any sequence of public operations with any arguments (that does
    not hit a documented panic of the API), for every client id: the events ever reported about it
    alternate connect / disconnect starting with a connect, and the last one is a connect exactly when
    the id is in the connection table. -/
theorem events_alternate (budget : Nat) (serverCh clientCh : List ChanCfg) (ops : List SrvOp)
    (st : SrvState) (h : runSrv (Server.new budget serverCh clientCh, []) ops = .ok st) (id : Nat) :
    Alternates ((eventLog st).filter (Event.about id)) ∧
    (lastIsConnected ((eventLog st).filter (Event.about id)) = true ↔ SMap.contains st.1.conns id = true) := by
  obtain ⟨_, hall⟩ := runSrv_inv ops _ st h (srvInv_new budget serverCh clientCh)
  obtain ⟨ha, hc⟩ := hall id
  rw [curState_false_eq] at hc
  exact ⟨ha, by rw [hc]⟩

/-- The invariant is inductive: it holds of the fresh server and every operation preserves it (so the
    statement above also holds for runs continued from any reachable state). -/
theorem events_invariant_step (st st' : SrvState) (op : SrvOp) (h : op.apply st = .ok st')
    (hi : SrvInv st) : SrvInv st' := (SrvOp.apply_step h).inv hi

/-- Ids in the table are unique in every reachable state (used by the removal lemmas). -/
theorem reachable_sorted (budget : Nat) (serverCh clientCh : List ChanCfg) (ops : List SrvOp)
    (st : SrvState) (h : runSrv (Server.new budget serverCh clientCh, []) ops = .ok st) :
    SMap.Sorted st.1.conns := (runSrv_inv ops _ st h (srvInv_new budget serverCh clientCh)).1

/-! ### 3. A removal reports the first reason -/

/-- `remove_connection` on a present id pushes exactly one event: `ClientDisconnected` with the stored
    reason if the connection is disconnected, `Transport` if it is still healthy. -/
theorem removeConnection_reports (s : Server) (id : Nat) (c : Conn) (h : SMap.find? s.conns id = some c) :
    (s.removeConnection id).events =
      s.events ++ [.disconnected id (match c.status with | .disconnected r => r | _ => .transport)] ∧
    (s.removeConnection id).conns = SMap.erase s.conns id := by
  simp only [Server.removeConnection, h, Conn.disconnectReason, and_true]
  cases c.status <;> rfl

/-- … and on an absent id it does nothing. -/
theorem removeConnection_absent (s : Server) (id : Nat) (h : SMap.find? s.conns id = none) :
    s.removeConnection id = s := by simp [Server.removeConnection, h]

/-- `disconnect_local_client` with a live client object and a present id: one `ClientDisconnected` event
    carrying the stored reason if there is one, else `DisconnectedByClient`. -/
theorem disconnectLocalClient_reports (s : Server) (id : Nat) (cl c : Conn) (hcl : cl.isDisconnected = false)
    (h : SMap.find? s.conns id = some c) :
    (s.disconnectLocalClient id cl).1.events =
      s.events ++ [.disconnected id (match c.status with | .disconnected r => r | _ => .byClient)] ∧
    (s.disconnectLocalClient id cl).1.conns = SMap.erase s.conns id ∧
    (s.disconnectLocalClient id cl).2.status = .disconnected .byClient := by
  simp only [Server.disconnectLocalClient, hcl, h, Conn.disconnectReason, Conn.disconnectWith]
  cases c.status <;> simp

/-- … with an already disconnected client object, or an absent id, the server is unchanged. -/
theorem disconnectLocalClient_noop (s : Server) (id : Nat) (cl : Conn)
    (h : cl.isDisconnected = true ∨ SMap.find? s.conns id = none) :
    (s.disconnectLocalClient id cl).1 = s := by
  unfold Server.disconnectLocalClient
  rcases h with h | h
  · simp [h]
  · split
    · rfl
    · simp [h]

/-- Combined with part 1: in a reachable state let client `id` be stored as disconnected with reason
    `r`.  Whatever the application does next (disconnect it again, feed it packets, send, update,
    remove it, re-add it, …), with `new` the events pushed since: either nothing was reported about
    `id` and it is still stored as disconnected with `r`, or the first event reported about `id` is
    `ClientDisconnected {id, r}`. -/
theorem removal_reports_first_reason (budget : Nat) (serverCh clientCh : List ChanCfg)
    (ops0 ops : List SrvOp) (st st' : SrvState)
    (h0 : runSrv (Server.new budget serverCh clientCh, []) ops0 = .ok st)
    (id : Nat) (c : Conn) (r : Reason)
    (hf : SMap.find? st.1.conns id = some c) (hr : c.status = .disconnected r)
    (h : runSrv st ops = .ok st') :
    ∃ new, eventLog st' = eventLog st ++ new ∧
      ((new.filter (Event.about id) = [] ∧
          ∃ c', SMap.find? st'.1.conns id = some c' ∧ c'.status = .disconnected r) ∨
       (∃ tl, new.filter (Event.about id) = .disconnected id r :: tl)) :=
  runSrv_first_reason ops st st' h (runSrv_inv ops0 _ st h0 (srvInv_new budget serverCh clientCh)) id c r hf hr

/-! ### concrete instances -/
section Examples

def cfg : List ChanCfg := [⟨0, .ordered, 1000, 300⟩, ⟨1, .unreliable, 1000, 0⟩]
def srv0 : Server := Server.new 60000 cfg cfg
def conn0 : Conn := (Conn.fromChannels 60000 cfg cfg).setConnected

def logOf (x : Res Empty SrvState) : Option (List Event) :=
  match x with | .ok st => some (eventLog st) | _ => none
def statusOf (x : Res Empty Conn) : Option Status :=
  match x with | .ok c => some c.status | _ => none

/-- a live connection is killed by an undecodable packet; nothing afterwards changes the reason -/
example : statusOf (Conn.runOps conn0 [.sendMessage 0 [1, 2, 3], .processPacket [255], .setConnected,
      .disconnectWith .transport, .sendMessage 1 [9], .processPacket [255], .update 5, .getPacketsToSend,
      .disconnect, .setConnecting, .receiveMessage 0]) =
    some (.disconnected (.packetDeser .invalidPacketType)) := by decide

/-- two clients; 1 is disconnected by the server, then removed (reports DisconnectedByServer, not
    Transport), removed again (nothing), re-added; 2 is killed by a bad packet and removed. -/
example : logOf (runSrv (srv0, []) [.add 1, .add 2, .add 1, .disconnect 1, .send 2 0 [1, 2, 3], .remove 1,
      .remove 1, .getEvent, .add 1, .processPacketFrom [255] 2, .disconnect 2, .remove 2, .remove 7]) =
    some [.connected 1, .connected 2, .disconnected 1 .byServer, .connected 1,
          .disconnected 2 (.packetDeser .invalidPacketType)] := by decide

/-- a healthy connection is reported with Transport; a local client with DisconnectedByClient -/
example : logOf (runSrv (srv0, []) [.add 1, .newLocalClient 2, .remove 1, .disconnectLocalClient 2 conn0]) =
    some [.connected 1, .connected 2, .disconnected 1 .transport, .disconnected 2 .byClient] := by decide

end Examples

end RenetVerif.C12
