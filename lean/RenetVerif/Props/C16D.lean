/-
  C16 (second clause) — any byte string that the message-layer packet decoder accepts re-encodes
  to bytes that decode to the same value.  The bytes themselves need not be equal: the decoder
  accepts non-canonical (over-long) varints and ignores trailing bytes.
-/
import RenetVerif.Lemmas.DecodeWF
namespace RenetVerif.C16D

/-- A decoded varint is always in the range the writer accepts (≤ 2^62-1), and reading it
    consumes at least one byte. -/
theorem varint_get_bound (b : Bytes) (v : Nat) (r : Bytes) (h : Varint.get b = some (v, r)) :
    v ≤ Varint.MAX ∧ r.length < b.length := Varint.get_bound h

/-- Every output of the decoder is well-formed: all integer fields are within the varint / u8 /
    u16 range, slice counts and sizes respect the limits the decoder checks, and an ack range list
    is non-empty, ascending, non-adjacent, with non-empty ranges. -/
theorem decode_wf (b : Bytes) (p : Packet) (rest : Bytes) (h : Packet.decode b = .ok (p, rest)) :
    p.WF := Packet.decode_wf b p rest h

/-- Whatever `Packet::from_bytes` accepts serialises again without panic or error, and the new
    bytes deserialise to the same packet. -/
theorem decode_reencode (b : Bytes) (p : Packet) (h : Packet.fromBytes b = .ok p) :
    ∃ b', p.enc = .ok b' ∧ Packet.fromBytes b' = .ok p := Packet.fromBytes_reencode b p h

/-- … and re-encoding is idempotent from then on: the second-generation bytes re-encode to
    themselves. -/
theorem reencode_fixpoint (b : Bytes) (p : Packet) (h : Packet.fromBytes b = .ok p) :
    ∃ b', p.enc = .ok b' ∧ ∀ p', Packet.fromBytes b' = .ok p' → p'.enc = .ok b' := by
  obtain ⟨b', he, hd⟩ := decode_reencode b p h
  refine ⟨b', he, ?_⟩
  intro p' hp'
  rw [hd] at hp'
  cases hp'
  exact he

/-- non-vacuity, and the bytes really can differ: an ack packet whose sequence number 7 is written
    as a two-byte varint (`0x40 0x07`) is accepted; its re-encoding uses the one-byte form, is
    shorter than the input, and decodes to the same packet. -/
example :
    Packet.fromBytes [4, 0x40, 7, 5, 2, 0] = .ok (.ack 7 [(3, 6)]) ∧
    (Packet.ack 7 [(3, 6)]).enc = .ok [4, 7, 5, 2, 0] ∧
    ([4, 7, 5, 2, 0] : Bytes) ≠ [4, 0x40, 7, 5, 2, 0] ∧
    Packet.fromBytes [4, 7, 5, 2, 0] = .ok (.ack 7 [(3, 6)]) := by
  refine ⟨rfl, by decide, by decide, rfl⟩

/-- trailing bytes are ignored by the decoder and therefore dropped by the re-encoding -/
example :
    Packet.fromBytes [1, 9, 3, 0, 1, 2, 0xAA, 0xBB, 0xFF, 0xFF] = .ok (.smallUnreliable 9 3 [[0xAA, 0xBB]]) ∧
    (Packet.smallUnreliable 9 3 [[0xAA, 0xBB]]).enc = .ok [1, 9, 3, 0, 1, 2, 0xAA, 0xBB] := by
  refine ⟨rfl, by decide⟩

end RenetVerif.C16D
