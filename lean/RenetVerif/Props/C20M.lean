/-
  C20M — the full stack with SEVERAL clients: what C20F lists as NOT COVERED on the server side.

  THE SYSTEM (`FullStackMulti.MS`, observed client id `cid`).  State: the full-stack state `fs : FullStack.FS` of C20F
  (the observed client's `NetcodeClientTransport` + `RenetClient`; the server's `NetcodeServerTransport` + `RenetServer`,
  holding ANY number of other clients; the ghost histories of the observed session) and a second, real client
  `o : ClientGlue` with its own `NetcodeClientTransport` + `RenetClient` (arbitrary at the start: not connected, connecting,
  connected, anything), plus ghost lists used for observation only.
  Operations (`MOp`), each calling exactly one model function:
      base op                               every operation of C20F (`cliSend … srvDisconnectAll`); `srvUpdate d inbox` /
                                            `srvSendPackets` are the transport loops over ALL clients of the table
      srvSendTo id ch m | srvRecvFrom id ch | srvDisconnectId id
                                            `RenetServer::{send_message, receive_message, disconnect}(id, …)`, ANY id
      srvBroadcast ch m                     `RenetServer::broadcast_message`
      srvBroadcastExcept ex ch m            `RenetServer::broadcast_message_except`
      othSend | othRecv | othTick | othDisconnect | othUpdate d inbox | othSendPackets | othTransportDisconnect
                                            the other client's `RenetClient` / `NetcodeClientTransport` calls
  The network is the adversary's as in C20F: every `inbox` is arbitrary.  The other client's handshake, traffic and
  disconnect reach the server because the adversary MAY put what `o` emitted (`emO`) into a server inbox; nothing forces it
  to, and it may equally put there anything else "from" the other client's address.

  WHAT IS PROVED, for the observed client `cid`, after EVERY finite run from a state in which `cid`'s session is
  `Established` (C20F's start condition, on `ms0.fs`; nothing is assumed about the other client or about other entries of
  the server's tables):
    * `multi_ordered_prefix`, `multi_unordered_once`, `multi_integrity`    C01 / C02 / C03 end to end for `cid`'s link,
      both directions — the statements of C20F, unchanged;
    * `multi_records_are_emitted`                                         ghost records are records of emitted datagrams;
    * `multi_lockstep`                                                    the server glue's lock-step (renet table ids =
      netcode slot ids: for `cid` — `multi_lockstep_cid` — and for everybody else) after EVERY operation, and no
      disconnected connection left in the table after every transport `update`; needs `LockStep` of the start state;
    * `others_do_not_disturb` (frame)                                     calls for another id, `broadcast_message_except(cid,…)`
      and every call of the other client change NOTHING of `cid`'s session (client glue, netcode server, `cid`'s
      `RenetClient` in the table, histories, ghost logs);
    * `broadcast_is_send`, `broadcast_except_is_send`                     a broadcast is, for `cid`, exactly a `srvSend`.
  The transport loops need no new frame lemma: C20F's `serverUpdate_sim` / `serverSendLoop_sim` already treat a table
  with arbitrary other entries and an inbox with arbitrary other datagrams (results for `id ≠ cid` are matched by the empty
  `Duo` run: `handle_sim`).

  HYPOTHESES THAT REMAIN — exactly those of C20F, for `cid` only:
    `MNoForgeryRunD` (every payload `process_packet` surfaces FOR `cid`, or the observed client's `process_packet`
    surfaces, came in a datagram recorded for this session), `MSingleSessionRun` (no `ClientConnected{cid}` in the run; a
    `ClientConnected{id'}` for any other id is allowed — that is how the second client joins), `a.Laws`, the counter-range
    conditions on the final state, the run returning normally.  NOTHING is assumed about the other client's keys: if they
    leak, `cid`'s guarantees stand (the second client's own guarantees are this theorem with the roles exchanged).

  ABOUT THE GENERATED CODE: `Props/SrcPropsFullStackMulti.lean` (`src_multi_ordered_prefix`, `src_multi_integrity`: the same
  system with generated transports, generated `RenetClient`s and the generated `RenetServer`, incl. the generated
  `broadcast_message` / `broadcast_message_except`).

  NOT COVERED here: more than one REAL other client as a state component (any number of them may sit in the server's
  tables, and the adversary may play their datagrams; only one is modelled with its own `ClientGlue`); `get_event`
  (does not touch connections: C11 / C20).
-/
import RenetVerif.Lemmas.FullStackMulti
import RenetVerif.Props.C20F
namespace RenetVerif.C20M
open RenetVerif C RenetVerif.System RenetVerif.Netcode RenetVerif.Transport RenetVerif.FullStack
  RenetVerif.FullStackMulti

/-- **C01 with several clients.**  Ordered channels of `cid`'s link, both directions: what was obtained is a prefix of
    what was submitted — whatever the other client, the server application's calls for other ids, its broadcasts and
    the adversary do. -/
theorem multi_ordered_prefix (a : AEAD) (hl : a.Laws) (cfg : Cfg) (cid : Nat) (ms0 ms : MS) (ops : List MOp)
    (he : Established cfg cid ms0.fs) (hr : ms0.run a cid ops = some ms)
    (hnf : MNoForgeryRunD a cid ms0 ops) (hss : MSingleSessionRun a cid ms0 ops) :
    (CountersUp cfg ms.fs → ∀ ch, cfg.Ordered ch → ms.fs.obtS ch <+: ms.fs.subC ch) ∧
    (CountersDown cfg ms.fs → ∀ ch, (Cfg.swap cfg).Ordered ch → ms.fs.obtC ch <+: ms.fs.subS ch) :=
  let h := m_full_stack hl he.toRenetFresh hr (m_noForgery_of_D he hss hnf) hss
  ⟨fun hc => (h.1 hc).1, fun hc => (h.2 hc).1⟩

/-- **C02 with several clients.** -/
theorem multi_unordered_once (a : AEAD) (hl : a.Laws) (cfg : Cfg) (cid : Nat) (ms0 ms : MS) (ops : List MOp)
    (he : Established cfg cid ms0.fs) (hr : ms0.run a cid ops = some ms)
    (hnf : MNoForgeryRunD a cid ms0 ops) (hss : MSingleSessionRun a cid ms0 ops) :
    (CountersUp cfg ms.fs → ∀ ch, cfg.Unordered ch →
      ∃ ids : List Nat, ids.Nodup ∧ (ms.fs.obtS ch).map some = ids.map (fun id => (ms.fs.subC ch)[id]?)) ∧
    (CountersDown cfg ms.fs → ∀ ch, (Cfg.swap cfg).Unordered ch →
      ∃ ids : List Nat, ids.Nodup ∧ (ms.fs.obtC ch).map some = ids.map (fun id => (ms.fs.subS ch)[id]?)) :=
  let h := m_full_stack hl he.toRenetFresh hr (m_noForgery_of_D he hss hnf) hss
  ⟨fun hc => (h.1 hc).2.1, fun hc => (h.2 hc).2.1⟩

/-- **C03 with several clients.**  In particular: a message the server submitted for ANOTHER id (`srvSendTo id' …`,
    `broadcast_message_except(cid, …)`) is never obtained by `cid`'s application, and a message of the other client is
    never attributed to `cid`. -/
theorem multi_integrity (a : AEAD) (hl : a.Laws) (cfg : Cfg) (cid : Nat) (ms0 ms : MS) (ops : List MOp)
    (he : Established cfg cid ms0.fs) (hr : ms0.run a cid ops = some ms)
    (hnf : MNoForgeryRunD a cid ms0 ops) (hss : MSingleSessionRun a cid ms0 ops) :
    (CountersUp cfg ms.fs →
      (∀ ch, cfg.Ordered ch ∨ cfg.Unordered ch → ∀ x ∈ ms.fs.obtS ch, x ∈ ms.fs.subC ch) ∧
      (∀ ch, cfg.Unreliable ch → ∀ x ∈ ms.fs.obtS ch, x ∈ ms.fs.subCU ch)) ∧
    (CountersDown cfg ms.fs →
      (∀ ch, (Cfg.swap cfg).Ordered ch ∨ (Cfg.swap cfg).Unordered ch → ∀ x ∈ ms.fs.obtC ch, x ∈ ms.fs.subS ch) ∧
      (∀ ch, (Cfg.swap cfg).Unreliable ch → ∀ x ∈ ms.fs.obtC ch, x ∈ ms.fs.subSU ch)) := by
  have h := m_full_stack hl he.toRenetFresh hr (m_noForgery_of_D he hss hnf) hss
  constructor
  · intro hc
    obtain ⟨h1, h2, h3⟩ := h.1 hc
    refine ⟨fun ch hk => ?_, h3⟩
    rcases hk with ho | hu
    · exact (h1 ch ho).subset
    · exact C20F.mem_of_once (h2 ch hu)
  · intro hc
    obtain ⟨h1, h2, h3⟩ := h.2 hc
    refine ⟨fun ch hk => ?_, h3⟩
    rcases hk with ho | hu
    · exact (h1 ch ho).subset
    · exact C20F.mem_of_once (h2 ch hu)

/-- the same at every intermediate moment of a longer run -/
theorem multi_ordered_prefix_always (a : AEAD) (hl : a.Laws) (cfg : Cfg) (cid : Nat) (ms0 ms1 : MS)
    (ops1 ops2 : List MOp) (he : Established cfg cid ms0.fs) (hr1 : ms0.run a cid ops1 = some ms1)
    (hnf : MNoForgeryRunD a cid ms0 (ops1 ++ ops2)) (hss : MSingleSessionRun a cid ms0 (ops1 ++ ops2)) :
    (CountersUp cfg ms1.fs → ∀ ch, cfg.Ordered ch → ms1.fs.obtS ch <+: ms1.fs.subC ch) ∧
    (CountersDown cfg ms1.fs → ∀ ch, (Cfg.swap cfg).Ordered ch → ms1.fs.obtC ch <+: ms1.fs.subS ch) :=
  multi_ordered_prefix a hl cfg cid ms0 ms1 ops1 he hr1 (mrunB_prefix _ a cid ops1 ops2 ms0 hnf)
    (mrunB_prefix _ a cid ops1 ops2 ms0 hss)

/-- the ghost records of the observed session are records of EMITTED datagrams -/
theorem multi_records_are_emitted (a : AEAD) (cfg : Cfg) (cid : Nat) (ms0 ms : MS) (ops : List MOp)
    (he : Established cfg cid ms0.fs) (hr : ms0.run a cid ops = some ms) :
    (∀ e ∈ ms.fs.sealedC, e.dgram ∈ ms.fs.emC.map (·.2)) ∧ (∀ e ∈ ms.fs.sealedS, e.dgram ∈ ms.fs.emS.map (·.2)) :=
  mrun_emitted ops ms0 ms (emitted_of_fresh he.toRenetFresh) hr

/-- **Lock-step with several clients.**  From a server glue in lock-step, after EVERY run of the several-client system
    the renet connection table and the netcode slot table hold the same client ids, both without repetition — whatever
    mix of handshakes, disconnects, broadcasts and per-client calls the run consists of. -/
theorem multi_lockstep (a : AEAD) (cid : Nat) (ms0 ms : MS) (ops : List MOp) (hk : GI.LockStep ms0.fs.s)
    (hr : ms0.run a cid ops = some ms) : GI.LockStep ms.fs.s :=
  mrun_lockstep ops ms0 ms hk hr

/-- … for the observed client: it has a `RenetClient` in the server's table exactly when it has a netcode slot … -/
theorem multi_lockstep_cid (a : AEAD) (cid : Nat) (ms0 ms : MS) (ops : List MOp) (hk : GI.LockStep ms0.fs.s)
    (hr : ms0.run a cid ops = some ms) :
    SMap.contains ms.fs.s.renet.conns cid = true ↔ cid ∈ ms.fs.s.netcode.clientsId :=
  (mrun_lockstep ops ms0 ms hk hr).sync cid

/-- … and right after every transport `update` (the loops over all clients) no connection of the table is in the
    disconnected state: every disconnect the message layer decided, for whichever client, has reached netcode -/
theorem multi_lockstep_after_update (a : AEAD) (cid : Nat) (ms0 ms : MS) (ops : List MOp) (d : Nat) (inbox : List Dgram)
    (hk : GI.LockStep ms0.fs.s) (hr : ms0.run a cid (ops ++ [.base (.srvUpdate d inbox)]) = some ms) :
    GI.LockStep ms.fs.s ∧ GI.NoDead ms.fs.s.renet := by
  rw [MS.run_append] at hr
  cases h1 : ms0.run a cid ops with
  | none => rw [h1] at hr; cases hr
  | some ms1 =>
    rw [h1] at hr
    simp only [Option.bind_some, MS.run] at hr
    cases h2 : ms1.step a cid (.base (.srvUpdate d inbox)) with
    | none => rw [h2] at hr; cases hr
    | some ms2 =>
      rw [h2] at hr
      cases hr
      obtain ⟨q1, q2⟩ := mstep_lockstep (mrun_lockstep ops ms0 ms1 hk h1) h2
      exact ⟨q1, q2 d inbox rfl⟩

/-- **Frame.**  `send_message(id, …)`, `receive_message(id, …)`, `disconnect(id)` for `id ≠ cid`,
    `broadcast_message_except(cid, …)` and every call of the other client leave `cid`'s session exactly as it was. -/
theorem others_do_not_disturb (a : AEAD) (cid : Nat) (ms ms' : MS) (op : MOp) (ho : isOther cid op = true)
    (hs : ms.step a cid op = some ms') : SameForCid cid ms.fs ms'.fs :=
  other_frame ho hs

/-- **A broadcast is, for `cid`, exactly a `srvSend`.** -/
theorem broadcast_is_send (a : AEAD) (cid : Nat) (ms ms' : MS) (ch : Nat) (m : Bytes)
    (hs : ms.step a cid (.srvBroadcast ch m) = some ms') :
    ∃ fs1, ms.fs.step a cid (.srvSend ch m) = some fs1 ∧ SameForCid cid fs1 ms'.fs :=
  broadcast_is_srvSend hs

theorem broadcast_except_is_send (a : AEAD) (cid : Nat) (ms ms' : MS) (ex ch : Nat) (m : Bytes) (hne : ex ≠ cid)
    (hs : ms.step a cid (.srvBroadcastExcept ex ch m) = some ms') :
    ∃ fs1, ms.fs.step a cid (.srvSend ch m) = some fs1 ∧ SameForCid cid fs1 ms'.fs :=
  broadcastExcept_is_srvSend hne hs

/-! ## non-vacuity: a two-client session evaluated by the kernel

  Client 7's handshake is run in the model as in C20 / C20F (`C20F.Ex.fs0`: `Established`).  Client 9 (connect token
  under the same server key, its own session keys, its own address) starts from `NetcodeClient::new`; ITS handshake is
  part of the run below, through the same `NetcodeServerTransport::update`:
    h1–h5   request → challenge → response → `ClientConnected 9` + keep-alive → connected; both tables hold [7, 9];
    g1      `broadcast_message(1, [5,5])`, `broadcast_message_except(9, 1, [2])`, `send_message(9, 1, [4])`,
            `send_message(7, 1, [9,9])`; client 9 submits `[3,3]`, client 7 `[1,2,3]`; all three `send_packets`;
    g2      one server `update` with the datagrams of BOTH clients; the application reads from 7 and from 9; both
            clients `update` with what the server sent them and read;
    g3–g4   client 9's application disconnects, its `update` emits the disconnect datagram, the server's `update` frees
            slot and table entry; client 7 submits `[6]`; `broadcast_message(1, [8])` (now reaching 7 only);
            `send_message(9, …)` and `disconnect(9)` for the departed client (no-ops); `send_packets`;
    g5      server `update`, read; client 7 `update`, read. -/
namespace Ex
open RenetVerif.C20 RenetVerif.C20F.Ex

def cli9Addr : Addr := .v4 [10, 0, 0, 4] 2001

/-- a connect token for client 9 under the server's private key `[9, 9]`, session keys 32 × 6 / 32 × 8 -/
def tok9 : ConnectToken :=
  match ConnectToken.generate toyAead 0 7 30 9 5 [exSrvAddr] (List.replicate 256 0) (List.replicate 32 6)
          (List.replicate 32 8) (List.replicate 24 2) [9, 9] with
  | .ok t => t
  | _ => exTok

def o0 : ClientGlue :=
  match NetcodeClient.new 0 tok9 with
  | .ok nc => ⟨nc, Conn.fromChannels 60000 exChans exChans⟩
  | _ => exC1

def ms0 : MS := ⟨fs0, o0, [], [], [], []⟩

/-- the relay: the datagrams of `l` from index `n` on that are addressed to `dst`, as they arrive from `src` -/
def relay (l : List Dgram) (n : Nat) (dst src : Addr) : List Dgram :=
  ((l.drop n).filter (fun x => x.1 == dst)).map fun x => (src, x.2)
def toSrv9 (l : List Dgram) (n : Nat) : List Dgram := (l.drop n).map fun x => (cli9Addr, x.2)
def toSrv7 (l : List Dgram) (n : Nat) : List Dgram := (l.drop n).map fun x => (hsCliAddr, x.2)

def run' (ms : MS) (ops : List MOp) : MS := (ms.run toyAead 7 ops).getD ms0

def h1 : List MOp := [.othUpdate 1000 []]
def t1 : MS := run' ms0 h1
def h2 : List MOp := [.base (.srvUpdate 1000 (toSrv9 t1.emO 0))]
def t2 : MS := run' t1 h2
def h3 : List MOp := [.othUpdate 1000 (relay t2.updS 0 cli9Addr exSrvAddr)]
def t3 : MS := run' t2 h3
def h4 : List MOp := [.base (.srvUpdate 1000 (toSrv9 t3.emO t1.emO.length))]
def t4 : MS := run' t3 h4
def h5 : List MOp := [.othUpdate 1000 (relay t4.updS t2.updS.length cli9Addr exSrvAddr), .othUpdate 1000 []]
def t5 : MS := run' t4 h5
def g1 : List MOp :=
  [.srvBroadcast 1 [5, 5], .srvBroadcastExcept 9 1 [2], .srvSendTo 9 1 [4], .srvSendTo 7 1 [9, 9], .othSend 1 [3, 3],
   .base (.cliSend 1 [1, 2, 3]), .base .cliSendPackets, .othSendPackets, .base .srvSendPackets]
def t6 : MS := run' t5 g1
def g2 : List MOp :=
  [.base (.srvUpdate 1000 (toSrv7 t6.fs.emC 0 ++ toSrv9 t6.emO t5.emO.length)), .srvRecvFrom 7 1, .srvRecvFrom 9 1,
   .base (.cliUpdate 1000 (relay t6.fs.emS 0 hsCliAddr exSrvAddr)), .base (.cliRecv 1), .base (.cliRecv 1),
   .base (.cliRecv 1), .othUpdate 1000 (relay t6.fs.emS 0 cli9Addr exSrvAddr), .othRecv 1, .othRecv 1, .othRecv 1]
def t7 : MS := run' t6 g2
def g3 : List MOp := [.othDisconnect, .othUpdate 1000 []]
def t8 : MS := run' t7 g3
def g4 : List MOp :=
  [.base (.srvUpdate 1000 (toSrv9 t8.emO t7.emO.length)), .base (.cliSend 1 [6]), .base .cliSendPackets,
   .srvBroadcast 1 [8], .srvSendTo 9 1 [4], .srvDisconnectId 9, .base .srvSendPackets]
def t9 : MS := run' t8 g4
def g5 : List MOp :=
  [.base (.srvUpdate 1000 (toSrv7 t9.fs.emC t6.fs.emC.length)), .srvRecvFrom 7 1,
   .base (.cliUpdate 1000 (relay t9.fs.emS t6.fs.emS.length hsCliAddr exSrvAddr)), .base (.cliRecv 1)]

/-- the run up to the moment both clients are connected and have exchanged traffic (after g2) … -/
def opsMid : List MOp := h1 ++ h2 ++ h3 ++ h4 ++ h5 ++ g1 ++ g2
/-- … and the whole run -/
def ops : List MOp := opsMid ++ (g3 ++ g4 ++ g5)
def mid : MS := (ms0.run toyAead 7 opsMid).getD ms0
def fin : MS := (ms0.run toyAead 7 ops).getD ms0

/-- the handshake of client 9 happened in the run: the datagram counts, and both tables of the server hold 7 and 9
    afterwards, the second client's two layers are connected -/
theorem handshake9 :
    (t1.emO.length, t2.updS.length, t3.emO.length, t4.updS.length) = (1, 1, 2, 2) ∧
    (t4.fs.s.netcode.clientsId, t4.fs.s.renet.clientsId, t5.o.netcode.isConnected, t5.o.renet.isConnected) =
      ([7, 9], [7, 9], true, true) := by
  decide +kernel

/-- everything the examples below need, in ONE kernel evaluation -/
theorem all :
    (ms0.run toyAead 7 ops).isSome = true ∧
    (mrunB (mopNFD toyAead 7) toyAead 7 ms0 ops && mrunB (mopSS toyAead 7) toyAead 7 ms0 ops) = true ∧
    (fin.fs.c.renet.packetSeq ≤ Varint.MAX + 1 ∧ fin.fs.ySeq ≤ Varint.MAX + 1 ∧
      (∀ c ∈ cfg.send, c.id < 256 ∧ (fin.fs.subC c.id).length ≤ Varint.MAX + 1 ∧
        (fin.fs.subS c.id).length ≤ Varint.MAX + 1) ∧
      (∀ c ∈ cfg.send, ∀ m ∈ fin.fs.subC c.id ++ fin.fs.subCU c.id ++ fin.fs.subS c.id ++ fin.fs.subSU c.id,
        m.length ≤ MAX_NUM_SLICES * SLICE_SIZE)) ∧
    (fin.fs.subC 1 = [[1, 2, 3], [6]] ∧ fin.fs.obtS 1 = [[1, 2, 3], [6]] ∧
      fin.fs.subS 1 = [[5, 5], [2], [9, 9], [8]] ∧ fin.fs.obtC 1 = [[5, 5], [2], [9, 9], [8]] ∧
      fin.obtSO = [(9, 1, [3, 3])] ∧ fin.obtO = [(1, [5, 5]), (1, [4])] ∧
      fin.fs.s.netcode.clientsId = [7] ∧ fin.fs.s.renet.clientsId = [7]) := by
  decide +kernel

theorem run : ms0.run toyAead 7 ops = some fin := some_getD all.1 _
theorem noForgery : MNoForgeryRunD toyAead 7 ms0 ops := (Bool.and_eq_true _ _ ▸ all.2.1 : _ ∧ _).1
theorem singleSession : MSingleSessionRun toyAead 7 ms0 ops := (Bool.and_eq_true _ _ ▸ all.2.1 : _ ∧ _).2

theorem established : Established cfg 7 ms0.fs := fs0_established

theorem countersUp : CountersUp cfg fin.fs := by
  obtain ⟨⟨h1, -, h3, h4⟩, -⟩ := all.2.2
  refine ⟨fun c hc => (h3 c hc).1, h1, fun c hc => (h3 c hc).2.1, fun c hc m hm => h4 c hc m ?_, fun c hc m hm => h4 c hc m ?_⟩
  · simp only [List.mem_append]; exact Or.inl (Or.inl (Or.inl hm))
  · simp only [List.mem_append]; exact Or.inl (Or.inl (Or.inr hm))

theorem countersDown : CountersDown cfg fin.fs := by
  obtain ⟨⟨-, h2, h3, h4⟩, -⟩ := all.2.2
  refine ⟨fun c hc => (h3 c hc).1, h2, fun c hc => (h3 c hc).2.2, fun c hc m hm => h4 c hc m ?_, fun c hc m hm => h4 c hc m ?_⟩
  · simp only [List.mem_append]; exact Or.inl (Or.inr hm)
  · simp only [List.mem_append]; exact Or.inr hm

/-- `multi_ordered_prefix` on this run, both directions … -/
example : fin.fs.obtS 1 <+: fin.fs.subC 1 :=
  (multi_ordered_prefix toyAead toyAead_laws cfg 7 ms0 fin ops established run noForgery singleSession).1
    countersUp 1 ordered1
example : fin.fs.obtC 1 <+: fin.fs.subS 1 :=
  (multi_ordered_prefix toyAead toyAead_laws cfg 7 ms0 fin ops established run noForgery singleSession).2
    countersDown 1 ordered1'
/-- … `multi_integrity` … -/
example : ∀ x ∈ fin.fs.obtC 1, x ∈ fin.fs.subS 1 :=
  ((multi_integrity toyAead toyAead_laws cfg 7 ms0 fin ops established run noForgery singleSession).2
    countersDown).1 1 (Or.inl ordered1')
/-- … and what actually happened.  Client 7 obtained both broadcasts, the except-9 broadcast and its own message, in
    submission order, and NOT the `[4]` addressed to client 9; the server obtained `[1,2,3]`, `[6]` from client 7 and
    `[3,3]` from client 9 (attributed to 9); client 9 obtained the first broadcast and its `[4]`, not `[2]`; after client
    9 left, both server tables hold client 7 alone and its traffic went on. -/
example : fin.fs.subC 1 = [[1, 2, 3], [6]] ∧ fin.fs.obtS 1 = [[1, 2, 3], [6]] ∧
    fin.fs.subS 1 = [[5, 5], [2], [9, 9], [8]] ∧ fin.fs.obtC 1 = [[5, 5], [2], [9, 9], [8]] ∧
    fin.obtSO = [(9, 1, [3, 3])] ∧ fin.obtO = [(1, [5, 5]), (1, [4])] ∧
    fin.fs.s.netcode.clientsId = [7] ∧ fin.fs.s.renet.clientsId = [7] := all.2.2.2

/-! lock-step on this run: the start state's server glue is `C20.s2.1`, reached from the fresh glue `exG0` by two
    transport `update`s -/

theorem sstep_lockstep {g : ServerGlue} (d : Nat) (inbox : List Dgram) (h : GI.LockStep g) :
    GI.LockStep (sstep g d inbox).1 := by
  unfold sstep
  split
  · rename_i g' out ho
    exact (C20.update_lockstep ho h).1
  · exact h

theorem exG0_lockstep : GI.LockStep exG0 := (GI.gInv_fresh exNs0_fresh 60000 exChans exChans).1
theorem s1_lockstep : GI.LockStep s1.1 := sstep_lockstep (g := exG0) 1000 (up c1.2) exG0_lockstep
theorem s2_lockstep : GI.LockStep s2.1 := sstep_lockstep (g := s1.1) 1000 (up c2.2) s1_lockstep
theorem ms0_lockstep : GI.LockStep ms0.fs.s := by
  simp only [ms0, fs0, FS.start]
  exact s2_lockstep

/-- `multi_lockstep_cid`, `multi_lockstep` at the end of the run … -/
example : SMap.contains fin.fs.s.renet.conns 7 = true ↔ 7 ∈ fin.fs.s.netcode.clientsId :=
  multi_lockstep_cid toyAead 7 ms0 fin ops ms0_lockstep run
example : GI.LockStep fin.fs.s := multi_lockstep toyAead 7 ms0 fin ops ms0_lockstep run

/-- … and `multi_ordered_prefix_always`, `multi_lockstep` at the moment both clients are connected (after g2) -/
theorem mid_facts :
    (ms0.run toyAead 7 opsMid).isSome = true ∧
    (mid.fs.c.renet.packetSeq ≤ Varint.MAX + 1 ∧ mid.fs.ySeq ≤ Varint.MAX + 1 ∧
      (∀ c ∈ cfg.send, c.id < 256 ∧ (mid.fs.subC c.id).length ≤ Varint.MAX + 1 ∧
        (mid.fs.subS c.id).length ≤ Varint.MAX + 1) ∧
      (∀ c ∈ cfg.send, ∀ m ∈ mid.fs.subC c.id ++ mid.fs.subCU c.id ++ mid.fs.subS c.id ++ mid.fs.subSU c.id,
        m.length ≤ MAX_NUM_SLICES * SLICE_SIZE)) ∧
    (mid.fs.obtS 1 = [[1, 2, 3]] ∧ mid.fs.obtC 1 = [[5, 5], [2], [9, 9]] ∧ mid.fs.s.netcode.clientsId = [7, 9] ∧
      mid.fs.s.renet.clientsId = [7, 9]) := by
  decide +kernel

example : mid.fs.obtS 1 <+: mid.fs.subC 1 ∧ mid.fs.obtC 1 <+: mid.fs.subS 1 ∧ GI.LockStep mid.fs.s := by
  obtain ⟨hr, ⟨h1, h2, h3, h4⟩, -⟩ := mid_facts
  have h := multi_ordered_prefix_always toyAead toyAead_laws cfg 7 ms0 mid opsMid (g3 ++ g4 ++ g5) established
    (some_getD hr _) noForgery singleSession
  refine ⟨h.1 ⟨fun c hc => (h3 c hc).1, h1, fun c hc => (h3 c hc).2.1, fun c hc m hm => h4 c hc m ?_,
      fun c hc m hm => h4 c hc m ?_⟩ 1 ordered1,
    h.2 ⟨fun c hc => (h3 c hc).1, h2, fun c hc => (h3 c hc).2.2, fun c hc m hm => h4 c hc m ?_,
      fun c hc m hm => h4 c hc m ?_⟩ 1 ordered1',
    multi_lockstep toyAead 7 ms0 mid opsMid ms0_lockstep (some_getD hr _)⟩
  · simp only [List.mem_append]; exact Or.inl (Or.inl (Or.inl hm))
  · simp only [List.mem_append]; exact Or.inl (Or.inl (Or.inr hm))
  · simp only [List.mem_append]; exact Or.inl (Or.inr hm)
  · simp only [List.mem_append]; exact Or.inr hm

/-- `multi_lockstep_after_update` at the server `update` that completes client 9's handshake (`h4`): both tables hold
    7 and 9 (`handshake9`), in lock-step, nobody disconnected -/
theorem h4_runs : (ms0.run toyAead 7 ((h1 ++ h2 ++ h3) ++ h4)).isSome = true := by decide +kernel

example : GI.LockStep ((ms0.run toyAead 7 ((h1 ++ h2 ++ h3) ++ h4)).getD ms0).fs.s ∧
    GI.NoDead ((ms0.run toyAead 7 ((h1 ++ h2 ++ h3) ++ h4)).getD ms0).fs.s.renet :=
  multi_lockstep_after_update toyAead 7 ms0 _ (h1 ++ h2 ++ h3) 1000 (toSrv9 t3.emO t1.emO.length) ms0_lockstep
    (some_getD h4_runs _)

/-! the frame and broadcast statements on concrete steps of this run -/

def sent9 : MS := (t5.step toyAead 7 (.srvSendTo 9 1 [4])).getD ms0
def bcast : MS := (t5.step toyAead 7 (.srvBroadcast 1 [5, 5])).getD ms0

/-- at the moment both clients are connected (`t5`): `send_message(9, 1, [4])` and `broadcast_message(1, [5,5])` return;
    the former changed client 9's entry of the server's table -/
theorem frame_facts :
    (t5.step toyAead 7 (.srvSendTo 9 1 [4])).isSome = true ∧ (t5.step toyAead 7 (.srvBroadcast 1 [5, 5])).isSome = true ∧
    decide (SMap.find? sent9.fs.s.renet.conns 9 = SMap.find? t5.fs.s.renet.conns 9) = false ∧
    bcast.fs.subS 1 = [[5, 5]] := by
  decide +kernel

/-- `others_do_not_disturb` on that step: client 7's session is as it was -/
example : SameForCid 7 t5.fs sent9.fs :=
  others_do_not_disturb toyAead 7 t5 sent9 (.srvSendTo 9 1 [4]) rfl (some_getD frame_facts.1 _)

/-- `broadcast_is_send` on that step -/
example : ∃ fs1, t5.fs.step toyAead 7 (.srvSend 1 [5, 5]) = some fs1 ∧ SameForCid 7 fs1 bcast.fs :=
  broadcast_is_send toyAead 7 t5 bcast 1 [5, 5] (some_getD frame_facts.2.1 _)

end Ex

/-! `ExU` — ReliableUnordered (channel 2, the session of `C20F.ExU`), with a second client around and broadcasts:
    `broadcast_message(2, [8])`, flush, `broadcast_message_except(9, 2, [9])`, flush; the adversary delivers the LATER
    datagram first; client 7 obtains `[9]`, then `[8]`: each once, out of order. -/
namespace ExU
open RenetVerif.C20 RenetVerif.C20F.Ex

abbrev cfg := C20F.ExU.cfg
def ms0 : MS := ⟨C20F.ExU.fs0, Ex.o0, [], [], [], []⟩
def ops1 : List MOp :=
  [.srvBroadcast 2 [8], .base .srvSendPackets, .srvBroadcastExcept 9 2 [9], .base .srvSendPackets, .srvSendTo 9 2 [4],
   .base (.cliSend 2 [1]), .base .cliSendPackets]
def st1 : MS := (ms0.run toyAead 7 ops1).getD ms0
def dU (i : Nat) : Dgram := (hsCliAddr, (st1.fs.emC.map (·.2)).getD i [])
def dD (i : Nat) : Dgram := (exSrvAddr, (st1.fs.emS.map (·.2)).getD i [])
def ops2 : List MOp :=
  [.base (.cliUpdate 1000 [dD 1]), .base (.cliRecv 2), .base (.cliUpdate 1000 [dD 0, dD 1, dD 0]), .base (.cliRecv 2),
   .base (.cliRecv 2), .base (.srvUpdate 1000 [dU 0, dU 0]), .srvRecvFrom 7 2, .srvRecvFrom 7 2]
def ops : List MOp := ops1 ++ ops2
def fin : MS := (ms0.run toyAead 7 ops).getD ms0

theorem all :
    (ms0.run toyAead 7 ops).isSome = true ∧
    (mrunB (mopNFD toyAead 7) toyAead 7 ms0 ops && mrunB (mopSS toyAead 7) toyAead 7 ms0 ops) = true ∧
    (fin.fs.c.renet.packetSeq ≤ Varint.MAX + 1 ∧ fin.fs.ySeq ≤ Varint.MAX + 1 ∧
      (∀ c ∈ cfg.send, c.id < 256 ∧ (fin.fs.subC c.id).length ≤ Varint.MAX + 1 ∧
        (fin.fs.subS c.id).length ≤ Varint.MAX + 1) ∧
      (∀ c ∈ cfg.send, ∀ m ∈ fin.fs.subC c.id ++ fin.fs.subCU c.id ++ fin.fs.subS c.id ++ fin.fs.subSU c.id,
        m.length ≤ MAX_NUM_SLICES * SLICE_SIZE)) ∧
    (fin.fs.subS 2 = [[8], [9]] ∧ fin.fs.obtC 2 = [[9], [8]] ∧ fin.fs.subC 2 = [[1]] ∧ fin.fs.obtS 2 = [[1]]) := by
  decide +kernel

theorem run : ms0.run toyAead 7 ops = some fin := some_getD all.1 _
theorem noForgery : MNoForgeryRunD toyAead 7 ms0 ops := (Bool.and_eq_true _ _ ▸ all.2.1 : _ ∧ _).1
theorem singleSession : MSingleSessionRun toyAead 7 ms0 ops := (Bool.and_eq_true _ _ ▸ all.2.1 : _ ∧ _).2

theorem countersDown : CountersDown cfg fin.fs := by
  obtain ⟨⟨-, h2, h3, h4⟩, -⟩ := all.2.2
  refine ⟨fun c hc => (h3 c hc).1, h2, fun c hc => (h3 c hc).2.2, fun c hc m hm => h4 c hc m ?_, fun c hc m hm => h4 c hc m ?_⟩
  · simp only [List.mem_append]; exact Or.inl (Or.inr hm)
  · simp only [List.mem_append]; exact Or.inr hm

/-- `multi_unordered_once` on this run, server → client 7 (two broadcasts) … -/
example : ∃ ids : List Nat, ids.Nodup ∧ (fin.fs.obtC 2).map some = ids.map (fun id => (fin.fs.subS 2)[id]?) :=
  (multi_unordered_once toyAead toyAead_laws cfg 7 ms0 fin ops C20F.ExU.fs0_established run noForgery singleSession).2
    countersDown 2 C20F.ExU.unordered2
/-- … and what actually happened (witness `ids = [1, 0]`) -/
example : fin.fs.subS 2 = [[8], [9]] ∧ fin.fs.obtC 2 = [[9], [8]] ∧ fin.fs.subC 2 = [[1]] ∧ fin.fs.obtS 2 = [[1]] :=
  all.2.2.2

end ExU

end RenetVerif.C20M
