/-
  Source tie: the Lean definitions that /verif/translator derives from the CURRENT Rust text
  (`RenetVerif/Generated/Src.lean`, namespace `RenetVerif.Src`, regenerated on every check run) compute
  exactly what the hand-written model computes.  If one of these Rust functions is edited, the
  regenerated text changes and these theorems are re-checked against it.

  Conventions: generated integers are `Nat`s (a `uN` argument is assumed `< 2^N` where it matters, stated
  as a hypothesis), arrays/`Vec`s/slices are `List`s.  `absRP`/`absSC`/`absPT`/`absErr` are the abstraction
  functions generated type → model type, `reprRP`/`reprSC`/`toNats` their (right-)inverses on well-formed
  values; `WfRP`, `WfSC`, `BytesOk` are decidable (so is `p.enc = .ok bytes` in part D).  `SameOutcome` compares `ok`/`err` values exactly and
  panics up to the text of the site.
-/
import RenetVerif.Lemmas.SrcEquiv.Slice
namespace RenetVerif.SrcTie
open RenetVerif RenetVerif.SrcEquiv

/-! ## C. `renet/src/channel/slice_constructor.rs` ↔ `SliceCtor` -/
section C
open Src.renet.channel.slice_constructor

/-- `SliceConstructor::new`: without `usize` overflow of `num_slices * SLICE_SIZE` it is the model's constructor -/
theorem slice_constructor_new {ε : Type} (message_id num_slices : Nat) (h : num_slices * C.SLICE_SIZE < 2 ^ 64) :
    (SliceConstructor.new message_id num_slices : Res ε SliceConstructor) = .ok (reprSC message_id (SliceCtor.new num_slices)) :=
  sc_new_eq message_id num_slices h

/-- … and with overflow it panics (debug-profile multiplication) -/
theorem slice_constructor_new_overflow {ε : Type} (message_id num_slices : Nat) (h : ¬ num_slices * C.SLICE_SIZE < 2 ^ 64) :
    ∃ site, (SliceConstructor.new message_id num_slices : Res ε SliceConstructor) = .panic site :=
  sc_new_overflow message_id num_slices h

/-- `process_slice` on a well-formed state and a byte slice: same new state and payload, same
    `InvalidSliceMessage` error, and a panic exactly when the model panics -/
theorem slice_constructor_process_slice (st : SliceConstructor) (hst : WfSC st) (slice_index : Nat) (bytes : List Nat)
    (hb : BytesOk bytes) :
    SameOutcome (SliceConstructor.process_slice st slice_index bytes)
      (mapRes (fun r => (reprSC st.message_id r.1, r.2.map toNats)) (fun e => (reprCE e, st))
        ((absSC st).processSlice slice_index (ofNats bytes))) := by
  have := process_slice_eq st.message_id (absSC st) slice_index (ofNats bytes) hst.2.1 hst.2.2
  rwa [reprSC_absSC st hst.1, toNats_ofNats hb] at this

/-- the same statement from the model's side: for every model state and message id -/
theorem slice_constructor_process_slice' (message_id : Nat) (c : SliceCtor) (slice_index : Nat) (bytes : Bytes)
    (hn : c.numSlices * C.SLICE_SIZE < 2 ^ 64) (hr : c.numReceived + 1 < 2 ^ 64) :
    SameOutcome (SliceConstructor.process_slice (reprSC message_id c) slice_index (toNats bytes))
      (mapRes (fun r => (reprSC message_id r.1, r.2.map toNats)) (fun e => (reprCE e, reprSC message_id c)) (c.processSlice slice_index bytes)) :=
  process_slice_eq message_id c slice_index bytes hn hr

/-- a 1-slice message of 3 bytes completes at once -/
example :
    (SliceConstructor.new 9 1 >>= fun st => SliceConstructor.process_slice st 0 [1, 2, 3]) =
      .ok (⟨9, 1, 1, [true], []⟩, some [1, 2, 3]) := by decide +kernel
/-- a wrong slice index is an error; the error carries the (unchanged) constructor -/
example :
    (SliceConstructor.new 9 1 >>= fun st => SliceConstructor.process_slice st 1 [1, 2, 3]) =
      .err (.InvalidSliceMessage, ⟨9, 1, 0, [false], List.replicate 1200 0⟩) := by decide +kernel
end C

end RenetVerif.SrcTie
