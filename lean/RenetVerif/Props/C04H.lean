/-
  C04 over WHOLE SERVER RUNS (model level) — "each genuine payload is surfaced at most once per session, and only if it
  opened under that session's receive key", for every interleaving of the public operations of `NetcodeServer`.

  A run: `NS.ReachT a s tr` — `s` is reached from an empty server (`NetcodeServer::new` returns one, `reachT_new`) by any list
  of `NS.step` operations (`process_packet` on ANY datagram from ANY address, `update`, `update_client`, `disconnect`,
  `set_max_clients`, `generate_payload_packet`, arbitrary arguments, any order); `tr` is the trace: the list of
  (operation, returned `ServerResult`).  Proofs: Lemmas/NcSessionTrace.lean (the invariant `NS.SessInv` carried along the run).

  A session of client id `id`: the stretch of the trace after a `ClientConnected id ..` result up to the next one
  (`NS.sessPayloads id tr` = the (datagram, surfaced bytes) pairs of the `Payload id ..` results of the CURRENT session, i.e.
  since the last `ClientConnected id`; a `Payload id` result can only occur while `id` occupies a slot, so between two
  `ClientConnected id` results the payloads are those of one stay in the slot table).  Earlier sessions are covered because
  every prefix of a run is a run (`payload_once_per_session` is stated for two arbitrary positions of the trace).

  Excluded point (as in C04): the sequence number `2^64-1` equals the window's EMPTY marker (`C04.sentinel_collision`).
  NOT covered here: that the stored window EQUALS the `Recv.run` window of the datagrams decoded for that slot (the theorems
  below give the window invariant `RP.Inv` with a ghost list containing every surfaced sequence number, which is what
  at-most-once needs; the window a session starts with is the one its half-open predecessor accumulated, not `RP.new`).
-/
import RenetVerif.Lemmas.NcSessionTrace
import RenetVerif.Lemmas.NcExamples
import RenetVerif.Props.C04
set_option linter.unusedVariables false
namespace RenetVerif.C04H
open RenetVerif RenetVerif.Netcode RenetVerif.Netcode.NS

/-- `NetcodeServer::new` starts a run -/
theorem reachT_new {a : AEAD} {t m pid : Nat} {pa : List Addr} {sec : Bool} {k ck : Bytes} {s : NetcodeServer}
    (h : NetcodeServer.new t m pid pa sec k ck = .ok s) : ReachT a s [] := .init (new_inv h).2.2.2.2.2.1

/-- **The stored window of a session, after any run.**  For every occupied slot (session `c`) there is a ghost list
    `accepted` with `RP.Inv c.replayProtection accepted` such that every datagram whose payload was surfaced in the current
    session of `c.clientId` has its sequence number in `accepted`, opened under `c.receiveKey` (nonce = its own sequence
    number, additional data = version ‖ protocol id ‖ its own prefix byte) to exactly the surfaced bytes, and — unless its
    sequence number is `2^64-1` — is now rejected by the stored window. -/
theorem session_window {a : AEAD} {s : NetcodeServer} {tr : Trace} (h : ReachT a s tr) {i : Nat} {c : Connection}
    (hc : At s.clients i c) :
    ∃ accepted, RP.Inv c.replayProtection accepted ∧ ∀ bp ∈ sessPayloads c.clientId tr,
      Packet.wireSeq bp.1 ∈ accepted ∧ Packet.SealedOpen a bp.1 s.protocolId c.receiveKey .payload bp.2 ∧
      (Packet.wireSeq bp.1 ≠ 2 ^ 64 - 1 → c.replayProtection.alreadyReceived (Packet.wireSeq bp.1) = true) := by
  obtain ⟨acc, hacc, hmem⟩ := h.sessInv.slot i c hc
  exact ⟨acc, hacc, fun bp hbp => ⟨(hmem bp hbp).1, (hmem bp hbp).2, fun hne => RP.no_reaccept hacc (hmem bp hbp).1 hne⟩⟩

/-- the windows of the half-open sessions satisfy the window invariant too (a connected session inherits this window) -/
theorem pending_window {a : AEAD} {s : NetcodeServer} {tr : Trace} (h : ReachT a s tr) {x : Addr × Connection}
    (hx : x ∈ s.pendingClients) : ∃ accepted, RP.Inv x.2.replayProtection accepted :=
  h.sessInv.pend x hx

/-- **At most once per session, after any run**: the sequence numbers (`2^64-1` excluded) of the datagrams whose payloads were
    surfaced in the current session of `id` are pairwise distinct. -/
theorem session_payload_once {a : AEAD} {s : NetcodeServer} {tr : Trace} (h : ReachT a s tr) (id : Nat) :
    (seqsOf (sessPayloads id tr)).Nodup :=
  h.sessInv.nodup id

/-- **Authentic, one key per session**: all payloads surfaced in the current session of `id` are the plaintexts of their
    datagrams under ONE key (`session_window`: the receive key of the slot while the session lasts). -/
theorem session_payloads_authentic {a : AEAD} {s : NetcodeServer} {tr : Trace} (h : ReachT a s tr) (id : Nat) :
    ∃ key, ∀ bp ∈ sessPayloads id tr, Packet.SealedOpen a bp.1 s.protocolId key .payload bp.2 :=
  h.sessInv.key id

/-- with `C04.NoForgery` for that key: every payload of the session is what the peer sealed under that sequence number -/
theorem session_payloads_genuine {a : AEAD} {s : NetcodeServer} {tr : Trace} (h : ReachT a s tr) {i : Nat} {c : Connection}
    (hc : At s.clients i c) {sealed : Nat → UInt8 → Bytes → Prop}
    (hnf : C04.NoForgery a s.protocolId c.receiveKey ((sessPayloads c.clientId tr).map (·.1)) sealed) :
    ∀ bp ∈ sessPayloads c.clientId tr, sealed (Packet.wireSeq bp.1) (Packet.wirePrefix bp.1) bp.2 := by
  intro bp hbp
  obtain ⟨acc, _, hmem⟩ := session_window h hc
  exact hnf bp.1 (List.mem_map.mpr ⟨bp, hbp, rfl⟩) bp.2 (hmem bp hbp).2.1.opened

/-- only `process_packet` returns `Payload` results -/
theorem payload_only_from_packet {a : AEAD} {s : NetcodeServer} {tr : Trace} (h : ReachT a s tr) {op : Op} {id : Nat}
    {p : Bytes} (hm : (op, ServerResult.payload id p) ∈ tr) : ∃ ad buf, op = .packet ad buf :=
  h.payload_packet op id p hm

theorem sessPayloads_append (id : Nat) (t1 t2 : Trace) :
    sessPayloads id (t1 ++ t2) = t2.foldl (sessStep id) (sessPayloads id t1) := by
  simp [sessPayloads, List.foldl_append]

/-- **At most once per session, any two positions of any run.**  If two `Payload id ..` results of a run (for the datagrams
    `bj`, later `bk`) have no `ClientConnected id ..` result between them (same session), then the datagrams carry different
    sequence numbers (unless it is `2^64-1`) — no datagram, copy of it, or modification keeping its sequence bytes is surfaced
    twice — and both opened under one and the same key to exactly the surfaced bytes. -/
theorem payload_once_per_session {a : AEAD} {s : NetcodeServer} {tr pre mid post : Trace} (h : ReachT a s tr)
    {id : Nat} {adj adk : Addr} {bj bk pj pk : Bytes}
    (he : tr = pre ++ (.packet adj bj, .payload id pj) :: (mid ++ (.packet adk bk, .payload id pk) :: post))
    (hmid : ∀ x ∈ mid, ∀ ad ud o, x.2 ≠ .clientConnected id ad ud o) :
    (Packet.wireSeq bj ≠ 2 ^ 64 - 1 → Packet.wireSeq bk ≠ Packet.wireSeq bj) ∧
    ∃ key, Packet.SealedOpen a bj s.protocolId key .payload pj ∧ Packet.SealedOpen a bk s.protocolId key .payload pk := by
  have e : tr = (pre ++ (Op.packet adj bj, ServerResult.payload id pj) ::
      (mid ++ [(Op.packet adk bk, ServerResult.payload id pk)])) ++ post := by
    rw [he]; simp
  obtain ⟨s1, h1, hp⟩ := h.prefix _ _ e
  obtain ⟨M, hM⟩ := foldl_sessStep_suffix mid ((bj, pj) :: sessPayloads id pre) hmid
  have hL : sessPayloads id (pre ++ (Op.packet adj bj, ServerResult.payload id pj) ::
      (mid ++ [(Op.packet adk bk, ServerResult.payload id pk)])) = (bk, pk) :: (M ++ (bj, pj) :: sessPayloads id pre) := by
    rw [sessPayloads_append, List.foldl_cons, sessStep_payload, if_pos rfl, List.foldl_append, hM, List.foldl_cons,
      List.foldl_nil, sessStep_payload, if_pos rfl]
  have hnd := h1.sessInv.nodup id
  obtain ⟨key, hkey⟩ := h1.sessInv.key id
  rw [hL] at hnd hkey
  rw [hp] at hkey
  refine ⟨fun hne heq => ?_, key, hkey (bj, pj) (by simp), hkey (bk, pk) (by simp)⟩
  rw [seqsOf_cons, if_pos (by rw [heq]; exact hne)] at hnd
  refine (List.nodup_cons.mp hnd).1 (mem_seqsOf.mpr ⟨⟨(bj, pj), by simp, heq.symm⟩, by rw [heq]; exact hne⟩)

/-- **Replay rejected after any run**: a datagram carrying the sequence number of one whose payload was surfaced in the
    current session of the client connected from `addr` surfaces NO payload when presented (from that address) to the state the
    run ended in.  (`SInv 1`: the server's own packet counters have room, see C07.) -/
theorem replay_rejected_after_run {a : AEAD} {s : NetcodeServer} {tr : Trace} (h : ReachT a s tr)
    (hinv : NetcodeServer.SInv 1 s) {addr : Addr} {slot : Nat} {c : Connection}
    (hf : findClientByAddr s.clients addr = some (slot, c)) {bp : Bytes × Bytes} (hbp : bp ∈ sessPayloads c.clientId tr)
    {buf : Bytes} (hseq : Packet.wireSeq buf = Packet.wireSeq bp.1) (hne : Packet.wireSeq buf ≠ 2 ^ 64 - 1)
    (cid : Nat) (p : Bytes) (s' : NetcodeServer) : NetcodeServer.processPacket a s addr buf ≠ .ok (.payload cid p, s') := by
  obtain ⟨acc, _, hmem⟩ := session_window h (findAddr_some hf).1
  exact C04.server_replay_rejected a hinv hf (by rw [hseq]; exact (hmem bp hbp).2.2 (by rw [← hseq]; exact hne)) cid p s'

/-! ### non-vacuity: a model run on the example world (`Lemmas/NcExamples.lean`, toy AEAD `Ex.a`)

  request, response (→ `ClientConnected 11`), payload seq 2, ITS REPLAY, a hostile datagram, payload seq 3, a copy of the seq-2
  datagram with other content (same sequence byte), `update_client`, a payload to the client. -/
section Examples
open Ex

def pay3 : Bytes := 21 :: 3 :: ([4, 5] ++ List.replicate 16 0)
/-- same sequence byte as `payFromA` (2), other content -/
def pay2' : Bytes := 21 :: 2 :: ([8, 8, 8, 8] ++ List.replicate 16 0)
def hostile : Bytes := 21 :: 7 :: List.replicate 30 255

def exOps : List Op :=
  [.packet addrA reqA, .packet addrA respA, .packet addrA payFromA, .packet addrA payFromA, .packet addrA hostile,
   .packet addrA pay3, .packet addrA pay2', .updateClient 11, .sendPayload 11 [9, 9]]

/-- the results of the model run: each genuine payload once, nothing for the replay, the forgery and the modified copy -/
theorem ex_results : (runT Ex.a s0 exOps).map (fun x => x.1.map (·.2)) =
    some [.packetToSend addrA chalA, .clientConnected 11 addrA udA kaA, .payload 11 [1, 2, 3], .none, .none,
      .payload 11 [4, 5], .none, .none, .packetToSend addrA (21 :: 1 :: ([9, 9] ++ List.replicate 16 0))] := by
  decide +kernel

/-- the trace of that run -/
theorem ex_trace : ∃ tr s, runT Ex.a s0 exOps = some (tr, s) ∧ ReachT Ex.a s tr ∧
    tr = exOps.zip [.packetToSend addrA chalA, .clientConnected 11 addrA udA kaA, .payload 11 [1, 2, 3], .none, .none,
      .payload 11 [4, 5], .none, .none, .packetToSend addrA (21 :: 1 :: ([9, 9] ++ List.replicate 16 0))] := by
  have h := ex_results
  cases hr : runT Ex.a s0 exOps with
  | none => rw [hr] at h; cases h
  | some x =>
    obtain ⟨tr, s⟩ := x
    rw [hr] at h
    have hreach := reachT_runT exOps (ReachT.init (a := Ex.a) s0_empty) hr
    rw [List.nil_append] at hreach
    have hz := runT_zip exOps hr
    simp only [Option.map_some, Option.some.injEq] at h
    rw [h] at hz
    exact ⟨tr, s, rfl, hreach, hz⟩

theorem ex_sess : ∃ tr s, ReachT Ex.a s tr ∧ sessPayloads 11 tr = [(pay3, [4, 5]), (payFromA, [1, 2, 3])] := by
  obtain ⟨tr, s, _, hr, rfl⟩ := ex_trace
  exact ⟨_, s, hr, rfl⟩

/-- `session_payload_once`, `session_payloads_authentic` on that run: the session of id 11 surfaced the sequence numbers 3 and
    2, once each -/
example : ∃ tr s, ReachT Ex.a s tr ∧ seqsOf (sessPayloads 11 tr) = [3, 2] ∧ (seqsOf (sessPayloads 11 tr)).Nodup ∧
    ∃ key, ∀ bp ∈ sessPayloads 11 tr, Packet.SealedOpen Ex.a bp.1 s.protocolId key .payload bp.2 := by
  obtain ⟨tr, s, hr, hL⟩ := ex_sess
  exact ⟨tr, s, hr, by rw [hL]; decide +kernel, session_payload_once hr 11, session_payloads_authentic hr 11⟩

/-- `session_window` on that run: the slot of id 11 is occupied at the end, and both surfaced datagrams are rejected by its
    stored window -/
example : ∃ tr s i c, ReachT Ex.a s tr ∧ At s.clients i c ∧ c.clientId = 11 ∧
    ∀ bp ∈ sessPayloads 11 tr, c.replayProtection.alreadyReceived (Packet.wireSeq bp.1) = true := by
  obtain ⟨tr, s, hrun, hr, rfl⟩ := ex_trace
  have h : (runT Ex.a s0 exOps).map (fun x => (findClientByAddr x.2.clients addrA).map (fun y => y.2.clientId)) =
      some (some 11) := by decide +kernel
  rw [hrun] at h
  simp only [Option.map_some, Option.some.injEq] at h
  cases hf : findClientByAddr s.clients addrA with
  | none => rw [hf] at h; cases h
  | some y =>
    obtain ⟨i, c⟩ := y
    rw [hf] at h
    simp only [Option.map_some, Option.some.injEq] at h
    obtain ⟨acc, _, hmem⟩ := session_window hr (findAddr_some hf).1
    refine ⟨_, s, i, c, hr, (findAddr_some hf).1, h, fun bp hbp => ?_⟩
    refine (hmem bp (by rw [h]; exact hbp)).2.2 ?_
    have hL : sessPayloads 11 (exOps.zip [.packetToSend addrA chalA, .clientConnected 11 addrA udA kaA,
      .payload 11 [1, 2, 3], .none, .none, .payload 11 [4, 5], .none, .none,
      .packetToSend addrA (21 :: 1 :: ([9, 9] ++ List.replicate 16 0))]) = [(pay3, [4, 5]), (payFromA, [1, 2, 3])] := rfl
    rw [hL] at hbp
    simp only [List.mem_cons, List.mem_nil_iff, or_false] at hbp
    rcases hbp with rfl | rfl <;> decide +kernel

/-- `payload_once_per_session` on that run, positions 2 (`payFromA`) and 5 (`pay3`) -/
example : Packet.wireSeq pay3 ≠ Packet.wireSeq payFromA := by
  obtain ⟨tr, s, _, hr, he⟩ := ex_trace
  refine (payload_once_per_session (pre := [(.packet addrA reqA, .packetToSend addrA chalA),
      (.packet addrA respA, .clientConnected 11 addrA udA kaA)])
    (mid := [(.packet addrA payFromA, .none), (.packet addrA hostile, .none)]) hr (by rw [he]; rfl) ?_).1 (by decide +kernel)
  intro x hx ad ud o
  simp only [List.mem_cons, List.mem_nil_iff, or_false] at hx
  rcases hx with rfl | rfl <;> simp

end Examples

end RenetVerif.C04H
