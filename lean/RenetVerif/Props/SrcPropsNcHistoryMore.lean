/-
  More history-level netcode SERVER theorems on the GENERATED code (continuation of `Props/SrcPropsNcHistory.lean`; same
  conventions: a generated run `GReach a g` in the hypothesis, conclusions about the generated state / outputs).

    * C10 `no_second_connected` over the event log of a generated run;
    * C04, server half, after any generated run: `server_replay_rejected`, `server_payload_only_if_opened` (per call; the
      whole-run at-most-once statement needs a model trace lemma that does not exist yet — see the note at the end).
-/
import RenetVerif.Props.SrcPropsNcHistory
import RenetVerif.Props.C04
set_option linter.unusedSimpArgs false
set_option linter.unusedVariables false
namespace RenetVerif.SrcPropsNcHistory
open RenetVerif RenetVerif.SrcEquiv RenetVerif.RustSem RenetVerif.Netcode RenetVerif.Netcode.NS RenetVerif.SrcNcSystem
open Src.renetcode.server

/-- **C10 `no_second_connected` over a generated run**: in the event log of a generated run there is no second
    `ClientConnected id ..` before the `ClientDisconnected id addr` that ends the first (an id is never connected twice).
    (Transports `C10.no_second_connected`.) -/
theorem no_second_connected {a : AEAD} (hl : a.Laws) {g : GNc} (h : GReach a g) {pre mid post : List GEvent} {id : Nat}
    {ad ad' : RustSem.SocketAddr} {ud ud' : List Nat}
    (he : g.events = pre ++ .connected id ad ud :: (mid ++ .connected id ad' ud' :: post)) :
    GEvent.disconnected id ad ∈ mid := by
  obtain ⟨m, hg, hsim⟩ := greach_model hl h
  rw [events_sim hsim] at he
  obtain ⟨pre', rest', hsplit, hpre, hrest⟩ := List.map_eq_append_iff.mp he
  obtain ⟨e, rest2, hrest', hee, hrest2⟩ := List.map_eq_cons_iff.mp hrest
  obtain ⟨mid', rest3, hsplit3, hmid, hrest3⟩ := List.map_eq_append_iff.mp hrest2
  obtain ⟨e', post', hrest3', hee', hpost⟩ := List.map_eq_cons_iff.mp hrest3
  cases e with
  | disconnected id' ad' => simp [reprEvent] at hee
  | connected id1 ad1 ud1 =>
    cases e' with
    | disconnected id' ad' => simp [reprEvent] at hee'
    | connected id2 ad2 ud2 =>
      simp only [reprEvent, GEvent.connected.injEq] at hee hee'
      obtain ⟨rfl, rfl, rfl⟩ := hee
      obtain ⟨rfl, rfl, rfl⟩ := hee'
      have hr := hg.reach
      rw [hsplit, hrest', hsplit3, hrest3'] at hr
      have hmem := C10.no_second_connected hr
      rw [← hmid]
      exact List.mem_map.mpr ⟨_, hmem, rfl⟩

/-! ## C10 `log_replays` over a generated run -/

/-- a connected session as the application knows it, over the generated types -/
abbrev GSess := Nat × RustSem.SocketAddr × List Nat

/-- replaying a generated event log against the set of live sessions (mirror of `NS.replay`): `connected id addr ud` is
    admissible only when neither `id` nor `addr` is live; `disconnected id addr` only when a live session has that id and
    address, and ends it; `none` = the log breaks the discipline -/
def gReplay : List GEvent → List GSess → Option (List GSess)
  | [], L => some L
  | .connected id ad ud :: rest, L =>
    if L.any (fun x => x.1 = id ∨ x.2.1 = ad) then none else gReplay rest (L ++ [(id, ad, ud)])
  | .disconnected id ad :: rest, L =>
    if L.any (fun x => x.1 = id ∧ x.2.1 = ad) then gReplay rest (L.filter fun x => ¬ (x.1 = id ∧ x.2.1 = ad)) else none

def reprSess (x : Sess) : GSess := (x.1, reprAddr x.2.1, toNats x.2.2)

theorem reprAddr_eq_iff {x y : Addr} : reprAddr x = reprAddr y ↔ x = y := ⟨reprAddr_inj, fun h => by rw [h]⟩

theorem gReplay_repr : ∀ (l : List Event) (L : List Sess),
    gReplay (l.map reprEvent) (L.map reprSess) = (replay l L).map (List.map reprSess)
  | [], L => rfl
  | .connected id ad ud :: rest, L => by
    simp only [List.map_cons, reprEvent, gReplay, replay, List.any_map]
    have e : (L.any ((fun x : GSess => decide (x.1 = id ∨ x.2.1 = reprAddr ad)) ∘ reprSess)) =
        L.any (fun x => decide (x.1 = id ∨ x.2.1 = ad)) := by
      congr 1; funext x; simp only [Function.comp, reprSess, reprAddr_eq_iff]
    rw [e]
    split
    · rfl
    · have := gReplay_repr rest (L ++ [(id, ad, ud)])
      simpa [reprSess] using this
  | .disconnected id ad :: rest, L => by
    simp only [List.map_cons, reprEvent, gReplay, replay, List.any_map]
    have e : (L.any ((fun x : GSess => decide (x.1 = id ∧ x.2.1 = reprAddr ad)) ∘ reprSess)) =
        L.any (fun x => decide (x.1 = id ∧ x.2.1 = ad)) := by
      congr 1; funext x; simp only [Function.comp, reprSess, reprAddr_eq_iff]
    rw [e]
    split
    · have := gReplay_repr rest (L.filter fun x => ¬ (x.1 = id ∧ x.2.1 = ad))
      rw [← this]
      congr 1
      rw [List.filter_map]
      congr 1
      apply List.filter_congr
      intro x _
      simp only [Function.comp, reprSess, reprAddr_eq_iff]
    · rfl

/-- **C10 `log_replays` over a generated run**: the event log of a generated run replays against the live-session set
    (`gReplay`), the sessions it leaves live have pairwise distinct ids and pairwise distinct addresses, and they are exactly
    the occupied slots of the generated struct (id, address, user data).  (Transports `C10.log_replays`.) -/
theorem log_replays {a : AEAD} (hl : a.Laws) {g : GNc} (h : GReach a g) :
    ∃ L, gReplay g.events [] = some L ∧ (L.map (·.1)).Nodup ∧ (L.map (·.2.1)).Nodup ∧
      ∀ id ad ud, (id, ad, ud) ∈ L ↔
        ∃ (i : Nat) (c : SConnection), g.srv.clients[i]? = some (some c) ∧ c.client_id = id ∧ c.addr = ad ∧ c.user_data = ud := by
  obtain ⟨m, hg, hsim⟩ := greach_model hl h
  obtain ⟨o, ho', hs⟩ := hsim.srv
  obtain ⟨L, hL, hd, hag⟩ := C10.log_replays hg.reach
  have hrep := gReplay_repr m.events []
  rw [hL] at hrep
  refine ⟨L.map reprSess, by rw [events_sim hsim]; exact hrep, ?_, ?_, fun id ad ud => ?_⟩
  · rw [List.map_map]
    exact hd.1
  · rw [List.map_map]
    have : ((fun x : GSess => x.2.1) ∘ reprSess) = reprAddr ∘ (fun x : Sess => x.2.1) := rfl
    rw [this, ← List.map_map]
    exact hd.2.map reprAddr (fun x y hxy h => hxy (reprAddr_inj h))
  · rw [hs]
    constructor
    · intro hm
      obtain ⟨x, hx, he⟩ := List.mem_map.mp hm
      obtain ⟨id0, ad0, ud0⟩ := x
      simp only [reprSess, Prod.mk.injEq] at he
      obtain ⟨rfl, rfl, rfl⟩ := he
      obtain ⟨i, c, hc, h1, h2, h3⟩ := (hag id0 ad0 ud0).mp hx
      exact ⟨i, reprNConn c, repr_of_at hc, h1, by show reprAddr c.addr = _; rw [h2], by show toNats c.userData = _; rw [h3]⟩
    · rintro ⟨i, gc, hc, h1, h2, h3⟩
      obtain ⟨c, hat, rfl⟩ := at_of_repr hc
      have := (hag c.clientId c.addr c.userData).mpr ⟨i, c, hat, rfl, rfl, rfl⟩
      rw [← h1, ← h2, ← h3]
      exact List.mem_map.mpr ⟨_, this, rfl⟩

/-! ## C04, server half, after any generated run -/

/-- the counters of the generated struct have room (otherwise the debug-profile arithmetic check unwinds); with
    `NS.ServerInv` this is `NetcodeServer.SInv 1` of the related model state -/
theorem sinv_of {s : Netcode.NetcodeServer} {out : List Nat} (hi : ServerInv s)
    (hgs : (reprNS out s).global_sequence < 2 ^ 64 - 1) (hcs : (reprNS out s).challenge_sequence < 2 ^ 64 - 1) :
    NetcodeServer.SInv 1 s := by
  refine ⟨?_, ?_, fun x hx => ?_⟩
  · have : s.globalSequence < 2 ^ 64 - 1 := hgs
    show s.globalSequence + 1 ≤ 2 ^ 64 - 1
    omega
  · have : s.challengeSequence < 2 ^ 64 - 1 := hcs
    show s.challengeSequence + 1 ≤ 2 ^ 64 - 1
    omega
  · rw [(hi.pend x hx).seq]; decide

/-- **C04 `server_payload_only_if_opened` after any generated run**: `g` is reached by a generated run (counters with room).
    If the generated `process_packet` surfaces `Payload cid p` for a datagram from `addr`, then — on the model state `s` that
    `g.srv` represents — `addr` is the address of a connected client `c` in some slot, `cid` is its id, the datagram opened
    under `c`'s receive key to exactly `p`, and `c`'s replay window had not seen the datagram's sequence number.
    (Transports `C04.server_payload_only_if_opened`.) -/
theorem server_payload_only_if_opened {a : AEAD} (hl : a.Laws) {g : GNc} (h : GReach a g)
    (hgs : g.srv.global_sequence < 2 ^ 64 - 1) (hcs : g.srv.challenge_sequence < 2 ^ 64 - 1) {addr : Addr} {buf : Bytes}
    (hb : buf.length + 16 < 2 ^ 64) {srv' : SNetcodeServer} {buf' : List Nat} {cid : Nat} {p : List Nat}
    (hp : @NetcodeServer.process_packet (aeadOf a) Empty g.srv (reprAddr addr) (toNats buf) = .ok (srv', buf', .Payload cid p)) :
    ∃ s, (∃ out, out.length = Netcode.C.NETCODE_MAX_PACKET_BYTES ∧ g.srv = reprNS out s) ∧
    ∃ slot c p0, p = toNats p0 ∧ findClientByAddr s.clients addr = some (slot, c) ∧ c.state = .connected ∧ cid = c.clientId ∧
      g.srv.clients[slot]? = some (some (reprNConn c)) ∧
      Netcode.Packet.SealedOpen a buf s.protocolId c.receiveKey .payload p0 ∧
      c.replayProtection.alreadyReceived (Netcode.Packet.wireSeq buf) = false := by
  obtain ⟨m, hg, hsim⟩ := greach_model hl h
  obtain ⟨o, ho', hs⟩ := hsim.srv
  have hi := hg.reach.inv
  rw [hs] at hp hgs hcs
  obtain ⟨r, s', hm, hR, -⟩ := pp_model hl hi ho' hb hp
  cases r <;> simp only [reprNSR, Src.renetcode.server.ServerResult.Payload.injEq, reduceCtorEq] at hR
  obtain ⟨rfl, rfl⟩ := hR
  obtain ⟨slot, c, hf, hst, hcid, hso, hfresh, -⟩ := C04.server_payload_only_if_opened a (sinv_of hi hgs hcs) hm
  refine ⟨m.srv, ⟨o, ho', hs⟩, slot, c, _, rfl, hf, hst, hcid, ?_, hso, hfresh⟩
  rw [hs]
  exact repr_of_at (SrcTie.nc_find_client_by_addr_slot hf)

/-- **C04 `server_replay_rejected` after any generated run**: once the window of the session connected from `addr` (read on
    the model state `s` that `g.srv` represents) reports the sequence number of `buf` as received, the generated
    `process_packet` surfaces NO payload for `buf` — the accepted datagram, any copy, any modification that keeps the
    sequence bytes.  (Transports `C04.server_replay_rejected`.) -/
theorem server_replay_rejected {a : AEAD} (hl : a.Laws) {g : GNc} (h : GReach a g)
    (hgs : g.srv.global_sequence < 2 ^ 64 - 1) (hcs : g.srv.challenge_sequence < 2 ^ 64 - 1) {addr : Addr} {buf : Bytes}
    (hb : buf.length + 16 < 2 ^ 64)
    (hdup : ∀ s out, g.srv = reprNS out s → ∃ slot c, findClientByAddr s.clients addr = some (slot, c) ∧
      c.replayProtection.alreadyReceived (Netcode.Packet.wireSeq buf) = true)
    {srv' : SNetcodeServer} {buf' : List Nat} {cid : Nat} {p : List Nat} :
    @NetcodeServer.process_packet (aeadOf a) Empty g.srv (reprAddr addr) (toNats buf) ≠ .ok (srv', buf', .Payload cid p) := by
  intro hp
  obtain ⟨m, hg, hsim⟩ := greach_model hl h
  obtain ⟨o, ho', hs⟩ := hsim.srv
  have hi := hg.reach.inv
  obtain ⟨slot, c, hf, hd⟩ := hdup m.srv o hs
  rw [hs] at hp hgs hcs
  obtain ⟨r, s', hm, hR, -⟩ := pp_model hl hi ho' hb hp
  cases r <;> simp only [reprNSR, Src.renetcode.server.ServerResult.Payload.injEq, reduceCtorEq] at hR
  obtain ⟨rfl, rfl⟩ := hR
  exact C04.server_replay_rejected a (sinv_of hi hgs hcs) hf hd _ _ _ hm

/-
  NOT DONE: the whole-run server statement `src_payload_at_most_once` ("during one session — between its ClientConnected and
  its ClientDisconnected — no two `Payload` results of a generated run stem from the same sequence number").  It needs a MODEL
  trace lemma first: along `NS.step` runs that keep the session in its slot, the session's stored window is the `Recv.run`
  window of the datagrams that arrived from its address (every other operation leaves `replayProtection` of that slot
  untouched), so that `C04.payload_at_most_once` applies.  `ex_run` in `SrcPropsNcHistory.lean` shows the behaviour on the
  concrete generated run (the replayed payload datagram yields `None`), and `server_replay_rejected` above is the per-call
  statement after any generated run.
  DONE LATER (round 20): Props/C04H.lean (model trace theorem) and Props/SrcPropsNcPayloadOnce.lean (generated runs).
-/

end RenetVerif.SrcPropsNcHistory
