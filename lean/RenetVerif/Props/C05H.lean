/-
  C05H — the token-to-address binding over whole histories (properties C05 and C19).

  C05's clause "a token already used from a different address never produces a connection" was proved per step and
  conditionally (`C05.token_address_binding_partial`: *if* the token's MAC is still recorded with another address ...).
  Here: over every trace of server operations.  Proofs: Lemmas/NcBinding.lean (symbolic execution of
  `handle_connection_request` / `process_packet_internal` for their effect on `connect_token_entries`, the exact slot
  rule of `find_or_add_connect_token_entry`, induction over traces).

  Operations / traces: `NS.Op` run by `NS.step` (Lemmas/NcTableEvents.lean: any datagram from any address, `update`,
  `update_client`, `disconnect`, `set_max_clients`, `generate_payload_packet`); `NcBinding.Steps a s ops s'` = a run of
  `step` over the list `ops` from an arbitrary state; `NS.ReachH a s hist` (Lemmas/NcHandshake.lean) = `s` reachable
  from an empty server, `hist` = the datagrams processed so far, each with the state it met (the relation
  `C05.connected_only_after_request` speaks about).

  `Registers a s addr buf mac` — the datagram `buf` from `addr`, arriving in state `s`, is a connection request passing
  every check of `Accepted` (Props/C05.lean), and `mac` is the MAC (last 16 bytes) of its private token.  These are
  exactly the calls of `find_or_add_connect_token_entry` that answer `true`.

  ORDER IN `handle_connection_request` (renetcode/src/server.rs): version, protocol id, expiry, token decryption, host
  list, already-connected, pending-map room, THEN `find_or_add_connect_token_entry`, THEN the server-full test.
  So a valid request that is denied because the server is full still binds its token to the address
  (`denied_request_still_binds`); a request refused by an earlier check binds nothing (`step_table_effect`).

  THE LIMIT (kept from `C05.token_address_binding_partial`): the table has `NETCODE_TOKEN_ENTRIES` = 2048 slots and no
  expiry.  `token_binding_history` holds for histories in which AT MOST 2048 DISTINCT token MACs were registered
  (the hypothesis `Covered a hist L`, `L.length ≤` table length); the next new MAC overwrites the oldest entry
  (`boundary_evicts`), whose token is then accepted from any address again (`C05.binding_lost_when_full`).
-/
import RenetVerif.Lemmas.NcBinding
import RenetVerif.Props.C05
namespace RenetVerif.C05H
open RenetVerif RenetVerif.Netcode RenetVerif.Netcode.NS RenetVerif.NcBinding

/-! ## A. the table entries persist -/

/-- **The slot rule of `find_or_add_connect_token_entry`, exactly** (table part; the Boolean is
    `NS.findOrAdd_spec`).  If some entry carries the new entry's MAC the table is untouched.  Otherwise the new entry is
    written to the slot `i` with `SlotFor table i`: the FIRST EMPTY slot if there is one; only if NO slot is empty, the
    slot `OldestAt table i` — the entry of minimal `time`, and among entries of equal minimal time the one with the
    LOWEST INDEX (the loop replaces its candidate only on `e.time < min`, strictly; `min` starts at `Duration::MAX`, so
    if no entry is older than that the candidate stays index 0).  The slot is unique (`slotFor_unique`). -/
theorem find_or_add_slot (s : NetcodeServer) (ne : ConnectTokenEntry) :
    (s.findOrAddConnectTokenEntry ne).1.connectTokenEntries = tableAdd s.connectTokenEntries ne ∧
    ((∃ e, some e ∈ s.connectTokenEntries ∧ e.mac = ne.mac) → tableAdd s.connectTokenEntries ne = s.connectTokenEntries) ∧
    ((∀ e, some e ∈ s.connectTokenEntries → e.mac ≠ ne.mac) →
      ∃ i, SlotFor s.connectTokenEntries i ∧
        tableAdd s.connectTokenEntries ne = s.connectTokenEntries.set i (some ne) ∧
        ∀ j, SlotFor s.connectTokenEntries j → j = i) :=
  ⟨findOrAdd_entries s ne, fun ⟨_, he, hm⟩ => tableAdd_match he hm, fun hn => by
    obtain ⟨i, hi, e⟩ := tableAdd_new hn
    exact ⟨i, hi, e, fun j hj => slotFor_unique hj hi⟩⟩

/-- **`step_table_effect`** — what each operation does to `connect_token_entries`.  `update` (clock; expiry of
    half-open sessions), `update_client` (time-outs, keep-alives), `disconnect`, `set_max_clients`,
    `generate_payload_packet`, and every datagram that is not an `Accepted` connection request (junk, payloads,
    responses, requests that are expired / tampered / for another host / from a connected address or id / refused for
    lack of room in the pending map / bound to another address) leave the table exactly as it is.  An `Accepted`
    connection request makes it `tableAdd table (now, source address, token MAC)` — **whatever happens afterwards in
    `handle_connection_request`** (challenge sent, `ConnectionDenied` because the server is full, encoding error). -/
theorem step_table_effect {a : AEAD} {s s' : NetcodeServer} {op : Op} {r : ServerResult} (hi : ServerInv s)
    (h : step a s op = some (r, s')) :
    (s'.connectTokenEntries = s.connectTokenEntries ∧
      ∀ addr buf mac, op = .packet addr buf → ¬ Registers a s addr buf mac) ∨
    (∃ addr buf mac, op = .packet addr buf ∧ Registers a s addr buf mac ∧
      s'.connectTokenEntries = tableAdd s.connectTokenEntries ⟨s.currentTime, addr, mac⟩) :=
  step_tbl hi h

/-- operations other than `process_packet` never touch the table -/
theorem nonpacket_keeps_table {a : AEAD} {s s' : NetcodeServer} {op : Op} {r : ServerResult} (hi : ServerInv s)
    (h : step a s op = some (r, s')) (hop : ∀ addr buf, op ≠ .packet addr buf) :
    s'.connectTokenEntries = s.connectTokenEntries := by
  rcases step_tbl hi h with ⟨e, _⟩ | ⟨addr, buf, _, e, _⟩
  · exact e
  · exact absurd e (hop addr buf)

/-- **a valid request that is denied because the server is full STILL binds its token to the address**: no slot is
    free, the request passes every check; then no session changes, the answer is `ConnectionDenied` (or nothing, if
    encoding it fails), and `(mac, addr)` is recorded in the table. -/
theorem denied_request_still_binds {a : AEAD} {s s' : NetcodeServer} {addr : Addr} {buf mac : Bytes} {r : ServerResult}
    (hi : ServerInv s) (hfull : firstFreeSlot s.clients = none) (hreg : Registers a s addr buf mac)
    (h : s.processPacket a addr buf = .ok (r, s')) :
    s'.clients = s.clients ∧ (r = .none ∨ ∃ out, r = .packetToSend addr out ∧ IsDenied a s out) ∧
    ∃ e, some e ∈ s'.connectTokenEntries ∧ e.mac = mac ∧ e.address = addr := by
  obtain ⟨v, pid, ex, x, d, t, hd, hacc, hm⟩ := hreg
  have h1 := processPacket_full hi hfull hacc.addrFree h
  exact ⟨h1.1, h1.2, registers_binds hi h ⟨v, pid, ex, x, d, t, hd, hacc, hm⟩⟩

/-- **`entries_persist`** — over EVERY trace of server operations (`Steps`: `NS.step` over a list of `NS.Op` from any
    state satisfying the invariant) a recorded entry `(time, address, mac)` is never removed and never changed, with one
    exception: at some point `s1` of the trace, where it still sits in its slot `i`, an `Accepted` connection request
    with a MAC the table does not hold arrives while **no slot of the table is empty** and `i` is the oldest slot
    (`Evicts`: `OldestAt` = minimal time, lowest index among equal times); then the new entry replaces it. -/
theorem entries_persist {a : AEAD} {s s' : NetcodeServer} {ops : List Op} (h : Steps a s ops s') (hi : ServerInv s)
    {i : Nat} {e : ConnectTokenEntry} (he : s.connectTokenEntries[i]? = some (some e)) :
    s'.connectTokenEntries[i]? = some (some e) ∨
    ∃ ops1 op ops2 s1 s2 r, ops = ops1 ++ op :: ops2 ∧ Steps a s ops1 s1 ∧
      s1.connectTokenEntries[i]? = some (some e) ∧ step a s1 op = some (r, s2) ∧
      ∃ addr buf mac, op = .packet addr buf ∧ Registers a s1 addr buf mac ∧
        (∀ e', some e' ∈ s1.connectTokenEntries → e'.mac ≠ mac) ∧ (∀ x ∈ s1.connectTokenEntries, x ≠ none) ∧
        OldestAt s1.connectTokenEntries i ∧
        s2.connectTokenEntries = s1.connectTokenEntries.set i (some ⟨s1.currentTime, addr, mac⟩) ∧
        Steps a s2 ops2 s' := by
  rcases NcBinding.entries_persist h hi he with h1 | ⟨ops1, op, ops2, s1, s2, r, e1, e2, e3, e4,
      ⟨addr, buf, mac, f1, f2, f3, f4, f5, f6⟩, e6⟩
  · exact Or.inl h1
  · exact Or.inr ⟨ops1, op, ops2, s1, s2, r, e1, e2, e3, e4, addr, buf, mac, f1, f2, f3, f4, f5, f6, e6⟩

/-- an empty slot at the end of a trace was empty all along -/
theorem empty_slot_back {a : AEAD} {s s' : NetcodeServer} {ops : List Op} (h : Steps a s ops s') (hi : ServerInv s)
    {j : Nat} (hj : s'.connectTokenEntries[j]? = some none) : s.connectTokenEntries[j]? = some none := by
  induction h with
  | nil => exact hj
  | @cons s s1 s' op ops r hs _ ih =>
    have h1 := ih (step_inv hi hs) hj
    have hlen := step_tbl_length hi hs
    have hjl : j < s.connectTokenEntries.length := by rw [← hlen]; exact (List.getElem?_eq_some_iff.mp h1).1
    cases hx : s.connectTokenEntries[j]? with
    | none => rw [List.getElem?_eq_none_iff] at hx; omega
    | some x =>
      cases x with
      | none => rfl
      | some e =>
        rcases step_entry_persists hi hs hx with h2 | ⟨_, _, _, _, _, _, _, _, h2⟩
        · rw [h1] at h2; cases h2
        · rw [h2, List.getElem?_set, if_pos rfl, if_pos hjl] at h1; cases h1

/-- **while the table has room nothing is ever evicted**: if a slot is still empty at the end of a trace, every entry
    recorded at its beginning is still in its slot, unchanged -/
theorem entries_persist_while_room {a : AEAD} {s s' : NetcodeServer} {ops : List Op} (h : Steps a s ops s')
    (hi : ServerInv s) {j : Nat} (hj : s'.connectTokenEntries[j]? = some none)
    {i : Nat} {e : ConnectTokenEntry} (he : s.connectTokenEntries[i]? = some (some e)) :
    s'.connectTokenEntries[i]? = some (some e) := by
  induction h with
  | nil => exact he
  | @cons s s1 s' op ops r hs hrest ih =>
    have hi1 := step_inv hi hs
    have hj1 := empty_slot_back hrest hi1 hj
    rcases step_entry_persists hi hs he with h1 | ⟨_, _, _, _, _, _, hfull, _, h2⟩
    · exact ih hi1 hj h1
    · have hj0 := empty_slot_back (.cons hs (.nil s1)) hi hj1
      exact absurd rfl (hfull none (List.mem_iff_getElem?.mpr ⟨j, hj0⟩))

/-! ## B. the binding over whole histories -/

/-- the history of a run: the datagrams handed to `process_packet`, each with the state it met -/
def arrivals (a : AEAD) : NetcodeServer → List Op → List Arrival
  | _, [] => []
  | s, op :: ops => arrivalOf s op ++ match step a s op with
    | some (_, s1) => arrivals a s1 ops
    | none => []

theorem reachH_steps {a : AEAD} {s s' : NetcodeServer} {ops : List Op} (h : Steps a s ops s') :
    ∀ {hist : List Arrival}, ReachH a s hist → ReachH a s' (hist ++ arrivals a s ops) := by
  induction h with
  | nil => intro hist hr; simpa [arrivals] using hr
  | @cons s s1 s' op ops r hs _ ih =>
    intro hist hr
    have := ih (.step hr hs)
    simpa [arrivals, hs, List.append_assoc] using this

/-- **every table entry of a reachable server stems from a registration**: an `Accepted` connection request from the
    entry's address, carrying its MAC, at the entry's time -/
theorem entry_origin {a : AEAD} {s : NetcodeServer} {hist : List Arrival} (hr : ReachH a s hist)
    {e : ConnectTokenEntry} (he : some e ∈ s.connectTokenEntries) :
    ∃ ar ∈ hist, ar.addr = e.address ∧ Registers a ar.s ar.addr ar.buf e.mac ∧ e.time = ar.s.currentTime :=
  reachH_origin hr he

/-- **`bindings_in_force`** — in a history in which at most as many distinct token MACs were registered as the table
    has slots (`L` lists them: `Covered`), EVERY registration made so far is still recorded with the address it was
    made from — whatever happened in between (the session ended, timed out, was denied, its half-open entry expired,
    `set_max_clients` ...).  With exactly 2048 distinct MACs all 2048 bindings are in force. -/
theorem bindings_in_force {a : AEAD} {s : NetcodeServer} {hist : List Arrival} (hr : ReachH a s hist)
    {L : List Bytes} (hc : Covered a hist L) (hl : L.length ≤ s.connectTokenEntries.length)
    {ar : Arrival} (har : ar ∈ hist) {mac : Bytes} (hreg : Registers a ar.s ar.addr ar.buf mac) :
    ∃ e, some e ∈ s.connectTokenEntries ∧ e.mac = mac ∧ e.address = ar.addr :=
  reachH_kept hr hc hl ar har mac hreg

/-- **`token_binding_history`** — `s` reachable from a fresh server, `hist` its history, at most as many distinct token
    MACs registered so far as the table has slots (`NETCODE_TOKEN_ENTRIES` = 2048 for `NetcodeServer::new`:
    `token_binding_from_new`).  If the token with MAC `mac` was registered from address `ar.addr` at ANY earlier point
    (`ar ∈ hist`), then a connection request carrying a token with that MAC from any other address `addrB` is refused
    NOW: result `None`, the connected sessions as before, no half-open session created (every half-open session was
    there before with the same identity), the table untouched.
    LIMIT: this is about histories with ≤ 2048 distinct registered MACs; the 2049th evicts the oldest binding
    (`boundary_evicts`, `C05.binding_lost_when_full`). -/
theorem token_binding_history {a : AEAD} {s : NetcodeServer} {hist : List Arrival} (hr : ReachH a s hist)
    {L : List Bytes} (hc : Covered a hist L) (hl : L.length ≤ s.connectTokenEntries.length)
    {ar : Arrival} (har : ar ∈ hist) {mac : Bytes} (hreg : Registers a ar.s ar.addr ar.buf mac)
    {addrB : Addr} {buf : Bytes} {r : ServerResult} {s' : NetcodeServer}
    (h : s.processPacket a addrB buf = .ok (r, s')) {v : Bytes} {pid expire : Nat} {xnonce data : Bytes}
    (hdec : (Packet.decode a buf s.protocolId none none).1 = .ok (0, .connectionRequest v pid expire xnonce data))
    (hmac : tokenMac data = mac) (hne : addrB ≠ ar.addr) :
    r = .none ∧ sessions s'.clients = sessions s.clients ∧
    (∀ y p', pendingFind s'.pendingClients y = some p' →
      ∃ p, pendingFind s.pendingClients y = some p ∧ ident p' = ident p) ∧
    s'.connectTokenEntries = s.connectTokenEntries := by
  obtain ⟨e, he, hm, ha⟩ := reachH_kept hr hc hl ar har mac hreg
  have hi := hr.inv
  have hb := C05.token_address_binding_partial hi h hdec he (by rw [hm, hmac]) (by rw [ha]; exact fun x => hne x.symm)
  refine ⟨hb.1, hb.2.1, hb.2.2, ?_⟩
  rcases processPacket_tbl h with ⟨eq, _⟩ | ⟨mac', ⟨v', pid', e', x', d', t, hd', hacc, _⟩, _⟩
  · exact eq
  · rw [hdec] at hd'; cases hd'
    exact absurd hacc (not_accepted_bound hi he (by rw [hm, hmac]) (by rw [ha]; exact fun x => hne x.symm) t)

/-- in such a history all registrations of one MAC come from one address -/
theorem same_mac_same_address {a : AEAD} {s : NetcodeServer} {hist : List Arrival} (hr : ReachH a s hist)
    {L : List Bytes} (hc : Covered a hist L) (hl : L.length ≤ s.connectTokenEntries.length)
    {ar ar' : Arrival} (har : ar ∈ hist) (har' : ar' ∈ hist) {mac : Bytes}
    (hreg : Registers a ar.s ar.addr ar.buf mac) (hreg' : Registers a ar'.s ar'.addr ar'.buf mac) :
    ar'.addr = ar.addr := by
  obtain ⟨e, he, hm, ha⟩ := reachH_kept hr hc hl ar har mac hreg
  obtain ⟨e', he', hm', ha'⟩ := reachH_kept hr hc hl ar' har' mac hreg'
  obtain ⟨i, hi⟩ := List.mem_iff_getElem?.mp he
  obtain ⟨j, hj⟩ := List.mem_iff_getElem?.mp he'
  have : i = j := hr.inv.entries i j e e' hi hj (by rw [hm, hm'])
  subst this
  rw [hi] at hj
  simp only [Option.some.injEq] at hj
  subst hj
  rw [← ha, ← ha']

/-- **Event level** (with `C05.connected_only_after_request`): in such a history every `ClientConnected(id, addr, ud)`
    comes from the address that FIRST validly presented the token — there is an earlier `Accepted` connection request
    from `addr` whose token carries exactly `(id, ud)`, and every arrival of the history (in particular the first one)
    that registered that token's MAC came from `addr`. -/
theorem connected_from_first_presenter {a : AEAD} {s s' : NetcodeServer} {hist : List Arrival} (hr : ReachH a s hist)
    {L : List Bytes} (hc : Covered a hist L) (hl : L.length ≤ s.connectTokenEntries.length)
    {addr addr' : Addr} {buf ud ka : Bytes} {id : Nat}
    (h : s.processPacket a addr buf = .ok (.clientConnected id addr' ud ka, s')) :
    addr' = addr ∧
    ∃ ar ∈ hist, ar.addr = addr ∧ ∃ v pid expire xnonce data t,
      (Packet.decode a ar.buf ar.s.protocolId none none).1 = .ok (0, .connectionRequest v pid expire xnonce data) ∧
      Accepted a ar.s addr v pid expire xnonce data t ∧ t.clientId = id ∧ t.userData = ud ∧
      ∀ ar' ∈ hist, Registers a ar'.s ar'.addr ar'.buf (tokenMac data) → ar'.addr = addr := by
  obtain ⟨h0, ar, har, hax, v, pid, expire, xnonce, data, t, hd, hacc, _, hid, hud, _⟩ :=
    C05.connected_only_after_request hr h
  refine ⟨h0, ar, har, hax, v, pid, expire, xnonce, data, t, hd, hacc, hid, hud, fun ar' har' hreg' => ?_⟩
  have hreg : Registers a ar.s ar.addr ar.buf (tokenMac data) :=
    ⟨v, pid, expire, xnonce, data, t, hd, by rw [hax]; exact hacc, rfl⟩
  rw [← hax]
  exact same_mac_same_address hr hc hl har har' hreg hreg'

/-- **from `NetcodeServer::new`**: the table has `NETCODE_TOKEN_ENTRIES` = 2048 slots; for every run `ops` from the fresh
    server in which at most 2048 distinct token MACs are registered, a token registered from `ar.addr` at any point of
    the run is refused from every other address at its end. -/
theorem token_binding_from_new {a : AEAD} {t m pid0 : Nat} {pa : List Addr} {sec : Bool} {k ck : Bytes}
    {s0 s : NetcodeServer} (hnew : NetcodeServer.new t m pid0 pa sec k ck = .ok s0) {ops : List Op}
    (hst : Steps a s0 ops s) {L : List Bytes} (hc : Covered a (arrivals a s0 ops) L) (hl : L.length ≤ 2048)
    {ar : Arrival} (har : ar ∈ arrivals a s0 ops) {mac : Bytes} (hreg : Registers a ar.s ar.addr ar.buf mac)
    {addrB : Addr} {buf : Bytes} {r : ServerResult} {s' : NetcodeServer}
    (h : s.processPacket a addrB buf = .ok (r, s')) {v : Bytes} {pid expire : Nat} {xnonce data : Bytes}
    (hdec : (Packet.decode a buf s.protocolId none none).1 = .ok (0, .connectionRequest v pid expire xnonce data))
    (hmac : tokenMac data = mac) (hne : addrB ≠ ar.addr) :
    r = .none ∧ sessions s'.clients = sessions s.clients ∧
    (∀ y p', pendingFind s'.pendingClients y = some p' →
      ∃ p, pendingFind s.pendingClients y = some p ∧ ident p' = ident p) ∧
    s'.connectTokenEntries = s.connectTokenEntries := by
  obtain ⟨hi0, _, _, _, _, hempty, hlen⟩ := new_inv hnew
  have hr : ReachH a s ([] ++ arrivals a s0 ops) := reachH_steps hst (.init hempty)
  rw [List.nil_append] at hr
  have hlen' : s.connectTokenEntries.length = 2048 := by rw [hst.tbl_length hi0]; exact hlen
  exact token_binding_history hr hc (by rw [hlen']; exact hl) har hreg h hdec hmac hne

/-! ## C. the boundary -/

/-- **Room left** (fewer occupied slots than slots, e.g. k < 2048): an `Accepted` request with a new MAC writes its
    entry to the first empty slot; every recorded entry stays in its slot; one more slot is occupied. -/
theorem boundary_room {a : AEAD} {s s' : NetcodeServer} {addr : Addr} {buf mac : Bytes} {r : ServerResult}
    (h : s.processPacket a addr buf = .ok (r, s')) (hreg : Registers a s addr buf mac)
    (hn : ∀ e, some e ∈ s.connectTokenEntries → e.mac ≠ mac)
    (hroom : occupied s.connectTokenEntries < s.connectTokenEntries.length) :
    ∃ i, FirstEmpty s.connectTokenEntries i ∧
      s'.connectTokenEntries = s.connectTokenEntries.set i (some ⟨s.currentTime, addr, mac⟩) ∧
      (∀ (j : Nat) (e : ConnectTokenEntry), s.connectTokenEntries[j]? = some (some e) →
        s'.connectTokenEntries[j]? = some (some e)) ∧
      occupied s'.connectTokenEntries = occupied s.connectTokenEntries + 1 := by
  obtain ⟨i, h1, h2, h3, h4⟩ := tableAdd_room (ne := ⟨s.currentTime, addr, mac⟩) hn hroom
  rw [← registers_table h hreg] at h2 h3 h4
  exact ⟨i, h1, h2, h3, h4⟩

/-- **No room** (all slots occupied, e.g. 2048 distinct MACs registered): the next `Accepted` request with a new MAC
    evicts EXACTLY the oldest entry — slot `i` with `OldestAt table i` now holds the new entry, every other slot is as
    before. -/
theorem boundary_evicts {a : AEAD} {s s' : NetcodeServer} {addr : Addr} {buf mac : Bytes} {r : ServerResult}
    (hi : ServerInv s) (h : s.processPacket a addr buf = .ok (r, s')) (hreg : Registers a s addr buf mac)
    (hn : ∀ e, some e ∈ s.connectTokenEntries → e.mac ≠ mac)
    (hfull : ∀ x ∈ s.connectTokenEntries, x ≠ none) :
    ∃ i, OldestAt s.connectTokenEntries i ∧
      s'.connectTokenEntries = s.connectTokenEntries.set i (some ⟨s.currentTime, addr, mac⟩) ∧
      (∀ j : Nat, j ≠ i → s'.connectTokenEntries[j]? = s.connectTokenEntries[j]?) ∧
      s'.connectTokenEntries[i]? = some (some ⟨s.currentTime, addr, mac⟩) := by
  obtain ⟨i, h1, h2, h3, h4⟩ := tableAdd_full (ne := ⟨s.currentTime, addr, mac⟩) hn hfull
  rw [← registers_table h hreg] at h2 h3 h4
  exact ⟨i, h1, h2, h3, h4 hi.entriesPos⟩

/-! ## examples (toy AEAD `Ex.a`, states of Lemmas/NcExamples.lean / Props/C05.lean; their token table has 3 slots) -/
section Examples
open Ex

theorem macA_eq : tokenMac privDataA = macA := by decide +kernel
theorem macB_eq : tokenMac privDataB = macB := by decide +kernel

theorem reqB_decodes (pid : Nat) : (Packet.decode a reqB pid none none).1 =
    .ok (0, .connectionRequest Netcode.C.NETCODE_VERSION_INFO 42 30 xnB privDataB) := by
  have h : ∀ pid, Packet.decode a reqB pid none none = Packet.decode a reqB 0 none none := by
    intro pid; rw [decode_eq, decode_eq]
  rw [h]; decide +kernel

/-- the datagram is answered (with a packet to its source `ad`) and `ad` has a half-open session afterwards -/
def challenged (R : Res Empty (ServerResult × NetcodeServer)) (ad : Addr) : Bool :=
  match R with
  | .ok (.packetToSend ad' _, s') => ad' == ad && (pendingFind s'.pendingClients ad).isSome
  | _ => false

/-- A's request registers A's MAC wherever it is `Accepted`, and nothing else -/
theorem reqA_registers {s : NetcodeServer} {ad : Addr} {mac : Bytes} (h : Registers a s ad reqA mac) : mac = macA := by
  obtain ⟨v, pid, e, x, d, t, hd, _, rfl⟩ := h
  rw [reqA_decodes] at hd; cases hd; exact macA_eq
theorem reqB_registers {s : NetcodeServer} {ad : Addr} {mac : Bytes} (h : Registers a s ad reqB mac) : mac = macB := by
  obtain ⟨v, pid, e, x, d, t, hd, _, rfl⟩ := h
  rw [reqB_decodes] at hd; cases hd; exact macB_eq
/-- a response registers nothing -/
theorem respA_registers {s : NetcodeServer} {ad : Addr} {mac : Bytes} (hp : s.protocolId = 42) :
    ¬ Registers a s ad respA mac := by
  rintro ⟨v, pid, e, x, d, t, hd, _, _⟩
  have : (Packet.decode a respA 42 none none).1 = .err .unavailablePrivateKey := by decide +kernel
  rw [hp, this] at hd; cases hd

/-- in `s0` A's request from A's address registers `macA` -/
theorem reqA_registers_s0 : Registers a s0 addrA reqA macA := by
  have h := C05.pending_only_if s0_empty.inv (pp_of_step s_request) (x := addrA) (p' := pendA) (by decide +kernel)
  rcases h with ⟨p, hp, _⟩ | ⟨_, v, pid, e, x, d, t, hd, hacc, _⟩
  · cases hp
  · have hd' := hd
    rw [reqA_decodes] at hd'; cases hd'
    exact ⟨_, _, _, _, _, t, hd, hacc, macA_eq⟩

/-! ### scenario 1: A registers its token, connects, is disconnected; then the token comes from B's address -/

/-- history of `s3`: A's request (met `s0`), A's response (met `s1`), `disconnect(11)` -/
theorem reachH_s3 : ReachH a s3 [⟨s0, addrA, reqA⟩, ⟨s1, addrA, respA⟩] :=
  .step (.step (.step (.init s0_empty) s_request) s_response) s_disconnect

theorem covered_s3 : Covered a [⟨s0, addrA, reqA⟩, ⟨s1, addrA, respA⟩] [macA] := by
  intro ar har mac hreg
  simp only [List.mem_cons, List.not_mem_nil, or_false] at har
  rcases har with rfl | rfl
  · simp [reqA_registers hreg]
  · exact absurd hreg (respA_registers rfl)

/-- `token_binding_history`: A's session is gone (`s3` has no session and no half-open session), the token is unexpired
    — and the same request from B's address is still refused -/
example : ∀ r s', s3.processPacket a addrB reqA = .ok (r, s') →
    r = .none ∧ sessions s'.clients = sessions s3.clients ∧
    (∀ y p', pendingFind s'.pendingClients y = some p' →
      ∃ p, pendingFind s3.pendingClients y = some p ∧ ident p' = ident p) ∧
    s'.connectTokenEntries = s3.connectTokenEntries :=
  fun r s' h => token_binding_history reachH_s3 covered_s3 (by decide) (ar := ⟨s0, addrA, reqA⟩) (by simp)
    reqA_registers_s0 h (reqA_decodes _) macA_eq (by decide)
example : s3.processPacket a addrB reqA = .ok (.none, s3) := by decide +kernel
/-- ... while from A's own address it is answered with a new challenge -/
example : challenged (s3.processPacket a addrA reqA) addrA = true := by decide +kernel

/-- `bindings_in_force` on that history -/
example : ∃ e, some e ∈ s3.connectTokenEntries ∧ e.mac = macA ∧ e.address = addrA :=
  bindings_in_force reachH_s3 covered_s3 (by decide) (ar := ⟨s0, addrA, reqA⟩) (by simp) reqA_registers_s0

/-- `entries_persist` / `entries_persist_while_room`: the entry written in `s1` survives A's response and the
    disconnect -/
theorem steps_s1_s3 : Steps a s1 [.packet addrA respA, .disconnect 11] s3 :=
  .cons s_response (.cons s_disconnect (.nil s3))
example : s3.connectTokenEntries[0]? = some (some ⟨0, addrA, macA⟩) :=
  entries_persist_while_room steps_s1_s3 C05.inv_s1 (j := 1) rfl (i := 0) rfl
example : s3.connectTokenEntries[0]? = some (some ⟨0, addrA, macA⟩) := by
  rcases entries_persist steps_s1_s3 C05.inv_s1 (i := 0) (e := ⟨0, addrA, macA⟩) rfl with
    h | ⟨ops1, op, ops2, t1, t2, r, _, hpre, _, hs, _, _, _, _, _, _, hfull, _, _, hsuf⟩
  · exact h
  · -- an eviction needs a full table, but slot 1 is empty to the end
    have h1 : t1.connectTokenEntries[1]? = some none :=
      empty_slot_back (.cons hs hsuf) (hpre.inv C05.inv_s1) (s' := s3) rfl
    exact absurd rfl (hfull none (List.mem_iff_getElem?.mpr ⟨1, h1⟩))

/-- `connected_from_first_presenter` on the honest handshake -/
example : addrA = addrA ∧ ∃ ar ∈ [(⟨s0, addrA, reqA⟩ : Arrival)], ar.addr = addrA ∧ ∃ v pid expire xnonce data t,
      (Packet.decode a ar.buf ar.s.protocolId none none).1 = .ok (0, .connectionRequest v pid expire xnonce data) ∧
      Accepted a ar.s addrA v pid expire xnonce data t ∧ t.clientId = 11 ∧ t.userData = udA ∧
      ∀ ar' ∈ [(⟨s0, addrA, reqA⟩ : Arrival)], Registers a ar'.s ar'.addr ar'.buf (tokenMac data) → ar'.addr = addrA :=
  connected_from_first_presenter C05.reachH_s1 (L := [macA]) (by
      intro ar har mac hreg
      simp only [List.mem_cons, List.not_mem_nil, or_false] at har
      subst har; simp [reqA_registers hreg])
    (by decide) (pp_of_step s_response)

/-! ### scenario 2: the one-slot server is full; B's valid request is DENIED — and still binds B's token -/

def addrC : Addr := .v4 [10, 0, 0, 4] 4002
/-- the one-slot server `f1` after A's response: A connected, full -/
def g2 : NetcodeServer := { f1 with pendingClients := [], clients := [some connA] }
def deniedB1 : Bytes := 129 :: (leBytes (2 ^ 63 + 1) 8 ++ List.replicate 16 0)
/-- ... after B's request: answered with `ConnectionDenied`, no half-open session, but `(macB, addrB)` recorded -/
def g3 : NetcodeServer :=
  { g2 with connectTokenEntries := [some ⟨0, addrA, macA⟩, some ⟨0, addrB, macB⟩, none], globalSequence := 2 ^ 63 + 2 }

theorem g_respA : step a f1 (.packet addrA respA) = some (.clientConnected 11 addrA udA kaA1, g2) := by decide +kernel
theorem g_reqB : step a g2 (.packet addrB reqB) = some (.packetToSend addrB deniedB1, g3) := by decide +kernel
theorem inv_g2 : ServerInv g2 := step_inv (step_inv f0_empty.inv f_reqA) g_respA

theorem reachH_g3 : ReachH a g3 [⟨f0, addrA, reqA⟩, ⟨f1, addrA, respA⟩, ⟨g2, addrB, reqB⟩] :=
  .step (.step (.step (.init f0_empty) f_reqA) g_respA) g_reqB

theorem covered_g3 : Covered a [⟨f0, addrA, reqA⟩, ⟨f1, addrA, respA⟩, ⟨g2, addrB, reqB⟩] [macA, macB] := by
  intro ar har mac hreg
  simp only [List.mem_cons, List.not_mem_nil, or_false] at har
  rcases har with rfl | rfl | rfl
  · simp [reqA_registers hreg]
  · exact absurd hreg (respA_registers rfl)
  · simp [reqB_registers hreg]

/-- B's request registers `macB` in the full server `g2` (`step_table_effect`: the table changed, so the datagram
    registered a MAC) -/
theorem reqB_registers_g2 : Registers a g2 addrB reqB macB := by
  rcases step_table_effect inv_g2 g_reqB with ⟨e, _⟩ | ⟨addr, buf, mac, hop, hreg, _⟩
  · exact absurd e (by decide)
  · cases hop
    rw [← reqB_registers hreg]; exact hreg

/-- `denied_request_still_binds` -/
example : g3.clients = g2.clients ∧
    (ServerResult.packetToSend addrB deniedB1 = .none ∨
      ∃ out, ServerResult.packetToSend addrB deniedB1 = .packetToSend addrB out ∧ IsDenied a g2 out) ∧
    ∃ e, some e ∈ g3.connectTokenEntries ∧ e.mac = macB ∧ e.address = addrB :=
  denied_request_still_binds inv_g2 (by decide) reqB_registers_g2 (pp_of_step g_reqB)

/-- `token_binding_history`: B was denied, has no session and no half-open session; its token from a third address is
    refused with `None` (not even a `ConnectionDenied`) -/
example : ∀ r s', g3.processPacket a addrC reqB = .ok (r, s') →
    r = .none ∧ sessions s'.clients = sessions g3.clients ∧
    (∀ y p', pendingFind s'.pendingClients y = some p' →
      ∃ p, pendingFind g3.pendingClients y = some p ∧ ident p' = ident p) ∧
    s'.connectTokenEntries = g3.connectTokenEntries :=
  fun r s' h => token_binding_history reachH_g3 covered_g3 (by decide) (ar := ⟨g2, addrB, reqB⟩) (by simp)
    reqB_registers_g2 h (reqB_decodes _) macB_eq (by decide)
example : g3.processPacket a addrC reqB = .ok (.none, g3) := by decide +kernel

/-! ### scenario 3: the boundary on a 3-slot table -/

def mac25 : Bytes := List.replicate 15 0 ++ [25]
def mac35 : Bytes := List.replicate 15 0 ++ [35]
/-- all 3 slots occupied; slots 0 and 1 have the same, minimal, time -/
def sFullB : NetcodeServer :=
  { s0 with connectTokenEntries := [some ⟨1, addrA, macA⟩, some ⟨1, addrB, mac25⟩, some ⟨3, addrB, mac35⟩]
            currentTime := 4 }
def chalB0 : Bytes := 130 :: (leBytes (2 ^ 63) 8 ++ leBytes 1 8 ++ chalTokB ++ List.replicate 16 0)
def sFullB' : NetcodeServer :=
  { sFullB with connectTokenEntries := [some ⟨4, addrB, macB⟩, some ⟨1, addrB, mac25⟩, some ⟨3, addrB, mac35⟩]
                challengeSequence := 1, globalSequence := 2 ^ 63 + 1
                pendingClients := [(addrB, mkPending 4 addrB 30 privB)] }

theorem sFullB_inv : ServerInv sFullB := by
  have h0 := s0_empty.inv
  obtain ⟨h1, h2, h3, h4, h5, _, _, h8, h9⟩ := h0
  refine ⟨h1, ?_, ?_, h4, h5, by decide, ?_, h8, h9⟩
  · intro i c hc; exact (h2 i c hc).mono (by decide)
  · intro p hp; cases hp
  · intro i j ei ej hi hj he
    have hi' : i < 3 := (List.getElem?_eq_some_iff.mp hi).1
    have hj' : j < 3 := (List.getElem?_eq_some_iff.mp hj).1
    match i, j, hi', hj' with
    | 0, 0, _, _ => rfl
    | 1, 1, _, _ => rfl
    | 2, 2, _, _ => rfl
    | 0, 1, _, _ => simp [sFullB] at hi hj; subst hi hj; exact absurd he (by decide)
    | 0, 2, _, _ => simp [sFullB] at hi hj; subst hi hj; exact absurd he (by decide)
    | 1, 0, _, _ => simp [sFullB] at hi hj; subst hi hj; exact absurd he (by decide)
    | 1, 2, _, _ => simp [sFullB] at hi hj; subst hi hj; exact absurd he (by decide)
    | 2, 0, _, _ => simp [sFullB] at hi hj; subst hi hj; exact absurd he (by decide)
    | 2, 1, _, _ => simp [sFullB] at hi hj; subst hi hj; exact absurd he (by decide)

theorem sFullB_step : step a sFullB (.packet addrB reqB) = some (.packetToSend addrB chalB0, sFullB') := by
  decide +kernel

theorem reqB_registers_sFullB : Registers a sFullB addrB reqB macB := by
  rcases step_table_effect sFullB_inv sFullB_step with ⟨e, _⟩ | ⟨addr, buf, mac, hop, hreg, _⟩
  · exact absurd e (by decide)
  · cases hop
    rw [← reqB_registers hreg]; exact hreg

/-- `boundary_evicts`: the new MAC evicts exactly one entry; the tie between slots 0 and 1 (both time 1) goes to the
    lower index — slot 0, A's binding -/
example : ∃ i, OldestAt sFullB.connectTokenEntries i ∧
    sFullB'.connectTokenEntries = sFullB.connectTokenEntries.set i (some ⟨4, addrB, macB⟩) ∧
    (∀ j : Nat, j ≠ i → sFullB'.connectTokenEntries[j]? = sFullB.connectTokenEntries[j]?) ∧
    sFullB'.connectTokenEntries[i]? = some (some ⟨4, addrB, macB⟩) :=
  boundary_evicts sFullB_inv (pp_of_step sFullB_step) reqB_registers_sFullB (by
      intro e he
      simp only [sFullB, List.mem_cons, Option.some.injEq, List.not_mem_nil, or_false] at he
      rcases he with rfl | rfl | rfl <;> decide)
    (by
      intro x hx
      simp only [sFullB, List.mem_cons, List.not_mem_nil, or_false] at hx
      rcases hx with rfl | rfl | rfl <;> simp)
example : tableAdd sFullB.connectTokenEntries ⟨4, addrB, macB⟩ =
    [some ⟨4, addrB, macB⟩, some ⟨1, addrB, mac25⟩, some ⟨3, addrB, mac35⟩] := by decide +kernel
/-- the slot-0 candidate is `OldestAt` (the tie rule, checked by hand on this table) -/
example : OldestAt sFullB.connectTokenEntries 0 := by
  refine Or.inl ⟨⟨1, addrA, macA⟩, rfl, by decide, fun j e' hj => absurd hj (Nat.not_lt_zero j), fun j e' hj => ?_⟩
  have hj' : j < 3 := (List.getElem?_eq_some_iff.mp hj).1
  match j, hj' with
  | 0, _ => simp [sFullB] at hj; subst hj; decide
  | 1, _ => simp [sFullB] at hj; subst hj; decide
  | 2, _ => simp [sFullB] at hj; subst hj; decide
/-- the limit made visible: after the eviction A's token is accepted from B's address -/
example : challenged (sFullB'.processPacket a addrC reqA) addrC = true := by decide +kernel

/-- `boundary_room` in `s1` (one of three slots occupied): B's request goes to the first empty slot, slot 1 -/
def s1B : NetcodeServer :=
  { s1 with connectTokenEntries := [some ⟨0, addrA, macA⟩, some ⟨0, addrB, macB⟩, none]
            challengeSequence := 2, globalSequence := 2 ^ 63 + 2
            pendingClients := [(addrA, pendA), (addrB, pendB)] }
theorem s1_reqB : step a s1 (.packet addrB reqB) = some (.packetToSend addrB chalB, s1B) := by decide +kernel
theorem reqB_registers_s1 : Registers a s1 addrB reqB macB := by
  rcases step_table_effect C05.inv_s1 s1_reqB with ⟨e, _⟩ | ⟨addr, buf, mac, hop, hreg, _⟩
  · exact absurd e (by decide)
  · cases hop
    rw [← reqB_registers hreg]; exact hreg
example : ∃ i, FirstEmpty s1.connectTokenEntries i ∧
    s1B.connectTokenEntries = s1.connectTokenEntries.set i (some ⟨0, addrB, macB⟩) ∧
    (∀ (j : Nat) (e : ConnectTokenEntry), s1.connectTokenEntries[j]? = some (some e) →
      s1B.connectTokenEntries[j]? = some (some e)) ∧
    occupied s1B.connectTokenEntries = occupied s1.connectTokenEntries + 1 :=
  boundary_room (pp_of_step s1_reqB) reqB_registers_s1 (by
      intro e he
      simp only [s1, List.mem_cons, Option.some.injEq, List.not_mem_nil, or_false, reduceCtorEq] at he
      subst he; decide)
    (by decide)

/-- `token_binding_from_new` on the real 2048-slot server: the fresh server processes A's request (whatever it
    answers); afterwards A's token from B's address is refused -/
example : ∃ s0' s1', NetcodeServer.new 0 2 42 [srvAddr] true key ckey = .ok s0' ∧
    Steps a s0' [.packet addrA reqA] s1' ∧ Covered a (arrivals a s0' [.packet addrA reqA]) [macA] ∧
    ∀ r s', s1'.processPacket a addrB reqA = .ok (r, s') →
      r = .none ∧ sessions s'.clients = sessions s1'.clients ∧
      (∀ y p', pendingFind s'.pendingClients y = some p' →
        ∃ p, pendingFind s1'.pendingClients y = some p ∧ ident p' = ident p) ∧
      s'.connectTokenEntries = s1'.connectTokenEntries := by
  obtain ⟨s0', h0⟩ := new_ne_panic (t := 0) (m := 2) (pid := 42) (pa := [srvAddr]) (sec := true) (k := key) (ck := ckey)
    (by decide)
  have hi := (new_inv h0).1
  have hs0 : s0' = { clients := List.replicate 2 none, pendingClients := []
                     connectTokenEntries := List.replicate Netcode.C.NETCODE_TOKEN_ENTRIES none, protocolId := 42
                     connectKey := key, maxClients := 2, challengeSequence := 0, challengeKey := ckey
                     publicAddresses := [srvAddr], currentTime := 0
                     globalSequence := Netcode.C.NETCODE_GLOBAL_SEQUENCE_START, secure := true } := by
    unfold NetcodeServer.new at h0; rw [if_neg (by decide)] at h0; cases h0; rfl
  have hg : s0'.globalSequence < U64_MAX := by rw [hs0]; decide
  have hc : s0'.challengeSequence < U64_MAX := by rw [hs0]; decide
  obtain ⟨r, s1', hpp, _⟩ := pp_spec a hi hg hc addrA reqA
  have hs : step a s0' (.packet addrA reqA) = some (r, s1') := by simp only [step, hpp]
  have harr : arrivals a s0' [.packet addrA reqA] = [⟨s0', addrA, reqA⟩] := by
    simp only [arrivals, hs, arrivalOf, List.append_nil]
  have hcov : Covered a (arrivals a s0' [.packet addrA reqA]) [macA] := by
    intro ar har mac hreg
    rw [harr] at har
    simp only [List.mem_cons, List.not_mem_nil, or_false] at har
    subst har
    simp [reqA_registers hreg]
  -- A's request passes every check in the fresh server
  have hacc : Accepted a s0' addrA Netcode.C.NETCODE_VERSION_INFO 42 30 xnA privDataA privA := by
    refine ⟨rfl, by rw [hs0], by rw [hs0]; decide, privA_opens s0' (by rw [hs0]), fun _ => ⟨srvAddr, by simp [privA], by rw [hs0]; simp⟩,
      by rw [hs0]; decide, by rw [hs0]; decide, Or.inr (by rw [hs0]; decide), ?_⟩
    rcases findOrAdd_spec s0' ⟨s0'.currentTime, addrA, tokenMac privDataA⟩ with ⟨e, he, _⟩ | ⟨_, k, h⟩
    · rw [hs0] at he; simp at he
    · rw [h]
  have hreg : Registers a s0' addrA reqA macA := ⟨_, _, _, _, _, privA, by rw [reqA_decodes], hacc, macA_eq⟩
  refine ⟨s0', s1', h0, .cons hs (.nil s1'), hcov, fun r' s' h => ?_⟩
  exact token_binding_from_new h0 (.cons hs (.nil s1')) hcov (by decide) (ar := ⟨s0', addrA, reqA⟩)
    (by rw [harr]; simp) hreg h (reqA_decodes _) macA_eq (show addrB ≠ addrA by decide)

end Examples
end RenetVerif.C05H
