/-
  C06 / C13 / C12 / C09 / C14 / C08 — ONE CONNECTION, ANY API TRACE, HOSTILE INPUT: ABOUT THE GENERATED CODE.

  `GConn` (`Lemmas/SrcEquiv/SrcConnSystem.lean`) is one GENERATED `RenetClient` created by the generated `from_channels` and
  driven through the generated `send_message`, `receive_message`, `update`, `get_packets_to_send`, `process_packet` (ARBITRARY
  bytes), `set_connected`, `set_connecting`, `disconnect`, `disconnect_due_to_transport`, in ANY order (`COp`); the ghost logs
  `flushes` / `recvd` record what every generated `get_packets_to_send` / `receive_message` RETURNED.
  `GConn.exec cfg ops = some g`: `from_channels` and every call of the trace returned normally.

  The theorems below have the GENERATED run as hypothesis and read their conclusions off the generated struct / the generated
  outputs.  `CRunInRange cfg ops` is the range side condition of the source tie (`SrcConnSystem.CRunInRange`: distinct channel
  ids per kind; before every operation the connection in range `ConnInRange` — counters `≤ 2^60`, budgets `≤ 2^63`; submitted
  messages shorter than `2^63` bytes; the clock within `Duration::MAX`), stated over the model run and decidable by
  evaluation.  Proofs: the two-way simulation `SrcConnSystem.crun_sim` / `crun_sim_conv` + the model theorems of
  `Props/C06.lean`, `C13.lean`, `C12.lean`, `C09.lean`, `C14.lean`, `C08.lean`.
-/
import RenetVerif.Lemmas.SrcEquiv.SrcConnSystem
import RenetVerif.Props.C06
import RenetVerif.Props.C08
import RenetVerif.Props.C09
import RenetVerif.Props.C12
import RenetVerif.Props.C13
import RenetVerif.Props.C14
set_option maxRecDepth 100000
set_option linter.unusedVariables false
set_option linter.unusedSimpArgs false
namespace RenetVerif.SrcPropsConnTrace
open RenetVerif RenetVerif.RustSem RenetVerif.C RenetVerif.System RenetVerif.SrcEquiv RenetVerif.SrcSystem RenetVerif.SrcConnSystem
open Src.renet.remote_connection

/-! ## auxiliary: the model side -/

/-- in range implies the counter condition of the model's flush theorems -/
theorem countersOK_of_inRange {c : Conn} (h : ConnInRange c) : c.CountersOK := by
  have hM : (2 : Nat) ^ 60 ≤ Varint.MAX := by decide
  refine ⟨fun ch s hf => ?_, fun ch s hf => ?_, ?_⟩
  · have h1 : s.nextId ≤ 2 ^ 60 ∧ s.maxMem ≤ 2 ^ 60 := h.1 (ch, s) (SMap.mem_of_find? hf)
    exact ⟨by omega, by omega⟩
  · have h1 : s.slicedId + s.queue.length ≤ 2 ^ 60 ∧ s.maxMem ≤ 2 ^ 60 := h.2.1 (ch, s) (SMap.mem_of_find? hf)
    exact ⟨by omega, by omega⟩
  · have := h.2.2.2.2.1
    omega

/-- an operation uses configured channel ids -/
def COpValid (cfg : Cfg) : COp → Prop
  | .send ch _ => ch ∈ cfg.send.map (·.id)
  | .recv ch => ch ∈ cfg.recv.map (·.id)
  | _ => True

instance (cfg : Cfg) (op : COp) : Decidable (COpValid cfg op) := by cases op <;> unfold COpValid <;> infer_instance

theorem cfgValid_of {cfg : Cfg} {op : COp} (h : COpValid cfg op) : CI.CfgValid cfg.send cfg.recv op.toConnOp := by
  cases op <;> first | exact h | trivial

/-- the model trace with valid channel ids, in range, runs to completion -/
theorem mtr_total : ∀ (ops : List COp) (t : MTr), t.c.Inv → (∀ op ∈ ops, CI.ChanValid t.c op.toConnOp) →
    CRunInRangeFrom t ops → ∃ t', t.run ops = some t'
  | [], t, _, _, _ => ⟨t, rfl⟩
  | op :: ops, t, hi, hv, hrg => by
    obtain ⟨hr, hop, hrest⟩ := hrg
    obtain ⟨c', e, i', same⟩ := C06.every_operation_total t.c hi op.toConnOp (hv op (List.mem_cons_self ..))
      (fun _ => countersOK_of_inRange hr)
    obtain ⟨t1, hs, rfl⟩ := mtr_step_of_apply e
    rw [hs] at hrest
    obtain ⟨t', ht'⟩ := mtr_total ops t1 i' (fun o ho => (hv o (List.mem_cons_of_mem _ ho)).same same) hrest
    exact ⟨t', by simp only [MTr.run, hs]; exact ht'⟩

/-- what a step does to the log of flushes -/
theorem mtr_step_flushes {t t' : MTr} {op : COp} (h : t.step op = some t') :
    t'.flushes = t.flushes ∨ ∃ c' bs, t.c.getPacketsToSend = .ok (c', bs) ∧ t'.flushes = t.flushes ++ [bs] := by
  cases op with
  | send ch m =>
    simp only [MTr.step] at h
    cases hm : t.c.sendMessage ch m with
    | ok c' => rw [hm] at h; cases h; exact Or.inl rfl
    | err e => exact nomatch e
    | panic s => rw [hm] at h; cases h
  | recv ch =>
    simp only [MTr.step] at h
    cases hm : t.c.receiveMessage ch with
    | ok x => obtain ⟨c', o⟩ := x; rw [hm] at h; cases h; exact Or.inl rfl
    | err e => exact nomatch e
    | panic s => rw [hm] at h; cases h
  | update dt =>
    simp only [MTr.step] at h
    cases hm : t.c.update dt with
    | ok c' => rw [hm] at h; cases h; exact Or.inl rfl
    | err e => exact nomatch e
    | panic s => rw [hm] at h; cases h
  | flush =>
    simp only [MTr.step] at h
    cases hm : t.c.getPacketsToSend with
    | ok x => obtain ⟨c', o⟩ := x; rw [hm] at h; cases h; exact Or.inr ⟨c', o, rfl, rfl⟩
    | err e => exact nomatch e
    | panic s => rw [hm] at h; cases h
  | process b =>
    simp only [MTr.step] at h
    cases hm : t.c.processPacket b with
    | ok c' => rw [hm] at h; cases h; exact Or.inl rfl
    | err e => exact nomatch e
    | panic s => rw [hm] at h; cases h
  | setConnected => cases h; exact Or.inl rfl
  | setConnecting => cases h; exact Or.inl rfl
  | disconnect => cases h; exact Or.inl rfl
  | disconnectTransport => cases h; exact Or.inl rfl

/-- a property of the output of every flush (from a good state in range) holds of every logged flush of a run -/
theorem mtr_flushes_all (Q : List Bytes → Prop)
    (hQ : ∀ c c' bs, EpGood c → ConnInRange c → c.getPacketsToSend = .ok (c', bs) → Q bs) :
    ∀ (ops : List COp) (t t' : MTr), EpGood t.c → CRunInRangeFrom t ops → t.run ops = some t' →
      (∀ bs ∈ t.flushes, Q bs) → ∀ bs ∈ t'.flushes, Q bs
  | [], t, t', _, _, hr, h0 => by cases hr; exact h0
  | op :: ops, t, t', hg, hrg, hr, h0 => by
    obtain ⟨hrange, hop, hrest⟩ := hrg
    simp only [MTr.run] at hr
    cases hs : t.step op with
    | none => rw [hs] at hr; cases hr
    | some t1 =>
      rw [hs] at hr hrest
      refine mtr_flushes_all Q hQ ops t1 t' (epGood_step hg hs) hrest hr ?_
      rcases mtr_step_flushes hs with e | ⟨c', bs, e1, e2⟩
      · rw [e]; exact h0
      · rw [e2]
        intro x hx
        rcases List.mem_append.mp hx with hx | hx
        · exact h0 x hx
        · rw [List.mem_singleton] at hx; subst hx
          exact hQ _ _ _ hg hrange e1

/-- the range condition of the state an extension starts from -/
theorem inRange_last : ∀ (ops : List COp) (op : COp) (t0 t : MTr), t0.run ops = some t →
    CRunInRangeFrom t0 (ops ++ [op]) → ConnInRange t.c := by
  intro ops op
  induction ops with
  | nil => intro t0 t h hr; cases h; exact hr.1
  | cons o ops ih =>
    intro t0 t h hr
    simp only [MTr.run] at h
    cases hs : t0.step o with
    | none => rw [hs] at h; cases h
    | some t1 =>
      rw [hs] at h
      have h3 := hr.2.2
      rw [hs] at h3
      exact ih t1 t h h3

/-! ## C06 — no byte string and no call sequence makes the generated code panic -/

/-- **C06 on the generated code: any API trace with configured channel ids runs without a panic.**  For EVERY operation list
    `ops` — hostile byte strings handed to `process_packet` anywhere in it, status calls, flushes, clock steps in any order —
    whose `send_message` / `receive_message` calls use channel ids of the configuration and which is in range: the generated
    `from_channels` and every generated call return normally.  (Transports `C06.fresh_connection_keeps_working`; the documented
    panics are those of an invalid channel id.) -/
theorem src_never_panics (cfg : Cfg) (ops : List COp) (hv : ∀ op ∈ ops, COpValid cfg op) (hrg : CRunInRange cfg ops) :
    ∃ g, GConn.exec cfg ops = some g := by
  obtain ⟨t, ht⟩ := mtr_total ops (MTr.init cfg) (C06.fresh_connection _ _ _).2
    (fun op ho => (cfgValid_of (hv op ho)).chanValid) hrg.2
  obtain ⟨g, e, -⟩ := crun_sim cfg ops t hrg ht
  exact ⟨g, e⟩

/-- **C06 on the generated code: hostile bytes.**  In every generated state `g` reached by ANY run, the generated
    `process_packet` returns normally for EVERY byte string, and afterwards the generated `connection_status` is unchanged or
    the generated `is_disconnected` returns `true`.  (Transports `C06.processPacket_total`; the range condition concerns the
    state `g` only — there is none on `bytes`.) -/
theorem src_hostile_bytes_total (cfg : Cfg) (ops : List COp) (g : GConn) (hg : GConn.exec cfg ops = some g) (bytes : Bytes)
    (hrg : CRunInRange cfg (ops ++ [.process bytes])) :
    ∃ g', GConn.exec cfg (ops ++ [.process bytes]) = some g' ∧ g'.flushes = g.flushes ∧ g'.recvd = g.recvd ∧
      (g'.cl.connection_status = g.cl.connection_status ∨
        (RenetClient.is_disconnected g'.cl : Res Empty Bool) = .ok true) := by
  obtain ⟨t, ht, sim⟩ := crun_sim_conv cfg ops g (crunInRange_prefix cfg ops _ hrg) hg
  have hgood := epGood_run ops _ t (epGood_init cfg) ht
  obtain ⟨c', e, -, hst, -⟩ := C06.processPacket_total t.c (CI.sinv_inv hgood.sinv) bytes
  have hs : t.step (.process bytes) = some { t with c := c' } := by simp only [MTr.step, e]
  have hrun : (MTr.init cfg).run (ops ++ [.process bytes]) = some { t with c := c' } := by
    rw [MTr.run_append, ht]; simp only [Option.bind_some, MTr.run, hs]
  obtain ⟨g', e', sim'⟩ := crun_sim cfg _ _ hrg hrun
  obtain ⟨mrs, hC⟩ := sim.cl
  obtain ⟨mrs', hC'⟩ := sim'.cl
  refine ⟨g', e', by rw [sim'.flushes, sim.flushes], by rw [sim'.recvd, sim.recvd], ?_⟩
  rcases hst with h | ⟨r, h⟩
  · left
    rw [hC, hC']
    show reprStatus c'.status = reprStatus t.c.status
    rw [h]
  · right
    rw [hC', SrcTie.conn_is_disconnected]
    show Res.ok (Conn.isDisconnected c') = _
    unfold Conn.isDisconnected
    rw [h]

/-! ## C13 — datagrams fit, no `PacketSerialization` disconnect -/

/-- **C13 on the generated code, whole trace.**  Every datagram any generated `get_packets_to_send` returned in the run is
    at most `NETCODE_MAX_PAYLOAD_BYTES = 1300` bytes long.  (Transports `C13.connection_fits` along the run.) -/
theorem src_datagrams_fit (cfg : Cfg) (ops : List COp) (g : GConn) (hg : GConn.exec cfg ops = some g)
    (hrg : CRunInRange cfg ops) : ∀ bs ∈ g.flushes, ∀ b ∈ bs, b.length ≤ 1300 := by
  obtain ⟨t, ht, sim⟩ := crun_sim_conv cfg ops g hrg hg
  have key := mtr_flushes_all (fun bs => ∀ b ∈ bs, b.length ≤ NETCODE_MAX_PAYLOAD_BYTES)
    (fun c c' bs hgd hr e => by
      have hc := countersOK_of_inRange hr
      obtain ⟨c1, bs1, e1, -, h1, -⟩ := C13.connection_fits c (CI.flushInv_of hgd.sinv hc) hc.seq
      rw [e] at e1; cases e1; exact h1)
    ops (MTr.init cfg) t (epGood_init cfg) hrg.2 ht (fun bs hbs => by cases hbs)
  intro bs hbs b hb
  rw [sim.flushes] at hbs
  obtain ⟨bs0, hbs0, rfl⟩ := List.mem_map.mp hbs
  obtain ⟨b0, hb0, rfl⟩ := List.mem_map.mp hb
  rw [toNats_length]
  exact key bs0 hbs0 b0 hb0

/-- **C13 on the generated code, one flush.**  In every generated state `g` reached by ANY run (in range), the generated
    `get_packets_to_send` returns normally, every datagram it returns is at most 1300 bytes long, and it leaves the generated
    `connection_status` unchanged — in particular it never disconnects with `PacketSerialization`. -/
theorem src_flush_fits (cfg : Cfg) (ops : List COp) (g : GConn) (hg : GConn.exec cfg ops = some g)
    (hrg : CRunInRange cfg (ops ++ [.flush])) :
    ∃ g' bs, GConn.exec cfg (ops ++ [.flush]) = some g' ∧ g'.flushes = g.flushes ++ [bs] ∧ (∀ b ∈ bs, b.length ≤ 1300) ∧
      g'.cl.connection_status = g.cl.connection_status := by
  obtain ⟨t, ht, sim⟩ := crun_sim_conv cfg ops g (crunInRange_prefix cfg ops _ hrg) hg
  have hgood := epGood_run ops _ t (epGood_init cfg) ht
  have hr : ConnInRange t.c := by
    have := hrg.2
    clear hrg
    -- the range condition of the last operation
    have aux : ∀ (ops : List COp) (t0 t : MTr), t0.run ops = some t → CRunInRangeFrom t0 (ops ++ [.flush]) → ConnInRange t.c := by
      intro ops
      induction ops with
      | nil => intro t0 t h hr; cases h; exact hr.1
      | cons op ops ih =>
        intro t0 t h hr
        simp only [MTr.run] at h
        cases hs : t0.step op with
        | none => rw [hs] at h; cases h
        | some t1 =>
          rw [hs] at h
          have h3 := hr.2.2
          rw [hs] at h3
          exact ih t1 t h h3
    exact aux ops _ t ht this
  have hc := countersOK_of_inRange hr
  obtain ⟨c1, bs1, e1, hst, h1, -⟩ := C13.connection_fits t.c (CI.flushInv_of hgood.sinv hc) hc.seq
  have hs : t.step .flush = some { t with c := c1, flushes := t.flushes ++ [bs1] } := by simp only [MTr.step, e1]
  have hrun : (MTr.init cfg).run (ops ++ [.flush]) = some { t with c := c1, flushes := t.flushes ++ [bs1] } := by
    rw [MTr.run_append, ht]; simp only [Option.bind_some, MTr.run, hs]
  obtain ⟨g', e', sim'⟩ := crun_sim cfg _ _ hrg hrun
  obtain ⟨mrs, hC⟩ := sim.cl
  obtain ⟨mrs', hC'⟩ := sim'.cl
  refine ⟨g', bs1.map toNats, e', ?_, ?_, ?_⟩
  · rw [sim'.flushes, sim.flushes]; simp only [List.map_append, List.map_cons, List.map_nil]
  · intro b hb
    obtain ⟨b0, hb0, rfl⟩ := List.mem_map.mp hb
    rw [toNats_length]; exact h1 b0 hb0
  · rw [hC, hC']
    show reprStatus c1.status = reprStatus t.c.status
    rw [hst]

/-! ## C12 — disconnected is absorbing -/

/-- on the model: from a disconnected state every trace keeps the status and the reason, every flush returns no packets,
    every `receive_message` returns nothing -/
theorem mtr_disconnected_run (r : Reason) : ∀ (ext : List COp) (t t' : MTr), t.c.status = .disconnected r →
    t.run ext = some t' →
    t'.c.status = .disconnected r ∧ (∃ k, t'.flushes = t.flushes ++ List.replicate k []) ∧
      ∃ rs, t'.recvd = t.recvd ++ rs ∧ ∀ x ∈ rs, x.2 = none
  | [], t, t', h, hr => by cases hr; exact ⟨h, ⟨0, by simp⟩, [], by simp, fun _ hx => by cases hx⟩
  | op :: ext, t, t', h, hr => by
    simp only [MTr.run] at hr
    cases hs : t.step op with
    | none => rw [hs] at hr; cases hr
    | some t1 =>
      rw [hs] at hr
      obtain ⟨a1, a2, a3, a4, a5, a6, a7, a8⟩ := C12.disconnected_absorbing t.c r h
      have hst : t1.c.status = .disconnected r := C12.status_first_reason t.c t1.c op.toConnOp r (mtr_step_conn hs) h
      obtain ⟨i1, ⟨k, i2⟩, rs, i3, i4⟩ := mtr_disconnected_run r ext t1 t' hst hr
      -- the logs of the first step
      have hlog : (t1.flushes = t.flushes ∨ t1.flushes = t.flushes ++ [[]]) ∧
          (t1.recvd = t.recvd ∨ ∃ ch, t1.recvd = t.recvd ++ [(ch, none)]) := by
        cases op with
        | send ch m => simp only [MTr.step, a4 ch m] at hs; cases hs; exact ⟨Or.inl rfl, Or.inl rfl⟩
        | recv ch => simp only [MTr.step, a5 ch] at hs; cases hs; exact ⟨Or.inl rfl, Or.inr ⟨ch, rfl⟩⟩
        | update dt =>
          simp only [MTr.step] at hs
          cases hm : t.c.update dt with
          | ok c' => rw [hm] at hs; cases hs; exact ⟨Or.inl rfl, Or.inl rfl⟩
          | err e => exact nomatch e
          | panic s => rw [hm] at hs; cases hs
        | flush => simp only [MTr.step, a7] at hs; cases hs; exact ⟨Or.inr rfl, Or.inl rfl⟩
        | process b => simp only [MTr.step, a6 b] at hs; cases hs; exact ⟨Or.inl rfl, Or.inl rfl⟩
        | setConnected => cases hs; exact ⟨Or.inl rfl, Or.inl rfl⟩
        | setConnecting => cases hs; exact ⟨Or.inl rfl, Or.inl rfl⟩
        | disconnect => cases hs; exact ⟨Or.inl rfl, Or.inl rfl⟩
        | disconnectTransport => cases hs; exact ⟨Or.inl rfl, Or.inl rfl⟩
      refine ⟨i1, ?_, ?_⟩
      · rcases hlog.1 with e | e
        · exact ⟨k, by rw [i2, e]⟩
        · refine ⟨k + 1, ?_⟩
          rw [i2, e, List.append_assoc]
          congr 1
      · rcases hlog.2 with e | ⟨ch, e⟩
        · exact ⟨rs, by rw [i3, e], i4⟩
        · refine ⟨(ch, none) :: rs, by rw [i3, e, List.append_assoc]; rfl, ?_⟩
          intro x hx
          rcases List.mem_cons.mp hx with rfl | hx
          · rfl
          · exact i4 x hx

/-- **C12 on the generated code: disconnected is absorbing.**  Once the generated `is_disconnected` returns `true` (state `g`
    of ANY run), then after ANY further operations `ext` — status calls, further disconnects with other reasons, hostile or
    genuine packets, sends, clock steps — the generated `is_disconnected` still returns `true`, the generated
    `disconnect_reason` returns the SAME reason, every generated `get_packets_to_send` in `ext` returned NO packets and every
    generated `receive_message` in `ext` returned `None`.  (Transports `C12.disconnected_absorbing` / `status_monotone`.) -/
theorem src_disconnected_absorbing (cfg : Cfg) (ops ext : List COp) (g g' : GConn)
    (hg : GConn.exec cfg ops = some g) (hg' : GConn.exec cfg (ops ++ ext) = some g')
    (hrg : CRunInRange cfg (ops ++ ext))
    (hd : (RenetClient.is_disconnected g.cl : Res Empty Bool) = .ok true) :
    (RenetClient.is_disconnected g'.cl : Res Empty Bool) = .ok true ∧
    (RenetClient.disconnect_reason g'.cl : Res Empty _) = RenetClient.disconnect_reason g.cl ∧
    (∃ k, g'.flushes = g.flushes ++ List.replicate k []) ∧
    ∃ rs, g'.recvd = g.recvd ++ rs ∧ ∀ x ∈ rs, x.2 = none := by
  obtain ⟨t, t', ht, ht', sim, sim', hgood⟩ := crun_split cfg ops ext g g' hrg hg hg'
  obtain ⟨mrs, hC⟩ := sim.cl
  obtain ⟨mrs', hC'⟩ := sim'.cl
  rw [hC, SrcTie.conn_is_disconnected] at hd
  have hd' : t.c.isDisconnected = true := Res.ok.inj hd
  have hr : ∃ r, t.c.status = .disconnected r := by
    unfold Conn.isDisconnected at hd'
    cases hst : t.c.status with
    | disconnected r => exact ⟨r, rfl⟩
    | connected => rw [hst] at hd'; cases hd'
    | connecting => rw [hst] at hd'; cases hd'
  obtain ⟨r, hst⟩ := hr
  obtain ⟨i1, ⟨k, i2⟩, rs, i3, i4⟩ := mtr_disconnected_run r ext t t' hst ht'
  refine ⟨?_, ?_, ⟨k, ?_⟩, rs.map recvRepr, ?_, ?_⟩
  · rw [hC', SrcTie.conn_is_disconnected]; unfold Conn.isDisconnected; rw [i1]
  · rw [hC, hC', SrcTie.conn_disconnect_reason, SrcTie.conn_disconnect_reason]
    unfold Conn.disconnectReason; rw [i1, hst]
  · rw [sim'.flushes, sim.flushes, i2, List.map_append, List.map_replicate]; rfl
  · rw [sim'.recvd, sim.recvd, i3, List.map_append]
  · intro x hx
    obtain ⟨y, hy, rfl⟩ := List.mem_map.mp hx
    show (y.2.map toNats) = none
    rw [i4 y hy]; rfl

/-! ## C09 — memory counters within the configured maxima -/

/-- **C09 on the generated code.**  In every generated state reached by ANY run — hostile input included — every channel's
    `memory_usage_bytes` field is at most its `max_memory_usage_bytes` field, for all four channel tables of the generated
    struct.  (Transports `C06.memory_within_budget` / `C09.memory_exact_and_bounded`.) -/
theorem src_memory_within_budget (cfg : Cfg) (ops : List COp) (g : GConn) (hg : GConn.exec cfg ops = some g)
    (hrg : CRunInRange cfg ops) :
    (∀ ch s, RustSem.Map.find? g.cl.send_reliable_channels ch = some s → s.memory_usage_bytes ≤ s.max_memory_usage_bytes) ∧
    (∀ ch s, RustSem.Map.find? g.cl.send_unreliable_channels ch = some s → s.memory_usage_bytes ≤ s.max_memory_usage_bytes) ∧
    (∀ ch r, RustSem.Map.find? g.cl.receive_reliable_channels ch = some r → r.memory_usage_bytes ≤ r.max_memory_usage_bytes) ∧
    (∀ ch r, RustSem.Map.find? g.cl.receive_unreliable_channels ch = some r →
      r.memory_usage_bytes ≤ r.max_memory_usage_bytes) := by
  obtain ⟨t, ht, sim⟩ := crun_sim_conv cfg ops g hrg hg
  have hgood := epGood_run ops _ t (epGood_init cfg) ht
  obtain ⟨m1, m2, m3, m4⟩ := C06.memory_within_budget t.c (CI.sinv_inv hgood.sinv)
  obtain ⟨mrs, hC⟩ := sim.cl
  rw [hC]
  refine ⟨fun ch s hf => ?_, fun ch s hf => ?_, fun ch r hf => ?_, fun ch r hf => ?_⟩
  · simp only [reprConn, find_mapVals] at hf
    cases hm : SMap.find? t.c.sendRel ch with
    | none => rw [hm] at hf; cases hf
    | some sM => rw [hm] at hf; cases hf; exact (m1 ch sM hm).2
  · simp only [reprConn, find_mapVals] at hf
    cases hm : SMap.find? t.c.sendUnrel ch with
    | none => rw [hm] at hf; cases hf
    | some sM => rw [hm] at hf; cases hf; exact (m2 ch sM hm).2
  · simp only [reprConn, find_reprRecvRel] at hf
    cases hm : SMap.find? t.c.recvRel ch with
    | none => rw [hm] at hf; cases hf
    | some rM => rw [hm] at hf; cases hf; exact (m3 ch rM hm).2
  · simp only [reprConn, find_mapVals] at hf
    cases hm : SMap.find? t.c.recvUnrel ch with
    | none => rw [hm] at hf; cases hf
    | some rM => rw [hm] at hf; cases hf; exact (m4 ch rM hm).2

/-! ## C14 — the payload of one flush stays within `available_bytes_per_tick` -/

/-- **C14 on the generated code, one flush.**  In every generated state `g` reached by ANY run (in range), what the generated
    `get_packets_to_send` returns is the serialisation (`Conn.serialiseAll`, the model of `Packet::to_bytes`; byte for byte,
    `toNats`) of a packet list `pk` that carries at most `available_bytes_per_tick` (the field of the generated struct) bytes of
    message payload (`payloadSum`, the model's measure) and is numbered consecutively from the generated `packet_sequence` — or
    it returns nothing.  (Transports `C14.connection_budget` + `C14.flush_is_serialised` in the model theorems' own
    formulation.) -/
theorem src_flush_budget (cfg : Cfg) (ops : List COp) (g : GConn) (hg : GConn.exec cfg ops = some g)
    (hrg : CRunInRange cfg (ops ++ [.flush])) :
    ∃ g' bs pk, GConn.exec cfg (ops ++ [.flush]) = some g' ∧ g'.flushes = g.flushes ++ [bs] ∧
      payloadSum pk ≤ g.cl.available_bytes_per_tick ∧
      pk.map Packet.sequence = List.range' g.cl.packet_sequence pk.length ∧
      (bs = [] ∨ ∃ bs0, Conn.serialiseAll pk = .ok bs0 ∧ bs = bs0.map toNats) := by
  obtain ⟨t, ht, sim⟩ := crun_sim_conv cfg ops g (crunInRange_prefix cfg ops _ hrg) hg
  have hgood := epGood_run ops _ t (epGood_init cfg) ht
  have hr : ConnInRange t.c := inRange_last ops .flush _ t ht hrg.2
  have hc := countersOK_of_inRange hr
  have hfi := CI.flushInv_of hgood.sinv hc
  obtain ⟨c1, bs1, e1, -, -, -⟩ := C13.connection_fits t.c hfi hc.seq
  have hs : t.step .flush = some { t with c := c1, flushes := t.flushes ++ [bs1] } := by simp only [MTr.step, e1]
  have hrun : (MTr.init cfg).run (ops ++ [.flush]) = some { t with c := c1, flushes := t.flushes ++ [bs1] } := by
    rw [MTr.run_append, ht]; simp only [Option.bind_some, MTr.run, hs]
  obtain ⟨g', e', sim'⟩ := crun_sim cfg _ _ hrg hrun
  obtain ⟨mrs, hC⟩ := sim.cl
  have hfl : g'.flushes = g.flushes ++ [bs1.map toNats] := by
    rw [sim'.flushes, sim.flushes]; simp only [List.map_append, List.map_cons, List.map_nil]
  cases hd : t.c.isDisconnected with
  | true =>
    have hst : ∃ r, t.c.status = .disconnected r := by
      unfold Conn.isDisconnected at hd
      cases hst : t.c.status with
      | disconnected r => exact ⟨r, rfl⟩
      | connected => rw [hst] at hd; cases hd
      | connecting => rw [hst] at hd; cases hd
    obtain ⟨r, hst⟩ := hst
    have := (C12.disconnected_absorbing t.c r hst).2.2.2.2.2.2.1
    rw [this] at e1; cases e1
    exact ⟨g', [], [], e', hfl, Nat.zero_le _, rfl, Or.inl rfl⟩
  | false =>
    obtain ⟨pk, hpk, hser⟩ := C14.flush_is_serialised t.c c1 bs1 hd e1
    obtain ⟨b1, b2⟩ := C14.connection_budget t.c pk hfi.rel.fit hpk
    refine ⟨g', bs1.map toNats, pk, e', hfl, by rw [hC]; exact b1, by rw [hC]; exact b2, ?_⟩
    rcases hser with h | ⟨h, -⟩
    · exact Or.inr ⟨bs1, h, rfl⟩
    · left; rw [h]; rfl

/-! ## non-vacuity: a trace with hostile bytes, executed by the kernel ON THE GENERATED CODE

  The configuration and the packets of `C06.Ex`: three channels (0 ReliableOrdered, 1 ReliableUnordered, 2 Unreliable).  A live
  phase `ops1` (sends, a sliced message, genuine packets, partial reassembly, two flushes, receives, a clock step), then hostile
  input: an Ack packet with an absurd range, a slice with an index beyond its announced count (`hostileSlice`: the generated
  code disconnects with `ReceiveChannelError(1, InvalidSliceMessage)`), garbage (`PacketDeserialization`), and a trace `ext` on
  the disconnected connection. -/
namespace Ex
abbrev cfg : Cfg := ⟨60000, C06.Ex.cfg, C06.Ex.cfg⟩
abbrev ops1 : List COp :=
  [.setConnected, .send 0 [1, 2, 3], .send 0 C06.Ex.big, .send 2 [9, 9], .process C06.Ex.relSlice, .process C06.Ex.unrelSlice,
   .process C06.Ex.smallPkt, .flush, .recv 0, .recv 0, .send 2 [4, 4, 4], .update 5, .flush]
/-- an Ack packet acknowledging the sequences 0 … 2^64 - 2 (never sent) -/
abbrev hugeAck : Bytes := [0, 0, 0, 0, 0, 255, 255, 255, 255, 255, 255, 255, 255, 1]
abbrev opsH : List COp := ops1 ++ [.process hugeAck, .process C06.Ex.garbage]
abbrev ext : List COp :=
  [.setConnected, .flush, .recv 0, .process C06.Ex.smallPkt, .process C06.Ex.hostileSlice, .disconnectTransport, .send 0 [1],
   .update 3, .setConnecting, .flush, .recv 1]

def gzero : GConn := ⟨reprConn (fun _ => 0) (Conn.fromChannels 0 [] []), [], []⟩
def g1 : GConn := (GConn.exec cfg ops1).getD gzero
def gH : GConn := (GConn.exec cfg opsH).getD gzero
def gE : GConn := (GConn.exec cfg (opsH ++ ext)).getD gzero

theorem inRange : CRunInRange cfg (opsH ++ ext) := by decide +kernel
theorem valid : ∀ op ∈ opsH ++ ext, COpValid cfg op := by decide +kernel

/-- **`src_never_panics` applied**: the whole trace, hostile bytes included, runs on the generated code -/
example : ∃ g, GConn.exec cfg (opsH ++ ext) = some g := src_never_panics cfg _ valid inRange

/-- the generated runs, evaluated by the kernel -/
theorem grun1 : GConn.exec cfg ops1 = some g1 := some_getD (by decide +kernel) _
theorem grunH : GConn.exec cfg opsH = some gH := some_getD (by decide +kernel) _
theorem grunE : GConn.exec cfg (opsH ++ ext) = some gE := some_getD (by decide +kernel) _

/-- what the kernel computes on the generated code: the datagram sizes of the two flushes of the live phase, the outputs of
    `receive_message`, the status after the live phase, after the absurd Ack and the garbage, and at the end -/
theorem gfacts :
    g1.flushes.map (·.map List.length) = [[1208, 8, 10, 8, 5], [9, 5]] ∧ g1.recvd = [(0, some [7, 7]), (0, none)] ∧
    g1.cl.connection_status = .Connected ∧
    (GConn.exec cfg (ops1 ++ [.process hugeAck])).map (·.cl.connection_status) = some .Connected ∧
    gH.cl.connection_status = .Disconnected (.PacketDeserialization .InvalidPacketType) ∧
    gE.cl.connection_status = .Disconnected (.PacketDeserialization .InvalidPacketType) ∧
    gE.flushes.map (·.map List.length) = [[1208, 8, 10, 8, 5], [9, 5], [], []] ∧
    (GConn.exec cfg (ops1 ++ [.process C06.Ex.hostileSlice])).map (·.cl.connection_status) =
      some (.Disconnected (.ReceiveChannelError 1 .InvalidSliceMessage)) := by
  decide +kernel

/-- an invalid channel id is the documented panic -/
example : GConn.exec cfg (ops1 ++ [.send 7 [1]]) = none := by decide +kernel

/-- **`src_hostile_bytes_total` applied** to the garbage and to the hostile slice after the live phase -/
example : ∃ g', GConn.exec cfg (ops1 ++ [.process C06.Ex.garbage]) = some g' ∧ g'.flushes = g1.flushes ∧ g'.recvd = g1.recvd ∧
    (g'.cl.connection_status = g1.cl.connection_status ∨ (RenetClient.is_disconnected g'.cl : Res Empty Bool) = .ok true) :=
  src_hostile_bytes_total cfg ops1 g1 grun1 C06.Ex.garbage (by decide +kernel)
example : ∃ g', GConn.exec cfg (ops1 ++ [.process C06.Ex.hostileSlice]) = some g' ∧ g'.flushes = g1.flushes ∧
    g'.recvd = g1.recvd ∧
    (g'.cl.connection_status = g1.cl.connection_status ∨ (RenetClient.is_disconnected g'.cl : Res Empty Bool) = .ok true) :=
  src_hostile_bytes_total cfg ops1 g1 grun1 C06.Ex.hostileSlice (by decide +kernel)

/-- **`src_datagrams_fit` applied** to the whole trace, **`src_flush_fits`** to one more flush after the live phase -/
example : ∀ bs ∈ gE.flushes, ∀ b ∈ bs, b.length ≤ 1300 := src_datagrams_fit cfg _ gE grunE inRange
example : ∃ g' bs, GConn.exec cfg (ops1 ++ [.flush]) = some g' ∧ g'.flushes = g1.flushes ++ [bs] ∧
    (∀ b ∈ bs, b.length ≤ 1300) ∧ g'.cl.connection_status = g1.cl.connection_status :=
  src_flush_fits cfg ops1 g1 grun1 (by decide +kernel)

/-- **`src_disconnected_absorbing` applied**: after the garbage the connection is disconnected; whatever follows (`ext`), the
    reason stays `PacketDeserialization`, both later flushes are empty, both later receives return `None` -/
example : (RenetClient.is_disconnected gE.cl : Res Empty Bool) = .ok true ∧
    (RenetClient.disconnect_reason gE.cl : Res Empty _) = RenetClient.disconnect_reason gH.cl ∧
    (∃ k, gE.flushes = gH.flushes ++ List.replicate k []) ∧
    ∃ rs, gE.recvd = gH.recvd ++ rs ∧ ∀ x ∈ rs, x.2 = none :=
  src_disconnected_absorbing cfg opsH ext gH gE grunH grunE inRange (by decide +kernel)

/-- **`src_memory_within_budget` applied** to the state after the live phase (two messages unacknowledged, two partial
    reassemblies) -/
example : ∀ ch s, RustSem.Map.find? g1.cl.send_reliable_channels ch = some s → s.memory_usage_bytes ≤ s.max_memory_usage_bytes :=
  (src_memory_within_budget cfg ops1 g1 grun1 (by decide +kernel)).1
example : (RustSem.Map.find? g1.cl.send_reliable_channels 0).map (fun s => (s.memory_usage_bytes, s.max_memory_usage_bytes)) =
      some (1204, 10000) ∧
    (RustSem.Map.find? g1.cl.receive_reliable_channels 1).map (fun r => (r.memory_usage_bytes, r.max_memory_usage_bytes)) =
      some (2400, 10000) := by decide +kernel

/-- **`src_flush_budget` applied** to one more flush after the live phase -/
example : ∃ g' bs pk, GConn.exec cfg (ops1 ++ [.flush]) = some g' ∧ g'.flushes = g1.flushes ++ [bs] ∧
    payloadSum pk ≤ g1.cl.available_bytes_per_tick ∧
    pk.map Packet.sequence = List.range' g1.cl.packet_sequence pk.length ∧
    (bs = [] ∨ ∃ bs0, Conn.serialiseAll pk = .ok bs0 ∧ bs = bs0.map toNats) :=
  src_flush_budget cfg ops1 g1 grun1 (by decide +kernel)

end Ex

/-
  NOT transferred yet:
    * C08 (`C08.release_only_by_ack`, `slice_marked_only_by_ack`, `pending_acks_only_received` and the `…_never_releases`
      family) — needs `Conn.SendInv` along `MTr` runs (`C08.conn_*` step lemmas + the status setters) and reading
      `unacked_messages` / `sent_packets` / the decoded Ack through `reprSR` / `reprSentEntry` / `gdecodes_of_fromBytes`;
    * C15 / C15A (not early, never after the ack was processed) on the generated emission log;
    * C14 with the GENERATED decoder (`GDecodes`) applied to every returned datagram: needs the round trip
      `Packet.fromBytes (toBytes p) = p` for the (well-formed) packets of a flush; `src_flush_budget` states the budget in the
      model theorem's own formulation (the returned datagrams ARE `Conn.serialiseAll pk`, `payloadSum pk ≤ available_bytes_per_tick`);
    * a whole-trace form of C13's "status unchanged by a flush" (the one-flush form is `src_flush_fits`; the datagram bound over
      the whole trace is `src_datagrams_fit`);
    * "panics only on an invalid channel id" as an equivalence for a single call from an arbitrary reachable state
      (`src_never_panics` covers whole traces with configured channel ids; `Ex` shows the panic for an unknown id).
  DONE LATER (round 20), elsewhere: C08 → Props/SrcPropsConnTraceC08.lean; C15 / C15A and C14 through the generated decoder →
  Props/SrcPropsConnTraceC15.lean; whole-trace status causes and the panic equivalence → Props/SrcPropsConnTraceMore.lean.
-/

end RenetVerif.SrcPropsConnTrace
