/-
  Source tie, group NcServerRecv: `renetcode/src/server.rs` `find_client_mut_by_addr`,
  `NetcodeServer::{new, handle_connection_request, process_packet_internal, process_packet}` ↔
  `findClientByAddr`, `NetcodeServer.{new, handleConnectionRequest, processPacketInternal, processPacket}` of
  `Netcode/Server.lean`.  The AEAD is a parameter on both sides (see `SrcTieNcCodec.lean`); with the groups NcServerTypes,
  NcServerQuery, TokenTable, NcServerSend the whole of `NetcodeServer` is under the tie.

  * `NetcodeServer::new` calls `generate_random_bytes()` (crypto.rs, external): the generated definition takes the fresh
    bytes as the explicit parameter `rand1` (manifest `RANDOM_SOURCES`; the model takes `challengeKey`).
    `ServerConfig` is passed by value; `ServerAuthentication` ↔ the model's `secure` flag + private key (`reprAuth`).
  * `find_client_mut_by_addr` is a finder returning `Option<(usize, &mut Connection)>`: the generated definition returns
    the position; `if let Some((slot, client)) = ..` binds `slot` to it and makes `client` an alias of `clients[slot]`.
  * `process_packet_internal(&mut self, addr, buffer: &'a mut [u8])` decrypts in place: the buffer is returned with the
    result (also inside an `Err`); `ServerResult::Payload`'s `&'a [u8]` (a slice of `buffer`) and the `&'s mut [u8]`
    payloads (slices of `self.out`) are by value (manifest `BORROWED_FIELDS_OK`).  The theorems leave the buffer's and
    the scratch buffer's contents existentially quantified (`∃ out' buf'`, `out'.length = NETCODE_MAX_PACKET_BYTES`);
    the `_len` variants add `buf'.length = buffer.length` (decrypting in place keeps the buffer's length — used by the
    transport's receive loop).
  * `Packet::decode(buffer, .., Some(&client.receive_key), Some(&mut client.replay_protection))?` with `client` an alias
    of an indexed / map element: the callee's `Err` state is written back into that element (the translator reads the
    intermediate places into temporaries before the call: the reads the argument evaluation performs anyway).
  * Hypotheses: `a.Laws` (lengths only); `out.length = NETCODE_MAX_PACKET_BYTES`; the connect-token entry table is not
    empty (`new` makes 2048 entries; needed by `find_or_add_connect_token_entry`, group TokenTable);
    `buffer.length + 16 < 2^64`.  `handle_connection_request` alone also needs its `data: [u8; 1024]` to have that length
    (inside `process_packet_internal` this follows from `Packet::read`: lemma `decode_wf`).
-/
import RenetVerif.Lemmas.SrcEquiv.NcServerRecv
set_option maxRecDepth 10000
namespace RenetVerif.SrcTie
open RenetVerif RenetVerif.SrcEquiv RenetVerif.RustSem RenetVerif.Netcode
open Src.renetcode.server

/-- the finder: the slot of the first connected client with this address -/
theorem nc_find_client_mut_by_addr {ε : Type} (clients : List (Option Netcode.Connection)) (addr : Addr) :
    (find_client_mut_by_addr (clients.map (Option.map reprNConn)) (reprAddr addr) : Res ε _)
      = .ok ((findClientByAddr clients addr).map (·.1)) := find_client_mut_by_addr_eq clients addr
/-- … and that slot holds the client the model returns -/
theorem nc_find_client_by_addr_slot {clients : List (Option Netcode.Connection)} {addr : Addr} {i : Nat} {c : Netcode.Connection}
    (h : findClientByAddr clients addr = some (i, c)) : clients[i]? = some (some c) := find_addr_some h

/-- `NetcodeServer::new`: panics above `NETCODE_MAX_CLIENTS`; `max_clients` empty slots, 2048 empty token entries, no pending
    client, `global_sequence = 1 << 63`, zeroed scratch buffer, the given random bytes as challenge key -/
theorem nc_server_new {ε : Type} (ct mc pid : Nat) (addrs : List Addr) (secure : Bool) (pk ck : Bytes) :
    SameOutcome (Src.renetcode.server.NetcodeServer.new ⟨ct, mc, pid, addrs.map reprAddr, reprAuth secure pk⟩ (toNats ck) : Res ε _)
      (mapRes (reprNS (List.replicate C.NETCODE_MAX_PACKET_BYTES 0)) (fun e => nomatch e)
        (Netcode.NetcodeServer.new ct mc pid addrs secure pk ck)) := ns_new_eq ct mc pid addrs secure pk ck

/-- `handle_connection_request`: version / protocol / expiry checks, token decode, host list (secure servers only),
    already-connected and pending-limit checks, token-entry table, `ConnectionDenied` when full, else challenge + (re)started
    pending connection; every `Err` with the state it leaves behind. -/
theorem nc_server_handle_connection_request (a : AEAD) (hl : a.Laws) (out : List Nat)
    (hout : out.length = C.NETCODE_MAX_PACKET_BYTES) (s : Netcode.NetcodeServer) (hent : 0 < s.connectTokenEntries.length)
    (addr : Addr) (v : Bytes) (pid exp : Nat) (x d : Bytes) (hd : d.length = C.NETCODE_CONNECT_TOKEN_PRIVATE_BYTES) :
    SrvOut (s.handleConnectionRequest a addr v pid exp x d)
      (@NetcodeServer.handle_connection_request (aeadOf a) (reprNS out s) (reprAddr addr) (toNats v) pid exp (toNats x) (toNats d)) :=
  ns_handle_connection_request_eq a hl out hout s hent addr v pid exp x d hd

/-- `process_packet_internal` for EVERY byte sequence from every address: connected client (replay window written back
    also on `Err`; Disconnect / Payload / KeepAlive), pending client (connection request restart, challenge response →
    `ClientConnected` in the first free slot or `ConnectionDenied`), unknown address (connection request only;
    `unreachable!` otherwise — never reached: `decode` without key only yields connection requests). -/
theorem nc_server_process_packet_internal (a : AEAD) (hl : a.Laws) (out : List Nat)
    (hout : out.length = C.NETCODE_MAX_PACKET_BYTES) (s : Netcode.NetcodeServer) (hent : 0 < s.connectTokenEntries.length)
    (addr : Addr) (buffer : Bytes) (hbl : buffer.length + 16 < 2 ^ 64) :
    RecvOut (s.processPacketInternal a addr buffer)
      (@NetcodeServer.process_packet_internal (aeadOf a) (reprNS out s) (reprAddr addr) (toNats buffer)) :=
  ns_process_packet_internal_eq a hl out hout s hent addr buffer hbl

/-- `process_packet`: an error becomes `ServerResult::None` and keeps the state changes made before it -/
theorem nc_server_process_packet {ε : Type} (a : AEAD) (hl : a.Laws) (out : List Nat)
    (hout : out.length = C.NETCODE_MAX_PACKET_BYTES) (s : Netcode.NetcodeServer) (hent : 0 < s.connectTokenEntries.length)
    (addr : Addr) (buffer : Bytes) (hbl : buffer.length + 16 < 2 ^ 64) :
    PktOut (s.processPacket a addr buffer)
      (@NetcodeServer.process_packet (aeadOf a) ε (reprNS out s) (reprAddr addr) (toNats buffer)) :=
  ns_process_packet_eq a hl out hout s hent addr buffer hbl
theorem nc_server_process_packet_internal_len (a : AEAD) (hl : a.Laws) (out : List Nat)
    (hout : out.length = C.NETCODE_MAX_PACKET_BYTES) (s : Netcode.NetcodeServer) (hent : 0 < s.connectTokenEntries.length)
    (addr : Addr) (buffer : Bytes) (hbl : buffer.length + 16 < 2 ^ 64) :
    RecvOutL buffer.length (s.processPacketInternal a addr buffer)
      (@NetcodeServer.process_packet_internal (aeadOf a) (reprNS out s) (reprAddr addr) (toNats buffer)) :=
  ns_process_packet_internal_eqL a hl out hout s hent addr buffer hbl
theorem nc_server_process_packet_len {ε : Type} (a : AEAD) (hl : a.Laws) (out : List Nat)
    (hout : out.length = C.NETCODE_MAX_PACKET_BYTES) (s : Netcode.NetcodeServer) (hent : 0 < s.connectTokenEntries.length)
    (addr : Addr) (buffer : Bytes) (hbl : buffer.length + 16 < 2 ^ 64) :
    PktOutL buffer.length (s.processPacket a addr buffer)
      (@NetcodeServer.process_packet (aeadOf a) ε (reprNS out s) (reprAddr addr) (toNats buffer)) :=
  ns_process_packet_eqL a hl out hout s hent addr buffer hbl

/-! ### the generated definitions on concrete values (toy AEAD: the tag is 16 zero bytes) -/

example : (match (Src.renetcode.server.NetcodeServer.new ⟨5, 2, 9, [.v4 [1, 2, 3, 4] 5], .Unsecure⟩ [1, 2, 3] : Res Empty _) with
    | .ok s => (s.clients, s.connect_token_entries.length, s.global_sequence, s.challenge_key, s.out.length, s.secure,
        s.connect_key.length) == ([none, none], 2048, 2 ^ 63, [1, 2, 3], 1400, false, 32)
    | _ => false) = true := by decide +kernel
example : (Src.renetcode.server.NetcodeServer.new ⟨5, 1025, 9, [], .Unsecure⟩ [1, 2, 3] : Res Empty _) =
    .panic "renetcode/src/server.rs:NetcodeServer::new: panic!('The max clients allowed is {}', NETCODE_MAX_CLIENTS)" := by
  decide +kernel

/-- client 4, connected from 10.0.0.1:7, in slot 1 of 3 (fresh replay window), t = 4 s -/
def exRConn : SConnection :=
  ⟨true, 4, .Connected, List.replicate 32 1, List.replicate 32 2, [3], .v4 [10, 0, 0, 1] 7, 0, 0, 5, 6, 0, reprRP RP.new⟩
def exRSrv : SNetcodeServer :=
  ⟨[none, some exRConn, none], [], [none, none], 9, [], 3, 0, [], [], 4000000000, 0, false, [7]⟩
/-- what an example shows of the result: the `ServerResult`, per slot (state, last receive time, replay high-water mark) -/
def exShow (r : Res Empty (SNetcodeServer × List Nat × SServerResult)) :
    Option (SServerResult × List (Option (Src.renetcode.server.ConnectionState × Nat × Nat))) :=
  match r with
  | .ok (s, _, r) => some (r, s.clients.map (Option.map fun c => (c.state, c.last_packet_received_time,
      c.replay_protection.most_recent_sequence)))
  | _ => none

example : (find_client_mut_by_addr exRSrv.clients (.v4 [10, 0, 0, 1] 7) : Res Empty _) = .ok (some 1) := by decide +kernel
/-- a `Payload` packet (sequence 6) from the connected client: delivered, receive time and replay window advance -/
example : exShow (@NetcodeServer.process_packet (aeadOf AEAD.toy) Empty exRSrv (.v4 [10, 0, 0, 1] 7)
      ([21, 6, 9, 8, 7] ++ List.replicate 16 0)) =
    some (.Payload 4 [9, 8, 7], [none, some (.Connected, 4000000000, 6), none]) := by decide +kernel
/-- a `Disconnect` packet: the slot is emptied -/
example : exShow (@NetcodeServer.process_packet (aeadOf AEAD.toy) Empty exRSrv (.v4 [10, 0, 0, 1] 7)
      ([22, 6] ++ List.replicate 16 0)) =
    some (.ClientDisconnected 4 (.v4 [10, 0, 0, 1] 7) none, [none, none, none]) := by decide +kernel
/-- too short (`PacketTooSmall`, swallowed) / an encrypted packet from an unknown address (`UnavailablePrivateKey`, swallowed) -/
example : exShow (@NetcodeServer.process_packet (aeadOf AEAD.toy) Empty exRSrv (.v4 [10, 0, 0, 1] 7) [21, 6, 9]) =
    some (.None, [none, some (.Connected, 0, 0), none]) := by decide +kernel
example : exShow (@NetcodeServer.process_packet (aeadOf AEAD.toy) Empty exRSrv (.v4 [10, 0, 0, 2] 7)
      ([21, 6, 9, 8, 7] ++ List.replicate 16 0)) =
    some (.None, [none, some (.Connected, 0, 0), none]) := by decide +kernel

end RenetVerif.SrcTie
