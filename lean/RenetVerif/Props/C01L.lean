/-
  C01 / C02 — LIVENESS halves, at SYSTEM level (the two-endpoint system of Lemmas/System.lean):

    C01 "Once the network delivers packets again and neither side has been disconnected, every submitted message is
         obtained within a bounded number of ticks."
    C02 "… once the network delivers again every submitted message is obtained within a bounded number of ticks."

  THE LOSSLESS ROUND.  For a reliable channel `ch` from A to B, a round is the operation list

      roundOps ch ks n  =  flushA ; deliverToB k (k ∈ ks) ; recvB ch  (n times)

  i.e. one `get_packets_to_send` of A, the network handing datagrams of `outA` to B, and B's application asking `n`
  times for a message.  `newIdx s` are the indices the datagrams of this flush get in `outA`.

  Hypotheses (all stated on the state `s` the round starts from; proofs and definitions in Lemmas/Liveness.lean):
    H1  `AllDue now resend unacked`     every entry of A's `unacked` is due: a small message was never sent or
                                        `now - last_sent ≥ resend_time`; for a sliced message every un-acknowledged slice.
                                        `due_after_update`: holds after `updA dt` with `dt ≥ resend_time` in every
                                        reachable state (time stamps never lie in the future: `Live.reach_stamped`).
    H2  `backlog unacked ≤ availAtTurn s.a ch`
                                        `backlog` = Σ small message lengths + SLICE_SIZE per un-acknowledged slice (the
                                        code accepts a slice only when `available_bytes ≥ SLICE_SIZE`);
                                        `availAtTurn` = what is left of `available_bytes_per_tick` when the channel loop
                                        reaches `ch` (computed by running the loop over the channels configured before it);
                                        for a single-channel configuration it is `cfg.budget` (`bounded_delivery_single`).
    H3  `Room (submitted ch) rB`        B's receive channel: `mem + Σ pend ≤ max_memory`, where a submitted message
                                        that has not arrived yet counts its length (small) or `num_slices * SLICE_SIZE`
                                        (sliced, no reassembly in progress: the reservation a NEW constructor makes;
                                        a reassembly in progress is already in `mem`) — the cost notion of C09's
                                        `refusal_only_over_budget`.
    H4  `∀ p ∈ flushPk s.a, OnlyCh ch p`  the flush carries only packets of channel `ch` and A's ack packet (automatic
                                        in a single-channel configuration; otherwise: the other channels are idle).
    counters: `CountersOK cfg s` (as in C01S) and `s.a.CountersOK` (C06: nothing reaches 2^62 in this flush).

  RESULTS.
    round_progress            H1+H2 for a prefix `pre` of the backlog: no panic, A stays live, and UNLESS B HAS BEEN
                              DISCONNECTED the first `j` submitted messages are obtained; `ks` may be any datagrams of
                              `outA` (stale ones, repetitions, any order) as long as those of this flush are among them.
                              This is the clause of C01 as worded ("neither side has been disconnected").
    round_delivers            H1–H4, whole backlog: B is NOT disconnected and `obtained ch = submitted ch`.
    round_live                H3+H4: the round does not disconnect B.
    round_delivers_unordered(_live)   ReliableUnordered: `obtained ch` is a permutation of `submitted ch`.
    due_after_update, bounded_delivery, bounded_delivery_single
                              the bound: ONE lossless tick after the resend time has elapsed, when the budget covers
                              the backlog.
    progress_per_tick_partial, nothing_lost
                              budget covers only the entries with the smallest ids: those are delivered this tick;
                              every submitted message is still in A's `unacked` or has arrived at B.

    acks_release, acks_release_after_round(_all)
                              the way back: B's next flush ends with an ack packet carrying exactly its pending list
                              (C08); when A processes it, every covered packet still in A's sent table releases what it
                              carried (`Eff`).  After a round that covered the entries `pre` of the backlog, A's
                              `unacked` on `ch` holds only entries of the uncovered rest — EMPTY when the whole backlog
                              was covered — so delivered messages do not use up the budget of later ticks (no livelock).
                              Extra hypothesis: fewer than ACK_RANGE_CAP = 64 pending ack ranges at B
                              (`s.b.pendingAcks.length + ks.length < ACK_RANGE_CAP`): beyond the cap the Rust code drops
                              the oldest range, i.e. forgets to acknowledge.
                              `acks_release_next_round` is the same with the pending-list fact as an explicit hypothesis.

  NOT proved here: a closed k-tick bound for budget < backlog.  The ingredients are: `progress_per_tick_partial` (each
  lossless tick delivers the entries with the smallest ids that the budget covers), `nothing_lost`, and
  `acks_release_after_round` (the acknowledged prefix frees the budget for the rest); they are not iterated into a
  statement about ⌈backlog / budget⌉ ticks.  Without acknowledgements reaching A there is in general no such bound: the
  unacknowledged entries with the smallest ids are retransmitted first on every tick.
  H3 is necessary and is NOT implied by the sender's own admission control: see `ExMem` below.
-/
import RenetVerif.Lemmas.Liveness
namespace RenetVerif.C01L
open RenetVerif C RenetVerif.System RenetVerif.Live

/-- **H1 holds after waiting.** -/
theorem due_after_update (cfg : Cfg) (ops : List SysOp) (s : Sys) (hr : (Sys.init cfg).run ops = some s)
    (ch : Nat) (sA : SendRel) (hfA : SMap.find? s.a.sendRel ch = some sA) (dt : Nat) (hdt : sA.resend ≤ dt)
    (su : Sys) (hsu : s.step (.updA dt) = some su) :
    SMap.find? su.a.sendRel ch = some sA ∧ AllDue su.a.now sA.resend sA.unacked :=
  Live.due_after_update cfg ops s hr ch sA hfA dt hdt su hsu

/-- **C01 liveness as worded: one lossless round, "unless B has been disconnected" (prefix form).** -/
theorem round_progress (cfg : Cfg) (ops : List SysOp) (s : Sys) (hr : (Sys.init cfg).run ops = some s)
    (hc : CountersOK cfg s) (hcA : s.a.CountersOK) (hda : s.a.isDisconnected = false)
    (ch : Nat) (ho : cfg.Ordered ch) (sA : SendRel) (hfA : SMap.find? s.a.sendRel ch = some sA)
    (pre post : SMap Unacked) (hun : sA.unacked = pre ++ post) (j : Nat) (hj : ∀ x ∈ post, j ≤ x.1)
    (hjL : j ≤ (s.submitted ch).length)
    (H1 : AllDue s.a.now sA.resend pre) (H2 : backlog pre ≤ availAtTurn s.a ch)
    (ks : List Nat) (hks1 : ∀ k ∈ newIdx s, k ∈ ks) (hks2 : ∀ k ∈ ks, k < s.outA.length + (flushPk s.a).length)
    (n : Nat) (hn : j ≤ (s.obtained ch).length + n) :
    ∃ t u, s.run (SysOp.flushA :: ks.map SysOp.deliverToB) = some t ∧ t.run (List.replicate n (SysOp.recvB ch)) = some u ∧
      s.run (roundOps ch ks n) = some u ∧
      u.submitted = s.submitted ∧ u.a.isDisconnected = false ∧ u.b.isDisconnected = t.b.isDisconnected ∧
      (u.b.isDisconnected = false → (s.submitted ch).take j <+: u.obtained ch ∧ u.obtained ch <+: s.submitted ch) :=
  Live.round_progress cfg ops s hr hc hcA hda ch ho sA hfA pre post hun j hj hjL H1 H2 ks hks1 hks2 n hn

/-- the whole backlog: unless B has been disconnected, everything submitted is obtained, in order -/
theorem round_delivers_unless_disconnected (cfg : Cfg) (ops : List SysOp) (s : Sys) (hr : (Sys.init cfg).run ops = some s)
    (hc : CountersOK cfg s) (hcA : s.a.CountersOK) (hda : s.a.isDisconnected = false)
    (ch : Nat) (ho : cfg.Ordered ch) (sA : SendRel) (hfA : SMap.find? s.a.sendRel ch = some sA)
    (H1 : AllDue s.a.now sA.resend sA.unacked) (H2 : backlog sA.unacked ≤ availAtTurn s.a ch)
    (ks : List Nat) (hks1 : ∀ k ∈ newIdx s, k ∈ ks) (hks2 : ∀ k ∈ ks, k < s.outA.length + (flushPk s.a).length)
    (n : Nat) (hn : (s.submitted ch).length ≤ (s.obtained ch).length + n) :
    ∃ u, s.run (roundOps ch ks n) = some u ∧ u.a.isDisconnected = false ∧ u.submitted ch = s.submitted ch ∧
      (u.b.isDisconnected = false → u.obtained ch = s.submitted ch) := by
  obtain ⟨t, u, -, -, hu, e1, e2, -, hcon⟩ := Live.round_progress cfg ops s hr hc hcA hda ch ho sA hfA sA.unacked []
    (by simp) (s.submitted ch).length (fun _ h => by cases h) (Nat.le_refl _) H1 H2 ks hks1 hks2 n hn
  refine ⟨u, hu, e2, by rw [e1], ?_⟩
  intro hl
  obtain ⟨p1, p2⟩ := hcon hl
  rw [List.take_length] at p1
  exact p2.eq_of_length (Nat.le_antisymm p2.length_le p1.length_le)

/-- **H3 + H4: the round does not disconnect B** (any channel kind). -/
theorem round_live (cfg : Cfg) (ops : List SysOp) (s : Sys) (hr : (Sys.init cfg).run ops = some s)
    (hc : CountersOK cfg s) (hcA : s.a.CountersOK) (hda : s.a.isDisconnected = false) (hdb : s.b.isDisconnected = false)
    (ch : Nat) (sA : SendRel) (hfA : SMap.find? s.a.sendRel ch = some sA)
    (rB : RecvRel) (hfB : SMap.find? s.b.recvRel ch = some rB)
    (H3 : Room (s.submitted ch) rB) (H4 : ∀ p ∈ flushPk s.a, OnlyCh ch p)
    (ks : List Nat) (hks : ∀ k ∈ ks, k ∈ newIdx s) (t : Sys)
    (hrun : s.run (SysOp.flushA :: ks.map SysOp.deliverToB) = some t) : t.b.isDisconnected = false :=
  Live.round_live cfg ops s hr hc hcA hda hdb ch sA hfA rB hfB H3 H4 ks hks t hrun

/-- **C01 liveness: one lossless round delivers everything (ReliableOrdered), H1–H4.** -/
theorem round_delivers (cfg : Cfg) (ops : List SysOp) (s : Sys) (hr : (Sys.init cfg).run ops = some s)
    (hc : CountersOK cfg s) (hcA : s.a.CountersOK) (hda : s.a.isDisconnected = false) (hdb : s.b.isDisconnected = false)
    (ch : Nat) (ho : cfg.Ordered ch) (sA : SendRel) (hfA : SMap.find? s.a.sendRel ch = some sA)
    (rB : RecvRel) (hfB : SMap.find? s.b.recvRel ch = some rB)
    (H1 : AllDue s.a.now sA.resend sA.unacked) (H2 : backlog sA.unacked ≤ availAtTurn s.a ch)
    (H3 : Room (s.submitted ch) rB) (H4 : ∀ p ∈ flushPk s.a, OnlyCh ch p)
    (ks : List Nat) (hks1 : ∀ k ∈ newIdx s, k ∈ ks) (hks2 : ∀ k ∈ ks, k ∈ newIdx s)
    (n : Nat) (hn : (s.submitted ch).length ≤ (s.obtained ch).length + n) :
    ∃ u, s.run (roundOps ch ks n) = some u ∧ u.a.isDisconnected = false ∧ u.b.isDisconnected = false ∧
      u.submitted ch = s.submitted ch ∧ u.obtained ch = s.submitted ch :=
  Live.round_delivers cfg ops s hr hc hcA hda hdb ch ho sA hfA rB hfB H1 H2 H3 H4 ks hks1 hks2 n hn

/-- **C02 liveness: one lossless round (ReliableUnordered), "unless B has been disconnected".** -/
theorem round_delivers_unordered (cfg : Cfg) (ops : List SysOp) (s : Sys) (hr : (Sys.init cfg).run ops = some s)
    (hc : CountersOK cfg s) (hcA : s.a.CountersOK) (hda : s.a.isDisconnected = false)
    (ch : Nat) (ho : cfg.Unordered ch) (sA : SendRel) (hfA : SMap.find? s.a.sendRel ch = some sA)
    (H1 : AllDue s.a.now sA.resend sA.unacked) (H2 : backlog sA.unacked ≤ availAtTurn s.a ch)
    (ks : List Nat) (hks1 : ∀ k ∈ newIdx s, k ∈ ks) (hks2 : ∀ k ∈ ks, k < s.outA.length + (flushPk s.a).length)
    (n : Nat) (hn : (s.submitted ch).length ≤ (s.obtained ch).length + n) :
    ∃ t u, s.run (SysOp.flushA :: ks.map SysOp.deliverToB) = some t ∧ t.run (List.replicate n (SysOp.recvB ch)) = some u ∧
      s.run (roundOps ch ks n) = some u ∧
      u.submitted = s.submitted ∧ u.a.isDisconnected = false ∧ u.b.isDisconnected = t.b.isDisconnected ∧
      (u.b.isDisconnected = false → (u.obtained ch).Perm (s.submitted ch)) :=
  Live.round_delivers_unordered cfg ops s hr hc hcA hda ch ho sA hfA H1 H2 ks hks1 hks2 n hn

/-- … and with H3/H4: every submitted message is obtained exactly once -/
theorem round_delivers_unordered_live (cfg : Cfg) (ops : List SysOp) (s : Sys) (hr : (Sys.init cfg).run ops = some s)
    (hc : CountersOK cfg s) (hcA : s.a.CountersOK) (hda : s.a.isDisconnected = false) (hdb : s.b.isDisconnected = false)
    (ch : Nat) (ho : cfg.Unordered ch) (sA : SendRel) (hfA : SMap.find? s.a.sendRel ch = some sA)
    (rB : RecvRel) (hfB : SMap.find? s.b.recvRel ch = some rB)
    (H1 : AllDue s.a.now sA.resend sA.unacked) (H2 : backlog sA.unacked ≤ availAtTurn s.a ch)
    (H3 : Room (s.submitted ch) rB) (H4 : ∀ p ∈ flushPk s.a, OnlyCh ch p)
    (ks : List Nat) (hks1 : ∀ k ∈ newIdx s, k ∈ ks) (hks2 : ∀ k ∈ ks, k ∈ newIdx s)
    (n : Nat) (hn : (s.submitted ch).length ≤ (s.obtained ch).length + n) :
    ∃ u, s.run (roundOps ch ks n) = some u ∧ u.a.isDisconnected = false ∧ u.b.isDisconnected = false ∧
      u.submitted ch = s.submitted ch ∧ (u.obtained ch).Perm (s.submitted ch) :=
  Live.round_delivers_unordered_live cfg ops s hr hc hcA hda hdb ch ho sA hfA rB hfB H1 H2 H3 H4 ks hks1 hks2 n hn

/-- **The bound: ONE lossless tick after the resend time has elapsed.** -/
theorem bounded_delivery (cfg : Cfg) (ops : List SysOp) (s : Sys) (hr : (Sys.init cfg).run ops = some s)
    (hda : s.a.isDisconnected = false) (hdb : s.b.isDisconnected = false)
    (ch : Nat) (ho : cfg.Ordered ch) (sA : SendRel) (hfA : SMap.find? s.a.sendRel ch = some sA)
    (rB : RecvRel) (hfB : SMap.find? s.b.recvRel ch = some rB)
    (dt : Nat) (hdt : sA.resend ≤ dt) (su : Sys) (hsu : s.step (.updA dt) = some su)
    (hc : CountersOK cfg su) (hcA : su.a.CountersOK)
    (H2 : backlog sA.unacked ≤ availAtTurn su.a ch)
    (H3 : Room (s.submitted ch) rB) (H4 : ∀ p ∈ flushPk su.a, OnlyCh ch p)
    (ks : List Nat) (hks1 : ∀ k ∈ newIdx su, k ∈ ks) (hks2 : ∀ k ∈ ks, k ∈ newIdx su)
    (n : Nat) (hn : (s.submitted ch).length ≤ (s.obtained ch).length + n) :
    ∃ u, s.run (SysOp.updA dt :: roundOps ch ks n) = some u ∧ u.a.isDisconnected = false ∧ u.b.isDisconnected = false ∧
      u.submitted ch = s.submitted ch ∧ u.obtained ch = s.submitted ch :=
  Live.bounded_delivery cfg ops s hr hda hdb ch ho sA hfA rB hfB dt hdt su hsu hc hcA H2 H3 H4 ks hks1 hks2 n hn

/-- the same for a configuration whose only A → B channel is the ReliableOrdered channel `ch`: H2 is
    `backlog ≤ available_bytes_per_tick`, H4 is automatic, the datagrams are handed over in emission order -/
theorem bounded_delivery_single (cfg : Cfg) (ops : List SysOp) (s : Sys) (hr : (Sys.init cfg).run ops = some s)
    (hda : s.a.isDisconnected = false) (hdb : s.b.isDisconnected = false)
    (ch : Nat) (hsingle : Single cfg ch) (sA : SendRel) (hfA : SMap.find? s.a.sendRel ch = some sA)
    (rB : RecvRel) (hfB : SMap.find? s.b.recvRel ch = some rB)
    (dt : Nat) (hdt : sA.resend ≤ dt) (su : Sys) (hsu : s.step (.updA dt) = some su)
    (hc : CountersOK cfg su) (hcA : su.a.CountersOK)
    (H2 : backlog sA.unacked ≤ cfg.budget) (H3 : Room (s.submitted ch) rB)
    (n : Nat) (hn : (s.submitted ch).length ≤ (s.obtained ch).length + n) :
    ∃ u, s.run (SysOp.updA dt :: roundOps ch (newIdx su) n) = some u ∧ u.a.isDisconnected = false ∧
      u.b.isDisconnected = false ∧ u.submitted ch = s.submitted ch ∧ u.obtained ch = s.submitted ch :=
  Live.bounded_delivery_single cfg ops s hr hda hdb ch hsingle sA hfA rB hfB dt hdt su hsu hc hcA H2 H3 n hn

/-- **Budget covers only part of the backlog: monotone progress per tick.** -/
theorem progress_per_tick_partial (cfg : Cfg) (ops : List SysOp) (s : Sys) (hr : (Sys.init cfg).run ops = some s)
    (hda : s.a.isDisconnected = false)
    (ch : Nat) (ho : cfg.Ordered ch) (sA : SendRel) (hfA : SMap.find? s.a.sendRel ch = some sA)
    (dt : Nat) (hdt : sA.resend ≤ dt) (su : Sys) (hsu : s.step (.updA dt) = some su)
    (hc : CountersOK cfg su) (hcA : su.a.CountersOK)
    (pre post : SMap Unacked) (hun : sA.unacked = pre ++ post) (j : Nat) (hj : ∀ x ∈ post, j ≤ x.1)
    (hjL : j ≤ (s.submitted ch).length) (H2 : backlog pre ≤ availAtTurn su.a ch)
    (ks : List Nat) (hks1 : ∀ k ∈ newIdx su, k ∈ ks) (hks2 : ∀ k ∈ ks, k < su.outA.length + (flushPk su.a).length)
    (n : Nat) (hn : j ≤ (s.obtained ch).length + n) :
    ∃ u, s.run (SysOp.updA dt :: roundOps ch ks n) = some u ∧ u.a.isDisconnected = false ∧
      u.submitted ch = s.submitted ch ∧ s.obtained ch <+: u.obtained ch ∧
      (u.b.isDisconnected = false → (s.submitted ch).take j <+: u.obtained ch ∧ u.obtained ch <+: s.submitted ch) :=
  Live.progress_per_tick_partial cfg ops s hr hda ch ho sA hfA dt hdt su hsu hc hcA pre post hun j hj hjL H2 ks hks1 hks2 n hn

/-- **Nothing is lost**: a submitted message is still stored by A (and will be retransmitted) or has arrived at B. -/
theorem nothing_lost (cfg : Cfg) (ops : List SysOp) (s : Sys) (hr : (Sys.init cfg).run ops = some s)
    (hc : CountersOK cfg s) (hdb : s.b.isDisconnected = false)
    (ch : Nat) (sA : SendRel) (hfA : SMap.find? s.a.sendRel ch = some sA)
    (rB : RecvRel) (hfB : SMap.find? s.b.recvRel ch = some rB) (id : Nat) (hid : id < (s.submitted ch).length) :
    (∃ u, SMap.find? sA.unacked id = some u ∧ u.msg = (s.submitted ch)[id]) ∨ Have rB id :=
  Live.nothing_lost cfg ops s hr hc hdb ch sA hfA rB hfB id hid

/-- **The acknowledgement round**: `flushB ; deliverToA (ackIdx u)`. -/
theorem acks_release (cfg : Cfg) (ops : List SysOp) (u : Sys) (hr : (Sys.init cfg).run ops = some u)
    (hda : u.a.isDisconnected = false) (hdb : u.b.isDisconnected = false) (hcB : u.b.CountersOK)
    (hne : u.b.pendingAcks ≠ []) :
    ∃ v, u.run [.flushB, .deliverToA (ackIdx u)] = some v ∧ v.a.isDisconnected = false ∧
      v.submitted = u.submitted ∧ v.obtained = u.obtained ∧ ConnAckMono u.a v.a ∧ v.a.SendInv ∧
      ∀ seq t info, Acks.Mem seq u.b.pendingAcks → SMap.find? u.a.sent seq = some (t, info) → Eff v.a info :=
  Live.acks_release cfg ops u hr hda hdb hcB hne

/-- **No livelock of the budget by delivered messages** — with the pending-list fact `hpend` as a hypothesis. -/
theorem acks_release_next_round (cfg : Cfg) (ops : List SysOp) (s : Sys) (hr : (Sys.init cfg).run ops = some s)
    (hc : CountersOK cfg s) (hcA : s.a.CountersOK) (hda : s.a.isDisconnected = false)
    (ch : Nat) (sA : SendRel) (hfA : SMap.find? s.a.sendRel ch = some sA)
    (H1 : AllDue s.a.now sA.resend sA.unacked) (H2 : backlog sA.unacked ≤ availAtTurn s.a ch)
    (ks : List Nat) (n : Nat) (u : Sys) (hu : s.run (roundOps ch ks n) = some u)
    (hdb : u.b.isDisconnected = false) (hcB : u.b.CountersOK) (hne : u.b.pendingAcks ≠ [])
    (hpend : ∀ p ∈ flushPk s.a, isRel p = true → ∃ r ∈ u.b.pendingAcks, r.1 ≤ p.sequence ∧ p.sequence < r.2) :
    ∃ v, u.run [.flushB, .deliverToA (ackIdx u)] = some v ∧ v.a.isDisconnected = false ∧
      ∃ sA', SMap.find? v.a.sendRel ch = some sA' ∧ sA'.unacked = [] :=
  Live.acks_release_next_round cfg ops s hr hc hcA hda ch sA hfA H1 H2 ks n u hu hdb hcB hne hpend

/-- **No livelock of the budget by delivered messages** (prefix form): after the round and the acknowledgement round,
    only entries of the uncovered rest `post` are left in A's `unacked`. -/
theorem acks_release_after_round (cfg : Cfg) (ops : List SysOp) (s : Sys) (hr : (Sys.init cfg).run ops = some s)
    (hc : CountersOK cfg s) (hcA : s.a.CountersOK) (hda : s.a.isDisconnected = false)
    (ch : Nat) (sA : SendRel) (hfA : SMap.find? s.a.sendRel ch = some sA)
    (pre post : SMap Unacked) (hun : sA.unacked = pre ++ post)
    (H1 : AllDue s.a.now sA.resend pre) (H2 : backlog pre ≤ availAtTurn s.a ch)
    (ks : List Nat) (hks1 : ∀ k ∈ newIdx s, k ∈ ks) (n : Nat) (u : Sys) (hu : s.run (roundOps ch ks n) = some u)
    (hdb : u.b.isDisconnected = false) (hcB : u.b.CountersOK) (hne : u.b.pendingAcks ≠ [])
    (hcap : s.b.pendingAcks.length + ks.length < ACK_RANGE_CAP) :
    ∃ v, u.run [.flushB, .deliverToA (ackIdx u)] = some v ∧ v.a.isDisconnected = false ∧
      ∃ sA', SMap.find? v.a.sendRel ch = some sA' ∧ ∀ x ∈ sA'.unacked, ∃ u0, (x.1, u0) ∈ post :=
  Live.acks_release_after_round cfg ops s hr hc hcA hda ch sA hfA pre post hun H1 H2 ks hks1 n u hu hdb hcB hne hcap

/-- the whole backlog: afterwards A has nothing left to retransmit on `ch` -/
theorem acks_release_after_round_all (cfg : Cfg) (ops : List SysOp) (s : Sys) (hr : (Sys.init cfg).run ops = some s)
    (hc : CountersOK cfg s) (hcA : s.a.CountersOK) (hda : s.a.isDisconnected = false)
    (ch : Nat) (sA : SendRel) (hfA : SMap.find? s.a.sendRel ch = some sA)
    (H1 : AllDue s.a.now sA.resend sA.unacked) (H2 : backlog sA.unacked ≤ availAtTurn s.a ch)
    (ks : List Nat) (hks1 : ∀ k ∈ newIdx s, k ∈ ks) (n : Nat) (u : Sys) (hu : s.run (roundOps ch ks n) = some u)
    (hdb : u.b.isDisconnected = false) (hcB : u.b.CountersOK) (hne : u.b.pendingAcks ≠ [])
    (hcap : s.b.pendingAcks.length + ks.length < ACK_RANGE_CAP) :
    ∃ v, u.run [.flushB, .deliverToA (ackIdx u)] = some v ∧ v.a.isDisconnected = false ∧
      ∃ sA', SMap.find? v.a.sendRel ch = some sA' ∧ sA'.unacked = [] :=
  Live.acks_release_after_round_all cfg ops s hr hc hcA hda ch sA hfA H1 H2 ks hks1 n u hu hdb hcB hne hcap

/-! ## decidability of the hypotheses (to check them on concrete states by evaluation) -/

instance (now resend : Nat) (u : Unacked) : Decidable (EntryDue now resend u) := by
  cases u <;> unfold EntryDue <;> infer_instance

instance (now resend : Nat) (un : SMap Unacked) : Decidable (AllDue now resend un) := by
  unfold AllDue; infer_instance

instance (L : List Bytes) (r : RecvRel) : Decidable (Room L r) := by unfold Room; infer_instance

instance (ch : Nat) (p : Packet) : Decidable (OnlyCh ch p) := by
  cases p <;> unfold OnlyCh <;> infer_instance

/-! ## non-vacuity: concrete runs evaluated by the kernel

  `Ex` — one ReliableOrdered channel (id 0) each way, 60000 bytes per tick, resend time 100 ns.  A submits a 3-byte
  message and a 1300-byte message (two slices) and flushes (`outA[0..2]`); THE WHOLE FLUSH IS LOST.  State `s`.
  Then `updA 1000` (state `su`), `flushA` (`outA[3..5]`), delivery of `outA[3]`, `outA[4]`, `outA[5]`, two
  `receive_message` calls: `obtained = submitted`. -/
namespace Ex

def cfg : Cfg := ⟨60000, [⟨0, .ordered, 100000, 100⟩], [⟨0, .ordered, 100000, 100⟩]⟩
def m0 : Bytes := [1, 2, 3]
def m1 : Bytes := List.replicate 1200 7 ++ List.replicate 100 9

def ops : List SysOp := [.sendA 0 m0, .sendA 0 m1, .flushA]
def s : Sys := ((Sys.init cfg).run ops).getD (Sys.init cfg)
theorem run_s : (Sys.init cfg).run ops = some s := some_getD (by decide +kernel) _

def su : Sys := (s.step (.updA 1000)).getD s
theorem step_su : s.step (.updA 1000) = some su := some_getD (by decide +kernel) _

def sA : SendRel := (SMap.find? s.a.sendRel 0).getD (SendRel.new 0 0 0)
theorem find_sA : SMap.find? s.a.sendRel 0 = some sA := some_getD (by decide +kernel) _
def rB : RecvRel := (SMap.find? s.b.recvRel 0).getD (RecvRel.new 0 true)
theorem find_rB : SMap.find? s.b.recvRel 0 = some rB := some_getD (by decide +kernel) _

theorem facts :
    (su.a.packetSeq ≤ Varint.MAX + 1 ∧ (∀ c ∈ cfg.send, (su.submitted c.id).length ≤ Varint.MAX + 1) ∧
      (∀ c ∈ cfg.send, ∀ m ∈ su.submitted c.id, m.length ≤ MAX_NUM_SLICES * SLICE_SIZE) ∧
      (∀ c ∈ cfg.send, ∀ m ∈ su.submittedU c.id, m.length ≤ MAX_NUM_SLICES * SLICE_SIZE)) ∧
    (s.a.isDisconnected = false ∧ s.b.isDisconnected = false ∧ s.submitted 0 = [m0, m1] ∧ s.obtained 0 = [] ∧
      s.deliveredToB = [] ∧ s.outA.length = 3 ∧ sA.unacked.map (·.1) = [0, 1] ∧ newIdx su = [3, 4, 5]) := by
  decide +kernel

theorem counters : CountersOK cfg su := ⟨by decide, facts.1.1, facts.1.2.1, facts.1.2.2.1, facts.1.2.2.2⟩
theorem ordered0 : cfg.Ordered 0 := ⟨⟨_, List.mem_singleton.mpr rfl, rfl, rfl⟩, by decide⟩
theorem single0 : Single cfg 0 := ⟨_, _, rfl⟩
theorem countersA : su.a.CountersOK := CI.countersOK_of_b (by decide +kernel)

/-- H2, H3, H4 and the timer hypothesis of `bounded_delivery`, evaluated: the backlog is 3 + 2 * 1200 bytes -/
theorem hyps : backlog sA.unacked ≤ availAtTurn su.a 0 ∧ Room (s.submitted 0) rB ∧ (∀ p ∈ flushPk su.a, OnlyCh 0 p) ∧
    sA.resend ≤ 1000 ∧ backlog sA.unacked = 2403 ∧ availAtTurn su.a 0 = 60000 := by
  decide +kernel

/-- `bounded_delivery` applied: one tick after the resend time, everything is delivered -/
example : ∃ u, s.run (SysOp.updA 1000 :: roundOps 0 [3, 4, 5] 2) = some u ∧ u.a.isDisconnected = false ∧
    u.b.isDisconnected = false ∧ u.submitted 0 = s.submitted 0 ∧ u.obtained 0 = s.submitted 0 :=
  bounded_delivery cfg ops s run_s facts.2.1 facts.2.2.1 0 ordered0 sA find_sA rB find_rB 1000 hyps.2.2.2.1 su step_su
    counters countersA hyps.1 hyps.2.1 hyps.2.2.1 [3, 4, 5]
    (by rw [facts.2.2.2.2.2.2.2.2]; exact fun _ h => h) (by rw [facts.2.2.2.2.2.2.2.2]; exact fun _ h => h)
    2 (by rw [facts.2.2.2.1, facts.2.2.2.2.1]; decide)

/-- the same with the datagrams handed over in reverse order, one of them twice (order independence) -/
example : ∃ u, s.run (SysOp.updA 1000 :: roundOps 0 [5, 4, 3, 4] 2) = some u ∧ u.a.isDisconnected = false ∧
    u.b.isDisconnected = false ∧ u.submitted 0 = s.submitted 0 ∧ u.obtained 0 = s.submitted 0 :=
  bounded_delivery cfg ops s run_s facts.2.1 facts.2.2.1 0 ordered0 sA find_sA rB find_rB 1000 hyps.2.2.2.1 su step_su
    counters countersA hyps.1 hyps.2.1 hyps.2.2.1 [5, 4, 3, 4]
    (by rw [facts.2.2.2.2.2.2.2.2]; decide) (by rw [facts.2.2.2.2.2.2.2.2]; decide)
    2 (by rw [facts.2.2.2.1, facts.2.2.2.2.1]; decide)

/-- the single-channel form: H2 is `2403 ≤ 60000` -/
example : ∃ u, s.run (SysOp.updA 1000 :: roundOps 0 (newIdx su) 2) = some u ∧ u.a.isDisconnected = false ∧
    u.b.isDisconnected = false ∧ u.submitted 0 = s.submitted 0 ∧ u.obtained 0 = s.submitted 0 :=
  bounded_delivery_single cfg ops s run_s facts.2.1 facts.2.2.1 0 single0 sA find_sA rB find_rB 1000 hyps.2.2.2.1 su step_su
    counters countersA (by rw [hyps.2.2.2.2.1]; decide) hyps.2.1 2 (by rw [facts.2.2.2.1, facts.2.2.2.2.1]; decide)

/-- what the kernel computes for that run: both messages obtained; three more datagrams emitted and delivered -/
example : (s.run (SysOp.updA 1000 :: roundOps 0 [3, 4, 5] 2)).map (fun u => (u.obtained 0, u.outA.length, u.deliveredToB)) =
    some ([m0, m1], 6, [3, 4, 5]) := by decide +kernel

/-- the state after that round, and the acknowledgement round: `acks_release_next_round` applied -/
def u : Sys := (su.run (roundOps 0 [3, 4, 5] 2)).getD su
theorem run_u : su.run (roundOps 0 [3, 4, 5] 2) = some u := some_getD (by decide +kernel) _
theorem run_su : (Sys.init cfg).run (ops ++ [SysOp.updA 1000]) = some su := run_snoc run_s step_su
def sAu : SendRel := (SMap.find? su.a.sendRel 0).getD (SendRel.new 0 0 0)
theorem find_sAu : SMap.find? su.a.sendRel 0 = some sAu := some_getD (by decide +kernel) _

theorem ackHyps : su.a.isDisconnected = false ∧ AllDue su.a.now sAu.resend sAu.unacked ∧
    backlog sAu.unacked ≤ availAtTurn su.a 0 ∧ u.b.isDisconnected = false ∧ u.b.pendingAcks ≠ [] ∧
    su.b.pendingAcks.length + [3, 4, 5].length < ACK_RANGE_CAP ∧
    u.b.pendingAcks = [(3, 6)] ∧ ackIdx u = 0 ∧ CI.countersOKb u.b = true := by
  decide +kernel

theorem countersBu : u.b.CountersOK := CI.countersOK_of_b ackHyps.2.2.2.2.2.2.2.2

/-- `acks_release_after_round_all` applied: once B's ack datagram has reached A, nothing is left to retransmit -/
example : ∃ v, u.run [.flushB, .deliverToA (ackIdx u)] = some v ∧ v.a.isDisconnected = false ∧
    ∃ sA', SMap.find? v.a.sendRel 0 = some sA' ∧ sA'.unacked = [] :=
  acks_release_after_round_all cfg (ops ++ [SysOp.updA 1000]) su run_su counters countersA ackHyps.1 0 sAu find_sAu
    ackHyps.2.1 ackHyps.2.2.1 [3, 4, 5] (by rw [facts.2.2.2.2.2.2.2.2]; exact fun _ h => h) 2 u run_u ackHyps.2.2.2.1
    countersBu ackHyps.2.2.2.2.1 ackHyps.2.2.2.2.2.1

/-- what the kernel computes: before the ack A stores both messages, afterwards none; its memory budget is back -/
example : (SMap.find? u.a.sendRel 0).map (fun s => (s.unacked.map (·.1), s.available)) = some ([0, 1], 100000 - 1303) ∧
    ((u.run [.flushB, .deliverToA (ackIdx u)]).bind (fun v => SMap.find? v.a.sendRel 0)).map
      (fun s => (s.unacked.map (·.1), s.available)) = some ([], 100000) := by decide +kernel

end Ex

/-! `ExP` — the same two messages, but only 1300 bytes per tick: the budget covers the small message (entry 0, cost 3)
    and not the sliced one (cost 2400).  One tick delivers message 0 (`progress_per_tick_partial` with `pre` = entry 0,
    `j = 1`); in fact it also carries slice 0 of message 1 (1297 ≥ 1200 bytes were left), so a second tick — with the
    first still unacknowledged, message 0 is retransmitted as well and takes its 3 bytes — completes message 1. -/
namespace ExP

def cfg : Cfg := ⟨1300, [⟨0, .ordered, 100000, 100⟩], [⟨0, .ordered, 100000, 100⟩]⟩
def m0 : Bytes := [1, 2, 3]
def m1 : Bytes := List.replicate 1200 7 ++ List.replicate 100 9
def ops : List SysOp := [.sendA 0 m0, .sendA 0 m1]
def s : Sys := ((Sys.init cfg).run ops).getD (Sys.init cfg)
theorem run_s : (Sys.init cfg).run ops = some s := some_getD (by decide +kernel) _
def su : Sys := (s.step (.updA 1000)).getD s
theorem step_su : s.step (.updA 1000) = some su := some_getD (by decide +kernel) _
def sA : SendRel := (SMap.find? s.a.sendRel 0).getD (SendRel.new 0 0 0)
theorem find_sA : SMap.find? s.a.sendRel 0 = some sA := some_getD (by decide +kernel) _

theorem facts :
    (su.a.packetSeq ≤ Varint.MAX + 1 ∧ (∀ c ∈ cfg.send, (su.submitted c.id).length ≤ Varint.MAX + 1) ∧
      (∀ c ∈ cfg.send, ∀ m ∈ su.submitted c.id, m.length ≤ MAX_NUM_SLICES * SLICE_SIZE) ∧
      (∀ c ∈ cfg.send, ∀ m ∈ su.submittedU c.id, m.length ≤ MAX_NUM_SLICES * SLICE_SIZE)) ∧
    (s.a.isDisconnected = false ∧ s.submitted 0 = [m0, m1] ∧ s.obtained 0 = [] ∧ newIdx su = [0, 1] ∧
      sA.unacked = sA.unacked.take 1 ++ sA.unacked.drop 1 ∧ (∀ x ∈ sA.unacked.drop 1, 1 ≤ x.1) ∧
      backlog (sA.unacked.take 1) = 3 ∧ backlog sA.unacked = 2403 ∧ availAtTurn su.a 0 = 1300 ∧ sA.resend ≤ 1000) := by
  decide +kernel

theorem counters : CountersOK cfg su := ⟨by decide, facts.1.1, facts.1.2.1, facts.1.2.2.1, facts.1.2.2.2⟩
theorem ordered0 : cfg.Ordered 0 := ⟨⟨_, List.mem_singleton.mpr rfl, rfl, rfl⟩, by decide⟩
theorem countersA : su.a.CountersOK := CI.countersOK_of_b (by decide +kernel)

/-- `progress_per_tick_partial` applied with `j = 1`: message 0 is obtained in this tick -/
example : ∃ u, s.run (SysOp.updA 1000 :: roundOps 0 [0, 1] 1) = some u ∧ u.a.isDisconnected = false ∧
    u.submitted 0 = s.submitted 0 ∧ s.obtained 0 <+: u.obtained 0 ∧
    (u.b.isDisconnected = false → (s.submitted 0).take 1 <+: u.obtained 0 ∧ u.obtained 0 <+: s.submitted 0) :=
  progress_per_tick_partial cfg ops s run_s facts.2.1 0 ordered0 sA find_sA 1000 facts.2.2.2.2.2.2.2.2.2.2 su step_su
    counters countersA (sA.unacked.take 1) (sA.unacked.drop 1) facts.2.2.2.2.2.1 1 facts.2.2.2.2.2.2.1
    (by rw [facts.2.2.1]; decide) (by rw [facts.2.2.2.2.2.2.2.1, facts.2.2.2.2.2.2.2.2.2.1]; decide) [0, 1]
    (by rw [facts.2.2.2.2.1]; exact fun _ h => h)
    (by
      have h := facts.2.2.2.2.1
      intro k hk
      have : k ∈ newIdx su := by rw [h]; exact hk
      unfold newIdx at this
      rw [List.mem_range'_1] at this; exact this.2)
    1 (by rw [facts.2.2.2.1]; decide)

/-- what the kernel computes: after the first tick `[m0]`, after the second tick (no acks in between) `[m0, m1]` -/
example : (s.run (SysOp.updA 1000 :: roundOps 0 [0, 1] 1)).map (fun u => u.obtained 0) = some [m0] ∧
    (s.run (SysOp.updA 1000 :: roundOps 0 [0, 1] 1 ++ SysOp.updA 1000 :: roundOps 0 [2, 3] 1)).map (fun u => u.obtained 0)
      = some [m0, m1] := by decide +kernel


/-- the state after that first tick (started from `su`), then the acknowledgement round: `acks_release_after_round`
    with `pre` = entry 0 — afterwards only message 1 is left in A's `unacked` -/
def u1 : Sys := (su.run (roundOps 0 [0, 1] 1)).getD su
theorem run_u1 : su.run (roundOps 0 [0, 1] 1) = some u1 := some_getD (by decide +kernel) _
theorem run_su : (Sys.init cfg).run (ops ++ [SysOp.updA 1000]) = some su := run_snoc run_s step_su
def sAu : SendRel := (SMap.find? su.a.sendRel 0).getD (SendRel.new 0 0 0)
theorem find_sAu : SMap.find? su.a.sendRel 0 = some sAu := some_getD (by decide +kernel) _

theorem ackHyps : su.a.isDisconnected = false ∧ sAu.unacked = sAu.unacked.take 1 ++ sAu.unacked.drop 1 ∧
    AllDue su.a.now sAu.resend (sAu.unacked.take 1) ∧ backlog (sAu.unacked.take 1) ≤ availAtTurn su.a 0 ∧
    u1.b.isDisconnected = false ∧ u1.b.pendingAcks ≠ [] ∧ su.b.pendingAcks.length + [0, 1].length < ACK_RANGE_CAP ∧
    (sAu.unacked.drop 1).map (·.1) = [1] ∧ CI.countersOKb u1.b = true := by
  decide +kernel

example : ∃ v, u1.run [.flushB, .deliverToA (ackIdx u1)] = some v ∧ v.a.isDisconnected = false ∧
    ∃ sA', SMap.find? v.a.sendRel 0 = some sA' ∧ ∀ x ∈ sA'.unacked, ∃ u0, (x.1, u0) ∈ sAu.unacked.drop 1 :=
  acks_release_after_round cfg (ops ++ [SysOp.updA 1000]) su run_su counters countersA ackHyps.1 0 sAu find_sAu
    (sAu.unacked.take 1) (sAu.unacked.drop 1) ackHyps.2.1 ackHyps.2.2.1 ackHyps.2.2.2.1 [0, 1]
    (by rw [facts.2.2.2.2.1]; exact fun _ h => h) 1 u1 run_u1 ackHyps.2.2.2.2.1
    (CI.countersOK_of_b ackHyps.2.2.2.2.2.2.2.2) ackHyps.2.2.2.2.2.1 ackHyps.2.2.2.2.2.2.1

/-- what the kernel computes: after the acknowledgement round A stores only message 1, and the next tick's budget
    goes to it alone -/
example : ((u1.run [.flushB, .deliverToA (ackIdx u1)]).bind (fun v => SMap.find? v.a.sendRel 0)).map
    (fun s => s.unacked.map (·.1)) = some [1] := by decide +kernel

end ExP

/-! `ExU` — the same scenario (two submissions, first flush lost, `updA 1000`) on a ReliableUnordered channel. -/
namespace ExU

def cfg : Cfg := ⟨60000, [⟨0, .unordered, 100000, 100⟩], [⟨0, .ordered, 100000, 100⟩]⟩
def m0 : Bytes := [1, 2, 3]
def m1 : Bytes := List.replicate 1200 7 ++ List.replicate 100 9
def ops : List SysOp := [.sendA 0 m0, .sendA 0 m1, .flushA, .updA 1000]
def s : Sys := ((Sys.init cfg).run ops).getD (Sys.init cfg)
theorem run_s : (Sys.init cfg).run ops = some s := some_getD (by decide +kernel) _
def sA : SendRel := (SMap.find? s.a.sendRel 0).getD (SendRel.new 0 0 0)
theorem find_sA : SMap.find? s.a.sendRel 0 = some sA := some_getD (by decide +kernel) _
def rB : RecvRel := (SMap.find? s.b.recvRel 0).getD (RecvRel.new 0 true)
theorem find_rB : SMap.find? s.b.recvRel 0 = some rB := some_getD (by decide +kernel) _

theorem facts :
    (s.a.packetSeq ≤ Varint.MAX + 1 ∧ (∀ c ∈ cfg.send, (s.submitted c.id).length ≤ Varint.MAX + 1) ∧
      (∀ c ∈ cfg.send, ∀ m ∈ s.submitted c.id, m.length ≤ MAX_NUM_SLICES * SLICE_SIZE) ∧
      (∀ c ∈ cfg.send, ∀ m ∈ s.submittedU c.id, m.length ≤ MAX_NUM_SLICES * SLICE_SIZE)) ∧
    (s.a.isDisconnected = false ∧ s.b.isDisconnected = false ∧ s.submitted 0 = [m0, m1] ∧ s.obtained 0 = [] ∧
      newIdx s = [3, 4, 5] ∧ AllDue s.a.now sA.resend sA.unacked ∧ backlog sA.unacked ≤ availAtTurn s.a 0 ∧
      Room (s.submitted 0) rB ∧ (∀ p ∈ flushPk s.a, OnlyCh 0 p)) := by
  decide +kernel

theorem counters : CountersOK cfg s := ⟨by decide, facts.1.1, facts.1.2.1, facts.1.2.2.1, facts.1.2.2.2⟩
theorem unordered0 : cfg.Unordered 0 := ⟨⟨_, List.mem_singleton.mpr rfl, rfl, rfl⟩, by decide⟩
theorem countersA : s.a.CountersOK := CI.countersOK_of_b (by decide +kernel)

/-- `round_delivers_unordered_live` applied, the datagrams handed over in the order slice 1, small packet, slice 0 -/
example : ∃ u, s.run (roundOps 0 [4, 5, 3] 2) = some u ∧ u.a.isDisconnected = false ∧ u.b.isDisconnected = false ∧
    u.submitted 0 = s.submitted 0 ∧ (u.obtained 0).Perm (s.submitted 0) :=
  round_delivers_unordered_live cfg ops s run_s counters countersA facts.2.1 facts.2.2.1 0 unordered0 sA find_sA rB find_rB
    facts.2.2.2.2.2.2.1 facts.2.2.2.2.2.2.2.1 facts.2.2.2.2.2.2.2.2.1 facts.2.2.2.2.2.2.2.2.2 [4, 5, 3]
    (by rw [facts.2.2.2.2.2.1]; decide) (by rw [facts.2.2.2.2.2.1]; decide) 2
    (by rw [facts.2.2.2.1, facts.2.2.2.2.1]; decide)

/-- what the kernel computes for two delivery orders -/
example : (s.run (roundOps 0 [4, 5, 3] 2)).map (fun u => u.obtained 0) = some [m0, m1] ∧
    (s.run (roundOps 0 [3, 4, 5] 2)).map (fun u => u.obtained 0) = some [m0, m1] := by decide +kernel

end ExU

/-! `ExMem` — H3 is necessary, and the sender's admission control does not imply it.  Symmetric configuration,
    `max_memory_usage_bytes = 1300` on both sides of channel 0.  A accepts a 1300-byte message (1300 ≤ 1300).  Its
    first slice makes B reserve `2 * SLICE_SIZE = 2400 > 1300` bytes: `ReliableChannelMaxMemoryReached`, B is
    disconnected — on a lossless network, with nothing else in flight.  (C01's liveness clause is stated for
    connections that have not been disconnected, so this is not a violation of C01 as worded; it is the reason why
    `round_delivers` needs H3 and why `round_progress` says "unless B has been disconnected".) -/
namespace ExMem

def cfg : Cfg := ⟨60000, [⟨0, .ordered, 1300, 100⟩], [⟨0, .ordered, 1300, 100⟩]⟩
def m : Bytes := List.replicate 1300 7

theorem receiver_refuses_accepted_message :
    ((Sys.init cfg).run [.sendA 0 m, .flushA, .deliverToB 0]).map
        (fun s => (s.submitted 0 == [m], s.a.isDisconnected, s.b.disconnectReason)) =
      some (true, false, some (.recvChan 0 .maxMemory)) := by decide +kernel

end ExMem

end RenetVerif.C01L
