/-
  C07 (hostile input never panics) stated DIRECTLY about the generated netcode `Packet::read` of
  `Generated/Src/NcPacket.lean` (derived from `renetcode/src/packet.rs`).  The model appears only in the proof:
  `SrcTieNcPacket.nc_packet_read` ∘ `Netcode.Packet.read_no_panic` (the kernel of C07 `decode_total`).
-/
import RenetVerif.Props.SrcTieNcPacket
import RenetVerif.Props.C07
import RenetVerif.Lemmas.SrcCorollaries
namespace RenetVerif.SrcProps
open RenetVerif RenetVerif.SrcEquiv RenetVerif.SrcTie RenetVerif.SrcCor RenetVerif.RustSem

/-- generated packet type ↦ model packet type -/
def absNPT : Src.renetcode.packet.PacketType → Netcode.PacketType
  | .ConnectionRequest => .connectionRequest
  | .ConnectionDenied => .connectionDenied
  | .Challenge => .challenge
  | .Response => .response
  | .KeepAlive => .keepAlive
  | .Payload => .payload
  | .Disconnect => .disconnect

theorem reprPT_absNPT (ty : Src.renetcode.packet.PacketType) : reprPT (absNPT ty) = ty := by cases ty <;> rfl

/-- **C07, netcode `Packet::read` never panics**: for EVERY packet type and EVERY byte list (the decrypted body of a
    datagram) the generated reader returns a packet or an `io::Error`; in particular the `unreachable!()` arm is not
    reached and no `read_bytes` runs past the input. -/
theorem nc_packet_read_never_panics (ty : Src.renetcode.packet.PacketType) (l : List Nat) (hl : BytesOk l) :
    NoPanic (Src.renetcode.packet.Packet.read ty l) := by
  have h := nc_packet_read (absNPT ty) (ofNats l)
  rw [reprPT_absNPT, toNats_ofNats hl] at h
  refine noPanic_of_sameOutcome h ?_
  rw [noPanic_mapRes]
  exact fun site => Netcode.Packet.read_no_panic _ _ site

/-- hostile bodies evaluated on the generated text: truncated challenge, empty keep-alive, short request -/
example : Src.renetcode.packet.Packet.read .Challenge (List.replicate 307 1) = .err .opaque := by decide +kernel
example : Src.renetcode.packet.Packet.read .KeepAlive [] = .err .opaque := by decide +kernel
example : Src.renetcode.packet.Packet.read .ConnectionRequest (List.replicate 1076 0) = .err .opaque := by decide +kernel
example : Src.renetcode.packet.Packet.read .KeepAlive [1, 0, 0, 0, 2, 0, 0, 0, 9, 9] = .ok (.KeepAlive 1 2) := by
  decide +kernel
example : NoPanic (Src.renetcode.packet.Packet.read .Payload [1, 2, 3]) :=
  nc_packet_read_never_panics _ _ (by decide)

end RenetVerif.SrcProps
