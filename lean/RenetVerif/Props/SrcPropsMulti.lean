/-
  C11 / C01–C03 — the MULTI-CLIENT system, ABOUT THE GENERATED CODE.

  `GMulti` (`Lemmas/SrcEquiv/SrcMulti.lean`) is the multi-client system of `Lemmas/MultiSystem.lean` / `Props/C11E.lean` with a
  GENERATED `RenetServer` (`Generated/Src/Server.lean`, translated from `renet/src/server.rs`) and, per client id, a GENERATED
  `RenetClient` as the remote endpoint, each with its own adversarial network.  ALL 17 operations of `MOp` are executed through
  the generated functions (`add_connection`, `remove_connection`, `disconnect`, `send_message`, `broadcast_message`,
  `broadcast_message_except`, `receive_message`, `update`, `get_packets_to_send`, `process_packet_from` of the server;
  `new` + `set_connected`, `disconnect`, `send_message`, `receive_message`, `update`, `get_packets_to_send`, `process_packet` of
  the clients; hostile bytes go to `process_packet_from`).  `GMulti.exec P ops = some g`: `RenetServer::new` and every call of the
  run returned normally; `gl` with `g.links i = some gl` holds what belongs to client `i`: the ghost logs `subS`/`subSU`
  (what the server application addressed to `i` and the channel accepted / offered), `obtC` (what `i`'s application obtained),
  `subC`/`subCU`/`obtS` (the other direction), all as `List Nat` byte strings.

  Hypotheses: the link is untainted (`gl.tainted = false`: no hostile bytes were handed to the server under id `i`);
  `GCountersDown` / `GCountersUp` — `System.CountersOK` of the direction at hand read off the generated state; and
  `MRunInRange P ops` — the range side condition of the source tie (`SrcMulti.MRunInRange`: distinct channel ids per kind;
  before every operation every connection of the server table, and the remote endpoint the operation works on, in range
  `ConnInRange`; messages shorter than `2^63`; clocks within `Duration::MAX`), stated over the model run and decidable by
  evaluation.  Proofs: `SrcMulti.mrun_sim_conv` + the theorems of `Props/C11E.lean`.
-/
import RenetVerif.Lemmas.SrcEquiv.SrcMulti
import RenetVerif.Props.C11E
set_option maxRecDepth 100000
namespace RenetVerif.SrcPropsMulti
open RenetVerif C RenetVerif.System RenetVerif.MultiSystem RenetVerif.SrcEquiv RenetVerif.SrcSystem RenetVerif.SrcMulti

/-- **To one client only that client (generated code).**  What client `i`'s application obtains on channel `ch` is — by
    channel kind — a prefix of / a selection at distinct positions of / contained in the log of messages the server
    application addressed to `i` (`send_message(i)`, `broadcast_message`, `broadcast_message_except(ex ≠ i)`), and that log is a
    sub-sequence of what the operations of the run addressed to `i`. -/
theorem src_to_one_only_one (P : Params) (ops : List MOp) (g : GMulti) (i : Nat) (gl : GLink)
    (hr : GMulti.exec P ops = some g) (hl : g.links i = some gl) (hclean : gl.tainted = false)
    (hrg : MRunInRange P ops) (hc : GCountersDown P g i gl) (ch : Nat) :
    (P.down.Ordered ch → gl.obtC ch <+: gl.subS ch) ∧
    (P.down.Unordered ch →
      ∃ ids : List Nat, ids.Nodup ∧ (gl.obtC ch).map some = ids.map (fun k => (gl.subS ch)[k]?)) ∧
    (P.down.Unreliable ch → ∀ x ∈ gl.obtC ch, x ∈ gl.subSU ch) ∧
    (gl.subS ch).Sublist ((addressedTo i ch ops).map toNats) ∧ (gl.subSU ch).Sublist ((addressedTo i ch ops).map toNats) := by
  obtain ⟨m, hm, sim⟩ := mrun_sim_conv P ops g hrg hr
  obtain ⟨l, hml, hsl⟩ := link_of_sim sim hl
  have hat : C11E.At P ops m i l := ⟨hm, hml, by rw [← hsl.tainted]; exact hclean⟩
  obtain ⟨t1, t2, t3, t4, t5⟩ := C11E.to_one_only_one hat (countersDown_of_sim sim hsl hc) ch
  rw [hsl.obtC, hsl.subS, hsl.subSU]
  refine ⟨fun ho => (t1 ho).map toNats, fun hu => ?_, fun hk x hx => ?_, t4.map toNats, t5.map toNats⟩
  · obtain ⟨ids, hn, h⟩ := t2 hu
    exact ⟨ids, hn, unordered_map h⟩
  · obtain ⟨y, hy, rfl⟩ := List.mem_map.mp hx
    exact List.mem_map_of_mem (t3 hk y hy)

/-- **What is addressed to others is never obtained (generated code).**  If no operation of the run addressed the bytes `x`
    to client `i` on channel `ch` — no `send_message(i, ch, x)`, no `broadcast_message(ch, x)`, no
    `broadcast_message_except(ex, ch, x)` with `ex ≠ i` — then `i`'s application never obtains `x` on `ch`, whatever was sent to
    the other clients and whatever the networks did. -/
theorem src_addressed_to_others_never_obtained (P : Params) (ops : List MOp) (g : GMulti) (i : Nat) (gl : GLink)
    (hr : GMulti.exec P ops = some g) (hl : g.links i = some gl) (hclean : gl.tainted = false)
    (hrg : MRunInRange P ops) (hc : GCountersDown P g i gl) (ch : Nat)
    (hk : P.down.Ordered ch ∨ P.down.Unordered ch ∨ P.down.Unreliable ch) (x : Bytes)
    (hno : ∀ op ∈ ops, op ≠ .srvSend i ch x ∧ op ≠ .broadcast ch x ∧ ∀ ex, ex ≠ i → op ≠ .broadcastExcept ex ch x) :
    toNats x ∉ gl.obtC ch := by
  obtain ⟨m, hm, sim⟩ := mrun_sim_conv P ops g hrg hr
  obtain ⟨l, hml, hsl⟩ := link_of_sim sim hl
  have hat : C11E.At P ops m i l := ⟨hm, hml, by rw [← hsl.tainted]; exact hclean⟩
  have := C11E.addressed_to_others_never_obtained hat (countersDown_of_sim sim hsl hc) ch hk x hno
  rw [hsl.obtC, mem_map_toNats]
  exact this

/-- the same with the (decidable) hypothesis on the list `addressedTo i ch ops` -/
theorem src_not_addressed_never_obtained (P : Params) (ops : List MOp) (g : GMulti) (i : Nat) (gl : GLink)
    (hr : GMulti.exec P ops = some g) (hl : g.links i = some gl) (hclean : gl.tainted = false)
    (hrg : MRunInRange P ops) (hc : GCountersDown P g i gl) (ch : Nat)
    (hk : P.down.Ordered ch ∨ P.down.Unordered ch ∨ P.down.Unreliable ch) (x : Bytes)
    (hno : x ∉ addressedTo i ch ops) : toNats x ∉ gl.obtC ch := by
  obtain ⟨m, hm, sim⟩ := mrun_sim_conv P ops g hrg hr
  obtain ⟨l, hml, hsl⟩ := link_of_sim sim hl
  have hat : C11E.At P ops m i l := ⟨hm, hml, by rw [← hsl.tainted]; exact hclean⟩
  have := C11E.not_addressed_never_obtained hat (countersDown_of_sim sim hsl hc) ch hk x hno
  rw [hsl.obtC, mem_map_toNats]
  exact this

/-- **From one client under its id (generated code).**  What the server application obtains under id `i` on channel `ch`
    (`receive_message(i, ch)`) is — by channel kind — a prefix of / a selection at distinct positions of / contained in
    the log of messages client `i`'s application submitted, and that log is a sub-sequence of the `cliSend i ch ·` operations
    of the run. -/
theorem src_from_one_under_its_id (P : Params) (ops : List MOp) (g : GMulti) (i : Nat) (gl : GLink)
    (hr : GMulti.exec P ops = some g) (hl : g.links i = some gl) (hclean : gl.tainted = false)
    (hrg : MRunInRange P ops) (hc : GCountersUp P gl) (ch : Nat) :
    (P.up.Ordered ch → gl.obtS ch <+: gl.subC ch) ∧
    (P.up.Unordered ch →
      ∃ ids : List Nat, ids.Nodup ∧ (gl.obtS ch).map some = ids.map (fun k => (gl.subC ch)[k]?)) ∧
    (P.up.Unreliable ch → ∀ x ∈ gl.obtS ch, x ∈ gl.subCU ch) ∧
    (gl.subC ch).Sublist ((sentBy i ch ops).map toNats) ∧ (gl.subCU ch).Sublist ((sentBy i ch ops).map toNats) := by
  obtain ⟨m, hm, sim⟩ := mrun_sim_conv P ops g hrg hr
  obtain ⟨l, hml, hsl⟩ := link_of_sim sim hl
  have hat : C11E.At P ops m i l := ⟨hm, hml, by rw [← hsl.tainted]; exact hclean⟩
  obtain ⟨t1, t2, t3, t4, t5⟩ := C11E.from_one_under_its_id hat (countersUp_of_sim (m := m) (i := i) hsl hc) ch
  rw [hsl.obtS, hsl.subC, hsl.subCU]
  refine ⟨fun ho => (t1 ho).map toNats, fun hu => ?_, fun hk x hx => ?_, t4.map toNats, t5.map toNats⟩
  · obtain ⟨ids, hn, h⟩ := t2 hu
    exact ⟨ids, hn, unordered_map h⟩
  · obtain ⟨y, hy, rfl⟩ := List.mem_map.mp hx
    exact List.mem_map_of_mem (t3 hk y hy)

/-- … so whatever is obtained under id `i` was submitted by client `i` itself, by a `cliSend i ch x` of the run -/
theorem src_obtained_under_id_only_if_sent_by_it (P : Params) (ops : List MOp) (g : GMulti) (i : Nat) (gl : GLink)
    (hr : GMulti.exec P ops = some g) (hl : g.links i = some gl) (hclean : gl.tainted = false)
    (hrg : MRunInRange P ops) (hc : GCountersUp P gl) (ch : Nat)
    (hk : P.up.Ordered ch ∨ P.up.Unordered ch ∨ P.up.Unreliable ch) (x : Bytes) (hx : toNats x ∈ gl.obtS ch) :
    MOp.cliSend i ch x ∈ ops := by
  obtain ⟨m, hm, sim⟩ := mrun_sim_conv P ops g hrg hr
  obtain ⟨l, hml, hsl⟩ := link_of_sim sim hl
  have hat : C11E.At P ops m i l := ⟨hm, hml, by rw [← hsl.tainted]; exact hclean⟩
  rw [hsl.obtS, mem_map_toNats] at hx
  exact C11E.obtained_under_id_only_if_sent_by_it hat (countersUp_of_sim (m := m) (i := i) hsl hc) ch hk x hx

/-! ## non-vacuity: the run of `C11E.Ex` executed by the kernel ON THE GENERATED CODE

  Three clients, two server → client channels (0 ordered, 1 unordered), `send_message`, `broadcast_message`,
  `broadcast_message_except`, hostile bytes under id 2, duplication and reordering on client 3's network, a removal. -/
namespace Ex
abbrev P := C11E.Ex.P
abbrev ops := C11E.Ex.ops

/-- placeholders for `Option.getD` (never used) -/
def gzero : GMulti := ⟨reprServer (fun _ _ => 0) (Server.new 0 [] []), fun _ => none⟩
def lzero : GLink :=
  ⟨reprConn (fun _ => 0) (Conn.fromChannels 0 [] []), reprConn (fun _ => 0) (Conn.fromChannels 0 [] []), [], [],
   fun _ => [], fun _ => [], fun _ => [], fun _ => [], fun _ => [], fun _ => [], [], [], false⟩

def gfin : GMulti := (GMulti.exec P ops).getD gzero
def gl1 : GLink := (gfin.links 1).getD lzero
def gl2 : GLink := (gfin.links 2).getD lzero
def gl3 : GLink := (gfin.links 3).getD lzero

/-- the range side condition, decided by evaluation -/
theorem inRange : MRunInRange P ops := by decide +kernel
/-- the generated server and clients run through the 52 operations without a panic -/
theorem grun : GMulti.exec P ops = some gfin := some_getD (by decide +kernel) _
theorem glink1 : gfin.links 1 = some gl1 := some_getD (by decide +kernel) _
theorem glink2 : gfin.links 2 = some gl2 := some_getD (by decide +kernel) _
theorem glink3 : gfin.links 3 = some gl3 := some_getD (by decide +kernel) _

/-- what happened on the generated code, evaluated by the kernel (the same observations as `C11E.Ex.facts`) -/
abbrev gobs (l : GLink) := ([l.obtC 0, l.obtC 1, l.subS 0, l.subS 1, l.obtS 0, l.subC 0], l.tainted, l.outS.length)

theorem gfacts :
    gobs gl1 = ([[[10], [20], [30]], [[40]], [[10], [20], [30], [60]], [[40]], [[11]], [[11]]], false, 4) ∧
    gobs gl2 = ([[], [], [[30]], [[40]], [], [[22]]], true, 0) ∧
    gobs gl3 = ([[[20], [30], [60]], [[40], [41]], [[20], [30], [60]], [[40], [41]], [[33]], [[33]]], false, 4) ∧
    gl3.delivC = [1, 0, 1, 2] ∧ gl1.delivC = [0, 1] ∧
    (Src.renet.server.RenetServer.clients_id gfin.server : Res Empty _) = .ok [1, 3] := by
  decide +kernel

theorem gcountersD1 : GCountersDown P gfin 1 gl1 := by
  refine ⟨?_, ?_, ?_, ?_, ?_⟩ <;> decide +kernel
theorem gcountersD3 : GCountersDown P gfin 3 gl3 := by
  refine ⟨?_, ?_, ?_, ?_, ?_⟩ <;> decide +kernel
theorem gcountersU1 : GCountersUp P gl1 := by
  refine ⟨?_, ?_, ?_, ?_, ?_⟩ <;> decide +kernel
theorem gcountersU3 : GCountersUp P gl3 := by
  refine ⟨?_, ?_, ?_, ?_, ?_⟩ <;> decide +kernel

theorem clean1 : gl1.tainted = false := by decide +kernel
theorem clean3 : gl3.tainted = false := by decide +kernel

/-- 1. at client 1 and at client 3, channel 0 (ordered): a prefix of the log, the log a sub-sequence of what was addressed
    to the client -/
example : gl1.obtC 0 <+: gl1.subS 0 ∧ (gl1.subS 0).Sublist ((addressedTo 1 0 ops).map toNats) :=
  let t := src_to_one_only_one P ops gfin 1 gl1 grun glink1 clean1 inRange gcountersD1 0; ⟨t.1 C11E.Ex.ordered0, t.2.2.2.1⟩
example : gl3.obtC 0 <+: gl3.subS 0 ∧ (gl3.subS 0).Sublist ((addressedTo 3 0 ops).map toNats) :=
  let t := src_to_one_only_one P ops gfin 3 gl3 grun glink3 clean3 inRange gcountersD3 0; ⟨t.1 C11E.Ex.ordered0, t.2.2.2.1⟩
/-- channel 1 (unordered) at client 3 -/
example : ∃ ids : List Nat, ids.Nodup ∧ (gl3.obtC 1).map some = ids.map (fun k => (gl3.subS 1)[k]?) :=
  (src_to_one_only_one P ops gfin 3 gl3 grun glink3 clean3 inRange gcountersD3 1).2.1 C11E.Ex.unordered1
/-- [10] was addressed to client 1 only: it never appears at client 3; [41] went to client 3 only -/
example : toNats [10] ∉ gl3.obtC 0 :=
  src_not_addressed_never_obtained P ops gfin 3 gl3 grun glink3 clean3 inRange gcountersD3 0 (Or.inl C11E.Ex.ordered0)
    [10] (by decide)
example : toNats [41] ∉ gl1.obtC 1 :=
  src_not_addressed_never_obtained P ops gfin 1 gl1 grun glink1 clean1 inRange gcountersD1 1
    (Or.inr (Or.inl C11E.Ex.unordered1)) [41] (by decide)
/-- 2. what the generated server obtained under ids 1 and 3 -/
example : gl1.obtS 0 <+: gl1.subC 0 ∧ (gl1.subC 0).Sublist ((sentBy 1 0 ops).map toNats) :=
  let t := src_from_one_under_its_id P ops gfin 1 gl1 grun glink1 clean1 inRange gcountersU1 0; ⟨t.1 C11E.Ex.upOrdered0, t.2.2.2.1⟩
example : MOp.cliSend 3 0 [33] ∈ ops := by
  have e : gl3.obtS 0 = [[33]] := congrArg (fun t => t.1[4]!) gfacts.2.2.1
  exact src_obtained_under_id_only_if_sent_by_it P ops gfin 3 gl3 grun glink3 clean3 inRange gcountersU3 0
    (Or.inl C11E.Ex.upOrdered0) [33] (by rw [e]; decide)

end Ex

end RenetVerif.SrcPropsMulti
