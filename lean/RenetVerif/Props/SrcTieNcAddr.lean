/-
  Source tie, group NcAddr: `renetcode/src/token.rs` `write_server_addresses` / `read_server_addresses`
  ↔ `Netcode.writeServerAddresses` / `Netcode.readServerAddresses` of `Netcode/Token.lean`.

  `reprAddrs` maps the model's `[Option<Addr>; 32]` to the generated `List (Option RustSem.SocketAddr)` (`std::net` model of
  `RustSem.lean`: `SocketAddr::V4(a)` / `V6(a)`, `a.ip().octets()`, `port()`, `SocketAddr::new(IpAddr::V4(Ipv4Addr::from(ip)), port)`).
  Both functions are stated over the `io::Cursor` models with the state carried by an `Err` forgotten (`Res.forget`;
  the model does not track the cursor after an `io::Error`): `wcur w tail` is the write cursor after the model writer `w`,
  `rcur buf rest` the read cursor over `buf` whose unread rest is `rest`.
  The reader covers every announced count: more than 32 records are clamped by `.take(n)` on the 32-slot array
  (`min num 32` rounds), an `NETCODE_ADDRESS_NONE` / unknown type byte and an empty first slot are `io::Error`s.
-/
import RenetVerif.Lemmas.SrcEquiv.NcAddr
namespace RenetVerif.SrcTie
open RenetVerif RenetVerif.SrcEquiv RenetVerif.RustSem
open Src.renetcode.token

/-- `write_server_addresses`: the cursor of the model writer, or `io::Error` exactly when the model writer fails -/
theorem nc_addr_write {w : Netcode.Wr} {tail : List Nat} (h : WrOk w tail) (addrs : Netcode.AddrArray)
    (hlen : addrs.length < 2 ^ 32) :
    (write_server_addresses (wcur w tail) (reprAddrs addrs)).forget =
      match Netcode.writeServerAddresses w addrs with
      | some w' => .ok (wcur w' (tail.drop (addrsBytes addrs).length), ())
      | none => .err .opaque := by
  rw [write_server_addresses_forget _ (cinv_wcur h) _ hlen, wres_wcur h, writeServerAddresses_eq]
  cases w.writeAll (addrsBytes addrs) <;> rfl

/-- `read_server_addresses` on any input: the model's array and rest, or `io::Error` exactly when the model reader fails -/
theorem nc_addr_read {rest buf : Bytes} (h : rest <:+ buf) :
    (read_server_addresses (rcur buf rest)).forget = rdF buf reprAddrs (Netcode.readServerAddresses rest) :=
  read_server_addresses_forget h

/-- one IPv4 address `127.0.0.1:5000` (0x1388) -/
example : write_server_addresses ⟨List.replicate 12 0, 0⟩ (some (.v4 [127, 0, 0, 1] 5000) :: List.replicate 31 none) =
    .ok (⟨[1, 0, 0, 0, 1, 127, 0, 0, 1, 0x88, 0x13, 0], 11⟩, ()) := by decide +kernel
example : read_server_addresses ⟨[1, 0, 0, 0, 1, 127, 0, 0, 1, 0x88, 0x13, 99], 0⟩ =
    .ok (⟨[1, 0, 0, 0, 1, 127, 0, 0, 1, 0x88, 0x13, 99], 11⟩,
         some (.v4 [127, 0, 0, 1] 5000) :: List.replicate 31 none) := by decide +kernel
/-- an announced count of 33 is clamped to the 32 slots: the 33rd record is not read (and nothing is indexed out of
    range); the cursor stops after 4 + 32 * 7 bytes -/
example : mapRes (fun x => (x.1.pos, x.2)) (fun e => e.1)
      (read_server_addresses ⟨[33, 0, 0, 0] ++ (List.replicate 33 [1, 10, 0, 0, 1, 1, 0]).flatten, 0⟩) =
    .ok (228, List.replicate 32 (some (.v4 [10, 0, 0, 1] 1))) := by decide +kernel
/-- an empty slot inside the announced addresses is an error -/
example : (read_server_addresses ⟨[1, 0, 0, 0, 0], 0⟩).forget = .err .opaque := by decide +kernel
/-- no address at all is an error -/
example : (read_server_addresses ⟨[0, 0, 0, 0], 0⟩).forget = .err .opaque := by decide +kernel

end RenetVerif.SrcTie
