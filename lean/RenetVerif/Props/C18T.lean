/-
  C18 — Netcode liveness, the composed half: what Props/C18.lean (`never_timed_out_partial`) and Props/C18P.lean
  (`handshake_round_partial`) list as MISSING.

  A.  `never_timed_out`: induction over whole traces of server operations (`NS.Op`: `process_packet` with any source
      and datagram, `update`, `update_client`, `disconnect`, `set_max_clients`, `generate_payload_packet`, in any
      interleaving).  A connected session that is fresh — most recent authentic packet (or the connection) at most
      `timeout` old — at every `update_client` of its id, that nobody `disconnect`s and whose client sends no
      authentic Disconnect packet, stays in its slot with its identity; no `ClientDisconnected` names it.

  B.  the handshake driven through `NetcodeClient::update(d)` (time-outs, failover, send-rate gate) in *rounds*
      (`round`: `server.update(d)`, `client.update(d)`, datagram up, `server.update_client(id)`, answers down):
      B1 `handshake_through_update` — two lossless rounds of any lengths `d₁ d₂` connect both sides (time `d₁ + d₂`);
      B2 `handshake_despite_loss` — any number of rounds in which the client hears nothing (its datagram lost, or the
         answer lost — including the keep-alive that accompanies `ClientConnected`), then a delivered round, again any
         number of lossy rounds, then a delivered round (both at least the send rate long): connected, provided the
         total time stays within the token's window / time-out; with the single steps `request_retransmitted`,
         `response_retransmitted`, `repeated_request_challenged`, `duplicate_request_challenged`;
      B3 `failover_connects` — first server silent: after the time-out the client's `update` moves to the second
         address of the token, whose server completes the handshake.

  Proofs: Lemmas/NcLive2.lean.  Nothing is assumed of the AEAD beyond `AEAD.Laws` (seal/open inverse, 16-byte tag).
-/
import RenetVerif.Lemmas.NcLive2
import RenetVerif.Props.C18
import RenetVerif.Props.C18P
namespace RenetVerif.C18T
open RenetVerif RenetVerif.Netcode RenetVerif.Netcode.NS RenetVerif.NcLive2

/-! ## A. a fresh session is never timed out — whole traces -/

/-- **`never_timed_out`** — a peer from which authentic packets keep arriving within every timeout period is never
    timed out.

    `ops` is any trace of server operations, run from a state satisfying `ServerInv` in which slot `i` holds the
    session `c` of client `id` (`runOps`: the trace runs to its end, results `rs`, final state `s'`).
    `Fresh a id s c.lastPacketReceivedTime ops` is the trace hypothesis (`fresh_cons`, `allowed_*`, `lastAfter_*`
    below spell it out): with `last` := the time (on the model's clock `s.currentTime`) of the most recent operation
    that was a datagram from the session's address `Authentic` for it — initially the session's receive timer, i.e.
    its connection or last refresh —
      * at every `update_client id`: the token's timeout is not positive, or `now ≤ last + timeout`;
      * no operation is `disconnect id`;
      * no datagram from the session's address decodes, under its key and replay window, to a Disconnect packet.
    Everything else is unconstrained: forged / replayed / foreign datagrams, other clients' handshakes, time-outs and
    disconnects of other ids, payloads, `set_max_clients`, any `update(d)`.

    Then the session is still in slot `i` with the same identity (id, address, user data, keys, timeout, expiry), the
    id is connected, no `ClientDisconnected id` was reported along the trace, and the invariant holds again. -/
theorem never_timed_out (a : AEAD) {s s' : NetcodeServer} {id i : Nat} {c : Connection} {ops : List Op}
    {rs : List ServerResult} (hi : ServerInv s) (hc : At s.clients i c) (hid : c.clientId = id)
    (hfresh : Fresh a id s c.lastPacketReceivedTime ops) (hrun : runOps a s ops = some (rs, s')) :
    (∃ c', At s'.clients i c' ∧ ident c' = ident c) ∧ s'.isClientConnected id = true ∧
      (∀ ad o, ServerResult.clientDisconnected id ad o ∉ rs) ∧ ServerInv s' := by
  obtain ⟨hi', ⟨c', hc', hident⟩, hnd⟩ := run_keeps ops hi hc hid (Nat.le_refl _) hfresh hrun
  exact ⟨⟨c', hc', hident⟩, isClientConnected_iff.mpr ⟨i, c', hc', by rw [ident_id hident, hid]⟩, hnd, hi'⟩

/-- … and so at every point of the trace -/
theorem never_timed_out_throughout (a : AEAD) {s s₁ : NetcodeServer} {id i : Nat} {c : Connection}
    {ops₁ ops₂ : List Op} {rs₁ : List ServerResult} (hi : ServerInv s) (hc : At s.clients i c) (hid : c.clientId = id)
    (hfresh : Fresh a id s c.lastPacketReceivedTime (ops₁ ++ ops₂)) (hrun : runOps a s ops₁ = some (rs₁, s₁)) :
    (∃ c', At s₁.clients i c' ∧ ident c' = ident c) ∧ s₁.isClientConnected id = true ∧
      (∀ ad o, ServerResult.clientDisconnected id ad o ∉ rs₁) ∧ ServerInv s₁ :=
  never_timed_out a hi hc hid (fresh_prefix hfresh) hrun

/-- the trace hypothesis, one operation at a time: the operation is allowed, and the rest of the trace is fresh from
    the next state with the ghost variable `last` updated -/
theorem fresh_step {a : AEAD} {id : Nat} {s : NetcodeServer} {last : Nat} {op : Op} {rest : List Op} :
    Fresh a id s last (op :: rest) ↔
      opAllowed a id s last op = true ∧
      ∀ r s', step a s op = some (r, s') → Fresh a id s' (lastAfter a id s last op) rest := fresh_cons

/-- `update_client id` is allowed iff the session is fresh: timeout not positive, or `now ≤ last + timeout` -/
theorem allowed_updateClient {a : AEAD} {id : Nat} {s : NetcodeServer} {last : Nat} {c : Connection}
    (h : findClientById s.clients id = some c) :
    opAllowed a id s last (.updateClient id) = true ↔
      (c.timeoutSeconds ≤ 0 ∨ s.currentTime ≤ last + fromSecs c.timeoutSeconds.toNat) := by
  simp only [opAllowed, h, decide_eq_true_eq, forall_const]
/-- `update_client` of any other id is always allowed -/
theorem allowed_updateClient_other {a : AEAD} {id id' : Nat} {s : NetcodeServer} {last : Nat} (h : id' ≠ id) :
    opAllowed a id s last (.updateClient id') = true := by
  simp only [opAllowed]
  split <;> simp [h]
/-- `disconnect id'` is allowed iff `id' ≠ id` -/
theorem allowed_disconnect {a : AEAD} {id id' : Nat} {s : NetcodeServer} {last : Nat} :
    opAllowed a id s last (.disconnect id') = true ↔ id' ≠ id := by
  simp only [opAllowed, decide_eq_true_eq]
/-- a datagram is allowed unless it comes from the session's address and is its authentic Disconnect packet -/
theorem allowed_packet {a : AEAD} {id : Nat} {s : NetcodeServer} {last : Nat} {c : Connection} {addr : Addr}
    {buf : Bytes} (h : findClientById s.clients id = some c) :
    opAllowed a id s last (.packet addr buf) = true ↔ ¬ (c.addr = addr ∧ AuthDisconnect a s c buf) := by
  simp only [opAllowed, h, Bool.not_eq_true', Bool.and_eq_false_iff, decide_eq_false_iff_not, ← authDisconnectB_iff]
  constructor
  · rintro (h1 | h1) ⟨h2, h3⟩
    · exact h1 h2
    · rw [h3] at h1; cases h1
  · intro hn
    by_cases h2 : c.addr = addr
    · right
      cases h3 : authDisconnectB a s c buf with
      | false => rfl
      | true => exact absurd ⟨h2, h3⟩ hn
    · exact Or.inl h2
/-- `update`, `set_max_clients`, `generate_payload_packet` are always allowed -/
theorem allowed_update {a : AEAD} {id : Nat} {s : NetcodeServer} {last d : Nat} :
    opAllowed a id s last (.update d) = true := rfl
theorem allowed_setMaxClients {a : AEAD} {id : Nat} {s : NetcodeServer} {last m : Nat} :
    opAllowed a id s last (.setMaxClients m) = true := rfl
theorem allowed_sendPayload {a : AEAD} {id id' : Nat} {s : NetcodeServer} {last : Nat} {p : Bytes} :
    opAllowed a id s last (.sendPayload id' p) = true := rfl

/-- `last` moves exactly on a datagram from the session's address that is `Authentic` for it (`NS.Authentic`, as in
    `C18.refresh_only_authentic` / `C18.authentic_refreshes`), and then becomes the model's clock -/
theorem lastAfter_packet {a : AEAD} {id : Nat} {s : NetcodeServer} {last : Nat} {c : Connection} {addr : Addr}
    {buf : Bytes} (h : findClientById s.clients id = some c) :
    (c.addr = addr ∧ Authentic a s c buf → lastAfter a id s last (.packet addr buf) = s.currentTime) ∧
    (¬ (c.addr = addr ∧ Authentic a s c buf) → lastAfter a id s last (.packet addr buf) = last) := by
  simp only [lastAfter, refreshes, h]
  constructor
  · rintro ⟨h1, h2⟩
    rw [if_pos]
    simp only [Bool.and_eq_true, decide_eq_true_eq]
    exact ⟨h1, authenticB_iff.mpr h2⟩
  · intro hn
    rw [if_neg]
    simp only [Bool.and_eq_true, decide_eq_true_eq]
    rintro ⟨h1, h2⟩
    exact hn ⟨h1, authenticB_iff.mp h2⟩
theorem lastAfter_other {a : AEAD} {id : Nat} {s : NetcodeServer} {last : Nat} {op : Op}
    (h : ∀ addr buf, op ≠ .packet addr buf) : lastAfter a id s last op = last := by
  cases op with
  | packet addr buf => exact absurd rfl (h addr buf)
  | _ => rfl

/-! ## B. the handshake through `update`

  Vocabulary (Lemmas/NcLive2.lean):
  * `TokOK a s0 t expire xnonce` — `AEAD.Laws`; the private token `t` is well-formed, `xnonce` has 24 bytes, expiry
    and protocol id fit `u64`, (secure mode) the token lists a public address of the server configuration `s0`;
  * `CliReq a s0 t expire xnonce c` — the client is in `SendingConnectionRequest` with a connect token whose private
    part is `t` sealed under `s0`'s key (`TokenFor`), its send timer is not in the future, its replay window is empty
    (`cliReq_of_new`: true of `NetcodeClient::new`);
  * `SrvOpen a s0 addr t expire xnonce s` — `ServerInv s`, configuration of `s0`, neither `addr` nor `t.clientId`
    connected, fewer than the maximum *other* half-open sessions, the token's MAC not bound to another address, fewer
    than `max_clients` connected (`srvOpen_of_fresh`: follows from the hypotheses of `handshake_round_partial`);
  * `Budget t expire c s T N` — `T` more nanoseconds and `N` more rounds may pass: the client's token window stays
    open and its silence time-out does not fire (`CBudget`), the server's clock stays below the token's expiry second,
    the token's timeout (as the server will apply it to the session) does not fire, no `Duration` / `u64` overflow;
  * `round a addr me id f d (c, s)` — one round of `d` ns with fate `f` (`delivered`, `upLost`, `downLost`) between the
    client (seen by the server as `addr`) and the server listening on `me`; `runRounds` — a schedule of rounds;
  * `Established addr t expire c s` — the client is `Connected`, the server holds a session whose identity (id, user
    data, keys, timeout, expiry) is the token's and whose address is `addr`. -/

section B
variable {a : AEAD} {s0 : NetcodeServer} {addr me : Addr} {t : PrivateConnectToken} {expire : Nat} {xnonce : Bytes}

/-- **B1 `handshake_through_update`** — `C18P.handshake_round_partial` re-derived through `update`: from a client
    that has not sent anything yet and an open server, **two delivered rounds of arbitrary lengths `d₁`, `d₂`**
    (within the budgets) connect both sides; elapsed time `d₁ + d₂` on both clocks.  Round 1: the client's `update`
    passes the time-out checks and the (open) send-rate gate and emits the request, the server answers with the
    challenge, the client moves to `SendingConnectionResponse` and clears its send timer.  Round 2: the client's
    `update` emits the response at once (gate open whatever `d₂` is), the server reports `ClientConnected` with a
    keep-alive, on which the client becomes `Connected`. -/
theorem handshake_through_update (hT : TokOK a s0 t expire xnonce) {c0 : NetcodeClient} {s : NetcodeServer} {d₁ d₂ : Nat}
    (hc : CliReq a s0 t expire xnonce c0) (hsend : c0.lastPacketSendTime = none) (hme : c0.serverAddr = me)
    (hs : SrvOpen a s0 addr t expire xnonce s) (hb : Budget t expire c0 s (d₁ + d₂) 2) :
    ∃ c1 s1 c2 s2, round a addr me t.clientId .delivered d₁ (c0, s) = some (c1, s1) ∧
      c1.state = .sendingConnectionResponse ∧
      round a addr me t.clientId .delivered d₂ (c1, s1) = some (c2, s2) ∧
      Established addr t expire c2 s2 ∧ s2.isClientConnected t.clientId = true ∧
      c2.currentTime = c0.currentTime + d₁ + d₂ ∧ s2.currentTime = s.currentTime + d₁ + d₂ := by
  obtain ⟨c1, s1, hr1, hc1, hs1, hp1, hb1, hls1, hme1, _, ht1, hst1⟩ :=
    round_req_delivered (me := me) (N := 1) hT hc hs hb (Nat.le_add_right _ _) hme (gateOpen_of_none hsend)
  have e : d₁ + d₂ - d₁ = d₂ := by omega
  rw [e] at hb1
  obtain ⟨c2, s2, hr2, hest, ht2, hst2⟩ :=
    round_resp_delivered (me := me) (N := 0) hT hc1 hs1 hp1 hb1 (Nat.le_refl _) hme1 (gateOpen_of_none hls1)
  exact ⟨c1, s1, c2, s2, hr1, hc1.st, hr2, hest, hest.isClientConnected, by rw [ht2, ht1], by rw [hst2, hst1]⟩

/-- **retransmission, request**: a client still in the request phase (its request, or the challenge, was lost) emits
    the request again at its next `update(d)` with `d` ≥ the send rate, with a fresh sequence number -/
theorem request_retransmitted (hT : TokOK a s0 t expire xnonce) {c : NetcodeClient} {T d : Nat}
    (hc : CliReq a s0 t expire xnonce c) (hb : CBudget c T) (hd : d ≤ T) (hrate : c.sendRate ≤ d)
    (hseq : c.sequence < U64_MAX) :
    c.update a d = .ok (some (requestBytes a s0 t expire xnonce, c.serverAddr),
      { c with currentTime := c.currentTime + d, lastPacketSendTime := some (c.currentTime + d)
               sequence := c.sequence + 1 }) :=
  update_sends_request a hT.laws hc.tok hT.wf hT.xn hc.st hb hd hseq hc.sendLe (gateOpen_of_rate hrate hc.sendLe)

/-- **retransmission, response**: a client still in the response phase (its response, or the keep-alive, was lost)
    emits the response — same challenge token, current (fresh) sequence number — again -/
theorem response_retransmitted (hT : TokOK a s0 t expire xnonce) {c : NetcodeClient} {T d : Nat}
    (hc : CliResp a s0 t expire xnonce c) (hb : CBudget c T) (hd : d ≤ T) (hrate : c.sendRate ≤ d)
    (hseq : c.sequence < U64_MAX) :
    c.update a d = .ok (some (Packet.sealedBytes a
        (.response c.challengeTokenSequence (challengeToken a s0 t.clientId t.userData c.challengeTokenSequence))
        s0.protocolId c.sequence t.clientToServerKey, c.serverAddr),
      { c with currentTime := c.currentTime + d, lastPacketSendTime := some (c.currentTime + d)
               sequence := c.sequence + 1 }) := by
  rw [← responseBytes_eq hc]
  have htd : c.challengeTokenData.length = 300 := by
    rw [hc.td]; exact challengeToken_length a hT.laws s0 t.clientId hT.wf.userData _
  exact update_sends_response a hT.laws hc.st htd hb hd hseq hc.sendLe (gateOpen_of_rate hrate hc.sendLe)

/-- **a repeated request gets a challenge again**: an open server — whether or not it already holds a half-open
    session for the address, whether or not the token is already bound to it — answers the request with a challenge
    (next challenge sequence number), (re)creates the half-open session stamped `now`, and stays open -/
theorem repeated_request_challenged (hT : TokOK a s0 t expire xnonce) {s : NetcodeServer}
    (hs : SrvOpen a s0 addr t expire xnonce s) (hg : s.globalSequence < U64_MAX) (hc : s.challengeSequence < U64_MAX)
    (hnow : asSecs s.currentTime < expire) :
    ∃ s', s.processPacket a addr (requestBytes a s0 t expire xnonce) =
        .ok (.packetToSend addr (challengeBytes a s t), s') ∧
      SrvOpen a s0 addr t expire xnonce s' ∧
      pendingFind s'.pendingClients addr = some (mkPending s.currentTime addr expire t) ∧
      s'.challengeSequence = s.challengeSequence + 1 ∧ s'.globalSequence = s.globalSequence + 1 ∧
      s'.currentTime = s.currentTime := hs.request hT hg hc hnow

/-- **a duplicate delivery of the same request datagram also gets a challenge** -/
theorem duplicate_request_challenged (hT : TokOK a s0 t expire xnonce) {s : NetcodeServer}
    (hs : SrvOpen a s0 addr t expire xnonce s) (hg : s.globalSequence + 1 < U64_MAX)
    (hc : s.challengeSequence + 1 < U64_MAX) (hnow : asSecs s.currentTime < expire) :
    ∃ s' s'', s.processPacket a addr (requestBytes a s0 t expire xnonce) =
        .ok (.packetToSend addr (challengeBytes a s t), s') ∧
      s'.processPacket a addr (requestBytes a s0 t expire xnonce) =
        .ok (.packetToSend addr (challengeBytes a s' t), s'') ∧
      SrvOpen a s0 addr t expire xnonce s'' ∧
      pendingFind s''.pendingClients addr = some (mkPending s.currentTime addr expire t) ∧
      s''.challengeSequence = s.challengeSequence + 2 := by
  obtain ⟨s', h1, hs', _, hcs, hgs, htm⟩ := hs.request hT (by omega) (by omega) hnow
  obtain ⟨s'', h2, hs'', hpf, hcs', _, _⟩ := hs'.request hT (by omega) (by omega) (by rw [htm]; exact hnow)
  exact ⟨s', s'', h1, h2, hs'', by rw [hpf, htm], by rw [hcs', hcs]⟩

/-- **B2 `handshake_despite_loss`** — a lossless round after any number of lossy rounds still connects.

    Schedule: `l₁` (any number of rounds in which the client hears nothing: `upLost` = its datagram is lost,
    `downLost` = the datagram arrives but the server's answer is lost; any durations, also below the send rate), a
    delivered round `d₁`, `l₂` (again lossy rounds: lost responses, or a response that arrives but whose
    `ClientConnected` keep-alive is lost — then the server already holds the session and ignores the repeated
    responses), a delivered round `d₂`.  The delivered rounds are at least the send rate long (so the client's gate
    is open and, in the lost-keep-alive case, the server's keep-alive is due).  `Budget`: the whole schedule fits the
    token's window, the client's and the server's time-outs, and the counters.

    Then the schedule runs and ends with both sides connected, after exactly the schedule's total time. -/
theorem handshake_despite_loss (hT : TokOK a s0 t expire xnonce) {c0 : NetcodeClient} {s : NetcodeServer}
    {l₁ l₂ : List (Fate × Nat)} {d₁ d₂ : Nat} (hc : CliReq a s0 t expire xnonce c0) (hme : c0.serverAddr = me)
    (hs : SrvOpen a s0 addr t expire xnonce s) (hl₁ : Lossy l₁) (hl₂ : Lossy l₂)
    (hr₁ : c0.sendRate ≤ d₁) (hr₂ : c0.sendRate ≤ d₂) (hr₂' : Netcode.C.NETCODE_SEND_RATE_NS ≤ d₂)
    (hb : Budget t expire c0 s (totalTime l₁ + d₁ + totalTime l₂ + d₂) (l₁.length + l₂.length + 2)) :
    ∃ c' s', runRounds a addr me t.clientId (l₁ ++ (.delivered, d₁) :: (l₂ ++ [(.delivered, d₂)])) (c0, s) =
        some (c', s') ∧
      Established addr t expire c' s' ∧ s'.isClientConnected t.clientId = true ∧
      c'.currentTime = c0.currentTime + (totalTime l₁ + d₁ + totalTime l₂ + d₂) ∧
      s'.currentTime = s.currentTime + (totalTime l₁ + d₁ + totalTime l₂ + d₂) := by
  -- the lossy prefix: still asking
  obtain ⟨c1, s1, hrun1, hc1, hs1, hb1, hsame1, ht1, hst1⟩ := run_req_lossy (me := me) hT l₁ (N := l₂.length + 2) hc hs
    (hb.weaken (by omega)) (by omega) (Or.inl hl₁)
  -- the first delivered round: challenge received
  obtain ⟨c2, s2, hr2, hc2, hs2, hp2, hb2, hls2, hme2, hrate2, ht2, hst2⟩ := round_req_delivered (me := me) (N := l₂.length + 1)
    (d := d₁) hT hc1 hs1 hb1 (by omega) (by rw [hsame1.srv]; exact hme)
    (gateOpen_of_rate (by rw [hsame1.rate]; exact hr₁) hc1.sendLe)
  -- lossy rounds of the response phase
  obtain ⟨c3, s3, hrun3, hc3, hs3, hb3, hsame3, ht3, hst3⟩ := run_resp_lossy (me := me) hT l₂ (N := 1) hc2
    (Or.inl ⟨hs2, hp2⟩) (hb2.weaken (by omega)) (by omega) hl₂
  -- the final delivered round
  obtain ⟨c4, s4, hr4, hest, ht4, hst4⟩ := round_resp_final (me := me) (N := 0) (d := d₂) hT hc3 hs3 hb3 (by omega)
    (by rw [hsame3.srv]; exact hme2)
    (gateOpen_of_rate (by rw [hsame3.rate, hrate2, hsame1.rate]; exact hr₂) hc3.sendLe) hr₂'
  refine ⟨c4, s4, ?_, hest, hest.isClientConnected, by rw [ht4, ht3, ht2, ht1]; omega, by rw [hst4, hst3, hst2, hst1]; omega⟩
  rw [runRounds_append, hrun1]
  simp only [Option.bind_some, runRounds, hr2, runRounds_append, hrun3, hr4]

/-- **B3 `failover_connects`** — two-address token, first server silent.

    The client talks to an address that is not this server's (`c0.serverAddr ≠ me`): whatever it sends during the
    schedule `pre` is never answered (`Budget … (totalTime pre) …`: during `pre` neither its token window closes nor its
    time-out fires).  In the next round `d₁` the time-out fires (`hto`) with token time left (`hwin`): the client's
    `update` gives up on that server, moves to the next listed address — this server, `hnext` — resets its timers and
    sends the request there in the same call (`C18.failover` is that client step); the server answers with the
    challenge.  One more delivered round `d₂` completes the handshake as in B1.  (`hd₂…`, `hcclk`, `hsclk`, `hsexp`:
    the second attempt fits the token's time-out and window and the two clocks.) -/
theorem failover_connects (hT : TokOK a s0 t expire xnonce) {c0 : NetcodeClient} {s : NetcodeServer}
    {pre : List (Fate × Nat)} {d₁ d₂ : Nat} (hc : CliReq a s0 t expire xnonce c0) (hne : c0.serverAddr ≠ me)
    (hnext : c0.connectToken.serverAddresses[c0.serverAddrIndex + 1]? = some (some me))
    (hidx : c0.serverAddrIndex + 1 < Netcode.C.NETCODE_TOKEN_MAX_ADDRESSES)
    (hs : SrvOpen a s0 addr t expire xnonce s)
    (hb : Budget t expire c0 s (totalTime pre) (pre.length + 2))
    (hto : c0.connectToken.timeoutSeconds > 0 ∧
      c0.lastPacketReceivedTime + fromSecs c0.connectToken.timeoutSeconds.toNat < c0.currentTime + totalTime pre + d₁)
    (hwin : asSecs (c0.currentTime + totalTime pre + d₁ - c0.connectStartTime) < tokenWindow c0)
    (hd₂c : d₂ ≤ fromSecs c0.connectToken.timeoutSeconds.toNat) (hd₂w : asSecs d₂ < tokenWindow c0)
    (hd₂s : t.timeoutSeconds ≤ 0 ∨ d₂ ≤ fromSecs t.timeoutSeconds.toNat)
    (hcclk : c0.currentTime + totalTime pre + d₁ + d₂ + fromSecs c0.connectToken.timeoutSeconds.toNat ≤ DURATION_MAX)
    (hsclk : s.currentTime + totalTime pre + d₁ + d₂ + fromSecs (2 ^ 31) ≤ DURATION_MAX)
    (hsexp : asSecs (s.currentTime + totalTime pre + d₁ + d₂) < expire) :
    ∃ c1 s1 c2 s2 c3 s3, runRounds a addr me t.clientId pre (c0, s) = some (c1, s1) ∧
      c1.state = .sendingConnectionRequest ∧ c1.serverAddr = c0.serverAddr ∧
      round a addr me t.clientId .delivered d₁ (c1, s1) = some (c2, s2) ∧
      c2.state = .sendingConnectionResponse ∧ c2.serverAddr = me ∧
      c2.connectStartTime = c0.currentTime + totalTime pre + d₁ ∧
      round a addr me t.clientId .delivered d₂ (c2, s2) = some (c3, s3) ∧
      runRounds a addr me t.clientId (pre ++ [(.delivered, d₁), (.delivered, d₂)]) (c0, s) = some (c3, s3) ∧
      Established addr t expire c3 s3 ∧ s3.isClientConnected t.clientId = true ∧
      c3.currentTime = c0.currentTime + totalTime pre + d₁ + d₂ := by
  have hU : U64_MAX = 2 ^ 64 - 1 := rfl
  -- the silent phase
  obtain ⟨c1, s1, hrun1, hc1, hs1, hb1, hsame1, ht1, hst1⟩ := run_req_lossy (me := me) hT pre (N := 2) hc hs
    (hb.weaken (by omega)) (Nat.le_refl _) (Or.inr hne)
  have hw1 : tokenWindow c1 = tokenWindow c0 := by unfold tokenWindow; rw [hsame1.tok]
  have e0 := hb.cb.start; have e0' := hb.cb.recv
  have e1 := hb1.cseq; have e2 := hb1.gseq; have e3 := hb1.chseq
  -- the failover round
  obtain ⟨c2, s2, hr2, hc2, hs2, hp2, f1, f2, f3, f4, f5, f6, f7, f8, f9, f10, f11⟩ := round_failover (me := me) (d := d₁) hT hc1 hs1
    ⟨by rw [ht1]; omega, by rw [hsame1.start, ht1]; omega, by rw [hsame1.recv, hsame1.tok]; omega⟩
    (by rw [hw1, hsame1.start, ht1]; exact hwin)
    ⟨by rw [hsame1.tok]; exact hto.1, by rw [hsame1.recv, hsame1.tok, ht1]; exact hto.2⟩
    (by rw [hsame1.tok, hsame1.idx]; exact hnext) (by rw [hsame1.idx]; exact hidx) (by omega)
    (by rw [hst1]; omega) (by omega) (by omega)
    (Nat.lt_of_le_of_lt (asSecs_mono (by rw [hst1]; omega)) hsexp)
  have hw2 : tokenWindow c2 = tokenWindow c0 := by unfold tokenWindow; rw [f8, hsame1.tok]
  have htk : c2.connectToken = c0.connectToken := f8.trans hsame1.tok
  -- the budgets of the second attempt
  have hb2 : Budget t expire c2 s2 d₂ 1 := by
    refine ⟨⟨by rw [f5, htk, ht1]; omega, by rw [f7, f5]; exact Nat.le_refl _, by rw [f6, f5]; exact Nat.le_refl _, ?_, ?_⟩,
      by rw [f1, hst1]; omega, ?_, hd₂s, by rw [f9]; omega, by rw [f2]; omega, by rw [f3]; omega⟩
    · rw [hw2, f7, f5]
      have : c1.currentTime + d₁ + d₂ - (c1.currentTime + d₁) = d₂ := by omega
      rw [this]; exact hd₂w
    · right; rw [f5, f6, htk]; omega
    · have : s2.currentTime + d₂ = s.currentTime + totalTime pre + d₁ + d₂ := by rw [f1, hst1]
      rw [this]; exact hsexp
  obtain ⟨c3, s3, hr3, hest, ht3, _⟩ := round_resp_delivered (me := me) (N := 0) hT hc2 hs2 hp2 hb2 (Nat.le_refl _) f10
    (gateOpen_of_none f4)
  refine ⟨c1, s1, c2, s2, c3, s3, hrun1, hc1.st, hsame1.srv, hr2, hc2.st, f10, by rw [f7, ht1], hr3, ?_, hest,
    hest.isClientConnected, by rw [ht3, f5, ht1]⟩
  rw [runRounds_append, hrun1]
  simp only [Option.bind_some, runRounds, hr2, hr3]

/-- what `Established` says about the server's session: id, address, user data and keys are the token's -/
theorem established_session {c : NetcodeClient} {s : NetcodeServer} (h : Established addr t expire c s) :
    c.state = .connected ∧ ServerInv s ∧ s.isClientConnected t.clientId = true ∧
    ∃ i cn, At s.clients i cn ∧ cn.clientId = t.clientId ∧ cn.addr = addr ∧ cn.userData = t.userData ∧
      cn.sendKey = t.serverToClientKey ∧ cn.receiveKey = t.clientToServerKey ∧
      cn.timeoutSeconds = t.timeoutSeconds ∧ cn.expireTimestamp = expire := by
  obtain ⟨h1, h2, i, cn, h3, h4⟩ := h
  exact ⟨h1, h2, Established.isClientConnected ⟨h1, h2, i, cn, h3, h4⟩, i, cn, h3, identT_fields h4⟩

/-- **B1 from the initial client state** — `handshake_through_update` with its hypotheses spelled out in the terms of
    `C18P.handshake_round_partial`: the client is what `NetcodeClient::new(tm, token)` returns, for a token whose
    private part is `t` sealed under the server's key and whose first address is the server's (`me`); the server
    satisfies the hypotheses of `handshake_round_partial` (neither address nor id connected, no half-open session of
    the address, room, token not bound elsewhere, a slot free); two rounds of `d₁` and `d₂` ns fit the token's window
    and time-out, the server's clock stays below the token's expiry second, and the counters have room. -/
theorem handshake_from_new (hl : a.Laws) {s : NetcodeServer} {tm : Nat} {ct : ConnectToken} {c0 : NetcodeClient} {d₁ d₂ : Nat}
    (hi : ServerInv s) (hwf : NcAead.Token.PTokenWF t) (hxn : xnonce.length = 24) (hexp : expire < 2 ^ 64)
    (hpid : s.protocolId < 2 ^ 64)
    (hhost : s.secure = true → ∃ x, some x ∈ t.serverAddresses ∧ x ∈ s.publicAddresses)
    (hfa : findClientByAddr s.clients addr = none) (hfi : findClientById s.clients t.clientId = none)
    (hpf : pendingFind s.pendingClients addr = none)
    (hroom : s.pendingClients.length < Netcode.C.NETCODE_MAX_PENDING_CLIENTS)
    (hbind : (s.findOrAddConnectTokenEntry ⟨s.currentTime, addr, tokenMac (sealedPriv a s t expire xnonce)⟩).2 = true)
    (hlt : countConnected s.clients < s.maxClients)
    (hnew : NetcodeClient.new tm ct = .ok c0) (htok : TokenFor a s t expire xnonce ct)
    (hme : ct.serverAddresses.head? = some (some me))
    (hg : s.globalSequence + 2 < U64_MAX) (hc : s.challengeSequence + 2 < U64_MAX)
    (hcclk : tm + (d₁ + d₂) + fromSecs ct.timeoutSeconds.toNat ≤ DURATION_MAX)
    (hwin : asSecs (d₁ + d₂) < ct.expireTimestamp - ct.createTimestamp)
    (hctmo : ct.timeoutSeconds ≤ 0 ∨ d₁ + d₂ ≤ fromSecs ct.timeoutSeconds.toNat)
    (hsclk : s.currentTime + (d₁ + d₂) + fromSecs (2 ^ 31) ≤ DURATION_MAX)
    (hsexp : asSecs (s.currentTime + (d₁ + d₂)) < expire)
    (hstmo : t.timeoutSeconds ≤ 0 ∨ d₁ + d₂ ≤ fromSecs t.timeoutSeconds.toNat) :
    ∃ c1 s1 c2 s2, round a addr me t.clientId .delivered d₁ (c0, s) = some (c1, s1) ∧
      c1.state = .sendingConnectionResponse ∧
      round a addr me t.clientId .delivered d₂ (c1, s1) = some (c2, s2) ∧
      c2.state = .connected ∧ s2.isClientConnected t.clientId = true ∧
      (∃ i cn, At s2.clients i cn ∧ cn.clientId = t.clientId ∧ cn.addr = addr ∧ cn.userData = t.userData) ∧
      c2.currentTime = tm + d₁ + d₂ ∧ s2.currentTime = s.currentTime + d₁ + d₂ := by
  obtain ⟨hc0, k1, k2, k3, k4, k5, k6, k7, k8, k9⟩ := cliReq_of_new (a := a) (s0 := s) (t := t) (expire := expire)
    (xnonce := xnonce) hnew htok
  have hme0 : c0.serverAddr = me := by
    rw [hme] at k9
    simp only [Option.some.injEq] at k9
    exact k9.symm
  have hb : Budget t expire c0 s (d₁ + d₂) 2 := by
    refine ⟨⟨by rw [k3, k6]; exact hcclk, by rw [k3, k4]; exact Nat.le_refl _, by rw [k3, k5]; exact Nat.le_refl _, ?_, ?_⟩,
      hsclk, hsexp, hstmo, by rw [k7]; decide, hg, hc⟩
    · unfold tokenWindow
      rw [k3, k4, k6, Nat.add_sub_cancel_left]; exact hwin
    · rw [k3, k5, k6]
      rcases hctmo with h | h
      · exact Or.inl h
      · exact Or.inr (by omega)
  obtain ⟨c1, s1, c2, s2, h1, h2, h3, h4, h5, h6, h7⟩ := handshake_through_update (me := me)
    ⟨hl, hwf, hxn, hexp, hpid, hhost⟩ hc0 k1 hme0 (srvOpen_of_fresh hi hfa hfi hpf hroom hbind hlt) hb
  obtain ⟨e1, _, _, i, cn, e2, e3, e4, e5, _⟩ := established_session h4
  exact ⟨c1, s1, c2, s2, h1, h2, h3, e1, h5, ⟨i, cn, e2, e3, e4, e5⟩, by rw [h6, k3], h7⟩

end B

/-! ## examples: the hypotheses are satisfiable (worlds of Lemmas/NcExamples.lean and Props/C18P.lean) -/
section Examples
open Ex

/-- A is connected in `s2` (slot 0, receive timer 0, timeout 5 s).  4 s pass, an authentic keep-alive of A arrives
    (`last` := 4 s), the server ticks A, 5 more seconds pass (now 9 s = `last` + timeout: the boundary), a forged
    keep-alive arrives (does not count), tick, client B starts a handshake, a payload goes to A, `disconnect 12`,
    `set_max_clients 3`, tick. -/
def traceA : List Op :=
  [.update 4000000000, .packet addrA kaFromA, .updateClient 11, .update 5000000000, .packet addrA forgedKa,
   .updateClient 11, .packet addrB reqB, .sendPayload 11 [9, 9], .disconnect 12, .setMaxClients 3, .updateClient 11]

theorem traceA_fresh : Fresh Ex.a 11 s2 connA.lastPacketReceivedTime traceA := by decide +kernel
theorem traceA_runs : (runOps Ex.a s2 traceA).isSome = true := by decide +kernel

example : ∃ rs s', runOps Ex.a s2 traceA = some (rs, s') ∧ (∃ c', At s'.clients 0 c' ∧ ident c' = ident connA) ∧
    s'.isClientConnected 11 = true ∧ (∀ ad o, ServerResult.clientDisconnected 11 ad o ∉ rs) := by
  cases h : runOps Ex.a s2 traceA with
  | none => have := traceA_runs; rw [h] at this; cases this
  | some x =>
    obtain ⟨rs, s'⟩ := x
    obtain ⟨h1, h2, h3, _⟩ := never_timed_out Ex.a inv_s2 (i := 0) (c := connA) rfl rfl traceA_fresh h
    exact ⟨rs, s', rfl, h1, h2, h3⟩
/-- … and in the middle of the trace -/
example : ∀ rs s', runOps Ex.a s2 (traceA.take 6) = some (rs, s') → s'.isClientConnected 11 = true :=
  fun rs s' h => (never_timed_out_throughout Ex.a inv_s2 (i := 0) (c := connA) (ops₁ := traceA.take 6)
    (ops₂ := traceA.drop 6) rfl rfl (by rw [List.take_append_drop]; exact traceA_fresh) h).2.1
/-- the hypothesis is not vacuous the other way either: without the keep-alive the second tick is not fresh, and
    a `disconnect 11` or A's own Disconnect packet is not allowed -/
example : ¬ Fresh Ex.a 11 s2 0 [.update 4000000000, .updateClient 11, .update 5000000000, .updateClient 11] := by
  decide +kernel
example : ¬ Fresh Ex.a 11 s2 0 [.disconnect 11] := by decide +kernel
example : Fresh Ex.a 11 s2 0 [.disconnect 12, .update 5000000000, .updateClient 11] := by decide +kernel

/-! the handshake examples use the model's toy AEAD (`AEAD.toy_laws`), the server `s0` (listening on `srvAddr`), client
    A's private token `privA` (id 11, timeout 5 s, 30 s window) and the client `C18P.cT` holding it; the server sees the
    client at `addrA` -/

theorem tokOK_toy : TokOK AEAD.toy s0 privA 30 xnA :=
  ⟨AEAD.toy_laws, C18P.privA_wf, rfl, by decide, by decide, fun _ => ⟨srvAddr, by simp [privA], by simp [s0]⟩⟩
theorem cliReq_cT : CliReq AEAD.toy s0 privA 30 xnA C18P.cT :=
  ⟨rfl, ⟨rfl, rfl, rfl, rfl, rfl, rfl⟩, (fun _ e => by cases e), rp_new_fresh⟩
theorem srvOpen_s0 : SrvOpen AEAD.toy s0 addrA privA 30 xnA s0 :=
  srvOpen_of_fresh s0_empty.inv rfl rfl rfl (by decide) (by decide +kernel) (by decide)

/-- B1: a first round of 100 ms and a second of 16 ms connect both sides -/
example : ∃ c1 s1 c2 s2, round AEAD.toy addrA srvAddr privA.clientId .delivered 100000000 (C18P.cT, s0) = some (c1, s1) ∧
    c1.state = .sendingConnectionResponse ∧
    round AEAD.toy addrA srvAddr privA.clientId .delivered 16000000 (c1, s1) = some (c2, s2) ∧
    Established addrA privA 30 c2 s2 ∧ s2.isClientConnected privA.clientId = true ∧
    c2.currentTime = C18P.cT.currentTime + 100000000 + 16000000 ∧
    s2.currentTime = s0.currentTime + 100000000 + 16000000 :=
  handshake_through_update (me := srvAddr) tokOK_toy cliReq_cT rfl rfl srvOpen_s0
    ⟨⟨by decide, by decide, by decide, by decide, Or.inr (by decide)⟩, by decide, by decide, Or.inr (by decide),
      by decide, by decide, by decide⟩

/-- … and from `NetcodeClient::new` with the raw hypotheses -/
theorem cT_new : NetcodeClient.new 0 C18P.cT.connectToken = .ok C18P.cT := by decide +kernel
example : ∃ c1 s1 c2 s2, round AEAD.toy addrA srvAddr privA.clientId .delivered 250000000 (C18P.cT, s0) = some (c1, s1) ∧
    c1.state = .sendingConnectionResponse ∧
    round AEAD.toy addrA srvAddr privA.clientId .delivered 250000000 (c1, s1) = some (c2, s2) ∧
    c2.state = .connected ∧ s2.isClientConnected privA.clientId = true ∧
    (∃ i cn, At s2.clients i cn ∧ cn.clientId = privA.clientId ∧ cn.addr = addrA ∧ cn.userData = privA.userData) ∧
    c2.currentTime = 0 + 250000000 + 250000000 ∧ s2.currentTime = s0.currentTime + 250000000 + 250000000 :=
  handshake_from_new (me := srvAddr) (t := privA) (expire := 30) (xnonce := xnA) AEAD.toy_laws s0_empty.inv
    C18P.privA_wf rfl (by decide) (by decide) (fun _ => ⟨srvAddr, by simp [privA], by simp [s0]⟩) rfl rfl rfl (by decide)
    (by decide +kernel) (by decide) cT_new ⟨rfl, rfl, rfl, rfl, rfl, rfl⟩ rfl (by decide) (by decide) (by decide)
    (by decide) (Or.inr (by decide)) (by decide) (by decide) (Or.inr (by decide))

/-- B2: request lost, challenge lost, delivered round, response lost, keep-alive lost, a round shorter than the send
    rate, delivered round — connected after 1.6 s -/
example : ∃ c' s', runRounds AEAD.toy addrA srvAddr privA.clientId
      ([(.upLost, 250000000), (.downLost, 250000000)] ++ (.delivered, 250000000) ::
        ([(.upLost, 250000000), (.downLost, 250000000), (.downLost, 100000000)] ++ [(.delivered, 250000000)]))
      (C18P.cT, s0) = some (c', s') ∧
    Established addrA privA 30 c' s' ∧ s'.isClientConnected privA.clientId = true ∧
    c'.currentTime = C18P.cT.currentTime + 1600000000 ∧ s'.currentTime = s0.currentTime + 1600000000 :=
  handshake_despite_loss (me := srvAddr) (l₁ := [(.upLost, 250000000), (.downLost, 250000000)])
    (l₂ := [(.upLost, 250000000), (.downLost, 250000000), (.downLost, 100000000)]) (d₁ := 250000000) (d₂ := 250000000)
    tokOK_toy cliReq_cT rfl srvOpen_s0 (by decide) (by decide) (by decide) (by decide) (by decide)
    ⟨⟨by decide, by decide, by decide, by decide, Or.inr (by decide)⟩, by decide, by decide, Or.inr (by decide),
      by decide, by decide, by decide⟩

/-- the single steps on the same values -/
example : C18P.cT.update AEAD.toy 250000000 = .ok (some (requestBytes AEAD.toy s0 privA 30 xnA, srvAddr),
    { C18P.cT with currentTime := 250000000, lastPacketSendTime := some 250000000, sequence := 1 }) :=
  request_retransmitted (T := 1000000000) tokOK_toy cliReq_cT
    ⟨by decide, by decide, by decide, by decide, Or.inr (by decide)⟩ (by decide) (by decide) (by decide)
example : ∃ s' s'', s0.processPacket AEAD.toy addrA (requestBytes AEAD.toy s0 privA 30 xnA) =
      .ok (.packetToSend addrA (challengeBytes AEAD.toy s0 privA), s') ∧
    s'.processPacket AEAD.toy addrA (requestBytes AEAD.toy s0 privA 30 xnA) =
      .ok (.packetToSend addrA (challengeBytes AEAD.toy s' privA), s'') ∧
    s''.challengeSequence = s0.challengeSequence + 2 := by
  obtain ⟨s', s'', h1, h2, _, _, h3⟩ := duplicate_request_challenged tokOK_toy srvOpen_s0 (by decide) (by decide) (by decide)
  exact ⟨s', s'', h1, h2, h3⟩

/-- B3: a token listing `srvAddr` (silent) and `srv2`; the server `sB` listens on `srv2` -/
def privF : PrivateConnectToken := ⟨11, 5, some srvAddr :: some srv2 :: List.replicate 30 none, kc2s, ks2c, udA⟩
def sB : NetcodeServer := { s0 with publicAddresses := [srv2] }
def cF2 : NetcodeClient :=
  { cA0 with connectToken := { tokenA with serverAddresses := some srvAddr :: some srv2 :: List.replicate 30 none
                                           privateData := sealedPriv AEAD.toy sB privF 30 xnA } }

theorem privF_wf : NcAead.Token.PTokenWF privF :=
  ⟨by decide, by decide, by decide,
    ⟨[srvAddr, srv2], by simp, by decide, by intro x hx; simp at hx; rcases hx with rfl | rfl <;> decide, rfl⟩,
    List.length_replicate, List.length_replicate, List.length_replicate⟩
theorem sB_empty : EmptyServer sB := ⟨rfl, by decide, rfl, 3, by decide, rfl⟩
theorem tokOK_F : TokOK AEAD.toy sB privF 30 xnA :=
  ⟨AEAD.toy_laws, privF_wf, rfl, by decide, by decide, fun _ => ⟨srv2, by simp [privF], by simp [sB]⟩⟩
theorem cliReq_cF2 : CliReq AEAD.toy sB privF 30 xnA cF2 :=
  ⟨rfl, ⟨rfl, rfl, rfl, rfl, rfl, rfl⟩, (fun _ e => by cases e), rp_new_fresh⟩
theorem srvOpen_sB : SrvOpen AEAD.toy sB addrA privF 30 xnA sB :=
  srvOpen_of_fresh sB_empty.inv rfl rfl rfl (by decide) (by decide +kernel) (by decide)

/-- two rounds of 2.5 s towards the silent first server (5 s = the time-out, not yet exceeded), then a 250 ms round in
    which the time-out fires and the request goes to `srv2`, then one more round: connected to `sB` after 5.5 s -/
example : ∃ c1 s1 c2 s2 c3 s3,
    runRounds AEAD.toy addrA srv2 privF.clientId [(.delivered, 2500000000), (.upLost, 2500000000)] (cF2, sB) = some (c1, s1) ∧
    c1.state = .sendingConnectionRequest ∧ c1.serverAddr = cF2.serverAddr ∧
    round AEAD.toy addrA srv2 privF.clientId .delivered 250000000 (c1, s1) = some (c2, s2) ∧
    c2.state = .sendingConnectionResponse ∧ c2.serverAddr = srv2 ∧
    c2.connectStartTime = cF2.currentTime + totalTime [(.delivered, 2500000000), (.upLost, 2500000000)] + 250000000 ∧
    round AEAD.toy addrA srv2 privF.clientId .delivered 250000000 (c2, s2) = some (c3, s3) ∧
    runRounds AEAD.toy addrA srv2 privF.clientId
      ([(.delivered, 2500000000), (.upLost, 2500000000)] ++ [(.delivered, 250000000), (.delivered, 250000000)])
      (cF2, sB) = some (c3, s3) ∧
    Established addrA privF 30 c3 s3 ∧ s3.isClientConnected privF.clientId = true ∧
    c3.currentTime = cF2.currentTime + totalTime [(.delivered, 2500000000), (.upLost, 2500000000)] + 250000000 + 250000000 :=
  failover_connects (me := srv2) (pre := [(.delivered, 2500000000), (.upLost, 2500000000)]) (d₁ := 250000000)
    (d₂ := 250000000) tokOK_F cliReq_cF2 (by decide) (by decide +kernel) (by decide) srvOpen_sB
    ⟨⟨by decide, by decide, by decide, by decide, Or.inr (by decide)⟩, by decide, by decide, Or.inr (by decide),
      by decide, by decide, by decide⟩
    ⟨by decide, by decide⟩ (by decide) (by decide) (by decide) (Or.inr (by decide)) (by decide) (by decide) (by decide)

end Examples

end RenetVerif.C18T
