/-
  C08 — "The sender stops retransmitting a reliable message and gives its bytes back to the channel's
  available memory only after every packet needed to rebuild that message has actually been handed to
  the peer endpoint; an endpoint never acknowledges a packet sequence number it did not receive.  Lost,
  duplicated, reordered or stale acknowledgements can delay that release but never cause it early."

  Also: the send half of C06 (hostile ack packets never panic) and C09 (send-side memory accounting).

  Model: Renet/Channels.lean (`SendRel` = SendChannelReliable) and Renet/Conn.lean (`Conn` = RenetClient).
  All proofs are in Lemmas/SendInv.lean (namespace `RenetVerif.SI`); this file states the results.

  Reading guide.  `c.sent` is the sender's table  sequence number ↦ (time, what that packet carried);
  an entry is written only by `get_packets_to_send` for a packet it has just produced.  A message is
  "released" when its id leaves `unacked` (from then on it is never retransmitted, and `mem`, which is
  exactly the sum of the stored message lengths, drops by its length).
-/
import RenetVerif.Lemmas.SendInv
namespace RenetVerif.C08
open RenetVerif RenetVerif.SI

/-! ## A. channel level -/

/-- a new channel satisfies the invariant -/
theorem channel_new (ch resend maxMem : Nat) : (SendRel.new ch resend maxMem).Inv := SendRel.new_inv ch resend maxMem

/-- C09 (send side): under the invariant the available memory is exactly the budget minus the bytes of
    the messages still awaiting acknowledgement, and usage never exceeds the budget -/
theorem channel_memory_exact (s : SendRel) (h : s.Inv) : s.available = s.maxMem - msum s.unacked ∧ s.mem ≤ s.maxMem :=
  ⟨h.available_eq, h.bound⟩

/-- sliced entries: slice count is `ceil(len / SLICE_SIZE) ≥ 2`, bitmaps have that length, the counter equals
    the number of marked slices and is below the slice count -/
theorem channel_sliced_shape (s : SendRel) (h : s.Inv) (id : Nat) (m : Bytes) (n k nx : Nat) (a : List Bool)
    (ls : List (Option Nat)) (hf : SMap.find? s.unacked id = some (.sliced m n k nx a ls)) :
    C.SLICE_SIZE < m.length ∧ n = divCeil m.length C.SLICE_SIZE ∧ 2 ≤ n ∧ a.length = n ∧ ls.length = n ∧
    k = a.count true ∧ k < n ∧ id < s.nextId := by
  have ho := h.find_ok hf
  have h2 := Unacked.OK.two_le ho
  obtain ⟨o1, o2, o3, o4, o5, o6⟩ := ho
  exact ⟨o1, o2, h2, o3, o4, o5, o6, h.find_lt hf⟩

/-- `send_message` (ok case) keeps the invariant, is a `Step` (old recorded infos stay consistent), uses exactly
    `m.length` more bytes and binds the fresh id `nextId` without touching any other entry -/
theorem channel_sendMessage (s s' : SendRel) (m : Bytes) (h : s.Inv) (hs : s.sendMessage m = .ok s') :
    s'.Inv ∧ s.Step s' ∧ s'.mem = s.mem + m.length ∧ s'.nextId = s.nextId + 1 ∧
    (∃ u, u.msg = m ∧ SMap.find? s'.unacked s.nextId = some u) ∧
    (∀ id, id ≠ s.nextId → SMap.find? s'.unacked id = SMap.find? s.unacked id) :=
  SendRel.sendMessage_spec h hs

/-- `get_packets_to_send` (any sequence number, byte budget and time) keeps the invariant, changes only send
    times / round-robin cursors (`MapSim`), and every packet it emits names a stored message of the right kind,
    with `slice_index < num_slices` and the genuine payload -/
theorem channel_getPackets (s s' : SendRel) (seq avail now : Nat) (ps : List Packet) (seq' avail' : Nat) (h : s.Inv)
    (hg : s.getPackets seq avail now = (s', ps, seq', avail')) :
    s'.Inv ∧ s.Step s' ∧ s'.mem = s.mem ∧ s'.nextId = s.nextId ∧ MapSim s.unacked s'.unacked ∧ seq ≤ seq' ∧
    ∀ p ∈ ps, PktOK s'.ch s'.unacked p ∧ seq ≤ p.sequence ∧ p.sequence < seq' :=
  SendRel.getPackets_spec h seq avail now s' ps seq' avail' hg

/-- a recorded info that was consistent stays consistent after any sequence of channel operations -/
theorem channel_info_stable (s s' : SendRel) (info : SentInfo) (hst : s.Step s') (hi : s.InfoOK info) : s'.InfoOK info :=
  hi.step hst

/-- C06 (send side): acknowledging a message id taken from a consistent `relMsgs` info never panics -/
theorem channel_message_ack_safe (s : SendRel) (h : s.Inv) (ch : Nat) (ids : List Nat) (id : Nat)
    (hi : s.InfoOK (.relMsgs ch ids)) (hid : id ∈ ids) :
    ∃ s', s.processMessageAck id = .ok s' ∧ s'.Inv ∧ s.Step s' := by
  obtain ⟨s', e, i, st, -⟩ := SendRel.processMessageAck_spec h id (hi id hid).2
  exact ⟨s', e, i, st⟩

/-- C06 (send side): acknowledging a slice taken from a consistent `relSlice` info never panics -/
theorem channel_slice_ack_safe (s : SendRel) (h : s.Inv) (ch id idx : Nat) (hi : s.InfoOK (.relSlice ch id idx)) :
    ∃ s', s.processSliceAck id idx = .ok s' ∧ s'.Inv ∧ s.Step s' := by
  obtain ⟨s', e, i, st, -⟩ := SendRel.processSliceAck_spec h id idx hi.2
  exact ⟨s', e, i, st⟩

/-- a sliced message is released by a slice ack only when that ack marks the last unmarked slice -/
theorem channel_slice_release_all_marked (s s' : SendRel) (h : s.Inv) (id idx : Nat) (m : Bytes) (n k nx : Nat)
    (a : List Bool) (ls : List (Option Nat)) (hf : SMap.find? s.unacked id = some (.sliced m n k nx a ls))
    (hidx : idx < n) (hr : s.processSliceAck id idx = .ok s') (hout : SMap.find? s'.unacked id = none) :
    ∀ i, i < n → i ≠ idx → a[i]? = some true := by
  have hk : ∀ u, SMap.find? s.unacked id = some u → u.SliceIdx idx := by
    intro u hu; rw [hf] at hu; cases hu; exact hidx
  obtain ⟨-, pe⟩ := SendRel.processSliceAck_step h hk hr
  obtain ⟨-, -, o3, -⟩ := h.find_ok hf
  intro i hi hne
  cases hb : a[i]? with
  | none => rw [List.getElem?_eq_none_iff] at hb; omega
  | some b =>
    cases b with
    | true => rfl
    | false =>
      rcases pe id i ⟨m, n, k, nx, a, ls, hf, hb⟩ with ⟨-, e⟩ | ⟨m', n', k', nx', a', ls', hf', -⟩
      · exact absurd e hne
      · rw [hout] at hf'; cases hf'

/-! ## B. connection level: `SendInv` is an invariant of every operation -/

theorem conn_new (budget : Nat) (send recv : List ChanCfg) :
    (Conn.fromChannels budget send recv).SendInv ∧ Acks.WF (Conn.fromChannels budget send recv).pendingAcks :=
  ⟨Conn.fromChannels_inv budget send recv, Conn.fromChannels_acks budget send recv⟩

theorem conn_sendMessage (c c' : Conn) (ch : Nat) (m : Bytes) (h : c.SendInv) (hr : c.sendMessage ch m = .ok c') :
    c'.SendInv := Conn.sendMessage_inv h hr

theorem conn_receiveMessage (c c' : Conn) (ch : Nat) (m : Option Bytes) (h : c.SendInv)
    (hr : c.receiveMessage ch = .ok (c', m)) : c'.SendInv := h.same (Conn.receiveMessage_same hr).1

theorem conn_update (c c' : Conn) (dt : Nat) (h : c.SendInv) (hr : c.update dt = .ok c') : c'.SendInv :=
  Conn.update_inv h hr

theorem conn_getPacketsToSend (c c' : Conn) (out : List Bytes) (h : c.SendInv) (hw : Acks.WF c.pendingAcks)
    (hr : c.getPacketsToSend = .ok (c', out)) : c'.SendInv := (Conn.getPacketsToSend_spec h hw hr).1

/-- for EVERY byte string -/
theorem conn_processPacket (c c' : Conn) (bytes : Bytes) (h : c.SendInv) (hr : c.processPacket bytes = .ok c') :
    c'.SendInv := Conn.processPacket_inv h hr

/-- C06 (send half): a datagram that fails to decode, or decodes to an ack packet — whatever ranges it
    claims — never makes `process_packet` panic -/
theorem hostile_ack_never_panics (c : Conn) (bytes : Bytes) (h : c.SendInv)
    (hk : (∃ e, Packet.fromBytes bytes = .error e) ∨ ∃ aseq ranges, Packet.fromBytes bytes = .ok (.ack aseq ranges)) :
    ∃ c', c.processPacket bytes = .ok c' ∧ c'.SendInv := by
  obtain ⟨c', e⟩ := Conn.processPacket_no_panic_ack h hk
  exact ⟨c', e, Conn.processPacket_inv h e⟩

/-- composition with the receive side: if the receive-channel sub-step selected by the packet does not
    panic (Lemmas/RecvInv), `process_packet` does not panic -/
theorem processPacket_never_panics (c : Conn) (bytes : Bytes) (h : c.SendInv)
    (hrecv : ∀ p, Packet.fromBytes bytes = .ok p → RecvNoPanic c p) :
    ∃ c', c.processPacket bytes = .ok c' ∧ c'.SendInv := by
  obtain ⟨c', e⟩ := Conn.processPacket_no_panic h hrecv
  exact ⟨c', e, Conn.processPacket_inv h e⟩

/-- **Characterisation of a flush** on a live connection.  `get_packets_to_send` can unwind only inside packet
    serialisation (C16); every entry it adds to the sent table is filed under the sequence number of a
    packet `p` of this very flush (`pk` is exactly the list handed to serialisation, i.e. to the peer
    endpoint), with the info computed from `p`, under a fresh number `≥ packetSeq`; older entries are never
    overwritten. -/
theorem flush_records_exactly_what_is_emitted (c : Conn) (h : c.SendInv) (hw : Acks.WF c.pendingAcks)
    (hd : c.isDisconnected = false) :
    ∃ (c1 : Conn) (pk : List Packet),
      c.getPacketsToSend =
        (match Conn.serialiseAll pk with
         | .ok bs => .ok (c1, bs)
         | .err e => .ok (c1.disconnectWith (.packetSer e), [])
         | .panic s => .panic s) ∧
      (∀ x ∈ c1.sent, x ∈ c.sent ∨
        ∃ p ∈ pk, x.1 = p.sequence ∧ c.packetSeq ≤ p.sequence ∧ Conn.sentInfoOf p = .ok x.2.2) ∧
      (∀ k v, SMap.find? c.sent k = some v → SMap.find? c1.sent k = some v) := by
  obtain ⟨c1, pk0, seq0, e, -, -, -, -, -, -, -, -, -, n1, n2⟩ := Conn.getPacketsToSend_char h hw hd
  exact ⟨c1, _, e, n1, n2⟩

/-- a disconnected endpoint ignores every datagram: once a flush failed (and nothing was handed to the peer)
    no release can happen any more -/
theorem disconnected_ignores_packets (c : Conn) (bytes : Bytes) (hd : c.isDisconnected = true) :
    c.processPacket bytes = .ok c := by
  unfold Conn.processPacket; rw [hd]; rfl

/-! ## C. the C08 statement -/

/-- **Release only by a matching acknowledgement.**  If message `id` of channel `ch` is awaiting
    acknowledgement before `process_packet` and no longer afterwards, then the datagram is an ack packet,
    one of its ranges covers a sequence number `seq`, and `seq` is recorded in the sender's table as a packet
    this endpoint produced that carried message `id` (as a whole small message, or one of its slices). -/
theorem release_only_by_ack (c c' : Conn) (bytes : Bytes) (h : c.SendInv) (hp : c.processPacket bytes = .ok c')
    (ch id : Nat) (s s' : SendRel) (hs : SMap.find? c.sendRel ch = some s) (hs' : SMap.find? c'.sendRel ch = some s')
    (hin : SMap.contains s.unacked id = true) (hout : ¬ SMap.contains s'.unacked id = true) :
    ∃ seq ranges aseq t info, Packet.fromBytes bytes = .ok (.ack aseq ranges) ∧
      (∃ r ∈ ranges, r.1 ≤ seq ∧ seq < r.2) ∧ SMap.find? c.sent seq = some (t, info) ∧
      ((∃ ids, info = .relMsgs ch ids ∧ id ∈ ids) ∨ ∃ idx, info = .relSlice ch id idx) := by
  rcases Conn.processPacket_eff h hp with hsame | ⟨aseq, ranges, L, hpk, hL, heff⟩
  · rw [hsame, hs] at hs'; cases hs'; exact absurd hin hout
  · obtain ⟨s2, hs2, eff⟩ := heff ch s hs
    rw [hs'] at hs2; cases hs2
    obtain ⟨v, hv⟩ := contains_iff.mp hin
    obtain ⟨seq, hseq, t, info, hf, hn⟩ := eff.just id (by rw [hv]; simp) (not_contains_iff.mp hout)
    exact ⟨seq, ranges, aseq, t, info, hpk, Acks.mem_iff_exists.mp (hL seq hseq), hf, hn⟩

/-- **Each slice is marked only by an ack of a packet that carried exactly that slice.**  If slice `i` of
    message `id` is stored-and-unmarked before `process_packet` and not afterwards (marked, or the whole
    message released), then the datagram is an ack packet covering a recorded packet `relSlice ch id i`. -/
theorem slice_marked_only_by_ack (c c' : Conn) (bytes : Bytes) (h : c.SendInv) (hp : c.processPacket bytes = .ok c')
    (ch id i : Nat) (s s' : SendRel) (hs : SMap.find? c.sendRel ch = some s) (hs' : SMap.find? c'.sendRel ch = some s')
    (hpend : s.Pending id i) (hnot : ¬ s'.Pending id i) :
    ∃ seq ranges aseq t, Packet.fromBytes bytes = .ok (.ack aseq ranges) ∧
      (∃ r ∈ ranges, r.1 ≤ seq ∧ seq < r.2) ∧ SMap.find? c.sent seq = some (t, .relSlice ch id i) := by
  rcases Conn.processPacket_eff h hp with hsame | ⟨aseq, ranges, L, hpk, hL, heff⟩
  · rw [hsame, hs] at hs'; cases hs'; exact absurd hpend hnot
  · obtain ⟨s2, hs2, eff⟩ := heff ch s hs
    rw [hs'] at hs2; cases hs2
    rcases eff.pend id i hpend with hp2 | ⟨seq, hseq, t, hf⟩
    · exact absurd hp2 hnot
    · exact ⟨seq, ranges, aseq, t, hpk, Acks.mem_iff_exists.mp (hL seq hseq), hf⟩

/-- **A sliced message is released only after every one of its slices was acknowledged**: when a sliced
    message with `n` slices leaves `unacked` during `process_packet`, every slice index `i < n` was either
    already marked, or this very ack packet covers a recorded packet that carried slice `i`. -/
theorem sliced_release_needs_every_slice (c c' : Conn) (bytes : Bytes) (h : c.SendInv)
    (hp : c.processPacket bytes = .ok c') (ch id : Nat) (s s' : SendRel)
    (hs : SMap.find? c.sendRel ch = some s) (hs' : SMap.find? c'.sendRel ch = some s')
    (m : Bytes) (n k nx : Nat) (a : List Bool) (ls : List (Option Nat))
    (hf : SMap.find? s.unacked id = some (.sliced m n k nx a ls)) (hout : SMap.find? s'.unacked id = none)
    (i : Nat) (hi : i < n) :
    a[i]? = some true ∨
    ∃ seq ranges aseq t, Packet.fromBytes bytes = .ok (.ack aseq ranges) ∧
      (∃ r ∈ ranges, r.1 ≤ seq ∧ seq < r.2) ∧ SMap.find? c.sent seq = some (t, .relSlice ch id i) := by
  obtain ⟨-, -, o3, -⟩ := (h.chans ch s hs).1.find_ok hf
  cases hb : a[i]? with
  | none => rw [List.getElem?_eq_none_iff] at hb; omega
  | some b =>
    cases b with
    | true => exact Or.inl rfl
    | false =>
      right
      refine slice_marked_only_by_ack c c' bytes h hp ch id i s s' hs hs' ⟨m, n, k, nx, a, ls, hf, hb⟩ ?_
      rintro ⟨m', n', k', nx', a', ls', hf', -⟩
      rw [hout] at hf'; cases hf'

/-- **Available memory rises only through a release** (and the release is justified by `release_only_by_ack`) -/
theorem available_rises_only_on_release (c c' : Conn) (bytes : Bytes) (h : c.SendInv)
    (hp : c.processPacket bytes = .ok c') (ch : Nat) (s s' : SendRel)
    (hs : SMap.find? c.sendRel ch = some s) (hs' : SMap.find? c'.sendRel ch = some s')
    (hav : s.available < s'.available) :
    ∃ id, SMap.contains s.unacked id = true ∧ ¬ SMap.contains s'.unacked id = true := by
  rcases Conn.processPacket_eff h hp with hsame | ⟨aseq, ranges, L, hpk, hL, heff⟩
  · rw [hsame, hs] at hs'; cases hs'; exact absurd hav (Nat.lt_irrefl _)
  · obtain ⟨s2, hs2, eff⟩ := heff ch s hs
    rw [hs'] at hs2; cases hs2
    have hmax := eff.maxMem
    unfold SendRel.available at hav
    obtain ⟨id, h1, h2⟩ := eff.memLt (by omega)
    refine ⟨id, ?_, not_contains_iff.mpr h2⟩
    cases hv : SMap.find? s.unacked id with
    | none => exact absurd hv h1
    | some v => exact contains_iff.mpr ⟨v, hv⟩

/-- no other operation ever releases a message or raises available memory: `send_message` -/
theorem sendMessage_never_releases (c c' : Conn) (ch0 : Nat) (m : Bytes) (h : c.SendInv)
    (hr : c.sendMessage ch0 m = .ok c') (ch : Nat) (s : SendRel) (hs : SMap.find? c.sendRel ch = some s) :
    ∃ s', SMap.find? c'.sendRel ch = some s' ∧ s'.available ≤ s.available ∧
      (∀ id, SMap.contains s.unacked id = true → SMap.contains s'.unacked id = true) ∧
      (∀ id i, s.Pending id i → s'.Pending id i) := by
  obtain ⟨s', a1, a2, a3, a4, a5⟩ := Conn.sendMessage_keeps h hr hs
  refine ⟨s', a1, by unfold SendRel.available; omega, ?_, a5⟩
  intro id hc
  obtain ⟨v, hv⟩ := contains_iff.mp hc
  exact contains_iff.mpr ⟨v, a4 id v hv⟩

/-- … `get_packets_to_send` (retransmission changes send times only) -/
theorem getPacketsToSend_never_releases (c c' : Conn) (out : List Bytes) (h : c.SendInv) (hw : Acks.WF c.pendingAcks)
    (hr : c.getPacketsToSend = .ok (c', out)) (ch : Nat) (s : SendRel) (hs : SMap.find? c.sendRel ch = some s) :
    ∃ s', SMap.find? c'.sendRel ch = some s' ∧ s'.available = s.available ∧
      (∀ id, SMap.contains s'.unacked id = SMap.contains s.unacked id) ∧
      (∀ id i, s.Pending id i → s'.Pending id i) := by
  obtain ⟨s', a1, a2, a3, a4, a5⟩ := (Conn.getPacketsToSend_spec h hw hr).2.2.1.keeps hs
  exact ⟨s', a1, by unfold SendRel.available; rw [a2, a3], a4, a5⟩

/-- … `update` (which only forgets old entries of the sent table) and `receive_message` -/
theorem update_never_releases (c c' : Conn) (dt : Nat) (hr : c.update dt = .ok c') : c'.sendRel = c.sendRel :=
  (Conn.update_spec hr).1

theorem receiveMessage_never_releases (c c' : Conn) (ch : Nat) (m : Option Bytes)
    (hr : c.receiveMessage ch = .ok (c', m)) : c'.sendRel = c.sendRel := (Conn.receiveMessage_same hr).1.1

/-- the sent table only shrinks while packets are processed or time passes: an ack can only ever refer
    to an entry written by an earlier `get_packets_to_send` -/
theorem sent_table_only_shrinks_on_process (c c' : Conn) (bytes : Bytes) (h : c.SendInv)
    (hp : c.processPacket bytes = .ok c') (k : Nat) (v : Nat × SentInfo) (hk : SMap.find? c'.sent k = some v) :
    SMap.find? c.sent k = some v := by
  rcases Conn.processPacket_cases hp with ⟨hs, -, -⟩ | ⟨p, -, -, hs, -⟩ | ⟨aseq, ranges, L, hd, hpk, -, -⟩
  · rw [hs.2.2.1] at hk; exact hk
  · rw [hs.2.2.1] at hk; exact hk
  · obtain ⟨L', c2, -, e, -, -, -, mono⟩ := Conn.processPacket_ack_spec h hd hpk
    rw [e] at hp; cases hp
    exact mono k v hk

/-! ## D. pending acks ⊆ received -/

/-- **An endpoint never acknowledges a sequence number it did not receive**: after `process_packet` the set
    denoted by the pending-ack list is contained in the old set plus the sequence number of the packet just
    parsed; and the list stays well formed -/
theorem pending_acks_only_received (c c' : Conn) (bytes : Bytes) (h : c.SendInv) (hw : Acks.WF c.pendingAcks)
    (hp : c.processPacket bytes = .ok c') :
    Acks.WF c'.pendingAcks ∧
    ∀ x, Acks.Mem x c'.pendingAcks →
      Acks.Mem x c.pendingAcks ∨ ∃ p, Packet.fromBytes bytes = .ok p ∧ x = p.sequence :=
  Conn.processPacket_acks h hw hp

/-- no other operation touches the pending-ack list -/
theorem pending_acks_unchanged_elsewhere (c : Conn) :
    (∀ c' ch m, c.sendMessage ch m = .ok c' → c'.pendingAcks = c.pendingAcks) ∧
    (∀ c' ch m, c.receiveMessage ch = .ok (c', m) → c'.pendingAcks = c.pendingAcks) ∧
    (∀ c' dt, c.update dt = .ok c' → c'.pendingAcks = c.pendingAcks) ∧
    (∀ c' out, c.SendInv → Acks.WF c.pendingAcks → c.getPacketsToSend = .ok (c', out) → c'.pendingAcks = c.pendingAcks) := by
  refine ⟨?_, fun c' ch m hr => (Conn.receiveMessage_same hr).2, fun c' dt hr => (Conn.update_spec hr).2.2.2.2.1,
    fun c' out h hw hr => (Conn.getPacketsToSend_spec h hw hr).2.1⟩
  intro c' ch m hr
  unfold Conn.sendMessage at hr
  split at hr
  · cases hr; rfl
  · split at hr
    · split at hr
      · cases hr; rfl
      · cases hr; exact (Conn.disconnectWith_same c _).2.1
    · split at hr
      · cases hr; rfl
      · cases hr

/-- the acknowledgement that is sent denotes exactly the pending list: the packets handed to serialisation
    are non-ack packets followed by `Packet.ack seq c.pendingAcks` (C16 `ack_packet_denotes`: it decodes to
    exactly that list) -/
theorem sent_ack_is_exactly_pending (c c' : Conn) (out : List Bytes) (h : c.SendInv) (hw : Acks.WF c.pendingAcks)
    (hd : c.isDisconnected = false) (hne : c.pendingAcks ≠ []) (hr : c.getPacketsToSend = .ok (c', out)) :
    ∃ pk0 seq0, (∀ p ∈ pk0, isAckPkt p = false) ∧
      (Conn.serialiseAll (pk0 ++ [Packet.ack seq0 c.pendingAcks]) = .ok out ∨
       ∃ e, Conn.serialiseAll (pk0 ++ [Packet.ack seq0 c.pendingAcks]) = .err e ∧ out = []) :=
  Conn.getPacketsToSend_ack h hw hd hne hr

/-- … and what is actually put on the wire (the last datagram of the flush) decodes to exactly the pending list -/
theorem wire_ack_is_exactly_pending (c c' : Conn) (out : List Bytes) (h : c.SendInv) (hw : Acks.WF c.pendingAcks)
    (hd : c.isDisconnected = false) (hne : c.pendingAcks ≠ []) (hr : c.getPacketsToSend = .ok (c', out))
    (hout : out ≠ []) :
    ∃ seq0 b, out.getLast? = some b ∧ Packet.fromBytes b = .ok (.ack seq0 c.pendingAcks) :=
  Conn.getPacketsToSend_wire_ack h hw hd hne hr hout

/-! ## E. every reachable state -/

/-- states reachable from a fresh connection by any interleaving of API calls and arbitrary incoming datagrams -/
inductive Reach (budget : Nat) (send recv : List ChanCfg) : Conn → Prop
  | init : Reach budget send recv (Conn.fromChannels budget send recv)
  | sendMessage {c c' ch m} : Reach budget send recv c → c.sendMessage ch m = .ok c' → Reach budget send recv c'
  | receiveMessage {c c' ch m} : Reach budget send recv c → c.receiveMessage ch = .ok (c', m) → Reach budget send recv c'
  | update {c c' dt} : Reach budget send recv c → c.update dt = .ok c' → Reach budget send recv c'
  | flush {c c' out} : Reach budget send recv c → c.getPacketsToSend = .ok (c', out) → Reach budget send recv c'
  | packet {c c' bytes} : Reach budget send recv c → c.processPacket bytes = .ok c' → Reach budget send recv c'
  | disconnect {c r} : Reach budget send recv c → Reach budget send recv (c.disconnectWith r)
  | connected {c} : Reach budget send recv c → Reach budget send recv c.setConnected
  | connecting {c} : Reach budget send recv c → Reach budget send recv c.setConnecting

/-- the send-side invariant and well-formedness of the pending acks hold in every reachable state -/
theorem reach_inv {budget : Nat} {send recv : List ChanCfg} {c : Conn} (hr : Reach budget send recv c) :
    c.SendInv ∧ Acks.WF c.pendingAcks := by
  induction hr with
  | init => exact conn_new _ _ _
  | sendMessage _ h ih => exact ⟨Conn.sendMessage_inv ih.1 h, by rw [(pending_acks_unchanged_elsewhere _).1 _ _ _ h]; exact ih.2⟩
  | receiveMessage _ h ih => exact ⟨ih.1.same (Conn.receiveMessage_same h).1, by rw [(Conn.receiveMessage_same h).2]; exact ih.2⟩
  | update _ h ih => exact ⟨Conn.update_inv ih.1 h, by rw [(Conn.update_spec h).2.2.2.2.1]; exact ih.2⟩
  | flush _ h ih =>
    obtain ⟨a, b, -⟩ := Conn.getPacketsToSend_spec ih.1 ih.2 h
    exact ⟨a, by rw [b]; exact ih.2⟩
  | packet _ h ih => exact ⟨Conn.processPacket_inv ih.1 h, (Conn.processPacket_acks ih.1 ih.2 h).1⟩
  | disconnect _ ih =>
    obtain ⟨a, b, -⟩ := Conn.disconnectWith_same _ _
    exact ⟨ih.1.same a, by rw [b]; exact ih.2⟩
  | @connected c _ ih =>
    unfold Conn.setConnected; split
    · exact ih
    · exact ⟨ih.1.same ⟨rfl, rfl, rfl, rfl, rfl⟩, ih.2⟩
  | @connecting c _ ih =>
    unfold Conn.setConnecting; split
    · exact ih
    · exact ⟨ih.1.same ⟨rfl, rfl, rfl, rfl, rfl⟩, ih.2⟩

/-- C06 (send half), unconditional form: in every reachable state, a datagram that does not decode or decodes
    to an ack packet is processed without panic -/
theorem reachable_hostile_ack_never_panics {budget : Nat} {send recv : List ChanCfg} {c : Conn}
    (hr : Reach budget send recv c) (bytes : Bytes)
    (hk : (∃ e, Packet.fromBytes bytes = .error e) ∨ ∃ aseq ranges, Packet.fromBytes bytes = .ok (.ack aseq ranges)) :
    ∃ c', c.processPacket bytes = .ok c' := by
  obtain ⟨c', e, -⟩ := hostile_ack_never_panics c bytes (reach_inv hr).1 hk
  exact ⟨c', e⟩

/-! ## non-vacuity: a concrete run

  one ordered-reliable channel 0 (budget 10000 bytes, resend 100 ns) and one unreliable channel 1;
  a 3-byte message (id 0) and a 1201-byte message (id 1, two slices) are sent and flushed:
  packet 0 = slice 0 of id 1, packet 1 = slice 1 of id 1, packet 2 = small packet with id 0. -/
namespace Ex

def cfg : List ChanCfg := [⟨0, .ordered, 10000, 100⟩, ⟨1, .unreliable, 10000, 0⟩]
def val {α : Type} (x : Res Empty α) (d : α) : α := match x with | .ok a => a | _ => d
def bytesOf (p : Packet) : Bytes := match p.toBytes C.SER_BUFFER with | .ok b => b | _ => []

def big : Bytes := List.replicate 1201 7
def c0 : Conn := Conn.fromChannels 60000 cfg cfg
def c1 : Conn := val (c0.sendMessage 0 [1, 2, 3]) c0
def c2 : Conn := val (c1.sendMessage 0 (big)) c1
def c3 : Conn := (val c2.getPacketsToSend (c2, [])).1
/-- acknowledges packet 2 (the small message) -/
def ackSmall : Bytes := bytesOf (.ack 0 [(2, 3)])
/-- acknowledges packet 0 (slice 0 of message 1) -/
def ackSlice0 : Bytes := bytesOf (.ack 1 [(0, 1)])
/-- acknowledges packets 0 and 1 (both slices of message 1) and 5..9 (never sent) -/
def ackBoth : Bytes := bytesOf (.ack 2 [(0, 2), (5, 10)])
def chan (c : Conn) : SendRel := (SMap.find? c.sendRel 0).getD (SendRel.new 0 0 0)
deriving instance DecidableEq for Except

theorem c0_inv : c0.SendInv := Conn.fromChannels_inv _ _ _
theorem c1_inv : c1.SendInv := Conn.sendMessage_inv c0_inv (ch := 0) (m := [1, 2, 3]) (by decide +kernel)
theorem c2_inv : c2.SendInv := Conn.sendMessage_inv c1_inv (ch := 0) (m := big) (by decide +kernel)
theorem c3_inv : c3.SendInv :=
  (Conn.getPacketsToSend_spec c2_inv (c' := c3) (out := (val c2.getPacketsToSend (c2, [])).2)
    (by have : c2.pendingAcks = [] := by decide +kernel
        rw [this]; trivial)
    (by decide +kernel)).1

/-- the recorded table after the flush -/
example : c3.sent = [(0, (0, .relSlice 0 1 0)), (1, (0, .relSlice 0 1 1)), (2, (0, .relMsgs 0 [0]))] := by decide +kernel

/-- hypotheses of `release_only_by_ack` are met by the small message … -/
example : ∃ c', c3.processPacket ackSmall = .ok c' ∧ SMap.find? c3.sendRel 0 = some (chan c3) ∧
    SMap.find? c'.sendRel 0 = some (chan c') ∧ SMap.contains (chan c3).unacked 0 = true ∧
    ¬ SMap.contains (chan c').unacked 0 = true ∧ (chan c').available = (chan c3).available + 3 :=
  ⟨val (c3.processPacket ackSmall) c3, by decide +kernel, by decide +kernel, by decide +kernel, by decide +kernel,
   by decide +kernel, by decide +kernel⟩

/-- … and by the sliced message (released by the ack covering both slices, stale extra range ignored) -/
example : ∃ c', c3.processPacket ackBoth = .ok c' ∧ SMap.find? c3.sendRel 0 = some (chan c3) ∧
    SMap.find? c'.sendRel 0 = some (chan c') ∧ SMap.contains (chan c3).unacked 1 = true ∧
    ¬ SMap.contains (chan c').unacked 1 = true ∧ (chan c').available = (chan c3).available + 1201 :=
  ⟨val (c3.processPacket ackBoth) c3, by decide +kernel, by decide +kernel, by decide +kernel, by decide +kernel,
   by decide +kernel, by decide +kernel⟩

/-- the state after acknowledging packet 0 only -/
def c4 : Conn := val (c3.processPacket ackSlice0) c3

theorem c4_step : c3.processPacket ackSlice0 = .ok c4 := by decide +kernel
theorem c3_entry : SMap.find? (chan c3).unacked 1 =
    some (.sliced (big) 2 0 2 [false, false] [some 0, some 0]) := by decide +kernel
theorem c4_entry : SMap.find? (chan c4).unacked 1 =
    some (.sliced (big) 2 1 2 [true, false] [some 0, some 0]) := by decide +kernel

/-- hypotheses of `slice_marked_only_by_ack`: acknowledging packet 0 marks slice 0 only; the message stays
    stored, slice 1 stays pending, available memory is unchanged -/
example : c3.processPacket ackSlice0 = .ok c4 ∧ (chan c3).Pending 1 0 ∧ ¬ (chan c4).Pending 1 0 ∧
    (chan c4).Pending 1 1 ∧ SMap.contains (chan c4).unacked 1 = true ∧ (chan c4).available = (chan c3).available := by
  have h1 : (chan c3).Pending 1 0 := ⟨_, _, _, _, _, _, c3_entry, rfl⟩
  have h2 : ¬ (chan c4).Pending 1 0 := by
    rintro ⟨m, n, k, nx, a, ls, hf, ha⟩
    rw [c4_entry] at hf; cases hf; cases ha
  have h3 : (chan c4).Pending 1 1 := ⟨_, _, _, _, _, _, c4_entry, rfl⟩
  have h4 : SMap.contains (chan c4).unacked 1 = true := by decide +kernel
  have h5 : (chan c4).available = (chan c3).available := by decide +kernel
  exact ⟨c4_step, h1, h2, h3, h4, h5⟩

/-- a duplicate of the same ack afterwards changes nothing (the entry is gone from the sent table) -/
example : (val (c3.processPacket ackSmall) c3).processPacket ackSmall =
    .ok { val (c3.processPacket ackSmall) c3 with pendingAcks := [(0, 1)] } := by decide +kernel

/-- hypotheses of `hostile_ack_never_panics`: an ack for sequence numbers that were never sent -/
example : c3.SendInv ∧ Packet.fromBytes (bytesOf (.ack 7 [(100, 4000)])) = .ok (.ack 7 [(100, 4000)]) :=
  ⟨c3_inv, by decide +kernel⟩

/-- hypotheses of `pending_acks_only_received`: the ack packet's own sequence number becomes pending -/
example : Acks.WF c3.pendingAcks ∧ c4.pendingAcks = [(1, 2)] := by
  have h1 : c3.pendingAcks = [] := by decide +kernel
  have h2 : c4.pendingAcks = [(1, 2)] := by decide +kernel
  rw [h1]; exact ⟨trivial, h2⟩

/-- the state after the next flush, and what was put on the wire -/
def c5 : Conn := (val c4.getPacketsToSend (c4, [])).1
def out5 : List Bytes := (val c4.getPacketsToSend (c4, [])).2

/-- hypotheses of `sent_ack_is_exactly_pending`: the next flush sends exactly `ack [(1,2)]` -/
example : c4.SendInv ∧ Acks.WF c4.pendingAcks ∧ c4.isDisconnected = false ∧ c4.pendingAcks ≠ [] ∧
    c4.getPacketsToSend = .ok (c5, out5) ∧ out5.map Packet.fromBytes = [.ok (.ack 3 [(1, 2)])] := by
  have h0 : c4.SendInv := Conn.processPacket_inv c3_inv c4_step
  have h1 : c4.pendingAcks = [(1, 2)] := by decide +kernel
  have h2 : c4.isDisconnected = false := by decide +kernel
  have h3 : c4.getPacketsToSend = .ok (c5, out5) := by decide +kernel
  have h4 : out5.map Packet.fromBytes = [.ok (.ack 3 [(1, 2)])] := by decide +kernel
  refine ⟨h0, ?_, h2, ?_, h3, h4⟩
  · rw [h1]; simp [Acks.WF]
  · rw [h1]; simp

/-- hypotheses of `wire_ack_is_exactly_pending`: something was emitted -/
example : out5 ≠ [] ∧ out5.getLast?.map Packet.fromBytes = some (.ok (.ack 3 [(1, 2)])) :=
  ⟨by decide +kernel, by decide +kernel⟩

/-- hypotheses of `flush_records_exactly_what_is_emitted` / `getPacketsToSend_never_releases` (state `c2`: two
    queued messages, nothing sent yet; the flush records three packets and keeps both messages) -/
example : c2.SendInv ∧ Acks.WF c2.pendingAcks ∧ c2.isDisconnected = false ∧
    c2.getPacketsToSend = .ok (c3, (val c2.getPacketsToSend (c2, [])).2) ∧
    (chan c2).unacked.map (·.1) = [0, 1] ∧ (chan c3).unacked.map (·.1) = [0, 1] ∧ c2.sent = [] := by
  have h1 : c2.pendingAcks = [] := by decide +kernel
  refine ⟨c2_inv, by rw [h1]; trivial, by decide +kernel, by decide +kernel, by decide +kernel, by decide +kernel,
    by decide +kernel⟩

/-- hypotheses of the channel-level theorems: the channel of `c3` satisfies `SendRel.Inv`, holds a small and a
    sliced entry, and the recorded infos are consistent with it -/
example : (chan c3).Inv ∧ (chan c3).InfoOK (.relMsgs 0 [0]) ∧ (chan c3).InfoOK (.relSlice 0 1 1) ∧
    (chan c3).mem = 1204 ∧ (chan c3).available = 8796 := by
  have hf : SMap.find? c3.sendRel 0 = some (chan c3) := by decide +kernel
  have h1 := (c3_inv.sentOK (2, (0, .relMsgs 0 [0])) (by decide +kernel)).2 0 rfl
  have h2 := (c3_inv.sentOK (1, (0, .relSlice 0 1 1)) (by decide +kernel)).2 0 rfl
  obtain ⟨s1, e1, i1⟩ := h1
  obtain ⟨s2, e2, i2⟩ := h2
  rw [hf] at e1 e2
  have e1' := Option.some.inj e1
  have e2' := Option.some.inj e2
  subst e1' e2'
  exact ⟨(c3_inv.chans 0 _ hf).1, i1, i2, by decide +kernel, by decide +kernel⟩

/-- hypotheses of `channel_sendMessage` with a message that must be sliced, and of the memory-limit branch -/
example : ∃ s', (chan c1).sendMessage (big) = .ok s' ∧ s' = chan c2 :=
  ⟨chan c2, by decide +kernel, rfl⟩
example : (SendRel.new 0 100 5).sendMessage [1, 2, 3, 4, 5, 6] = .error .maxMemory := by decide

/-- the decoder's guarantee (ranges ascending and disjoint, `fromBytes_ack_wf`) is what keeps the ack loop
    safe: fed directly with overlapping ranges — which no byte string decodes to — the modelled loop would
    hit `sent_packets.remove(seq).unwrap()` on the second visit of sequence number 0 -/
example : (Conn.newAcks c3.sent [(0, 1), (0, 1)] >>= Conn.ackLoop c3) =
    .panic "remote_connection.rs sent_packets.remove(seq).unwrap()" := by decide +kernel

/-- `c3` is reachable (hypothesis of `reachable_hostile_ack_never_panics`) -/
example : Reach 60000 cfg cfg c3 :=
  .flush (.sendMessage (.sendMessage .init (by decide +kernel : c0.sendMessage 0 [1, 2, 3] = .ok c1))
    (by decide +kernel : c1.sendMessage 0 big = .ok c2))
    (by decide +kernel : c2.getPacketsToSend = .ok (c3, (val c2.getPacketsToSend (c2, [])).2))

/-- hypotheses of `disconnected_ignores_packets`, `conn_update`, `sendMessage_never_releases` -/
example : (c3.disconnectWith .byClient).isDisconnected = true := by decide +kernel
example : ∃ c', c3.update 5000000000 = .ok c' ∧ c'.sent = [] ∧ c'.sendRel = c3.sendRel :=
  ⟨val (c3.update 5000000000) c3, by decide +kernel, by decide +kernel, by decide +kernel⟩
example : ∃ c', c3.sendMessage 0 [9, 9] = .ok c' ∧ (chan c').unacked.map (·.1) = [0, 1, 2] :=
  ⟨val (c3.sendMessage 0 [9, 9]) c3, by decide +kernel, by decide +kernel⟩

end Ex
end RenetVerif.C08
