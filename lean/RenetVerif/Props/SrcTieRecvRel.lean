/-
  Source tie, group RecvRel: `renet/src/channel/reliable.rs`
  `ReceiveChannelReliable::{new, process_message, process_slice, receive_message}`
  ↔ `RecvRel` of `Renet/Channels.lean` (`RecvRel.new/processMessage/processSlice/receive`).

  `reprRR mr r` maps a model state to the generated struct: `messages` (`BTreeMap`) and `slices` (`HashMap`, only keyed
  access is translated) are association lists sorted by key on both sides (`RustSem.Map` / `SMap`; `MSorted` = strictly
  ascending keys; a generated `SliceConstructor` stores its key as `message_id`); `ReliableOrder::Unordered`'s
  `BTreeSet<u64>` is `setOf r.received`, the ascending list of the model's duplicate-free `received`.  The Rust field
  `most_recent_message_id` is written but never read and not part of the model: it is the parameter `mr` (`mrNext` after
  `process_message`, existentially quantified after `process_slice`).
  `process_message` / `process_slice` are `&mut self` methods returning `Result`: their `Err` carries the state they leave
  behind exactly like the model's `.err (e, r)`.  `SameOutcome` compares `ok` / `err` values exactly and panics up to the
  text of the site.
-/
import RenetVerif.Lemmas.SrcEquiv.RecvRel
namespace RenetVerif.SrcTie
open RenetVerif RenetVerif.SrcEquiv RenetVerif.RustSem
open Src.renet.channel.reliable

theorem recv_rel_new {ε : Type} (maxMem : Nat) (ordered : Bool) :
    (ReceiveChannelReliable.new maxMem ordered : Res ε _) = .ok (reprRR 0 (RecvRel.new maxMem ordered)) :=
  rr_new_eq maxMem ordered

/-- `process_message` (ordered: `if let Entry::Vacant(entry) = self.messages.entry(id)`; unordered: the `BTreeSet` of
    received ids): the model's new state, or `ReliableChannelMaxMemoryReached` with the model's state left behind -/
theorem recv_rel_process_message (mr : Nat) (r : RecvRel) (m : Bytes) (id : Nat) (hmem : r.mem + m.length < 2 ^ 64) :
    ReceiveChannelReliable.process_message (reprRR mr r) (toNats m) id =
      mapRes (fun r' => (reprRR (mrNext r mr id) r', ())) (fun e => (reprCE e.1, reprRR (mrNext r mr id) e.2))
        (r.processMessage m id) :=
  rr_process_message_eq mr r m id hmem

/-- `process_slice` on a state with a sorted slice table, a memory counter that cannot overflow when the slice's
    message is reserved, and (if the message is already being assembled) a constructor of sane size: same new state
    (including the nested `process_message` of a completed message), same error WITH the same state left behind, and a
    panic exactly when the model panics -/
theorem recv_rel_process_slice (mr : Nat) (r : RecvRel) (sl : Slice) (hs : MSorted r.slices)
    (hmem : r.mem + sl.numSlices * C.SLICE_SIZE < 2 ^ 64)
    (hctor : ∀ c, SMap.find? r.slices sl.messageId = some c → CtorOk c) :
    ∃ mr', SameOutcome (ReceiveChannelReliable.process_slice (reprRR mr r) (reprSlice sl))
      (mapRes (fun r' => (reprRR mr' r', ())) (fun e => (reprCE e.1, reprRR mr' e.2)) (r.processSlice sl)) :=
  rr_process_slice_eq mr r sl hs hmem hctor

/-- `receive_message` (ordered: `remove(&oldest)?`; unordered: `pop_first()?` and the `while` loop over the set, whose
    manifest fuel `received_messages.len() + 1` is proved sufficient): the model's new state and message; panics exactly
    when the model does -/
theorem recv_rel_receive_message {ε : Type} (mr : Nat) (r : RecvRel) (ho : r.oldest + r.received.length + 1 < 2 ^ 64)
    (hnd : r.received.Nodup) :
    SameOutcome (ReceiveChannelReliable.receive_message (reprRR mr r) : Res ε _)
      (mapRes (fun x => (reprRR mr x.1, x.2.map toNats)) (fun e => nomatch e) r.receive) :=
  rr_receive_eq mr r ho hnd

/-- ordered: a new message is stored; a duplicate is ignored -/
example : ReceiveChannelReliable.process_message ⟨[], [], 0, .Ordered, 0, 10⟩ [1, 2] 3 =
    .ok (⟨[], [(3, [1, 2])], 0, .Ordered, 2, 10⟩, ()) := by decide +kernel
example : ReceiveChannelReliable.process_message ⟨[], [(3, [1, 2])], 0, .Ordered, 2, 10⟩ [9] 3 =
    .ok (⟨[], [(3, [1, 2])], 0, .Ordered, 2, 10⟩, ()) := by decide +kernel
/-- unordered, memory limited: `Err`, but `most_recent_message_id` has already been advanced -/
example : ReceiveChannelReliable.process_message ⟨[], [], 0, .Unordered 1 [1], 9, 10⟩ [1, 2] 5 =
    .err (.ReliableChannelMaxMemoryReached, ⟨[], [], 0, .Unordered 5 [1], 9, 10⟩) := by decide +kernel
example : ReceiveChannelReliable.process_message ⟨[], [], 0, .Unordered 1 [1, 7], 0, 10⟩ [1, 2] 5 =
    .ok (⟨[], [(5, [1, 2])], 0, .Unordered 5 [1, 5, 7], 2, 10⟩, ()) := by decide +kernel
/-- ordered receive: only the oldest pending id is handed out -/
example : (ReceiveChannelReliable.receive_message ⟨[], [(1, [7])], 0, .Ordered, 1, 10⟩ : Res Empty _) =
    .ok (⟨[], [(1, [7])], 0, .Ordered, 1, 10⟩, none) := by decide +kernel
example : (ReceiveChannelReliable.receive_message ⟨[], [(0, [5]), (1, [7])], 0, .Ordered, 2, 10⟩ : Res Empty _) =
    .ok (⟨[], [(1, [7])], 1, .Ordered, 1, 10⟩, some [5]) := by decide +kernel
/-- unordered receive of the oldest pending id: ids 0, 1, 2 were received, so `oldest` advances to 3 -/
example : (ReceiveChannelReliable.receive_message ⟨[], [(0, [5])], 0, .Unordered 4 [0, 1, 2, 4], 1, 10⟩ : Res Empty _) =
    .ok (⟨[], [], 3, .Unordered 4 [4], 0, 10⟩, some [5]) := by decide +kernel
/-- a one-slice message completes at once: reserved, released, handed to `process_message`, constructor removed -/
example : ReceiveChannelReliable.process_slice ⟨[], [], 0, .Ordered, 0, 5000⟩ ⟨7, 0, 1, [1, 2, 3]⟩ =
    .ok (⟨[], [(7, [1, 2, 3])], 0, .Ordered, 3, 5000⟩, ()) := by decide +kernel
/-- unordered: a slice of a message that was already delivered is ignored -/
example : ReceiveChannelReliable.process_slice ⟨[], [], 0, .Unordered 7 [7], 0, 5000⟩ ⟨7, 0, 1, [1, 2, 3]⟩ =
    .ok (⟨[], [], 0, .Unordered 7 [7], 0, 5000⟩, ()) := by decide +kernel
/-- a slice whose `num_slices` disagrees with the constructor: `Err` carrying the unchanged state -/
example : ReceiveChannelReliable.process_slice
      ⟨[(7, ⟨7, 2, 0, [false, false], List.replicate 2400 0⟩)], [], 0, .Ordered, 2400, 5000⟩ ⟨7, 0, 3, [1]⟩ =
    .err (.InvalidSliceMessage, ⟨[(7, ⟨7, 2, 0, [false, false], List.replicate 2400 0⟩)], [], 0, .Ordered, 2400, 5000⟩) := by
  decide +kernel

end RenetVerif.SrcTie
