/-
  Source tie, group SendUnrel: `renet/src/channel/unreliable.rs`
  `SendChannelUnreliable::{new, can_send_message, available_memory, send_message, get_packets_to_send}` ↔ `SendUnrel`
  of `Renet/Channels.lean` (`SendUnrel.new/canSend/available/sendMessage/getPackets`).

  `reprSU` maps a model state to the generated struct (`VecDeque<Bytes>` = list of byte lists), `absSU` back
  (`reprSU (absSU c) = c` when the queued bytes are bytes).  `get_packets_to_send(&mut self, &mut u64, &mut u64)`
  returns `(self, packet_sequence, available_bytes, packets)`; its `while let Some(m) = queue.pop_front()` loop runs on
  the manifest fuel `self.unreliable_messages.len() + 1`.
-/
import RenetVerif.Lemmas.SrcEquiv.SendUnrel
namespace RenetVerif.SrcTie
open RenetVerif RenetVerif.SrcEquiv RenetVerif.RustSem
open Src.renet.channel.unreliable

/-- well-formed state for `get_packets_to_send` with packet counter `seq`: the memory counter covers the queued
    bytes (in the reachable states it EQUALS their sum) and the counters cannot overflow while the queue is flushed
    (`need q` = Σ (⌈len/SLICE_SIZE⌉ + 1) bounds the number of packets) -/
def WfSendUnrel (s : SendUnrel) (seq : Nat) : Prop :=
  qBytes s.queue ≤ s.mem ∧ s.mem < 2 ^ 64 ∧ seq + need s.queue + 1 < 2 ^ 64 ∧ s.slicedId + s.queue.length < 2 ^ 64
instance (s : SendUnrel) (seq : Nat) : Decidable (WfSendUnrel s seq) := by unfold WfSendUnrel; infer_instance

theorem send_unrel_new {ε : Type} (channelId maxMem : Nat) :
    (SendChannelUnreliable.new channelId maxMem : Res ε _) = .ok (reprSU (SendUnrel.new channelId maxMem)) :=
  new_eq channelId maxMem

theorem send_unrel_can_send_message {ε : Type} (s : SendUnrel) (sizeBytes : Nat) (h : sizeBytes + s.mem < 2 ^ 64) :
    (SendChannelUnreliable.can_send_message (reprSU s) sizeBytes : Res ε Bool) = .ok (s.canSend sizeBytes) :=
  can_send_eq s sizeBytes h

theorem send_unrel_available_memory {ε : Type} (s : SendUnrel) (h : s.mem ≤ s.maxMem) :
    (SendChannelUnreliable.available_memory (reprSU s) : Res ε Nat) = .ok s.available :=
  available_eq s h

/-- `send_message`: the model's new state; in particular on the memory-limited path (`log::warn!` + `return`) the
    state is unchanged -/
theorem send_unrel_send_message {ε : Type} (s : SendUnrel) (m : Bytes) (h : s.mem + m.length < 2 ^ 64) :
    (SendChannelUnreliable.send_message (reprSU s) (toNats m) : Res ε _) = .ok (reprSU (s.sendMessage m), ()) :=
  send_message_eq s m h

theorem send_unrel_send_message_memory_limited {ε : Type} (s : SendUnrel) (m : Bytes) (h : s.mem + m.length < 2 ^ 64)
    (hlim : s.mem + m.length > s.maxMem) :
    (SendChannelUnreliable.send_message (reprSU s) (toNats m) : Res ε _) = .ok (reprSU s, ()) := by
  rw [send_message_eq s m h]; unfold SendUnrel.sendMessage; rw [if_pos hlim]

/-- `get_packets_to_send` on a well-formed state: no panic, and exactly the model's new state, new packet sequence,
    new byte budget and packet list -/
theorem send_unrel_get_packets_to_send {ε : Type} (s : SendUnrel) (seq avail : Nat) (h : WfSendUnrel s seq) :
    (SendChannelUnreliable.get_packets_to_send (reprSU s) seq avail : Res ε _) =
      .ok (reprSU (s.getPackets seq avail).1, (s.getPackets seq avail).2.2.1, (s.getPackets seq avail).2.2.2,
           (s.getPackets seq avail).2.1.map reprPacket) :=
  get_packets_eq s seq avail h.1 h.2.1 h.2.2.1 h.2.2.2

/-- the fuel of the translated `while let` loop is never exhausted -/
theorem send_unrel_get_packets_fuel_suffices {ε : Type} (s : SendUnrel) (seq avail : Nat) (h : WfSendUnrel s seq) :
    (SendChannelUnreliable.get_packets_to_send (reprSU s) seq avail : Res ε _) ≠
      .panic "renet/src/channel/unreliable.rs:SendChannelUnreliable::get_packets_to_send: fuel exhausted" := by
  rw [send_unrel_get_packets_to_send s seq avail h]; intro e; cases e

/-- every generated state whose queued bytes are bytes is the image of a model state -/
theorem send_unrel_repr_abs (c : SendChannelUnreliable) (h : ∀ m ∈ c.unreliable_messages, BytesOk m) :
    reprSU (absSU c) = c :=
  reprSU_absSU c h

/-- two small messages and a budget that admits only the first: one `SmallUnreliable` packet, the second is dropped -/
example :
    (SendChannelUnreliable.get_packets_to_send ⟨3, [[1, 2], [4, 5, 6]], 0, 100, 5⟩ 10 2 : Res Empty _) =
      .ok (⟨3, [], 0, 100, 0⟩, 11, 0, [.SmallUnreliable 10 3 [[1, 2]]]) := by decide +kernel
/-- a 1201-byte message is cut into two slices with consecutive sequence numbers; the small message follows -/
example :
    (SendChannelUnreliable.get_packets_to_send ⟨0, [List.replicate 1201 7, [9]], 4, 5000, 1202⟩ 20 5000 : Res Empty _) =
      .ok (⟨0, [], 5, 5000, 0⟩, 23, 3798,
           [.UnreliableSlice 20 0 ⟨4, 0, 2, List.replicate 1200 7⟩, .UnreliableSlice 21 0 ⟨4, 1, 2, [7]⟩,
            .SmallUnreliable 22 0 [[9]]]) := by decide +kernel
example : (SendChannelUnreliable.send_message ⟨0, [], 0, 4, 3⟩ [1, 2] : Res Empty _) = .ok (⟨0, [], 0, 4, 3⟩, ()) := by
  decide +kernel
example : (SendChannelUnreliable.send_message ⟨0, [], 0, 5, 3⟩ [1, 2] : Res Empty _) = .ok (⟨0, [[1, 2]], 0, 5, 5⟩, ()) := by
  decide +kernel

end RenetVerif.SrcTie
