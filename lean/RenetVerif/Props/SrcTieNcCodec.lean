/-
  Source tie, group NcCodec: `renetcode/src/packet.rs` `Packet::{encode, decode, generate_challenge}`,
  `ChallengeToken::decode`, `renetcode/src/token.rs` `PrivateConnectToken::{encode, decode}` (+ the `From<CryptoError>` /
  `From<TokenGenerationError>` / `From<io::Error>` conversions they use) ↔ `Netcode/Wire.lean`, `Netcode/Token.lean`.

  THE AEAD IS A PARAMETER ON BOTH SIDES.  `renetcode/src/crypto.rs` is an external interface: its four functions are
  not translated but mapped to `RustSem.{encrypt_in_place, dencrypted_in_place, encrypt_in_place_xnonce,
  dencrypted_in_place_xnonce}`, defined over the abstract instance parameter `[RustSem.Aead]` (see the header of
  `Base/RustSem.lean` for the exact mapping and the in-place buffer convention: plaintext ‖ 16 tag bytes).  The model is
  parametric in `a : Netcode.AEAD`; `aeadOf a` is the generated code's instance given by `a` (bytes as `Nat`s).
  Theorems that need lengths (`open` returns `len - 16` bytes, `seal` returns `len + 16`) assume `a.Laws`; nothing is
  assumed about authenticity.

  `&mut [u8]` parameters (`Packet::encode`'s output buffer, `Packet::decode`'s input buffer — decrypted in place) and the
  `Option<&mut ReplayProtection>` parameter of `decode` are returned with the result, also inside an `Err`.
  `EncOut` / `DecOut`: the result is the model's; the rest of the buffer is existentially quantified (`DecOutL`: and its
  length is kept).
-/
import RenetVerif.Lemmas.SrcEquiv.NcCodec
set_option maxRecDepth 10000
namespace RenetVerif.SrcTie
open RenetVerif RenetVerif.SrcEquiv RenetVerif.RustSem RenetVerif.Netcode

/-- `Packet::encode` into ANY buffer (`cap` = its length; stale contents — any numbers — allowed), for every packet, with or
    without key: the model's bytes at the front of the buffer and their number; the model's error otherwise
    (`IoError` for a buffer that is too small — also for the tag —, `UnavailablePrivateKey`).  Never panics. -/
theorem nc_packet_encode (a : AEAD) (hl : a.Laws) (p : Netcode.Packet) (buffer : List Nat) (hcap : buffer.length + 16 < 2 ^ 64)
    (pid : Nat) (crypto : Option (Nat × Bytes)) :
    EncOut buffer.length (Netcode.Packet.encode a p buffer.length pid crypto)
      (@Src.renetcode.packet.Packet.encode (aeadOf a) (reprNP p) buffer pid (crypto.map fun x => (x.1, toNats x.2))) :=
  packet_encode_eq a hl p buffer hcap pid crypto

/-- `Packet::decode` of EVERY byte sequence, with or without key / replay window: the model's packet and sequence or
    the model's error (`PacketTooSmall`, `InvalidPacketType`, `UnavailablePrivateKey`, `IoError`, `DuplicatedSequence`,
    `CryptoError`), and the model's replay window — advanced exactly when the model advances it (after a successful
    `open`, before the body is parsed).  A panic only where the model panics (`Packet::read`'s `unreachable!`). -/
theorem nc_packet_decode (a : AEAD) (hl : a.Laws) (buffer : Bytes) (hbl : buffer.length + 16 < 2 ^ 64) (pid : Nat)
    (key : Option Bytes) (rp : Option RP) :
    DecOut (Netcode.Packet.decode a buffer pid key rp)
      (@Src.renetcode.packet.Packet.decode (aeadOf a) (toNats buffer) pid (key.map toNats) (rp.map reprRP)) :=
  packet_decode_eq a hl buffer hbl pid key rp
/-- … and the buffer keeps its length (decrypting in place) -/
theorem nc_packet_decode_len (a : AEAD) (hl : a.Laws) (buffer : Bytes) (hbl : buffer.length + 16 < 2 ^ 64) (pid : Nat)
    (key : Option Bytes) (rp : Option RP) :
    DecOutL buffer.length (Netcode.Packet.decode a buffer pid key rp)
      (@Src.renetcode.packet.Packet.decode (aeadOf a) (toNats buffer) pid (key.map toNats) (rp.map reprRP)) :=
  packet_decode_eqL a hl buffer hbl pid key rp

/-- `Packet::generate_challenge` (no law needed: the sealed 300-byte buffer is the `seal` output itself) -/
theorem nc_generate_challenge (a : AEAD) (cid : Nat) (ud : Bytes) (sequence : Nat) (key : Bytes) :
    SameOutcome (@Src.renetcode.packet.Packet.generate_challenge (aeadOf a) cid (toNats ud) sequence (toNats key))
      (mapRes reprNP reprNErr (Netcode.ChallengeToken.generate a cid ud sequence key)) :=
  generate_challenge_eq a cid ud sequence key

/-- `ChallengeToken::decode` of a 300-byte token -/
theorem nc_challenge_token_decode (a : AEAD) (hl : a.Laws) (td : Bytes) (hlen : td.length = C.NETCODE_CHALLENGE_TOKEN_BYTES)
    (sequence : Nat) (key : Bytes) :
    SameOutcome (@Src.renetcode.packet.ChallengeToken.decode (aeadOf a) (toNats td) sequence (toNats key))
      (mapRes reprCT reprNErr (Netcode.ChallengeToken.decode a td sequence key)) :=
  challenge_decode_eq a hl td hlen sequence key

/-- `PrivateConnectToken::encode` into a zeroed 1024-byte buffer (`Res.forget`: the buffer carried by an `Err` is not
    specified) -/
theorem nc_private_token_encode (a : AEAD) (t : Netcode.PrivateConnectToken) (hlen : t.serverAddresses.length < 2 ^ 32)
    (pid exp : Nat) (xnonce key : Bytes) :
    (@Src.renetcode.token.PrivateConnectToken.encode (aeadOf a) (reprPTok t)
        (List.replicate C.NETCODE_CONNECT_TOKEN_PRIVATE_BYTES 0) pid exp (toNats xnonce) (toNats key)).forget
      = mapRes (fun b => (toNats b, ())) reprTGE (Netcode.PrivateConnectToken.encode a t pid exp xnonce key) :=
  ptok_encode_eq a t hlen pid exp xnonce key

/-- `PrivateConnectToken::decode` of a 1024-byte buffer -/
theorem nc_private_token_decode (a : AEAD) (hl : a.Laws) (buffer : Bytes)
    (hlen : buffer.length = C.NETCODE_CONNECT_TOKEN_PRIVATE_BYTES) (pid exp : Nat) (xnonce key : Bytes) :
    SameOutcome (@Src.renetcode.token.PrivateConnectToken.decode (aeadOf a) (toNats buffer) pid exp (toNats xnonce) (toNats key))
      (mapRes reprPTok reprTGE (Netcode.PrivateConnectToken.decode a buffer pid exp xnonce key)) :=
  ptok_decode_eq a hl buffer hlen pid exp xnonce key

/-! test vectors with the toy AEAD (identity cipher, all-zero tag) -/

/-- `KeepAlive { client_index: 1, max_clients: 258 }`, sequence 5 (one byte: prefix `0x14`), into a 40-byte buffer of 7s:
    26 bytes are written, the rest of the buffer is untouched -/
example : @Src.renetcode.packet.Packet.encode (aeadOf AEAD.toy) (.KeepAlive 1 258) (List.replicate 40 7) 9
      (some (5, List.replicate 32 1)) =
    .ok ([20, 5, 1, 0, 0, 0, 2, 1, 0, 0] ++ List.replicate 16 0 ++ List.replicate 14 7, 26) := by decide +kernel
/-- no key: `UnavailablePrivateKey`, buffer untouched -/
example : @Src.renetcode.packet.Packet.encode (aeadOf AEAD.toy) .Disconnect [7, 7] 9 none =
    .err (.UnavailablePrivateKey, [7, 7]) := by decide +kernel
/-- room for the body but not for the tag: `IoError` -/
example : (match @Src.renetcode.packet.Packet.encode (aeadOf AEAD.toy) .Disconnect (List.replicate 10 7) 9
      (some (5, List.replicate 32 1)) with | .err (.IoError .opaque, _) => true | _ => false) = true := by decide +kernel
/-- decoding the packet above: sequence 5, the replay window has seen 5 -/
example : @Src.renetcode.packet.Packet.decode (aeadOf AEAD.toy)
      ([20, 5, 1, 0, 0, 0, 2, 1, 0, 0] ++ List.replicate 16 0) 9 (some (List.replicate 32 1)) (some (reprRP RP.new)) =
    .ok ([20, 5, 1, 0, 0, 0, 2, 1, 0, 0] ++ List.replicate 16 0, some (reprRP (RP.new.advance 5)), (5, .KeepAlive 1 258)) := by
  decide +kernel
/-- a forged tag: `CryptoError`, window unchanged -/
example : @Src.renetcode.packet.Packet.decode (aeadOf AEAD.toy)
      ([20, 5, 1, 0, 0, 0, 2, 1, 0, 0] ++ List.replicate 15 0 ++ [9]) 9 (some (List.replicate 32 1)) (some (reprRP RP.new)) =
    .err (.CryptoError, ([20, 5, 1, 0, 0, 0, 2, 1, 0, 0] ++ List.replicate 15 0 ++ [9], some (reprRP RP.new))) := by
  decide +kernel
/-- a replayed sequence is rejected before the AEAD is consulted -/
example : @Src.renetcode.packet.Packet.decode (aeadOf AEAD.toy)
      ([20, 5, 1, 0, 0, 0, 2, 1, 0, 0] ++ List.replicate 16 0) 9 (some (List.replicate 32 1))
      (some (reprRP (RP.new.advance 5))) =
    .err (.DuplicatedSequence, ([20, 5, 1, 0, 0, 0, 2, 1, 0, 0] ++ List.replicate 16 0, some (reprRP (RP.new.advance 5)))) := by
  decide +kernel

end RenetVerif.SrcTie
