/-
  C11 / C01 / C02 — LIVENESS in the MULTI-CLIENT system, ABOUT THE GENERATED CODE.

  `GMulti` (`Lemmas/SrcEquiv/SrcMulti.lean`, see `Props/SrcPropsMulti.lean`) is the multi-client system with a GENERATED
  `RenetServer` and, per client id, a GENERATED `RenetClient` as the remote endpoint, driven only through the generated
  functions.  The liveness theorems of `Props/C11L.lean` (one lossless round for client `i` alone, server → client) and of
  `Props/C01M.lean` (k rounds with a budget smaller than the backlog; the direction client → server) are transferred through
  the simulation `SrcMulti.mrun_sim` (`SrcMulti.mext_sim`), following `Props/SrcPropsSystemLive.lean`:

      hypothesis   `GMulti.exec P ops = some g`                  the generated run up to the start of the rounds,
                   `GLive g i gc gl`                              client `i` is connected in the GENERATED state `g`: `gc` is the
                                                                 server's generated connection for `i` (field `connections`), `gl`
                                                                 the link of `i`; the generated `is_disconnected` of both ends
                                                                 returns `false`; no hostile bytes under id `i` (`gl.tainted`);
      conclusion   `∃ u gc' gl', GMulti.exec P (ops ++ ops') = some u ∧ GLive u i gc' gl' ∧ …`
                   the GENERATED execution of the continuation returns normally (no generated function panics), client `i`
                   is still connected in the generated state `u`, and on the generated ghost logs
                   `gl'.subS ch = gl.subS ch`, `gl'.obtC ch = gl.subS ch` (a permutation for ReliableUnordered): client `i`'s
                   application has obtained exactly everything the server application addressed to it; every message at
                   least once and at most as often as the run addressed it to `i`.

  The remaining hypotheses of the model theorems (timer, counters after the tick, H2 budget, H3 `Room`, H4 `OnlyCh`, the
  datagram indices of the flush, `Rounds`: schedule and budget facts) are stated, as in C11L / C01M, on the MODEL state `m`
  with `(MSys.init P).run ops = some m` (an explicit hypothesis; `m` is determined by `ops`, it is the state `SimMulti`-related
  to `g`, `SrcMulti.msim_of_runs`), on the model link `l` of `i` and the model table entry `c` of `i` in `m`.
  `MRunInRange P (ops ++ ops')` is the range side condition of the source tie over the whole execution.

  The continuation `ops'` is ANY operation list whose local trace for `i` is the tick and the round(s) of `i` — the round
  interleaved with arbitrary operations that concern other clients only.  Those other operations may panic (in the model and
  in the generated code alike), so "the continuation runs in the model" (`m.run ops' = some m''`) is a hypothesis of the
  interleaved forms — `SrcMulti.mrun_of_exec` derives it from a generated execution `GMulti.exec P (ops ++ ops') = some u`,
  see `src_broadcast_exactly_once_of_exec` —; where the model theorem proves that the round of `i` ALONE runs
  (`round_delivers_to_client`, `round_delivers_to_server`, `from_one_exactly_once`, `k_rounds_run_to_server`), the
  generated execution of the round is a conclusion without such a hypothesis.
-/
import RenetVerif.Lemmas.SrcEquiv.SrcMultiMore
import RenetVerif.Props.SrcPropsMulti
import RenetVerif.Props.C11L
import RenetVerif.Props.C01M
set_option maxRecDepth 100000
set_option linter.unusedVariables false
namespace RenetVerif.SrcPropsMultiLive
open RenetVerif C RenetVerif.System RenetVerif.MultiSystem RenetVerif.Live RenetVerif.LiveK RenetVerif.MultiLive
open RenetVerif.C11E RenetVerif.C11L RenetVerif.C01M
open RenetVerif.SrcEquiv RenetVerif.SrcSystem RenetVerif.SrcMulti
open Src.renet.remote_connection

/-! ## transfer of a delivery conclusion -/

/-- what a model liveness theorem concludes about the continuation `ext` (both ends of the link of `i` live in `m''`, the link
    untainted) holds of the generated execution: it runs, and client `i` is connected in the generated state -/
theorem live_core (P : Params) (ops ext : List MOp) (m : MSys) (g : GMulti) (hm : (MSys.init P).run ops = some m)
    (hg : GMulti.exec P ops = some g) (hrg : MRunInRange P (ops ++ ext)) (m'' : MSys) (hr : m.run ext = some m'')
    (i : Nat) (c'' : Conn) (l'' : Link) (h1 : conn? m''.server i = some c'') (h2 : m''.links i = some l'')
    (h3 : c''.isDisconnected = false) (h4 : l''.cl.isDisconnected = false) (h5 : l''.tainted = false) :
    ∃ u gc' gl', GMulti.exec P (ops ++ ext) = some u ∧ GLive u i gc' gl' ∧ SimLink l'' gl' := by
  obtain ⟨u, e, -, simu⟩ := mext_sim P ops ext m m'' g hm hg hr hrg
  obtain ⟨gc', gl', hl, hsl⟩ := glive_of_model simu h1 h2 h3 h4 h5
  exact ⟨u, gc', gl', e, hl, hsl⟩

/-- the log of the generated link is a sub-sequence of what the run addressed to `i` -/
theorem gsubS_sublist {P : Params} {ops : List MOp} {m : MSys} {i : Nat} {l : Link} {gl : GLink} (h : At P ops m i l)
    (hsl : SimLink l gl) (ch : Nat) : (gl.subS ch).Sublist ((addressedTo i ch ops).map toNats) := by
  rw [hsl.subS]
  exact ((reach P ops m h.run i l h.link h.clean).subS ch).map toNats

theorem gsubC_sublist {P : Params} {ops : List MOp} {m : MSys} {i : Nat} {l : Link} {gl : GLink} (h : At P ops m i l)
    (hsl : SimLink l gl) (ch : Nat) : (gl.subC ch).Sublist ((sentBy i ch ops).map toNats) := by
  rw [hsl.subC]
  exact ((reach P ops m h.run i l h.link h.clean).subC ch).map toNats

/-! ## one lossless round, server → client (`Props/C11L.lean`) -/

/-- **One lossless round for client `i` alone on the generated code (ReliableOrdered; H1 as a hypothesis)** — transports
    `C11L.round_delivers_to_client`.  The GENERATED execution of `srvFlush i ; deliverToCli i k (k ∈ ks) ; cliRecv i ch
    (n times)` returns normally, client `i` is still connected in the generated state, and its application has obtained
    exactly the log `gl.subS ch`, in order.  On the model state `m` / `c` / `l`: counters, H1–H4, the indices `ks`, `hn`. -/
theorem src_round_delivers_to_client (P : Params) (ops : List MOp) (g : GMulti) (hg : GMulti.exec P ops = some g)
    (m : MSys) (hm : (MSys.init P).run ops = some m) (i : Nat) (gc : RenetClient) (gl : GLink) (hlive : GLive g i gc gl)
    (l : Link) (hml : m.links i = some l) (c : Conn) (hconn : conn? m.server i = some c)
    (ch : Nat) (ks : List Nat) (n : Nat) (hrg : MRunInRange P (ops ++ roundFor i ch ks n))
    (hc : CountersOK P.down (dirDown c l)) (hcA : c.CountersOK)
    (ho : P.down.Ordered ch) (sA : SendRel) (hfA : SMap.find? c.sendRel ch = some sA)
    (rB : RecvRel) (hfB : SMap.find? l.cl.recvRel ch = some rB)
    (H1 : AllDue c.now sA.resend sA.unacked) (H2 : backlog sA.unacked ≤ availAtTurn c ch)
    (H3 : Room (l.subS ch) rB) (H4 : ∀ p ∈ flushPk c, OnlyCh ch p)
    (hks1 : ∀ k ∈ flushIdx l c, k ∈ ks) (hks2 : ∀ k ∈ ks, k ∈ flushIdx l c)
    (hn : (l.subS ch).length ≤ (l.obtC ch).length + n) :
    ∃ u gc' gl', GMulti.exec P (ops ++ roundFor i ch ks n) = some u ∧ GLive u i gc' gl' ∧
      gl'.subS = gl.subS ∧ gl'.obtC ch = gl.subS ch := by
  obtain ⟨hsl, hcl, hda, hdb⟩ := glive_model (msim_of_runs P ops _ m g hm hg hrg) hlive hconn hml
  have hat : At P ops m i l := ⟨hm, hml, hcl⟩
  obtain ⟨m', c', l', hr, a1, a2, a3, a4, a5, a6, a7, -⟩ :=
    C11L.round_delivers_to_client hat c hconn hc hcA hda hdb ch ho sA hfA rB hfB H1 H2 H3 H4 ks hks1 hks2 n hn
  obtain ⟨u, gc', gl', e, hl', hsl'⟩ := live_core P ops _ m g hm hg hrg m' hr i c' l' a1 a2 a3 a4 a5
  refine ⟨u, gc', gl', e, hl', funext fun k => ?_, ?_⟩
  · rw [hsl'.subS, hsl.subS, a6]
  · rw [hsl'.obtC, hsl.subS, a7]

/-- **Broadcast reaches every connected client, on the generated code: the liveness half (ReliableOrdered)** — transports
    `C11L.broadcast_exactly_once`.  From the generated state `g` in which client `i` is connected: the server's
    `update(dt)` with `dt ≥ resend_time` and ONE lossless round for client `i` alone, in ANY interleaving `ops'` with
    operations that concern other clients only.  The generated execution returns normally, client `i` is still connected,
    and its application has obtained EXACTLY the messages addressed to it (the generated log `gl.subS ch`), in order: each
    at least once, none more often than the run `ops` addressed it to `i`.  On the model state: the timer, the counters
    after the tick, H2–H4, the indices `ks`, `hn`, and that the continuation `ops'` runs (`SrcMulti.mrun_of_exec`). -/
theorem src_broadcast_exactly_once (P : Params) (ops : List MOp) (g : GMulti) (hg : GMulti.exec P ops = some g)
    (m : MSys) (hm : (MSys.init P).run ops = some m) (i : Nat) (gc : RenetClient) (gl : GLink) (hlive : GLive g i gc gl)
    (l : Link) (hml : m.links i = some l) (c : Conn) (hconn : conn? m.server i = some c)
    (ch : Nat) (ho : P.down.Ordered ch) (sA : SendRel) (hfA : SMap.find? c.sendRel ch = some sA)
    (rB : RecvRel) (hfB : SMap.find? l.cl.recvRel ch = some rB)
    (dt : Nat) (hdt : sA.resend ≤ dt) (cu : Conn) (hcu : c.update dt = .ok cu)
    (hc : CountersOK P.down (dirDown cu l)) (hcA : cu.CountersOK)
    (H2 : backlog sA.unacked ≤ availAtTurn cu ch) (H3 : Room (l.subS ch) rB) (H4 : ∀ p ∈ flushPk cu, OnlyCh ch p)
    (ks : List Nat) (hks1 : ∀ k ∈ flushIdx l cu, k ∈ ks) (hks2 : ∀ k ∈ ks, k ∈ flushIdx l cu)
    (n : Nat) (hn : (l.subS ch).length ≤ (l.obtC ch).length + n)
    (ops' : List MOp) (ht : trace i ops' = trace i (.srvUpdate dt :: roundFor i ch ks n))
    (hrg : MRunInRange P (ops ++ ops')) (m'' : MSys) (hr : m.run ops' = some m'') :
    ∃ u gc' gl', GMulti.exec P (ops ++ ops') = some u ∧ GLive u i gc' gl' ∧
      gl'.subS = gl.subS ∧ gl'.obtC ch = gl.subS ch ∧
      ∀ x ∈ gl.subS ch, 1 ≤ (gl'.obtC ch).count x ∧ (gl'.obtC ch).count x ≤ ((addressedTo i ch ops).map toNats).count x := by
  obtain ⟨hsl, hcl, hda, hdb⟩ := glive_model (msim_of_runs P ops _ m g hm hg hrg) hlive hconn hml
  have hat : At P ops m i l := ⟨hm, hml, hcl⟩
  obtain ⟨c'', l'', a1, a2, a3, a4, a5, a6, a7, -⟩ :=
    C11L.broadcast_exactly_once hat c hconn hda hdb ch ho sA hfA rB hfB dt hdt cu hcu hc hcA H2 H3 H4 ks hks1 hks2 n hn
      ops' ht m'' hr
  obtain ⟨u, gc', gl', e, hl', hsl'⟩ := live_core P ops _ m g hm hg hrg m'' hr i c'' l'' a1 a2 a3 a4 a5
  have e2 : gl'.obtC ch = gl.subS ch := by rw [hsl'.obtC, hsl.subS, a7]
  exact ⟨u, gc', gl', e, hl', funext fun k => by rw [hsl'.subS, hsl.subS, a6], e2,
    gcount_facts (by rw [e2]) (gsubS_sublist hat hsl ch)⟩

/-- the same with the GENERATED execution of the continuation as the hypothesis (instead of the model run): if the generated
    code runs through `ops ++ ops'`, the final generated state `u` is as `src_broadcast_exactly_once` says -/
theorem src_broadcast_exactly_once_of_exec (P : Params) (ops : List MOp) (g : GMulti) (hg : GMulti.exec P ops = some g)
    (m : MSys) (hm : (MSys.init P).run ops = some m) (i : Nat) (gc : RenetClient) (gl : GLink) (hlive : GLive g i gc gl)
    (l : Link) (hml : m.links i = some l) (c : Conn) (hconn : conn? m.server i = some c)
    (ch : Nat) (ho : P.down.Ordered ch) (sA : SendRel) (hfA : SMap.find? c.sendRel ch = some sA)
    (rB : RecvRel) (hfB : SMap.find? l.cl.recvRel ch = some rB)
    (dt : Nat) (hdt : sA.resend ≤ dt) (cu : Conn) (hcu : c.update dt = .ok cu)
    (hc : CountersOK P.down (dirDown cu l)) (hcA : cu.CountersOK)
    (H2 : backlog sA.unacked ≤ availAtTurn cu ch) (H3 : Room (l.subS ch) rB) (H4 : ∀ p ∈ flushPk cu, OnlyCh ch p)
    (ks : List Nat) (hks1 : ∀ k ∈ flushIdx l cu, k ∈ ks) (hks2 : ∀ k ∈ ks, k ∈ flushIdx l cu)
    (n : Nat) (hn : (l.subS ch).length ≤ (l.obtC ch).length + n)
    (ops' : List MOp) (ht : trace i ops' = trace i (.srvUpdate dt :: roundFor i ch ks n))
    (hrg : MRunInRange P (ops ++ ops')) (u : GMulti) (hu : GMulti.exec P (ops ++ ops') = some u) :
    ∃ gc' gl', GLive u i gc' gl' ∧ gl'.subS = gl.subS ∧ gl'.obtC ch = gl.subS ch ∧
      ∀ x ∈ gl.subS ch, 1 ≤ (gl'.obtC ch).count x ∧ (gl'.obtC ch).count x ≤ ((addressedTo i ch ops).map toNats).count x := by
  obtain ⟨m'', hr, -⟩ := mrun_of_exec P ops ops' m u hm hu hrg
  obtain ⟨u', gc', gl', e, rest⟩ := src_broadcast_exactly_once P ops g hg m hm i gc gl hlive l hml c hconn ch ho sA hfA rB hfB
    dt hdt cu hcu hc hcA H2 H3 H4 ks hks1 hks2 n hn ops' ht hrg m'' hr
  rw [hu] at e; cases e
  exact ⟨gc', gl', rest⟩

/-- **The same on a ReliableUnordered channel (C02's liveness clause), on the generated code** — transports
    `C11L.broadcast_exactly_once_unordered`: client `i`'s application has obtained a PERMUTATION of the generated log. -/
theorem src_broadcast_exactly_once_unordered (P : Params) (ops : List MOp) (g : GMulti) (hg : GMulti.exec P ops = some g)
    (m : MSys) (hm : (MSys.init P).run ops = some m) (i : Nat) (gc : RenetClient) (gl : GLink) (hlive : GLive g i gc gl)
    (l : Link) (hml : m.links i = some l) (c : Conn) (hconn : conn? m.server i = some c)
    (ch : Nat) (ho : P.down.Unordered ch) (sA : SendRel) (hfA : SMap.find? c.sendRel ch = some sA)
    (rB : RecvRel) (hfB : SMap.find? l.cl.recvRel ch = some rB)
    (dt : Nat) (hdt : sA.resend ≤ dt) (cu : Conn) (hcu : c.update dt = .ok cu)
    (hc : CountersOK P.down (dirDown cu l)) (hcA : cu.CountersOK)
    (H2 : backlog sA.unacked ≤ availAtTurn cu ch) (H3 : Room (l.subS ch) rB) (H4 : ∀ p ∈ flushPk cu, OnlyCh ch p)
    (ks : List Nat) (hks1 : ∀ k ∈ flushIdx l cu, k ∈ ks) (hks2 : ∀ k ∈ ks, k ∈ flushIdx l cu)
    (n : Nat) (hn : (l.subS ch).length ≤ (l.obtC ch).length + n)
    (ops' : List MOp) (ht : trace i ops' = trace i (.srvUpdate dt :: roundFor i ch ks n))
    (hrg : MRunInRange P (ops ++ ops')) (m'' : MSys) (hr : m.run ops' = some m'') :
    ∃ u gc' gl', GMulti.exec P (ops ++ ops') = some u ∧ GLive u i gc' gl' ∧
      gl'.subS = gl.subS ∧ (gl'.obtC ch).Perm (gl.subS ch) ∧
      ∀ x ∈ gl.subS ch, 1 ≤ (gl'.obtC ch).count x ∧ (gl'.obtC ch).count x ≤ ((addressedTo i ch ops).map toNats).count x := by
  obtain ⟨hsl, hcl, hda, hdb⟩ := glive_model (msim_of_runs P ops _ m g hm hg hrg) hlive hconn hml
  have hat : At P ops m i l := ⟨hm, hml, hcl⟩
  obtain ⟨c'', l'', a1, a2, a3, a4, a5, a6, a7, -⟩ :=
    C11L.broadcast_exactly_once_unordered hat c hconn hda hdb ch ho sA hfA rB hfB dt hdt cu hcu hc hcA H2 H3 H4 ks hks1 hks2
      n hn ops' ht m'' hr
  obtain ⟨u, gc', gl', e, hl', hsl'⟩ := live_core P ops _ m g hm hg hrg m'' hr i c'' l'' a1 a2 a3 a4 a5
  have e2 : (gl'.obtC ch).Perm (gl.subS ch) := by rw [hsl'.obtC, hsl.subS]; exact a7.map toNats
  exact ⟨u, gc', gl', e, hl', funext fun k => by rw [hsl'.subS, hsl.subS, a6], e2,
    gcount_facts e2 (gsubS_sublist hat hsl ch)⟩

/-- **… "unless the client has been disconnected", on the generated code** — transports
    `C11L.broadcast_exactly_once_unless_disconnected` (no H3 / H4; `ks` may contain stale datagrams and repetitions as long
    as those of this flush are among them; the remote endpoint need not be live at the start).  The generated execution
    returns normally, the server's generated connection for `i` stays live, and unless the generated remote endpoint of `i`
    has been disconnected (`is_disconnected` returns `false`) its application has obtained exactly the generated log, in
    order. -/
theorem src_broadcast_exactly_once_unless_disconnected (P : Params) (ops : List MOp) (g : GMulti)
    (hg : GMulti.exec P ops = some g) (m : MSys) (hm : (MSys.init P).run ops = some m) (i : Nat)
    (gc : RenetClient) (gl : GLink) (hgc : gconn? g.server i = some gc) (hgl : g.links i = some gl)
    (hga : (RenetClient.is_disconnected gc : Res Empty Bool) = .ok false) (hclean : gl.tainted = false)
    (l : Link) (hml : m.links i = some l) (c : Conn) (hconn : conn? m.server i = some c)
    (ch : Nat) (ho : P.down.Ordered ch) (sA : SendRel) (hfA : SMap.find? c.sendRel ch = some sA)
    (dt : Nat) (hdt : sA.resend ≤ dt) (cu : Conn) (hcu : c.update dt = .ok cu)
    (hc : CountersOK P.down (dirDown cu l)) (hcA : cu.CountersOK)
    (H2 : backlog sA.unacked ≤ availAtTurn cu ch)
    (ks : List Nat) (hks1 : ∀ k ∈ flushIdx l cu, k ∈ ks) (hks2 : ∀ k ∈ ks, k < l.outS.length + (flushPk cu).length)
    (n : Nat) (hn : (l.subS ch).length ≤ (l.obtC ch).length + n)
    (ops' : List MOp) (ht : trace i ops' = trace i (.srvUpdate dt :: roundFor i ch ks n))
    (hrg : MRunInRange P (ops ++ ops')) (m'' : MSys) (hr : m.run ops' = some m'') :
    ∃ u gc' gl', GMulti.exec P (ops ++ ops') = some u ∧ gconn? u.server i = some gc' ∧ u.links i = some gl' ∧
      (RenetClient.is_disconnected gc' : Res Empty Bool) = .ok false ∧ gl'.tainted = false ∧ gl'.subS = gl.subS ∧
      ((RenetClient.is_disconnected gl'.cl : Res Empty Bool) = .ok false → gl'.obtC ch = gl.subS ch) := by
  have sim := msim_of_runs P ops _ m g hm hg hrg
  obtain ⟨l0, hl0, hsl⟩ := link_of_sim sim hgl
  rw [hml] at hl0; cases hl0
  obtain ⟨mrss, hS⟩ := sim.server
  have hda : c.isDisconnected = false := by
    rw [hS, gconn_repr, hconn] at hgc
    rw [← Option.some.inj hgc] at hga
    exact model_live_of_repr hga
  have hat : At P ops m i l := ⟨hm, hml, by rw [← hsl.tainted]; exact hclean⟩
  obtain ⟨c'', l'', a1, a2, a3, a5, a6, a7⟩ :=
    C11L.broadcast_exactly_once_unless_disconnected hat c hconn hda ch ho sA hfA dt hdt cu hcu hc hcA H2 ks hks1 hks2 n hn
      ops' ht m'' hr
  obtain ⟨u, e, -, simu⟩ := mext_sim P ops ops' m m'' g hm hg hr hrg
  obtain ⟨mrss', hS'⟩ := simu.server
  have hl := simu.links i
  rw [a2] at hl
  cases hul : u.links i with
  | none => rw [hul] at hl; exact hl.elim
  | some gl' =>
    rw [hul] at hl
    have hsl' : SimLink l'' gl' := hl
    obtain ⟨mrs, hgcl⟩ := hsl'.cl
    refine ⟨u, reprConn (mrss' i) c'', gl', e, by rw [hS', gconn_repr, a1]; rfl, hul, is_disconnected_of_repr _ _ a3,
      by rw [hsl'.tainted]; exact a5, funext fun k => by rw [hsl'.subS, hsl.subS, a6], fun hd => ?_⟩
    rw [hgcl] at hd
    rw [hsl'.obtC, hsl.subS, a7 (model_live_of_repr hd)]

/-- **Single-channel configuration, on the generated code** — transports `C11L.broadcast_exactly_once_single`: the only
    server → client channel is the ReliableOrdered channel `ch`; the budget hypothesis is `backlog ≤
    available_bytes_per_tick`, H4 is automatic, the datagrams of the flush are handed over in emission order. -/
theorem src_broadcast_exactly_once_single (P : Params) (ops : List MOp) (g : GMulti) (hg : GMulti.exec P ops = some g)
    (m : MSys) (hm : (MSys.init P).run ops = some m) (i : Nat) (gc : RenetClient) (gl : GLink) (hlive : GLive g i gc gl)
    (l : Link) (hml : m.links i = some l) (c : Conn) (hconn : conn? m.server i = some c)
    (ch : Nat) (hsingle : Single P.down ch) (sA : SendRel) (hfA : SMap.find? c.sendRel ch = some sA)
    (rB : RecvRel) (hfB : SMap.find? l.cl.recvRel ch = some rB)
    (dt : Nat) (hdt : sA.resend ≤ dt) (cu : Conn) (hcu : c.update dt = .ok cu)
    (hc : CountersOK P.down (dirDown cu l)) (hcA : cu.CountersOK)
    (H2 : backlog sA.unacked ≤ P.budget) (H3 : Room (l.subS ch) rB)
    (n : Nat) (hn : (l.subS ch).length ≤ (l.obtC ch).length + n)
    (ops' : List MOp) (ht : trace i ops' = trace i (.srvUpdate dt :: roundFor i ch (flushIdx l cu) n))
    (hrg : MRunInRange P (ops ++ ops')) (m'' : MSys) (hr : m.run ops' = some m'') :
    ∃ u gc' gl', GMulti.exec P (ops ++ ops') = some u ∧ GLive u i gc' gl' ∧
      gl'.subS = gl.subS ∧ gl'.obtC ch = gl.subS ch ∧
      ∀ x ∈ gl.subS ch, 1 ≤ (gl'.obtC ch).count x ∧ (gl'.obtC ch).count x ≤ ((addressedTo i ch ops).map toNats).count x := by
  obtain ⟨hsl, hcl, hda, hdb⟩ := glive_model (msim_of_runs P ops _ m g hm hg hrg) hlive hconn hml
  have hat : At P ops m i l := ⟨hm, hml, hcl⟩
  obtain ⟨c'', l'', a1, a2, a3, a4, a5, a6, a7, -⟩ :=
    C11L.broadcast_exactly_once_single hat c hconn hda hdb ch hsingle sA hfA rB hfB dt hdt cu hcu hc hcA H2 H3 n hn
      ops' ht m'' hr
  obtain ⟨u, gc', gl', e, hl', hsl'⟩ := live_core P ops _ m g hm hg hrg m'' hr i c'' l'' a1 a2 a3 a4 a5
  have e2 : gl'.obtC ch = gl.subS ch := by rw [hsl'.obtC, hsl.subS, a7]
  exact ⟨u, gc', gl', e, hl', funext fun k => by rw [hsl'.subS, hsl.subS, a6], e2,
    gcount_facts (by rw [e2]) (gsubS_sublist hat hsl ch)⟩

/-- **A stalled or misbehaving client does not delay the others, on the generated code** — transports
    `C11L.stalled_client_does_not_delay_others`.  The hypotheses on client `i` are those of `src_broadcast_exactly_once`
    (on the generated state `g` and the model state `m`).  Then ANYTHING happens to the other clients first (`opsJ`: any
    operations whose target is a client `j ≠ i`), and the tick and the round of `i` are interleaved with more of the same
    (`ops'`).  The generated execution of `ops ++ opsJ` ends in a state `gJ` whose ghost logs and emission history for `i`
    are those of `g`; the generated execution of `ops ++ opsJ ++ ops'` returns normally, client `i` is still connected, and
    everything addressed to `i` is obtained, in order, in this ONE round. -/
theorem src_stalled_client_does_not_delay_others (P : Params) (ops : List MOp) (g : GMulti) (hg : GMulti.exec P ops = some g)
    (m : MSys) (hm : (MSys.init P).run ops = some m) (i : Nat) (gc : RenetClient) (gl : GLink) (hlive : GLive g i gc gl)
    (l : Link) (hml : m.links i = some l) (c : Conn) (hconn : conn? m.server i = some c)
    (ch : Nat) (ho : P.down.Ordered ch) (sA : SendRel) (hfA : SMap.find? c.sendRel ch = some sA)
    (rB : RecvRel) (hfB : SMap.find? l.cl.recvRel ch = some rB)
    (dt : Nat) (hdt : sA.resend ≤ dt) (cu : Conn) (hcu : c.update dt = .ok cu)
    (hc : CountersOK P.down (dirDown cu l)) (hcA : cu.CountersOK)
    (H2 : backlog sA.unacked ≤ availAtTurn cu ch) (H3 : Room (l.subS ch) rB) (H4 : ∀ p ∈ flushPk cu, OnlyCh ch p)
    (ks : List Nat) (hks1 : ∀ k ∈ flushIdx l cu, k ∈ ks) (hks2 : ∀ k ∈ ks, k ∈ flushIdx l cu)
    (n : Nat) (hn : (l.subS ch).length ≤ (l.obtC ch).length + n)
    (opsJ : List MOp) (hJ : ∀ op ∈ opsJ, ∃ j, target op = some j ∧ j ≠ i) (mJ : MSys) (hrJ : m.run opsJ = some mJ)
    (ops' : List MOp) (ht : trace i ops' = trace i (.srvUpdate dt :: roundFor i ch ks n))
    (hrg : MRunInRange P (ops ++ (opsJ ++ ops'))) (m'' : MSys) (hr : mJ.run ops' = some m'') :
    (∃ gJ gcJ glJ, GMulti.exec P (ops ++ opsJ) = some gJ ∧ GLive gJ i gcJ glJ ∧ glJ.subS = gl.subS ∧ glJ.obtC = gl.obtC ∧
      glJ.outS = gl.outS ∧ glJ.delivC = gl.delivC) ∧
    ∃ u gc' gl', GMulti.exec P (ops ++ (opsJ ++ ops')) = some u ∧ GLive u i gc' gl' ∧
      gl'.subS = gl.subS ∧ gl'.obtC ch = gl.subS ch ∧
      ∀ x ∈ gl.subS ch, 1 ≤ (gl'.obtC ch).count x ∧ (gl'.obtC ch).count x ≤ ((addressedTo i ch ops).map toNats).count x := by
  obtain ⟨hsl, hcl, hda, hdb⟩ := glive_model (msim_of_runs P ops _ m g hm hg hrg) hlive hconn hml
  have hat : At P ops m i l := ⟨hm, hml, hcl⟩
  obtain ⟨hv, c'', l'', a1, a2, a3, a4, a5, a6, a7, -⟩ :=
    C11L.stalled_client_does_not_delay_others hat c hconn hda hdb ch ho sA hfA rB hfB dt hdt cu hcu hc hcA H2 H3 H4 ks hks1
      hks2 n hn opsJ hJ mJ hrJ ops' ht m'' hr
  have hrJ' : m.run (opsJ ++ ops') = some m'' := by rw [MSys.run_append, hrJ]; exact hr
  refine ⟨?_, ?_⟩
  · have hrgJ : MRunInRange P (ops ++ opsJ) := by
      have := mrunInRange_prefix P (ops ++ opsJ) ops' (by rw [List.append_assoc]; exact hrg)
      exact this
    have hcJ : conn? mJ.server i = some c := (congrArg LV.conn hv).trans hconn
    have hlJ : mJ.links i = some l := (congrArg LV.link hv).trans hml
    obtain ⟨gJ, gcJ, glJ, e, hlJ', hslJ⟩ := live_core P ops opsJ m g hm hg hrgJ mJ hrJ i c l hcJ hlJ hda hdb hcl
    refine ⟨gJ, gcJ, glJ, e, hlJ', funext fun k => ?_, funext fun k => ?_, ?_, ?_⟩
    · rw [hslJ.subS, hsl.subS]
    · rw [hslJ.obtC, hsl.obtC]
    · rw [hslJ.outS, hsl.outS]
    · rw [hslJ.delivC, hsl.delivC]
  · obtain ⟨u, gc', gl', e, hl', hsl'⟩ := live_core P ops _ m g hm hg hrg m'' hrJ' i c'' l'' a1 a2 a3 a4 a5
    have e2 : gl'.obtC ch = gl.subS ch := by rw [hsl'.obtC, hsl.subS, a7]
    exact ⟨u, gc', gl', e, hl', funext fun k => by rw [hsl'.subS, hsl.subS, a6], e2,
      gcount_facts (by rw [e2]) (gsubS_sublist hat hsl ch)⟩

/-- **What the generated log `subS` is** — transports `C11L.addressed_is_logged`.  An operation `op` that addresses the bytes
    `x` to client `i` on channel `ch` (`send_message(i, ch, x)`, `broadcast_message(ch, x)`, `broadcast_message_except(ex, ch, x)`
    with `ex ≠ i`) while `i` is in the server table, executed by the generated code, appends `x` to the generated log
    `subS ch` of `i`'s link iff the reliable channel accepted it (`accepted c c' ch`, on the model table entry `c` of `i` and
    `c.sendMessage ch x = .ok c'`), and leaves what `i` obtained unchanged.  On the model: that the step runs (a broadcast
    works on the other clients' connections too). -/
theorem src_addressed_is_logged (P : Params) (ops : List MOp) (g : GMulti) (hg : GMulti.exec P ops = some g)
    (m : MSys) (hm : (MSys.init P).run ops = some m) (i : Nat) (gl : GLink) (hgl : g.links i = some gl)
    (l : Link) (hml : m.links i = some l) (c : Conn) (hconn : conn? m.server i = some c)
    (op : MOp) (ch : Nat) (x : Bytes)
    (hop : op = .srvSend i ch x ∨ op = .broadcast ch x ∨ ∃ ex, ex ≠ i ∧ op = .broadcastExcept ex ch x)
    (hrg : MRunInRange P (ops ++ [op])) (m' : MSys) (hs : m.step op = some m') :
    ∃ u c' gl', GMulti.exec P (ops ++ [op]) = some u ∧ c.sendMessage ch x = .ok c' ∧ u.links i = some gl' ∧
      gl'.subS ch = (if accepted c c' ch then gl.subS ch ++ [toNats x] else gl.subS ch) ∧ gl'.obtC = gl.obtC := by
  have sim := msim_of_runs P ops _ m g hm hg hrg
  obtain ⟨l0, hl0, hsl⟩ := link_of_sim sim hgl
  rw [hml] at hl0; cases hl0
  obtain ⟨c', l', b1, b2, b3, b4, b5, -⟩ := C11L.addressed_is_logged (reach_wf P ops m hm) hs hop hconn hml
  have hr : m.run [op] = some m' := by simp only [MSys.run, hs]
  obtain ⟨u, e, -, simu⟩ := mext_sim P ops [op] m m' g hm hg hr hrg
  obtain ⟨gl', hgl', hsl'⟩ := glink_of_model simu b3
  refine ⟨u, c', gl', e, b1, hgl', ?_, funext fun k => by rw [hsl'.obtC, hsl.obtC, b5]⟩
  rw [hsl'.subS, b4, hsl.subS]
  split
  · rw [List.map_append]; rfl
  · rfl

/-! ## k rounds, budget smaller than the backlog (`Props/C01M.lean`, part B: server → client) -/

/-- **k lossless rounds for client `i` alone deliver everything addressed to it, on the generated code (ReliableOrdered)** —
    transports `C01M.k_rounds_deliver_to_client`.  `k = rs.length ≥ 1` full rounds (tick, flush, deliveries, receives, the
    client's flush, one ack datagram back), in ANY interleaving `ops'` with operations that concern other clients only; every
    round offers channel `ch` at least `B ≥ SLICE_SIZE` bytes, `k * (B - SLICE_SIZE + 1) ≥ backlog`.  The generated execution
    returns normally, client `i` is still connected, and its application has obtained EXACTLY the generated log `gl.subS ch`,
    in order — sliced messages larger than the per-tick budget included.  On the model state: `Room`, the per-round side
    conditions `Rounds` (on the projection `dirDown c l`), the backlog bound, and that `ops'` runs. -/
theorem src_k_rounds_deliver_to_client (P : Params) (ops : List MOp) (g : GMulti) (hg : GMulti.exec P ops = some g)
    (m : MSys) (hm : (MSys.init P).run ops = some m) (i : Nat) (gc : RenetClient) (gl : GLink) (hlive : GLive g i gc gl)
    (l : Link) (hml : m.links i = some l) (c : Conn) (hconn : conn? m.server i = some c)
    (ch : Nat) (ho : P.down.Ordered ch) (sA : SendRel) (hfA : SMap.find? c.sendRel ch = some sA)
    (rB : RecvRel) (hfB : SMap.find? l.cl.recvRel ch = some rB) (H3 : Room (l.subS ch) rB)
    (B : Nat) (hSB : SLICE_SIZE ≤ B)
    (rs : List RoundP) (hR : Rounds P.down ch (SchedBytes ch B) (dirDown c l) rs)
    (hk1 : rs ≠ []) (hk : backlog sA.unacked ≤ rs.length * (B - SLICE_SIZE + 1))
    (ops' : List MOp) (ht : trace i ops' = trace i (roundsFor i ch rs))
    (hrg : MRunInRange P (ops ++ ops')) (m'' : MSys) (hr : m.run ops' = some m'') :
    ∃ u gc' gl', GMulti.exec P (ops ++ ops') = some u ∧ GLive u i gc' gl' ∧
      gl'.subS ch = gl.subS ch ∧ gl'.obtC ch = gl.subS ch ∧
      ∀ x ∈ gl.subS ch, 1 ≤ (gl'.obtC ch).count x ∧ (gl'.obtC ch).count x ≤ ((addressedTo i ch ops).map toNats).count x := by
  obtain ⟨hsl, hcl, hda, hdb⟩ := glive_model (msim_of_runs P ops _ m g hm hg hrg) hlive hconn hml
  have hat : At P ops m i l := ⟨hm, hml, hcl⟩
  obtain ⟨c'', l'', a1, a2, a3, a4, a5, a6, a7, -⟩ :=
    C01M.k_rounds_deliver_to_client hat c hconn hda hdb ch ho sA hfA rB hfB H3 B hSB rs hR hk1 hk ops' ht m'' hr
  obtain ⟨u, gc', gl', e, hl', hsl'⟩ := live_core P ops _ m g hm hg hrg m'' hr i c'' l'' a1 a2 a3 a4 a5
  have e2 : gl'.obtC ch = gl.subS ch := by rw [hsl'.obtC, hsl.subS, a7]
  exact ⟨u, gc', gl', e, hl', by rw [hsl'.subS, hsl.subS, a6], e2, gcount_facts (by rw [e2]) (gsubS_sublist hat hsl ch)⟩

/-- **The same on a ReliableUnordered channel (C02)** — transports `C01M.k_rounds_deliver_to_client_unordered`: a PERMUTATION
    of the generated log. -/
theorem src_k_rounds_deliver_to_client_unordered (P : Params) (ops : List MOp) (g : GMulti) (hg : GMulti.exec P ops = some g)
    (m : MSys) (hm : (MSys.init P).run ops = some m) (i : Nat) (gc : RenetClient) (gl : GLink) (hlive : GLive g i gc gl)
    (l : Link) (hml : m.links i = some l) (c : Conn) (hconn : conn? m.server i = some c)
    (ch : Nat) (ho : P.down.Unordered ch) (sA : SendRel) (hfA : SMap.find? c.sendRel ch = some sA)
    (rB : RecvRel) (hfB : SMap.find? l.cl.recvRel ch = some rB) (H3 : Room (l.subS ch) rB)
    (B : Nat) (hSB : SLICE_SIZE ≤ B)
    (rs : List RoundP) (hR : Rounds P.down ch (SchedBytes ch B) (dirDown c l) rs)
    (hk1 : rs ≠ []) (hk : backlog sA.unacked ≤ rs.length * (B - SLICE_SIZE + 1))
    (ops' : List MOp) (ht : trace i ops' = trace i (roundsFor i ch rs))
    (hrg : MRunInRange P (ops ++ ops')) (m'' : MSys) (hr : m.run ops' = some m'') :
    ∃ u gc' gl', GMulti.exec P (ops ++ ops') = some u ∧ GLive u i gc' gl' ∧
      gl'.subS ch = gl.subS ch ∧ (gl'.obtC ch).Perm (gl.subS ch) ∧
      ∀ x ∈ gl.subS ch, 1 ≤ (gl'.obtC ch).count x ∧ (gl'.obtC ch).count x ≤ ((addressedTo i ch ops).map toNats).count x := by
  obtain ⟨hsl, hcl, hda, hdb⟩ := glive_model (msim_of_runs P ops _ m g hm hg hrg) hlive hconn hml
  have hat : At P ops m i l := ⟨hm, hml, hcl⟩
  obtain ⟨c'', l'', a1, a2, a3, a4, a5, a6, a7, -⟩ :=
    C01M.k_rounds_deliver_to_client_unordered hat c hconn hda hdb ch ho sA hfA rB hfB H3 B hSB rs hR hk1 hk ops' ht m'' hr
  obtain ⟨u, gc', gl', e, hl', hsl'⟩ := live_core P ops _ m g hm hg hrg m'' hr i c'' l'' a1 a2 a3 a4 a5
  have e2 : (gl'.obtC ch).Perm (gl.subS ch) := by rw [hsl'.obtC, hsl.subS]; exact a7.map toNats
  exact ⟨u, gc', gl', e, hl', by rw [hsl'.subS, hsl.subS, a6], e2, gcount_facts e2 (gsubS_sublist hat hsl ch)⟩

/-- **A stalled or misbehaving client does not delay the others, k rounds, on the generated code** — transports
    `C01M.k_rounds_stalled_client_does_not_delay_others`: first ANYTHING happens to the other clients (`opsJ`), then the `k`
    rounds of `i` interleaved with more of the same (`ops'`). -/
theorem src_k_rounds_stalled_client_does_not_delay_others (P : Params) (ops : List MOp) (g : GMulti) (hg : GMulti.exec P ops = some g)
    (m : MSys) (hm : (MSys.init P).run ops = some m) (i : Nat) (gc : RenetClient) (gl : GLink) (hlive : GLive g i gc gl)
    (l : Link) (hml : m.links i = some l) (c : Conn) (hconn : conn? m.server i = some c)
    (ch : Nat) (ho : P.down.Ordered ch) (sA : SendRel) (hfA : SMap.find? c.sendRel ch = some sA)
    (rB : RecvRel) (hfB : SMap.find? l.cl.recvRel ch = some rB) (H3 : Room (l.subS ch) rB)
    (B : Nat) (hSB : SLICE_SIZE ≤ B)
    (rs : List RoundP) (hR : Rounds P.down ch (SchedBytes ch B) (dirDown c l) rs)
    (hk1 : rs ≠ []) (hk : backlog sA.unacked ≤ rs.length * (B - SLICE_SIZE + 1))
    (opsJ : List MOp) (hJ : ∀ op ∈ opsJ, ∃ j, target op = some j ∧ j ≠ i) (mJ : MSys) (hrJ : m.run opsJ = some mJ)
    (ops' : List MOp) (ht : trace i ops' = trace i (roundsFor i ch rs))
    (hrg : MRunInRange P (ops ++ (opsJ ++ ops'))) (m'' : MSys) (hr : mJ.run ops' = some m'') :
    ∃ u gc' gl', GMulti.exec P (ops ++ (opsJ ++ ops')) = some u ∧ GLive u i gc' gl' ∧
      gl'.subS ch = gl.subS ch ∧ gl'.obtC ch = gl.subS ch ∧
      ∀ x ∈ gl.subS ch, 1 ≤ (gl'.obtC ch).count x ∧ (gl'.obtC ch).count x ≤ ((addressedTo i ch ops).map toNats).count x := by
  obtain ⟨hsl, hcl, hda, hdb⟩ := glive_model (msim_of_runs P ops _ m g hm hg hrg) hlive hconn hml
  have hat : At P ops m i l := ⟨hm, hml, hcl⟩
  obtain ⟨-, c'', l'', a1, a2, a3, a4, a5, a6, a7, -⟩ :=
    C01M.k_rounds_stalled_client_does_not_delay_others hat c hconn hda hdb ch ho sA hfA rB hfB H3 B hSB rs hR hk1 hk
      opsJ hJ mJ hrJ ops' ht m'' hr
  have hrJ' : m.run (opsJ ++ ops') = some m'' := by rw [MSys.run_append, hrJ]; exact hr
  obtain ⟨u, gc', gl', e, hl', hsl'⟩ := live_core P ops _ m g hm hg hrg m'' hrJ' i c'' l'' a1 a2 a3 a4 a5
  have e2 : gl'.obtC ch = gl.subS ch := by rw [hsl'.obtC, hsl.subS, a7]
  exact ⟨u, gc', gl', e, hl', by rw [hsl'.subS, hsl.subS, a6], e2, gcount_facts (by rw [e2]) (gsubS_sublist hat hsl ch)⟩

/-! ## client → server (`Props/C01M.lean`, part C) -/

/-- **One lossless round for client `i` alone, client → server, on the generated code (ReliableOrdered; H1 as a hypothesis)** —
    transports `C01M.round_delivers_to_server`.  The GENERATED execution of `cliFlush i ; deliverToSrv i k (k ∈ ks) ;
    srvRecv i ch (n times)` returns normally, client `i` is still connected, and the server application has obtained under id
    `i` exactly the generated log `gl.subC ch` of what client `i`'s application submitted, in order. -/
theorem src_round_delivers_to_server (P : Params) (ops : List MOp) (g : GMulti) (hg : GMulti.exec P ops = some g)
    (m : MSys) (hm : (MSys.init P).run ops = some m) (i : Nat) (gc : RenetClient) (gl : GLink) (hlive : GLive g i gc gl)
    (l : Link) (hml : m.links i = some l) (c : Conn) (hconn : conn? m.server i = some c)
    (ch : Nat) (ks : List Nat) (n : Nat) (hrg : MRunInRange P (ops ++ roundForU i ch ks n))
    (hc : CountersOK P.up (dirUp c l)) (hcA : l.cl.CountersOK)
    (ho : P.up.Ordered ch) (sA : SendRel) (hfA : SMap.find? l.cl.sendRel ch = some sA)
    (rB : RecvRel) (hfB : SMap.find? c.recvRel ch = some rB)
    (H1 : AllDue l.cl.now sA.resend sA.unacked) (H2 : backlog sA.unacked ≤ availAtTurn l.cl ch)
    (H3 : Room (l.subC ch) rB) (H4 : ∀ p ∈ flushPk l.cl, OnlyCh ch p)
    (hks1 : ∀ k ∈ flushIdxU l l.cl, k ∈ ks) (hks2 : ∀ k ∈ ks, k ∈ flushIdxU l l.cl)
    (hn : (l.subC ch).length ≤ (l.obtS ch).length + n) :
    ∃ u gc' gl', GMulti.exec P (ops ++ roundForU i ch ks n) = some u ∧ GLive u i gc' gl' ∧
      gl'.subC = gl.subC ∧ gl'.obtS ch = gl.subC ch := by
  obtain ⟨hsl, hcl, hdb, hda⟩ := glive_model (msim_of_runs P ops _ m g hm hg hrg) hlive hconn hml
  have hat : At P ops m i l := ⟨hm, hml, hcl⟩
  obtain ⟨m', c', l', hr, a1, a2, a3, a4, a5, a6, a7, -⟩ :=
    C01M.round_delivers_to_server hat c hconn hc hcA hda hdb ch ho sA hfA rB hfB H1 H2 H3 H4 ks hks1 hks2 n hn
  obtain ⟨u, gc', gl', e, hl', hsl'⟩ := live_core P ops _ m g hm hg hrg m' hr i c' l' a1 a2 a3 a4 a5
  refine ⟨u, gc', gl', e, hl', funext fun k => ?_, ?_⟩
  · rw [hsl'.subC, hsl.subC, a6]
  · rw [hsl'.obtS, hsl.subC, a7]

/-- **What client `i` submitted is obtained by the generated server under id `i` EXACTLY ONCE (ReliableOrdered)** — transports
    `C01M.from_one_exactly_once`.  Client `i`'s `update(dt)` with `dt ≥ resend_time` and ONE lossless round client → server
    for `i` alone, in ANY interleaving `ops'` with operations that concern other clients only.  The generated execution
    returns normally, client `i` is still connected, and the server application has obtained under id `i` EXACTLY the
    generated log `gl.subC ch`, in order: every logged message at least once, and at most as often as client `i` submitted
    it in the run.  On the model state: timer, counters after the tick, H2–H4, the indices `ks`, `hn`, and that `ops'` runs. -/
theorem src_from_one_exactly_once (P : Params) (ops : List MOp) (g : GMulti) (hg : GMulti.exec P ops = some g)
    (m : MSys) (hm : (MSys.init P).run ops = some m) (i : Nat) (gc : RenetClient) (gl : GLink) (hlive : GLive g i gc gl)
    (l : Link) (hml : m.links i = some l) (c : Conn) (hconn : conn? m.server i = some c)
    (ch : Nat) (ho : P.up.Ordered ch) (sA : SendRel) (hfA : SMap.find? l.cl.sendRel ch = some sA)
    (rB : RecvRel) (hfB : SMap.find? c.recvRel ch = some rB)
    (dt : Nat) (hdt : sA.resend ≤ dt) (clu : Conn) (hclu : l.cl.update dt = .ok clu)
    (hc : CountersOK P.up (dirUp c { l with cl := clu })) (hcA : clu.CountersOK)
    (H2 : backlog sA.unacked ≤ availAtTurn clu ch) (H3 : Room (l.subC ch) rB) (H4 : ∀ p ∈ flushPk clu, OnlyCh ch p)
    (ks : List Nat) (hks1 : ∀ k ∈ flushIdxU l clu, k ∈ ks) (hks2 : ∀ k ∈ ks, k ∈ flushIdxU l clu)
    (n : Nat) (hn : (l.subC ch).length ≤ (l.obtS ch).length + n)
    (ops' : List MOp) (ht : trace i ops' = trace i (.cliUpdate i dt :: roundForU i ch ks n))
    (hrg : MRunInRange P (ops ++ ops')) (m'' : MSys) (hr : m.run ops' = some m'') :
    ∃ u gc' gl', GMulti.exec P (ops ++ ops') = some u ∧ GLive u i gc' gl' ∧
      gl'.subC = gl.subC ∧ gl'.obtS ch = gl.subC ch ∧
      ∀ x ∈ gl.subC ch, 1 ≤ (gl'.obtS ch).count x ∧ (gl'.obtS ch).count x ≤ ((sentBy i ch ops).map toNats).count x := by
  obtain ⟨hsl, hcl, hdb, hda⟩ := glive_model (msim_of_runs P ops _ m g hm hg hrg) hlive hconn hml
  have hat : At P ops m i l := ⟨hm, hml, hcl⟩
  obtain ⟨-, c'', l'', a1, a2, a3, a4, a5, a6, a7, -⟩ :=
    C01M.from_one_exactly_once hat c hconn hda hdb ch ho sA hfA rB hfB dt hdt clu hclu hc hcA H2 H3 H4 ks hks1 hks2 n hn ops' ht m'' hr
  obtain ⟨u, gc', gl', e, hl', hsl'⟩ := live_core P ops _ m g hm hg hrg m'' hr i c'' l'' a1 a2 a3 a4 a5
  have e2 : gl'.obtS ch = gl.subC ch := by rw [hsl'.obtS, hsl.subC, a7]
  exact ⟨u, gc', gl', e, hl', funext fun k => by rw [hsl'.subC, hsl.subC, a6], e2,
    gcount_facts (by rw [e2]) (gsubC_sublist hat hsl ch)⟩

/-- **The same on a ReliableUnordered channel** — transports `C01M.from_one_exactly_once_unordered`: a permutation of the
    generated log. -/
theorem src_from_one_exactly_once_unordered (P : Params) (ops : List MOp) (g : GMulti) (hg : GMulti.exec P ops = some g)
    (m : MSys) (hm : (MSys.init P).run ops = some m) (i : Nat) (gc : RenetClient) (gl : GLink) (hlive : GLive g i gc gl)
    (l : Link) (hml : m.links i = some l) (c : Conn) (hconn : conn? m.server i = some c)
    (ch : Nat) (ho : P.up.Unordered ch) (sA : SendRel) (hfA : SMap.find? l.cl.sendRel ch = some sA)
    (rB : RecvRel) (hfB : SMap.find? c.recvRel ch = some rB)
    (dt : Nat) (hdt : sA.resend ≤ dt) (clu : Conn) (hclu : l.cl.update dt = .ok clu)
    (hc : CountersOK P.up (dirUp c { l with cl := clu })) (hcA : clu.CountersOK)
    (H2 : backlog sA.unacked ≤ availAtTurn clu ch) (H3 : Room (l.subC ch) rB) (H4 : ∀ p ∈ flushPk clu, OnlyCh ch p)
    (ks : List Nat) (hks1 : ∀ k ∈ flushIdxU l clu, k ∈ ks) (hks2 : ∀ k ∈ ks, k ∈ flushIdxU l clu)
    (n : Nat) (hn : (l.subC ch).length ≤ (l.obtS ch).length + n)
    (ops' : List MOp) (ht : trace i ops' = trace i (.cliUpdate i dt :: roundForU i ch ks n))
    (hrg : MRunInRange P (ops ++ ops')) (m'' : MSys) (hr : m.run ops' = some m'') :
    ∃ u gc' gl', GMulti.exec P (ops ++ ops') = some u ∧ GLive u i gc' gl' ∧
      gl'.subC = gl.subC ∧ (gl'.obtS ch).Perm (gl.subC ch) ∧
      ∀ x ∈ gl.subC ch, 1 ≤ (gl'.obtS ch).count x ∧ (gl'.obtS ch).count x ≤ ((sentBy i ch ops).map toNats).count x := by
  obtain ⟨hsl, hcl, hdb, hda⟩ := glive_model (msim_of_runs P ops _ m g hm hg hrg) hlive hconn hml
  have hat : At P ops m i l := ⟨hm, hml, hcl⟩
  obtain ⟨-, c'', l'', a1, a2, a3, a4, a5, a6, a7, -⟩ :=
    C01M.from_one_exactly_once_unordered hat c hconn hda hdb ch ho sA hfA rB hfB dt hdt clu hclu hc hcA H2 H3 H4 ks hks1 hks2 n hn ops' ht m'' hr
  obtain ⟨u, gc', gl', e, hl', hsl'⟩ := live_core P ops _ m g hm hg hrg m'' hr i c'' l'' a1 a2 a3 a4 a5
  have e2 : (gl'.obtS ch).Perm (gl.subC ch) := by rw [hsl'.obtS, hsl.subC]; exact a7.map toNats
  exact ⟨u, gc', gl', e, hl', funext fun k => by rw [hsl'.subC, hsl.subC, a6], e2,
    gcount_facts e2 (gsubC_sublist hat hsl ch)⟩

/-- **The tick and the round of client `i` ALONE run on the generated code and deliver (ReliableOrdered)** — transports both
    conclusions of `C01M.from_one_exactly_once` (`C01M.from_one_gen`) for the continuation `cliUpdate i dt ; cliFlush i ;
    deliverToSrv i k (k ∈ ks) ; srvRecv i ch (n times)`: every operation is local to `i`, so that the GENERATED execution
    returns normally is a conclusion, with no hypothesis on any run of the continuation. -/
theorem src_from_one_runs (P : Params) (ops : List MOp) (g : GMulti) (hg : GMulti.exec P ops = some g)
    (m : MSys) (hm : (MSys.init P).run ops = some m) (i : Nat) (gc : RenetClient) (gl : GLink) (hlive : GLive g i gc gl)
    (l : Link) (hml : m.links i = some l) (c : Conn) (hconn : conn? m.server i = some c)
    (ch : Nat) (ho : P.up.Ordered ch) (sA : SendRel) (hfA : SMap.find? l.cl.sendRel ch = some sA)
    (rB : RecvRel) (hfB : SMap.find? c.recvRel ch = some rB)
    (dt : Nat) (hdt : sA.resend ≤ dt) (clu : Conn) (hclu : l.cl.update dt = .ok clu)
    (hc : CountersOK P.up (dirUp c { l with cl := clu })) (hcA : clu.CountersOK)
    (H2 : backlog sA.unacked ≤ availAtTurn clu ch) (H3 : Room (l.subC ch) rB) (H4 : ∀ p ∈ flushPk clu, OnlyCh ch p)
    (ks : List Nat) (hks1 : ∀ k ∈ flushIdxU l clu, k ∈ ks) (hks2 : ∀ k ∈ ks, k ∈ flushIdxU l clu)
    (n : Nat) (hn : (l.subC ch).length ≤ (l.obtS ch).length + n)
    (hrg : MRunInRange P (ops ++ (.cliUpdate i dt :: roundForU i ch ks n))) :
    ∃ u gc' gl', GMulti.exec P (ops ++ (.cliUpdate i dt :: roundForU i ch ks n)) = some u ∧ GLive u i gc' gl' ∧
      gl'.subC = gl.subC ∧ gl'.obtS ch = gl.subC ch := by
  obtain ⟨hsl, hcl, hdb, hda⟩ := glive_model (msim_of_runs P ops _ m g hm hg hrg) hlive hconn hml
  have hat : At P ops m i l := ⟨hm, hml, hcl⟩
  obtain ⟨⟨m'', hr⟩, p2⟩ :=
    C01M.from_one_gen hat c hconn hda hdb ch true ho sA hfA rB hfB dt hdt clu hclu hc hcA H2 H3 H4 ks hks1 hks2 n hn
  obtain ⟨c'', l'', a1, a2, a3, a4, a5, a6, a7, -⟩ := p2 _ rfl m'' hr
  obtain ⟨u, gc', gl', e, hl', hsl'⟩ := live_core P ops _ m g hm hg hrg m'' hr i c'' l'' a1 a2 a3 a4 a5
  have e2 : gl'.obtS ch = gl.subC ch := by rw [hsl'.obtS, hsl.subC]; exact congrArg (List.map toNats) a7
  exact ⟨u, gc', gl', e, hl', funext fun k => by rw [hsl'.subC, hsl.subC, a6], e2⟩

/-- … ReliableUnordered -/
theorem src_from_one_runs_unordered (P : Params) (ops : List MOp) (g : GMulti) (hg : GMulti.exec P ops = some g)
    (m : MSys) (hm : (MSys.init P).run ops = some m) (i : Nat) (gc : RenetClient) (gl : GLink) (hlive : GLive g i gc gl)
    (l : Link) (hml : m.links i = some l) (c : Conn) (hconn : conn? m.server i = some c)
    (ch : Nat) (ho : P.up.Unordered ch) (sA : SendRel) (hfA : SMap.find? l.cl.sendRel ch = some sA)
    (rB : RecvRel) (hfB : SMap.find? c.recvRel ch = some rB)
    (dt : Nat) (hdt : sA.resend ≤ dt) (clu : Conn) (hclu : l.cl.update dt = .ok clu)
    (hc : CountersOK P.up (dirUp c { l with cl := clu })) (hcA : clu.CountersOK)
    (H2 : backlog sA.unacked ≤ availAtTurn clu ch) (H3 : Room (l.subC ch) rB) (H4 : ∀ p ∈ flushPk clu, OnlyCh ch p)
    (ks : List Nat) (hks1 : ∀ k ∈ flushIdxU l clu, k ∈ ks) (hks2 : ∀ k ∈ ks, k ∈ flushIdxU l clu)
    (n : Nat) (hn : (l.subC ch).length ≤ (l.obtS ch).length + n)
    (hrg : MRunInRange P (ops ++ (.cliUpdate i dt :: roundForU i ch ks n))) :
    ∃ u gc' gl', GMulti.exec P (ops ++ (.cliUpdate i dt :: roundForU i ch ks n)) = some u ∧ GLive u i gc' gl' ∧
      gl'.subC = gl.subC ∧ (gl'.obtS ch).Perm (gl.subC ch) := by
  obtain ⟨hsl, hcl, hdb, hda⟩ := glive_model (msim_of_runs P ops _ m g hm hg hrg) hlive hconn hml
  have hat : At P ops m i l := ⟨hm, hml, hcl⟩
  obtain ⟨⟨m'', hr⟩, p2⟩ :=
    C01M.from_one_gen hat c hconn hda hdb ch false ho sA hfA rB hfB dt hdt clu hclu hc hcA H2 H3 H4 ks hks1 hks2 n hn
  obtain ⟨c'', l'', a1, a2, a3, a4, a5, a6, a7, -⟩ := p2 _ rfl m'' hr
  obtain ⟨u, gc', gl', e, hl', hsl'⟩ := live_core P ops _ m g hm hg hrg m'' hr i c'' l'' a1 a2 a3 a4 a5
  have e2 : (gl'.obtS ch).Perm (gl.subC ch) := by rw [hsl'.obtS, hsl.subC]; exact List.Perm.map toNats a7
  exact ⟨u, gc', gl', e, hl', funext fun k => by rw [hsl'.subC, hsl.subC, a6], e2⟩

/-- **k lossless rounds client → server deliver everything client `i` submitted, on the generated code (ReliableOrdered)** —
    transports `C01M.k_rounds_deliver_to_server`: the generated server application obtains under id `i` EXACTLY the
    generated log `gl.subC ch`, in order, whatever the interleaving `ops'` with operations of other clients. -/
theorem src_k_rounds_deliver_to_server (P : Params) (ops : List MOp) (g : GMulti) (hg : GMulti.exec P ops = some g)
    (m : MSys) (hm : (MSys.init P).run ops = some m) (i : Nat) (gc : RenetClient) (gl : GLink) (hlive : GLive g i gc gl)
    (l : Link) (hml : m.links i = some l) (c : Conn) (hconn : conn? m.server i = some c)
    (ch : Nat) (ho : P.up.Ordered ch) (sA : SendRel) (hfA : SMap.find? l.cl.sendRel ch = some sA)
    (rB : RecvRel) (hfB : SMap.find? c.recvRel ch = some rB) (H3 : Room (l.subC ch) rB)
    (B : Nat) (hSB : SLICE_SIZE ≤ B)
    (rs : List RoundP) (hR : Rounds P.up ch (SchedBytes ch B) (dirUp c l) rs)
    (hk1 : rs ≠ []) (hk : backlog sA.unacked ≤ rs.length * (B - SLICE_SIZE + 1))
    (ops' : List MOp) (ht : trace i ops' = trace i (roundsForU i ch rs))
    (hrg : MRunInRange P (ops ++ ops')) (m'' : MSys) (hr : m.run ops' = some m'') :
    ∃ u gc' gl', GMulti.exec P (ops ++ ops') = some u ∧ GLive u i gc' gl' ∧
      gl'.subC ch = gl.subC ch ∧ gl'.obtS ch = gl.subC ch ∧
      ∀ x ∈ gl.subC ch, 1 ≤ (gl'.obtS ch).count x ∧ (gl'.obtS ch).count x ≤ ((sentBy i ch ops).map toNats).count x := by
  obtain ⟨hsl, hcl, hdb, hda⟩ := glive_model (msim_of_runs P ops _ m g hm hg hrg) hlive hconn hml
  have hat : At P ops m i l := ⟨hm, hml, hcl⟩
  obtain ⟨c'', l'', a1, a2, a3, a4, a5, a6, a7, -⟩ :=
    C01M.k_rounds_deliver_to_server hat c hconn hda hdb ch ho sA hfA rB hfB H3 B hSB rs hR hk1 hk ops' ht m'' hr
  obtain ⟨u, gc', gl', e, hl', hsl'⟩ := live_core P ops _ m g hm hg hrg m'' hr i c'' l'' a1 a2 a3 a4 a5
  have e2 : gl'.obtS ch = gl.subC ch := by rw [hsl'.obtS, hsl.subC, a7]
  exact ⟨u, gc', gl', e, hl', by rw [hsl'.subC, hsl.subC, a6], e2, gcount_facts (by rw [e2]) (gsubC_sublist hat hsl ch)⟩

/-- … ReliableUnordered — transports `C01M.k_rounds_deliver_to_server_unordered` -/
theorem src_k_rounds_deliver_to_server_unordered (P : Params) (ops : List MOp) (g : GMulti) (hg : GMulti.exec P ops = some g)
    (m : MSys) (hm : (MSys.init P).run ops = some m) (i : Nat) (gc : RenetClient) (gl : GLink) (hlive : GLive g i gc gl)
    (l : Link) (hml : m.links i = some l) (c : Conn) (hconn : conn? m.server i = some c)
    (ch : Nat) (ho : P.up.Unordered ch) (sA : SendRel) (hfA : SMap.find? l.cl.sendRel ch = some sA)
    (rB : RecvRel) (hfB : SMap.find? c.recvRel ch = some rB) (H3 : Room (l.subC ch) rB)
    (B : Nat) (hSB : SLICE_SIZE ≤ B)
    (rs : List RoundP) (hR : Rounds P.up ch (SchedBytes ch B) (dirUp c l) rs)
    (hk1 : rs ≠ []) (hk : backlog sA.unacked ≤ rs.length * (B - SLICE_SIZE + 1))
    (ops' : List MOp) (ht : trace i ops' = trace i (roundsForU i ch rs))
    (hrg : MRunInRange P (ops ++ ops')) (m'' : MSys) (hr : m.run ops' = some m'') :
    ∃ u gc' gl', GMulti.exec P (ops ++ ops') = some u ∧ GLive u i gc' gl' ∧
      gl'.subC ch = gl.subC ch ∧ (gl'.obtS ch).Perm (gl.subC ch) ∧
      ∀ x ∈ gl.subC ch, 1 ≤ (gl'.obtS ch).count x ∧ (gl'.obtS ch).count x ≤ ((sentBy i ch ops).map toNats).count x := by
  obtain ⟨hsl, hcl, hdb, hda⟩ := glive_model (msim_of_runs P ops _ m g hm hg hrg) hlive hconn hml
  have hat : At P ops m i l := ⟨hm, hml, hcl⟩
  obtain ⟨c'', l'', a1, a2, a3, a4, a5, a6, a7, -⟩ :=
    C01M.k_rounds_deliver_to_server_unordered hat c hconn hda hdb ch ho sA hfA rB hfB H3 B hSB rs hR hk1 hk ops' ht m'' hr
  obtain ⟨u, gc', gl', e, hl', hsl'⟩ := live_core P ops _ m g hm hg hrg m'' hr i c'' l'' a1 a2 a3 a4 a5
  have e2 : (gl'.obtS ch).Perm (gl.subC ch) := by rw [hsl'.obtS, hsl.subC]; exact a7.map toNats
  exact ⟨u, gc', gl', e, hl', by rw [hsl'.subC, hsl.subC, a6], e2, gcount_facts e2 (gsubC_sublist hat hsl ch)⟩

/-- **The k rounds client → server of client `i` ALONE run on the generated code and deliver (ReliableOrdered)** — transports
    `C01M.k_rounds_run_to_server` together with `C01M.k_rounds_deliver_to_server` (`C01M.k_rounds_to_server_gen`): every
    operation of such a round is local to `i`; that the GENERATED execution of `roundsForU i ch rs` returns normally is a
    conclusion. -/
theorem src_k_rounds_run_to_server (P : Params) (ops : List MOp) (g : GMulti) (hg : GMulti.exec P ops = some g)
    (m : MSys) (hm : (MSys.init P).run ops = some m) (i : Nat) (gc : RenetClient) (gl : GLink) (hlive : GLive g i gc gl)
    (l : Link) (hml : m.links i = some l) (c : Conn) (hconn : conn? m.server i = some c)
    (ch : Nat) (ho : P.up.Ordered ch) (sA : SendRel) (hfA : SMap.find? l.cl.sendRel ch = some sA)
    (rB : RecvRel) (hfB : SMap.find? c.recvRel ch = some rB) (H3 : Room (l.subC ch) rB)
    (B : Nat) (hSB : SLICE_SIZE ≤ B)
    (rs : List RoundP) (hR : Rounds P.up ch (SchedBytes ch B) (dirUp c l) rs)
    (hk1 : rs ≠ []) (hk : backlog sA.unacked ≤ rs.length * (B - SLICE_SIZE + 1))
    (hrg : MRunInRange P (ops ++ roundsForU i ch rs)) :
    ∃ u gc' gl', GMulti.exec P (ops ++ roundsForU i ch rs) = some u ∧ GLive u i gc' gl' ∧
      gl'.subC ch = gl.subC ch ∧ gl'.obtS ch = gl.subC ch := by
  obtain ⟨hsl, hcl, hdb, hda⟩ := glive_model (msim_of_runs P ops _ m g hm hg hrg) hlive hconn hml
  have hat : At P ops m i l := ⟨hm, hml, hcl⟩
  obtain ⟨⟨m'', hr⟩, p2⟩ :=
    C01M.k_rounds_to_server_gen hat c hconn hda hdb ch true ho sA hfA rB hfB H3 B hSB rs hR hk1 hk
  obtain ⟨c'', l'', a1, a2, a3, a4, a5, a6, a7, -⟩ := p2 _ rfl m'' hr
  obtain ⟨u, gc', gl', e, hl', hsl'⟩ := live_core P ops _ m g hm hg hrg m'' hr i c'' l'' a1 a2 a3 a4 a5
  have e2 : gl'.obtS ch = gl.subC ch := by rw [hsl'.obtS, hsl.subC]; exact congrArg (List.map toNats) a7
  exact ⟨u, gc', gl', e, hl', by rw [hsl'.subC, hsl.subC, a6], e2⟩

/-- … ReliableUnordered -/
theorem src_k_rounds_run_to_server_unordered (P : Params) (ops : List MOp) (g : GMulti) (hg : GMulti.exec P ops = some g)
    (m : MSys) (hm : (MSys.init P).run ops = some m) (i : Nat) (gc : RenetClient) (gl : GLink) (hlive : GLive g i gc gl)
    (l : Link) (hml : m.links i = some l) (c : Conn) (hconn : conn? m.server i = some c)
    (ch : Nat) (ho : P.up.Unordered ch) (sA : SendRel) (hfA : SMap.find? l.cl.sendRel ch = some sA)
    (rB : RecvRel) (hfB : SMap.find? c.recvRel ch = some rB) (H3 : Room (l.subC ch) rB)
    (B : Nat) (hSB : SLICE_SIZE ≤ B)
    (rs : List RoundP) (hR : Rounds P.up ch (SchedBytes ch B) (dirUp c l) rs)
    (hk1 : rs ≠ []) (hk : backlog sA.unacked ≤ rs.length * (B - SLICE_SIZE + 1))
    (hrg : MRunInRange P (ops ++ roundsForU i ch rs)) :
    ∃ u gc' gl', GMulti.exec P (ops ++ roundsForU i ch rs) = some u ∧ GLive u i gc' gl' ∧
      gl'.subC ch = gl.subC ch ∧ (gl'.obtS ch).Perm (gl.subC ch) := by
  obtain ⟨hsl, hcl, hdb, hda⟩ := glive_model (msim_of_runs P ops _ m g hm hg hrg) hlive hconn hml
  have hat : At P ops m i l := ⟨hm, hml, hcl⟩
  obtain ⟨⟨m'', hr⟩, p2⟩ :=
    C01M.k_rounds_to_server_gen hat c hconn hda hdb ch false ho sA hfA rB hfB H3 B hSB rs hR hk1 hk
  obtain ⟨c'', l'', a1, a2, a3, a4, a5, a6, a7, -⟩ := p2 _ rfl m'' hr
  obtain ⟨u, gc', gl', e, hl', hsl'⟩ := live_core P ops _ m g hm hg hrg m'' hr i c'' l'' a1 a2 a3 a4 a5
  have e2 : (gl'.obtS ch).Perm (gl.subC ch) := by rw [hsl'.obtS, hsl.subC]; exact List.Perm.map toNats a7
  exact ⟨u, gc', gl', e, hl', by rw [hsl'.subC, hsl.subC, a6], e2⟩

/-! ## non-vacuity (one round): the examples of `Props/C11L.lean` executed by the kernel ON THE GENERATED CODE

  In every example the generated run up to the start of the round (`grun`), the link and the server-side connection of the
  client (`glink`, `gconn1`), `GLive` and the range side condition over the whole execution (`inRange`) are established by
  kernel evaluation of the generated code / of the decision procedure; the model-side hypotheses are the facts of the
  C11L examples. -/

open RenetVerif.SrcPropsMulti.Ex (gzero lzero)

/-! `C11L.ExStall` — a STALLED client 2 (nothing is ever delivered to it; the server disconnects it with
    `ReliableChannelMaxMemoryReached`), the datagram carrying the third broadcast to client 1 lost; then more operations for
    client 2, the tick, and one lossless round for client 1 interleaved with a `broadcast_except(1)`, polling by client 2 and
    its removal. -/
namespace ExStall
abbrev P := C11L.ExStall.P
abbrev ops := C11L.ExStall.ops
abbrev opsJ := C11L.ExStall.opsJ
abbrev ops' := C11L.ExStall.ops'
abbrev opsS := C11L.ExStall.opsS

def g : GMulti := (GMulti.exec P ops).getD gzero
def gl : GLink := (g.links 1).getD lzero
def gc : RenetClient := (gconn? g.server 1).getD lzero.cl
def gu : GMulti := (GMulti.exec P (ops ++ (opsJ ++ ops'))).getD gzero

theorem inRange : MRunInRange P (ops ++ (opsJ ++ ops')) := by decide +kernel
theorem inRangeS : MRunInRange P (ops ++ opsS) := by decide +kernel
theorem grun : GMulti.exec P ops = some g := some_getD (by decide +kernel) _
theorem glink : g.links 1 = some gl := some_getD (by decide +kernel) _
theorem gconn1 : gconn? g.server 1 = some gc := some_getD (by decide +kernel) _
/-- client 1 is connected in the generated state (generated `is_disconnected` of both ends evaluated by the kernel) -/
theorem glive : GLive g 1 gc gl := ⟨gconn1, glink, by decide +kernel, by decide +kernel, by decide +kernel⟩
/-- the generated logs at the start: the third broadcast is logged for client 1, not yet obtained -/
theorem gstart : gl.subS 0 = [[1, 2, 3, 4], [5, 6, 7, 8], [9, 10, 11, 12]] ∧ gl.obtC 0 = [[1, 2, 3, 4], [5, 6, 7, 8]] := by
  decide +kernel

/-- **`src_stalled_client_does_not_delay_others` applied**: the generated code runs through `ops ++ opsJ ++ ops'`, client 1 is
    connected at the end and has obtained everything addressed to it -/
theorem client1_not_delayed :
    ∃ u gc' gl', GMulti.exec P (ops ++ (opsJ ++ ops')) = some u ∧ GLive u 1 gc' gl' ∧ gl'.obtC 0 = gl.subS 0 := by
  obtain ⟨-, u, gc', gl', e, h1, -, h2, -⟩ :=
    src_stalled_client_does_not_delay_others P ops g grun C11L.ExStall.m C11L.ExStall.run 1 gc gl glive C11L.ExStall.l
      C11L.ExStall.link C11L.ExStall.c C11L.ExStall.conn1 0 C11L.ExStall.ordered0 C11L.ExStall.sA C11L.ExStall.find_sA
      C11L.ExStall.rB C11L.ExStall.find_rB 1000 C11L.ExStall.facts.2.2.1 C11L.ExStall.cu C11L.ExStall.upd
      C11L.ExStall.counters C11L.ExStall.countersA C11L.ExStall.facts.2.2.2.1 C11L.ExStall.facts.2.2.2.2.1
      C11L.ExStall.facts.2.2.2.2.2.1 [6, 5]
      (by rw [C11L.ExStall.facts.2.2.2.2.2.2]; decide) (by rw [C11L.ExStall.facts.2.2.2.2.2.2]; decide) 1
      (by rw [C11L.ExStall.situation.2.2.2.1, C11L.ExStall.situation.2.2.2.2.1]; decide)
      opsJ (by decide) C11L.ExStall.mJ C11L.ExStall.runJ ops' (by decide) inRange C11L.ExStall.fin C11L.ExStall.run'
  exact ⟨u, gc', gl', e, h1, h2⟩

/-- what the kernel computes when it runs the generated code to the end: client 1 obtained all three broadcasts, each
    exactly once, in order; client 2 — stalled, disconnected, removed — obtained nothing -/
theorem gfacts : GMulti.exec P (ops ++ (opsJ ++ ops')) = some gu ∧
    (gu.links 1).map (fun l => (l.obtC 0, l.delivC)) = some ([[1, 2, 3, 4], [5, 6, 7, 8], [9, 10, 11, 12]], [0, 1, 6, 5]) ∧
    (gu.links 2).map (fun l => (l.obtC 0, l.delivC)) = some ([], []) ∧
    (Src.renet.server.RenetServer.clients_id gu.server : Res Empty _) = .ok [1] := by
  refine ⟨some_getD (by decide +kernel) _, ?_⟩
  decide +kernel

/-- **`src_broadcast_exactly_once_single` applied** (`P` has one server → client channel) -/
example : ∃ u gc' gl', GMulti.exec P (ops ++ opsS) = some u ∧ GLive u 1 gc' gl' ∧ gl'.obtC 0 = gl.subS 0 := by
  obtain ⟨u, gc', gl', e, h1, -, h2, -⟩ :=
    src_broadcast_exactly_once_single P ops g grun C11L.ExStall.m C11L.ExStall.run 1 gc gl glive C11L.ExStall.l
      C11L.ExStall.link C11L.ExStall.c C11L.ExStall.conn1 0 C11L.ExStall.single0 C11L.ExStall.sA C11L.ExStall.find_sA
      C11L.ExStall.rB C11L.ExStall.find_rB 1000 C11L.ExStall.facts.2.2.1 C11L.ExStall.cu C11L.ExStall.upd
      C11L.ExStall.counters C11L.ExStall.countersA
      (by have := C11L.ExStall.facts.2.2.2.1; rw [C11L.ExStall.single_avail_eq] at this; exact this)
      C11L.ExStall.facts.2.2.2.2.1 1
      (by rw [C11L.ExStall.situation.2.2.2.1, C11L.ExStall.situation.2.2.2.2.1]; decide)
      opsS (by rw [C11L.ExStall.facts.2.2.2.2.2.2]; decide) inRangeS C11L.ExStall.finS C11L.ExStall.runS
  exact ⟨u, gc', gl', e, h1, h2⟩

/-- **`src_addressed_is_logged` applied**: one more broadcast in the generated state `g` is logged for client 1 -/
example : ∃ u gl', GMulti.exec P (ops ++ [.broadcast 0 [13, 14]]) = some u ∧ u.links 1 = some gl' ∧
    gl'.subS 0 = gl.subS 0 ++ [[13, 14]] ∧ gl'.obtC = gl.obtC := by
  obtain ⟨u, c', gl', e, h1, h2, h3, h4⟩ :=
    src_addressed_is_logged P ops g grun C11L.ExStall.m C11L.ExStall.run 1 gl glink C11L.ExStall.l C11L.ExStall.link
      C11L.ExStall.c C11L.ExStall.conn1 (.broadcast 0 [13, 14]) 0 [13, 14] (Or.inr (Or.inl rfl)) (by decide +kernel)
      C11L.ExStall.mB C11L.ExStall.stepB
  rw [C11L.ExStall.sendB] at h1
  rw [← Res.ok.inj h1, C11L.ExStall.accB] at h3
  exact ⟨u, gl', e, h2, h3, h4⟩

end ExStall

/-! `C11L.Ex1` — the run of `C11E.Ex` continued (three clients; client 2 hostile, disconnected, removed; the datagram that
    carried [60] to client 1 lost; client 1 acknowledges what it has); the tick and one lossless round for client 1 alone,
    interleaved with garbage in the names of clients 3 and 2, client 3's disconnection and removal, a stale replay. -/
namespace Ex1
abbrev P := C11L.Ex1.P
abbrev ops := C11L.Ex1.ops
abbrev ops' := C11L.Ex1.ops'

def g : GMulti := (GMulti.exec P ops).getD gzero
def gl : GLink := (g.links 1).getD lzero
def gc : RenetClient := (gconn? g.server 1).getD lzero.cl
def gu : GMulti := (GMulti.exec P (ops ++ ops')).getD gzero

theorem inRange : MRunInRange P (ops ++ ops') := by decide +kernel
theorem grun : GMulti.exec P ops = some g := some_getD (by decide +kernel) _
theorem glink : g.links 1 = some gl := some_getD (by decide +kernel) _
theorem gconn1 : gconn? g.server 1 = some gc := some_getD (by decide +kernel) _
theorem glive : GLive g 1 gc gl := ⟨gconn1, glink, by decide +kernel, by decide +kernel, by decide +kernel⟩
theorem gstart : gl.subS 0 = [[10], [20], [30], [60]] ∧ gl.obtC 0 = [[10], [20], [30]] := by decide +kernel
theorem grun' : GMulti.exec P (ops ++ ops') = some gu := some_getD (by decide +kernel) _

/-- **`src_broadcast_exactly_once` applied**: client 1 now has everything that was addressed to it, [60] included, and
    [60] exactly once -/
theorem client1_has_everything :
    ∃ u gc' gl', GMulti.exec P (ops ++ ops') = some u ∧ GLive u 1 gc' gl' ∧ gl'.obtC 0 = [[10], [20], [30], [60]] ∧
      (gl'.obtC 0).count [60] = 1 := by
  obtain ⟨u, gc', gl', e, h1, -, h2, h3⟩ :=
    src_broadcast_exactly_once P ops g grun C11L.Ex1.m C11L.Ex1.run 1 gc gl glive C11L.Ex1.l C11L.Ex1.link C11L.Ex1.c
      C11L.Ex1.conn1 0 C11L.Ex1.ordered0 C11L.Ex1.sA C11L.Ex1.find_sA C11L.Ex1.rB C11L.Ex1.find_rB 1000
      C11L.Ex1.facts.2.2.1 C11L.Ex1.cu C11L.Ex1.upd C11L.Ex1.counters C11L.Ex1.countersA C11L.Ex1.facts.2.2.2.1
      C11L.Ex1.facts.2.2.2.2.1 C11L.Ex1.facts.2.2.2.2.2.1 [5, 4]
      (by rw [C11L.Ex1.facts.2.2.2.2.2.2.1]; decide) (by rw [C11L.Ex1.facts.2.2.2.2.2.2.1]; decide) 1
      (by rw [C11L.Ex1.facts.2.2.2.2.2.2.2.1, C11L.Ex1.facts.2.2.2.2.2.2.2.2.1]; decide)
      ops' (by decide) inRange C11L.Ex1.fin C11L.Ex1.run'
  have hx : [60] ∈ gl.subS 0 := by rw [gstart.1]; decide
  obtain ⟨c1, c2⟩ := h3 [60] hx
  have c3 : ((addressedTo 1 0 ops).map toNats).count [60] = 1 := by decide
  exact ⟨u, gc', gl', e, h1, by rw [h2, gstart.1], by omega⟩

/-- **`src_broadcast_exactly_once_of_exec` applied** to the generated execution `grun'` computed by the kernel -/
example : ∃ gc' gl', GLive gu 1 gc' gl' ∧ gl'.obtC 0 = gl.subS 0 := by
  obtain ⟨gc', gl', h1, -, h2, -⟩ :=
    src_broadcast_exactly_once_of_exec P ops g grun C11L.Ex1.m C11L.Ex1.run 1 gc gl glive C11L.Ex1.l C11L.Ex1.link C11L.Ex1.c
      C11L.Ex1.conn1 0 C11L.Ex1.ordered0 C11L.Ex1.sA C11L.Ex1.find_sA C11L.Ex1.rB C11L.Ex1.find_rB 1000
      C11L.Ex1.facts.2.2.1 C11L.Ex1.cu C11L.Ex1.upd C11L.Ex1.counters C11L.Ex1.countersA C11L.Ex1.facts.2.2.2.1
      C11L.Ex1.facts.2.2.2.2.1 C11L.Ex1.facts.2.2.2.2.2.1 [5, 4]
      (by rw [C11L.Ex1.facts.2.2.2.2.2.2.1]; decide) (by rw [C11L.Ex1.facts.2.2.2.2.2.2.1]; decide) 1
      (by rw [C11L.Ex1.facts.2.2.2.2.2.2.2.1, C11L.Ex1.facts.2.2.2.2.2.2.2.2.1]; decide)
      ops' (by decide) inRange gu grun'
  exact ⟨gc', gl', h1, h2⟩

/-- the same facts computed by the kernel on the generated code -/
example : (gu.links 1).map (fun l => (l.obtC 0, l.subS 0, l.delivC, l.tainted)) =
      some ([[10], [20], [30], [60]], [[10], [20], [30], [60]], [0, 1, 5, 4], false) ∧
    (Src.renet.server.RenetServer.clients_id gu.server : Res Empty _) = .ok [1] := by
  decide +kernel

/-! the round of client 1 with nothing else going on, from the generated state after the tick
    (`src_round_delivers_to_client`) -/
abbrev opsT : List MOp := ops ++ [.srvUpdate 1000]
def gT : GMulti := (GMulti.exec P opsT).getD gzero
def glT : GLink := (gT.links 1).getD lzero
def gcT : RenetClient := (gconn? gT.server 1).getD lzero.cl
theorem inRangeT : MRunInRange P (opsT ++ MultiLive.roundFor 1 0 [4, 5] 1) := by decide +kernel
theorem grunT : GMulti.exec P opsT = some gT := some_getD (by decide +kernel) _
theorem gliveT : GLive gT 1 gcT glT :=
  ⟨some_getD (by decide +kernel) _, some_getD (by decide +kernel) _, by decide +kernel, by decide +kernel, by decide +kernel⟩

example : ∃ u gc' gl', GMulti.exec P (opsT ++ MultiLive.roundFor 1 0 [4, 5] 1) = some u ∧ GLive u 1 gc' gl' ∧
    gl'.subS = glT.subS ∧ gl'.obtC 0 = glT.subS 0 :=
  src_round_delivers_to_client P opsT gT grunT C11L.Ex1.mu C11L.Ex1.run_mu 1 gcT glT gliveT C11L.Ex1.l C11L.Ex1.viewU.2
    C11L.Ex1.cu C11L.Ex1.viewU.1 0 [4, 5] 1 inRangeT C11L.Ex1.counters C11L.Ex1.countersA C11L.Ex1.ordered0
    C11L.Ex1.sAu C11L.Ex1.find_sAu C11L.Ex1.rB C11L.Ex1.find_rB C11L.Ex1.factsU.2.1 C11L.Ex1.factsU.2.2
    C11L.Ex1.facts.2.2.2.2.1 C11L.Ex1.facts.2.2.2.2.2.1
    (by rw [C11L.Ex1.facts.2.2.2.2.2.2.1]; decide) (by rw [C11L.Ex1.facts.2.2.2.2.2.2.1]; decide)
    (by rw [C11L.Ex1.facts.2.2.2.2.2.2.2.1, C11L.Ex1.facts.2.2.2.2.2.2.2.2.1]; decide)

end Ex1

/-! `C11L.ExU` — the ReliableUnordered channel 1: a 1300-byte (two-slice) broadcast and a small one, all three datagrams for
    client 1 lost; the tick; one lossless round for client 1 alone, datagrams handed over out of order, one twice. -/
namespace ExU
abbrev P := C11L.ExU.P
abbrev ops := C11L.ExU.ops
abbrev ops' := C11L.ExU.ops'

def g : GMulti := (GMulti.exec P ops).getD gzero
def gl : GLink := (g.links 1).getD lzero
def gc : RenetClient := (gconn? g.server 1).getD lzero.cl

theorem inRange : MRunInRange P (ops ++ ops') := by decide +kernel
theorem grun : GMulti.exec P ops = some g := some_getD (by decide +kernel) _
theorem glink : g.links 1 = some gl := some_getD (by decide +kernel) _
theorem gconn1 : gconn? g.server 1 = some gc := some_getD (by decide +kernel) _
theorem glive : GLive g 1 gc gl := ⟨gconn1, glink, by decide +kernel, by decide +kernel, by decide +kernel⟩

/-- **`src_broadcast_exactly_once_unordered` applied** -/
theorem client1_has_everything :
    ∃ u gc' gl', GMulti.exec P (ops ++ ops') = some u ∧ GLive u 1 gc' gl' ∧ (gl'.obtC 1).Perm (gl.subS 1) := by
  obtain ⟨u, gc', gl', e, h1, -, h2, -⟩ :=
    src_broadcast_exactly_once_unordered P ops g grun C11L.ExU.m C11L.ExU.run 1 gc gl glive C11L.ExU.l C11L.ExU.link
      C11L.ExU.c C11L.ExU.conn1 1 C11E.Ex.unordered1 C11L.ExU.sA C11L.ExU.find_sA C11L.ExU.rB C11L.ExU.find_rB 1000
      C11L.ExU.facts.2.2.1 C11L.ExU.cu C11L.ExU.upd C11L.ExU.counters C11L.ExU.countersA C11L.ExU.facts.2.2.2.1
      C11L.ExU.facts.2.2.2.2.1 C11L.ExU.facts.2.2.2.2.2.1 [5, 4, 3, 4]
      (by rw [C11L.ExU.facts.2.2.2.2.2.2.1]; decide) (by rw [C11L.ExU.facts.2.2.2.2.2.2.1]; decide) 2
      (by rw [C11L.ExU.facts.2.2.2.2.2.2.2.1, C11L.ExU.facts.2.2.2.2.2.2.2.2.1]; decide)
      ops' (by decide) inRange C11L.ExU.fin C11L.ExU.run'
  exact ⟨u, gc', gl', e, h1, h2⟩

/-- what the kernel computes on the generated code: both messages obtained -/
example : ((GMulti.exec P (ops ++ ops')).bind (·.links 1)).map (fun l => (l.obtC 1, l.delivC)) =
    some ([toNats C11L.ExU.big, [71]], [5, 4, 3, 4]) := by decide +kernel

end ExU

/-! `C11L.Ex0` — the final state of `C11E.Ex`, no acknowledgement in between: the flush after the tick carries both channels
    (H4 does not hold); the round of client 1 hands over a stale datagram as well. -/
namespace Ex0
abbrev P := C11L.Ex0.P
abbrev ops := C11L.Ex0.ops
abbrev ops' := C11L.Ex0.ops'

def g : GMulti := (GMulti.exec P ops).getD gzero
def gl : GLink := (g.links 1).getD lzero
def gc : RenetClient := (gconn? g.server 1).getD lzero.cl

theorem inRange : MRunInRange P (ops ++ ops') := by decide +kernel
theorem grun : GMulti.exec P ops = some g := some_getD (by decide +kernel) _
theorem glink : g.links 1 = some gl := some_getD (by decide +kernel) _
theorem gconn1 : gconn? g.server 1 = some gc := some_getD (by decide +kernel) _

/-- **`src_broadcast_exactly_once_unless_disconnected` applied** -/
theorem client1_has_60_unless_disconnected :
    ∃ u gc' gl', GMulti.exec P (ops ++ ops') = some u ∧ gconn? u.server 1 = some gc' ∧ u.links 1 = some gl' ∧
      (RenetClient.is_disconnected gc' : Res Empty Bool) = .ok false ∧ gl'.tainted = false ∧ gl'.subS = gl.subS ∧
      ((RenetClient.is_disconnected gl'.cl : Res Empty Bool) = .ok false → gl'.obtC 0 = gl.subS 0) :=
  src_broadcast_exactly_once_unless_disconnected P ops g grun C11L.Ex0.m C11E.Ex.run 1 gc gl gconn1 glink
    (by decide +kernel) (by decide +kernel) C11L.Ex0.l C11E.Ex.link1 C11L.Ex0.c C11L.Ex0.conn1 0 C11E.Ex.ordered0
    C11L.Ex0.sA C11L.Ex0.find_sA 1000 C11L.Ex0.facts.2.1 C11L.Ex0.cu C11L.Ex0.upd C11L.Ex0.counters C11L.Ex0.countersA
    C11L.Ex0.facts.2.2.1 [6, 4, 1, 5]
    (by rw [C11L.Ex0.facts.2.2.2.1]; decide) (by rw [C11L.Ex0.facts.2.2.2.2.1]; decide) 1
    (by rw [C11L.Ex0.facts.2.2.2.2.2.1, C11L.Ex0.facts.2.2.2.2.2.2.1]; decide)
    ops' (by decide) inRange C11L.Ex0.fin C11L.Ex0.run'

end Ex0

/-! ## non-vacuity (k rounds, client → server): the examples of `Props/C01M.lean` ON THE GENERATED CODE -/

/-! `C01M.ExK3` — two clients, a 3-byte and a 3700-byte (four-slice) broadcast on the ReliableOrdered channel 0, budget 3000
    bytes per tick: backlog 4803 > budget; `k = 3` rounds for client 1, interleaved with flushes for the stalled client 2, a
    `broadcast_except(1)`, garbage in client 2's name, its removal. -/
namespace ExK3
abbrev P := C01M.ExK3.P
abbrev ops := C01M.ExK3.ops
abbrev ops' := C01M.ExK3.ops'
abbrev opsJ := C01M.ExK3.opsJ
abbrev rs : List RoundP := [C01M.ExK3.r1, C01M.ExK3.r2, C01M.ExK3.r3]

def g : GMulti := (GMulti.exec P ops).getD gzero
def gl : GLink := (g.links 1).getD lzero
def gc : RenetClient := (gconn? g.server 1).getD lzero.cl
def gu : GMulti := (GMulti.exec P (ops ++ ops')).getD gzero

theorem inRange : MRunInRange P (ops ++ ops') := by decide +kernel
theorem inRangeJ : MRunInRange P (ops ++ (opsJ ++ ops')) := by decide +kernel
theorem grun : GMulti.exec P ops = some g := some_getD (by decide +kernel) _
theorem glive : GLive g 1 gc gl :=
  ⟨some_getD (by decide +kernel) _, some_getD (by decide +kernel) _, by decide +kernel, by decide +kernel, by decide +kernel⟩
theorem gstart : gl.subS 0 = [toNats C01M.ExK3.m0, toNats C01M.ExK3.m1] ∧ gl.obtC 0 = [] := by decide +kernel

/-- **`src_k_rounds_deliver_to_client` applied with `B = 3000`, `k = 3`** -/
theorem client1_has_everything :
    ∃ u gc' gl', GMulti.exec P (ops ++ ops') = some u ∧ GLive u 1 gc' gl' ∧ gl'.obtC 0 = gl.subS 0 := by
  obtain ⟨u, gc', gl', e, h1, -, h2, -⟩ :=
    src_k_rounds_deliver_to_client P ops g grun C01M.ExK3.m C01M.ExK3.run 1 gc gl glive C01M.ExK3.l C01M.ExK3.link
      C01M.ExK3.c C01M.ExK3.conn1 0 C01M.ExK3.ordered0 C01M.ExK3.sA C01M.ExK3.find_sA C01M.ExK3.rB C01M.ExK3.find_rB
      C01M.ExK3.start.2.2.1 3000 (by decide) rs C01M.ExK3.rounds (by simp) (by rw [C01M.ExK3.start.2.2.2.1]; decide)
      ops' C01M.ExK3.trace' inRange C01M.ExK3.fin C01M.ExK3.run'
  exact ⟨u, gc', gl', e, h1, h2⟩

/-- **`src_k_rounds_stalled_client_does_not_delay_others` applied**: first client 2 alone (`opsJ`), then the rounds -/
example : ∃ u gc' gl', GMulti.exec P (ops ++ (opsJ ++ ops')) = some u ∧ GLive u 1 gc' gl' ∧ gl'.obtC 0 = gl.subS 0 := by
  obtain ⟨u, gc', gl', e, h1, -, h2, -⟩ :=
    src_k_rounds_stalled_client_does_not_delay_others P ops g grun C01M.ExK3.m C01M.ExK3.run 1 gc gl glive C01M.ExK3.l
      C01M.ExK3.link C01M.ExK3.c C01M.ExK3.conn1 0 C01M.ExK3.ordered0 C01M.ExK3.sA C01M.ExK3.find_sA C01M.ExK3.rB
      C01M.ExK3.find_rB C01M.ExK3.start.2.2.1 3000 (by decide) rs C01M.ExK3.rounds (by simp)
      (by rw [C01M.ExK3.start.2.2.2.1]; decide) opsJ (by decide) C01M.ExK3.mJ C01M.ExK3.runJ ops' C01M.ExK3.trace' inRangeJ
      C01M.ExK3.finJ C01M.ExK3.runJ'
  exact ⟨u, gc', gl', e, h1, h2⟩

/-- what the kernel computes on the generated code: client 1 obtained both messages, all seven datagrams were handed over;
    client 2 — stalled, then removed — obtained nothing -/
theorem gfacts : GMulti.exec P (ops ++ ops') = some gu ∧
    (gu.links 1).map (fun l => (l.obtC 0, l.delivC)) =
      some ([toNats C01M.ExK3.m0, toNats C01M.ExK3.m1], [0, 1, 2, 3, 4, 5, 6]) ∧
    (gu.links 2).map (fun l => (l.obtC 0, l.delivC)) = some ([], []) := by
  refine ⟨some_getD (by decide +kernel) _, ?_⟩
  decide +kernel

end ExK3

/-! `C01M.ExUp` — client 1 submitted [7, 7]; its datagram was emitted and lost.  Client 1's tick and one lossless round
    client → server, interleaved with garbage in client 2's name, client 2's disconnection and flush. -/
namespace ExUp
abbrev P := C01M.ExUp.P
abbrev ops := C01M.ExUp.ops
abbrev ops' := C01M.ExUp.ops'

def g : GMulti := (GMulti.exec P ops).getD gzero
def gl : GLink := (g.links 1).getD lzero
def gc : RenetClient := (gconn? g.server 1).getD lzero.cl

theorem inRange : MRunInRange P (ops ++ ops') := by decide +kernel
theorem inRangeA : MRunInRange P (ops ++ (.cliUpdate 1 1000 :: roundForU 1 0 [1] 1)) := by decide +kernel
theorem grun : GMulti.exec P ops = some g := some_getD (by decide +kernel) _
theorem glive : GLive g 1 gc gl :=
  ⟨some_getD (by decide +kernel) _, some_getD (by decide +kernel) _, by decide +kernel, by decide +kernel, by decide +kernel⟩
theorem gstart : gl.subC 0 = [[7, 7]] ∧ gl.obtS 0 = [] ∧ gl.delivS = [] ∧ gl.outC.length = 1 := by decide +kernel

/-- **`src_from_one_exactly_once` applied**: lost once, delivered in the next round; [7, 7] exactly once -/
theorem server_has_it :
    ∃ u gc' gl', GMulti.exec P (ops ++ ops') = some u ∧ GLive u 1 gc' gl' ∧ gl'.obtS 0 = [[7, 7]] ∧
      (gl'.obtS 0).count [7, 7] = 1 := by
  obtain ⟨u, gc', gl', e, h1, -, h2, h3⟩ :=
    src_from_one_exactly_once P ops g grun C01M.ExUp.m C01M.ExUp.run 1 gc gl glive C01M.ExUp.l C01M.ExUp.link C01M.ExUp.c
      C01M.ExUp.conn1 0 C01M.ExUp.ordered0 C01M.ExUp.sA C01M.ExUp.find_sA C01M.ExUp.rB C01M.ExUp.find_rB 1000
      C01M.ExUp.facts.2.2.1 C01M.ExUp.clu C01M.ExUp.upd C01M.ExUp.counters C01M.ExUp.countersA C01M.ExUp.facts.2.2.2.1
      C01M.ExUp.facts.2.2.2.2.1 C01M.ExUp.facts.2.2.2.2.2.1 [1]
      (by rw [C01M.ExUp.facts.2.2.2.2.2.2.1]; decide) (by rw [C01M.ExUp.facts.2.2.2.2.2.2.1]; decide) 1
      (by rw [C01M.ExUp.facts.2.2.2.2.2.2.2.1, C01M.ExUp.facts.2.2.2.2.2.2.2.2.1]; decide)
      ops' (by decide) inRange C01M.ExUp.fin C01M.ExUp.run'
  have hx : [7, 7] ∈ gl.subC 0 := by rw [gstart.1]; decide
  obtain ⟨c1, c2⟩ := h3 [7, 7] hx
  have c3 : ((sentBy 1 0 ops).map toNats).count [7, 7] = 1 := by decide
  exact ⟨u, gc', gl', e, h1, by rw [h2, gstart.1], by omega⟩

/-- **`src_from_one_runs` applied**: the tick and the round of client 1 alone run on the generated code -/
example : ∃ u gc' gl', GMulti.exec P (ops ++ (.cliUpdate 1 1000 :: roundForU 1 0 [1] 1)) = some u ∧ GLive u 1 gc' gl' ∧
    gl'.subC = gl.subC ∧ gl'.obtS 0 = gl.subC 0 :=
  src_from_one_runs P ops g grun C01M.ExUp.m C01M.ExUp.run 1 gc gl glive C01M.ExUp.l C01M.ExUp.link C01M.ExUp.c
    C01M.ExUp.conn1 0 C01M.ExUp.ordered0 C01M.ExUp.sA C01M.ExUp.find_sA C01M.ExUp.rB C01M.ExUp.find_rB 1000
    C01M.ExUp.facts.2.2.1 C01M.ExUp.clu C01M.ExUp.upd C01M.ExUp.counters C01M.ExUp.countersA C01M.ExUp.facts.2.2.2.1
    C01M.ExUp.facts.2.2.2.2.1 C01M.ExUp.facts.2.2.2.2.2.1 [1]
    (by rw [C01M.ExUp.facts.2.2.2.2.2.2.1]; decide) (by rw [C01M.ExUp.facts.2.2.2.2.2.2.1]; decide) 1
    (by rw [C01M.ExUp.facts.2.2.2.2.2.2.2.1, C01M.ExUp.facts.2.2.2.2.2.2.2.2.1]; decide) inRangeA

/-- the kernel agrees, on the generated code: the server obtained [7, 7] under id 1 from datagram 1; nothing of client 2 is
    mixed in -/
example : ((GMulti.exec P (ops ++ ops')).bind (·.links 1)).map (fun l => (l.obtS 0, l.delivS)) = some ([[7, 7]], [1]) ∧
    ((GMulti.exec P (ops ++ ops')).bind (·.links 2)).map (fun l => (l.obtS 0, l.subC 0)) = some ([], [[8]]) := by
  decide +kernel

/-! `src_round_delivers_to_server` applied to the generated state after the tick -/
abbrev opsT : List MOp := ops ++ [.cliUpdate 1 1000]
def gT : GMulti := (GMulti.exec P opsT).getD gzero
def glT : GLink := (gT.links 1).getD lzero
def gcT : RenetClient := (gconn? gT.server 1).getD lzero.cl
theorem inRangeT : MRunInRange P (opsT ++ roundForU 1 0 [1] 1) := by decide +kernel
theorem grunT : GMulti.exec P opsT = some gT := some_getD (by decide +kernel) _
theorem gliveT : GLive gT 1 gcT glT :=
  ⟨some_getD (by decide +kernel) _, some_getD (by decide +kernel) _, by decide +kernel, by decide +kernel, by decide +kernel⟩

example : ∃ u gc' gl', GMulti.exec P (opsT ++ roundForU 1 0 [1] 1) = some u ∧ GLive u 1 gc' gl' ∧
    gl'.subC = glT.subC ∧ gl'.obtS 0 = glT.subC 0 :=
  src_round_delivers_to_server P opsT gT grunT C01M.ExUp.mu C01M.ExUp.run_mu 1 gcT glT gliveT C01M.ExUp.lu C01M.ExUp.linkU
    C01M.ExUp.c C01M.ExUp.connU 0 [1] 1 inRangeT C01M.ExUp.countersU C01M.ExUp.countersAU C01M.ExUp.ordered0
    C01M.ExUp.sAu C01M.ExUp.find_sAu C01M.ExUp.rB C01M.ExUp.find_rB C01M.ExUp.factsU.2.1 C01M.ExUp.factsU.2.2.1
    C01M.ExUp.factsU.2.2.2.1 C01M.ExUp.factsU.2.2.2.2.1
    (by rw [C01M.ExUp.factsU.2.2.2.2.2.1]; decide) (by rw [C01M.ExUp.factsU.2.2.2.2.2.1]; decide)
    (by rw [C01M.ExUp.factsU.2.2.2.2.2.2.1, C01M.ExUp.factsU.2.2.2.2.2.2.2.1]; decide)

end ExUp

/-! `C01M.ExUp3` — client 1 submitted a 3-byte and a 3700-byte message, budget 3000: three rounds client → server, interleaved
    with client 2's own traffic, a `broadcast_except(1)`, garbage, client 2's removal. -/
namespace ExUp3
abbrev P := C01M.ExUp3.P
abbrev ops := C01M.ExUp3.ops
abbrev ops' := C01M.ExUp3.ops'
abbrev rs : List RoundP := [C01M.ExUp3.r1, C01M.ExUp3.r2, C01M.ExUp3.r3]

def g : GMulti := (GMulti.exec P ops).getD gzero
def gl : GLink := (g.links 1).getD lzero
def gc : RenetClient := (gconn? g.server 1).getD lzero.cl

theorem inRange : MRunInRange P (ops ++ ops') := by decide +kernel
theorem inRangeA : MRunInRange P (ops ++ roundsForU 1 0 rs) := by decide +kernel
theorem grun : GMulti.exec P ops = some g := some_getD (by decide +kernel) _
theorem glive : GLive g 1 gc gl :=
  ⟨some_getD (by decide +kernel) _, some_getD (by decide +kernel) _, by decide +kernel, by decide +kernel, by decide +kernel⟩

/-- **`src_k_rounds_deliver_to_server` applied with `B = 3000`, `k = 3`** -/
theorem server_has_everything :
    ∃ u gc' gl', GMulti.exec P (ops ++ ops') = some u ∧ GLive u 1 gc' gl' ∧ gl'.obtS 0 = gl.subC 0 := by
  obtain ⟨u, gc', gl', e, h1, -, h2, -⟩ :=
    src_k_rounds_deliver_to_server P ops g grun C01M.ExUp3.m C01M.ExUp3.run 1 gc gl glive C01M.ExUp3.l C01M.ExUp3.link
      C01M.ExUp3.c C01M.ExUp3.conn1 0 C01M.ExUp3.ordered0 C01M.ExUp3.sA C01M.ExUp3.find_sA C01M.ExUp3.rB C01M.ExUp3.find_rB
      C01M.ExUp3.start.2.2.1 3000 (by decide) rs C01M.ExUp3.rounds (by simp) (by rw [C01M.ExUp3.start.2.2.2.1]; decide)
      ops' C01M.ExUp3.trace' inRange C01M.ExUp3.fin C01M.ExUp3.run'
  exact ⟨u, gc', gl', e, h1, h2⟩

/-- **`src_k_rounds_run_to_server` applied**: the three rounds of client 1 alone run on the generated code and deliver -/
example : ∃ u gc' gl', GMulti.exec P (ops ++ roundsForU 1 0 rs) = some u ∧ GLive u 1 gc' gl' ∧
    gl'.subC 0 = gl.subC 0 ∧ gl'.obtS 0 = gl.subC 0 :=
  src_k_rounds_run_to_server P ops g grun C01M.ExUp3.m C01M.ExUp3.run 1 gc gl glive C01M.ExUp3.l C01M.ExUp3.link
    C01M.ExUp3.c C01M.ExUp3.conn1 0 C01M.ExUp3.ordered0 C01M.ExUp3.sA C01M.ExUp3.find_sA C01M.ExUp3.rB C01M.ExUp3.find_rB
    C01M.ExUp3.start.2.2.1 3000 (by decide) rs C01M.ExUp3.rounds (by simp) (by rw [C01M.ExUp3.start.2.2.2.1]; decide) inRangeA

/-- what the kernel computes on the generated code: the server obtained both messages under id 1, [5] under id 2 -/
example : ((GMulti.exec P (ops ++ ops')).bind (·.links 1)).map (fun l => (l.obtS 0, l.delivS)) =
      some ([toNats C01M.ExUp3.m0, toNats C01M.ExUp3.m1], [0, 1, 2, 3, 4, 5, 6]) ∧
    ((GMulti.exec P (ops ++ ops')).bind (·.links 2)).map (fun l => l.obtS 0) = some [[5]] := by decide +kernel

end ExUp3

end RenetVerif.SrcPropsMultiLive
