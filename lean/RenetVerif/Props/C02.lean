/-
  C02 — ReliableUnordered: every submitted message is obtained at most once, byte-identical; nothing
  is obtained that was not submitted; a message is handed over as soon as it is complete, without
  waiting for older ones.

  Same adversary model as C01 (`RecvOp`, `run`, `Genuine`), on a channel created unordered.
-/
import RenetVerif.Lemmas.DataPath
import RenetVerif.Props.C01
namespace RenetVerif.C02
open RenetVerif C DataPath

/-- C02 (safety): the obtained list is the list of `L[id]` for a duplicate-free list of ids `ids`
    — so each submitted message (each index of `L`) is obtained at most once, each obtained message is
    byte-identical to the submitted message of that id, and nothing else is ever obtained. -/
theorem at_most_once_intact (L : List Bytes) (ops : List RecvOp) (hg : ∀ op ∈ ops, Genuine L op)
    (maxMem : Nat) :
    ∃ ids : List Nat, ids.Nodup ∧
      (run (RecvRel.new maxMem false) ops).obtained.map some = ids.map (fun id => L[id]?) := by
  obtain ⟨ids, h1, h2, _⟩ := (unord_run L maxMem ops hg).obt
  exact ⟨ids, h1, h2⟩

/-- … in particular every obtained message was submitted, and no more messages are obtained than
    were submitted -/
theorem obtained_submitted (L : List Bytes) (ops : List RecvOp) (hg : ∀ op ∈ ops, Genuine L op)
    (maxMem : Nat) :
    (∀ x ∈ (run (RecvRel.new maxMem false) ops).obtained, x ∈ L) ∧
    (run (RecvRel.new maxMem false) ops).obtained.length ≤ L.length := by
  obtain ⟨ids, hnd, hmap⟩ := at_most_once_intact L ops hg maxMem
  have hlt : ∀ id ∈ ids, id < L.length := by
    intro id hid
    have : L[id]? ∈ ids.map (fun id => L[id]?) := List.mem_map.2 ⟨id, hid, rfl⟩
    rw [← hmap] at this
    obtain ⟨x, _, hx⟩ := List.mem_map.1 this
    exact (List.getElem?_eq_some_iff.1 hx.symm).1
  constructor
  · intro x hx
    have : some x ∈ (run (RecvRel.new maxMem false) ops).obtained.map some := List.mem_map.2 ⟨x, hx, rfl⟩
    rw [hmap] at this
    obtain ⟨id, _, hid⟩ := List.mem_map.1 this
    exact List.mem_of_getElem? hid
  · have hlen : (run (RecvRel.new maxMem false) ops).obtained.length = ids.length := by
      have := congrArg List.length hmap; simpa using this
    rw [hlen]
    have hsub : ids ⊆ List.range L.length := fun id hid => List.mem_range.2 (hlt id hid)
    have := hnd.length_le_of_subset hsub
    simpa using this

/-- C02 (no head-of-line blocking, 1): whenever the queue of complete messages is non-empty,
    `receive_message` returns one — it never waits for an older id.  (`x.length ≤ r.mem` is the
    memory-accounting invariant of the channel.) -/
theorem no_head_of_line (r : RecvRel) (ho : r.ordered = false) (hne : r.messages ≠ [])
    (hmem : ∀ p ∈ r.messages, p.2.length ≤ r.mem) :
    ∃ r' m, r.receive = .ok (r', some m) := by
  cases hm : r.messages with
  | nil => exact absurd hm hne
  | cons p rest =>
    obtain ⟨id, x⟩ := p
    obtain ⟨r', h, _⟩ := unord_receive_head ho hm (hmem (id, x) (by rw [hm]; simp))
    exact ⟨r', x, h⟩

/-- … and it returns the head of the queue and removes exactly that entry, so `k` calls drain `k`
    queued messages -/
theorem receive_pops_head (r : RecvRel) (ho : r.ordered = false) (id : Nat) (x : Bytes)
    (rest : SMap Bytes) (hm : r.messages = (id, x) :: rest) (hmem : x.length ≤ r.mem) :
    ∃ r', r.receive = .ok (r', some x) ∧ r'.messages = rest :=
  unord_receive_head ho hm hmem

/-- C02 (no head-of-line blocking, 2a): a small message whose id has not been accepted before is put
    into the queue immediately, whatever older ids are still missing -/
theorem complete_small_is_queued (r : RecvRel) (id : Nat) (m : Bytes)
    (ho : r.ordered = false) (hlt : ¬ id < r.oldest) (hnr : id ∉ r.received)
    (hmem : r.mem + m.length ≤ r.maxMem) :
    ∃ r', r.processMessage m id = .ok r' ∧ SMap.find? r'.messages id = some m :=
  unord_msg_queued ho hlt hnr hmem

/-- C02 (no head-of-line blocking, 2b): the genuine slice that completes a message (all other indices
    already present) whose id has not been accepted before puts the reassembled message — byte-identical
    to the submitted one — into the queue immediately.  Memory hypotheses: the reservation for the
    reassembly buffer is accounted (`numSlices·S ≤ mem`) and the finished message fits. -/
theorem complete_sliced_is_queued (L : List Bytes) (r : RecvRel) (sl : Slice) (m : Bytes) (c : SliceCtor)
    (ho : r.ordered = false) (hs : SlicesOK L r)
    (hL : L[sl.messageId]? = some m) (hlen : m.length > SLICE_SIZE)
    (hn : sl.numSlices = divCeil m.length SLICE_SIZE) (hi : sl.sliceIndex < sl.numSlices)
    (hp : sl.payload = sliceBytes m sl.numSlices sl.sliceIndex)
    (hc : SMap.find? r.slices sl.messageId = some c)
    (hall : ∀ j, j < sl.numSlices → j ≠ sl.sliceIndex → c.received[j]? = some true)
    (hnm : SMap.find? r.messages sl.messageId = none)
    (hlt : ¬ sl.messageId < r.oldest) (hnr : sl.messageId ∉ r.received)
    (hmem1 : sl.numSlices * SLICE_SIZE ≤ r.mem)
    (hmem2 : r.mem - sl.numSlices * SLICE_SIZE + m.length ≤ r.maxMem) :
    ∃ r', r.processSlice sl = .ok r' ∧ SMap.find? r'.messages sl.messageId = some m :=
  unord_slice_queued ho hs hL hlen hn hi hp hc hall hnm hlt hnr hmem1 hmem2

/-! #### a concrete adversarial schedule -/
namespace Ex
/- `m0` (3000 bytes, slices `s0 s1 s2`) and `m1` as in `C01.Ex` -/
abbrev m0 : Bytes := C01.Ex.m0
abbrev m1 : Bytes := C01.Ex.m1
abbrev s0 : Slice := C01.Ex.s0
abbrev s1 : Slice := C01.Ex.s1
abbrev s2 : Slice := C01.Ex.s2
def m2 : Bytes := [9]
def L : List Bytes := [m0, m1, m2]
/-- message 2 and 1 overtake the sliced message 0 and are obtained first; everything is duplicated
    before and after having been obtained -/
def ops : List RecvOp :=
  [.slice s2, .msg 2 m2, .recv, .msg 2 m2, .slice s0, .slice s0, .msg 1 m1, .msg 2 m2, .recv, .recv,
   .slice s1, .msg 1 m1, .slice s1, .recv, .msg 0 m0, .slice s2, .recv]

theorem genuine : ∀ op ∈ ops, Genuine L op := by
  have g := C01.Ex.gsl L rfl
  intro op h
  simp only [ops, List.mem_cons, List.not_mem_nil, or_false] at h
  rcases h with rfl | rfl | rfl | rfl | rfl | rfl | rfl | rfl | rfl | rfl | rfl | rfl | rfl | rfl | rfl | rfl | rfl <;>
    first
    | exact g _ (by simp)
    | trivial
    | exact (rfl : L[_]? = some _)

example : ∃ ids : List Nat, ids.Nodup ∧
    (run (RecvRel.new 100000 false) ops).obtained.map some = ids.map (fun id => L[id]?) :=
  at_most_once_intact L ops genuine 100000
/-- in this run: out of order (2, 1, 0), each exactly once -/
example : (run (RecvRel.new 100000 false) ops).obtained = [m2, m1, m0] ∧
    (run (RecvRel.new 100000 false) ops).dead = false := by
  decide +kernel
/-- the channel after slices 2 and 0 of message 0 have arrived (nothing else seen) -/
def r1 : RecvRel :=
  ⟨[(0, ⟨3, 2, [true, false, true], List.replicate 1200 1 ++ List.replicate 1200 0 ++ List.replicate 600 3⟩)],
   [], 0, false, [], 3600, 100000⟩
theorem r1_reached : (run (RecvRel.new 100000 false) [.slice s2, .slice s0]).r = r1 := by decide +kernel
theorem r1_slicesOK : SlicesOK L r1 := by
  rw [← r1_reached]
  exact (unord_run L 100000 [.slice s2, .slice s0] (fun op h => genuine op (by
    simp only [List.mem_cons, List.not_mem_nil, or_false] at h
    rcases h with rfl | rfl <;> simp [ops]))).slices
/-- message 0 is incomplete and nothing has been obtained, yet message 2 is queued at once … -/
example : ∃ r', r1.processMessage m2 2 = .ok r' ∧ SMap.find? r'.messages 2 = some m2 :=
  complete_small_is_queued r1 2 m2 (by decide) (by decide) (by decide) (by decide)
/-- … and whatever is queued is returned by the very next `receive_message` -/
example : ∃ r' m, ({ r1 with messages := [(2, m2)], received := [2], mem := 3601 } : RecvRel).receive = .ok (r', some m) :=
  no_head_of_line _ (by decide) (by decide) (by decide)
/-- slice 1 completes message 0, which is queued at once although messages 1, 2 are unseen -/
example : ∃ r', r1.processSlice s1 = .ok r' ∧ SMap.find? r'.messages 0 = some m0 :=
  complete_sliced_is_queued L r1 s1 m0 _ rfl r1_slicesOK rfl C01.Ex.m0_len C01.Ex.m0_n
    (by decide) C01.Ex.p1 rfl (by decide +kernel) (by decide +kernel) (by decide +kernel)
    (by decide +kernel) (by decide +kernel) (by decide +kernel)
end Ex

end RenetVerif.C02
