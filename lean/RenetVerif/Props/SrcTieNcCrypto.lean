/-
  Source tie, group NcCrypto: `renetcode/src/crypto.rs` (`encrypt_in_place`, `dencrypted_in_place`,
  `encrypt_in_place_xnonce`, `dencrypted_in_place_xnonce`), translated from the Rust text into
  `Generated/Src/NcCrypto.lean` ↔ the hand-written `RustSem.encrypt_in_place` … of `Base/RustSem.lean` that the generated
  NcCodec / NcToken code (and through it every netcode theorem) calls.  With these theorems the hand-written versions are
  consequences of the source text: the nonce construction (`nonce[4..12] = sequence.to_le_bytes()`), the split at
  `len - NETCODE_MAC_BYTES` and the place of the tag are checked against `crypto.rs` on every run.

  What remains trusted is the RustCrypto interface itself (`Base/RustSemCrypto.lean`): `from_slice` checks a length,
  detached encryption / decryption are `seal` / `open` of the abstract `RustSem.Aead` with the tag split off / appended.

  Hypotheses, and where they come from:
    * `key.length = 32`, `xnonce.length = 24`: the Rust parameter types `&[u8; 32]`, `&[u8; 24]` (lists carry no
      length; `Key::from_slice` / `XNonce::from_slice` check it at run time, see `src_encrypt_in_place_bad_key`);
      `buffer`, `aad` (`&mut [u8]`, `&[u8]`), `sequence` are arbitrary (no bound on `sequence` is needed here);
    * encryption only: the ONE value `seal key nonce aad plaintext` that the call computes has the length of the buffer
      (= plaintext + 16-byte tag).  This is an instance of the length law of every real AEAD; the hand-written version
      returns `seal …` as the new buffer whatever its length, the Rust code writes a `Tag` (16 bytes) behind a ciphertext
      of the plaintext's length, so without it the two cannot agree.  Decryption needs no such hypothesis.
  The equalities are exact: same result buffer, same error (with the same buffer state), the same panic at the same site.
-/
import RenetVerif.Lemmas.SrcEquiv.NcCrypto
namespace RenetVerif.SrcTie.NcCrypto
open RenetVerif RenetVerif.RustSem RenetVerif.SrcEquiv.NcCrypto

/-! ## a toy AEAD for the non-vacuity examples (satisfies the length law; `open` inverts `seal`) -/
namespace Toy
def pad (k n : List Nat) : Nat := (k.sum + n.sum) % 256
def tagOf (k n a c : List Nat) : List Nat := List.replicate 15 ((k.sum + n.sum + a.sum) % 256) ++ [c.sum % 256]
def sealWith (salt : Nat) (k n a p : List Nat) : List Nat :=
  let c := p.map (fun x => (x + pad k n + salt) % 256)
  c ++ tagOf k n a c
def openWith (salt : Nat) (k n a ct : List Nat) : Option (List Nat) :=
  if ct.length < 16 then none
  else
    let c := ct.take (ct.length - 16)
    if ct.drop (ct.length - 16) = tagOf k n a c then some (c.map (fun x => (x + 512 - pad k n - salt) % 256)) else none
@[reducible] def aead : RustSem.Aead where
  «seal» := sealWith 0
  «open» := openWith 0
  xseal := sealWith 1
  xopen := openWith 1
def key : List Nat := List.replicate 32 7
def xnonce : List Nat := List.replicate 24 9
/-- 5 bytes of plaintext and room for the tag -/
def buf : List Nat := [1, 2, 3, 4, 5] ++ List.replicate 16 0
end Toy

/-! ## the four equivalences -/
section tie
variable [a : RustSem.Aead]

/-- generated `encrypt_in_place` = hand-written `RustSem.encrypt_in_place`, for every buffer, sequence, aad and every
    32-byte key, provided the sealed text has the length of the buffer (see the header) -/
theorem src_encrypt_in_place (buffer : List Nat) (sequence : Nat) (key aad : List Nat) (hk : key.length = 32)
    (hs : 16 ≤ buffer.length →
      (a.seal key (RustSem.crypto_nonce sequence) aad (buffer.take (buffer.length - 16))).length = buffer.length) :
    Src.renetcode.crypto.encrypt_in_place buffer sequence key aad = RustSem.encrypt_in_place buffer sequence key aad := by
  by_cases h : buffer.length < 16
  · exact encrypt_in_place_short buffer sequence key aad h
  · exact encrypt_in_place_long buffer sequence key aad h hk (hs (by omega))

/-- generated `dencrypted_in_place` = hand-written `RustSem.dencrypted_in_place` (every buffer, sequence, aad, every
    32-byte key; nothing is assumed about the AEAD) -/
theorem src_dencrypted_in_place (buffer : List Nat) (sequence : Nat) (key aad : List Nat) (hk : key.length = 32) :
    Src.renetcode.crypto.dencrypted_in_place buffer sequence key aad = RustSem.dencrypted_in_place buffer sequence key aad := by
  by_cases h : buffer.length < 16
  · exact dencrypted_in_place_short buffer sequence key aad h
  · exact dencrypted_in_place_long buffer sequence key aad h hk

/-- generated `encrypt_in_place_xnonce` = hand-written `RustSem.encrypt_in_place_xnonce` -/
theorem src_encrypt_in_place_xnonce (buffer xnonce key aad : List Nat) (hx : xnonce.length = 24) (hk : key.length = 32)
    (hs : 16 ≤ buffer.length → (a.xseal key xnonce aad (buffer.take (buffer.length - 16))).length = buffer.length) :
    Src.renetcode.crypto.encrypt_in_place_xnonce buffer xnonce key aad = RustSem.encrypt_in_place_xnonce buffer xnonce key aad := by
  by_cases h : buffer.length < 16
  · exact encrypt_in_place_xnonce_short buffer xnonce key aad h
  · exact encrypt_in_place_xnonce_long buffer xnonce key aad h hx hk (hs (by omega))

/-- generated `dencrypted_in_place_xnonce` = hand-written `RustSem.dencrypted_in_place_xnonce` -/
theorem src_dencrypted_in_place_xnonce (buffer xnonce key aad : List Nat) (hx : xnonce.length = 24) (hk : key.length = 32) :
    Src.renetcode.crypto.dencrypted_in_place_xnonce buffer xnonce key aad =
      RustSem.dencrypted_in_place_xnonce buffer xnonce key aad := by
  by_cases h : buffer.length < 16
  · exact dencrypted_in_place_xnonce_short buffer xnonce key aad hx h
  · exact dencrypted_in_place_xnonce_long buffer xnonce key aad h hx hk

/-- the hypothesis `key.length = 32` is what the Rust type gives and is really used: with any other length the generated
    code panics in `Key::from_slice` (the hand-written version never looks at the length of the key) -/
theorem src_encrypt_in_place_bad_key (buffer : List Nat) (sequence : Nat) (key aad : List Nat) (h16 : 16 ≤ buffer.length)
    (hk : key.length ≠ 32) :
    Src.renetcode.crypto.encrypt_in_place buffer sequence key aad =
      .panic "chacha20poly1305: Key::from_slice: slice length is not 32" :=
  encrypt_in_place_bad_key buffer sequence key aad h16 hk

end tie

/-! ### non-vacuity: runs of the GENERATED code on the toy AEAD (hypotheses of the theorems hold for these inputs) -/
section nonvacuity
attribute [local instance] Toy.aead

/-- `src_encrypt_in_place`: its hypotheses hold for the toy run, and the generated code really seals -/
example : Toy.key.length = 32 ∧
    (Toy.aead.seal Toy.key (RustSem.crypto_nonce 0x0102030405060708) [42] (Toy.buf.take (Toy.buf.length - 16))).length = Toy.buf.length ∧
    Src.renetcode.crypto.encrypt_in_place Toy.buf 0x0102030405060708 Toy.key [42] =
      .ok ([5, 6, 7, 8, 9, 46, 46, 46, 46, 46, 46, 46, 46, 46, 46, 46, 46, 46, 46, 46, 35], ()) := by decide +kernel
example : Src.renetcode.crypto.encrypt_in_place Toy.buf 0x0102030405060708 Toy.key [42] =
    RustSem.encrypt_in_place Toy.buf 0x0102030405060708 Toy.key [42] := by decide +kernel
/-- a buffer shorter than the MAC: both panic at the same site -/
example : Src.renetcode.crypto.encrypt_in_place [1, 2, 3] 5 Toy.key [] =
    .panic "renetcode/src/crypto.rs:encrypt_in_place: buffer.len() - NETCODE_MAC_BYTES" ∧
    RustSem.encrypt_in_place [1, 2, 3] 5 Toy.key [] =
    .panic "renetcode/src/crypto.rs:encrypt_in_place: buffer.len() - NETCODE_MAC_BYTES" := by decide +kernel
/-- `src_dencrypted_in_place`: the generated decryption opens what the generated encryption sealed (the tag bytes stay) … -/
example : Src.renetcode.crypto.dencrypted_in_place
      [5, 6, 7, 8, 9, 46, 46, 46, 46, 46, 46, 46, 46, 46, 46, 46, 46, 46, 46, 46, 35] 0x0102030405060708 Toy.key [42] =
    .ok ([1, 2, 3, 4, 5, 46, 46, 46, 46, 46, 46, 46, 46, 46, 46, 46, 46, 46, 46, 46, 35], ()) := by decide +kernel
/-- … rejects another sequence number / a forged tag with `Err`, the buffer unchanged … -/
example : Src.renetcode.crypto.dencrypted_in_place
      [5, 6, 7, 8, 9, 46, 46, 46, 46, 46, 46, 46, 46, 46, 46, 46, 46, 46, 46, 46, 35] 0x0102030405060709 Toy.key [42] =
    .err (.opaque, [5, 6, 7, 8, 9, 46, 46, 46, 46, 46, 46, 46, 46, 46, 46, 46, 46, 46, 46, 46, 35]) := by decide +kernel
/-- … and panics on a buffer shorter than the MAC -/
example : Src.renetcode.crypto.dencrypted_in_place [1, 2, 3] 5 Toy.key [] =
    .panic "renetcode/src/crypto.rs:dencrypted_in_place: buffer.len() - NETCODE_MAC_BYTES" := by decide +kernel
/-- `src_encrypt_in_place_xnonce` / `src_dencrypted_in_place_xnonce`: hypotheses hold, generated = hand-written, and the
    generated decryption opens what the generated encryption sealed -/
example : Toy.xnonce.length = 24 ∧
    (Toy.aead.xseal Toy.key Toy.xnonce [42] (Toy.buf.take (Toy.buf.length - 16))).length = Toy.buf.length ∧
    Src.renetcode.crypto.encrypt_in_place_xnonce Toy.buf Toy.xnonce Toy.key [42] =
      .ok ([186, 187, 188, 189, 190, 226, 226, 226, 226, 226, 226, 226, 226, 226, 226, 226, 226, 226, 226, 226, 172], ()) ∧
    Src.renetcode.crypto.dencrypted_in_place_xnonce
      [186, 187, 188, 189, 190, 226, 226, 226, 226, 226, 226, 226, 226, 226, 226, 226, 226, 226, 226, 226, 172] Toy.xnonce Toy.key [42] =
      .ok ([1, 2, 3, 4, 5, 226, 226, 226, 226, 226, 226, 226, 226, 226, 226, 226, 226, 226, 226, 226, 172], ()) := by
  decide +kernel
example : Src.renetcode.crypto.dencrypted_in_place_xnonce
      [186, 187, 188, 189, 190, 226, 226, 226, 226, 226, 226, 226, 226, 226, 226, 226, 226, 226, 226, 226, 173] Toy.xnonce Toy.key [42] =
    .err (.opaque, [186, 187, 188, 189, 190, 226, 226, 226, 226, 226, 226, 226, 226, 226, 226, 226, 226, 226, 226, 226, 173]) := by
  decide +kernel
/-- `src_encrypt_in_place_bad_key` -/
example : Src.renetcode.crypto.encrypt_in_place Toy.buf 1 [1, 2, 3] [] =
    .panic "chacha20poly1305: Key::from_slice: slice length is not 32" := by decide +kernel

end nonvacuity

/-! ## corollaries for property C17 (nonces): what the generated `encrypt_in_place` hands to the AEAD (the RustCrypto crate) -/
section c17
variable [a : RustSem.Aead]

/-- The generated `encrypt_in_place` consults the AEAD with exactly: the key UNCHANGED, the nonce
    `[0,0,0,0] ++ LE64(sequence)`, the aad UNCHANGED, the plaintext `buffer[..len-16]`; the new buffer is what `seal`
    returned for that query. -/
theorem src_encrypt_in_place_query (buffer : List Nat) (sequence : Nat) (key aad : List Nat) (hk : key.length = 32)
    (h16 : 16 ≤ buffer.length)
    (hs : (a.seal key ([0, 0, 0, 0] ++ RustSem.to_le_bytes 64 sequence) aad (buffer.take (buffer.length - 16))).length
      = buffer.length) :
    Src.renetcode.crypto.encrypt_in_place buffer sequence key aad =
      .ok (a.seal key ([0, 0, 0, 0] ++ RustSem.to_le_bytes 64 sequence) aad (buffer.take (buffer.length - 16)), ()) := by
  rw [src_encrypt_in_place buffer sequence key aad hk (fun _ => hs)]
  simp only [RustSem.encrypt_in_place, if_neg (show ¬ buffer.length < 16 by omega), RustSem.crypto_nonce]

/-- Ciphertext and tag positions: the first `len - 16` bytes of the new buffer are the ciphertext, the LAST 16 bytes are
    the tag, where (ciphertext, tag) is what the crate operation `encrypt_in_place_detached` returns for the plaintext
    `buffer[..len-16]`; the length of the buffer does not change. -/
theorem src_encrypt_in_place_tag_last16 (buffer : List Nat) (sequence : Nat) (key aad : List Nat) (hk : key.length = 32)
    (h16 : 16 ≤ buffer.length)
    (hs : (a.seal key (RustSem.crypto_nonce sequence) aad (buffer.take (buffer.length - 16))).length = buffer.length) :
    ∃ ct tag b,
      RustSem.ChaCha20Poly1305.encrypt_in_place_detached ⟨key⟩ (RustSem.crypto_nonce sequence) aad
        (buffer.take (buffer.length - 16)) = .ok (ct, tag) ∧
      Src.renetcode.crypto.encrypt_in_place buffer sequence key aad = .ok (b, ()) ∧
      b.length = buffer.length ∧ tag.length = 16 ∧
      b.take (buffer.length - 16) = ct ∧ b.drop (buffer.length - 16) = tag := by
  refine ⟨_, _, _, rfl, ?_, hs, ?_, ?_, ?_⟩
  · rw [src_encrypt_in_place buffer sequence key aad hk (fun _ => hs)]
    simp only [RustSem.encrypt_in_place, if_neg (show ¬ buffer.length < 16 by omega)]
  · simp only [List.length_drop, List.length_take, hs]; omega
  · simp
  · simp

omit a in
/-- Two AEADs that answer that one query alike make the generated `encrypt_in_place` return the same result: the
    function depends on the AEAD through the single call `seal key nonce aad plaintext` only. -/
theorem src_encrypt_in_place_single_query (a1 a2 : RustSem.Aead) (buffer : List Nat) (sequence : Nat) (key aad : List Nat)
    (hk : key.length = 32) (h16 : 16 ≤ buffer.length)
    (hq : a1.seal key (RustSem.crypto_nonce sequence) aad (buffer.take (buffer.length - 16)) =
      a2.seal key (RustSem.crypto_nonce sequence) aad (buffer.take (buffer.length - 16)))
    (hs : (a1.seal key (RustSem.crypto_nonce sequence) aad (buffer.take (buffer.length - 16))).length = buffer.length) :
    @Src.renetcode.crypto.encrypt_in_place a1 buffer sequence key aad =
      @Src.renetcode.crypto.encrypt_in_place a2 buffer sequence key aad := by
  rw [@src_encrypt_in_place a1 buffer sequence key aad hk (fun _ => hs),
    @src_encrypt_in_place a2 buffer sequence key aad hk (fun _ => hq ▸ hs)]
  simp only [RustSem.encrypt_in_place, if_neg (show ¬ buffer.length < 16 by omega), hq]

omit a in
/-- The nonce is injective in the sequence number over the whole `u64` range … -/
theorem src_nonce_injective {s1 s2 : Nat} (h1 : s1 < 2 ^ 64) (h2 : s2 < 2 ^ 64)
    (h : [0, 0, 0, 0] ++ RustSem.to_le_bytes 64 s1 = [0, 0, 0, 0] ++ RustSem.to_le_bytes 64 s2) : s1 = s2 :=
  crypto_nonce_inj h1 h2 h

/-- … so two generated `encrypt_in_place` calls with different sequence numbers never hand the same nonce to the AEAD:
    the queries (as in `src_encrypt_in_place_query`) differ in their nonce component, whatever key / aad / buffers. -/
theorem src_encrypt_in_place_nonces_distinct {s1 s2 : Nat} (h1 : s1 < 2 ^ 64) (h2 : s2 < 2 ^ 64) (hne : s1 ≠ s2)
    (b1 b2 key aad1 aad2 : List Nat) (hk : key.length = 32) (hb1 : 16 ≤ b1.length) (hb2 : 16 ≤ b2.length)
    (hs1 : (a.seal key ([0, 0, 0, 0] ++ RustSem.to_le_bytes 64 s1) aad1 (b1.take (b1.length - 16))).length = b1.length)
    (hs2 : (a.seal key ([0, 0, 0, 0] ++ RustSem.to_le_bytes 64 s2) aad2 (b2.take (b2.length - 16))).length = b2.length) :
    ∃ n1 n2, n1 ≠ n2 ∧
      Src.renetcode.crypto.encrypt_in_place b1 s1 key aad1 = .ok (a.seal key n1 aad1 (b1.take (b1.length - 16)), ()) ∧
      Src.renetcode.crypto.encrypt_in_place b2 s2 key aad2 = .ok (a.seal key n2 aad2 (b2.take (b2.length - 16)), ()) :=
  ⟨_, _, fun h => hne (src_nonce_injective h1 h2 h),
    src_encrypt_in_place_query b1 s1 key aad1 hk hb1 hs1, src_encrypt_in_place_query b2 s2 key aad2 hk hb2 hs2⟩

end c17

/-! ### non-vacuity of the C17 corollaries -/
section c17_nonvacuity
attribute [local instance] Toy.aead

/-- the nonce of the toy run: four zero bytes, then the sequence little endian -/
example : [0, 0, 0, 0] ++ RustSem.to_le_bytes 64 0x0102030405060708 = [0, 0, 0, 0, 8, 7, 6, 5, 4, 3, 2, 1] := by decide +kernel
/-- hypotheses of `src_encrypt_in_place_query` / `_tag_last16` / `_single_query` / `_nonces_distinct` for the toy runs -/
example : Toy.key.length = 32 ∧ 16 ≤ Toy.buf.length ∧
    (Toy.aead.seal Toy.key ([0, 0, 0, 0] ++ RustSem.to_le_bytes 64 7) [42] (Toy.buf.take (Toy.buf.length - 16))).length = Toy.buf.length ∧
    (Toy.aead.seal Toy.key ([0, 0, 0, 0] ++ RustSem.to_le_bytes 64 8) [] (Toy.buf.take (Toy.buf.length - 16))).length = Toy.buf.length ∧
    (7 : Nat) < 2 ^ 64 ∧ (8 : Nat) < 2 ^ 64 := by decide +kernel
/-- the last 16 bytes of the generated result are the tag of the toy AEAD, the first 5 the ciphertext -/
example : ∃ b, Src.renetcode.crypto.encrypt_in_place Toy.buf 7 Toy.key [42] = .ok (b, ()) ∧
    b.drop 5 = Toy.tagOf Toy.key (RustSem.crypto_nonce 7) [42] (b.take 5) ∧ b.length = 21 :=
  ⟨Toy.sealWith 0 Toy.key (RustSem.crypto_nonce 7) [42] [1, 2, 3, 4, 5], by decide +kernel, by decide +kernel, by decide +kernel⟩
/-- the bound `< 2^64` of `src_nonce_injective` is needed (a `u64` cannot exceed it): beyond it the nonce wraps -/
example : [0, 0, 0, 0] ++ RustSem.to_le_bytes 64 0 = [0, 0, 0, 0] ++ RustSem.to_le_bytes 64 (2 ^ 64) := by decide +kernel

end c17_nonvacuity

end RenetVerif.SrcTie.NcCrypto
