/-
  C13 (packets fit) and C14 (byte budget) stated DIRECTLY about the generated
  `SendChannelReliable::get_packets_to_send` of `Generated/Src/SendRel.lean` (derived from
  `renet/src/channel/reliable.rs`) and the generated `Packet::to_bytes`.
  The model (`SendRel`, `relLoop`) appears only in the proofs: `SrcTieSendRel` ∘ `Props/C13`, `Props/C14`.

  `WfSR c now seq` is intrinsic: the `BTreeMap` of unacked messages has strictly ascending keys below
  `next_reliable_message_id ≤ 2^62`; a `Small` entry holds at most `SLICE_SIZE` bytes; a `Sliced` entry is what
  `UnackedMessage::new_sliced` builds (`num_slices = ⌈len/SLICE_SIZE⌉`, one flag / timestamp per slice); no
  `last_sent` lies in the future; the packet counter cannot overflow during the flush.
-/
import RenetVerif.Props.SrcTieSendRel
import RenetVerif.Props.SrcPropsPacket
import RenetVerif.Props.C13
import RenetVerif.Props.C14
namespace RenetVerif.SrcCor
open RenetVerif RenetVerif.SrcEquiv RenetVerif.SrcTie RenetVerif.RustSem
open Src.renet.channel.reliable

/-! ### helpers -/

def absU : SUnacked → Unacked
  | .Small m ls => .small (ofNats m) ls
  | .Sliced m n a nx acked ls => .sliced (ofNats m) n a nx acked ls

def absSR (c : SendChannelReliable) : SendRel :=
  ⟨c.channel_id, c.unacked_messages.map (fun p => (p.1, absU p.2)), c.next_reliable_message_id, c.resend_time,
   c.max_memory_usage_bytes, c.memory_usage_bytes⟩

/-- the stored message of an entry -/
def msgG : SUnacked → List Nat
  | .Small m _ => m
  | .Sliced m .. => m

/-- intrinsic well-formedness of one table entry at time `now` -/
def EntryOkG (now : Nat) : SUnacked → Prop
  | .Small m ls => BytesOk m ∧ m.length ≤ C.SLICE_SIZE ∧ ∀ t, ls = some t → t ≤ now
  | .Sliced m n _ nx acked ls => BytesOk m ∧ n = divCeil m.length C.SLICE_SIZE ∧ 0 < m.length ∧
      m.length ≤ Varint.MAX ∧ acked.length = n ∧ ls.length = n ∧ nx + n < 2 ^ 64 ∧
      ∀ t ∈ ls, ∀ t', t = some t' → t' ≤ now

/-- upper bound on the packets one flush emits: one per small message, `num_slices` per sliced one -/
def needRG : List (Nat × SUnacked) → Nat
  | [] => 0
  | (_, .Small ..) :: r => 1 + needRG r
  | (_, .Sliced _ n ..) :: r => n + needRG r

/-- intrinsic well-formedness of a generated reliable send channel for a flush at time `now` starting at
    `*packet_sequence = seq` -/
def WfSR (c : SendChannelReliable) (now seq : Nat) : Prop :=
  (c.unacked_messages.map Prod.fst).Pairwise (· < ·) ∧
  (∀ p ∈ c.unacked_messages, p.1 < c.next_reliable_message_id ∧ EntryOkG now p.2) ∧
  c.next_reliable_message_id ≤ Varint.MAX + 1 ∧ seq + needRG c.unacked_messages + 1 < 2 ^ 64

theorem reprU_absU (u : SUnacked) (h : BytesOk (msgG u)) : reprU (absU u) = u := by
  cases u <;> simp only [absU, reprU, msgG] at h ⊢ <;> rw [toNats_ofNats h]

theorem entryOk_bytes {now : Nat} {u : SUnacked} (h : EntryOkG now u) : BytesOk (msgG u) := by
  cases u <;> exact h.1

theorem reprSR_absSR (c : SendChannelReliable) (h : ∀ p ∈ c.unacked_messages, BytesOk (msgG p.2)) :
    reprSR (absSR c) = c := by
  cases c with
  | mk ch um nx rs mx mem =>
    simp only [reprSR, absSR, reprUM, List.map_map]
    congr 1
    simp only at h
    induction um with
    | nil => rfl
    | cons p r ih =>
      simp only [List.map_cons, Function.comp_apply, reprU_absU p.2 (h p (by simp))]
      rw [ih (fun q hq => h q (by simp [hq]))]

theorem needR_abs : ∀ l : List (Nat × SUnacked), needR (l.map fun p => (p.1, absU p.2)) = needRG l
  | [] => rfl
  | (_, .Small ..) :: r => by
    have ih := needR_abs r
    show 1 + needR (r.map fun p => (p.1, absU p.2)) = 1 + needRG r
    rw [ih]
  | (_, .Sliced _ n ..) :: r => by
    have ih := needR_abs r
    show n + needR (r.map fun p => (p.1, absU p.2)) = n + needRG r
    rw [ih]

set_option maxRecDepth 10000 in
theorem uwf_abs {now : Nat} {c : SendChannelReliable} {seq : Nat} (h : WfSR c now seq) :
    ∀ p ∈ (absSR c).unacked, UWf now p := by
  intro p hp
  simp only [absSR, List.mem_map] at hp
  obtain ⟨q, hq, rfl⟩ := hp
  obtain ⟨hid, he⟩ := h.2.1 q hq
  have hnx := h.2.2.1
  obtain ⟨id, u⟩ := q
  have hS : C.SLICE_SIZE = 1200 := rfl
  have hM : Varint.MAX = 4611686018427387903 := rfl
  cases u with
  | Small m ls =>
    obtain ⟨_, h2, h3⟩ := he
    simp only [absU, UWf, ofNats_length, hS, hM] at *
    exact ⟨by omega, by omega, h3⟩
  | Sliced m n a nx acked ls =>
    obtain ⟨_, h2, h3, h4, h5, h6, h7, h8⟩ := he
    simp only [absU, UWf, ofNats_length] at *
    unfold divCeil at h2
    simp only [hS, hM] at *
    exact ⟨h5, h6, by omega, by omega, by omega, h7, h8⟩

theorem wf_abs {now : Nat} {c : SendChannelReliable} {seq : Nat} (h : WfSR c now seq) : (absSR c).WF := by
  refine ⟨?_, ?_, ?_⟩
  · have : SMap.keys (absSR c).unacked = c.unacked_messages.map Prod.fst := by
      simp [SMap.keys, absSR, Function.comp_def]
    rw [this]
    exact h.1.imp (fun hlt => Nat.ne_of_lt hlt)
  · intro id u hm
    simp only [absSR, List.mem_map] at hm
    obtain ⟨q, hq, he⟩ := hm
    cases he
    exact (h.2.1 q hq).1
  · intro id u hm
    simp only [absSR, List.mem_map] at hm
    obtain ⟨q, hq, he⟩ := hm
    cases he
    have he := (h.2.1 q hq).2
    obtain ⟨qid, qu⟩ := q
    cases qu with
    | Small m ls => simpa [absU, Unacked.WF, ofNats_length] using he.2.1
    | Sliced m n a nx acked ls =>
      obtain ⟨_, h2, h3, h4, h5, h6, _⟩ := he
      simp only [absU, Unacked.WF, ofNats_length]
      exact ⟨h2, h3, h4, h5, h6⟩

/-- the tie for an arbitrary well-formed GENERATED state, with the model's result named -/
theorem sr_get_packets' {ε : Type} (c : SendChannelReliable) (seq avail now : Nat) (h : WfSR c now seq) :
    ∃ s' ps seq' avail', (absSR c).getPackets seq avail now = (s', ps, seq', avail') ∧
      (SendChannelReliable.get_packets_to_send c seq avail now : Res ε _) =
        .ok (reprSR s', seq', avail', ps.map reprPacket) := by
  have hb : ∀ p ∈ c.unacked_messages, BytesOk (msgG p.2) := fun p hp => entryOk_bytes (h.2.1 p hp).2
  have := send_rel_get_packets_to_send (ε := ε) (absSR c) seq avail now (uwf_abs h)
    (by simpa [absSR, needR_abs] using h.2.2.2)
  rw [reprSR_absSR c hb] at this
  exact ⟨_, _, _, _, rfl, this⟩

end RenetVerif.SrcCor

namespace RenetVerif.SrcProps
open RenetVerif RenetVerif.SrcEquiv RenetVerif.SrcTie RenetVerif.SrcCor RenetVerif.RustSem
open Src.renet.channel.reliable

/-- message payload bytes a generated packet carries (what `available_bytes` is charged for) -/
def relPayloadBytesG : SPacket → Nat
  | .SmallReliable _ _ msgs => (msgs.map fun x => x.2.length).sum
  | .SmallUnreliable _ _ msgs => (msgs.map List.length).sum
  | .ReliableSlice _ _ sl => sl.payload.length
  | .UnreliableSlice _ _ sl => sl.payload.length
  | .Ack _ _ => 0

theorem relPayloadSumG_repr (ps : List RenetVerif.Packet) :
    ((ps.map reprPacket).map relPayloadBytesG).sum = payloadSum ps := by
  have : ∀ p : RenetVerif.Packet, relPayloadBytesG (reprPacket p) = payloadBytes p := by
    intro p
    cases p <;> simp [relPayloadBytesG, reprPacket, payloadBytes, reprSlice, Function.comp_def, toNats_length]
  simp [payloadSum, Function.comp_def, this]

/-! ### headline statements -/

/-- **C13, reliable channel.**  On a well-formed channel the generated `get_packets_to_send` returns normally and —
    provided the returned `*packet_sequence` is at most `2^62` — EVERY packet of the returned list is serialised by the
    generated `to_bytes` into any buffer of at least `NETCODE_MAX_PAYLOAD_BYTES` (1300) bytes, using at most 1300 of
    them: no `Err`, no panic. -/
theorem send_rel_packets_fit {ε : Type} (c : SendChannelReliable) (seq avail now : Nat) (h : WfSR c now seq) :
    ∃ c' seq' avail' ps,
      (SendChannelReliable.get_packets_to_send c seq avail now : Res ε _) = .ok (c', seq', avail', ps) ∧
      (seq' ≤ Varint.MAX + 1 → ∀ gp ∈ ps, ∀ buf : List Nat, C.NETCODE_MAX_PAYLOAD_BYTES ≤ buf.length →
        ∃ b' n, Src.renet.packet.Packet.to_bytes gp (OctetsMut.with_slice buf) = .ok (b', n) ∧
          n ≤ C.NETCODE_MAX_PAYLOAD_BYTES) := by
  obtain ⟨s', ps, seq', avail', hG, hgen⟩ := sr_get_packets' (ε := ε) c seq avail now h
  refine ⟨_, _, _, _, hgen, ?_⟩
  intro hseq gp hgp buf hbuf
  obtain ⟨p, hp, rfl⟩ := List.mem_map.1 hgp
  obtain ⟨b, hb, hsz⟩ := C13.reliable_sizes hG (wf_abs h) h.2.2.1 hseq p hp
  have hle : b.length ≤ C.NETCODE_MAX_PAYLOAD_BYTES := by
    have h1 := C13.small_reliable_bound_fits
    have h2 := C13.slice_bound_fits
    rcases hsz with ⟨_, _, _, hl⟩ | ⟨_, _, _, hl⟩ <;> omega
  obtain ⟨b', hw⟩ := to_bytes_of_enc p b hb buf (by omega)
  exact ⟨b', b.length, hw, hle⟩

/-- `num_slices` of a table entry (0 for a small message) -/
def numSlicesG : SUnacked → Nat
  | .Small .. => 0
  | .Sliced _ n .. => n

/-- **C13 + C16, reliable channel: what is sent is what the peer decodes.**  If moreover the channel id is a `u8` and
    no stored message needs more than `MAX_NUM_SLICES` slices (the limit `from_bytes` enforces), then every packet of
    the flush is written by the generated `to_bytes` into at most 1300 bytes AND the generated `from_bytes` on exactly
    those bytes returns that very packet. -/
theorem send_rel_packets_roundtrip {ε : Type} (c : SendChannelReliable) (seq avail now : Nat) (h : WfSR c now seq)
    (hch : c.channel_id < 256) (hbig : ∀ p ∈ c.unacked_messages, numSlicesG p.2 ≤ C.MAX_NUM_SLICES) :
    ∃ c' seq' avail' ps,
      (SendChannelReliable.get_packets_to_send c seq avail now : Res ε _) = .ok (c', seq', avail', ps) ∧
      (seq' ≤ Varint.MAX + 1 → ∀ gp ∈ ps, ∀ buf : List Nat, C.NETCODE_MAX_PAYLOAD_BYTES ≤ buf.length →
        ∃ b' n, Src.renet.packet.Packet.to_bytes gp (OctetsMut.with_slice buf) = .ok (b', n) ∧
          n ≤ C.NETCODE_MAX_PAYLOAD_BYTES ∧
          Src.renet.packet.Packet.from_bytes (Octets.with_slice (b'.buf.take n)) = .ok (⟨b'.buf.take n, n⟩, gp)) := by
  obtain ⟨s', ps, seq', avail', hG, hgen⟩ := sr_get_packets' (ε := ε) c seq avail now h
  refine ⟨_, _, _, _, hgen, ?_⟩
  intro hseq gp hgp buf hbuf
  obtain ⟨p, hp, rfl⟩ := List.mem_map.1 hgp
  obtain ⟨b, hb, hsz⟩ := C13.reliable_sizes hG (wf_abs h) h.2.2.1 hseq p hp
  have hbig' : ∀ id m n na nx ak ls, (id, Unacked.sliced m n na nx ak ls) ∈ (absSR c).unacked → n ≤ C.MAX_NUM_SLICES := by
    intro id m n na nx ak ls hm
    simp only [absSR, List.mem_map] at hm
    obtain ⟨q, hq, he⟩ := hm
    have := hbig q hq
    obtain ⟨qid, qu⟩ := q
    cases qu with
    | Small m' ls' => simp [absU] at he
    | Sliced m' n' a' nx' ak' ls' =>
      simp only [absU, Prod.mk.injEq, Unacked.sliced.injEq] at he
      obtain ⟨_, _, rfl, _⟩ := he
      exact this
  have hpwf : p.WF := C13.reliable_wf hG (wf_abs h) hch h.2.2.1 hseq hbig' p hp
  have hle : b.length ≤ C.NETCODE_MAX_PAYLOAD_BYTES := by
    have h1 := C13.small_reliable_bound_fits
    have h2 := C13.slice_bound_fits
    rcases hsz with ⟨_, _, _, hl⟩ | ⟨_, _, _, hl⟩ <;> omega
  obtain ⟨b', hw⟩ := to_bytes_of_enc p b hb buf (by omega)
  exact ⟨b', b.length, hw, hle, (roundtrip_repr p hpwf buf b' _ hw).2.2.2⟩

/-- **C14, reliable channel: the budget never grows.**  On a well-formed channel the new `*available_bytes` is the old
    one minus exactly the payload bytes of the returned packets; the packets are numbered consecutively from
    `*packet_sequence`; the memory counter is untouched (nothing is released before it is acknowledged). -/
theorem send_rel_budget {ε : Type} (c : SendChannelReliable) (seq avail now : Nat) (h : WfSR c now seq) :
    ∃ c' seq' avail' ps,
      (SendChannelReliable.get_packets_to_send c seq avail now : Res ε _) = .ok (c', seq', avail', ps) ∧
      avail' ≤ avail ∧ (ps.map relPayloadBytesG).sum + avail' = avail ∧ seq' = seq + ps.length ∧
      c'.memory_usage_bytes = c.memory_usage_bytes ∧
      c'.unacked_messages.map Prod.fst = c.unacked_messages.map Prod.fst := by
  obtain ⟨s', ps, seq', avail', hG, hgen⟩ := sr_get_packets' (ε := ε) c seq avail now h
  refine ⟨_, _, _, _, hgen, ?_⟩
  obtain ⟨h1, _, h3, h4, _, h6, h7⟩ := C14.reliable_budget hG (C14.fit_of_wf (wf_abs h))
  refine ⟨h3, by rw [relPayloadSumG_repr]; exact h1, by simpa using h4, by simpa [reprSR, absSR] using h7, ?_⟩
  have : SMap.keys (absSR c).unacked = c.unacked_messages.map Prod.fst := by
    simp [SMap.keys, absSR, Function.comp_def]
  rw [← this, ← h6]
  simp [reprSR, reprUM, SMap.keys, Function.comp_def]

/-! ### examples (evaluated on the generated text) -/

/-- a 3-byte small message never sent, and a 1201-byte message in two slices of which slice 0 is acked -/
def exSR : SendChannelReliable :=
  ⟨3, [(5, .Small [1, 2, 3] none), (9, .Sliced (List.replicate 1201 7) 2 1 1 [true, false] [some 0, none])], 10, 100, 5000, 1204⟩

set_option maxRecDepth 100000 in
theorem exSR_wf : WfSR exSR 1000 20 := by
  refine ⟨by decide, ?_, by decide, by decide⟩
  intro p hp
  simp only [exSR, List.mem_cons, List.mem_nil_iff, or_false] at hp
  rcases hp with rfl | rfl
  · exact ⟨by decide, by decide, by decide, by intro t ht; cases ht⟩
  · refine ⟨by decide, by decide +kernel, by decide +kernel, by decide +kernel, by decide +kernel, rfl, rfl, by decide, ?_⟩
    intro t ht t' he
    simp only [List.mem_cons, List.mem_nil_iff, or_false] at ht
    rcases ht with rfl | rfl
    · cases he; decide
    · cases he

set_option maxRecDepth 100000 in
example : okSnd (SendChannelReliable.get_packets_to_send exSR 20 5000 1000 : Res Empty _) =
    some (22, 4996, [.ReliableSlice 20 3 ⟨9, 1, 2, [7]⟩, .SmallReliable 21 3 [(5, [1, 2, 3])]]) := by decide +kernel
/-- every packet of that flush serialises into a 1300-byte buffer (instance of the theorem) -/
example : ∃ c' seq' avail' ps,
    (SendChannelReliable.get_packets_to_send exSR 20 5000 1000 : Res Empty _) = .ok (c', seq', avail', ps) ∧
    (seq' ≤ Varint.MAX + 1 → ∀ gp ∈ ps, ∀ buf : List Nat, C.NETCODE_MAX_PAYLOAD_BYTES ≤ buf.length →
      ∃ b' n, Src.renet.packet.Packet.to_bytes gp (OctetsMut.with_slice buf) = .ok (b', n) ∧
        n ≤ C.NETCODE_MAX_PAYLOAD_BYTES) :=
  send_rel_packets_fit exSR 20 5000 1000 exSR_wf
/-- … and is decoded by the peer as itself (instance of the round-trip theorem) -/
example : ∃ c' seq' avail' ps,
    (SendChannelReliable.get_packets_to_send exSR 20 5000 1000 : Res Empty _) = .ok (c', seq', avail', ps) ∧
    (seq' ≤ Varint.MAX + 1 → ∀ gp ∈ ps, ∀ buf : List Nat, C.NETCODE_MAX_PAYLOAD_BYTES ≤ buf.length →
      ∃ b' n, Src.renet.packet.Packet.to_bytes gp (OctetsMut.with_slice buf) = .ok (b', n) ∧
        n ≤ C.NETCODE_MAX_PAYLOAD_BYTES ∧
        Src.renet.packet.Packet.from_bytes (Octets.with_slice (b'.buf.take n)) = .ok (⟨b'.buf.take n, n⟩, gp)) :=
  send_rel_packets_roundtrip exSR 20 5000 1000 exSR_wf (by decide) (by decide)
/-- a full slice: 1200 payload bytes + 9 header bytes ≤ 1300 -/
example : okSnd (Src.renet.packet.Packet.to_bytes (.ReliableSlice 20 3 ⟨9, 0, 2, List.replicate 1200 7⟩)
    (OctetsMut.with_slice (List.replicate 1300 0))) = some 1208 := by decide +kernel

end RenetVerif.SrcProps
