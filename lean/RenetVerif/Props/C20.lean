/-
  C20 (fixed text): "Running the real client and server transports over UDP sockets, the clients the message layer
  reports connected are exactly those whose netcode handshake completed and has not ended, each connect and disconnect
  reaches the application exactly once with the right id, and a disconnect decided by either layer or either side ends
  the session on both sides. Across that full stack the channel guarantees still hold while an on-path party drops,
  duplicates, reorders, replays or corrupts datagrams, and such interference never disconnects an otherwise healthy
  session other than through timeouts."

  What is proved here, about the model `Transport/Glue.lean` of renet_netcode/src/{server,client}.rs (one def per
  Rust fn; validated against the real transports over real UDP sockets by the differential harness, engine E5):

  server side
    * `lockstep_always`        after any sequence of transport calls (`update`, `send_packets`, `disconnect_all`) and
                               application calls on `RenetServer` (everything except the four calls that add / remove
                               connections themselves), from a fresh pair: keys(renet connections) = netcode client
                               ids, both without repetition; per client the event log alternates
                               ClientConnected / ClientDisconnected and its last entry says whether the client is in
    * `update_lockstep`        one `update`: lock-step kept, and no renet connection is left disconnected
    * `send_packets_lockstep`, `disconnect_all_lockstep`
    * `connected_exactly`      after every `update`: `RenetServer::clients_id()` = `NetcodeServer::clients_id()` (as sets)
    * `connected_gap`          (counter-example) between `RenetServer::disconnect(id)` and the next `update` the two differ
    * `events_mirror_netcode`  `update` factorised: renet receives exactly the calls the netcode results dictate, the
                               datagrams sent are exactly those of the netcode results, and the events pushed are, in
                               order, exactly the connects / disconnects netcode reported, same ids
    * `events_exactly_once`    alternation per id, tied to netcode membership
    * `server_disconnect_propagates`  a renet-side disconnect (channel error, `RenetServer::disconnect`) frees the netcode
                               slot and surfaces as `ClientDisconnected{id, first reason}` within one `update`
    * `disconnect_causes`      the only three ways a client leaves: its own authentic disconnect datagram, a netcode
                               time-out, a renet-side disconnect
    * `payload_routing_inbound`, `payload_routing_outbound`
    * `server_update_panic_partial`, `server_send_packets_panic_partial`, `server_disconnect_all_total`
  client side
    * `client_netcode_end_reaches_renet`, `client_app_disconnect_ends_netcode`, `client_alive`,
      `client_routing_inbound`, `client_send_refused`, `client_routing_outbound`, `client_update_total`

  Every theorem is followed by an instance on a small concrete state (toy AEAD, two-slot server).
-/
import RenetVerif.Lemmas.GlueInv
import RenetVerif.Transport.ToyAead
namespace RenetVerif.C20
open RenetVerif RenetVerif.Netcode RenetVerif.Transport RenetVerif.GI

/-! ## concrete states for the instances -/

def exAddr : Addr := .v4 [10, 0, 0, 2] 2000
def exChans : List ChanCfg :=
  [ { id := 0, kind := .unreliable, maxMem := 4096, resend := 0 },
    { id := 1, kind := .ordered, maxMem := 4096, resend := 300000000 } ]

/-- a connected netcode slot for client 7 -/
def exConn7 : Connection :=
  { confirmed := true, clientId := 7, state := .connected, sendKey := [1, 2, 3], receiveKey := [4, 5, 6],
    userData := [], addr := exAddr, lastPacketReceivedTime := 0, lastPacketSendTime := 0, timeoutSeconds := 5,
    sequence := 0, expireTimestamp := 100, replayProtection := RP.new }

/-- a fresh two-slot netcode server (token-entry table cut down to two entries) -/
def exNs0 : NetcodeServer :=
  { clients := [none, none], pendingClients := [], connectTokenEntries := [none, none], protocolId := 7,
    connectKey := [9, 9], maxClients := 2, challengeSequence := 0, challengeKey := [8, 8],
    publicAddresses := [.v4 [10, 0, 0, 3] 9000], currentTime := 0, globalSequence := 0, secure := true }

/-- the same with client 7 connected in slot 0 -/
def exNs1 : NetcodeServer := { exNs0 with clients := [some exConn7, none] }
def exRs0 : Server := Server.new 60000 exChans exChans
/-- fresh glue state -/
def exG0 : ServerGlue := ⟨exNs0, exRs0⟩
/-- client 7 connected on both layers -/
def exG1 : ServerGlue := ⟨exNs1, exRs0.addConnection 7⟩
/-- the application has called `RenetServer::disconnect(7)` -/
def exG2 : ServerGlue := ⟨exNs1, (exRs0.addConnection 7).disconnect 7⟩

def isOk {α : Type} : Res Empty α → Bool
  | .ok _ => true
  | _ => false

theorem ok_of_isOk {α : Type} {x : Res Empty α} (h : isOk x = true) : ∃ v, x = .ok v := by
  cases x with
  | ok v => exact ⟨v, rfl⟩
  | err e => exact e.elim
  | panic m => cases h

theorem exNs0_fresh : exNs0.clientsId = [] := rfl

theorem exG1_lockstep : LockStep exG1 := by
  refine ⟨by decide, ?_, fun id => ?_⟩
  · exact SL.SMap.sorted_insert _ _ _ SL.SMap.sorted_nil
  · show SMap.contains (exRs0.addConnection 7).conns id = true ↔ id ∈ [7]
    have : (exRs0.addConnection 7).conns = [(7, exRs0.newConn.setConnected)] := rfl
    rw [this]
    by_cases e : id = 7
    · subst e; simp [SMap.contains, SMap.find?]
    · have e' : ¬ 7 = id := fun h => e h.symm
      simp [SMap.contains, SMap.find?, e, e']

theorem exG1_srvInv : SL.SrvInv (exG1.renet, []) :=
  SL.runSrv_inv [.add 7] (exRs0, []) _ rfl (SL.srvInv_new _ _ _)

theorem exG1_ginv : GInv (exG1, []) := ⟨exG1_lockstep, exG1_srvInv⟩

theorem exG1_inv : exG1.renet.Inv := CI.server_addConnection_invP (CI.server_new_invP _ _ _) 7

theorem exG1_live : Live exG1.renet := live_addConnection (fun _ _ hf => by simp [exRs0, Server.new] at hf) 7

theorem exG2_lockstep : LockStep exG2 :=
  (GlueOp.apply_inv (a := toyAead) (st := (exG1, [])) (op := .app (.disconnect 7)) rfl rfl exG1_ginv).1.1

theorem exG2_srvInv : SL.SrvInv (exG2.renet, []) :=
  (GlueOp.apply_inv (a := toyAead) (st := (exG1, [])) (op := .app (.disconnect 7)) rfl rfl exG1_ginv).1.2

/-! ## 1. lock-step -/

/-- `NetcodeServer::new` starts with an empty table -/
theorem fresh_netcode {now maxClients pid : Nat} {addrs : List Addr} {secure : Bool} {pk ck : Bytes} {ns : NetcodeServer}
    (h : NetcodeServer.new now maxClients pid addrs secure pk ck = .ok ns) : ns.clientsId = [] :=
  new_clientsId h

/-- **Lock-step, always.**  From a fresh `NetcodeServerTransport` + `RenetServer`, after any sequence of transport
    calls and application-level `RenetServer` calls that returns normally: the renet connection table and the netcode
    slot table hold the same ids, without repetition on either side (`LockStep`), and the event log satisfies the
    alternation invariant (`SrvInv`). -/
theorem lockstep_always (a : AEAD) {ns : NetcodeServer} (hfresh : ns.clientsId = []) (budget : Nat)
    (sc cc : List ChanCfg) (ops : List GlueOp) (st : GState)
    (hrun : runGlue a ({ netcode := ns, renet := Server.new budget sc cc }, []) ops = .ok st)
    (hall : ∀ op ∈ ops, op.allowed = true) :
    LockStep st.1 ∧ SL.SrvInv (st.1.renet, st.2) :=
  runGlue_inv a ops _ st hrun hall (gInv_fresh hfresh budget sc cc)

def exOps : List GlueOp :=
  [.update 300000000 [(exAddr, [1, 2, 3])], .sendPackets, .app (.disconnect 7), .app (.send 7 1 [1]),
   .app .getEvent, .update 16000000 [], .disconnectAll]

example : ∃ st, runGlue toyAead (exG0, []) exOps = .ok st ∧ LockStep st.1 ∧ SL.SrvInv (st.1.renet, st.2) := by
  obtain ⟨st, h⟩ := ok_of_isOk (x := runGlue toyAead (exG0, []) exOps) (by decide +kernel)
  exact ⟨st, h, lockstep_always toyAead exNs0_fresh 60000 exChans exChans exOps st h (by decide)⟩

/-- the same from any state satisfying the invariant (used below with a client connected) -/
theorem lockstep_preserved (a : AEAD) (ops : List GlueOp) (st st' : GState) (hrun : runGlue a st ops = .ok st')
    (hall : ∀ op ∈ ops, op.allowed = true) (hi : GInv st) : GInv st' :=
  runGlue_inv a ops st st' hrun hall hi

example : ∃ st, runGlue toyAead (exG1, []) exOps = .ok st ∧ GInv st := by
  obtain ⟨st, h⟩ := ok_of_isOk (x := runGlue toyAead (exG1, []) exOps) (by decide +kernel)
  exact ⟨st, h, lockstep_preserved toyAead exOps _ st h (by decide) exG1_ginv⟩

/-- **(a) the combined step.**  Any netcode call whose table effect is `TStep` (proved for `process_packet` on any
    bytes from any address, `update_client`, `disconnect`: `processPacket_tstep`, `updateClient_tstep`,
    `disconnect_spec`) followed by `handle_server_result` on its result keeps the tables in bijection and pushes
    exactly the event `evOf`. -/
theorem handle_step {g : ServerGlue} {ns' : NetcodeServer} {r : ServerResult} {rs' : Server} {out out' : Array Dgram}
    (hl : LockStep g) (ht : TStep g.netcode.clients ns'.clients r)
    (h : handleServerResult r g.renet out = .ok (rs', out')) :
    LockStep { netcode := ns', renet := rs' } ∧ rs'.events = g.renet.events ++ evOf g.renet r :=
  lockStep_handle hl ht h

example : ∃ r ns' rs' out', exNs1.disconnect toyAead 7 = .ok (r, ns') ∧
    handleServerResult r exG1.renet #[] = .ok (rs', out') ∧ LockStep ⟨ns', rs'⟩ ∧
    rs'.events = exG1.renet.events ++ [.disconnected 7 .transport] := by
  obtain ⟨⟨r, ns'⟩, h⟩ := ok_of_isOk (x := exNs1.disconnect toyAead 7) (by decide +kernel)
  obtain ⟨ht, hin, _⟩ := disconnect_spec h
  obtain ⟨ad, p, e⟩ := hin (by decide)
  subst e
  obtain ⟨rs', out', hh, _⟩ := handle_total goodP_winv exG1_inv (.clientDisconnected 7 ad p) #[]
  obtain ⟨h1, h2⟩ := handle_step exG1_lockstep ht hh
  exact ⟨_, ns', rs', out', h, hh, h1, h2⟩

/-- **(b) `update`** keeps lock-step and leaves no disconnected connection in the renet table -/
theorem update_lockstep {a : AEAD} {g g' : ServerGlue} {d : Nat} {inbox : List Dgram} {out : Array Dgram}
    (h : serverUpdate a g d inbox = .ok (g', out)) (hl : LockStep g) : LockStep g' ∧ NoDead g'.renet :=
  serverUpdate_lockstep h hl

example : ∃ g' out, serverUpdate toyAead exG2 300000000 [(exAddr, [1, 2, 3])] = .ok (g', out) ∧
    LockStep g' ∧ NoDead g'.renet := by
  obtain ⟨⟨g', out⟩, h⟩ := ok_of_isOk (x := serverUpdate toyAead exG2 300000000 [(exAddr, [1, 2, 3])]) (by decide +kernel)
  exact ⟨g', out, h, update_lockstep h exG2_lockstep⟩

/-- **(c) `send_packets`** keeps lock-step, keeps every key, pushes no event -/
theorem send_packets_lockstep {a : AEAD} {g g' : ServerGlue} {out : Array Dgram}
    (h : serverSendPackets a g = .ok (g', out)) (hl : LockStep g) :
    LockStep g' ∧ SL.QuietC g.renet.conns g'.renet.conns ∧ g'.renet.events = g.renet.events :=
  serverSendPackets_lockstep h hl

example : ∃ g' out, serverSendPackets toyAead exG1 = .ok (g', out) ∧ LockStep g' := by
  obtain ⟨⟨g', out⟩, h⟩ := ok_of_isOk (x := serverSendPackets toyAead exG1) (by decide +kernel)
  exact ⟨g', out, h, (send_packets_lockstep h exG1_lockstep).1⟩

/-- **(c) `disconnect_all`** keeps lock-step and empties both tables -/
theorem disconnect_all_lockstep {a : AEAD} {g g' : ServerGlue} {out : Array Dgram}
    (h : serverDisconnectAll a g = .ok (g', out)) (hl : LockStep g) :
    LockStep g' ∧ g'.renet.conns = [] ∧ g'.netcode.clientsId = [] :=
  serverDisconnectAll_lockstep h hl

example : ∃ g' out, serverDisconnectAll toyAead exG1 = .ok (g', out) ∧ g'.renet.conns = [] ∧ g'.netcode.clientsId = [] := by
  obtain ⟨g', out, h, _⟩ := serverDisconnectAll_total goodP_winv toyAead exG1_inv
  exact ⟨g', out, h, (disconnect_all_lockstep h exG1_lockstep).2⟩

/-! ## "reported connected" = "handshake completed and not ended" -/

/-- **after every `update`** `RenetServer::clients_id()` and `NetcodeServer::clients_id()` have the same members
    (given the renet invariant and that no server-side connection is `Connecting`, both of which hold along every run
    from a fresh pair: `connected_exactly_always`) -/
theorem connected_exactly {a : AEAD} {g g' : ServerGlue} {d : Nat} {inbox : List Dgram} {out : Array Dgram}
    (h : serverUpdate a g d inbox = .ok (g', out)) (hk : LockStep g) (hi : g.renet.Inv) (hl : Live g.renet) :
    ∀ id, id ∈ g'.renet.clientsId ↔ id ∈ g'.netcode.clientsId :=
  GI.connected_exactly goodP_winv h hk hi hl

example : ∃ g' out, serverUpdate toyAead exG2 300000000 [] = .ok (g', out) ∧
    ∀ id, id ∈ g'.renet.clientsId ↔ id ∈ g'.netcode.clientsId := by
  obtain ⟨⟨g', out⟩, h⟩ := ok_of_isOk (x := serverUpdate toyAead exG2 300000000 []) (by decide +kernel)
  have hi : exG2.renet.Inv := CI.server_disconnect_invP exG1_inv 7
  have hl : Live exG2.renet :=
    appOp_live (st := (exG1.renet, [])) (op := .disconnect 7) goodP_winv rfl trivial rfl exG1_inv exG1_live
  exact ⟨g', out, h, connected_exactly h exG2_lockstep hi hl⟩

/-- the same along any run from a fresh pair: whenever the last call was `update`, the two id sets agree -/
theorem connected_exactly_always (a : AEAD) {ns : NetcodeServer} (hfresh : ns.clientsId = []) (budget : Nat)
    (sc cc : List ChanCfg) (ops : List GlueOp) (d : Nat) (inbox : List Dgram) (st : GState)
    (hrun : runGlue a ({ netcode := ns, renet := Server.new budget sc cc }, []) (ops ++ [.update d inbox]) = .ok st)
    (hpre : GPre a ({ netcode := ns, renet := Server.new budget sc cc }, []) (ops ++ [.update d inbox])) :
    ∀ id, id ∈ st.1.renet.clientsId ↔ id ∈ st.1.netcode.clientsId := by
  obtain ⟨st1, h1, h2⟩ := runGlue_snoc a ops _ _ st hrun
  obtain ⟨hg, hi, hl⟩ := runGlue_inv2 goodP_winv a ops _ st1 h1 (gpre_prefix a ops _ _ hpre)
    (gInv2_fresh hfresh budget sc cc)
  simp only [GlueOp.apply] at h2
  obtain ⟨⟨g', out⟩, h3, h4⟩ := CI.bind_ok_cases h2
  cases h4
  exact connected_exactly h3 hg.1 hi hl

example : ∃ st, runGlue toyAead (exG0, []) (exOps ++ [.update 1000 []]) = .ok st ∧
    ∀ id, id ∈ st.1.renet.clientsId ↔ id ∈ st.1.netcode.clientsId := by
  obtain ⟨st, h⟩ := ok_of_isOk (x := runGlue toyAead (exG0, []) (exOps ++ [.update 1000 []])) (by decide +kernel)
  have hpre : GPre toyAead (exG0, []) (exOps ++ [.update 1000 []]) := gpre_of_b toyAead _ _ (by decide +kernel)
  exact ⟨st, h, connected_exactly_always toyAead exNs0_fresh 60000 exChans exChans exOps 1000 [] st h hpre⟩

/-- between updates only one inclusion holds … -/
theorem connected_subset {g : ServerGlue} (hk : LockStep g) : ∀ id, id ∈ g.renet.clientsId → id ∈ g.netcode.clientsId :=
  GI.connected_subset hk

example : ∀ id, id ∈ exG2.renet.clientsId → id ∈ exG2.netcode.clientsId := connected_subset exG2_lockstep

/-- … **counter-example to "exactly" at every instant**: after the application's `RenetServer::disconnect(7)` and
    before the next transport `update`, client 7 is no longer reported connected by the message layer although its
    netcode session is still up (lock-step still holds: the key is there, the connection is `Disconnected`).  The next
    `update` ends the netcode session (`server_disconnect_propagates`). -/
theorem connected_gap : LockStep exG2 ∧ 7 ∈ exG2.netcode.clientsId ∧ 7 ∉ exG2.renet.clientsId ∧
    exG2.renet.disconnectionsId = [7] :=
  ⟨exG2_lockstep, by decide, by decide, by decide⟩

/-! ## 2. events -/

/-- **`update` factorised; the event log mirrors the netcode results.**  There is a netcode-only run `T` (clock step;
    `process_packet` per queued datagram; `update_client` per connected id; `disconnect` per id renet holds
    disconnected) such that renet received exactly the calls `opOf` of T's results in order, the datagrams sent are
    exactly `dgOf` of T's results in order, and — in lock-step — the events renet pushed are, in order, exactly the
    `ClientConnected` / `ClientDisconnected` results of T, with the same ids. -/
theorem events_mirror_netcode {a : AEAD} {g g' : ServerGlue} {d : Nat} {inbox : List Dgram} {out : Array Dgram}
    (h : serverUpdate a g d inbox = .ok (g', out)) (popped : List Event) :
    ∃ T, IsUpdateRun a g d inbox g' out popped T ∧
      (LockStep g → ∃ new, g'.renet.events = g.renet.events ++ new ∧ new.map evKey = T.all.filterMap resKey) :=
  serverUpdate_factor h popped

example : ∃ g' out T new, serverUpdate toyAead exG2 300000000 [(exAddr, [1, 2, 3])] = .ok (g', out) ∧
    IsUpdateRun toyAead exG2 300000000 [(exAddr, [1, 2, 3])] g' out [] T ∧
    g'.renet.events = exG2.renet.events ++ new ∧ new.map evKey = T.all.filterMap resKey := by
  obtain ⟨⟨g', out⟩, h⟩ := ok_of_isOk (x := serverUpdate toyAead exG2 300000000 [(exAddr, [1, 2, 3])]) (by decide +kernel)
  obtain ⟨T, hT, hev⟩ := events_mirror_netcode h []
  obtain ⟨new, e1, e2⟩ := hev exG2_lockstep
  exact ⟨g', out, T, new, h, hT, e1, e2⟩

/-- **exactly once, right id.**  Along any run from a fresh pair, for every id: the events about it alternate
    ClientConnected, ClientDisconnected, ClientConnected, … and the last one is ClientConnected exactly when the id is
    in the netcode table. -/
theorem events_exactly_once (a : AEAD) {ns : NetcodeServer} (hfresh : ns.clientsId = []) (budget : Nat)
    (sc cc : List ChanCfg) (ops : List GlueOp) (st : GState)
    (hrun : runGlue a ({ netcode := ns, renet := Server.new budget sc cc }, []) ops = .ok st)
    (hall : ∀ op ∈ ops, op.allowed = true) (id : Nat) :
    SL.Alternates ((SL.eventLog (st.1.renet, st.2)).filter (SL.Event.about id)) ∧
    (SL.lastIsConnected ((SL.eventLog (st.1.renet, st.2)).filter (SL.Event.about id)) = true ↔
      id ∈ st.1.netcode.clientsId) := by
  obtain ⟨hl, hs⟩ := lockstep_always a hfresh budget sc cc ops st hrun hall
  obtain ⟨h1, h2⟩ := hs.2 id
  refine ⟨h1, ?_⟩
  rw [← SL.curState_false_eq, h2]
  exact hl.sync id

example : ∃ st, runGlue toyAead (exG0, []) exOps = .ok st ∧
    SL.Alternates ((SL.eventLog (st.1.renet, st.2)).filter (SL.Event.about 7)) := by
  obtain ⟨st, h⟩ := ok_of_isOk (x := runGlue toyAead (exG0, []) exOps) (by decide +kernel)
  exact ⟨st, h, (events_exactly_once toyAead exNs0_fresh 60000 exChans exChans exOps st h (by decide) 7).1⟩

/-- **a disconnect decided by the message layer on the server ends the session within one `update`** -/
theorem server_disconnect_propagates {a : AEAD} {g g' : ServerGlue} {d : Nat} {inbox : List Dgram} {out : Array Dgram}
    (h : serverUpdate a g d inbox = .ok (g', out)) (hk : LockStep g) {popped : List Event}
    (hs : SL.SrvInv (g.renet, popped)) {id : Nat} {c : Conn} {r : Reason}
    (hf : SMap.find? g.renet.conns id = some c) (hst : c.status = .disconnected r) :
    ∃ new tl, SL.eventLog (g'.renet, popped) = SL.eventLog (g.renet, popped) ++ new ∧
      new.filter (SL.Event.about id) = .disconnected id r :: tl :=
  GI.server_disconnect_propagates h hk hs hf hst

example : ∃ g' out new tl, serverUpdate toyAead exG2 300000000 [] = .ok (g', out) ∧
    SL.eventLog (g'.renet, []) = SL.eventLog (exG2.renet, []) ++ new ∧
    new.filter (SL.Event.about 7) = .disconnected 7 .byServer :: tl ∧ 7 ∉ g'.netcode.clientsId := by
  obtain ⟨⟨g', out⟩, h⟩ := ok_of_isOk (x := serverUpdate toyAead exG2 300000000 []) (by decide +kernel)
  have hf : SMap.find? exG2.renet.conns 7 = some (exRs0.newConn.setConnected.disconnectWith .byServer) := rfl
  obtain ⟨new, tl, e1, e2⟩ := server_disconnect_propagates h exG2_lockstep exG2_srvInv hf rfl
  have hgone : (match serverUpdate toyAead exG2 300000000 [] with
      | .ok (g, _) => g.netcode.clientsId | _ => [0]) = [] := by decide +kernel
  rw [h] at hgone
  simp only at hgone
  exact ⟨g', out, new, tl, h, e1, e2, by rw [hgone]; simp⟩

/-- **why a session ends on the server**: own authentic disconnect datagram, netcode time-out, or renet-side disconnect -/
theorem disconnect_causes {a : AEAD} {g g' : ServerGlue} {d : Nat} {inbox : List Dgram} {out : Array Dgram}
    {popped : List Event} {T : UpdateTrace} (hr : IsUpdateRun a g d inbox g' out popped T) {id : Nat} {ad : Addr}
    {pl : Option Bytes} (h : ServerResult.clientDisconnected id ad pl ∈ T.all) :
    (∃ (nsA : NetcodeServer) (dg : Dgram) (nsB : NetcodeServer), dg ∈ inbox ∧
        nsA.processPacket a dg.1 dg.2 = .ok (.clientDisconnected id ad pl, nsB) ∧
        Auth a nsA dg.1 dg.2 (.clientDisconnected id ad pl)) ∨
    (∃ (nsA nsB : NetcodeServer), nsA.updateClient a id = .ok (.clientDisconnected id ad pl, nsB) ∧
        UCShape nsA id (.clientDisconnected id ad pl)) ∨
    id ∈ T.rs2.disconnectionsId :=
  serverUpdate_disconnect_causes hr h

/-- six seconds of silence: netcode reports `ClientDisconnected{7}` (client 7 has a 5 s time-out), for one of the
    three causes -/
example : ∃ g' out T ad pl, serverUpdate toyAead exG1 6000000000 [] = .ok (g', out) ∧
    IsUpdateRun toyAead exG1 6000000000 [] g' out [] T ∧ ServerResult.clientDisconnected 7 ad pl ∈ T.all ∧
    ((∃ (nsA : NetcodeServer) (dg : Dgram) (nsB : NetcodeServer), dg ∈ ([] : List Dgram) ∧
        nsA.processPacket toyAead dg.1 dg.2 = .ok (.clientDisconnected 7 ad pl, nsB) ∧
        Auth toyAead nsA dg.1 dg.2 (.clientDisconnected 7 ad pl)) ∨
     (∃ (nsA nsB : NetcodeServer), nsA.updateClient toyAead 7 = .ok (.clientDisconnected 7 ad pl, nsB) ∧
        UCShape nsA 7 (.clientDisconnected 7 ad pl)) ∨
     7 ∈ T.rs2.disconnectionsId) := by
  obtain ⟨⟨g', out⟩, h⟩ := ok_of_isOk (x := serverUpdate toyAead exG1 6000000000 []) (by decide +kernel)
  obtain ⟨T, hT, hev⟩ := events_mirror_netcode h []
  obtain ⟨new, e1, e2⟩ := hev exG1_lockstep
  have hlen : (match serverUpdate toyAead exG1 6000000000 [] with
      | .ok (g, _) => g.renet.events.map evKey | _ => []) = [(true, 7), (false, 7)] := by decide +kernel
  rw [h] at hlen
  simp only at hlen
  rw [e1, List.map_append, e2] at hlen
  have hmem : (false, 7) ∈ T.all.filterMap resKey := by
    have : exG1.renet.events.map evKey = [(true, 7)] := rfl
    rw [this] at hlen
    simp only [List.cons_append, List.nil_append, List.cons.injEq, true_and] at hlen
    rw [hlen]; simp
  obtain ⟨r, hr, hk⟩ := List.mem_filterMap.mp hmem
  cases r with
  | clientDisconnected id ad pl =>
    simp only [resKey, Option.some.injEq, Prod.mk.injEq, true_and] at hk
    subst hk
    exact ⟨g', out, T, ad, pl, h, hT, hr, disconnect_causes hT hr⟩
  | none => simp [resKey] at hk
  | packetToSend ad p => simp [resKey] at hk
  | payload i b => simp [resKey] at hk
  | clientConnected i ad ud p => simp [resKey] at hk

/-! ## 4. payload routing -/

/-- **inbound.**  Every `(bytes, id)` one `update` hands to `RenetServer::process_packet_from` is a payload
    `NetcodeServer::process_packet` returned for one of the queued datagrams as `Payload{client_id = id}`; `id` is in the
    netcode table, the datagram came from that client's address and decodes under that client's receive key and replay
    window as a payload packet with exactly these bytes (`Auth`; with C04: it is that client's own datagram, once). -/
theorem payload_routing_inbound {a : AEAD} {g g' : ServerGlue} {d : Nat} {inbox : List Dgram} {out : Array Dgram}
    {popped : List Event} {T : UpdateTrace} (hr : IsUpdateRun a g d inbox g' out popped T) {b : Bytes} {id : Nat}
    (h : SL.SrvOp.processPacketFrom b id ∈ T.all.flatMap opOf) :
    ∃ (nsA : NetcodeServer) (dg : Dgram) (nsB : NetcodeServer), dg ∈ inbox ∧
      nsA.processPacket a dg.1 dg.2 = .ok (.payload id b, nsB) ∧ id ∈ nsA.clientsId ∧
      Auth a nsA dg.1 dg.2 (.payload id b) :=
  serverUpdate_routing hr h

/-- a genuine payload datagram of client 7 (sealed by the toy AEAD under 7's receive key, sequence 1) -/
def exPayloadDgram : Bytes :=
  match (Netcode.Packet.payload [42, 43]).encode toyAead C.NETCODE_MAX_PACKET_BYTES 7 (some (1, [4, 5, 6])) with
  | .ok b => b
  | _ => []

example : ∃ g' out T, serverUpdate toyAead exG1 1000 [(exAddr, exPayloadDgram)] = .ok (g', out) ∧
    IsUpdateRun toyAead exG1 1000 [(exAddr, exPayloadDgram)] g' out [] T ∧
    ∃ (nsA : NetcodeServer) (dg : Dgram) (nsB : NetcodeServer), dg ∈ [(exAddr, exPayloadDgram)] ∧
      nsA.processPacket toyAead dg.1 dg.2 = .ok (.payload 7 [42, 43], nsB) ∧ 7 ∈ nsA.clientsId ∧
      Auth toyAead nsA dg.1 dg.2 (.payload 7 [42, 43]) := by
  obtain ⟨⟨g', out⟩, h⟩ := ok_of_isOk (x := serverUpdate toyAead exG1 1000 [(exAddr, exPayloadDgram)]) (by decide +kernel)
  obtain ⟨T, hT, _⟩ := events_mirror_netcode h []
  -- the first stage of the netcode half, computed: one `Payload{7, [42, 43]}`
  have h1 : (match (do
        let ns0 ← exG1.netcode.update 1000
        let (tr, _) ← ncTrace (ppF toyAead) ns0 [(exAddr, exPayloadDgram)]
        pure tr : Res Empty (List ServerResult)) with
      | .ok tr => tr
      | _ => []) = [.payload 7 [42, 43]] := by decide +kernel
  simp only [hT.clock, hT.recv, Res.bind_ok, Res.pure_eq] at h1
  have hmem : SL.SrvOp.processPacketFrom [42, 43] 7 ∈ T.all.flatMap opOf := by
    refine List.mem_flatMap.mpr ⟨.payload 7 [42, 43], ?_, by simp [opOf]⟩
    unfold UpdateTrace.all
    rw [h1]; simp
  exact ⟨g', out, T, h, hT, payload_routing_inbound hT hmem⟩

/-- **outbound.**  Every datagram one `send_packets` sends is `generate_payload_packet(id, p)` for an id of
    `RenetServer::clients_id()` and a packet `p` that `get_packets_to_send(id)` returned in this call; per client the
    datagrams are in packet order (`SendRun`, `Sealed`). -/
theorem payload_routing_outbound {a : AEAD} {g g' : ServerGlue} {out : Array Dgram}
    (h : serverSendPackets a g = .ok (g', out)) :
    SendRun a g g.renet.clientsId out.toList g' ∧
    ∀ d ∈ out.toList, ∃ (id : Nat) (rsA rsB : Server) (ps : List Bytes) (p : Bytes) (nsA nsB : NetcodeServer),
      id ∈ g.renet.clientsId ∧ rsA.getPacketsToSend id = .ok (rsB, some ps) ∧ p ∈ ps ∧
      nsA.generatePayloadPacket a id p = .ok (d, nsB) :=
  ⟨serverSendPackets_run h, (serverSendPackets_run h).mem⟩

/-- client 7 has one message queued on channel 1 -/
def exG1m : ServerGlue :=
  match exG1.renet.sendMessage 7 1 [1, 2, 3] with
  | .ok rs => ⟨exNs1, rs⟩
  | _ => exG1

example : ∃ g' out, serverSendPackets toyAead exG1m = .ok (g', out) ∧ out.size = 1 ∧
    ∀ d ∈ out.toList, ∃ (id : Nat) (rsA rsB : Server) (ps : List Bytes) (p : Bytes) (nsA nsB : NetcodeServer),
      id ∈ exG1m.renet.clientsId ∧ rsA.getPacketsToSend id = .ok (rsB, some ps) ∧ p ∈ ps ∧
      nsA.generatePayloadPacket toyAead id p = .ok (d, nsB) := by
  obtain ⟨⟨g', out⟩, h⟩ := ok_of_isOk (x := serverSendPackets toyAead exG1m) (by decide +kernel)
  have hsz : (match serverSendPackets toyAead exG1m with | .ok (_, o) => o.size | _ => 0) = 1 := by decide +kernel
  rw [h] at hsz
  exact ⟨g', out, h, hsz, (payload_routing_outbound h).2⟩

/-! ## 5. no unwinding (server) -/

/-- **partial** (assumed: the netcode server calls themselves).  With the renet server in its invariant, `update`
    unwinds only if one of the netcode calls it makes (`update`, `process_packet`, `update_client`; `disconnect` never
    does) unwinds, with that call's message: the glue and renet add no unwinding of their own, whatever the datagrams. -/
theorem server_update_panic_partial {a : AEAD} {g : ServerGlue} {d : Nat} {inbox : List Dgram} {m : String}
    (hi : g.renet.Inv) (h : serverUpdate a g d inbox = .panic m) : NcPanic a m :=
  serverUpdate_panic_partial goodP_winv hi h

def panicMsg {α : Type} : Res Empty α → Option String
  | .panic m => some m
  | _ => none

theorem panic_of_msg {α : Type} {x : Res Empty α} {m : String} (h : panicMsg x = some m) : x = .panic m := by
  cases x with
  | ok v => cases h
  | err e => exact e.elim
  | panic m' => simp only [panicMsg, Option.some.injEq] at h; rw [h]

/-- client 7 connected, netcode clock at 1 ns -/
def exG1late : ServerGlue := { exG1 with netcode := { exNs1 with currentTime := 1 } }

/-- the netcode clock overflowing `Duration::MAX` is such a case -/
example : serverUpdate toyAead exG1late DURATION_MAX [] = .panic "server.rs update: current_time += duration" ∧
    NcPanic toyAead "server.rs update: current_time += duration" := by
  have hm := panic_of_msg (x := serverUpdate toyAead exG1late DURATION_MAX [])
    (m := "server.rs update: current_time += duration") (by decide +kernel)
  exact ⟨hm, server_update_panic_partial (g := exG1late) exG1_inv hm⟩

/-- **partial** (assumed: `generate_payload_packet`, `RenetClient::get_packets_to_send`).  The
    `get_packets_to_send(client_id).unwrap()` of `send_packets` is never the cause of an unwinding. -/
theorem server_send_packets_panic_partial {a : AEAD} {g : ServerGlue} {m : String}
    (h : serverSendPackets a g = .panic m) : (∃ c : Conn, c.getPacketsToSend = .panic m) ∨ NcPanic a m :=
  serverSendPackets_panic_partial h

/-- client 7 with a message queued and its netcode datagram counter at `u64::MAX` -/
def exG1ov : ServerGlue := { exG1m with netcode := { exNs1 with clients := [some { exConn7 with sequence := U64_MAX }, none] } }

example : serverSendPackets toyAead exG1ov = .panic "server.rs generate_payload_packet: client.sequence += 1" ∧
    ((∃ c : Conn, c.getPacketsToSend = .panic "server.rs generate_payload_packet: client.sequence += 1") ∨
      NcPanic toyAead "server.rs generate_payload_packet: client.sequence += 1") := by
  have hm := panic_of_msg (x := serverSendPackets toyAead exG1ov)
    (m := "server.rs generate_payload_packet: client.sequence += 1") (by decide +kernel)
  exact ⟨hm, server_send_packets_panic_partial hm⟩

/-- `disconnect_all` never unwinds -/
theorem server_disconnect_all_total (a : AEAD) {g : ServerGlue} (hi : g.renet.Inv) :
    ∃ g' out, serverDisconnectAll a g = .ok (g', out) ∧ g'.renet.Inv :=
  serverDisconnectAll_total goodP_winv a hi

example : ∃ g' out, serverDisconnectAll toyAead exG2 = .ok (g', out) ∧ g'.renet.Inv :=
  server_disconnect_all_total toyAead (CI.server_disconnect_invP exG1_inv 7)

/-! ## 3. the client side -/

def exSrvAddr : Addr := .v4 [10, 0, 0, 3] 9000

def exTok : ConnectToken :=
  { clientId := 7, versionInfo := C.NETCODE_VERSION_INFO, protocolId := 7, createTimestamp := 0, expireTimestamp := 30,
    xnonce := [], serverAddresses := some exSrvAddr :: List.replicate 31 none, clientToServerKey := [4, 5, 6],
    serverToClientKey := [1, 2, 3], privateData := [], timeoutSeconds := 5 }

/-- a connected netcode client -/
def exNc : NetcodeClient :=
  { state := .connected, clientId := 7, connectStartTime := 0, lastPacketSendTime := none, lastPacketReceivedTime := 0,
    currentTime := 0, sequence := 0, serverAddr := exSrvAddr, serverAddrIndex := 0, connectToken := exTok,
    challengeTokenSequence := 0, challengeTokenData := [], maxClients := 2, clientIndex := 0,
    sendRate := C.NETCODE_SEND_RATE_NS, replayProtection := RP.new }

def exRc : Conn := (Conn.fromChannels 60000 exChans exChans).setConnected
/-- both layers connected -/
def exC1 : ClientGlue := ⟨exNc, exRc⟩
/-- netcode session over (time-out), renet not yet told -/
def exC2 : ClientGlue := ⟨{ exNc with state := .disconnected .connectionTimedOut }, exRc⟩
/-- the application has called `RenetClient::disconnect()` -/
def exC3 : ClientGlue := ⟨exNc, exRc.disconnectWith .byClient⟩

theorem exNc_cinv : NetcodeClient.CInv exNc :=
  ⟨Nat.le_refl _, fun t h => (by cases h), Nat.le_refl _, by decide, by decide⟩

theorem exRc_inv : exRc.Inv := (CI.fromChannels_invP _ _ _).setConnected

/-- **the netcode session is over** (denied, timed out, server's `Disconnect` received, `transport.disconnect()`): the next
    `update` disconnects the `RenetClient` — reason `Transport` unless it already was disconnected — without reading the
    socket or sending, and reports the netcode reason -/
theorem client_netcode_end_reaches_renet {a : AEAD} {g : ClientGlue} {reason : DisconnectReason}
    (hn : g.netcode.disconnectReason = some reason) (d : Nat) (inbox : List Dgram) :
    clientUpdate a g d inbox =
      .ok ⟨.error (.netcode (.disconnected reason)), { g with renet := g.renet.disconnectWith .transport }, #[], inbox⟩ ∧
    (g.renet.disconnectWith .transport).isDisconnected = true ∧
    (g.renet.disconnectWith .transport).status =
      if g.renet.isDisconnected then g.renet.status else .disconnected .transport :=
  ⟨clientUpdate_netcode_disconnected hn d inbox, disconnect_due_to_transport_status g.renet⟩

example : ∃ o, clientUpdate toyAead exC2 1000 [(exSrvAddr, [1, 2, 3])] = .ok o ∧
    o.g.renet.status = .disconnected .transport ∧ o.rest = [(exSrvAddr, [1, 2, 3])] ∧ o.out = #[] := by
  obtain ⟨h1, _, h3⟩ := client_netcode_end_reaches_renet (a := toyAead) (g := exC2) (reason := .connectionTimedOut) rfl
    1000 [(exSrvAddr, [1, 2, 3])]
  exact ⟨_, h1, h3, rfl, rfl⟩

/-- **the application disconnected the `RenetClient`** (or a channel error did): the next `update` always returns, tells
    netcode to disconnect (whatever its state) and sends the `Disconnect` datagram to the server; the socket is not
    read -/
theorem client_app_disconnect_ends_netcode {a : AEAD} {g : ClientGlue} {error : Reason}
    (hn : g.netcode.disconnectReason = none) (hr : g.renet.disconnectReason = some error) (d : Nat) (inbox : List Dgram) :
    ∃ o, clientUpdate a g d inbox = .ok o ∧
      o.g.netcode.disconnectReason = some .disconnectedByClient ∧ o.g.renet = g.renet ∧ o.rest = inbox ∧
      ((∃ pkt, Netcode.Packet.disconnect.encode a C.NETCODE_MAX_PACKET_BYTES g.netcode.connectToken.protocolId
            (some (g.netcode.sequence, g.netcode.connectToken.clientToServerKey)) = .ok pkt ∧
          o.result = .error (.renet error) ∧ o.out = #[(g.netcode.serverAddr, pkt)]) ∨
       (∃ e, o.result = .error (.netcode e) ∧ o.out = #[])) :=
  clientUpdate_app_disconnect_spec hn hr d inbox

example : ∃ o, clientUpdate toyAead exC3 1000 [] = .ok o ∧
    o.g.netcode.disconnectReason = some .disconnectedByClient ∧ o.result = .error (.renet .byClient) ∧ o.out.size = 1 := by
  obtain ⟨o, h, h1, _, _, h4⟩ := client_app_disconnect_ends_netcode (a := toyAead) (g := exC3) (error := .byClient) rfl rfl 1000 []
  have hres : (match clientUpdate toyAead exC3 1000 [] with
      | .ok o => o.out.size | _ => 9) = 1 := by decide +kernel
  rw [h] at hres
  simp only at hres
  rcases h4 with ⟨pkt, _, h5, _⟩ | ⟨e, _, h6⟩
  · exact ⟨o, h, h1, h5, hres⟩
  · rw [h6] at hres; cases hres

/-- **session alive**: the `RenetClient` status is set from netcode's (`Connected` iff netcode is connected, else
    `Connecting`); the payloads netcode surfaces for the datagrams that came from the server address are exactly what is
    fed to `RenetClient::process_packet`, in order (`clientPayloads`, `feedClient`); then the netcode tick, whose
    datagram — if any — is the only thing sent -/
theorem client_alive {a : AEAD} {g : ClientGlue} {d : Nat} {inbox : List Dgram} {o : ClientOut}
    (hn : g.netcode.disconnectReason = none) (hr : g.renet.disconnectReason = none)
    (h : clientUpdate a g d inbox = .ok o) :
    (mirror g).status = (if g.netcode.isConnected then .connected else .connecting) ∧
    ∃ (ps : List Bytes) (nc1 : NetcodeClient) (op : Option (Bytes × Addr)),
      clientPayloads a g.netcode inbox = .ok (ps, nc1) ∧
      Server.feedClient (mirror g) ps = .ok o.g.renet ∧
      nc1.update a d = .ok (op, o.g.netcode) ∧
      o.result = .ok () ∧ o.rest = [] ∧ o.out.toList = op.toList.map (fun x => (x.2, x.1)) :=
  clientUpdate_alive_spec hn hr h

/-- a genuine payload datagram from the server (toy AEAD, server-to-client key, sequence 1) -/
def exDownDgram : Bytes :=
  match (Netcode.Packet.payload [42, 43]).encode toyAead C.NETCODE_MAX_PACKET_BYTES 7 (some (1, [1, 2, 3])) with
  | .ok b => b
  | _ => []

example : ∃ o ps nc1 op, clientUpdate toyAead exC1 1000 [(exAddr, [9]), (exSrvAddr, exDownDgram), (exSrvAddr, [1, 2])] = .ok o ∧
    clientPayloads toyAead exC1.netcode [(exAddr, [9]), (exSrvAddr, exDownDgram), (exSrvAddr, [1, 2])] = .ok (ps, nc1) ∧
    ps = [[42, 43]] ∧ Server.feedClient (mirror exC1) ps = .ok o.g.renet ∧ nc1.update toyAead 1000 = .ok (op, o.g.netcode) := by
  obtain ⟨o, h⟩ := ok_of_isOk
    (x := clientUpdate toyAead exC1 1000 [(exAddr, [9]), (exSrvAddr, exDownDgram), (exSrvAddr, [1, 2])]) (by decide +kernel)
  obtain ⟨_, ps, nc1, op, h1, h2, h3, _⟩ := client_alive (g := exC1) rfl rfl h
  have hps : (match clientPayloads toyAead exC1.netcode [(exAddr, [9]), (exSrvAddr, exDownDgram), (exSrvAddr, [1, 2])] with
      | .ok (ps, _) => ps | _ => []) = [[42, 43]] := by decide +kernel
  rw [h1] at hps
  exact ⟨o, ps, nc1, op, h, h1, hps, h2, h3⟩

/-- `send_packets` (client) is refused while netcode is disconnected: nothing is taken from renet, nothing is sent -/
theorem client_send_refused {a : AEAD} {g : ClientGlue} {reason : DisconnectReason}
    (hn : g.netcode.disconnectReason = some reason) :
    clientSendPackets a g = .ok (.error (.netcode (.disconnected reason)), g, #[]) :=
  clientSendPackets_disconnected hn

example : ∃ r, clientSendPackets toyAead exC2 = .ok (r, exC2, #[]) := ⟨_, client_send_refused (reason := .connectionTimedOut) rfl⟩

/-- **client routing, outbound**: otherwise every datagram sent wraps, in order, a packet `RenetClient::get_packets_to_send`
    returned (`CSealed`); the first netcode error ends the call and is its result -/
theorem client_routing_outbound {a : AEAD} {g g' : ClientGlue} {res : Except TransportError Unit} {out : Array Dgram}
    (hn : g.netcode.disconnectReason = none) (h : clientSendPackets a g = .ok (res, g', out)) :
    ∃ ps e, g.renet.getPacketsToSend = .ok (g'.renet, ps) ∧ CSealed a g.netcode ps out.toList g'.netcode e ∧
      res = match e with | some e => .error (.netcode e) | none => .ok () :=
  clientSendPackets_alive hn h

/-- one message queued on channel 1 -/
def exC1m : ClientGlue :=
  match exRc.sendMessage 1 [1, 2, 3] with
  | .ok rc => ⟨exNc, rc⟩
  | _ => exC1

example : ∃ res g' out ps e, clientSendPackets toyAead exC1m = .ok (res, g', out) ∧ out.size = 1 ∧
    exC1m.renet.getPacketsToSend = .ok (g'.renet, ps) ∧ CSealed toyAead exC1m.netcode ps out.toList g'.netcode e := by
  obtain ⟨⟨res, g', out⟩, h⟩ := ok_of_isOk (x := clientSendPackets toyAead exC1m) (by decide +kernel)
  obtain ⟨ps, e, h1, h2, _⟩ := client_routing_outbound (g := exC1m) rfl h
  have hres : (match clientSendPackets toyAead exC1m with
      | .ok (_, _, o) => o.size | _ => 9) = 1 := by decide +kernel
  rw [h] at hres
  exact ⟨res, g', out, ps, e, h, hres, h1, h2⟩

/-- **`update` (client) never unwinds**, whatever is queued at the socket, while the netcode client and the renet client
    satisfy their invariants, the clock stays below `Duration::MAX` minus the largest time-out and the datagram counter
    below `u64::MAX`; the invariants hold again afterwards -/
theorem client_update_total (a : AEAD) {g : ClientGlue} (d : Nat) (inbox : List Dgram)
    (hc : NetcodeClient.CInv g.netcode) (hi : g.renet.Inv)
    (ht : g.netcode.currentTime + d + NetcodeClient.TIMEOUT_MAX_NS ≤ DURATION_MAX)
    (hseq : g.netcode.sequence + 1 ≤ U64_MAX) :
    ∃ o, clientUpdate a g d inbox = .ok o ∧ NetcodeClient.CInv o.g.netcode ∧ o.g.renet.Inv :=
  clientUpdate_total goodP_winv a d inbox hc hi ht hseq

example (junk : List Dgram) : ∃ o, clientUpdate toyAead exC1 16000000 junk = .ok o ∧ NetcodeClient.CInv o.g.netcode :=
  let ⟨o, h, hc, _⟩ := client_update_total toyAead (g := exC1) 16000000 junk exNc_cinv exRc_inv (by decide +kernel) (by decide)
  ⟨o, h, hc⟩

/-! ## a complete session, both glues, datagram by datagram (toy AEAD, two-slot server)

  The client glue produces the request and the response datagrams, the server glue the challenge and the first
  keep-alive; then a message, a disconnect decided by one side, and what the other side sees. -/

def hsCliAddr : Addr := .v4 [10, 0, 0, 2] 2000

/-- a connect token for client 7 under the server's private key `[9, 9]` -/
def hsTok : ConnectToken :=
  match ConnectToken.generate toyAead 0 7 30 7 5 [exSrvAddr] (List.replicate 256 0) (List.replicate 32 4)
          (List.replicate 32 5) (List.replicate 24 1) [9, 9] with
  | .ok t => t
  | _ => exTok

def hsC0 : ClientGlue :=
  match NetcodeClient.new 0 hsTok with
  | .ok nc => ⟨nc, Conn.fromChannels 60000 exChans exChans⟩
  | _ => exC1

/-- one client `update`: new state and the datagrams sent -/
def cstep (g : ClientGlue) (d : Nat) (inbox : List Dgram) : ClientGlue × List Dgram :=
  match clientUpdate toyAead g d inbox with
  | .ok o => (o.g, o.out.toList)
  | _ => (g, [])

/-- one server `update` -/
def sstep (g : ServerGlue) (d : Nat) (inbox : List Dgram) : ServerGlue × List Dgram :=
  match serverUpdate toyAead g d inbox with
  | .ok (g, out) => (g, out.toList)
  | _ => (g, [])

/-- the relay: what one side sent arrives at the other from the peer's address -/
def up (l : List Dgram) : List Dgram := l.map fun x => (hsCliAddr, x.2)
def down (l : List Dgram) : List Dgram := l.map fun x => (exSrvAddr, x.2)

def c1 := cstep hsC0 1000 []                 -- connection request
def s1 := sstep exG0 1000 (up c1.2)          -- challenge
def c2 := cstep c1.1 1000 (down s1.2)        -- response
def s2 := sstep s1.1 1000 (up c2.2)          -- connected on the server; first keep-alive
def c3 := cstep c2.1 1000 (down s2.2)        -- connected on the client

theorem hs_connected :
    (s2.1.netcode.clientsId, s2.1.renet.clientsId, s2.1.renet.events, c3.1.netcode.isConnected) =
      ([7], [7], [.connected 7], true) := by decide +kernel

/-- the server side of the session as a run of transport and application calls: handshake, a message, `send_packets`,
    `RenetServer::disconnect(7)`, the next `update`, and the application reading its events -/
def hsOps : List GlueOp :=
  [.update 1000 (up c1.2), .update 1000 (up c2.2), .app (.send 7 1 [1, 2, 3]), .sendPackets, .app (.disconnect 7),
   .update 1000 [], .app .getEvent, .app .getEvent]

def obs (x : Res Empty GState) : List Nat × List Nat × List Event × List Event :=
  match x with
  | .ok st => (st.1.netcode.clientsId, st.1.renet.clientsId, st.2, st.1.renet.events)
  | _ => ([99], [], [], [])

/-- the application got exactly `ClientConnected 7`, `ClientDisconnected 7 DisconnectedByServer`; both tables are empty -/
theorem hs_run : obs (runGlue toyAead (exG0, []) hsOps) = ([], [], [.connected 7, .disconnected 7 .byServer], []) := by
  decide +kernel

/-- `lockstep_always`, `events_exactly_once` on this run -/
example : ∃ st, runGlue toyAead (exG0, []) hsOps = .ok st ∧ LockStep st.1 ∧
    SL.Alternates ((SL.eventLog (st.1.renet, st.2)).filter (SL.Event.about 7)) ∧
    (SL.lastIsConnected ((SL.eventLog (st.1.renet, st.2)).filter (SL.Event.about 7)) = true ↔
      7 ∈ st.1.netcode.clientsId) := by
  obtain ⟨st, h⟩ := ok_of_isOk (x := runGlue toyAead (exG0, []) hsOps) (by decide +kernel)
  exact ⟨st, h, (lockstep_always toyAead exNs0_fresh 60000 exChans exChans hsOps st h (by decide)).1,
    events_exactly_once toyAead exNs0_fresh 60000 exChans exChans hsOps st h (by decide) 7⟩

/-- `connected_exactly_always` right after the handshake: both layers report exactly client 7 -/
example : ∃ st, runGlue toyAead (exG0, []) ([.update 1000 (up c1.2)] ++ [.update 1000 (up c2.2)]) = .ok st ∧
    (∀ id, id ∈ st.1.renet.clientsId ↔ id ∈ st.1.netcode.clientsId) ∧ st.1.netcode.clientsId = [7] := by
  obtain ⟨st, h⟩ := ok_of_isOk
    (x := runGlue toyAead (exG0, []) ([.update 1000 (up c1.2)] ++ [.update 1000 (up c2.2)])) (by decide +kernel)
  have hpre : GPre toyAead (exG0, []) ([.update 1000 (up c1.2)] ++ [.update 1000 (up c2.2)]) :=
    gpre_of_b toyAead _ _ (by decide +kernel)
  have hids : (match runGlue toyAead (exG0, []) ([.update 1000 (up c1.2)] ++ [.update 1000 (up c2.2)]) with
      | .ok st => st.1.netcode.clientsId | _ => []) = [7] := by decide +kernel
  rw [h] at hids
  exact ⟨st, h, connected_exactly_always toyAead exNs0_fresh 60000 exChans exChans _ 1000 _ st h hpre, hids⟩

/-- **the server's message layer decides** (`RenetServer::disconnect(7)`): one server `update` frees the netcode slot and
    sends the `Disconnect` datagram; the client's netcode learns `DisconnectedByServer` in its next `update`, its
    `RenetClient` is disconnected (`Transport`) in the one after -/
def s2d : ServerGlue := { s2.1 with renet := s2.1.renet.disconnect 7 }
def s3 := sstep s2d 1000 []
def c4 := cstep c3.1 1000 (down s3.2)
def c5 := cstep c4.1 1000 []

theorem server_decides_both_sides_end :
    (s3.1.netcode.clientsId, s3.1.renet.conns.length, s3.1.renet.events, s3.2.length,
      c4.1.netcode.disconnectReason, c5.1.renet.status) =
    ([], 0, [.connected 7, .disconnected 7 .byServer], 1, some .disconnectedByServer, .disconnected .transport) := by
  decide +kernel

/-- **the client's application decides** (`RenetClient::disconnect()`): the client's next `update` disconnects its netcode
    and sends the `Disconnect` datagram; the server `update` that receives it frees the slot, removes the renet
    connection and reports `ClientDisconnected 7` (reason `Transport`: the connection itself was healthy) -/
def c3d : ClientGlue := { c3.1 with renet := c3.1.renet.disconnectWith .byClient }
def c4' := cstep c3d 1000 []
def s3' := sstep s2.1 1000 (up c4'.2)

theorem client_decides_both_sides_end :
    (c4'.1.netcode.disconnectReason, c4'.2.length, s3'.1.netcode.clientsId, s3'.1.renet.conns.length,
      s3'.1.renet.events) =
    (some .disconnectedByClient, 1, [], 0, [.connected 7, .disconnected 7 .transport]) := by
  decide +kernel

/-- **interference**: the same server `update` fed the genuine response datagram three times, a corrupted copy and a
    truncated copy ends in the same tables and the same single event -/
def noisy (d : Dgram) : List Dgram :=
  [d, d, (d.1, d.2.set 40 (d.2.getD 40 0 + 1)), (d.1, d.2.take 100), d]

theorem duplicates_and_corruption_harmless :
    let s2n := sstep s1.1 1000 ((up c2.2).flatMap noisy)
    (s2n.1.netcode.clientsId, s2n.1.renet.clientsId, s2n.1.renet.events) = ([7], [7], [.connected 7]) := by
  decide +kernel

end RenetVerif.C20
