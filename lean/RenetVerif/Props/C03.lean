/-
  C03 — integrity / fragmentation: every message the application obtains is byte-identical to a
  message submitted on that channel, for every size, whether it travelled alone, packed with others,
  or split into slices arriving in any order with duplicates; a lost slice makes the whole
  (unreliable) message disappear rather than yield a partial or stitched one.

  Reliable channels: corollary of C01/C02 (same adversary model).  Unreliable channel: `UOp`, `urun`,
  `GenuineU` — `S` is the list of all messages ever passed to `send_message` on the channel, `idOf`
  the sender's (injective-by-freshness) numbering of sliced messages.
-/
import RenetVerif.Props.C01
import RenetVerif.Props.C02
namespace RenetVerif.C03
open RenetVerif C DataPath Reasm

/-! #### slicing and reassembly -/

/-- the sender's slices of a message that must be sliced: at least two, all but the last exactly
    `SLICE_SIZE` long, the last between 1 and `SLICE_SIZE`, and concatenated they are the message -/
theorem slicing_exact (m : Bytes) (h : m.length > SLICE_SIZE) :
    let n := divCeil m.length SLICE_SIZE
    2 ≤ n ∧ (∀ i, i < n - 1 → (sliceBytes m n i).length = SLICE_SIZE) ∧
    1 ≤ (sliceBytes m n (n - 1)).length ∧ (sliceBytes m n (n - 1)).length ≤ SLICE_SIZE ∧
    (List.range n).flatMap (sliceBytes m n) = m := by
  intro n
  have hs := shape_divCeil m (by omega)
  exact ⟨two_le_divCeil m h, fun i hi => sliceBytes_length_nonlast hs hi, (sliceBytes_length_last hs).1,
    (sliceBytes_length_last hs).2, flatMap_sliceBytes m (by omega)⟩

/-- Reassembly: a constructor fed only genuine slices of `m` (in any order, with any repetitions — that
    is what `CtorAgrees` records, starting from `agrees_new`) accepts every further genuine slice
    without error; it stays consistent with `m` while incomplete, and it hands out a message exactly
    when every index `0..n-1` is present, and then that message is `m`, byte for byte. -/
theorem reassembly_exact (m : Bytes) (h : m.length > SLICE_SIZE) (c : SliceCtor) (hc : CtorAgrees m c)
    (idx : Nat) (hidx : idx < divCeil m.length SLICE_SIZE) :
    ∃ c' out, c.processSlice idx (sliceBytes m (divCeil m.length SLICE_SIZE) idx) = .ok (c', out) ∧
      c'.received = c.received.set idx true ∧
      (out = none → CtorAgrees m c' ∧ c'.numReceived ≠ c'.numSlices) ∧
      (∀ m', out = some m' → m' = m) ∧
      (out ≠ none ↔ ∀ i, i < divCeil m.length SLICE_SIZE → c'.received[i]? = some true) := by
  obtain ⟨c', out, h1, h2, _, h4, h5, h6⟩ := processSlice_genuine (m := m) (by omega) hc hidx
  exact ⟨c', out, h1, h2, h4, h5, h6⟩

theorem reassembly_start (m : Bytes) : CtorAgrees m (SliceCtor.new (divCeil m.length SLICE_SIZE)) :=
  agrees_new m

/-! #### reliable channels -/

/-- every message obtained from a ReliableOrdered channel is one of the submitted messages -/
theorem reliable_ordered_integrity (L : List Bytes) (ops : List RecvOp) (hg : ∀ op ∈ ops, Genuine L op)
    (maxMem : Nat) : ∀ x ∈ (run (RecvRel.new maxMem true) ops).obtained, x ∈ L :=
  fun _ hx => (C01.obtained_prefix L ops hg maxMem).subset hx

/-- every message obtained from a ReliableUnordered channel is one of the submitted messages -/
theorem reliable_unordered_integrity (L : List Bytes) (ops : List RecvOp) (hg : ∀ op ∈ ops, Genuine L op)
    (maxMem : Nat) : ∀ x ∈ (run (RecvRel.new maxMem false) ops).obtained, x ∈ L :=
  (C02.obtained_submitted L ops hg maxMem).1

/-! #### unreliable channel -/

/-- C03: whatever the network does with genuine entries (loss, duplication, reordering, delays beyond
    the discard timeout), every message ever returned by `receive_message` is an element of `S`. -/
theorem unreliable_integrity (S : List Bytes) (idOf : Nat → Option Bytes) (ch maxMem : Nat)
    (ops : List UOp) (hg : ∀ op ∈ ops, GenuineU S idOf op) :
    ∀ x ∈ (urun (RecvUnrel.new ch maxMem) ops).obtained, x ∈ S :=
  (uinv_run S idOf ch maxMem ops hg).obt

/-- … and so is every message waiting in the queue -/
theorem unreliable_queue_integrity (S : List Bytes) (idOf : Nat → Option Bytes) (ch maxMem : Nat)
    (ops : List UOp) (hg : ∀ op ∈ ops, GenuineU S idOf op) :
    ∀ x ∈ (urun (RecvUnrel.new ch maxMem) ops).r.messages, x ∈ S :=
  (uinv_run S idOf ch maxMem ops hg).msgs

/-- C03: at any reachable state, processing a slice either leaves the queue of complete messages
    untouched, or appends exactly the submitted message `m` the slice belongs to — and the latter only
    if for every index `j < numSlices` the network has handed over slice `j` of that message id
    (earlier in the schedule, or just now).  No partial and no stitched message is ever queued. -/
theorem no_partial (S : List Bytes) (idOf : Nat → Option Bytes) (ch maxMem : Nat)
    (ops : List UOp) (hg : ∀ op ∈ ops, GenuineU S idOf op)
    (sl : Slice) (now : Nat) (g : GenuineU S idOf (.slice sl now)) :
    let st := urun (RecvUnrel.new ch maxMem) ops
    let st' := ustep st (.slice sl now)
    st'.r.messages = st.r.messages ∨
    ∃ m, idOf sl.messageId = some m ∧ m ∈ S ∧ st'.r.messages = st.r.messages ++ [m] ∧
      ∀ j, j < sl.numSlices → ∃ sl' now', UOp.slice sl' now' ∈ ops ++ [.slice sl now] ∧
        sl'.messageId = sl.messageId ∧ sl'.sliceIndex = j := by
  intro st st'
  have hinv : UInv S idOf st := uinv_run S idOf ch maxMem ops hg
  by_cases hd : st.dead = true
  · left
    show (ustep st (.slice sl now)).r.messages = st.r.messages
    unfold ustep; rw [if_pos hd]
  · cases hps : st.r.processSlice sl now with
    | panic s =>
      left
      show (ustep st (.slice sl now)).r.messages = st.r.messages
      unfold ustep; rw [if_neg hd]; dsimp only; rw [hps]
    | err e =>
      left
      show (ustep st (.slice sl now)).r.messages = st.r.messages
      unfold ustep; rw [if_neg hd]; dsimp only; rw [hps]
    | ok r' =>
      have e : st'.r = r' := by
        show (ustep st (.slice sl now)).r = r'
        unfold ustep; rw [if_neg hd]; dsimp only; rw [hps]
      rw [e]
      rcases (uprocessSlice_ok (uinv_of hinv) g hps).2 with hc | ⟨m, hid, hS, hc, hall⟩
      · exact Or.inl hc
      · refine Or.inr ⟨m, hid, hS, hc, ?_⟩
        intro j hj
        have hm := hall j hj
        rw [List.mem_append] at hm
        rcases hm with hm | hm
        · rcases seen_from_ops ops _ _ hm with h0 | ⟨sl', now', hmem, he⟩
          · cases h0
          · simp only [Prod.mk.injEq] at he
            exact ⟨sl', now', List.mem_append_left _ hmem, he.1, he.2⟩
        · simp only [List.mem_singleton, Prod.mk.injEq] at hm
          exact ⟨sl, now, by simp, rfl, hm.2.symm⟩

/-- a lost slice makes the whole message disappear: if some index `j` of the sliced message is never
    handed over, no slice of that message ever pushes anything to the queue -/
theorem lost_slice_lost_message (S : List Bytes) (idOf : Nat → Option Bytes) (ch maxMem : Nat)
    (ops : List UOp) (hg : ∀ op ∈ ops, GenuineU S idOf op)
    (sl : Slice) (now : Nat) (g : GenuineU S idOf (.slice sl now))
    (j : Nat) (hj : j < sl.numSlices)
    (hlost : ∀ sl' now', UOp.slice sl' now' ∈ ops ++ [.slice sl now] →
      ¬ (sl'.messageId = sl.messageId ∧ sl'.sliceIndex = j)) :
    (ustep (urun (RecvUnrel.new ch maxMem) ops) (.slice sl now)).r.messages =
      (urun (RecvUnrel.new ch maxMem) ops).r.messages := by
  rcases no_partial S idOf ch maxMem ops hg sl now g with h | ⟨m, _, _, _, hall⟩
  · exact h
  · obtain ⟨sl', now', hmem, h1, h2⟩ := hall j hj
    exact absurd ⟨h1, h2⟩ (hlost sl' now' hmem)

/-! #### concrete schedules -/
namespace Ex
/- `m0` (3000 bytes, slices `s0 s1 s2`) and `m1` as in `C01.Ex` -/
abbrev m0 : Bytes := C01.Ex.m0
abbrev m1 : Bytes := C01.Ex.m1
abbrev s0 : Slice := C01.Ex.s0
abbrev s1 : Slice := C01.Ex.s1
abbrev s2 : Slice := C01.Ex.s2
def S : List Bytes := [m0, m1]
def idOf : Nat → Option Bytes := fun id => if id = 0 then some m0 else none

theorem gs : ∀ sl ∈ [s0, s1, s2], ∀ now, GenuineU S idOf (.slice sl now) := by
  intro sl h now
  simp only [List.mem_cons, List.not_mem_nil, or_false] at h
  rcases h with rfl | rfl | rfl
  · exact ⟨m0, rfl, by simp [S], C01.Ex.m0_len, C01.Ex.m0_n, by decide, C01.Ex.p0⟩
  · exact ⟨m0, rfl, by simp [S], C01.Ex.m0_len, C01.Ex.m0_n, by decide, C01.Ex.p1⟩
  · exact ⟨m0, rfl, by simp [S], C01.Ex.m0_len, C01.Ex.m0_n, by decide, C01.Ex.p2⟩

/-- reordered and duplicated slices, a small message in between -/
def ops : List UOp :=
  [.slice s2 10, .slice s0 20, .msg m1, .slice s0 30, .recv, .slice s1 40, .recv, .slice s1 50]

theorem genuine : ∀ op ∈ ops, GenuineU S idOf op := by
  intro op h
  simp only [ops, List.mem_cons, List.not_mem_nil, or_false] at h
  rcases h with rfl | rfl | rfl | rfl | rfl | rfl | rfl | rfl <;>
    first
    | exact gs _ (by simp) _
    | trivial
    | (show m1 ∈ S; simp [S])

example : ∀ x ∈ (urun (RecvUnrel.new 0 100000) ops).obtained, x ∈ S :=
  unreliable_integrity S idOf 0 100000 ops genuine
/-- both messages arrive intact; the late duplicate of slice 1 opens a fresh, incomplete reassembly -/
example : (urun (RecvUnrel.new 0 100000) ops).obtained = [m1, m0] ∧
    (urun (RecvUnrel.new 0 100000) ops).dead = false := by decide +kernel

/-- slice 1 is lost; the fragments are discarded after the timeout; nothing is ever obtained, not
    even when slice 0 and 2 are delivered once more afterwards -/
def lossy : List UOp :=
  [.slice s0 10, .slice s2 20, .recv, .discard 4000000000, .slice s2 4000000010, .slice s0 4000000020, .recv]

theorem lossy_genuine : ∀ op ∈ lossy, GenuineU S idOf op := by
  intro op h
  simp only [lossy, List.mem_cons, List.not_mem_nil, or_false] at h
  rcases h with rfl | rfl | rfl | rfl | rfl | rfl | rfl <;>
    first
    | exact gs _ (by simp) _
    | trivial

example : (urun (RecvUnrel.new 0 100000) lossy).obtained = [] ∧
    (urun (RecvUnrel.new 0 100000) lossy).r.messages = [] := by decide +kernel
/-- `lost_slice_lost_message` applies to it (index 1 never occurs) -/
example : (ustep (urun (RecvUnrel.new 0 100000) (lossy.take 5)) (.slice s0 4000000020)).r.messages =
    (urun (RecvUnrel.new 0 100000) (lossy.take 5)).r.messages :=
  lost_slice_lost_message S idOf 0 100000 (lossy.take 5)
    (fun op h => lossy_genuine op (List.mem_of_mem_take h)) s0 4000000020 (gs _ (by simp) _) 1 (by decide)
    (by
      intro sl' now' h
      simp only [lossy, List.take, List.cons_append, List.nil_append, List.mem_cons, List.not_mem_nil, or_false,
        UOp.slice.injEq, reduceCtorEq, false_or, or_false] at h
      rcases h with ⟨rfl, _⟩ | ⟨rfl, _⟩ | ⟨rfl, _⟩ | ⟨rfl, _⟩ | ⟨rfl, _⟩ <;> decide)

/-- reliable corollaries on the C01 / C02 schedules -/
example : ∀ x ∈ (run (RecvRel.new 100000 true) C01.Ex.ops).obtained, x ∈ C01.Ex.L :=
  reliable_ordered_integrity _ _ C01.Ex.genuine _
example : ∀ x ∈ (run (RecvRel.new 100000 false) C02.Ex.ops).obtained, x ∈ C02.Ex.L :=
  reliable_unordered_integrity _ _ C02.Ex.genuine _
/-- `slicing_exact` / `reassembly_exact` hypotheses on the 3000-byte message -/
example : m0.length > SLICE_SIZE := C01.Ex.m0_len
end Ex

end RenetVerif.C03
