/-
  C01 / C02 / C11 — LIVENESS in the multi-client system: the k-ROUND bound, and the direction client → server.

  Props/C11L.lean lifted the ONE-round liveness theorems to the multi-client system `MSys` and left open
    (1) the k-round bound of Props/C01K.lean (per-tick budget smaller than the backlog), whose proof iterated over states
        reachable from `Sys.init`;
    (2) a round theorem for the direction client → server.
  Both are closed here.  Lemmas/MultiLiveK.lean: `GoodK` (= C11L's link invariant `GoodL` plus `InvL`) holds for both
  projections of every untainted link of every reachable `MSys` state (`reachK`), Lemmas/LivenessK.lean is re-proved
  from `GoodK`, and runs of ANY `System.Sys` operations on a projection lift to the view of the client (`lift_down`,
  `lift_up`), which is a function of the client's local trace alone (`view_of_trace_down/up`).

  A FULL LOSSLESS ROUND with parameters `r : RoundP` (`LiveK.RoundP`: `dt`, `ks`, `n`, `ai`), for client `i`, channel `ch`:

    server → client  (`fullRoundFor i ch r`)      srvUpdate r.dt ; srvFlush i ; deliverToCli i k (k ∈ r.ks) ;
                                                   cliRecv i ch (r.n times) ; cliFlush i ; deliverToSrv i r.ai
    client → server  (`fullRoundForU i ch r`)     cliUpdate i r.dt ; cliFlush i ; deliverToSrv i k (k ∈ r.ks) ;
                                                   srvRecv i ch (r.n times) ; srvFlush i ; deliverToCli i r.ai

  the sender's clock advances; the sender flushes; the network of `i` hands the receiver the datagrams of that flush;
  the receiving application drains the channel; the receiver flushes; its last datagram (the ack packet) is handed to
  the sender.  `roundsFor i ch rs` / `roundsForU i ch rs` concatenate the rounds `rs`.

  WHAT IS ASSUMED — about client `i` only, on ANY state `m` reachable by ANY run `ops` of `MSys` (`At P ops m i l`:
  the link `l` of `i` is untainted; other clients hostile, disconnected, removed, stalled …):
    `i` is in the server table, neither end of its link is disconnected, H3 (`Room`: the receiver's channel has room
    for what is logged and has not arrived), and the per-round side conditions `LiveK.Rounds` of Props/C01K.lean on the
    PROJECTION of the link (`dirDown c l` resp. `dirUp c l`) — timer (`dt ≥ resend_time`), drain, counters, `ks` =
    exactly the datagrams of this flush (any order, repetitions allowed), ack-range cap, the way back, and the
    scheduling hypothesis `SchedBytes ch B`: the flush carries only channel `ch` and acks (H4) and offers the channel
    at least `B ≥ SLICE_SIZE` bytes at its turn (H2).  They are decidable on concrete states (`LiveK.rounds_of_b`).
    `k = rs.length ≥ 1` rounds with `k * (B - SLICE_SIZE + 1) ≥ backlog`.
  NOTHING is assumed about any other client: the theorems speak about EVERY operation list `ops'` whose local trace for
  `i` is that of the `k` rounds — the rounds of `i` interleaved with arbitrary operations that concern other clients
  only — and that runs (`m.run ops' = some m''`).  For the direction client → server every operation of a round is
  local to `i`, and that the rounds themselves run without panic is a CONCLUSION (`k_rounds_run_to_server`); for the
  direction server → client the tick is the server's `update`, which advances every slot, so there it is part of the
  hypothesis `m.run ops' = some m''`.

  RESULTS.
    A  k_round_delivery_inv, k_round_delivery_unordered_inv (+ `_single_inv`, `_entries_inv`): Props/C01K from the link
       invariant `GoodK` instead of `Sys.init`-reachability; `k_round_delivery_of_reach`: C01K's theorem is the instance
       `GoodK` of a reachable state.
    B  k_rounds_deliver_to_client (ordered: the client obtains EXACTLY the log `l.subS ch`, in order),
       k_rounds_deliver_to_client_unordered (a permutation); each logged message at least once and at most as often
       as the run addressed it to `i`;  k_rounds_stalled_client_does_not_delay_others.
    C  round_delivers_to_server (one round, H1 as hypothesis, nothing panics), from_one_exactly_once (tick + one round:
       what client `i` submitted is obtained by the server under id `i` exactly: at least once, and — C11E — at most as
       often as `i` submitted it), from_one_exactly_once_unordered, k_rounds_deliver_to_server(_unordered),
       k_rounds_run_to_server.

  NOT PROVED.  As in C01K: tightness of the bound; the `back` side condition and the counter conditions are assumed per
  round.  For the direction server → client, that `srvUpdate` does not panic on OTHER clients' slots is not derived.
-/
import RenetVerif.Lemmas.MultiLiveK
import RenetVerif.Props.C11L
import RenetVerif.Props.C01K
namespace RenetVerif.C01M
open RenetVerif C RenetVerif.System RenetVerif.MultiSystem RenetVerif.Live RenetVerif.LiveK RenetVerif.MultiLive
  RenetVerif.MultiLiveK RenetVerif.C11E RenetVerif.C11L

/-! ## A. the k-round bound from the link invariant -/

/-- **C01 liveness, k rounds, from the invariant.**  `C01K.k_round_delivery` with "reachable from `Sys.init`" replaced
    by `GoodK cfg s`. -/
theorem k_round_delivery_inv (cfg : Cfg) (s : Sys) (hg : GoodK cfg s)
    (hda : s.a.isDisconnected = false) (hdb : s.b.isDisconnected = false)
    (ch : Nat) (ho : cfg.Ordered ch) (sA : SendRel) (hfA : SMap.find? s.a.sendRel ch = some sA)
    (rB : RecvRel) (hfB : SMap.find? s.b.recvRel ch = some rB) (H3 : Room (s.submitted ch) rB)
    (B : Nat) (hSB : SLICE_SIZE ≤ B)
    (rs : List RoundP) (hR : Rounds cfg ch (SchedBytes ch B) s rs)
    (hk1 : rs ≠ []) (hk : backlog sA.unacked ≤ rs.length * (B - SLICE_SIZE + 1)) :
    ∃ u, s.run (roundsOps ch rs) = some u ∧ u.a.isDisconnected = false ∧ u.b.isDisconnected = false ∧
      u.submitted ch = s.submitted ch ∧ u.obtained ch = s.submitted ch :=
  rounds_bytes_any_inv cfg s hg hda hdb ch true ho sA hfA rB hfB H3 B hSB (SchedBytes ch B) (fun _ _ h => h) rs hR hk1 hk

/-- **C02 liveness, k rounds, from the invariant** (ReliableUnordered channel): a permutation. -/
theorem k_round_delivery_unordered_inv (cfg : Cfg) (s : Sys) (hg : GoodK cfg s)
    (hda : s.a.isDisconnected = false) (hdb : s.b.isDisconnected = false)
    (ch : Nat) (ho : cfg.Unordered ch) (sA : SendRel) (hfA : SMap.find? s.a.sendRel ch = some sA)
    (rB : RecvRel) (hfB : SMap.find? s.b.recvRel ch = some rB) (H3 : Room (s.submitted ch) rB)
    (B : Nat) (hSB : SLICE_SIZE ≤ B)
    (rs : List RoundP) (hR : Rounds cfg ch (SchedBytes ch B) s rs)
    (hk1 : rs ≠ []) (hk : backlog sA.unacked ≤ rs.length * (B - SLICE_SIZE + 1)) :
    ∃ u, s.run (roundsOps ch rs) = some u ∧ u.a.isDisconnected = false ∧ u.b.isDisconnected = false ∧
      u.submitted ch = s.submitted ch ∧ (u.obtained ch).Perm (s.submitted ch) :=
  rounds_bytes_any_inv cfg s hg hda hdb ch false ho sA hfA rB hfB H3 B hSB (SchedBytes ch B) (fun _ _ h => h) rs hR hk1 hk

/-- single-channel configuration: `B = available_bytes_per_tick`, no scheduling hypothesis -/
theorem k_round_delivery_single_inv (cfg : Cfg) (s : Sys) (hg : GoodK cfg s)
    (hda : s.a.isDisconnected = false) (hdb : s.b.isDisconnected = false)
    (ch : Nat) (hsingle : Single cfg ch) (sA : SendRel) (hfA : SMap.find? s.a.sendRel ch = some sA)
    (rB : RecvRel) (hfB : SMap.find? s.b.recvRel ch = some rB) (H3 : Room (s.submitted ch) rB)
    (hSB : SLICE_SIZE ≤ cfg.budget)
    (rs : List RoundP) (hR : Rounds cfg ch (fun _ => True) s rs)
    (hk1 : rs ≠ []) (hk : backlog sA.unacked ≤ rs.length * (cfg.budget - SLICE_SIZE + 1)) :
    ∃ u, s.run (roundsOps ch rs) = some u ∧ u.a.isDisconnected = false ∧ u.b.isDisconnected = false ∧
      u.submitted ch = s.submitted ch ∧ u.obtained ch = s.submitted ch :=
  rounds_bytes_any_single_inv cfg s hg hda hdb ch hsingle sA hfA rB hfB H3 hSB rs hR hk1 hk

/-- counting entries: every round covers the `q` oldest entries, `k * q ≥` number of stored entries -/
theorem k_round_delivery_entries_inv (cfg : Cfg) (s : Sys) (hg : GoodK cfg s)
    (hda : s.a.isDisconnected = false) (hdb : s.b.isDisconnected = false)
    (ch : Nat) (ho : cfg.Ordered ch) (sA : SendRel) (hfA : SMap.find? s.a.sendRel ch = some sA)
    (rB : RecvRel) (hfB : SMap.find? s.b.recvRel ch = some rB) (H3 : Room (s.submitted ch) rB)
    (q : Nat) (rs : List RoundP) (hR : Rounds cfg ch (SchedCount ch q) s rs)
    (hk1 : rs ≠ []) (hk : sA.unacked.length ≤ rs.length * q) :
    ∃ u, s.run (roundsOps ch rs) = some u ∧ u.a.isDisconnected = false ∧ u.b.isDisconnected = false ∧
      u.submitted ch = s.submitted ch ∧ u.obtained ch = s.submitted ch :=
  rounds_count_inv cfg s hg hda hdb ch true ho sA hfA rB hfB H3 q rs hR hk1 hk

/-- every state reachable in the two-endpoint system satisfies `GoodK` … -/
theorem goodK_of_reach (cfg : Cfg) (ops : List SysOp) (s : Sys) (hr : (Sys.init cfg).run ops = some s) : GoodK cfg s :=
  goodK_run ops (goodK_init cfg) hr

/-- … so `C01K.k_round_delivery` is an instance of `k_round_delivery_inv` -/
theorem k_round_delivery_of_reach (cfg : Cfg) (ops : List SysOp) (s : Sys) (hr : (Sys.init cfg).run ops = some s)
    (hda : s.a.isDisconnected = false) (hdb : s.b.isDisconnected = false)
    (ch : Nat) (ho : cfg.Ordered ch) (sA : SendRel) (hfA : SMap.find? s.a.sendRel ch = some sA)
    (rB : RecvRel) (hfB : SMap.find? s.b.recvRel ch = some rB) (H3 : Room (s.submitted ch) rB)
    (B : Nat) (hSB : SLICE_SIZE ≤ B)
    (rs : List RoundP) (hR : Rounds cfg ch (SchedBytes ch B) s rs)
    (hk1 : rs ≠ []) (hk : backlog sA.unacked ≤ rs.length * (B - SLICE_SIZE + 1)) :
    ∃ u, s.run (roundsOps ch rs) = some u ∧ u.a.isDisconnected = false ∧ u.b.isDisconnected = false ∧
      u.submitted ch = s.submitted ch ∧ u.obtained ch = s.submitted ch :=
  k_round_delivery_inv cfg s (goodK_of_reach cfg ops s hr) hda hdb ch ho sA hfA rB hfB H3 B hSB rs hR hk1 hk

/-- `k_round_delivery_inv` on the server → client projection of a link, in the vocabulary of the link -/
theorem k_round_delivery_link {P : Params} {c : Conn} {l : Link} (hg : GoodK P.down (dirDown c l))
    (hda : c.isDisconnected = false) (hdb : l.cl.isDisconnected = false)
    (ch : Nat) (ho : P.down.Ordered ch) (sA : SendRel) (hfA : SMap.find? c.sendRel ch = some sA)
    (rB : RecvRel) (hfB : SMap.find? l.cl.recvRel ch = some rB) (H3 : Room (l.subS ch) rB)
    (B : Nat) (hSB : SLICE_SIZE ≤ B)
    (rs : List RoundP) (hR : Rounds P.down ch (SchedBytes ch B) (dirDown c l) rs)
    (hk1 : rs ≠ []) (hk : backlog sA.unacked ≤ rs.length * (B - SLICE_SIZE + 1)) :
    ∃ u, (dirDown c l).run (roundsOps ch rs) = some u ∧ u.a.isDisconnected = false ∧ u.b.isDisconnected = false ∧
      u.submitted ch = l.subS ch ∧ u.obtained ch = l.subS ch :=
  k_round_delivery_inv P.down (dirDown c l) hg hda hdb ch ho sA hfA rB hfB H3 B hSB rs hR hk1 hk

/-- `k_round_delivery_single_inv` / `k_round_delivery_entries_inv` on the client → server projection of a link -/
theorem k_round_delivery_single_link {P : Params} {c : Conn} {l : Link} (hg : GoodK P.up (up ⟨some c, some l⟩ l))
    (hda : l.cl.isDisconnected = false) (hdb : c.isDisconnected = false)
    (ch : Nat) (hsingle : Single P.up ch) (sA : SendRel) (hfA : SMap.find? l.cl.sendRel ch = some sA)
    (rB : RecvRel) (hfB : SMap.find? c.recvRel ch = some rB) (H3 : Room (l.subC ch) rB)
    (hSB : SLICE_SIZE ≤ P.up.budget)
    (rs : List RoundP) (hR : Rounds P.up ch (fun _ => True) (up ⟨some c, some l⟩ l) rs)
    (hk1 : rs ≠ []) (hk : backlog sA.unacked ≤ rs.length * (P.up.budget - SLICE_SIZE + 1)) :
    ∃ u, (up ⟨some c, some l⟩ l).run (roundsOps ch rs) = some u ∧ u.a.isDisconnected = false ∧
      u.b.isDisconnected = false ∧ u.submitted ch = l.subC ch ∧ u.obtained ch = l.subC ch :=
  k_round_delivery_single_inv P.up _ hg hda hdb ch hsingle sA hfA rB hfB H3 hSB rs hR hk1 hk

theorem k_round_delivery_entries_link {P : Params} {c : Conn} {l : Link} (hg : GoodK P.up (up ⟨some c, some l⟩ l))
    (hda : l.cl.isDisconnected = false) (hdb : c.isDisconnected = false)
    (ch : Nat) (ho : P.up.Ordered ch) (sA : SendRel) (hfA : SMap.find? l.cl.sendRel ch = some sA)
    (rB : RecvRel) (hfB : SMap.find? c.recvRel ch = some rB) (H3 : Room (l.subC ch) rB)
    (q : Nat) (rs : List RoundP) (hR : Rounds P.up ch (SchedCount ch q) (up ⟨some c, some l⟩ l) rs)
    (hk1 : rs ≠ []) (hk : sA.unacked.length ≤ rs.length * q) :
    ∃ u, (up ⟨some c, some l⟩ l).run (roundsOps ch rs) = some u ∧ u.a.isDisconnected = false ∧
      u.b.isDisconnected = false ∧ u.submitted ch = l.subC ch ∧ u.obtained ch = l.subC ch :=
  k_round_delivery_entries_inv P.up _ hg hda hdb ch ho sA hfA rB hfB H3 q rs hR hk1 hk

/-- `k_round_delivery_unordered_inv` on the server → client projection of a link -/
theorem k_round_delivery_unordered_link {P : Params} {c : Conn} {l : Link} (hg : GoodK P.down (dirDown c l))
    (hda : c.isDisconnected = false) (hdb : l.cl.isDisconnected = false)
    (ch : Nat) (ho : P.down.Unordered ch) (sA : SendRel) (hfA : SMap.find? c.sendRel ch = some sA)
    (rB : RecvRel) (hfB : SMap.find? l.cl.recvRel ch = some rB) (H3 : Room (l.subS ch) rB)
    (B : Nat) (hSB : SLICE_SIZE ≤ B)
    (rs : List RoundP) (hR : Rounds P.down ch (SchedBytes ch B) (dirDown c l) rs)
    (hk1 : rs ≠ []) (hk : backlog sA.unacked ≤ rs.length * (B - SLICE_SIZE + 1)) :
    ∃ u, (dirDown c l).run (roundsOps ch rs) = some u ∧ u.a.isDisconnected = false ∧ u.b.isDisconnected = false ∧
      u.submitted ch = l.subS ch ∧ (u.obtained ch).Perm (l.subS ch) :=
  k_round_delivery_unordered_inv P.down (dirDown c l) hg hda hdb ch ho sA hfA rB hfB H3 B hSB rs hR hk1 hk

/-! ## the rounds as `MSys` operation lists -/

/-- direction client → server as a state of the two-endpoint system, for the table entry `c` and the link `l`
    (`C11E.projUp m i l` when `conn? m.server i = some c`): A = the remote endpoint `l.cl`, B = `c` -/
def dirUp (c : Conn) (l : Link) : Sys := up ⟨some c, some l⟩ l

theorem projUp_eq {m : MSys} {i : Nat} {c : Conn} {l : Link} (hc : conn? m.server i = some c) (hl : m.links i = some l) :
    projUp m i l = dirUp c l := by
  unfold projUp dirUp MSys.view; rw [hc, hl]

/-- one full lossless round for client `i`, direction server → client -/
def fullRoundFor (i ch : Nat) (r : RoundP) : List MOp :=
  .srvUpdate r.dt :: .srvFlush i :: (r.ks.map (MOp.deliverToCli i) ++ List.replicate r.n (.cliRecv i ch) ++
    [.cliFlush i, .deliverToSrv i r.ai])

/-- one full lossless round for client `i`, direction client → server -/
def fullRoundForU (i ch : Nat) (r : RoundP) : List MOp :=
  .cliUpdate i r.dt :: .cliFlush i :: (r.ks.map (MOp.deliverToSrv i) ++ List.replicate r.n (.srvRecv i ch) ++
    [.srvFlush i, .deliverToCli i r.ai])

def roundsFor (i ch : Nat) : List RoundP → List MOp
  | [] => []
  | r :: rs => fullRoundFor i ch r ++ roundsFor i ch rs

def roundsForU (i ch : Nat) : List RoundP → List MOp
  | [] => []
  | r :: rs => fullRoundForU i ch r ++ roundsForU i ch rs

/-- the forward leg of a round, direction client → server -/
def roundForU (i ch : Nat) (ks : List Nat) (n : Nat) : List MOp :=
  .cliFlush i :: (ks.map (MOp.deliverToSrv i) ++ List.replicate n (.srvRecv i ch))

theorem fullRound_map (i ch : Nat) (r : RoundP) : (r.ops ch).map (mop i) = fullRoundFor i ch r := by
  simp [RoundP.ops, fullRoundOps, roundOps, fullRoundFor, mop, List.map_replicate, Function.comp_def]

theorem fullRound_mapU (i ch : Nat) (r : RoundP) : (r.ops ch).map (mopU i) = fullRoundForU i ch r := by
  simp [RoundP.ops, fullRoundOps, roundOps, fullRoundForU, mopU, List.map_replicate, Function.comp_def]

theorem rounds_map (i ch : Nat) : ∀ rs : List RoundP, (roundsOps ch rs).map (mop i) = roundsFor i ch rs
  | [] => rfl
  | r :: rs => by simp only [roundsOps, roundsFor, List.map_append, fullRound_map, rounds_map i ch rs]

theorem rounds_mapU (i ch : Nat) : ∀ rs : List RoundP, (roundsOps ch rs).map (mopU i) = roundsForU i ch rs
  | [] => rfl
  | r :: rs => by simp only [roundsOps, roundsForU, List.map_append, fullRound_mapU, rounds_mapU i ch rs]

theorem roundOps_mapU (i ch : Nat) (ks : List Nat) (n : Nat) : (roundOps ch ks n).map (mopU i) = roundForU i ch ks n := by
  simp [roundOps, roundForU, mopU, List.map_replicate, Function.comp_def]

theorem trace_rounds (i ch : Nat) (rs : List RoundP) : trace i (roundsFor i ch rs) = (roundsOps ch rs).map lact := by
  rw [← rounds_map, trace_map_mop]

theorem trace_roundsU (i ch : Nat) (rs : List RoundP) : trace i (roundsForU i ch rs) = (roundsOps ch rs).map lactU := by
  rw [← rounds_mapU, trace_map_mopU]

theorem roundsOps_localU (ch : Nat) : ∀ (rs : List RoundP), ∀ o ∈ roundsOps ch rs, LocalU o
  | [], o, ho => by cases ho
  | r :: rs, o, ho => by
    simp only [roundsOps, List.mem_append] at ho
    rcases ho with ho | ho
    · simp only [RoundP.ops, fullRoundOps, roundOps, List.mem_cons, List.mem_append, List.mem_map, List.mem_replicate,
        List.not_mem_nil, or_false] at ho
      rcases ho with rfl | (rfl | ⟨k, -, rfl⟩ | ⟨-, rfl⟩) | rfl | rfl <;> trivial
    · exact roundsOps_localU ch rs o ho

theorem count_facts {obt sub adr : List Bytes} (ord : Bool) (hd : Delivered ord obt sub) (hs : sub.Sublist adr) :
    ∀ x ∈ sub, 1 ≤ obt.count x ∧ obt.count x ≤ adr.count x := by
  intro x hx
  have e : obt.count x = sub.count x := by
    cases ord with
    | true => have : obt = sub := hd; rw [this]
    | false => have : obt.Perm sub := hd; exact this.count_eq x
  rw [e]
  exact ⟨List.count_pos_iff.mpr hx, hs.count_le x⟩

section Theorems
variable {P : Params} {ops : List MOp} {m : MSys} {i : Nat} {l : Link}

/-! ## B. k rounds, server → client -/

/-- both channel kinds at once -/
theorem k_rounds_to_client_gen (h : At P ops m i l) (c : Conn) (hconn : conn? m.server i = some c)
    (hda : c.isDisconnected = false) (hdb : l.cl.isDisconnected = false)
    (ch : Nat) (ord : Bool) (ho : KindOf P.down ch ord) (sA : SendRel) (hfA : SMap.find? c.sendRel ch = some sA)
    (rB : RecvRel) (hfB : SMap.find? l.cl.recvRel ch = some rB) (H3 : Room (l.subS ch) rB)
    (B : Nat) (hSB : SLICE_SIZE ≤ B)
    (rs : List RoundP) (hR : Rounds P.down ch (SchedBytes ch B) (dirDown c l) rs)
    (hk1 : rs ≠ []) (hk : backlog sA.unacked ≤ rs.length * (B - SLICE_SIZE + 1))
    (ops' : List MOp) (ht : trace i ops' = trace i (roundsFor i ch rs))
    (m'' : MSys) (hr : m.run ops' = some m'') :
    ∃ c'' l'', conn? m''.server i = some c'' ∧ m''.links i = some l'' ∧ c''.isDisconnected = false ∧
      l''.cl.isDisconnected = false ∧ l''.tainted = false ∧ l''.subS ch = l.subS ch ∧
      Delivered ord (l''.obtC ch) (l.subS ch) ∧
      ∀ x ∈ l.subS ch, 1 ≤ (l''.obtC ch).count x ∧ (l''.obtC ch).count x ≤ (addressedTo i ch ops).count x := by
  have hw := reach_wf P ops m h.run
  have r := reachK P ops m h.run i l h.link h.clean
  have hv : m.view i = ⟨some c, some l⟩ := by unfold MSys.view; rw [hconn, h.link]
  have g0 : GoodK P.down (dirDown c l) := by have := r.goodD; rw [hv] at this; exact this
  obtain ⟨u, hu, a1, a2, a3, a4⟩ := rounds_bytes_any_inv P.down (dirDown c l) g0 hda hdb ch ord ho sA hfA rB hfB H3 B hSB
    (SchedBytes ch B) (fun _ _ h => h) rs hR hk1 hk
  rw [trace_rounds] at ht
  obtain ⟨l', b1, b2, b3⟩ := view_of_trace_down hw hconn h.link (roundsOps ch rs) u hu ops' ht hr
  have e1 : l'.cl = u.b := congrArg Sys.b b2
  have e2 : l'.subS = u.submitted := congrArg Sys.submitted b2
  have e3 : l'.obtC = u.obtained := congrArg Sys.obtained b2
  have hd : Delivered ord (l'.obtC ch) (l.subS ch) := by rw [e3]; exact a4
  exact ⟨u.a, l', congrArg LV.conn b1, congrArg LV.link b1, a1, by rw [e1]; exact a2, b3.trans h.clean,
    by rw [e2]; exact a3, hd, count_facts ord hd ((reach P ops m h.run i l h.link h.clean).subS ch)⟩

/-- **k lossless rounds for client `i` alone deliver everything addressed to it (ReliableOrdered).**  From ANY
    reachable state `m`, for every client `i` whose link is untainted and live on both ends: run `k = rs.length ≥ 1` full
    lossless rounds for client `i` ALONE — in ANY interleaving `ops'` with operations that concern other clients only.
    If every round offers channel `ch` at least `B ≥ SLICE_SIZE` bytes and carries nothing else (the side conditions
    `Rounds … (SchedBytes ch B)` of `C01K.k_round_delivery`, on the projection of the link of `i`), and
    `k * (B - SLICE_SIZE + 1) ≥ backlog`, then afterwards both ends of the link are live and client `i` has obtained
    EXACTLY the messages addressed to it (the log `l.subS ch`, `C11L.addressed_is_logged`), in order — sliced messages
    larger than the per-tick budget included —: each at least once, none more often than the run addressed it to `i`. -/
theorem k_rounds_deliver_to_client (h : At P ops m i l) (c : Conn) (hconn : conn? m.server i = some c)
    (hda : c.isDisconnected = false) (hdb : l.cl.isDisconnected = false)
    (ch : Nat) (ho : P.down.Ordered ch) (sA : SendRel) (hfA : SMap.find? c.sendRel ch = some sA)
    (rB : RecvRel) (hfB : SMap.find? l.cl.recvRel ch = some rB) (H3 : Room (l.subS ch) rB)
    (B : Nat) (hSB : SLICE_SIZE ≤ B)
    (rs : List RoundP) (hR : Rounds P.down ch (SchedBytes ch B) (dirDown c l) rs)
    (hk1 : rs ≠ []) (hk : backlog sA.unacked ≤ rs.length * (B - SLICE_SIZE + 1))
    (ops' : List MOp) (ht : trace i ops' = trace i (roundsFor i ch rs))
    (m'' : MSys) (hr : m.run ops' = some m'') :
    ∃ c'' l'', conn? m''.server i = some c'' ∧ m''.links i = some l'' ∧ c''.isDisconnected = false ∧
      l''.cl.isDisconnected = false ∧ l''.tainted = false ∧ l''.subS ch = l.subS ch ∧ l''.obtC ch = l.subS ch ∧
      ∀ x ∈ l.subS ch, 1 ≤ (l''.obtC ch).count x ∧ (l''.obtC ch).count x ≤ (addressedTo i ch ops).count x :=
  k_rounds_to_client_gen h c hconn hda hdb ch true ho sA hfA rB hfB H3 B hSB rs hR hk1 hk ops' ht m'' hr

/-- **The same on a ReliableUnordered channel (C02):** the client has obtained a PERMUTATION of the log. -/
theorem k_rounds_deliver_to_client_unordered (h : At P ops m i l) (c : Conn) (hconn : conn? m.server i = some c)
    (hda : c.isDisconnected = false) (hdb : l.cl.isDisconnected = false)
    (ch : Nat) (ho : P.down.Unordered ch) (sA : SendRel) (hfA : SMap.find? c.sendRel ch = some sA)
    (rB : RecvRel) (hfB : SMap.find? l.cl.recvRel ch = some rB) (H3 : Room (l.subS ch) rB)
    (B : Nat) (hSB : SLICE_SIZE ≤ B)
    (rs : List RoundP) (hR : Rounds P.down ch (SchedBytes ch B) (dirDown c l) rs)
    (hk1 : rs ≠ []) (hk : backlog sA.unacked ≤ rs.length * (B - SLICE_SIZE + 1))
    (ops' : List MOp) (ht : trace i ops' = trace i (roundsFor i ch rs))
    (m'' : MSys) (hr : m.run ops' = some m'') :
    ∃ c'' l'', conn? m''.server i = some c'' ∧ m''.links i = some l'' ∧ c''.isDisconnected = false ∧
      l''.cl.isDisconnected = false ∧ l''.tainted = false ∧ l''.subS ch = l.subS ch ∧ (l''.obtC ch).Perm (l.subS ch) ∧
      ∀ x ∈ l.subS ch, 1 ≤ (l''.obtC ch).count x ∧ (l''.obtC ch).count x ≤ (addressedTo i ch ops).count x :=
  k_rounds_to_client_gen h c hconn hda hdb ch false ho sA hfA rB hfB H3 B hSB rs hR hk1 hk ops' ht m'' hr

/-- **A stalled or misbehaving client does not delay the others, k rounds.**  The hypotheses on client `i` are stated
    on the reachable state `m`; then ANYTHING happens to the other clients first (`opsJ`: operations whose target is a
    client `j ≠ i`), and the `k` rounds of `i` are interleaved with more of the same (`ops'`): the outcome for `i` is
    that of `k_rounds_deliver_to_client`. -/
theorem k_rounds_stalled_client_does_not_delay_others (h : At P ops m i l) (c : Conn) (hconn : conn? m.server i = some c)
    (hda : c.isDisconnected = false) (hdb : l.cl.isDisconnected = false)
    (ch : Nat) (ho : P.down.Ordered ch) (sA : SendRel) (hfA : SMap.find? c.sendRel ch = some sA)
    (rB : RecvRel) (hfB : SMap.find? l.cl.recvRel ch = some rB) (H3 : Room (l.subS ch) rB)
    (B : Nat) (hSB : SLICE_SIZE ≤ B)
    (rs : List RoundP) (hR : Rounds P.down ch (SchedBytes ch B) (dirDown c l) rs)
    (hk1 : rs ≠ []) (hk : backlog sA.unacked ≤ rs.length * (B - SLICE_SIZE + 1))
    (opsJ : List MOp) (hJ : ∀ op ∈ opsJ, ∃ j, target op = some j ∧ j ≠ i) (mJ : MSys) (hrJ : m.run opsJ = some mJ)
    (ops' : List MOp) (ht : trace i ops' = trace i (roundsFor i ch rs))
    (m'' : MSys) (hr : mJ.run ops' = some m'') :
    mJ.view i = m.view i ∧
    ∃ c'' l'', conn? m''.server i = some c'' ∧ m''.links i = some l'' ∧ c''.isDisconnected = false ∧
      l''.cl.isDisconnected = false ∧ l''.tainted = false ∧ l''.subS ch = l.subS ch ∧ l''.obtC ch = l.subS ch ∧
      ∀ x ∈ l.subS ch, 1 ≤ (l''.obtC ch).count x ∧ (l''.obtC ch).count x ≤ (addressedTo i ch ops).count x := by
  have hvJ : mJ.view i = m.view i := faults_are_local_run i h.run hrJ hJ
  have hAt : At P (ops ++ opsJ) mJ i l := by
    refine ⟨?_, ?_, h.clean⟩
    · rw [MSys.run_append, h.run]; exact hrJ
    · have := congrArg LV.link hvJ
      exact this.trans h.link
  have hconnJ : conn? mJ.server i = some c := (congrArg LV.conn hvJ).trans hconn
  have hnil : addressedTo i ch opsJ = [] := by
    apply addressedTo_nil_of_skip
    intro op hop
    obtain ⟨j, hj, hne⟩ := hJ op hop
    exact act_skip_of_target hj hne
  have := k_rounds_deliver_to_client hAt c hconnJ hda hdb ch ho sA hfA rB hfB H3 B hSB rs hR hk1 hk ops' ht m'' hr
  unfold addressedTo at this hnil
  rw [List.flatMap_append, hnil, List.append_nil] at this
  exact ⟨hvJ, this⟩

/-! ## C. client → server -/

/-- the indices the datagrams of the next flush of the remote endpoint `cl` get in the emission history `l.outC` -/
def flushIdxU (l : Link) (cl : Conn) : List Nat := List.range' l.outC.length (flushPk cl).length

/-- **One lossless round for client `i` alone, client → server (ReliableOrdered; H1 as a hypothesis).**  From any
    reachable state: client `i` flushes, its network hands exactly the datagrams of that flush to the server as
    coming from `i` (any order, repetitions allowed), the server application asks `n` times for a message of `i` on
    `ch`.  The operations do not panic, both ends of the link stay live, the server has obtained under id `i` exactly
    the log `l.subC ch` of what client `i`'s application submitted (and the reliable channel accepted), in order — and
    every operation list with the same local trace for `i` ends in the same view of `i`. -/
theorem round_delivers_to_server (h : At P ops m i l) (c : Conn) (hconn : conn? m.server i = some c)
    (hc : CountersOK P.up (dirUp c l)) (hcA : l.cl.CountersOK)
    (hda : l.cl.isDisconnected = false) (hdb : c.isDisconnected = false)
    (ch : Nat) (ho : P.up.Ordered ch) (sA : SendRel) (hfA : SMap.find? l.cl.sendRel ch = some sA)
    (rB : RecvRel) (hfB : SMap.find? c.recvRel ch = some rB)
    (H1 : AllDue l.cl.now sA.resend sA.unacked) (H2 : backlog sA.unacked ≤ availAtTurn l.cl ch)
    (H3 : Room (l.subC ch) rB) (H4 : ∀ p ∈ flushPk l.cl, OnlyCh ch p)
    (ks : List Nat) (hks1 : ∀ k ∈ flushIdxU l l.cl, k ∈ ks) (hks2 : ∀ k ∈ ks, k ∈ flushIdxU l l.cl)
    (n : Nat) (hn : (l.subC ch).length ≤ (l.obtS ch).length + n) :
    ∃ m' c' l', m.run (roundForU i ch ks n) = some m' ∧ conn? m'.server i = some c' ∧ m'.links i = some l' ∧
      c'.isDisconnected = false ∧ l'.cl.isDisconnected = false ∧ l'.tainted = false ∧ l'.subC = l.subC ∧
      l'.obtS ch = l.subC ch ∧
      ∀ ops' m'', trace i ops' = trace i (roundForU i ch ks n) → m.run ops' = some m'' → m''.view i = m'.view i := by
  have hw := reach_wf P ops m h.run
  have r := reachL P ops m h.run i l h.link h.clean
  have hv : m.view i = ⟨some c, some l⟩ := by unfold MSys.view; rw [hconn, h.link]
  have g0 : GoodL P.up (dirUp c l) := by have := r.goodU; rw [hv] at this; exact this
  obtain ⟨pkA, hA, -⟩ := allInv_of_goodL g0 hc
  obtain ⟨u, hu, a1, a2, a3, a4⟩ := round_delivers_inv (s := dirUp c l) hA hc hcA hda hdb ch ho sA hfA rB hfB H1 H2 H3 H4
    ks hks1 hks2 n hn
  have hloc : ∀ o ∈ roundOps ch ks n, LocalU o := by
    intro o ho
    simp only [roundOps, List.mem_cons, List.mem_append, List.mem_map, List.mem_replicate] at ho
    rcases ho with rfl | ⟨k, -, rfl⟩ | ⟨-, rfl⟩ <;> trivial
  obtain ⟨m', l', hr, hv', b2, b3⟩ := run_local_up hw hconn h.link (roundOps ch ks n) hloc u hu
  rw [roundOps_mapU] at hr
  have e1 : l'.cl = u.a := congrArg Sys.a b2
  have e2 : l'.subC = u.submitted := congrArg Sys.submitted b2
  have e3 : l'.obtS = u.obtained := congrArg Sys.obtained b2
  refine ⟨m', u.b, l', hr, congrArg LV.conn hv', congrArg LV.link hv', a2, by rw [e1]; exact a1, b3.trans h.clean,
    by rw [e2]; exact a3, by rw [e3]; exact a4, ?_⟩
  intro ops' m'' ht hr''
  exact run_agree i hw hw rfl hr'' hr ht

/-- both channel kinds at once: the tick of client `i` and one lossless round, interleaved with anything -/
theorem from_one_gen (h : At P ops m i l) (c : Conn) (hconn : conn? m.server i = some c)
    (hda : l.cl.isDisconnected = false) (hdb : c.isDisconnected = false)
    (ch : Nat) (ord : Bool) (ho : KindOf P.up ch ord) (sA : SendRel) (hfA : SMap.find? l.cl.sendRel ch = some sA)
    (rB : RecvRel) (hfB : SMap.find? c.recvRel ch = some rB)
    (dt : Nat) (hdt : sA.resend ≤ dt) (clu : Conn) (hclu : l.cl.update dt = .ok clu)
    (hc : CountersOK P.up (dirUp c { l with cl := clu })) (hcA : clu.CountersOK)
    (H2 : backlog sA.unacked ≤ availAtTurn clu ch) (H3 : Room (l.subC ch) rB) (H4 : ∀ p ∈ flushPk clu, OnlyCh ch p)
    (ks : List Nat) (hks1 : ∀ k ∈ flushIdxU l clu, k ∈ ks) (hks2 : ∀ k ∈ ks, k ∈ flushIdxU l clu)
    (n : Nat) (hn : (l.subC ch).length ≤ (l.obtS ch).length + n) :
    (∃ m', m.run (.cliUpdate i dt :: roundForU i ch ks n) = some m') ∧
    ∀ (ops' : List MOp), trace i ops' = trace i (.cliUpdate i dt :: roundForU i ch ks n) →
      ∀ (m'' : MSys), m.run ops' = some m'' →
      ∃ c'' l'', conn? m''.server i = some c'' ∧ m''.links i = some l'' ∧ c''.isDisconnected = false ∧
        l''.cl.isDisconnected = false ∧ l''.tainted = false ∧ l''.subC = l.subC ∧
        Delivered ord (l''.obtS ch) (l.subC ch) ∧
        ∀ x ∈ l.subC ch, 1 ≤ (l''.obtS ch).count x ∧ (l''.obtS ch).count x ≤ (sentBy i ch ops).count x := by
  have hw := reach_wf P ops m h.run
  have r := reachL P ops m h.run i l h.link h.clean
  have hv : m.view i = ⟨some c, some l⟩ := by unfold MSys.view; rw [hconn, h.link]
  have g0 : GoodL P.up (dirUp c l) := by have := r.goodU; rw [hv] at this; exact this
  have hs : (dirUp c l).step (.updA dt) = some (dirUp c { l with cl := clu }) := by
    simp only [Sys.step, dirUp, up, LV.srv, Option.getD_some, hclu]
  have g1 : GoodL P.up (dirUp c { l with cl := clu }) := goodL_step g0 hs
  obtain ⟨pk0, i1, -⟩ := id g0
  obtain ⟨hfu, hdue⟩ := due_after_update_inv i1 ch sA hfA dt hdt _ hs
  obtain ⟨-, -, e3, -⟩ := updA_frame hs
  obtain ⟨pkA, hA, hF⟩ := allInv_of_goodL g1 hc
  have hlive : (dirUp c { l with cl := clu }).a.isDisconnected = false := e3.trans hda
  -- the round on the projection, for either channel kind
  have key : ∃ u, (dirUp c { l with cl := clu }).run (roundOps ch ks n) = some u ∧ u.a.isDisconnected = false ∧
      u.b.isDisconnected = false ∧ u.submitted = l.subC ∧ Delivered ord (u.obtained ch) (l.subC ch) := by
    cases ord with
    | true =>
      exact round_delivers_inv (s := dirUp c { l with cl := clu }) hA hc hcA hlive hdb ch ho sA hfu rB hfB hdue H2 H3 H4
        ks hks1 hks2 n hn
    | false =>
      exact round_delivers_unordered_live_inv (s := dirUp c { l with cl := clu }) hA hF hc hcA hlive hdb ch ho sA hfu rB hfB
        hdue H2 H3 H4 ks hks1 hks2 n hn
  obtain ⟨u, hu, a1, a2, a3, a4⟩ := key
  have hrun : (dirUp c l).run (SysOp.updA dt :: roundOps ch ks n) = some u := by
    simp only [Sys.run, hs]; exact hu
  have hmap : (SysOp.updA dt :: roundOps ch ks n).map (mopU i) = .cliUpdate i dt :: roundForU i ch ks n := by
    rw [List.map_cons, roundOps_mapU]; rfl
  have hloc : ∀ o ∈ SysOp.updA dt :: roundOps ch ks n, LocalU o := by
    intro o ho
    simp only [roundOps, List.mem_cons, List.mem_append, List.mem_map, List.mem_replicate] at ho
    rcases ho with rfl | rfl | ⟨k, -, rfl⟩ | ⟨-, rfl⟩ <;> trivial
  refine ⟨?_, ?_⟩
  · obtain ⟨m', l', hr, -⟩ := run_local_up hw hconn h.link _ hloc u hrun
    rw [hmap] at hr
    exact ⟨m', hr⟩
  · intro ops' ht m'' hr
    rw [← hmap, trace_map_mopU] at ht
    obtain ⟨l', b1, b2, b3⟩ := view_of_trace_up hw hconn h.link _ u hrun ops' ht hr
    have e1 : l'.cl = u.a := congrArg Sys.a b2
    have e2 : l'.subC = u.submitted := congrArg Sys.submitted b2
    have e3 : l'.obtS = u.obtained := congrArg Sys.obtained b2
    have hd : Delivered ord (l'.obtS ch) (l.subC ch) := by rw [e3]; exact a4
    exact ⟨u.b, l', congrArg LV.conn b1, congrArg LV.link b1, a2, by rw [e1]; exact a1, b3.trans h.clean,
      by rw [e2]; exact a3, hd, count_facts ord hd ((reach P ops m h.run i l h.link h.clean).subC ch)⟩

/-- **What client `i` submitted is obtained by the server under id `i` EXACTLY ONCE (ReliableOrdered).**  From ANY
    reachable state `m`, client `i` untainted, in the table, both ends of its link live: let client `i`'s clock advance
    by `dt ≥ resend_time` (`cliUpdate i dt`) and run ONE lossless round client → server for `i` alone, in ANY
    interleaving `ops'` with operations that concern other clients only.  Under the hypotheses of
    `C01L.bounded_delivery` for this direction of the link — counters, H2 (budget covers the backlog), H3 (room at the
    server's receive channel), H4 (the flush carries only `ch` and acks), `ks` = exactly the datagrams of the flush —
    the round itself does not panic, and afterwards both ends are live and the server application has obtained under
    id `i` EXACTLY the log `l.subC ch`, in order: every logged message at least once (liveness), and at most as often
    as client `i` submitted it in the run (`C11E.from_one_at_most_once` / `from_one_under_its_id`: the log is a
    sub-sequence of `sentBy i ch ops`). -/
theorem from_one_exactly_once (h : At P ops m i l) (c : Conn) (hconn : conn? m.server i = some c)
    (hda : l.cl.isDisconnected = false) (hdb : c.isDisconnected = false)
    (ch : Nat) (ho : P.up.Ordered ch) (sA : SendRel) (hfA : SMap.find? l.cl.sendRel ch = some sA)
    (rB : RecvRel) (hfB : SMap.find? c.recvRel ch = some rB)
    (dt : Nat) (hdt : sA.resend ≤ dt) (clu : Conn) (hclu : l.cl.update dt = .ok clu)
    (hc : CountersOK P.up (dirUp c { l with cl := clu })) (hcA : clu.CountersOK)
    (H2 : backlog sA.unacked ≤ availAtTurn clu ch) (H3 : Room (l.subC ch) rB) (H4 : ∀ p ∈ flushPk clu, OnlyCh ch p)
    (ks : List Nat) (hks1 : ∀ k ∈ flushIdxU l clu, k ∈ ks) (hks2 : ∀ k ∈ ks, k ∈ flushIdxU l clu)
    (n : Nat) (hn : (l.subC ch).length ≤ (l.obtS ch).length + n)
    (ops' : List MOp) (ht : trace i ops' = trace i (.cliUpdate i dt :: roundForU i ch ks n))
    (m'' : MSys) (hr : m.run ops' = some m'') :
    (∃ m', m.run (.cliUpdate i dt :: roundForU i ch ks n) = some m') ∧
    ∃ c'' l'', conn? m''.server i = some c'' ∧ m''.links i = some l'' ∧ c''.isDisconnected = false ∧
      l''.cl.isDisconnected = false ∧ l''.tainted = false ∧ l''.subC = l.subC ∧ l''.obtS ch = l.subC ch ∧
      ∀ x ∈ l.subC ch, 1 ≤ (l''.obtS ch).count x ∧ (l''.obtS ch).count x ≤ (sentBy i ch ops).count x := by
  obtain ⟨p1, p2⟩ := from_one_gen h c hconn hda hdb ch true ho sA hfA rB hfB dt hdt clu hclu hc hcA H2 H3 H4 ks hks1 hks2 n hn
  exact ⟨p1, p2 ops' ht m'' hr⟩

/-- **The same on a ReliableUnordered channel:** a permutation of the log. -/
theorem from_one_exactly_once_unordered (h : At P ops m i l) (c : Conn) (hconn : conn? m.server i = some c)
    (hda : l.cl.isDisconnected = false) (hdb : c.isDisconnected = false)
    (ch : Nat) (ho : P.up.Unordered ch) (sA : SendRel) (hfA : SMap.find? l.cl.sendRel ch = some sA)
    (rB : RecvRel) (hfB : SMap.find? c.recvRel ch = some rB)
    (dt : Nat) (hdt : sA.resend ≤ dt) (clu : Conn) (hclu : l.cl.update dt = .ok clu)
    (hc : CountersOK P.up (dirUp c { l with cl := clu })) (hcA : clu.CountersOK)
    (H2 : backlog sA.unacked ≤ availAtTurn clu ch) (H3 : Room (l.subC ch) rB) (H4 : ∀ p ∈ flushPk clu, OnlyCh ch p)
    (ks : List Nat) (hks1 : ∀ k ∈ flushIdxU l clu, k ∈ ks) (hks2 : ∀ k ∈ ks, k ∈ flushIdxU l clu)
    (n : Nat) (hn : (l.subC ch).length ≤ (l.obtS ch).length + n)
    (ops' : List MOp) (ht : trace i ops' = trace i (.cliUpdate i dt :: roundForU i ch ks n))
    (m'' : MSys) (hr : m.run ops' = some m'') :
    (∃ m', m.run (.cliUpdate i dt :: roundForU i ch ks n) = some m') ∧
    ∃ c'' l'', conn? m''.server i = some c'' ∧ m''.links i = some l'' ∧ c''.isDisconnected = false ∧
      l''.cl.isDisconnected = false ∧ l''.tainted = false ∧ l''.subC = l.subC ∧ (l''.obtS ch).Perm (l.subC ch) ∧
      ∀ x ∈ l.subC ch, 1 ≤ (l''.obtS ch).count x ∧ (l''.obtS ch).count x ≤ (sentBy i ch ops).count x := by
  obtain ⟨p1, p2⟩ := from_one_gen h c hconn hda hdb ch false ho sA hfA rB hfB dt hdt clu hclu hc hcA H2 H3 H4 ks hks1 hks2 n hn
  exact ⟨p1, p2 ops' ht m'' hr⟩

/-- k rounds client → server, both channel kinds at once; that the rounds of `i` run without panic is a conclusion -/
theorem k_rounds_to_server_gen (h : At P ops m i l) (c : Conn) (hconn : conn? m.server i = some c)
    (hda : l.cl.isDisconnected = false) (hdb : c.isDisconnected = false)
    (ch : Nat) (ord : Bool) (ho : KindOf P.up ch ord) (sA : SendRel) (hfA : SMap.find? l.cl.sendRel ch = some sA)
    (rB : RecvRel) (hfB : SMap.find? c.recvRel ch = some rB) (H3 : Room (l.subC ch) rB)
    (B : Nat) (hSB : SLICE_SIZE ≤ B)
    (rs : List RoundP) (hR : Rounds P.up ch (SchedBytes ch B) (dirUp c l) rs)
    (hk1 : rs ≠ []) (hk : backlog sA.unacked ≤ rs.length * (B - SLICE_SIZE + 1)) :
    (∃ m', m.run (roundsForU i ch rs) = some m') ∧
    ∀ (ops' : List MOp), trace i ops' = trace i (roundsForU i ch rs) → ∀ (m'' : MSys), m.run ops' = some m'' →
      ∃ c'' l'', conn? m''.server i = some c'' ∧ m''.links i = some l'' ∧ c''.isDisconnected = false ∧
        l''.cl.isDisconnected = false ∧ l''.tainted = false ∧ l''.subC ch = l.subC ch ∧
        Delivered ord (l''.obtS ch) (l.subC ch) ∧
        ∀ x ∈ l.subC ch, 1 ≤ (l''.obtS ch).count x ∧ (l''.obtS ch).count x ≤ (sentBy i ch ops).count x := by
  have hw := reach_wf P ops m h.run
  have r := reachK P ops m h.run i l h.link h.clean
  have hv : m.view i = ⟨some c, some l⟩ := by unfold MSys.view; rw [hconn, h.link]
  have g0 : GoodK P.up (dirUp c l) := by have := r.goodU; rw [hv] at this; exact this
  obtain ⟨u, hu, a1, a2, a3, a4⟩ := rounds_bytes_any_inv P.up (dirUp c l) g0 hda hdb ch ord ho sA hfA rB hfB H3 B hSB
    (SchedBytes ch B) (fun _ _ h => h) rs hR hk1 hk
  refine ⟨?_, ?_⟩
  · obtain ⟨m', l', hr, -⟩ := run_local_up hw hconn h.link _ (roundsOps_localU ch rs) u hu
    rw [rounds_mapU] at hr
    exact ⟨m', hr⟩
  · intro ops' ht m'' hr
    rw [trace_roundsU] at ht
    obtain ⟨l', b1, b2, b3⟩ := view_of_trace_up hw hconn h.link (roundsOps ch rs) u hu ops' ht hr
    have e1 : l'.cl = u.a := congrArg Sys.a b2
    have e2 : l'.subC = u.submitted := congrArg Sys.submitted b2
    have e3 : l'.obtS = u.obtained := congrArg Sys.obtained b2
    have hd : Delivered ord (l'.obtS ch) (l.subC ch) := by rw [e3]; exact a4
    exact ⟨u.b, l', congrArg LV.conn b1, congrArg LV.link b1, a2, by rw [e1]; exact a1, b3.trans h.clean,
      by rw [e2]; exact a3, hd, count_facts ord hd ((reach P ops m h.run i l h.link h.clean).subC ch)⟩

/-- **k lossless rounds client → server deliver everything client `i` submitted (ReliableOrdered).**  Mirror image of
    `k_rounds_deliver_to_client`: the server application obtains under id `i` EXACTLY the log `l.subC ch`, in order,
    whatever the interleaving with operations of other clients. -/
theorem k_rounds_deliver_to_server (h : At P ops m i l) (c : Conn) (hconn : conn? m.server i = some c)
    (hda : l.cl.isDisconnected = false) (hdb : c.isDisconnected = false)
    (ch : Nat) (ho : P.up.Ordered ch) (sA : SendRel) (hfA : SMap.find? l.cl.sendRel ch = some sA)
    (rB : RecvRel) (hfB : SMap.find? c.recvRel ch = some rB) (H3 : Room (l.subC ch) rB)
    (B : Nat) (hSB : SLICE_SIZE ≤ B)
    (rs : List RoundP) (hR : Rounds P.up ch (SchedBytes ch B) (dirUp c l) rs)
    (hk1 : rs ≠ []) (hk : backlog sA.unacked ≤ rs.length * (B - SLICE_SIZE + 1))
    (ops' : List MOp) (ht : trace i ops' = trace i (roundsForU i ch rs))
    (m'' : MSys) (hr : m.run ops' = some m'') :
    ∃ c'' l'', conn? m''.server i = some c'' ∧ m''.links i = some l'' ∧ c''.isDisconnected = false ∧
      l''.cl.isDisconnected = false ∧ l''.tainted = false ∧ l''.subC ch = l.subC ch ∧ l''.obtS ch = l.subC ch ∧
      ∀ x ∈ l.subC ch, 1 ≤ (l''.obtS ch).count x ∧ (l''.obtS ch).count x ≤ (sentBy i ch ops).count x :=
  (k_rounds_to_server_gen h c hconn hda hdb ch true ho sA hfA rB hfB H3 B hSB rs hR hk1 hk).2 ops' ht m'' hr

theorem k_rounds_deliver_to_server_unordered (h : At P ops m i l) (c : Conn) (hconn : conn? m.server i = some c)
    (hda : l.cl.isDisconnected = false) (hdb : c.isDisconnected = false)
    (ch : Nat) (ho : P.up.Unordered ch) (sA : SendRel) (hfA : SMap.find? l.cl.sendRel ch = some sA)
    (rB : RecvRel) (hfB : SMap.find? c.recvRel ch = some rB) (H3 : Room (l.subC ch) rB)
    (B : Nat) (hSB : SLICE_SIZE ≤ B)
    (rs : List RoundP) (hR : Rounds P.up ch (SchedBytes ch B) (dirUp c l) rs)
    (hk1 : rs ≠ []) (hk : backlog sA.unacked ≤ rs.length * (B - SLICE_SIZE + 1))
    (ops' : List MOp) (ht : trace i ops' = trace i (roundsForU i ch rs))
    (m'' : MSys) (hr : m.run ops' = some m'') :
    ∃ c'' l'', conn? m''.server i = some c'' ∧ m''.links i = some l'' ∧ c''.isDisconnected = false ∧
      l''.cl.isDisconnected = false ∧ l''.tainted = false ∧ l''.subC ch = l.subC ch ∧ (l''.obtS ch).Perm (l.subC ch) ∧
      ∀ x ∈ l.subC ch, 1 ≤ (l''.obtS ch).count x ∧ (l''.obtS ch).count x ≤ (sentBy i ch ops).count x :=
  (k_rounds_to_server_gen h c hconn hda hdb ch false ho sA hfA rB hfB H3 B hSB rs hR hk1 hk).2 ops' ht m'' hr

/-- **The k rounds client → server of client `i` alone run in `MSys` without panic** (every operation of such a round
    is local to `i`). -/
theorem k_rounds_run_to_server (h : At P ops m i l) (c : Conn) (hconn : conn? m.server i = some c)
    (hda : l.cl.isDisconnected = false) (hdb : c.isDisconnected = false)
    (ch : Nat) (ho : P.up.Ordered ch) (sA : SendRel) (hfA : SMap.find? l.cl.sendRel ch = some sA)
    (rB : RecvRel) (hfB : SMap.find? c.recvRel ch = some rB) (H3 : Room (l.subC ch) rB)
    (B : Nat) (hSB : SLICE_SIZE ≤ B)
    (rs : List RoundP) (hR : Rounds P.up ch (SchedBytes ch B) (dirUp c l) rs)
    (hk1 : rs ≠ []) (hk : backlog sA.unacked ≤ rs.length * (B - SLICE_SIZE + 1)) :
    ∃ m', m.run (roundsForU i ch rs) = some m' :=
  (k_rounds_to_server_gen h c hconn hda hdb ch true ho sA hfA rB hfB H3 B hSB rs hR hk1 hk).1

end Theorems

/-! ## non-vacuity: concrete runs, evaluated by the kernel AND covered by the theorems -/

/-! `ExK3` — the sliced broadcast of `C01K.ExS` in the multi-client system.  3000 bytes per tick, resend time 100 ns, one
    ReliableOrdered channel each way.  Clients 1 and 2 connect; the server broadcasts a 3-byte message and a 3700-byte
    message (4 slices): the backlog for client 1 is 4803 bytes > 3000, the sliced message alone never fits into one
    tick's budget.  State `m`.  The bound asks for `k = 3` rounds for client 1: `3 * (3000 - 1200 + 1) ≥ 4803`.
    Client 2 is STALLED: its network never delivers anything (`delivC = []`); meanwhile the server flushes for it,
    polls, receives garbage in its name, broadcasts to it alone, and finally removes it. -/
namespace ExK3

def P : Params := ⟨3000, [⟨0, .ordered, 100000, 100⟩], [⟨0, .ordered, 100000, 100⟩]⟩
def m0 : Bytes := [1, 2, 3]
def m1 : Bytes := List.replicate 3600 7 ++ List.replicate 100 9
def ops : List MOp := [.addClient 1, .addClient 2, .broadcast 0 m0, .broadcast 0 m1]
def r1 : RoundP := ⟨1000, [0, 1, 2], 2, 0⟩
def r2 : RoundP := ⟨1000, [3, 4, 5], 2, 1⟩
def r3 : RoundP := ⟨1000, [6], 2, 2⟩

theorem ordered0 : P.down.Ordered 0 := ⟨⟨_, List.mem_singleton.mpr rfl, rfl, rfl⟩, by decide⟩

def m : MSys := ((MSys.init P).run ops).getD (MSys.init P)
theorem run : (MSys.init P).run ops = some m := some_getD (by decide +kernel) _
def l : Link := (m.links 1).getD (Link.fresh P)
theorem link : m.links 1 = some l := some_getD (by decide +kernel) _
theorem at1 : At P ops m 1 l := ⟨run, link, by decide +kernel⟩
def c : Conn := (conn? m.server 1).getD l.last
theorem conn1 : conn? m.server 1 = some c := some_getD (by decide +kernel) _
def sA : SendRel := (SMap.find? c.sendRel 0).getD (SendRel.new 0 0 0)
theorem find_sA : SMap.find? c.sendRel 0 = some sA := some_getD (by decide +kernel) _
def rB : RecvRel := (SMap.find? l.cl.recvRel 0).getD (RecvRel.new 0 true)
theorem find_rB : SMap.find? l.cl.recvRel 0 = some rB := some_getD (by decide +kernel) _

/-- the standing hypotheses, and the numbers: backlog 4803 > 3000 = budget; the sliced entry alone costs 4800 -/
theorem start : c.isDisconnected = false ∧ l.cl.isDisconnected = false ∧ Room (l.subS 0) rB ∧
    backlog sA.unacked = 4803 ∧ sA.unacked.map (fun x => (x.1, entryCost x.2)) = [(0, 3), (1, 4800)] ∧
    l.subS 0 = [m0, m1] ∧ l.obtC 0 = [] := by decide +kernel

/-- the side conditions of the three rounds on the projection of client 1's link (timer, drain, counters, lossless
    delivery, ack cap, the way back, H4 and `3000 ≤ availAtTurn`), each checked in the state the run reaches -/
theorem rounds : Rounds P.down 0 (SchedBytes 0 3000) (dirDown c l) [r1, r2, r3] :=
  rounds_of_b (schedBytes_of_b 0 3000) _ _ (by decide +kernel)

/-- the three rounds of client 1, interleaved with what happens to client 2 and with traffic for client 2 alone -/
def ops' : List MOp :=
  [.srvUpdate 1000, .srvFlush 2, .srvFlush 1, .deliverToCli 1 0, .deliverToCli 1 1, .cliRecv 2 0, .deliverToCli 1 2,
   .cliRecv 1 0, .cliRecv 1 0, .cliFlush 1, .deliverToSrv 1 0,
   .srvUpdate 1000, .broadcastExcept 1 0 [42], .srvFlush 1, .deliverToCli 1 3, .deliverToCli 1 4, .srvFlush 2,
   .deliverToCli 1 5, .cliRecv 1 0, .cliRecv 1 0, .cliFlush 1, .deliverToSrv 1 1,
   .srvUpdate 1000, .srvFlush 1, .deliverToCli 1 6, .hostile 2 [9], .cliRecv 1 0, .cliRecv 1 0, .cliFlush 1,
   .deliverToSrv 1 2, .remove 2]
def fin : MSys := (m.run ops').getD m
theorem run' : m.run ops' = some fin := some_getD (by decide +kernel) _
theorem trace' : trace 1 ops' = trace 1 (roundsFor 1 0 [r1, r2, r3]) := by decide +kernel

/-- **`k_rounds_deliver_to_client` applied with `B = 3000`, `k = 3`** -/
theorem client1_has_everything :
    ∃ c'' l'', conn? fin.server 1 = some c'' ∧ fin.links 1 = some l'' ∧ c''.isDisconnected = false ∧
      l''.cl.isDisconnected = false ∧ l''.tainted = false ∧ l''.subS 0 = l.subS 0 ∧ l''.obtC 0 = l.subS 0 ∧
      ∀ x ∈ l.subS 0, 1 ≤ (l''.obtC 0).count x ∧ (l''.obtC 0).count x ≤ (addressedTo 1 0 ops).count x :=
  k_rounds_deliver_to_client at1 c conn1 start.1 start.2.1 0 ordered0 sA find_sA rB find_rB start.2.2.1 3000 (by decide)
    [r1, r2, r3] rounds (by simp) (by rw [start.2.2.2.1]; decide) ops' trace' fin run'

/-- … in particular the 3700-byte message: obtained exactly once -/
example : ∃ l'', fin.links 1 = some l'' ∧ (l''.obtC 0).count m1 = 1 := by
  obtain ⟨_, l'', -, hl, -, -, -, -, -, hcnt⟩ := client1_has_everything
  have hx : m1 ∈ l.subS 0 := by rw [start.2.2.2.2.2.1]; exact List.mem_cons_of_mem _ (List.mem_cons_self ..)
  obtain ⟨h1, h2⟩ := hcnt m1 hx
  have h3 : (addressedTo 1 0 ops).count m1 = 1 := by decide +kernel
  exact ⟨l'', hl, by omega⟩

/-- what the kernel computes: client 1 obtained both messages, all seven datagrams were handed over; after the first
    round of `ops'` only `m0`; client 2 — stalled, then removed — obtained nothing although three messages were logged
    for it -/
example : (fin.links 1).map (fun l => (l.obtC 0, l.delivC, l.cl.isDisconnected)) =
      some ([m0, m1], [0, 1, 2, 3, 4, 5, 6], false) ∧
    ((m.run (ops'.take 11)).bind (fun f => f.links 1)).map (fun l => l.obtC 0) = some [m0] ∧
    (fin.links 2).map (fun l => (l.obtC 0, l.delivC, l.subS 0)) = some ([], [], [m0, m1, [42]]) ∧
    (conn? fin.server 2).map (·.status) = none := by decide +kernel

/-- `k_rounds_stalled_client_does_not_delay_others` applied: first client 2 alone (`opsJ`), then the rounds -/
def opsJ : List MOp := [.srvFlush 2, .cliRecv 2 0, .hostile 2 [7], .cliUpdate 2 5]
def mJ : MSys := (m.run opsJ).getD m
theorem runJ : m.run opsJ = some mJ := some_getD (by decide +kernel) _
def finJ : MSys := (mJ.run ops').getD mJ
theorem runJ' : mJ.run ops' = some finJ := some_getD (by decide +kernel) _
example : mJ.view 1 = m.view 1 ∧
    ∃ c'' l'', conn? finJ.server 1 = some c'' ∧ finJ.links 1 = some l'' ∧ c''.isDisconnected = false ∧
      l''.cl.isDisconnected = false ∧ l''.tainted = false ∧ l''.subS 0 = l.subS 0 ∧ l''.obtC 0 = l.subS 0 ∧
      ∀ x ∈ l.subS 0, 1 ≤ (l''.obtC 0).count x ∧ (l''.obtC 0).count x ≤ (addressedTo 1 0 ops).count x :=
  k_rounds_stalled_client_does_not_delay_others at1 c conn1 start.1 start.2.1 0 ordered0 sA find_sA rB find_rB
    start.2.2.1 3000 (by decide) [r1, r2, r3] rounds (by simp) (by rw [start.2.2.2.1]; decide)
    opsJ (by decide) mJ runJ ops' trace' finJ runJ'

/-- the projection of client 1's link satisfies `GoodK` (`reachK`) — it is NOT a state of a `Sys.init` run (both ends
    were marked connected by `add_connection`) — and `k_round_delivery_inv` applies to it -/
theorem goodK1 : GoodK P.down (dirDown c l) := by
  have := (reachK P ops m run 1 l link at1.clean).goodD
  have hv : m.view 1 = ⟨some c, some l⟩ := by unfold MSys.view; rw [conn1, link]
  rw [hv] at this; exact this

example : ∃ u, (dirDown c l).run (roundsOps 0 [r1, r2, r3]) = some u ∧ u.a.isDisconnected = false ∧
    u.b.isDisconnected = false ∧ u.submitted 0 = l.subS 0 ∧ u.obtained 0 = l.subS 0 :=
  k_round_delivery_link goodK1 start.1 start.2.1 0 ordered0 sA find_sA rB find_rB start.2.2.1 3000
    (by decide) [r1, r2, r3] rounds (by simp) (by rw [start.2.2.2.1]; decide)

end ExK3

/-! `ExUp` — client → server, ONE round.  Same configuration.  Client 1 submits [7, 7] and flushes; the datagram
    (`outC[0]`) is LOST.  Client 2 submits something too.  State `m`: the server has obtained nothing under id 1.
    Then client 1's clock advances by 1000 ns ≥ resend time, its next flush retransmits [7, 7] (`outC[1]`), the
    datagram reaches the server, the server application polls — interleaved with garbage in client 2's name, the
    server disconnecting client 2, client 2 flushing. -/
namespace ExUp

def P : Params := ExK3.P
theorem ordered0 : P.up.Ordered 0 := ⟨⟨_, List.mem_singleton.mpr rfl, rfl, rfl⟩, by decide⟩
def ops : List MOp := [.addClient 1, .addClient 2, .cliSend 1 0 [7, 7], .cliFlush 1, .cliSend 2 0 [8]]
def m : MSys := ((MSys.init P).run ops).getD (MSys.init P)
theorem run : (MSys.init P).run ops = some m := some_getD (by decide +kernel) _
def l : Link := (m.links 1).getD (Link.fresh P)
theorem link : m.links 1 = some l := some_getD (by decide +kernel) _
theorem at1 : At P ops m 1 l := ⟨run, link, by decide +kernel⟩
def c : Conn := (conn? m.server 1).getD l.last
theorem conn1 : conn? m.server 1 = some c := some_getD (by decide +kernel) _
def clu : Conn := okD (l.cl.update 1000) l.cl
theorem upd : l.cl.update 1000 = .ok clu := ok_okD (by decide +kernel) _
def sA : SendRel := (SMap.find? l.cl.sendRel 0).getD (SendRel.new 0 0 0)
theorem find_sA : SMap.find? l.cl.sendRel 0 = some sA := some_getD (by decide +kernel) _
def rB : RecvRel := (SMap.find? c.recvRel 0).getD (RecvRel.new 0 true)
theorem find_rB : SMap.find? c.recvRel 0 = some rB := some_getD (by decide +kernel) _

/-- the hypotheses of `from_one_exactly_once` for client 1, evaluated; [7, 7] is logged, its datagram was emitted
    (`outC.length = 1`) and never delivered (`delivS = []`), nothing obtained -/
theorem facts : l.cl.isDisconnected = false ∧ c.isDisconnected = false ∧ sA.resend ≤ 1000 ∧
    backlog sA.unacked ≤ availAtTurn clu 0 ∧ Room (l.subC 0) rB ∧ (∀ p ∈ flushPk clu, OnlyCh 0 p) ∧
    flushIdxU l clu = [1] ∧ l.subC 0 = [[7, 7]] ∧ l.obtS 0 = [] ∧ l.delivS = [] ∧ l.outC.length = 1 := by
  decide +kernel

theorem counters : CountersOK P.up (dirUp c { l with cl := clu }) := by
  refine ⟨?_, ?_, ?_, ?_, ?_⟩ <;> decide +kernel
theorem countersA : clu.CountersOK := CI.countersOK_of_b (by decide +kernel)

def ops' : List MOp :=
  [.cliUpdate 1 1000, .hostile 2 [3], .cliFlush 1, .srvDisconnect 2, .deliverToSrv 1 1, .cliFlush 2, .srvRecv 1 0]
def fin : MSys := (m.run ops').getD m
theorem run' : m.run ops' = some fin := some_getD (by decide +kernel) _

/-- **`from_one_exactly_once` applied**: lost once, delivered in the next round -/
theorem server_has_it :
    (∃ m', m.run (.cliUpdate 1 1000 :: roundForU 1 0 [1] 1) = some m') ∧
    ∃ c'' l'', conn? fin.server 1 = some c'' ∧ fin.links 1 = some l'' ∧ c''.isDisconnected = false ∧
      l''.cl.isDisconnected = false ∧ l''.tainted = false ∧ l''.subC = l.subC ∧ l''.obtS 0 = l.subC 0 ∧
      ∀ x ∈ l.subC 0, 1 ≤ (l''.obtS 0).count x ∧ (l''.obtS 0).count x ≤ (sentBy 1 0 ops).count x :=
  from_one_exactly_once at1 c conn1 facts.1 facts.2.1 0 ordered0 sA find_sA rB find_rB 1000 facts.2.2.1 clu upd
    counters countersA facts.2.2.2.1 facts.2.2.2.2.1 facts.2.2.2.2.2.1 [1]
    (by rw [facts.2.2.2.2.2.2.1]; decide) (by rw [facts.2.2.2.2.2.2.1]; decide) 1
    (by rw [facts.2.2.2.2.2.2.2.1, facts.2.2.2.2.2.2.2.2.1]; decide)
    ops' (by decide) fin run'

/-- [7, 7]: obtained under id 1 exactly once -/
example : ∃ l'', fin.links 1 = some l'' ∧ (l''.obtS 0).count [7, 7] = 1 := by
  obtain ⟨-, _, l'', -, hl, -, -, -, -, -, hcnt⟩ := server_has_it
  have hx : [7, 7] ∈ l.subC 0 := by rw [facts.2.2.2.2.2.2.2.1]; decide
  obtain ⟨h1, h2⟩ := hcnt [7, 7] hx
  have h3 : (sentBy 1 0 ops).count [7, 7] = 1 := by decide
  exact ⟨l'', hl, by omega⟩

/-- the kernel agrees: the server obtained [7, 7] under id 1 from datagram 1; nothing of client 2 is mixed in -/
example : (fin.links 1).map (fun l => (l.obtS 0, l.delivS, l.cl.isDisconnected)) = some ([[7, 7]], [1], false) ∧
    (fin.links 2).map (fun l => (l.obtS 0, l.subC 0)) = some ([], [[8]]) := by decide +kernel

/-- `round_delivers_to_server` applied to the state after the tick (H1 evaluated) -/
def mu : MSys := (m.step (.cliUpdate 1 1000)).getD m
theorem step_mu : m.step (.cliUpdate 1 1000) = some mu := some_getD (by decide +kernel) _
theorem run_mu : (MSys.init P).run (ops ++ [.cliUpdate 1 1000]) = some mu := by
  rw [MSys.run_append, run]; simp only [Option.bind_some, MSys.run, step_mu]
def lu : Link := (mu.links 1).getD l
theorem linkU : mu.links 1 = some lu := some_getD (by decide +kernel) _
theorem connU : conn? mu.server 1 = some c := by
  have : (conn? mu.server 1 == conn? m.server 1) = true := by decide +kernel
  rw [← conn1]; exact eq_of_beq this
def sAu : SendRel := (SMap.find? lu.cl.sendRel 0).getD (SendRel.new 0 0 0)
theorem find_sAu : SMap.find? lu.cl.sendRel 0 = some sAu := some_getD (by decide +kernel) _
theorem factsU : lu.cl.isDisconnected = false ∧ AllDue lu.cl.now sAu.resend sAu.unacked ∧
    backlog sAu.unacked ≤ availAtTurn lu.cl 0 ∧ Room (lu.subC 0) rB ∧ (∀ p ∈ flushPk lu.cl, OnlyCh 0 p) ∧
    flushIdxU lu lu.cl = [1] ∧ lu.subC 0 = [[7, 7]] ∧ lu.obtS 0 = [] ∧ lu.tainted = false := by
  decide +kernel
theorem countersU : CountersOK P.up (dirUp c lu) := by
  refine ⟨?_, ?_, ?_, ?_, ?_⟩ <;> decide +kernel
theorem countersAU : lu.cl.CountersOK := CI.countersOK_of_b (by decide +kernel)

example : ∃ m' c' l', mu.run (roundForU 1 0 [1] 1) = some m' ∧ conn? m'.server 1 = some c' ∧ m'.links 1 = some l' ∧
      c'.isDisconnected = false ∧ l'.cl.isDisconnected = false ∧ l'.tainted = false ∧ l'.subC = lu.subC ∧
      l'.obtS 0 = lu.subC 0 ∧
      ∀ ops' m'', trace 1 ops' = trace 1 (roundForU 1 0 [1] 1) → mu.run ops' = some m'' → m''.view 1 = m'.view 1 :=
  round_delivers_to_server ⟨run_mu, linkU, factsU.2.2.2.2.2.2.2.2⟩ c connU countersU countersAU factsU.1 facts.2.1 0
    ordered0 sAu find_sAu rB find_rB factsU.2.1 factsU.2.2.1 factsU.2.2.2.1 factsU.2.2.2.2.1 [1]
    (by rw [factsU.2.2.2.2.2.1]; decide) (by rw [factsU.2.2.2.2.2.1]; decide) 1
    (by rw [factsU.2.2.2.2.2.2.1, factsU.2.2.2.2.2.2.2.1]; decide)

/-- `k_round_delivery_single_inv` and `k_round_delivery_entries_inv` applied to the client → server projection of this
    link (one full round: tick, flush `outC[1]`, delivery, one `receive_message`, the server's flush `outS[0]`, its
    delivery to the client); `P.up` has a single client → server channel -/
def r : RoundP := ⟨1000, [1], 1, 0⟩
theorem goodKU : GoodK P.up (dirUp c l) := by
  have := (reachK P ops m run 1 l link at1.clean).goodU
  have hv : m.view 1 = ⟨some c, some l⟩ := by unfold MSys.view; rw [conn1, link]
  rw [hv] at this; exact this
theorem single0 : Single P.up 0 := ⟨_, _, rfl⟩
theorem roundsT : Rounds P.up 0 (fun _ => True) (dirUp c l) [r] :=
  rounds_of_b (schedb := fun _ => true) (fun _ _ => trivial) _ _ (by decide +kernel)
theorem roundsC : Rounds P.up 0 (SchedCount 0 1) (dirUp c l) [r] :=
  rounds_of_b (schedCount_of_b 0 1) _ _ (by decide +kernel)
theorem numbers : backlog sA.unacked = 2 ∧ sA.unacked.length = 1 := by decide +kernel

example : ∃ u, (dirUp c l).run (roundsOps 0 [r]) = some u ∧ u.a.isDisconnected = false ∧ u.b.isDisconnected = false ∧
    u.submitted 0 = l.subC 0 ∧ u.obtained 0 = l.subC 0 :=
  k_round_delivery_single_link goodKU facts.1 facts.2.1 0 single0 sA find_sA rB find_rB facts.2.2.2.2.1 (by decide) [r]
    roundsT (by simp) (by rw [numbers.1]; decide)

example : ∃ u, (dirUp c l).run (roundsOps 0 [r]) = some u ∧ u.a.isDisconnected = false ∧ u.b.isDisconnected = false ∧
    u.submitted 0 = l.subC 0 ∧ u.obtained 0 = l.subC 0 :=
  k_round_delivery_entries_link goodKU facts.1 facts.2.1 0 ordered0 sA find_sA rB find_rB facts.2.2.2.2.1 1 [r]
    roundsC (by simp) (by rw [numbers.2]; decide)

end ExUp

/-! `ExUp3` — client → server, k = 3 rounds: client 1 submits the 3-byte and the 3700-byte message of `ExK3`
    (backlog 4803 > 3000 bytes per tick).  Three full lossless rounds client → server for client 1, interleaved with
    client 2 submitting, flushing, being broadcast to and removed. -/
namespace ExUp3

def P : Params := ExK3.P
def m0 : Bytes := ExK3.m0
def m1 : Bytes := ExK3.m1
theorem ordered0 : P.up.Ordered 0 := ExUp.ordered0
def ops : List MOp := [.addClient 1, .addClient 2, .cliSend 1 0 m0, .cliSend 1 0 m1]
def r1 : RoundP := ⟨1000, [0, 1, 2], 2, 0⟩
def r2 : RoundP := ⟨1000, [3, 4, 5], 2, 1⟩
def r3 : RoundP := ⟨1000, [6], 2, 2⟩

def m : MSys := ((MSys.init P).run ops).getD (MSys.init P)
theorem run : (MSys.init P).run ops = some m := some_getD (by decide +kernel) _
def l : Link := (m.links 1).getD (Link.fresh P)
theorem link : m.links 1 = some l := some_getD (by decide +kernel) _
theorem at1 : At P ops m 1 l := ⟨run, link, by decide +kernel⟩
def c : Conn := (conn? m.server 1).getD l.last
theorem conn1 : conn? m.server 1 = some c := some_getD (by decide +kernel) _
def sA : SendRel := (SMap.find? l.cl.sendRel 0).getD (SendRel.new 0 0 0)
theorem find_sA : SMap.find? l.cl.sendRel 0 = some sA := some_getD (by decide +kernel) _
def rB : RecvRel := (SMap.find? c.recvRel 0).getD (RecvRel.new 0 true)
theorem find_rB : SMap.find? c.recvRel 0 = some rB := some_getD (by decide +kernel) _

theorem start : l.cl.isDisconnected = false ∧ c.isDisconnected = false ∧ Room (l.subC 0) rB ∧
    backlog sA.unacked = 4803 ∧ l.subC 0 = [m0, m1] ∧ l.obtS 0 = [] := by decide +kernel

theorem rounds : Rounds P.up 0 (SchedBytes 0 3000) (dirUp c l) [r1, r2, r3] :=
  rounds_of_b (schedBytes_of_b 0 3000) _ _ (by decide +kernel)

def ops' : List MOp :=
  [.cliSend 2 0 [5]] ++ fullRoundForU 1 0 r1 ++ [.cliFlush 2, .deliverToSrv 2 0, .broadcastExcept 1 0 [42]] ++
  fullRoundForU 1 0 r2 ++ [.srvRecv 2 0, .hostile 2 [1]] ++ fullRoundForU 1 0 r3 ++ [.remove 2]
def fin : MSys := (m.run ops').getD m
theorem run' : m.run ops' = some fin := some_getD (by decide +kernel) _
theorem trace' : trace 1 ops' = trace 1 (roundsForU 1 0 [r1, r2, r3]) := by decide +kernel

/-- **`k_rounds_deliver_to_server` applied with `B = 3000`, `k = 3`** -/
theorem server_has_everything :
    ∃ c'' l'', conn? fin.server 1 = some c'' ∧ fin.links 1 = some l'' ∧ c''.isDisconnected = false ∧
      l''.cl.isDisconnected = false ∧ l''.tainted = false ∧ l''.subC 0 = l.subC 0 ∧ l''.obtS 0 = l.subC 0 ∧
      ∀ x ∈ l.subC 0, 1 ≤ (l''.obtS 0).count x ∧ (l''.obtS 0).count x ≤ (sentBy 1 0 ops).count x :=
  k_rounds_deliver_to_server at1 c conn1 start.1 start.2.1 0 ordered0 sA find_sA rB find_rB start.2.2.1 3000 (by decide)
    [r1, r2, r3] rounds (by simp) (by rw [start.2.2.2.1]; decide) ops' trace' fin run'

/-- the rounds of client 1 alone run without panic (`k_rounds_run_to_server`) -/
example : ∃ m', m.run (roundsForU 1 0 [r1, r2, r3]) = some m' :=
  k_rounds_run_to_server at1 c conn1 start.1 start.2.1 0 ordered0 sA find_sA rB find_rB start.2.2.1 3000 (by decide)
    [r1, r2, r3] rounds (by simp) (by rw [start.2.2.2.1]; decide)

/-- what the kernel computes: the server obtained both messages under id 1, [5] under id 2 -/
example : (fin.links 1).map (fun l => (l.obtS 0, l.delivS, l.cl.isDisconnected)) =
      some ([m0, m1], [0, 1, 2, 3, 4, 5, 6], false) ∧
    (fin.links 2).map (fun l => l.obtS 0) = some [[5]] := by decide +kernel

end ExUp3

/-! `ExUn` — ReliableUnordered channels both ways, 2400 bytes per tick.  A 2500-byte message (3 slices, cost 3600) and a
    2-byte message: backlog 3602 > 2400; `3 * (2400 - 1200 + 1) ≥ 3602`.  Datagrams are handed over in reverse order,
    one of them twice.
    `D`: the server broadcasts them; three rounds for client 1, client 2 stalled and finally disconnected.
    `U`: client 1 submits them and flushes, both datagrams LOST; three rounds client → server.
    `One`: two small messages of client 1, lost once; the tick and ONE round (`from_one_exactly_once_unordered`). -/
namespace ExUn

def P : Params := ⟨2400, [⟨0, .unordered, 100000, 100⟩], [⟨0, .unordered, 100000, 100⟩]⟩
def big : Bytes := List.replicate 2400 7 ++ List.replicate 100 9
theorem unorderedD : P.down.Unordered 0 := ⟨⟨_, List.mem_singleton.mpr rfl, rfl, rfl⟩, by decide⟩
theorem unorderedU : P.up.Unordered 0 := ⟨⟨_, List.mem_singleton.mpr rfl, rfl, rfl⟩, by decide⟩

namespace D
def ops : List MOp := [.addClient 1, .addClient 2, .broadcast 0 big, .broadcast 0 [1, 2]]
def r1 : RoundP := ⟨1000, [1, 0], 2, 0⟩
def r2 : RoundP := ⟨1000, [4, 3, 2, 3], 2, 1⟩
def r3 : RoundP := ⟨1000, [5], 2, 2⟩
def m : MSys := ((MSys.init P).run ops).getD (MSys.init P)
theorem run : (MSys.init P).run ops = some m := some_getD (by decide +kernel) _
def l : Link := (m.links 1).getD (Link.fresh P)
theorem link : m.links 1 = some l := some_getD (by decide +kernel) _
theorem at1 : At P ops m 1 l := ⟨run, link, by decide +kernel⟩
def c : Conn := (conn? m.server 1).getD l.last
theorem conn1 : conn? m.server 1 = some c := some_getD (by decide +kernel) _
def sA : SendRel := (SMap.find? c.sendRel 0).getD (SendRel.new 0 0 0)
theorem find_sA : SMap.find? c.sendRel 0 = some sA := some_getD (by decide +kernel) _
def rB : RecvRel := (SMap.find? l.cl.recvRel 0).getD (RecvRel.new 0 true)
theorem find_rB : SMap.find? l.cl.recvRel 0 = some rB := some_getD (by decide +kernel) _
theorem start : c.isDisconnected = false ∧ l.cl.isDisconnected = false ∧ Room (l.subS 0) rB ∧
    backlog sA.unacked = 3602 ∧ l.subS 0 = [big, [1, 2]] ∧ l.obtC 0 = [] := by decide +kernel
theorem rounds : Rounds P.down 0 (SchedBytes 0 2400) (dirDown c l) [r1, r2, r3] :=
  rounds_of_b (schedBytes_of_b 0 2400) _ _ (by decide +kernel)
def ops' : List MOp :=
  [.srvFlush 2] ++ fullRoundFor 1 0 r1 ++ [.hostile 2 [1], .cliRecv 2 0] ++ fullRoundFor 1 0 r2 ++ [.srvDisconnect 2] ++
  fullRoundFor 1 0 r3
def fin : MSys := (m.run ops').getD m
theorem run' : m.run ops' = some fin := some_getD (by decide +kernel) _
theorem trace' : trace 1 ops' = trace 1 (roundsFor 1 0 [r1, r2, r3]) := by decide +kernel

/-- **`k_rounds_deliver_to_client_unordered` applied with `B = 2400`, `k = 3`** -/
theorem client1_has_everything :
    ∃ c'' l'', conn? fin.server 1 = some c'' ∧ fin.links 1 = some l'' ∧ c''.isDisconnected = false ∧
      l''.cl.isDisconnected = false ∧ l''.tainted = false ∧ l''.subS 0 = l.subS 0 ∧ (l''.obtC 0).Perm (l.subS 0) ∧
      ∀ x ∈ l.subS 0, 1 ≤ (l''.obtC 0).count x ∧ (l''.obtC 0).count x ≤ (addressedTo 1 0 ops).count x :=
  k_rounds_deliver_to_client_unordered at1 c conn1 start.1 start.2.1 0 unorderedD sA find_sA rB find_rB start.2.2.1 2400
    (by decide) [r1, r2, r3] rounds (by simp) (by rw [start.2.2.2.1]; decide) ops' trace' fin run'

example : (fin.links 1).map (fun l => (l.obtC 0, l.delivC)) = some ([big, [1, 2]], [1, 0, 4, 3, 2, 3, 5]) ∧
    (fin.links 2).map (fun l => (l.obtC 0, l.delivC)) = some ([], []) := by decide +kernel

theorem goodK1 : GoodK P.down (dirDown c l) := by
  have := (reachK P ops m run 1 l link at1.clean).goodD
  have hv : m.view 1 = ⟨some c, some l⟩ := by unfold MSys.view; rw [conn1, link]
  rw [hv] at this; exact this

/-- `k_round_delivery_unordered_inv` on the projection -/
example : ∃ u, (dirDown c l).run (roundsOps 0 [r1, r2, r3]) = some u ∧ u.a.isDisconnected = false ∧
    u.b.isDisconnected = false ∧ u.submitted 0 = l.subS 0 ∧ (u.obtained 0).Perm (l.subS 0) :=
  k_round_delivery_unordered_link goodK1 start.1 start.2.1 0 unorderedD sA find_sA rB find_rB start.2.2.1 2400
    (by decide) [r1, r2, r3] rounds (by simp) (by rw [start.2.2.2.1]; decide)
end D

namespace U
def ops : List MOp := [.addClient 1, .addClient 2, .cliSend 1 0 big, .cliSend 1 0 [1, 2], .cliFlush 1]
def r1 : RoundP := ⟨1000, [4, 3, 2], 2, 0⟩
def r2 : RoundP := ⟨1000, [6, 5, 6], 2, 1⟩
def r3 : RoundP := ⟨1000, [7], 2, 2⟩
def m : MSys := ((MSys.init P).run ops).getD (MSys.init P)
theorem run : (MSys.init P).run ops = some m := some_getD (by decide +kernel) _
def l : Link := (m.links 1).getD (Link.fresh P)
theorem link : m.links 1 = some l := some_getD (by decide +kernel) _
theorem at1 : At P ops m 1 l := ⟨run, link, by decide +kernel⟩
def c : Conn := (conn? m.server 1).getD l.last
theorem conn1 : conn? m.server 1 = some c := some_getD (by decide +kernel) _
def sA : SendRel := (SMap.find? l.cl.sendRel 0).getD (SendRel.new 0 0 0)
theorem find_sA : SMap.find? l.cl.sendRel 0 = some sA := some_getD (by decide +kernel) _
def rB : RecvRel := (SMap.find? c.recvRel 0).getD (RecvRel.new 0 true)
theorem find_rB : SMap.find? c.recvRel 0 = some rB := some_getD (by decide +kernel) _
theorem start : l.cl.isDisconnected = false ∧ c.isDisconnected = false ∧ Room (l.subC 0) rB ∧
    backlog sA.unacked = 3602 ∧ l.subC 0 = [big, [1, 2]] ∧ l.obtS 0 = [] ∧ l.outC.length = 2 ∧ l.delivS = [] := by
  decide +kernel
theorem rounds : Rounds P.up 0 (SchedBytes 0 2400) (dirUp c l) [r1, r2, r3] :=
  rounds_of_b (schedBytes_of_b 0 2400) _ _ (by decide +kernel)
def ops' : List MOp :=
  [.cliSend 2 0 [5]] ++ fullRoundForU 1 0 r1 ++ [.cliFlush 2, .deliverToSrv 2 0] ++ fullRoundForU 1 0 r2 ++
  [.srvRecv 2 0] ++ fullRoundForU 1 0 r3
def fin : MSys := (m.run ops').getD m
theorem run' : m.run ops' = some fin := some_getD (by decide +kernel) _
theorem trace' : trace 1 ops' = trace 1 (roundsForU 1 0 [r1, r2, r3]) := by decide +kernel

/-- **`k_rounds_deliver_to_server_unordered` applied with `B = 2400`, `k = 3`** -/
theorem server_has_everything :
    ∃ c'' l'', conn? fin.server 1 = some c'' ∧ fin.links 1 = some l'' ∧ c''.isDisconnected = false ∧
      l''.cl.isDisconnected = false ∧ l''.tainted = false ∧ l''.subC 0 = l.subC 0 ∧ (l''.obtS 0).Perm (l.subC 0) ∧
      ∀ x ∈ l.subC 0, 1 ≤ (l''.obtS 0).count x ∧ (l''.obtS 0).count x ≤ (sentBy 1 0 ops).count x :=
  k_rounds_deliver_to_server_unordered at1 c conn1 start.1 start.2.1 0 unorderedU sA find_sA rB find_rB start.2.2.1 2400
    (by decide) [r1, r2, r3] rounds (by simp) (by rw [start.2.2.2.1]; decide) ops' trace' fin run'

/-- the kernel: the small message first, then the sliced one -/
example : (fin.links 1).map (fun l => (l.obtS 0, l.delivS)) = some ([[1, 2], big], [4, 3, 2, 6, 5, 6, 7]) := by
  decide +kernel
end U

namespace One
def ops : List MOp := [.addClient 1, .addClient 2, .cliSend 1 0 [7, 7], .cliSend 1 0 [9], .cliFlush 1]
def m : MSys := ((MSys.init P).run ops).getD (MSys.init P)
theorem run : (MSys.init P).run ops = some m := some_getD (by decide +kernel) _
def l : Link := (m.links 1).getD (Link.fresh P)
theorem link : m.links 1 = some l := some_getD (by decide +kernel) _
theorem at1 : At P ops m 1 l := ⟨run, link, by decide +kernel⟩
def c : Conn := (conn? m.server 1).getD l.last
theorem conn1 : conn? m.server 1 = some c := some_getD (by decide +kernel) _
def clu : Conn := okD (l.cl.update 1000) l.cl
theorem upd : l.cl.update 1000 = .ok clu := ok_okD (by decide +kernel) _
def sA : SendRel := (SMap.find? l.cl.sendRel 0).getD (SendRel.new 0 0 0)
theorem find_sA : SMap.find? l.cl.sendRel 0 = some sA := some_getD (by decide +kernel) _
def rB : RecvRel := (SMap.find? c.recvRel 0).getD (RecvRel.new 0 true)
theorem find_rB : SMap.find? c.recvRel 0 = some rB := some_getD (by decide +kernel) _
theorem facts : l.cl.isDisconnected = false ∧ c.isDisconnected = false ∧ sA.resend ≤ 1000 ∧
    backlog sA.unacked ≤ availAtTurn clu 0 ∧ Room (l.subC 0) rB ∧ (∀ p ∈ flushPk clu, OnlyCh 0 p) ∧
    flushIdxU l clu = [1] ∧ l.subC 0 = [[7, 7], [9]] ∧ l.obtS 0 = [] := by
  decide +kernel
theorem counters : CountersOK P.up (dirUp c { l with cl := clu }) := by
  refine ⟨?_, ?_, ?_, ?_, ?_⟩ <;> decide +kernel
theorem countersA : clu.CountersOK := CI.countersOK_of_b (by decide +kernel)
def ops' : List MOp :=
  [.cliUpdate 1 1000, .hostile 2 [3], .cliFlush 1, .deliverToSrv 1 1, .deliverToSrv 1 1, .srvRecv 1 0, .cliFlush 2,
   .srvRecv 1 0]
def fin : MSys := (m.run ops').getD m
theorem run' : m.run ops' = some fin := some_getD (by decide +kernel) _

/-- **`from_one_exactly_once_unordered` applied** (the datagram is handed over twice) -/
example :
    (∃ m', m.run (.cliUpdate 1 1000 :: roundForU 1 0 [1, 1] 2) = some m') ∧
    ∃ c'' l'', conn? fin.server 1 = some c'' ∧ fin.links 1 = some l'' ∧ c''.isDisconnected = false ∧
      l''.cl.isDisconnected = false ∧ l''.tainted = false ∧ l''.subC = l.subC ∧ (l''.obtS 0).Perm (l.subC 0) ∧
      ∀ x ∈ l.subC 0, 1 ≤ (l''.obtS 0).count x ∧ (l''.obtS 0).count x ≤ (sentBy 1 0 ops).count x :=
  from_one_exactly_once_unordered at1 c conn1 facts.1 facts.2.1 0 unorderedU sA find_sA rB find_rB 1000 facts.2.2.1 clu
    upd counters countersA facts.2.2.2.1 facts.2.2.2.2.1 facts.2.2.2.2.2.1 [1, 1]
    (by rw [facts.2.2.2.2.2.2.1]; decide) (by rw [facts.2.2.2.2.2.2.1]; decide) 2
    (by rw [facts.2.2.2.2.2.2.2.1, facts.2.2.2.2.2.2.2.2]; decide)
    ops' (by decide) fin run'

example : (fin.links 1).map (fun l => (l.obtS 0, l.delivS)) = some ([[7, 7], [9]], [1, 1]) := by decide +kernel
end One

end ExUn

end RenetVerif.C01M
