/-
  Source tie, group TokenTable: `renetcode/src/server.rs` `NetcodeServer::find_or_add_connect_token_entry`
  (`reprTable base l` = the generated server `base` with the entry table `l`: no other field is touched; `Duration` = nanoseconds, `SocketAddr`
  = `RustSem.SocketAddr`) ↔ `Netcode.NetcodeServer.findOrAddConnectTokenEntry` of `Netcode/Server.lean`.
  `reprTable` / `reprEntry` / `reprAddr` map model values to generated ones (injective; IPv6 flow info / scope id 0).
-/
import RenetVerif.Lemmas.SrcEquiv.TokenTable
namespace RenetVerif.SrcTie
open RenetVerif RenetVerif.SrcEquiv RenetVerif.RustSem
open Src.renetcode.server

/-- on a non-empty entry table (the Rust array has `NETCODE_MAX_CLIENTS * 2` slots) the generated function never
    panics and returns the model's table and verdict -/
theorem token_table_find_or_add {ε : Type} (base : NetcodeServer) (s : Netcode.NetcodeServer)
    (newEntry : Netcode.ConnectTokenEntry) (hl : 0 < s.connectTokenEntries.length) :
    (NetcodeServer.find_or_add_connect_token_entry (reprTable base s.connectTokenEntries) (reprEntry newEntry) : Res ε _) =
      .ok (reprTable base (s.findOrAddConnectTokenEntry newEntry).1.connectTokenEntries,
           (s.findOrAddConnectTokenEntry newEntry).2) := by
  rw [find_or_add_eq s.connectTokenEntries newEntry hl]
  unfold Netcode.NetcodeServer.findOrAddConnectTokenEntry
  simp only
  cases (Netcode.NetcodeServer.scanEntries newEntry.mac s.connectTokenEntries 0
    ⟨Netcode.DURATION_MAX, 0, false, none⟩).matchingEntry with
  | some e => rfl
  | none => rfl

/-- on an empty table the write `self.connect_token_entries[0] = …` is out of bounds: panic -/
theorem token_table_empty_panics {ε : Type} (base : NetcodeServer) (newEntry : Netcode.ConnectTokenEntry) :
    ∃ site, (NetcodeServer.find_or_add_connect_token_entry (reprTable base []) (reprEntry newEntry) : Res ε _) = .panic site :=
  ⟨_, rfl⟩

/-! a 3-slot table: new MAC goes to the first empty slot; known MAC from the same / another address -/
def exA : RustSem.SocketAddr := .v4 [127, 0, 0, 1] 5000
def exB : RustSem.SocketAddr := .v4 [127, 0, 0, 1] 5001
/-- a server with this entry table (all other fields empty / zero) -/
def exTab (t : List (Option ConnectTokenEntry)) : NetcodeServer := ⟨[], [], t, 0, [], 0, 0, [], [], 0, 0, false, []⟩
example :
    (NetcodeServer.find_or_add_connect_token_entry (exTab [some ⟨10, exA, [1]⟩, none, none]) ⟨20, exB, [2]⟩ : Res Empty _) =
      .ok (exTab [some ⟨10, exA, [1]⟩, some ⟨20, exB, [2]⟩, none], true) := by decide +kernel
example :
    (NetcodeServer.find_or_add_connect_token_entry (exTab [some ⟨10, exA, [1]⟩, none, none]) ⟨20, exA, [1]⟩ : Res Empty _) =
      .ok (exTab [some ⟨10, exA, [1]⟩, none, none], true) := by decide +kernel
example :
    (NetcodeServer.find_or_add_connect_token_entry (exTab [some ⟨10, exA, [1]⟩, none, none]) ⟨20, exB, [1]⟩ : Res Empty _) =
      .ok (exTab [some ⟨10, exA, [1]⟩, none, none], false) := by decide +kernel
/-- full table: the oldest entry is replaced -/
example :
    (NetcodeServer.find_or_add_connect_token_entry (exTab [some ⟨10, exA, [1]⟩, some ⟨5, exA, [3]⟩]) ⟨20, exB, [2]⟩ : Res Empty _) =
      .ok (exTab [some ⟨10, exA, [1]⟩, some ⟨20, exB, [2]⟩], true) := by decide +kernel

end RenetVerif.SrcTie
