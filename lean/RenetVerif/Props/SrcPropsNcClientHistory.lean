/-
  HISTORY-LEVEL netcode CLIENT theorems on the GENERATED code (`Generated/Src/NcClient.lean`, translated from
  `renetcode/src/client.rs`).  Every theorem has a GENERATED RUN in its hypothesis (`GNcC.exec`: generated
  `NetcodeClient::new`, then generated `update` / `process_packet` / `generate_payload_packet` / `disconnect` calls with
  arbitrary arguments, `Lemmas/SrcEquiv/SrcNcClientSystem.lean`) and concludes about the generated client struct, the generated
  query functions, or the outputs of the generated calls.  Each is proved by transporting a model theorem along the
  simulation `crun_sim_conv`.
-/
import RenetVerif.Lemmas.SrcEquiv.SrcNcClientSystem
import RenetVerif.Props.C18U
import RenetVerif.Props.C18V
import RenetVerif.Props.C07
import RenetVerif.Props.C04
set_option linter.unusedSimpArgs false
set_option linter.unusedVariables false
namespace RenetVerif.SrcPropsNcClientHistory
open RenetVerif RenetVerif.SrcEquiv RenetVerif.RustSem RenetVerif.Netcode RenetVerif.SrcNcClientSystem RenetVerif.NcLive3

/-- **`g` is reached by a generated client run** from the generated `NetcodeClient::new`, in range -/
inductive GCReach (a : AEAD) : GNcC → Prop
  | exec {ct : Nat} {tok : Netcode.ConnectToken} {r1 r2 r3 r4 : List Nat} {ops : List CliOp} {g : GNcC} :
      CliInRange tok ops → GNcC.exec a ct tok r1 r2 r3 r4 ops = some g → GCReach a g

/-- the simulation, packaged: a generated-reachable client state is related to a model client satisfying `CliInv` -/
theorem gcreach_model {a : AEAD} (hl : a.Laws) {g : GNcC} (h : GCReach a g) : ∃ m, CliInv m.cli ∧ SimNcC m g := by
  cases h with
  | exec hr hg =>
    obtain ⟨m, hm, hsim⟩ := crun_sim_conv a hl _ _ _ _ _ _ _ g hr hg
    exact ⟨m, inv_mexec hr.1 hm, hsim⟩

/-! ## C07, client half: no byte string makes the generated client unwind -/

/-- **C07 `client_process_packet_total` after any generated run**: in every state reachable by a generated client run, the
    generated `process_packet` returns normally for EVERY byte string (shorter than `2^64 - 16` bytes).
    (Transports `C07.client_process_packet_total` = `NetcodeClient.processPacket_total`; no model-side hypothesis.) -/
theorem packet_total {a : AEAD} (hl : a.Laws) {g : GNcC} (h : GCReach a g) (buf : Bytes) (hb : buf.length + 16 < 2 ^ 64) :
    ∃ g', g.step a (.packet buf) = some g' ∧ GCReach a g' := by
  obtain ⟨m, hi, hsim⟩ := gcreach_model hl h
  have hs := cstep_sim a hl hi hsim (.packet buf) hb
  obtain ⟨r, c', hp⟩ := C07.client_process_packet_total a m.cli buf
  have hm : m.step a (.packet buf) = some ⟨c', m.outs ++ [.received r]⟩ := by
    unfold MNcC.step mcstep
    simp only [hp]
  rw [hm] at hs
  obtain ⟨g', e, -⟩ := hs
  refine ⟨g', e, ?_⟩
  cases h with
  | @exec ct tok r1 r2 r3 r4 ops g hr hg =>
    refine .exec (ct := ct) (r1 := r1) (r2 := r2) (r3 := r3) (r4 := r4) (ops := ops ++ [.packet buf]) ⟨hr.1, fun o ho => ?_⟩ ?_
    · rcases List.mem_append.mp ho with h1 | h1
      · exact hr.2 o h1
      · rw [List.mem_singleton] at h1; subst h1; exact hb
    · unfold GNcC.exec at hg ⊢
      cases h0 : GNcC.init a ct tok r1 r2 r3 r4 with
      | none => rw [h0] at hg; cases hg
      | some g0 =>
        rw [h0] at hg
        simp only [GNcC.run_append, hg, Option.bind_some, GNcC.run, e]

/-- **… over traces**: a generated client run continued by ANY sequence of datagrams (each shorter than `2^64 - 16` bytes) handed
    to the generated `process_packet` never unwinds. -/
theorem packets_total {a : AEAD} (hl : a.Laws) : ∀ (bufs : List Bytes) {g : GNcC}, GCReach a g →
    (∀ b ∈ bufs, b.length + 16 < 2 ^ 64) → ∃ g', g.run a (bufs.map .packet) = some g' ∧ GCReach a g' := by
  intro bufs
  induction bufs with
  | nil => intro g h _; exact ⟨g, rfl, h⟩
  | cons b bufs ih =>
    intro g h hb
    obtain ⟨g1, e1, h1⟩ := packet_total hl h b (hb b List.mem_cons_self)
    obtain ⟨g', e', h'⟩ := ih h1 (fun x hx => hb x (List.mem_cons_of_mem _ hx))
    exact ⟨g', by simp only [List.map_cons, GNcC.run, e1, e'], h'⟩

/-- **`GNcC.exec … ≠ none`** for a generated execution extended by hostile datagrams: if the generated execution of `ops` from
    `new` succeeds (in range), so does the execution of `ops` followed by any datagrams. -/
theorem exec_packets_ne_none {a : AEAD} (hl : a.Laws) {ct : Nat} {tok : Netcode.ConnectToken} {r1 r2 r3 r4 : List Nat}
    {ops : List CliOp} {g : GNcC} (hr : CliInRange tok ops) (hg : GNcC.exec a ct tok r1 r2 r3 r4 ops = some g)
    (bufs : List Bytes) (hb : ∀ b ∈ bufs, b.length + 16 < 2 ^ 64) :
    GNcC.exec a ct tok r1 r2 r3 r4 (ops ++ bufs.map .packet) ≠ none := by
  obtain ⟨g', e', -⟩ := packets_total hl bufs (.exec hr hg) hb
  unfold GNcC.exec at hg ⊢
  cases h0 : GNcC.init a ct tok r1 r2 r3 r4 with
  | none => rw [h0] at hg; cases hg
  | some g0 =>
    rw [h0] at hg
    simp only [GNcC.run_append, hg, Option.bind_some, e']
    exact fun h => nomatch h

/-! ## C18U: a fresh connected client is never timed out, over every generated client trace -/

theorem isConnected_of {c : Netcode.NetcodeClient} (h : c.state = .connected) : c.isConnected = true := by
  unfold Netcode.NetcodeClient.isConnected; rw [h]; rfl
theorem isDisconnected_of {c : Netcode.NetcodeClient} (h : c.state = .connected) : c.isDisconnected = false := by
  unfold Netcode.NetcodeClient.isDisconnected; rw [h]

/-- **C18U `client_never_timed_out` over every generated client trace** (from any pair of related states).  The generated state
    `g` represents the model client `m.cli` (`SimNcC`, e.g. by `crun_sim` / `gcreach_model`), which satisfies `CliInv` and is
    `Connected`.  `ops` is ANY trace of `update(d)` / `process_packet(any bytes)` / `generate_payload_packet(p)` calls (in
    range) that the generated code runs to its end.  The trace hypothesis `CFresh` is stated on the related model client: at
    every `update(d)` the token's timeout is not positive or `now + d ≤ last + timeout` (`last`: the time of the most recent
    datagram authentic for the client), and no datagram is the server's authentic Disconnect packet; forged / replayed /
    malformed datagrams are unconstrained.
    Then the generated `is_connected()` returns `true`, `is_disconnected()` `false`, `disconnect_reason()` `None`; the generated
    struct still holds the same connect token, client id, server address and address index; and its
    `last_packet_received_time` is exactly the ghost timer `cLastRun` (forged / replayed datagrams did not move it).
    (Transports `C18U.client_never_timed_out`.) -/
theorem client_never_timed_out {a : AEAD} (hl : a.Laws) {m : MNcC} {g g' : GNcC} (hi : CliInv m.cli) (hsim : SimNcC m g)
    {ops : List COp} (hr : CliOpsInRange (ops.map ofC)) (hrun : g.run a (ops.map ofC) = some g')
    (hst : m.cli.state = .connected) (hfresh : CFresh a m.cli m.cli.lastPacketReceivedTime ops) :
    (Src.renetcode.client.NetcodeClient.is_connected g'.cli : Res Empty _) = .ok true ∧
    (Src.renetcode.client.NetcodeClient.is_disconnected g'.cli : Res Empty _) = .ok false ∧
    (Src.renetcode.client.NetcodeClient.disconnect_reason g'.cli : Res Empty _) = .ok none ∧
    g'.cli.connect_token = g.cli.connect_token ∧ g'.cli.client_id = g.cli.client_id ∧
    g'.cli.server_addr = g.cli.server_addr ∧ g'.cli.server_addr_index = g.cli.server_addr_index ∧
    g'.cli.last_packet_received_time = cLastRun a m.cli m.cli.lastPacketReceivedTime ops := by
  obtain ⟨m', hm', hsim'⟩ := crun_sim_conv_of a hl _ hi hsim hr hrun
  obtain ⟨rs, hro⟩ := mcrun_runCOps ops hm'
  obtain ⟨h1, h2, hk, h4⟩ := C18U.client_never_timed_out a hst hfresh hro
  obtain ⟨out, _, hs⟩ := hsim.cli
  obtain ⟨out', _, hs'⟩ := hsim'.cli
  rw [hs, hs']
  refine ⟨?_, ?_, ?_, ?_, ?_, ?_, ?_, ?_⟩
  · rw [SrcTie.nc_client_is_connected, isConnected_of h1]
  · rw [SrcTie.nc_client_is_disconnected, isDisconnected_of h1]
  · rw [SrcTie.nc_client_disconnect_reason, h2]; rfl
  · show reprTok m'.cli.connectToken = reprTok m.cli.connectToken
    rw [hk.tok]
  · exact hk.id
  · show reprAddr m'.cli.serverAddr = reprAddr m.cli.serverAddr
    rw [hk.srv]
  · exact hk.idx
  · exact h4

/-- the hypotheses of `client_never_timed_out` from `new`, as one decidable check: the model execution of `ops0` from `new`
    succeeds in a `Connected` client for which `ops` is `CFresh` -/
def cFreshAfterB (a : AEAD) (ct : Nat) (tok : Netcode.ConnectToken) (ops0 : List CliOp) (ops : List COp) : Bool :=
  match MNcC.exec a ct tok ops0 with
  | some m => decide (m.cli.state = .connected) && cFreshB a m.cli m.cli.lastPacketReceivedTime ops
  | none => false

theorem exec_append {a : AEAD} {ct : Nat} {tok : Netcode.ConnectToken} {r1 r2 r3 r4 : List Nat} {ops0 ops : List CliOp}
    {g : GNcC} (hg : GNcC.exec a ct tok r1 r2 r3 r4 ops0 = some g) :
    GNcC.exec a ct tok r1 r2 r3 r4 (ops0 ++ ops) = g.run a ops := by
  unfold GNcC.exec at hg ⊢
  cases h0 : GNcC.init a ct tok r1 r2 r3 r4 with
  | none => rw [h0] at hg; cases hg
  | some g0 =>
    rw [h0] at hg
    simp only [GNcC.run_append, hg, Option.bind_some]

theorem exec_append_none {a : AEAD} {ct : Nat} {tok : Netcode.ConnectToken} {r1 r2 r3 r4 : List Nat} {ops0 ops : List CliOp}
    (hg : GNcC.exec a ct tok r1 r2 r3 r4 ops0 = none) : GNcC.exec a ct tok r1 r2 r3 r4 (ops0 ++ ops) = none := by
  unfold GNcC.exec at hg ⊢
  cases h0 : GNcC.init a ct tok r1 r2 r3 r4 with
  | none => rfl
  | some g0 =>
    rw [h0] at hg
    simp only [GNcC.run_append, hg, Option.bind_none]

/-- **… from the generated `NetcodeClient::new`**, with the model-side hypotheses in checkable form: the generated execution of
    `ops0` (e.g. the handshake) and then of the trace `ops` succeeds; the model execution of `ops0` ends `Connected` and `ops` is
    `CFresh` for it.  Then after the whole generated execution the generated client is connected, with the token it started
    the trace with. -/
theorem client_never_timed_out_check {a : AEAD} (hl : a.Laws) {ct : Nat} {tok : Netcode.ConnectToken} {r1 r2 r3 r4 : List Nat}
    {ops0 : List CliOp} {ops : List COp} (hB : cFreshAfterB a ct tok ops0 ops = true) (hr0 : CliInRange tok ops0)
    (hr : CliOpsInRange (ops.map ofC)) (hsome : (GNcC.exec a ct tok r1 r2 r3 r4 (ops0 ++ ops.map ofC)).isSome = true) :
    ∃ g g', GNcC.exec a ct tok r1 r2 r3 r4 ops0 = some g ∧ GNcC.exec a ct tok r1 r2 r3 r4 (ops0 ++ ops.map ofC) = some g' ∧
      (Src.renetcode.client.NetcodeClient.is_connected g'.cli : Res Empty _) = .ok true ∧
      (Src.renetcode.client.NetcodeClient.disconnect_reason g'.cli : Res Empty _) = .ok none ∧
      g'.cli.connect_token = g.cli.connect_token := by
  unfold cFreshAfterB at hB
  cases hm : MNcC.exec a ct tok ops0 with
  | none => rw [hm] at hB; cases hB
  | some m =>
    rw [hm] at hB
    simp only [Bool.and_eq_true, decide_eq_true_eq] at hB
    obtain ⟨hst, hf⟩ := hB
    obtain ⟨g, hg, hsim⟩ := crun_sim a hl ct tok r1 r2 r3 r4 ops0 m hr0 hm
    cases hg' : GNcC.exec a ct tok r1 r2 r3 r4 (ops0 ++ ops.map ofC) with
    | none => rw [hg'] at hsome; cases hsome
    | some g' =>
      have hrun : g.run a (ops.map ofC) = some g' := by rw [← exec_append hg]; exact hg'
      have := client_never_timed_out hl (inv_mexec hr0.1 hm) hsim hr hrun hst hf
      exact ⟨g, g', hg, rfl, this.1, this.2.2.1, this.2.2.2.1⟩

/-- **C18U `timer_moves_iff_authentic` after any generated run**: the generated client `g.cli` represents the `Connected` model
    client `m.cli`; the datagram is not the server's authentic Disconnect.  Then after the generated `process_packet` the
    generated client is still connected, and its `last_packet_received_time` moved — to its clock — exactly when the datagram
    was `CAuthentic` (decoded under the server-to-client key, passed the replay window, KeepAlive or Payload).
    (Transports `C18U.timer_moves_iff_authentic`.) -/
theorem timer_moves_iff_authentic {a : AEAD} (hl : a.Laws) {m : MNcC} {g g' : GNcC} (hi : CliInv m.cli) (hsim : SimNcC m g)
    {buf : Bytes} (hb : buf.length + 16 < 2 ^ 64) (hst : m.cli.state = .connected) (hnd : ¬ CAuthDisconnect a m.cli buf)
    (hstep : g.step a (.packet buf) = some g') :
    (Src.renetcode.client.NetcodeClient.is_connected g'.cli : Res Empty _) = .ok true ∧
    (CAuthentic a m.cli buf → g'.cli.last_packet_received_time = g.cli.current_time) ∧
    (¬ CAuthentic a m.cli buf → g'.cli.last_packet_received_time = g.cli.last_packet_received_time) := by
  have hs := cstep_sim a hl hi hsim (.packet buf) hb
  cases hm : m.step a (.packet buf) with
  | none => rw [hm] at hs; rw [hs] at hstep; cases hstep
  | some m' =>
    rw [hm] at hs
    obtain ⟨g'', e, hsim'⟩ := hs
    rw [hstep] at e; cases e
    obtain ⟨r, hms, -⟩ := mstep_spec hm
    have hpp : ∃ p, m.cli.processPacket a buf = .ok (p, m'.cli) := by
      unfold mcstep at hms
      dsimp only at hms
      cases hp : m.cli.processPacket a buf with
      | ok x =>
        obtain ⟨p, c'⟩ := x
        rw [hp] at hms
        simp only [Option.some.injEq, Prod.mk.injEq] at hms
        exact ⟨p, by rw [hms.2]⟩
      | err e => exact nomatch e
      | panic msg => rw [hp] at hms; cases hms
    obtain ⟨p, hp⟩ := hpp
    obtain ⟨h1, h2, h3⟩ := C18U.timer_moves_iff_authentic hst hnd hp
    obtain ⟨out, _, hs0⟩ := hsim.cli
    obtain ⟨out', _, hs'⟩ := hsim'.cli
    rw [hs0, hs']
    exact ⟨by rw [SrcTie.nc_client_is_connected, isConnected_of h1], h2, h3⟩

/-! ## C04, client half: a replayed datagram surfaces no payload, after any generated run -/

/-- **C04 `client_replay_rejected` after any generated run**: `g.cli` represents `m.cli`; once the client's replay window (read
    on the related model client) reports the sequence number of `buf` as received, the generated `process_packet` surfaces no
    payload for `buf` — the accepted datagram, any copy, any modification that keeps the sequence bytes.
    (Transports `C04.client_replay_rejected`.) -/
theorem client_replay_rejected {a : AEAD} (hl : a.Laws) {m : MNcC} {g : GNcC} (hi : CliInv m.cli) (hsim : SimNcC m g)
    {buf : Bytes} (hb : buf.length + 16 < 2 ^ 64)
    (hdup : m.cli.replayProtection.alreadyReceived (Netcode.Packet.wireSeq buf) = true)
    {c' : SNetcodeClient} {buf' p : List Nat} :
    @Src.renetcode.client.NetcodeClient.process_packet (aeadOf a) Empty g.cli (toNats buf) ≠ .ok (c', buf', some p) := by
  intro hp
  obtain ⟨out, _, hs⟩ := hsim.cli
  rw [hs] at hp
  have tie := SrcTie.nc_client_process_packet (ε := Empty) a hl out m.cli buf hb
  cases hm : m.cli.processPacket a buf with
  | ok x =>
    obtain ⟨q, c1⟩ := x
    rw [hm] at tie
    obtain ⟨b', e⟩ := tie
    rw [e] at hp
    simp only [Res.ok.injEq, Prod.mk.injEq] at hp
    obtain ⟨-, -, hq⟩ := hp
    cases q with
    | none => cases hq
    | some q0 => exact C04.client_replay_rejected a hdup q0 c1 hm
  | err e => exact nomatch e
  | panic msg =>
    rw [hm] at tie
    obtain ⟨m', e⟩ := tie
    rw [e] at hp; cases hp

/-! ## non-vacuity: a concrete generated client run (world of `Lemmas/NcExamples.lean`, AEAD `Ex.a` with `C18V.a_laws`)

  The generated `NetcodeClient::new(0, Secure { tokenA }, ..)`, the handshake (`update(0)` → connection request; the server's
  challenge; `update(250 ms)` → response; the server's keep-alive: connected), then `C18U.traceCl` (clock steps up to the
  time-out boundary, the authentic keep-alive, a forged one, its replay, a Challenge, a payload), then hostile datagrams.
  Evaluated by the kernel on the generated code. -/
section Examples
open NS.Ex

def hsCli : List CliOp := [.update 0, .packet chalA, .update 250000000, .packet kaA]
def hostileC : Bytes := 21 :: 7 :: List.replicate 30 255
def exCliOps : List CliOp := hsCli ++ C18U.traceCl.map ofC ++ [.packet hostileC, .packet [], .sendPayload [1], .disconnect]

def okOr {α : Type} (d : α) : Res Empty α → α
  | .ok x => x
  | _ => d

/-- what an example shows of a generated output -/
def shapeC : GCOut → String × Nat
  | .sent none => ("sent", 0)
  | .sent (some x) => ("sent", x.1.length)
  | .received none => ("received", 0)
  | .received (some p) => ("received", p.length + 1)
  | .payload r => ("payload", r.2.length)
  | .payloadErr _ => ("payloadErr", 0)
  | .disconnected r => ("disconnected", r.2.length)
  | .disconnectErr _ => ("disconnectErr", 0)

set_option maxRecDepth 100000 in
/-- **the generated client run succeeds** (kernel evaluation of the generated code): request (1078 bytes), nothing surfaced for
    the challenge, response (326 bytes), …, the payload datagram (20 bytes), …, the Disconnect packet (18 bytes); at the end
    the generated `is_disconnected()` is `true` -/
theorem ex_cli_run : (GNcC.exec NS.Ex.a 0 tokenA [] [] [] [] exCliOps).map
      (fun g => (g.outs.map shapeC, okOr false (Src.renetcode.client.NetcodeClient.is_disconnected g.cli))) =
    some ([("sent", 1078), ("received", 0), ("sent", 326), ("received", 0),
      ("sent", 26), ("received", 0), ("sent", 26), ("received", 0), ("received", 0), ("received", 0), ("payload", 20),
      ("sent", 0), ("received", 0), ("received", 0), ("payload", 19), ("disconnected", 18)], true) := by decide +kernel

theorem hsCli_inRange : CliInRange tokenA hsCli := by decide +kernel
theorem traceCl_inRange : CliOpsInRange (C18U.traceCl.map ofC) := by decide +kernel

set_option maxRecDepth 100000 in
/-- the model execution of the handshake from `new` ends `Connected`, and `C18U.traceCl` is `CFresh` for it -/
theorem ex_cli_fresh : cFreshAfterB NS.Ex.a 0 tokenA hsCli C18U.traceCl = true := by decide +kernel
set_option maxRecDepth 100000 in
theorem ex_cli_trace_runs : (GNcC.exec NS.Ex.a 0 tokenA [] [] [] [] (hsCli ++ C18U.traceCl.map ofC)).isSome = true := by
  decide +kernel

/-- `client_never_timed_out_check` instantiated: after the generated handshake and the generated run of `C18U.traceCl` the
    generated client is connected -/
example : ∃ g g', GNcC.exec NS.Ex.a 0 tokenA [] [] [] [] hsCli = some g ∧
    GNcC.exec NS.Ex.a 0 tokenA [] [] [] [] (hsCli ++ C18U.traceCl.map ofC) = some g' ∧
    (Src.renetcode.client.NetcodeClient.is_connected g'.cli : Res Empty _) = .ok true ∧
    (Src.renetcode.client.NetcodeClient.disconnect_reason g'.cli : Res Empty _) = .ok none ∧
    g'.cli.connect_token = g.cli.connect_token :=
  client_never_timed_out_check C18V.a_laws ex_cli_fresh hsCli_inRange traceCl_inRange ex_cli_trace_runs

/-- `exec_packets_ne_none` instantiated: the generated handshake followed by ANY datagrams does not unwind -/
example (bufs : List Bytes) (hb : ∀ b ∈ bufs, b.length + 16 < 2 ^ 64) :
    GNcC.exec NS.Ex.a 0 tokenA [] [] [] [] (hsCli ++ bufs.map .packet) ≠ none := by
  have h := ex_cli_trace_runs
  cases hg : GNcC.exec NS.Ex.a 0 tokenA [] [] [] [] hsCli with
  | none =>
    rw [exec_append_none hg] at h; cases h
  | some g => exact exec_packets_ne_none C18V.a_laws hsCli_inRange hg bufs hb

end Examples

end RenetVerif.SrcPropsNcClientHistory

/-
  NOT DONE (nothing below is claimed):
  * totality of the generated `update` / `generate_payload_packet` / `disconnect` along whole traces.  The model has the per-call
    `C07.client_update_total` under `NetcodeClient.CInv` (time stamps not in the future, a full 32-entry address array — i.e. a
    token obtained from `ConnectToken::read` —, an `i32` timeout) plus clock and sequence head-room; there is no model TRACE
    theorem, and `CInv` is not the invariant `CliInv` the closed ties use.  What IS transported: no byte string handed to the
    generated `process_packet` unwinds, at any point of any generated run (`packet_total`, `packets_total`,
    `exec_packets_ne_none`) — hostile input reaches the client only there.
  * C04 at-most-once over a whole generated client run (the model has `Recv.run` for a run of `decode` calls and the per-call
    `client_replay_rejected`, transported above; the link "the client's stored window along `cstep` runs is the `Recv.run`
    window of the datagrams presented" is not proved at the model level).
  * `NetcodeClient::new` with `ClientAuthentication::Unsecure` (token generated from the four explicit random values;
    `SrcTie.nc_client_new_unsecure`) as a start of `GNcC`.
  DONE LATER (round 20): the second bullet (C04 over whole client runs) and C17 client nonces → Props/C04C.lean,
  Props/SrcPropsNcClientTrace.lean.  The first and third bullets are still open.
-/
