/-
  Source tie, group NcSerialize: `renetcode/src/serialize.rs` (whole file: `read_u64/u32/u16/u8`, `read_bytes<N>`,
  `read_i32`) and `renetcode/src/packet.rs` `read_sequence`, `get_additional_data` (`write_sequence`: group NcSequence), translated over
  the `io::Cursor` models of RustSem (`&mut impl io::Read` ↦ `ReadCursor`, `&mut impl io::Write` ↦ `WriteCursor`),
  ↔ the readers / the writer `Wr` of `Netcode/Util.lean` and `Netcode/Wire.lean`.

  `rcur buf rest` is the read cursor over `buf` whose unread part is the suffix `rest`; `rdRes buf f r` turns a model
  reader result (`some (value, rest')` / `none`) into the generated outcome (`.ok (rcur buf rest', f value)` /
  `.err (_, cursor)` — `io::Error`s are not distinguished; after `UnexpectedEof` the cursor stands at the end of the
  buffer, `rdResE` names another position).  `wcur w tail` is the write cursor that has written `w.out` and still
  has the bytes `tail` of the buffer in front of it (`WrOk w tail : w.out.length + tail.length = w.cap`).
-/
import RenetVerif.Lemmas.SrcEquiv.NcSerialize
namespace RenetVerif.SrcTie
open RenetVerif RenetVerif.SrcEquiv RenetVerif.RustSem Netcode

/-- `read_u64`, `read_u32`, `read_u16`, `read_u8` at any cursor position: the model readers `readU64` … `readU8` -/
theorem nc_read_uN (buf rest : Bytes) (h : rest <:+ buf) :
    Src.renetcode.serialize.read_u64 (rcur buf rest) = rdRes buf id (readU64 rest) ∧
    Src.renetcode.serialize.read_u32 (rcur buf rest) = rdRes buf id (readU32 rest) ∧
    Src.renetcode.serialize.read_u16 (rcur buf rest) = rdRes buf id (readU16 rest) ∧
    Src.renetcode.serialize.read_u8 (rcur buf rest) = rdRes buf id (readU8 rest) :=
  read_uN_eq h

/-- `read_bytes::<N>` ↔ `readN N` -/
theorem nc_read_bytes (buf rest : Bytes) (h : rest <:+ buf) (n : Nat) :
    Src.renetcode.serialize.read_bytes n (rcur buf rest) = rdRes buf toNats (readN n rest) :=
  read_bytes_eq h n

/-- `read_i32` ↔ `readI32` -/
theorem nc_read_i32 (buf rest : Bytes) (h : rest <:+ buf) :
    Src.renetcode.serialize.read_i32 (rcur buf rest) = rdRes buf id (readI32 rest) :=
  read_i32_eq h

/-- `read_sequence(source, len)` ↔ `Packet.readSequence` (for every `len`, including `len > 8`): never panics -/
theorem nc_read_sequence (buf rest : Bytes) (h : rest <:+ buf) (len : Nat) :
    Src.renetcode.packet.read_sequence (rcur buf rest) len =
      rdResE buf id (if len > 8 then rest else []) (Packet.readSequence rest len) :=
  read_sequence_eq h len

/-- `get_additional_data(prefix, protocol_id)` ↔ `Packet.additionalData`: never panics -/
theorem nc_get_additional_data {ε : Type} (pfx : UInt8) (protocolId : Nat) :
    (Src.renetcode.packet.get_additional_data pfx.toNat protocolId : Res ε (List Nat)) =
      .ok (toNats (Packet.additionalData pfx protocolId)) :=
  get_additional_data_eq pfx protocolId

example : Src.renetcode.serialize.read_u32 ⟨[9, 1, 2, 0, 0, 7], 1⟩ = .ok (⟨[9, 1, 2, 0, 0, 7], 5⟩, 513) := by decide +kernel
example : Src.renetcode.serialize.read_u64 ⟨[9, 1, 2, 0, 0, 7], 1⟩ = .err (.opaque, ⟨[9, 1, 2, 0, 0, 7], 6⟩) := by decide +kernel
example : Src.renetcode.serialize.read_i32 (ReadCursor.new [0xff, 0xff, 0xff, 0xff]) = .ok (⟨[0xff, 0xff, 0xff, 0xff], 4⟩, -1) := by
  decide +kernel
example : Src.renetcode.serialize.read_bytes 2 (ReadCursor.new [5, 6, 7]) = .ok (⟨[5, 6, 7], 2⟩, [5, 6]) := by decide +kernel
example : Src.renetcode.packet.read_sequence (ReadCursor.new [0x34, 0x12, 9]) 2 = .ok (⟨[0x34, 0x12, 9], 2⟩, 0x1234) := by
  decide +kernel
example : Src.renetcode.packet.read_sequence (ReadCursor.new [0x34, 0x12, 9]) 9 = .err (.opaque, ⟨[0x34, 0x12, 9], 0⟩) := by
  decide +kernel
example : (Src.renetcode.packet.get_additional_data 0x25 1 : Res Empty _) =
    .ok [78, 69, 84, 67, 79, 68, 69, 32, 49, 46, 48, 50, 0, 1, 0, 0, 0, 0, 0, 0, 0, 0x25] := by decide +kernel

end RenetVerif.SrcTie
