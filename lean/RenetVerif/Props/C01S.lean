/-
  C01 / C02 / C03 / C08 — SYSTEM level (end to end).

  Two endpoints built from the model functions (`Lemmas/System.lean`): A = `Conn.fromChannels budget send recv`,
  B = the mirror image.  A run is any list of operations
      sendA ch m | recvB ch | updA dt | updB dt | flushA | flushB | deliverToB k | deliverToA k
  where `deliverToB k` hands the k-th datagram A has EVER emitted to `B.process_packet` (k arbitrary: never chosen =
  loss, chosen twice = duplication, chosen late / out of order = delay / reordering), and likewise `deliverToA`.
  `submitted ch` is the ghost list of messages A's application passed to `send_message` on reliable channel `ch`
  that the channel accepted; `obtained ch` the ghost list of messages B's application got from `receive_message`.

  The theorems compose: C15 genuineness of every flush (`SendRel.getPackets_genuine`) + the sender bookkeeping
  invariant `ChanG` (S1) + C13/C16 wire round trip (`reliable_wf`, `Packet.fromBytes_enc`) + the receiver-side
  invariants of C01–C03 (`DataPath.OrdInv`, `DataPath.UnordInv`) + the C08 ack chain.

  Hypothesis `CountersOK cfg s` (on the FINAL state only; it then holds for every earlier state of the run):
  channel ids are bytes, A's `packet_sequence` ≤ 2^62, at most 2^62 messages were submitted per channel, no message
  is longer than MAX_NUM_SLICES * SLICE_SIZE (1.2 GB).  A run in which a model function panics is `none` and is
  excluded by `run … = some s` (absence of panics is the subject of C06/C12/C13).
-/
import RenetVerif.Lemmas.System
namespace RenetVerif.C01S
open RenetVerif C RenetVerif.System

/-- **C01, end to end.**  On a ReliableOrdered channel the sequence of messages the receiving application has
    obtained is, in every reachable state, a prefix of the sequence the sending application submitted — byte
    identical, no gaps, no duplicates, no reordering — whatever the network loses, duplicates, delays or reorders. -/
theorem ordered_prefix_end_to_end (cfg : Cfg) (ops : List SysOp) (s : Sys)
    (hr : (Sys.init cfg).run ops = some s) (hc : CountersOK cfg s) (ch : Nat) (ho : cfg.Ordered ch) :
    s.obtained ch <+: s.submitted ch := by
  obtain ⟨pkA, -, h2, -⟩ := system_inv cfg ops s hr
  have := (h2 hc).concl ch
  rw [relKind_ordered ho] at this
  exact this

/-- the same at every intermediate moment of a longer run, spelled out: the counters hypothesis is only needed for
    the final state -/
theorem ordered_prefix_always (cfg : Cfg) (ops1 ops2 : List SysOp) (s1 s : Sys)
    (hr1 : (Sys.init cfg).run ops1 = some s1) (hr2 : s1.run ops2 = some s) (hc : CountersOK cfg s)
    (ch : Nat) (ho : cfg.Ordered ch) : s1.obtained ch <+: s1.submitted ch :=
  ordered_prefix_end_to_end cfg ops1 s1 hr1 (counters_run cfg ops1 ops2 s1 s hr1 hr2 hc) ch ho

/-- **C02, end to end.**  On a ReliableUnordered channel the obtained messages are the submitted messages at
    pairwise distinct positions of the submission log: each at most once, intact, nothing fabricated. -/
theorem unordered_once_end_to_end (cfg : Cfg) (ops : List SysOp) (s : Sys)
    (hr : (Sys.init cfg).run ops = some s) (hc : CountersOK cfg s) (ch : Nat) (hu : cfg.Unordered ch) :
    ∃ ids : List Nat, ids.Nodup ∧ (s.obtained ch).map some = ids.map (fun id => (s.submitted ch)[id]?) := by
  obtain ⟨pkA, -, h2, -⟩ := system_inv cfg ops s hr
  have := (h2 hc).concl ch
  rw [relKind_unordered hu] at this
  exact this

/-- **C03, end to end (reliable kinds).**  Every message obtained was submitted, byte for byte. -/
theorem integrity_end_to_end (cfg : Cfg) (ops : List SysOp) (s : Sys)
    (hr : (Sys.init cfg).run ops = some s) (hc : CountersOK cfg s) (ch : Nat) (hk : cfg.Ordered ch ∨ cfg.Unordered ch) :
    ∀ x ∈ s.obtained ch, x ∈ s.submitted ch := by
  intro x hx
  rcases hk with ho | hu
  · exact (ordered_prefix_end_to_end cfg ops s hr hc ch ho).subset hx
  · obtain ⟨ids, -, h⟩ := unordered_once_end_to_end cfg ops s hr hc ch hu
    have : some x ∈ (s.obtained ch).map some := List.mem_map.mpr ⟨x, hx, rfl⟩
    rw [h] at this
    obtain ⟨id, -, hid⟩ := List.mem_map.mp this
    exact List.mem_of_getElem? hid

/-- **C08, end to end.**  If message `id` of A's reliable channel `ch` has been issued (`id < next_message_id`) and is
    no longer in `unacked` — A has stopped retransmitting it and given its bytes back to the channel's memory budget —
    then every packet needed to rebuild that message was handed to B: `m` being the `id`-th submitted message,
    * `m` small: some datagram `outA[k]`, `k ∈ deliveredToB`, decodes to a SmallReliable packet of channel `ch`
      containing `(id, m)`;
    * `m` sliced: for EVERY slice index `i < n = ⌈|m| / SLICE_SIZE⌉`, some delivered datagram decodes to the
      ReliableSlice packet `(ch, id, i, n, sliceBytes m n i)`.
    Lost, duplicated, reordered or stale acknowledgements (any `deliverToA` schedule) cannot cause an earlier release. -/
theorem release_only_after_delivery (cfg : Cfg) (ops : List SysOp) (s : Sys)
    (hr : (Sys.init cfg).run ops = some s) (hc : CountersOK cfg s) (ch : Nat) (sA : SendRel)
    (hf : SMap.find? s.a.sendRel ch = some sA) (id : Nat) (hid : id < sA.nextId)
    (hrel : SMap.find? sA.unacked id = none) :
    ∃ m, (s.submitted ch)[id]? = some m ∧
      (m.length ≤ SLICE_SIZE → ∃ k ∈ s.deliveredToB, ∃ bytes sq msgs, s.outA[k]? = some bytes ∧
          Packet.fromBytes bytes = .ok (.smallReliable sq ch msgs) ∧ (id, m) ∈ msgs) ∧
      (SLICE_SIZE < m.length → ∀ i, i < divCeil m.length SLICE_SIZE → ∃ k ∈ s.deliveredToB, ∃ bytes sq,
          s.outA[k]? = some bytes ∧
          Packet.fromBytes bytes = .ok (.reliableSlice sq ch
            ⟨id, i, divCeil m.length SLICE_SIZE, sliceBytes m (divCeil m.length SLICE_SIZE) i⟩)) := by
  obtain ⟨pkA, h1, h2, h3⟩ := system_inv cfg ops s hr
  have h2 := h2 hc
  obtain ⟨hg, -⟩ := h1.chanA ch sA hf
  have hlt : id < (s.submitted ch).length := by rw [← hg.nid]; exact hid
  refine ⟨(s.submitted ch)[id], List.getElem?_eq_getElem hlt, ?_⟩
  obtain ⟨r1, r2⟩ := (h3.relA ch sA hf).gone id _ (List.getElem?_eq_getElem hlt) hrel
  constructor
  · intro hl
    obtain ⟨k, hk, sq, msgs, hp, hin⟩ := r1 hl
    obtain ⟨bytes, hb, hd⟩ := decode_lookup h1 h2 hp rfl
    refine ⟨k, hk, bytes, sq, msgs, hb, hd, ?_⟩
    obtain ⟨x, hx, rfl⟩ := List.mem_map.mp hin
    have hgen : (s.submitted ch)[x.1]? = some x.2 := h1.genA _ (List.mem_of_getElem? hp) x hx
    rw [List.getElem?_eq_getElem hlt] at hgen
    have : x = (x.1, (s.submitted ch)[x.1]) := by rw [Option.some.inj hgen]
    rw [← this]; exact hx
  · intro hl i hi
    obtain ⟨k, hk, sq, sl, hp, e1, e2⟩ := r2 hl i hi
    obtain ⟨bytes, hb, hd⟩ := decode_lookup h1 h2 hp rfl
    refine ⟨k, hk, bytes, sq, hb, ?_⟩
    obtain ⟨m', g1, -, g3, -, g5⟩ : DataPath.GenuineSlice (s.submitted ch) sl := h1.genA _ (List.mem_of_getElem? hp)
    rw [e1, List.getElem?_eq_getElem hlt] at g1
    have hm' := Option.some.inj g1
    subst hm'
    rw [hd]
    cases sl with
    | mk mid idx n payload =>
      simp only at e1 e2 g3 g5
      subst e1 e2 g3 g5
      rfl

/-- … and the same for a message still being transmitted: a slice that A has marked acknowledged (and will not
    retransmit) was handed to B -/
theorem slice_marked_only_after_delivery (cfg : Cfg) (ops : List SysOp) (s : Sys)
    (hr : (Sys.init cfg).run ops = some s) (hc : CountersOK cfg s) (ch : Nat) (sA : SendRel)
    (hf : SMap.find? s.a.sendRel ch = some sA) (id : Nat) (m : Bytes) (n k nx : Nat) (a : List Bool)
    (ls : List (Option Nat)) (hent : SMap.find? sA.unacked id = some (.sliced m n k nx a ls))
    (i : Nat) (hi : a[i]? = some true) :
    ∃ j ∈ s.deliveredToB, ∃ bytes sq, s.outA[j]? = some bytes ∧
      Packet.fromBytes bytes = .ok (.reliableSlice sq ch ⟨id, i, n, sliceBytes m n i⟩) := by
  obtain ⟨pkA, h1, h2, h3⟩ := system_inv cfg ops s hr
  have h2 := h2 hc
  obtain ⟨hg, -⟩ := h1.chanA ch sA hf
  obtain ⟨-, o2, o3, -⟩ := (h1.invA.1.chans ch sA hf).1.find_ok hent
  have hin : i < n := by
    have := (List.getElem?_eq_some_iff.mp hi).1
    omega
  rcases (h3.relA ch sA hf).marked id m n k nx a ls hent i hin with ⟨m2, n2, k2, nx2, a2, ls2, hf2, ha2⟩ | hdel
  · rw [hent] at hf2; cases hf2
    rw [hi] at ha2; cases ha2
  · obtain ⟨j, hj, sq, sl, hp, e1, e2⟩ := hdel
    obtain ⟨bytes, hb, hd⟩ := decode_lookup h1 h2 hp rfl
    refine ⟨j, hj, bytes, sq, hb, ?_⟩
    obtain ⟨m', g1, -, g3, -, g5⟩ : DataPath.GenuineSlice (s.submitted ch) sl := h1.genA _ (List.mem_of_getElem? hp)
    have hm := hg.gen _ (SI.find?_some_mem hent)
    simp only [Unacked.msg] at hm
    rw [e1, hm] at g1
    have hm' := Option.some.inj g1
    subst hm'
    rw [hd]
    cases sl with
    | mk mid idx n' payload =>
      simp only at e1 e2 g3 g5
      subst e1 e2 g5
      rw [g3, o2]

end RenetVerif.C01S
