/-
  C01 / C02 / C03 / C08 — SYSTEM level (end to end).

  Two endpoints built from the model functions (`Lemmas/System.lean`): A = `Conn.fromChannels budget send recv`,
  B = the mirror image.  A run is any list of operations
      sendA ch m | recvB ch | updA dt | updB dt | flushA | flushB | deliverToB k | deliverToA k
  where `deliverToB k` hands the k-th datagram A has EVER emitted to `B.process_packet` (k arbitrary: never chosen =
  loss, chosen twice = duplication, chosen late / out of order = delay / reordering), and likewise `deliverToA`.
  `submitted ch` is the ghost list of messages A's application passed to `send_message` on reliable channel `ch`
  that the channel accepted (message id = position in the list); `submittedU ch` the messages passed to the
  unreliable channel `ch`; `obtained ch` the ghost list of messages B's application got from `receive_message`.

  The theorems compose: C15 genuineness of every flush (`SendRel.getPackets_genuine`) + the sender bookkeeping
  invariant `ChanG` (S1: `next_message_id` = length of the log, every `unacked` entry is the logged message) +
  C13/C16 wire round trip (`reliable_wf`, `Packet.fromBytes_enc`) + the receiver-side invariants of C01–C03
  (`DataPath.OrdInv`, `DataPath.UnordInv`, `DataPath.UInv`) + the C08 ack chain (`release_only_by_ack`,
  `sliced_release_needs_every_slice`, `pending_acks_only_received`, sequence numbers of A's packets are unique).

  Hypothesis `CountersOK cfg s` (on the FINAL state only; `counters_run`: it then holds for every earlier state):
  channel ids are bytes (`u8` in the Rust code), A's `packet_sequence` ≤ 2^62, at most 2^62 messages were submitted
  per reliable channel, no submitted message is longer than MAX_NUM_SLICES * SLICE_SIZE (1.2 GB; the receiver's
  decoder rejects larger slice counts).  A run in which a model function panics is `none` and is excluded by
  `run … = some s` (absence of panics is the subject of C06/C12/C13).
-/
import RenetVerif.Lemmas.System
namespace RenetVerif.C01S
open RenetVerif C RenetVerif.System

/-- **C01, end to end.**  On a ReliableOrdered channel the sequence of messages the receiving application has
    obtained is, in every reachable state, a prefix of the sequence the sending application submitted — byte
    identical, no gaps, no duplicates, no reordering — whatever the network loses, duplicates, delays or reorders. -/
theorem ordered_prefix_end_to_end (cfg : Cfg) (ops : List SysOp) (s : Sys)
    (hr : (Sys.init cfg).run ops = some s) (hc : CountersOK cfg s) (ch : Nat) (ho : cfg.Ordered ch) :
    s.obtained ch <+: s.submitted ch := by
  obtain ⟨pkA, -, h2, -⟩ := system_inv cfg ops s hr
  have := (h2 hc).concl ch
  rw [relKind_ordered ho] at this
  exact this

/-- the same at every intermediate moment of a longer run, spelled out: the counters hypothesis is only needed for
    the final state -/
theorem ordered_prefix_always (cfg : Cfg) (ops1 ops2 : List SysOp) (s1 s : Sys)
    (hr1 : (Sys.init cfg).run ops1 = some s1) (hr2 : s1.run ops2 = some s) (hc : CountersOK cfg s)
    (ch : Nat) (ho : cfg.Ordered ch) : s1.obtained ch <+: s1.submitted ch :=
  ordered_prefix_end_to_end cfg ops1 s1 hr1 (counters_run cfg ops1 ops2 s1 s hr1 hr2 hc) ch ho

/-- **C02, end to end.**  On a ReliableUnordered channel the obtained messages are the submitted messages at
    pairwise distinct positions of the submission log: each at most once, intact, nothing fabricated. -/
theorem unordered_once_end_to_end (cfg : Cfg) (ops : List SysOp) (s : Sys)
    (hr : (Sys.init cfg).run ops = some s) (hc : CountersOK cfg s) (ch : Nat) (hu : cfg.Unordered ch) :
    ∃ ids : List Nat, ids.Nodup ∧ (s.obtained ch).map some = ids.map (fun id => (s.submitted ch)[id]?) := by
  obtain ⟨pkA, -, h2, -⟩ := system_inv cfg ops s hr
  have := (h2 hc).concl ch
  rw [relKind_unordered hu] at this
  exact this

/-- **C03, end to end (reliable kinds).**  Every message obtained was submitted, byte for byte. -/
theorem integrity_end_to_end (cfg : Cfg) (ops : List SysOp) (s : Sys)
    (hr : (Sys.init cfg).run ops = some s) (hc : CountersOK cfg s) (ch : Nat) (hk : cfg.Ordered ch ∨ cfg.Unordered ch) :
    ∀ x ∈ s.obtained ch, x ∈ s.submitted ch := by
  intro x hx
  rcases hk with ho | hu
  · exact (ordered_prefix_end_to_end cfg ops s hr hc ch ho).subset hx
  · obtain ⟨ids, -, h⟩ := unordered_once_end_to_end cfg ops s hr hc ch hu
    have : some x ∈ (s.obtained ch).map some := List.mem_map.mpr ⟨x, hx, rfl⟩
    rw [h] at this
    obtain ⟨id, -, hid⟩ := List.mem_map.mp this
    exact List.mem_of_getElem? hid

/-- **C03, end to end (unreliable kind).**  On an Unreliable channel every message the receiving application
    obtains — small, or reassembled from slices — is byte-identical to one that was passed to `send_message` on that
    channel (`submittedU`); nothing is fabricated, nothing is assembled from slices of different messages. -/
theorem integrity_unreliable_end_to_end (cfg : Cfg) (ops : List SysOp) (s : Sys)
    (hr : (Sys.init cfg).run ops = some s) (hc : CountersOK cfg s) (ch : Nat) (hk : cfg.Unreliable ch) :
    ∀ x ∈ s.obtained ch, x ∈ s.submittedU ch := by
  obtain ⟨pkA, -, -, -, Lg, -, hB⟩ := system_inv cfg ops s hr
  exact (hB hc).conclU ch (relKind_unreliable hk)

/-- **C08, end to end.**  If message `id` of A's reliable channel `ch` has been issued (`id < next_message_id`) and is
    no longer in `unacked` — A has stopped retransmitting it and given its bytes back to the channel's memory budget —
    then every packet needed to rebuild that message was handed to B: `m` being the `id`-th submitted message,
    * `m` small: some datagram `outA[k]`, `k ∈ deliveredToB`, decodes to a SmallReliable packet of channel `ch`
      containing `(id, m)`;
    * `m` sliced: for EVERY slice index `i < n = ⌈|m| / SLICE_SIZE⌉`, some delivered datagram decodes to the
      ReliableSlice packet `(ch, id, i, n, sliceBytes m n i)`.
    Lost, duplicated, reordered or stale acknowledgements (any `deliverToA` schedule) cannot cause an earlier release. -/
theorem release_only_after_delivery (cfg : Cfg) (ops : List SysOp) (s : Sys)
    (hr : (Sys.init cfg).run ops = some s) (hc : CountersOK cfg s) (ch : Nat) (sA : SendRel)
    (hf : SMap.find? s.a.sendRel ch = some sA) (id : Nat) (hid : id < sA.nextId)
    (hrel : SMap.find? sA.unacked id = none) :
    ∃ m, (s.submitted ch)[id]? = some m ∧
      (m.length ≤ SLICE_SIZE → ∃ k ∈ s.deliveredToB, ∃ bytes sq msgs, s.outA[k]? = some bytes ∧
          Packet.fromBytes bytes = .ok (.smallReliable sq ch msgs) ∧ (id, m) ∈ msgs) ∧
      (SLICE_SIZE < m.length → ∀ i, i < divCeil m.length SLICE_SIZE → ∃ k ∈ s.deliveredToB, ∃ bytes sq,
          s.outA[k]? = some bytes ∧
          Packet.fromBytes bytes = .ok (.reliableSlice sq ch
            ⟨id, i, divCeil m.length SLICE_SIZE, sliceBytes m (divCeil m.length SLICE_SIZE) i⟩)) := by
  obtain ⟨pkA, h1, h2, h3, -⟩ := system_inv cfg ops s hr
  have h2 := h2 hc
  obtain ⟨hg, -⟩ := h1.chanA ch sA hf
  have hlt : id < (s.submitted ch).length := by rw [← hg.nid]; exact hid
  refine ⟨(s.submitted ch)[id], List.getElem?_eq_getElem hlt, ?_⟩
  obtain ⟨r1, r2⟩ := (h3.relA ch sA hf).gone id _ (List.getElem?_eq_getElem hlt) hrel
  constructor
  · intro hl
    obtain ⟨k, hk, sq, msgs, hp, hin⟩ := r1 hl
    obtain ⟨bytes, hb, hd⟩ := decode_lookup h1 h2 hp rfl
    refine ⟨k, hk, bytes, sq, msgs, hb, hd, ?_⟩
    obtain ⟨x, hx, rfl⟩ := List.mem_map.mp hin
    have hgen : (s.submitted ch)[x.1]? = some x.2 := h1.genA _ (List.mem_of_getElem? hp) x hx
    rw [List.getElem?_eq_getElem hlt] at hgen
    have : x = (x.1, (s.submitted ch)[x.1]) := by rw [Option.some.inj hgen]
    rw [← this]; exact hx
  · intro hl i hi
    obtain ⟨k, hk, sq, sl, hp, e1, e2⟩ := r2 hl i hi
    obtain ⟨bytes, hb, hd⟩ := decode_lookup h1 h2 hp rfl
    refine ⟨k, hk, bytes, sq, hb, ?_⟩
    obtain ⟨m', g1, -, g3, -, g5⟩ : DataPath.GenuineSlice (s.submitted ch) sl := h1.genA _ (List.mem_of_getElem? hp)
    rw [e1, List.getElem?_eq_getElem hlt] at g1
    have hm' := Option.some.inj g1
    subst hm'
    rw [hd]
    cases sl with
    | mk mid idx n payload =>
      simp only at e1 e2 g3 g5
      subst e1 e2 g3 g5
      rfl

/-- … and the same for a message still being transmitted: a slice that A has marked acknowledged (and will not
    retransmit) was handed to B -/
theorem slice_marked_only_after_delivery (cfg : Cfg) (ops : List SysOp) (s : Sys)
    (hr : (Sys.init cfg).run ops = some s) (hc : CountersOK cfg s) (ch : Nat) (sA : SendRel)
    (hf : SMap.find? s.a.sendRel ch = some sA) (id : Nat) (m : Bytes) (n k nx : Nat) (a : List Bool)
    (ls : List (Option Nat)) (hent : SMap.find? sA.unacked id = some (.sliced m n k nx a ls))
    (i : Nat) (hi : a[i]? = some true) :
    ∃ j ∈ s.deliveredToB, ∃ bytes sq, s.outA[j]? = some bytes ∧
      Packet.fromBytes bytes = .ok (.reliableSlice sq ch ⟨id, i, n, sliceBytes m n i⟩) := by
  obtain ⟨pkA, h1, h2, h3, -⟩ := system_inv cfg ops s hr
  have h2 := h2 hc
  obtain ⟨hg, -⟩ := h1.chanA ch sA hf
  obtain ⟨-, o2, o3, -⟩ := (h1.invA.1.chans ch sA hf).1.find_ok hent
  have hin : i < n := by
    have := (List.getElem?_eq_some_iff.mp hi).1
    omega
  rcases (h3.relA ch sA hf).marked id m n k nx a ls hent i hin with ⟨m2, n2, k2, nx2, a2, ls2, hf2, ha2⟩ | hdel
  · rw [hent] at hf2; cases hf2
    rw [hi] at ha2; cases ha2
  · obtain ⟨j, hj, sq, sl, hp, e1, e2⟩ := hdel
    obtain ⟨bytes, hb, hd⟩ := decode_lookup h1 h2 hp rfl
    refine ⟨j, hj, bytes, sq, hb, ?_⟩
    obtain ⟨m', g1, -, g3, -, g5⟩ : DataPath.GenuineSlice (s.submitted ch) sl := h1.genA _ (List.mem_of_getElem? hp)
    have hm := hg.gen _ (SI.find?_some_mem hent)
    simp only [Unacked.msg] at hm
    rw [e1, hm] at g1
    have hm' := Option.some.inj g1
    subst hm'
    rw [hd]
    cases sl with
    | mk mid idx n' payload =>
      simp only at e1 e2 g3 g5
      subst e1 e2 g5
      rw [g3, o2]

/-! ## non-vacuity: concrete runs evaluated by the kernel

  `Ex` — one ReliableOrdered channel (id 0) each way, 60000 bytes per tick, resend time 100 ns.
  A submits a 3-byte message (id 0) and a 1300-byte message (id 1: two slices of 1200 and 100 bytes) and flushes:
  `outA[0]` = slice 0 of message 1, `outA[1]` = slice 1, `outA[2]` = the small-message packet.
  The network delivers `outA[1]`, `outA[2]`, `outA[1]` again (duplicate) — B's application gets message 0 only
  (state `mid`).  B's ack (`outB[0]`, covering packets 1..2) reaches A, which releases message 0 and marks slice 1;
  after the resend time A flushes again (`outA[3]` = slice 0 retransmitted, `outA[4]` = A's own ack packet);
  `outA[3]` is delivered, B's application gets message 1; B's second ack (`outB[1]`, packets 1..3) reaches A, which
  releases message 1; finally the stale first ack arrives again.  `outA[0]` and `outA[4]` are never delivered. -/
namespace Ex

def cfg : Cfg := ⟨60000, [⟨0, .ordered, 100000, 100⟩], [⟨0, .ordered, 100000, 100⟩]⟩
def m0 : Bytes := [1, 2, 3]
def m1 : Bytes := List.replicate 1200 7 ++ List.replicate 100 9
def ops1 : List SysOp :=
  [.sendA 0 m0, .sendA 0 m1, .flushA, .deliverToB 1, .deliverToB 2, .recvB 0, .deliverToB 1, .recvB 0]
def ops2 : List SysOp :=
  [.flushB, .deliverToA 0, .updA 1000, .flushA, .deliverToB 3, .recvB 0, .recvB 0, .flushB, .deliverToA 1, .deliverToA 0]

def mid : Sys := ((Sys.init cfg).run ops1).getD (Sys.init cfg)
def fin : Sys := (mid.run ops2).getD (Sys.init cfg)

theorem run1 : (Sys.init cfg).run ops1 = some mid := some_getD (by decide +kernel) _
theorem run2 : mid.run ops2 = some fin := some_getD (by decide +kernel) _
theorem run12 : (Sys.init cfg).run (ops1 ++ ops2) = some fin := by
  rw [Sys.run_append, run1, Option.bind_some, run2]

/-- everything the examples below need to know about the two states, evaluated once by the kernel -/
theorem facts :
    (fin.a.packetSeq ≤ Varint.MAX + 1 ∧ (∀ c ∈ cfg.send, (fin.submitted c.id).length ≤ Varint.MAX + 1) ∧
      (∀ c ∈ cfg.send, ∀ m ∈ fin.submitted c.id, m.length ≤ MAX_NUM_SLICES * SLICE_SIZE) ∧
      (∀ c ∈ cfg.send, ∀ m ∈ fin.submittedU c.id, m.length ≤ MAX_NUM_SLICES * SLICE_SIZE)) ∧
    (mid.submitted 0 = [m0, m1] ∧ mid.obtained 0 = [m0] ∧ fin.submitted 0 = [m0, m1] ∧ fin.obtained 0 = [m0, m1] ∧
      fin.deliveredToB = [1, 2, 1, 3] ∧ fin.outA.length = 5 ∧ fin.outB.length = 2) ∧
    ((SMap.find? fin.a.sendRel 0).map (fun s => (s.nextId, s.unacked, s.available)) = some (2, [], 100000) ∧
      (SMap.find? mid.a.sendRel 0).map (fun s => (s.nextId, s.unacked.map (·.1), s.available)) = some (2, [0, 1], 100000 - 1303)) ∧
    ((fin.outA[2]?).map Packet.fromBytes = some (.ok (.smallReliable 2 0 [(0, m0)])) ∧
      (fin.outA[1]?).map Packet.fromBytes = some (.ok (.reliableSlice 1 0 ⟨1, 1, 2, List.replicate 100 9⟩)) ∧
      (fin.outA[3]?).map Packet.fromBytes = some (.ok (.reliableSlice 3 0 ⟨1, 0, 2, List.replicate 1200 7⟩))) := by
  decide +kernel

/-- the counters hypothesis holds in the final state -/
theorem counters : CountersOK cfg fin := ⟨by decide, facts.1.1, facts.1.2.1, facts.1.2.2.1, facts.1.2.2.2⟩

theorem ordered0 : cfg.Ordered 0 := ⟨⟨_, List.mem_singleton.mpr rfl, rfl, rfl⟩, by decide⟩

/-- C01 at the end of the run … -/
example : fin.obtained 0 <+: fin.submitted 0 := ordered_prefix_end_to_end cfg _ fin run12 counters 0 ordered0
/-- … and at the intermediate moment `mid` -/
example : mid.obtained 0 <+: mid.submitted 0 := ordered_prefix_always cfg ops1 ops2 mid fin run1 run2 counters 0 ordered0
/-- what actually happened: a strict prefix in the middle (message 1 incomplete: slice 0 lost), everything at the end;
    four datagrams were handed to B, one of them twice, two of A's five datagrams never -/
example : mid.submitted 0 = [m0, m1] ∧ mid.obtained 0 = [m0] ∧ fin.submitted 0 = [m0, m1] ∧ fin.obtained 0 = [m0, m1] ∧
    fin.deliveredToB = [1, 2, 1, 3] ∧ fin.outA.length = 5 ∧ fin.outB.length = 2 := facts.2.1
/-- C03 -/
example : ∀ x ∈ fin.obtained 0, x ∈ fin.submitted 0 := integrity_end_to_end cfg _ fin run12 counters 0 (Or.inl ordered0)

/-- A's sending channel at the end: both messages released, available memory back to the full budget (in the middle
    both were still stored: `facts.2.2.1.2`) -/
theorem chanFin : ∃ sA, SMap.find? fin.a.sendRel 0 = some sA ∧ sA.nextId = 2 ∧ sA.unacked = [] := by
  have h := facts.2.2.1.1
  cases hf : SMap.find? fin.a.sendRel 0 with
  | none => rw [hf] at h; cases h
  | some sA =>
    rw [hf] at h
    simp only [Option.map_some, Option.some.injEq, Prod.mk.injEq] at h
    exact ⟨sA, rfl, h.1, h.2.1⟩

/-- C08 for the small message 0 and the sliced message 1: the delivered datagrams exist … -/
example (id : Nat) (hid : id < 2) : ∃ m, (fin.submitted 0)[id]? = some m ∧
    (m.length ≤ SLICE_SIZE → ∃ k ∈ fin.deliveredToB, ∃ bytes sq msgs, fin.outA[k]? = some bytes ∧
      Packet.fromBytes bytes = .ok (.smallReliable sq 0 msgs) ∧ (id, m) ∈ msgs) ∧
    (SLICE_SIZE < m.length → ∀ i, i < divCeil m.length SLICE_SIZE → ∃ k ∈ fin.deliveredToB, ∃ bytes sq,
      fin.outA[k]? = some bytes ∧ Packet.fromBytes bytes = .ok (.reliableSlice sq 0
        ⟨id, i, divCeil m.length SLICE_SIZE, sliceBytes m (divCeil m.length SLICE_SIZE) i⟩)) := by
  obtain ⟨sA, hf, hn, hu⟩ := chanFin
  exact release_only_after_delivery cfg _ fin run12 counters 0 sA hf id (by omega) (by rw [hu]; rfl)
/-- … message 0 in `outA[2]`; slice 1 of message 1 in `outA[1]`, slice 0 only in the retransmission `outA[3]` (the
    first copy `outA[0]` was never handed to B) -/
example : (fin.outA[2]?).map Packet.fromBytes = some (.ok (.smallReliable 2 0 [(0, m0)])) ∧
    (fin.outA[1]?).map Packet.fromBytes = some (.ok (.reliableSlice 1 0 ⟨1, 1, 2, List.replicate 100 9⟩)) ∧
    (fin.outA[3]?).map Packet.fromBytes = some (.ok (.reliableSlice 3 0 ⟨1, 0, 2, List.replicate 1200 7⟩)) ∧
    0 ∉ fin.deliveredToB := ⟨facts.2.2.2.1, facts.2.2.2.2.1, facts.2.2.2.2.2, by rw [facts.2.1.2.2.2.2.1]; decide⟩

end Ex

/-! `ExU` — a ReliableUnordered channel 0 from A to B.  A submits a 2-byte message, flushes (`outA[0]`), submits a
    1300-byte message, flushes (`outA[1]`, `outA[2]` = its slices).  Delivery order: `outA[2]`, `outA[1]` — B's
    application gets the LATER message first — then `outA[0]`, then `outA[2]` again. -/
namespace ExU

def cfg : Cfg := ⟨60000, [⟨0, .unordered, 100000, 100⟩], [⟨0, .ordered, 100000, 100⟩]⟩
def a : Bytes := [4, 5]
def b : Bytes := List.replicate 1200 7 ++ List.replicate 100 9
def ops : List SysOp :=
  [.sendA 0 a, .flushA, .sendA 0 b, .flushA, .deliverToB 2, .deliverToB 1, .recvB 0, .deliverToB 0, .deliverToB 2,
   .recvB 0, .recvB 0]
def fin : Sys := ((Sys.init cfg).run ops).getD (Sys.init cfg)

theorem run : (Sys.init cfg).run ops = some fin := some_getD (by decide +kernel) _
theorem facts :
    (fin.a.packetSeq ≤ Varint.MAX + 1 ∧ (∀ c ∈ cfg.send, (fin.submitted c.id).length ≤ Varint.MAX + 1) ∧
      (∀ c ∈ cfg.send, ∀ m ∈ fin.submitted c.id, m.length ≤ MAX_NUM_SLICES * SLICE_SIZE) ∧
      (∀ c ∈ cfg.send, ∀ m ∈ fin.submittedU c.id, m.length ≤ MAX_NUM_SLICES * SLICE_SIZE)) ∧
    (fin.submitted 0 = [a, b] ∧ fin.obtained 0 = [b, a]) := by decide +kernel
theorem counters : CountersOK cfg fin := ⟨by decide, facts.1.1, facts.1.2.1, facts.1.2.2.1, facts.1.2.2.2⟩
theorem unordered0 : cfg.Unordered 0 := ⟨⟨_, List.mem_singleton.mpr rfl, rfl, rfl⟩, by decide⟩

/-- C02 -/
example : ∃ ids : List Nat, ids.Nodup ∧ (fin.obtained 0).map some = ids.map (fun id => (fin.submitted 0)[id]?) :=
  unordered_once_end_to_end cfg ops fin run counters 0 unordered0
/-- what actually happened: out of order, each exactly once (witness `ids = [1, 0]`) -/
example : fin.submitted 0 = [a, b] ∧ fin.obtained 0 = [b, a] := facts.2
/-- C03 -/
example : ∀ x ∈ fin.obtained 0, x ∈ fin.submitted 0 := integrity_end_to_end cfg ops fin run counters 0 (Or.inr unordered0)

end ExU

/-! `ExN` — an Unreliable channel 0 from A to B.  A submits a 2-byte and a 1300-byte message and flushes: `outA[0]`,
    `outA[1]` = the two slices (sliced-message id 0), `outA[2]` = the small-message packet.  Delivery order: `outA[1]`,
    `outA[2]`, then `outA[0]` (completing the reassembly), then `outA[1]` once more (a stale duplicate fragment). -/
namespace ExN

def cfg : Cfg := ⟨60000, [⟨0, .unreliable, 100000, 0⟩], [⟨0, .ordered, 100000, 100⟩]⟩
def a : Bytes := [4, 5]
def b : Bytes := List.replicate 1200 7 ++ List.replicate 100 9
def ops : List SysOp :=
  [.sendA 0 a, .sendA 0 b, .flushA, .deliverToB 1, .deliverToB 2, .recvB 0, .deliverToB 0, .deliverToB 1, .recvB 0,
   .updB 1000, .recvB 0]
def fin : Sys := ((Sys.init cfg).run ops).getD (Sys.init cfg)

theorem run : (Sys.init cfg).run ops = some fin := some_getD (by decide +kernel) _
theorem facts :
    (fin.a.packetSeq ≤ Varint.MAX + 1 ∧ (∀ c ∈ cfg.send, (fin.submitted c.id).length ≤ Varint.MAX + 1) ∧
      (∀ c ∈ cfg.send, ∀ m ∈ fin.submitted c.id, m.length ≤ MAX_NUM_SLICES * SLICE_SIZE) ∧
      (∀ c ∈ cfg.send, ∀ m ∈ fin.submittedU c.id, m.length ≤ MAX_NUM_SLICES * SLICE_SIZE)) ∧
    (fin.submittedU 0 = [a, b] ∧ fin.obtained 0 = [a, b] ∧ fin.outA.length = 3 ∧ fin.deliveredToB = [1, 2, 0, 1]) := by
  decide +kernel
theorem counters : CountersOK cfg fin := ⟨by decide, facts.1.1, facts.1.2.1, facts.1.2.2.1, facts.1.2.2.2⟩
theorem unreliable0 : cfg.Unreliable 0 := by unfold Cfg.Unreliable; decide

/-- C03 on the unreliable kind -/
example : ∀ x ∈ fin.obtained 0, x ∈ fin.submittedU 0 :=
  integrity_unreliable_end_to_end cfg ops fin run counters 0 unreliable0
/-- what actually happened: both messages arrived, the large one reassembled from slices delivered out of order -/
example : fin.submittedU 0 = [a, b] ∧ fin.obtained 0 = [a, b] ∧ fin.outA.length = 3 ∧ fin.deliveredToB = [1, 2, 0, 1] := facts.2

end ExN

end RenetVerif.C01S
