/-
  C16 (netcode half, continued) — byte-level decode → re-encode → decode for the two records whose readers do not
  consume their whole buffer: `PrivateConnectToken::read` (run over a 1024-byte buffer) and the reader inside
  `ChallengeToken::decode` (run over a 300-byte buffer).  C16N gives the value-level round trips only.
  Proofs: Lemmas/NcTokenRT.lean.

  Vocabulary (defined in Lemmas/NcAead.lean / Lemmas/NcTokenRT.lean, all characterised below by what the model's
  writer produces):
    `ptBytes t`     what `PrivateConnectToken::write` emits: client id (8, LE) ‖ timeout (4, LE) ‖ host count (4, LE)
                    ‖ hosts (7 bytes per IPv4, 19 per IPv6) ‖ two keys (32 + 32) ‖ user data (256);
                    343 .. 944 bytes, the rest of the 1024-byte buffer is padding (zeros, then the stale tag)
    `ptBytesN t k`  the same with `k` in the host-count field
    `hostsOf`       the `Some` entries of the address array
    `chBytes t`     client id (8, LE) ‖ user data (256) = 264 bytes; the rest of the 300-byte buffer is padding
    `chRead`        the reader inside `ChallengeToken::decode` (`challenge_decode_exact` ties it to the model)

  Proven here
    * read ∘ write = id on well-formed tokens, for both records, whatever follows the written bytes
    * read b = t  ⟹  write t succeeds and read (write t) = t, unconditionally (what a reader returns is well-formed)
    * exactly which byte strings are read to a given token (`private_read_exact`, `challenge_read_exact`):
        challenge token:  b[0..264) = write t, everything behind is free;
        private token:    b[0..n) = write t for n = |write t| when fewer than 32 hosts are announced;
                          with 32 hosts the four count bytes b[12..16) may hold ANY u32 ≥ 32
                          (`read_server_addresses` clamps the count by `.take(n)` over a 32-slot array), all other
                          bytes of b[0..n) are fixed, everything behind is free
      so "b agrees with write t on the meaningful prefix" is TRUE for the challenge token and for private tokens with
      < 32 hosts, and FALSE for private tokens with 32 hosts (`private_prefix_not_determined`, kernel-checked)
    * kernel-checked pairs of different byte strings read to the same token, for each record, at the plain level and
      (toy AEAD) at the sealed level; under the AEAD laws any two paddings give different sealed buffers that
      decode to the same token
-/
import RenetVerif.Lemmas.NcTokenRT
namespace RenetVerif.C16P
open RenetVerif RenetVerif.Netcode RenetVerif.NcAead RenetVerif.NcAead.Token RenetVerif.NcTokenRT

abbrev PrivateTokenWF := NcAead.Token.PTokenWF
abbrev ChallengeWF := NcTokenRT.ChWF

/-! ### concrete values used by the non-vacuity examples -/

def exKey : Bytes := List.replicate 32 9
/-- three hosts of both families -/
def exT : PrivateConnectToken :=
  { clientId := 2 ^ 64 - 1, timeoutSeconds := -5
    serverAddresses := [some (Addr.v4 [127, 0, 0, 1] 5000), some (Addr.v6 (List.replicate 16 7) 65535),
      some (Addr.v4 [10, 0, 0, 2] 1)] ++ List.replicate 29 none
    clientToServerKey := List.replicate 32 1, serverToClientKey := List.replicate 32 2
    userData := List.replicate 256 3 }
/-- all 32 slots used -/
def exT32 : PrivateConnectToken :=
  { clientId := 12, timeoutSeconds := 15
    serverAddresses := List.replicate 32 (some (Addr.v4 [10, 0, 0, 2] 1))
    clientToServerKey := List.replicate 32 1, serverToClientKey := List.replicate 32 2
    userData := List.replicate 256 3 }
def exC : ChallengeToken := ⟨2 ^ 64 - 1, List.replicate 256 4⟩

theorem exT_wf : PrivateTokenWF exT := pt_read_wf (src := ptBytes exT) (by decide +kernel)
theorem exT32_wf : PrivateTokenWF exT32 := pt_read_wf (src := ptBytes exT32) (by decide +kernel)
theorem exC_wf : ChallengeWF exC := by decide +kernel

/-! ### private connect token: write, then read -/

/-- **read ∘ write = id.**  For a well-formed private token (u64 id, i32 timeout, prefix-compact host array with
    1..32 well-formed hosts, 32-byte keys, 256 bytes of user data) `write` into any buffer of ≥ 944 bytes succeeds,
    emits `ptBytes t` (343..944 bytes), and `read` gives the token back whatever follows. -/
theorem private_write_read (t : PrivateConnectToken) (h : PrivateTokenWF t) (cap : Nat) (hc : 944 ≤ cap) :
    ∃ w, t.writeTo (Wr.new cap) = some w ∧ w.out = ptBytes t ∧ 343 ≤ w.out.length ∧ w.out.length ≤ 944 ∧
      ∀ rest, PrivateConnectToken.read (w.out ++ rest) = some t :=
  ⟨_, pt_writeTo_out h cap hc, rfl, ptBytes_length_ge h, ptBytes_length h, fun rest => pt_read_bytes h rest⟩

example : PrivateTokenWF exT ∧ (ptBytes exT).length = 369 ∧
    ∃ w, exT.writeTo (Wr.new 1024) = some w ∧
      PrivateConnectToken.read (w.out ++ List.replicate (1024 - w.out.length) 0) = some exT :=
  ⟨exT_wf, by decide +kernel, _, pt_writeTo_out exT_wf 1024 (by omega), by decide +kernel⟩

/-- **decode → re-encode → decode.**  Whatever `read` returns is well-formed, its re-encoding is not longer than the
    input, and reads back to the same token (whatever follows). -/
theorem private_read_reencode (b : Bytes) (t : PrivateConnectToken) (h : PrivateConnectToken.read b = some t) :
    PrivateTokenWF t ∧ ∃ w, t.writeTo (Wr.new 1024) = some w ∧ w.out.length ≤ b.length ∧
      ∀ rest, PrivateConnectToken.read (w.out ++ rest) = some t := by
  have hwf := pt_read_wf h
  exact ⟨hwf, _, pt_writeTo_out hwf 1024 (by omega), (pt_read_take h).1, fun rest => pt_read_bytes hwf rest⟩

-- an input that is not a canonical encoding (count field 33 announced, 32 hosts present, non-zero padding)
example : PrivateConnectToken.read (ptBytesN exT32 33 ++ [1, 2, 3]) = some exT32 ∧
    ptBytesN exT32 33 ++ [1, 2, 3] ≠ ptBytes exT32 := by decide +kernel

/-! ### private connect token: which bytes matter -/

/-- **The exact set of byte strings read to `t`**: the canonical serialisation, with any count field that clamps
    (`min · 32`) to the number of hosts, followed by anything. -/
theorem private_read_exact (b : Bytes) (t : PrivateConnectToken) :
    PrivateConnectToken.read b = some t ↔
      PrivateTokenWF t ∧ ∃ num rest, num < 2 ^ 32 ∧ min num 32 = (hostsOf t.serverAddresses).length ∧
        b = ptBytesN t num ++ rest := pt_read_iff b t

example : PrivateConnectToken.read (ptBytesN exT 3 ++ [9]) = some exT ∧ (3 : Nat) < 2 ^ 32 ∧
    min 3 32 = (hostsOf exT.serverAddresses).length ∧ ptBytesN exT 3 = ptBytes exT := by decide +kernel

/-- **Bytes of an accepted input, position by position** (`n` = length of the re-encoding): `b` has at least `n`
    bytes; bytes 0..12 (id, timeout) and 16..n (hosts, keys, user data) are those of the re-encoding; bytes 12..16
    are a u32 that clamps to the number of hosts; bytes from `n` on are unconstrained (`private_padding_free`). -/
theorem private_read_bytes (b : Bytes) (t : PrivateConnectToken) (h : PrivateConnectToken.read b = some t) :
    (ptBytes t).length ≤ b.length ∧
    (b.take (ptBytes t).length).take 12 = (ptBytes t).take 12 ∧
    (b.take (ptBytes t).length).drop 16 = (ptBytes t).drop 16 ∧
    ∃ num, num < 2 ^ 32 ∧ min num 32 = (hostsOf t.serverAddresses).length ∧
      ((b.take (ptBytes t).length).drop 12).take 4 = leBytes num 4 := by
  obtain ⟨hlen, num, hn, hm, e⟩ := pt_read_take h
  rw [e]
  exact ⟨hlen, ptBytesN_take12 t num, ptBytesN_drop16 t num, num, hn, hm, ptBytesN_count t num⟩

example : PrivateConnectToken.read (ptBytesN exT32 (2 ^ 32 - 1) ++ [7]) = some exT32 := by decide +kernel

/-- **Fewer than 32 hosts: the meaningful prefix is exactly the re-encoding.** -/
theorem private_read_prefix (b : Bytes) (t : PrivateConnectToken) (h : PrivateConnectToken.read b = some t)
    (h32 : (hostsOf t.serverAddresses).length < 32) :
    b.take (ptBytes t).length = ptBytes t := pt_read_take_lt h h32

example : PrivateConnectToken.read (ptBytes exT ++ [1, 2, 3]) = some exT ∧ (hostsOf exT.serverAddresses).length < 32 := by
  decide +kernel

/-- **Converse: the bytes behind the prefix are free.**  Any `b` that agrees with the serialisation of a well-formed
    `t` on its length reads to `t`. -/
theorem private_padding_free (b : Bytes) (t : PrivateConnectToken) (hwf : PrivateTokenWF t)
    (h : b.take (ptBytes t).length = ptBytes t) : PrivateConnectToken.read b = some t := pt_read_of_take hwf h

example : (ptBytes exT ++ List.replicate 655 0xAB).take (ptBytes exT).length = ptBytes exT := by decide +kernel

/-- **With 32 hosts the count field is free above 32**: every u32 ≥ 32 in bytes 12..16 gives a byte string — different
    from the canonical one unless the value is 32 — that reads to the same token. -/
theorem private_count_field_free (t : PrivateConnectToken) (hwf : PrivateTokenWF t)
    (h32 : (hostsOf t.serverAddresses).length = 32) (num : Nat) (h1 : 32 ≤ num) (h2 : num < 2 ^ 32) (rest : Bytes) :
    PrivateConnectToken.read (ptBytesN t num ++ rest) = some t ∧ (num ≠ 32 → ptBytesN t num ≠ ptBytes t) := by
  refine ⟨(pt_read_iff _ t).2 ⟨hwf, num, rest, h2, by omega, rfl⟩, fun hne e => ?_⟩
  rw [← ptBytesN_self, h32] at e
  exact ptBytesN_ne t h2 (by omega) hne e

example : PrivateTokenWF exT32 ∧ (hostsOf exT32.serverAddresses).length = 32 := ⟨exT32_wf, by decide +kernel⟩

/-- **So prefix agreement with the re-encoding is NOT a consequence of a successful read** (kernel-checked): an input
    announcing 33 hosts is read to the 32-host token, whose re-encoding announces 32. -/
theorem private_prefix_not_determined :
    ∃ b t, PrivateConnectToken.read b = some t ∧ b.take (ptBytes t).length ≠ ptBytes t :=
  ⟨ptBytesN exT32 33, exT32, by decide +kernel, by decide +kernel⟩

/-- **Two different byte strings, one token** (kernel-checked), twice: 1024-byte buffers differing only in the
    padding; and buffers differing only in the count field. -/
theorem private_two_encodings :
    (let b1 := ptBytes exT ++ List.replicate (1024 - (ptBytes exT).length) 0
     let b2 := ptBytes exT ++ List.replicate (1024 - (ptBytes exT).length) 255
     b1 ≠ b2 ∧ b1.length = 1024 ∧ b2.length = 1024 ∧
     PrivateConnectToken.read b1 = some exT ∧ PrivateConnectToken.read b2 = some exT) ∧
    (let c1 := ptBytesN exT32 32
     let c2 := ptBytesN exT32 4000000000
     c1 ≠ c2 ∧ c1.length = c2.length ∧ c1 = ptBytes exT32 ∧
     PrivateConnectToken.read c1 = some exT32 ∧ PrivateConnectToken.read c2 = some exT32) := by
  decide +kernel

/-! ### private connect token: the sealed level -/

/-- `PrivateConnectToken::decode`, exactly, for any AEAD: the reader runs over opened plaintext ‖ the bytes of the
    buffer behind it (the stale tag). -/
theorem private_decode_exact (a : AEAD) (buf : Bytes) (proto expire : Nat) (xnonce key : Bytes) (t : PrivateConnectToken) :
    PrivateConnectToken.decode a buf proto expire xnonce key = .ok t ↔
      16 ≤ buf.length ∧ ∃ plain, a.xopen key xnonce (PrivateConnectToken.additionalData proto expire) buf = some plain ∧
        PrivateConnectToken.read (plain ++ buf.drop plain.length) = some t := pt_decode_iff a buf proto expire xnonce key t

/-- **Sealed buffers are not unique either**: under the AEAD laws, sealing the serialisation followed by two different
    paddings gives two different sealed buffers of the same length that `decode` maps to the same token. -/
theorem private_sealed_padding_free (a : AEAD) (hl : a.Laws) (t : PrivateConnectToken) (hwf : PrivateTokenWF t)
    (pad pad' : Bytes) (hne : pad ≠ pad') (hlen : pad.length = pad'.length) (proto expire : Nat) (xnonce key : Bytes) :
    let s := a.xseal key xnonce (PrivateConnectToken.additionalData proto expire) (ptBytes t ++ pad)
    let s' := a.xseal key xnonce (PrivateConnectToken.additionalData proto expire) (ptBytes t ++ pad')
    s ≠ s' ∧ s.length = s'.length ∧
    PrivateConnectToken.decode a s proto expire xnonce key = .ok t ∧
    PrivateConnectToken.decode a s' proto expire xnonce key = .ok t := by
  refine ⟨fun e => hne (List.append_cancel_left (xseal_inj hl e)), ?_, ?_, ?_⟩
  · rw [hl.xseal_length, hl.xseal_length]; simp [hlen]
  · exact pt_decode_padded a hl hwf (num := (hostsOf t.serverAddresses).length)
      (by have := h32 hwf; omega) (by have := h32 hwf; omega) pad proto expire xnonce key
  · exact pt_decode_padded a hl hwf (num := (hostsOf t.serverAddresses).length)
      (by have := h32 hwf; omega) (by have := h32 hwf; omega) pad' proto expire xnonce key
where
  h32 {t : PrivateConnectToken} (hwf : PrivateTokenWF t) : (hostsOf t.serverAddresses).length ≤ 32 := by
    obtain ⟨hosts, _, hlen, _, e⟩ := hwf.compact
    rw [e, hostsOf_compact]; exact hlen

-- toy AEAD, kernel-executed: what `encode` produces, and a 1024-byte buffer with other padding, open to the same token
example : AEAD.toy.Laws ∧
    (∃ s, exT.encode AEAD.toy 77 1000 (List.replicate 24 5) exKey = .ok s ∧ s.length = 1024 ∧
      PrivateConnectToken.decode AEAD.toy s 77 1000 (List.replicate 24 5) exKey = .ok exT) ∧
    (let s' := AEAD.toy.xseal exKey (List.replicate 24 5) (PrivateConnectToken.additionalData 77 1000)
        (ptBytes exT ++ List.replicate (1008 - (ptBytes exT).length) 255)
     exT.encode AEAD.toy 77 1000 (List.replicate 24 5) exKey ≠ .ok s' ∧ s'.length = 1024 ∧
     PrivateConnectToken.decode AEAD.toy s' 77 1000 (List.replicate 24 5) exKey = .ok exT) :=
  ⟨AEAD.toy_laws, ⟨_, pt_encode_eq AEAD.toy exT_wf 77 1000 _ exKey, by decide +kernel, by decide +kernel⟩, by decide +kernel⟩

/-! ### challenge token -/

/-- the model's `ChallengeToken::decode` is: open, then `chRead` over plaintext ‖ the bytes behind it -/
theorem challenge_decode_exact (a : AEAD) (data : Bytes) (tseq : Nat) (ckey : Bytes) (t : ChallengeToken) :
    ChallengeToken.decode a data tseq ckey = .ok t ↔
      16 ≤ data.length ∧ ∃ plain, a.open ckey (Netcode.Packet.nonce tseq) [] data = some plain ∧
        chRead (plain ++ data.drop plain.length) = some t := ch_decode_iff a data tseq ckey t

example : ChallengeToken.decode AEAD.toy (chBytes exC ++ List.replicate 36 0) 5 exKey = .ok exC := by decide +kernel

/-- **read ∘ write = id**: for a u64 client id and 256 bytes of user data the two `write_all` calls of
    `generate_challenge` emit `chBytes t` (264 bytes) and the reader gives the token back whatever follows; the
    plaintext `generate_challenge` seals is those bytes and 20 zero bytes. -/
theorem challenge_write_read (t : ChallengeToken) (h : ChallengeWF t) :
    ((Wr.new 300).writeAll (leBytes t.clientId 8) >>= fun w => w.writeAll t.userData) = some ⟨300, chBytes t⟩ ∧
    (chBytes t).length = 264 ∧ chPlain t.clientId t.userData = chBytes t ++ List.replicate 20 0 ∧
    ∀ rest, chRead (chBytes t ++ rest) = some t := by
  refine ⟨?_, chBytes_length h, chPlain_eq t h, fun rest => (chRead_iff _ t).2 ⟨h, rest, rfl⟩⟩
  rw [NcAead.Wr.writeAll_append, NcAead.Wr.writeAll_eq, if_pos (by simp [Netcode.Wr.new, h.userData])]
  simp [Netcode.Wr.new, chBytes]

example : ChallengeWF exC ∧ chRead (chBytes exC ++ [1, 2, 3]) = some exC := by decide +kernel

/-- **decode → re-encode → decode**, unconditionally -/
theorem challenge_read_reencode (b : Bytes) (t : ChallengeToken) (h : chRead b = some t) :
    ChallengeWF t ∧ (chBytes t).length ≤ b.length ∧ ∀ rest, chRead (chBytes t ++ rest) = some t := by
  obtain ⟨hwf, rest, rfl⟩ := (chRead_iff b t).1 h
  exact ⟨hwf, by simp, fun rest => (chRead_iff _ t).2 ⟨hwf, rest, rfl⟩⟩

example : chRead (chBytes exC ++ List.replicate 36 0xEE) = some exC := by decide +kernel

/-- **The exact set of byte strings read to `t`**: the first 264 bytes are the re-encoding, nothing else is
    constrained (in the 300-byte buffer: 20 plaintext bytes and the 16 tag bytes are padding). -/
theorem challenge_read_exact (b : Bytes) (t : ChallengeToken) :
    chRead b = some t ↔ ChallengeWF t ∧ b.take 264 = chBytes t := chRead_take b t

example : ChallengeWF exC ∧ (chBytes exC ++ List.replicate 36 0xEE).take 264 = chBytes exC := by decide +kernel

/-- the same through the AEAD: whatever `ChallengeToken::decode` returns, `generate_challenge` re-seals (same
    sequence and key) into token data that decodes to the same token -/
theorem challenge_decode_reencode (a : AEAD) (hl : a.Laws) (data : Bytes) (tseq : Nat) (ckey : Bytes) (t : ChallengeToken)
    (h : ChallengeToken.decode a data tseq ckey = .ok t) :
    ChallengeWF t ∧ ∃ data', ChallengeToken.generate a t.clientId t.userData tseq ckey = .ok (.challenge tseq data') ∧
      data'.length = 300 ∧ ChallengeToken.decode a data' tseq ckey = .ok t := by
  obtain ⟨_, plain, _, hr⟩ := (ch_decode_iff a data tseq ckey t).1 h
  obtain ⟨hwf, _⟩ := (chRead_iff _ t).1 hr
  refine ⟨hwf, _, ch_generate_eq a t.clientId t.userData hwf.userData tseq ckey, ?_,
    ch_decode_generate a hl t.clientId t.userData hwf.clientId hwf.userData tseq ckey⟩
  rw [hl.seal_length, chPlain_eq t hwf]
  simp [chBytes_length hwf]

/-- **Sealed challenge tokens are not unique**: under the AEAD laws two different paddings give two different token
    data of the same length that decode to the same token. -/
theorem challenge_sealed_padding_free (a : AEAD) (hl : a.Laws) (t : ChallengeToken) (hwf : ChallengeWF t)
    (pad pad' : Bytes) (hne : pad ≠ pad') (hlen : pad.length = pad'.length) (tseq : Nat) (ckey : Bytes) :
    let s := a.seal ckey (Netcode.Packet.nonce tseq) [] (chBytes t ++ pad)
    let s' := a.seal ckey (Netcode.Packet.nonce tseq) [] (chBytes t ++ pad')
    s ≠ s' ∧ s.length = s'.length ∧
    ChallengeToken.decode a s tseq ckey = .ok t ∧ ChallengeToken.decode a s' tseq ckey = .ok t := by
  refine ⟨fun e => hne (List.append_cancel_left (seal_inj hl e)), ?_, ch_decode_padded a hl hwf pad tseq ckey,
    ch_decode_padded a hl hwf pad' tseq ckey⟩
  rw [hl.seal_length, hl.seal_length]; simp [hlen]

/-- **Two different byte strings, one token** (kernel-checked): two 300-byte buffers differing only behind byte 264,
    at the plain level and as token data for the toy AEAD (the second is what `generate_challenge` emits). -/
theorem challenge_two_encodings :
    (let b1 := chBytes exC ++ List.replicate 36 0
     let b2 := chBytes exC ++ List.replicate 36 255
     b1 ≠ b2 ∧ b1.length = 300 ∧ b2.length = 300 ∧ chRead b1 = some exC ∧ chRead b2 = some exC) ∧
    (let d1 := chBytes exC ++ List.replicate 20 255 ++ List.replicate 16 0
     d1.length = 300 ∧
     ChallengeToken.generate AEAD.toy exC.clientId exC.userData 5 exKey ≠ .ok (.challenge 5 d1) ∧
     (∃ d2, ChallengeToken.generate AEAD.toy exC.clientId exC.userData 5 exKey = .ok (.challenge 5 d2) ∧
        ChallengeToken.decode AEAD.toy d2 5 exKey = .ok exC) ∧
     ChallengeToken.decode AEAD.toy d1 5 exKey = .ok exC) := by
  refine ⟨by decide +kernel, by decide +kernel, ?_, ⟨_, ch_generate_eq AEAD.toy exC.clientId exC.userData exC_wf.userData 5 exKey, by decide +kernel⟩, by decide +kernel⟩
  decide +kernel

-- the hypotheses of the sealed-level theorems are met (toy AEAD, concrete tokens, two one-byte paddings)
example := challenge_sealed_padding_free AEAD.toy AEAD.toy_laws exC exC_wf [1] [2] (by decide) rfl 5 exKey
example := private_sealed_padding_free AEAD.toy AEAD.toy_laws exT exT_wf [1] [2] (by decide) rfl 77 1000 (List.replicate 24 5) exKey
example := challenge_decode_reencode AEAD.toy AEAD.toy_laws (chBytes exC ++ List.replicate 36 0) 5 exKey exC (by decide +kernel)
example := private_count_field_free exT32 exT32_wf (by decide +kernel) 33 (by omega) (by omega) [1, 2, 3]
example := private_read_prefix (ptBytes exT ++ [1, 2, 3]) exT (by decide +kernel) (by decide +kernel)
example := private_read_bytes (ptBytesN exT32 33 ++ [1, 2, 3]) exT32 (by decide +kernel)

/-! ### remark: the public connect token shares the count-field clamp -/

def exCT : ConnectToken :=
  { clientId := 1, versionInfo := C.NETCODE_VERSION_INFO, protocolId := 77, createTimestamp := 0, expireTimestamp := 30
    xnonce := List.replicate 24 5, serverAddresses := exT32.serverAddresses
    clientToServerKey := List.replicate 32 1, serverToClientKey := List.replicate 32 2
    privateData := List.replicate 1024 6, timeoutSeconds := 15 }

/-- the serialisation of `exCT` with 33 in the host-count field -/
def exB33 : Bytes :=
  leBytes 1 8 ++ C.NETCODE_VERSION_INFO ++ leBytes 77 8 ++ leBytes 0 8 ++ leBytes 30 8 ++
    List.replicate 24 5 ++ List.replicate 1024 6 ++ i32le 15 ++ addrsBytesN exT32.serverAddresses 33 ++
    List.replicate 32 1 ++ List.replicate 32 2

/-- `ConnectToken::read` goes through the same `read_server_addresses`: a public token announcing 33 hosts is read to
    the 32-host token, whose `write` announces 32 — so C16N's `token_reencode` is a value-level statement, and the
    re-encoding of an accepted public token need not be its input either (kernel-checked). -/
theorem public_count_field_clamped :
    ConnectToken.read exB33 = .ok exCT ∧ exCT.write = .ok (ctBytes exCT) ∧ exB33.length = (ctBytes exCT).length ∧
      exB33 ≠ ctBytes exCT :=
  have h : ConnectToken.read exB33 = .ok exCT := by decide +kernel
  ⟨h, ct_write_eq (ct_read_wf h), by decide +kernel, by decide +kernel⟩

end RenetVerif.C16P
