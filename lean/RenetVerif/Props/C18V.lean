/-
  C18 — Netcode liveness in general position: what Props/C18T.lean lists as NOT stated ("reordering inside a round,
  iteration to a third address, interleaved traffic of other clients during the handshake").

  A.  the client walks through the server list of its token (`failover_walks_list`, any number `k ≤ 31` of silent
      servers, induction over the list): every silent server is given up in the first `update` after the token's
      time-out has passed since the previous fail-over (`AttOK` / `AttOK'` are the exact conditions the model checks),
      each fail-over re-arms the timers and sends a fresh request to the next listed address in the same call
      (`FailoverStep`), and the server behind the `(k+1)`-th address completes the handshake.  Complements: all listed
      servers silent — `Disconnected(ConnectionRequestTimedOut)` exactly in the `update` in which the last time-out
      fires (`failover_exhausts_list`), and it stays so (`disconnected_stays`); the token's window (which the
      implementation counts from the start of the *current attempt*: `connect_start_time` is reset by every
      fail-over) closes first — `Disconnected(ConnectTokenExpired)` (`failover_token_expires`).

  B.  the handshake theorems of C18T with bystanders (`handshake_with_bystanders`, `handshake_despite_loss_with_bystanders`):
      between any two of the server's own steps of a round (`update`, `process_packet` of this client's datagram,
      `update_client`) the server processes an arbitrary finite list of operations that do not concern this client
      (`NotMine`: datagrams from other addresses — requests, responses, payloads, junk —, `update_client` /
      `disconnect` / `generate_payload_packet` of other ids).  Frame lemma: `bystander_frame`.  Hypothesis `BysOK`
      (`roundOK_spelled_out`): the blocks run, none connects this client's id, and when this client's request arrives
      there is `Room` (a pending place, the token not bound to another address, a free slot), when its response arrives
      a free slot.  The capacity hypothesis is necessary: `full_server_denies`.

  C.  duplication / reordering of the handshake's own datagrams (`handshake_despite_duplication`,
      `late_challenge_ignored`, `established_despite_duplicates`).

  Proofs: Lemmas/NcLive4.lean.  Nothing is assumed of the AEAD beyond `AEAD.Laws`.
-/
import RenetVerif.Lemmas.NcLive4
import RenetVerif.Props.C18T
namespace RenetVerif.C18V
open RenetVerif RenetVerif.Netcode RenetVerif.Netcode.NS RenetVerif.NcLive2 RenetVerif.NcLive4

/-! ## A. walking through the server list

  Vocabulary (Lemmas/NcLive4.lean; `TokOK`, `CliReq`, `SrvOpen`, `round`, `runRounds`, `Established`: Props/C18T.lean):
  * `Attempt` = `⟨seg, f, d, next⟩` — one attempt at a silent server: the rounds `seg` (any fates and lengths) during
    which the time-out does not fire, then the round `(f, d)` in whose `update(d)` it fires and the client moves to the
    address `next`; `walkSched atts` — the schedule of a list of attempts;
  * `WalkOK c atts` — the timing: the first attempt satisfies `AttOK c` (measured from the client's current timers),
    every later one `AttOK' τ W` with `τ` the token's time-out in ns and `W` its window in s (`walkOK_cons`,
    `attOK_iff`, `attOK'_iff` below);
  * `Listed addrs i l` — the addresses `l` are the entries `i, i+1, …` of the token's server list;
  * `FailoverStep … w before x idx from` — the fail-over that ends attempt `x` (`failoverStep_iff` below). -/

section A
variable {a : AEAD} {s0 : NetcodeServer} {addr me : Addr} {t : PrivateConnectToken} {expire : Nat} {xnonce : Bytes}

theorem walkOK_cons {c : NetcodeClient} {x : Attempt} {rest : List Attempt} :
    WalkOK c (x :: rest) ↔ AttOK c x ∧ ∀ y ∈ rest, AttOK' (tmo c) (tokenWindow c) y := Iff.rfl

/-- the first attempt: with `τ` = the token's time-out, no time-out while `seg` runs (`now + |seg| ≤ last_received + τ`),
    the time-out has passed at the next update (`last_received + τ < now + |seg| + d`), and the token's window, counted
    from `connect_start_time`, is still open then -/
theorem attOK_iff {c : NetcodeClient} {x : Attempt} : AttOK c x ↔
    c.currentTime + totalTime x.seg ≤ c.lastPacketReceivedTime + tmo c ∧
    c.lastPacketReceivedTime + tmo c < c.currentTime + totalTime x.seg + x.d ∧
    asSecs (c.currentTime + totalTime x.seg + x.d - c.connectStartTime) < tokenWindow c :=
  ⟨fun h => ⟨h.1, h.2, h.3⟩, fun h => ⟨h.1, h.2.1, h.2.2⟩⟩

/-- an attempt that starts with a fail-over at time `T_j`: the next fail-over happens at `T_j + |seg| + d`, the first
    update later than `T_j + τ` (`|seg| ≤ τ < |seg| + d`), provided less than `W` seconds have passed since `T_j` -/
theorem attOK'_iff {τ W : Nat} {x : Attempt} : AttOK' τ W x ↔
    totalTime x.seg ≤ τ ∧ τ < totalTime x.seg + x.d ∧ asSecs (totalTime x.seg + x.d) < W :=
  ⟨fun h => ⟨h.1, h.2, h.3⟩, fun h => ⟨h.1, h.2.1, h.2.2⟩⟩

/-- **what a fail-over is**: the schedule `before ++ x.seg` leads (from the world `w`) to a client `cb` still in
    `SendingConnectionRequest` towards `from` (index `idx` of the list), at time `w.1.now + |before| + |x.seg|`; its
    `update(x.d)` emits the connection request addressed to `x.next` and returns the client `failedOver cb x.d x.next`:
    state `SendingConnectionRequest`, index `idx + 1`, server address `x.next`, `connect_start_time`,
    `last_packet_received_time` and `last_packet_send_time` all equal to the new clock value `cb.now + x.d`,
    sequence number incremented; the round leaves the server with its clock advanced and nothing else. -/
theorem failoverStep_iff {id : Nat} {w : NetcodeClient × NetcodeServer} {before : List (Fate × Nat)} {x : Attempt}
    {idx : Nat} {from_ : Addr} : FailoverStep a s0 addr me t expire xnonce id w before x idx from_ ↔
    ∃ cb sb, runRounds a addr me id (before ++ x.seg) w = some (cb, sb) ∧ cb.state = .sendingConnectionRequest ∧
      cb.serverAddrIndex = idx ∧ cb.serverAddr = from_ ∧
      cb.currentTime = w.1.currentTime + totalTime before + totalTime x.seg ∧
      cb.update a x.d = .ok (some (requestBytes a s0 t expire xnonce, x.next),
        { cb with currentTime := cb.currentTime + x.d, state := .sendingConnectionRequest
                  serverAddrIndex := cb.serverAddrIndex + 1, serverAddr := x.next
                  connectStartTime := cb.currentTime + x.d, lastPacketSendTime := some (cb.currentTime + x.d)
                  lastPacketReceivedTime := cb.currentTime + x.d, challengeTokenSequence := 0
                  sequence := cb.sequence + 1 }) ∧
      round a addr me id x.f x.d (cb, sb) = some (failedOver cb x.d x.next, srvTick sb x.d) := Iff.rfl

/-- **`failover_walks_list`** — a token listing `k + 1` addresses (`k = atts.length + 1 ≤ 31` fail-overs), the first
    `k` servers silent, the last one (`me`) answering.

    The client `c0` (request phase, any index `i` into the list, time-out positive) talks to an address that is not
    this server's; neither are the addresses `atts.map next`, the entries `i+1 …` of the token's list; the entry after
    them is `me` (`hl`, `hlme`).  The schedule is `walkSched (atts ++ [last])` followed by one delivered round `d₂`:
    attempt after attempt, quiet rounds (in which the client keeps re-sending its request at the send rate, to no
    avail) and the round in which the time-out fires (`hw`: the exact timing).  The server `s` behind `me` is open for
    this client (`hs`) and only ticks meanwhile.  `hd₂…`, `hclk`, `hsclk`, `hsexp`, `hseq`, `hg`, `hch`: the last
    attempt fits the token's time-out and window, the server's clock stays below the token's expiry second, no
    clock / counter overflows.

    Then: every one of the `atts.length` fail-overs to a silent server happens as `FailoverStep` says — the `j`-th in
    the first `update` after the time-out has passed since the `(j-1)`-th, at `c0.now + |walkSched (first j attempts)|`;
    after `last.seg` the client `c1` is still asking the last silent address (index `i + atts.length`); its
    `update(last.d)` fails over to `me` and sends the request there, `me`'s server answers with the challenge in the
    same round (`c2`: response phase, index `i + atts.length + 1`, `connect_start_time` = the time of that fail-over);
    the round `d₂` completes the handshake: `Established`. -/
theorem failover_walks_list (hT : TokOK a s0 t expire xnonce) (atts : List Attempt) (last : Attempt) {d₂ : Nat}
    {c0 : NetcodeClient} {s : NetcodeServer} (hc : CliReq a s0 t expire xnonce c0)
    (hpos : c0.connectToken.timeoutSeconds > 0) (h1 : c0.connectStartTime ≤ c0.currentTime)
    (h2 : c0.lastPacketReceivedTime ≤ c0.currentTime) (hw : WalkOK c0 (atts ++ [last]))
    (hlf : last.f = .delivered) (hlme : last.next = me) (hne : c0.serverAddr ≠ me) (hnme : ∀ x ∈ atts, x.next ≠ me)
    (hl : Listed c0.connectToken.serverAddresses (c0.serverAddrIndex + 1) ((atts ++ [last]).map (·.next)))
    (hidx : c0.serverAddrIndex + atts.length + 1 < Netcode.C.NETCODE_TOKEN_MAX_ADDRESSES)
    (hs : SrvOpen a s0 addr t expire xnonce s)
    (hd₂c : d₂ ≤ tmo c0) (hd₂w : asSecs d₂ < tokenWindow c0)
    (hd₂s : t.timeoutSeconds ≤ 0 ∨ d₂ ≤ fromSecs t.timeoutSeconds.toNat)
    (hclk : c0.currentTime + totalTime (walkSched (atts ++ [last])) + d₂ + tmo c0 ≤ DURATION_MAX)
    (hsclk : s.currentTime + totalTime (walkSched (atts ++ [last])) + d₂ + fromSecs (2 ^ 31) ≤ DURATION_MAX)
    (hsexp : asSecs (s.currentTime + totalTime (walkSched (atts ++ [last])) + d₂) < expire)
    (hseq : c0.sequence + (walkSched (atts ++ [last])).length + 1 < U64_MAX)
    (hg : s.globalSequence + 2 < U64_MAX) (hch : s.challengeSequence + 2 < U64_MAX) :
    ∃ c1 s1 c2 s2 c3 s3, runRounds a addr me t.clientId (walkSched atts ++ last.seg) (c0, s) = some (c1, s1) ∧
      c1.state = .sendingConnectionRequest ∧ c1.serverAddr = lastAddr c0.serverAddr (atts.map (·.next)) ∧
      c1.serverAddrIndex = c0.serverAddrIndex + atts.length ∧
      c1.update a last.d = .ok (some (requestBytes a s0 t expire xnonce, me), failedOver c1 last.d me) ∧
      round a addr me t.clientId .delivered last.d (c1, s1) = some (c2, s2) ∧
      c2.state = .sendingConnectionResponse ∧ c2.serverAddr = me ∧
      c2.serverAddrIndex = c0.serverAddrIndex + atts.length + 1 ∧
      c2.connectStartTime = c0.currentTime + totalTime (walkSched (atts ++ [last])) ∧
      c2.currentTime = c0.currentTime + totalTime (walkSched (atts ++ [last])) ∧
      round a addr me t.clientId .delivered d₂ (c2, s2) = some (c3, s3) ∧
      runRounds a addr me t.clientId (walkSched (atts ++ [last]) ++ [(.delivered, d₂)]) (c0, s) = some (c3, s3) ∧
      Established addr t expire c3 s3 ∧ s3.isClientConnected t.clientId = true ∧
      c3.currentTime = c0.currentTime + totalTime (walkSched (atts ++ [last])) + d₂ ∧
      s3.currentTime = s.currentTime + totalTime (walkSched (atts ++ [last])) + d₂ ∧
      ∀ pre x post, atts = pre ++ x :: post →
        FailoverStep a s0 addr me t expire xnonce t.clientId (c0, s) (walkSched pre) x (c0.serverAddrIndex + pre.length)
          (lastAddr c0.serverAddr (pre.map (·.next))) :=
  walk_connects hT atts last hc hpos h1 h2 hw hlf hlme hne hnme hl hidx hs hd₂c hd₂w hd₂s hclk hsclk hsexp hseq hg hch

/-- **`failover_exhausts_list`** — all listed servers silent.  After the walk through `atts` (as above, all
    fail-overs as `FailoverStep` says) the client `cb` asks the last listed address — the next entry of the list is
    empty, or the list is used up (`hlast`); `last.seg` passes quietly; in the `update(last.d)` in which the time-out
    fires the client ends `Disconnected(ConnectionRequestTimedOut)` (`gaveUp`: clock advanced, index + 1, everything
    else unchanged) and emits nothing.  It was still `SendingConnectionRequest` before that very call: the
    disconnection happens exactly at the last time-out.  (`last.next` plays no role.  The server `s` of the rounds is
    the world's other half; all that is asked of it is that it does not hold a session of `id` and that its clock
    does not overflow.) -/
theorem failover_exhausts_list (hT : TokOK a s0 t expire xnonce) {id : Nat} (atts : List Attempt) (last : Attempt)
    {c0 : NetcodeClient} {s : NetcodeServer} (hc : CliReq a s0 t expire xnonce c0)
    (hpos : c0.connectToken.timeoutSeconds > 0) (h1 : c0.connectStartTime ≤ c0.currentTime)
    (h2 : c0.lastPacketReceivedTime ≤ c0.currentTime) (hw : WalkOK c0 (atts ++ [last]))
    (hclk : c0.currentTime + totalTime (walkSched (atts ++ [last])) + tmo c0 ≤ DURATION_MAX)
    (hseq : c0.sequence + (walkSched (atts ++ [last])).length < U64_MAX + 1) (hne : c0.serverAddr ≠ me)
    (hl : Listed c0.connectToken.serverAddresses (c0.serverAddrIndex + 1) (atts.map (·.next)))
    (hidx : c0.serverAddrIndex + atts.length < Netcode.C.NETCODE_TOKEN_MAX_ADDRESSES)
    (hnme : ∀ x ∈ atts, x.next ≠ me)
    (hlast : Netcode.C.NETCODE_TOKEN_MAX_ADDRESSES ≤ c0.serverAddrIndex + atts.length + 1 ∨
      c0.connectToken.serverAddresses[c0.serverAddrIndex + atts.length + 1]? = some none)
    (hid : findClientById s.clients id = none)
    (hsclk : s.currentTime + totalTime (walkSched (atts ++ [last])) ≤ DURATION_MAX) :
    ∃ cb sb s', runRounds a addr me id (walkSched atts ++ last.seg) (c0, s) = some (cb, sb) ∧
      cb.state = .sendingConnectionRequest ∧ cb.serverAddr = lastAddr c0.serverAddr (atts.map (·.next)) ∧
      cb.serverAddrIndex = c0.serverAddrIndex + atts.length ∧
      cb.currentTime + last.d = c0.currentTime + totalTime (walkSched (atts ++ [last])) ∧
      cb.update a last.d = .ok (none, gaveUp cb last.d) ∧
      runRounds a addr me id (walkSched (atts ++ [last])) (c0, s) = some (gaveUp cb last.d, s') ∧
      (gaveUp cb last.d).state = .disconnected .connectionRequestTimedOut ∧
      ∀ pre x post, atts = pre ++ x :: post →
        FailoverStep a s0 addr me t expire xnonce id (c0, s) (walkSched pre) x (c0.serverAddrIndex + pre.length)
          (lastAddr c0.serverAddr (pre.map (·.next))) :=
  walk_exhausts hT atts last hc hpos h1 h2 hw hclk hseq hne hl hidx hnme hlast hid hsclk

/-- the single step, for both connecting states: the time-out fires, the token's window is open, no address is left —
    `Disconnected(ConnectionRequestTimedOut)` from the request phase, `Disconnected(ConnectionResponseTimedOut)` from
    the response phase; nothing is sent -/
theorem gives_up (a : AEAD) {c : NetcodeClient} {d : Nat} (hst : Connecting c) (hok : ClockOK c d)
    (hwin : asSecs (c.currentTime + d - c.connectStartTime) < tokenWindow c) (hto : CTimedOut c (c.currentTime + d))
    (hlast : Netcode.C.NETCODE_TOKEN_MAX_ADDRESSES ≤ c.serverAddrIndex + 1 ∨
      c.connectToken.serverAddresses[c.serverAddrIndex + 1]? = some none) :
    c.update a d = .ok (none,
      { c with currentTime := c.currentTime + d
               state := .disconnected (if c.state = .sendingConnectionResponse then .connectionResponseTimedOut
                                       else .connectionRequestTimedOut)
               serverAddrIndex := c.serverAddrIndex + 1 }) := update_gives_up a hst hok hwin hto hlast

/-- **once disconnected, always disconnected, same reason**: every later `update(d)` only advances the clock and sends
    nothing (the reason is never overwritten, no second time-out is taken) -/
theorem disconnected_stays (a : AEAD) {c : NetcodeClient} {r : DisconnectReason} {d : Nat}
    (hst : c.state = .disconnected r) (hclk : c.currentTime + d ≤ DURATION_MAX)
    (hrecv : c.lastPacketReceivedTime + tmo c ≤ DURATION_MAX) :
    c.update a d = .ok (none, { c with currentTime := c.currentTime + d }) := NcLive4.disconnected_stays a hst hclk hrecv

/-- **`failover_token_expires`** — the token's window closes first.  After the walk through `atts`, the rounds `seg`
    pass quietly (`ExpOK`: no time-out, `(now − connect_start).secs < expire − create` still), and the following
    `update(d)` finds `(now − connect_start).secs ≥ expire − create`: the client ends
    `Disconnected(ConnectTokenExpired)` and sends nothing — whether or not the time-out would have fired in the same
    call (the expiry test comes first).  `connect_start` is the time of the last fail-over (`Walked.fresh`): the
    implementation grants the token's full window to every attempt. -/
theorem failover_token_expires (hT : TokOK a s0 t expire xnonce) {id : Nat} (atts : List Attempt)
    (seg : List (Fate × Nat)) (f : Fate) (d : Nat) {c0 : NetcodeClient} {s : NetcodeServer}
    (hc : CliReq a s0 t expire xnonce c0) (hpos : c0.connectToken.timeoutSeconds > 0)
    (h1 : c0.connectStartTime ≤ c0.currentTime) (h2 : c0.lastPacketReceivedTime ≤ c0.currentTime)
    (hw : WalkOK c0 atts)
    (hx : ∀ cw, Walked c0 (atts.map (·.next)) (walkSched atts).length (totalTime (walkSched atts)) cw → ExpOK cw seg d)
    (hclk : c0.currentTime + totalTime (walkSched atts) + totalTime seg + d + tmo c0 ≤ DURATION_MAX)
    (hseq : c0.sequence + (walkSched atts).length + seg.length < U64_MAX + 1) (hne : c0.serverAddr ≠ me)
    (hl : Listed c0.connectToken.serverAddresses (c0.serverAddrIndex + 1) (atts.map (·.next)))
    (hidx : c0.serverAddrIndex + atts.length < Netcode.C.NETCODE_TOKEN_MAX_ADDRESSES)
    (hnme : ∀ x ∈ atts, x.next ≠ me) (hid : findClientById s.clients id = none)
    (hsclk : s.currentTime + totalTime (walkSched atts) + totalTime seg + d ≤ DURATION_MAX) :
    ∃ cb sb s', runRounds a addr me id (walkSched atts ++ seg) (c0, s) = some (cb, sb) ∧
      cb.state = .sendingConnectionRequest ∧ cb.serverAddrIndex = c0.serverAddrIndex + atts.length ∧
      cb.currentTime = c0.currentTime + totalTime (walkSched atts) + totalTime seg ∧
      cb.update a d = .ok (none, { cb with currentTime := cb.currentTime + d, state := .disconnected .connectTokenExpired }) ∧
      runRounds a addr me id (walkSched atts ++ seg ++ [(f, d)]) (c0, s) =
        some ({ cb with currentTime := cb.currentTime + d, state := .disconnected .connectTokenExpired }, s') :=
  walk_expires hT atts seg f d hc hpos h1 h2 hw hx hclk hseq hne hl hidx hnme hid hsclk

end A

/-! ## B. the handshake while the server serves others

  Vocabulary: `RoundSpec` = `⟨b1, b2, b3, f, d⟩` (a round of `d` ns with fate `f` and the three bystander blocks),
  `roundB` / `runRoundsB` (the rounds of C18T with the blocks inserted; `roundB_without_bystanders`),
  `Core s0 addr t s` (configuration of `s0`, `ServerInv`, nobody connected from `addr`, id `t.clientId` not
  connected — `SrvOpen` without its three capacity clauses), `Room` (those three clauses), `BysOK` (the bystander
  hypothesis), `costB` (number of rounds and bystander operations: room in the `u64` counters). -/

section B
variable {a : AEAD} {s0 : NetcodeServer} {addr me : Addr} {t : PrivateConnectToken} {expire : Nat} {xnonce : Bytes}

/-- `roundB` with empty blocks is the `round` of C18T -/
theorem roundB_without_bystanders (a : AEAD) (addr me : Addr) (id : Nat) (f : Fate) (d : Nat)
    (w : NetcodeClient × NetcodeServer) : roundB a addr me id ⟨[], [], [], f, d⟩ w = round a addr me id f d w :=
  roundB_nil a addr me id f d w

/-- which operations are bystanders for the client seen at `addr` with id `id` -/
theorem notMine_iff {addr : Addr} {id : Nat} :
    (∀ ad buf, NotMine addr id (.packet ad buf) ↔ ad ≠ addr) ∧ (∀ i, NotMine addr id (.updateClient i) ↔ i ≠ id) ∧
    (∀ i, NotMine addr id (.disconnect i) ↔ i ≠ id) ∧ (∀ i p, NotMine addr id (.sendPayload i p) ↔ i ≠ id) ∧
    (∀ d, ¬ NotMine addr id (.update d)) ∧ (∀ m, ¬ NotMine addr id (.setMaxClients m)) :=
  ⟨fun _ _ => Iff.rfl, fun _ => Iff.rfl, fun _ => Iff.rfl, fun _ _ => Iff.rfl, fun _ h => h, fun _ h => h⟩

/-- **`bystander_frame`** — the frame lemma.  A block `b` of bystander operations, run from a state satisfying
    `ServerInv`, preserves for the client `(addr, id)`: the configuration (keys, protocol id, public addresses,
    `max_clients`), the invariant, the clock, the half-open session stored for `addr` (if any), its own session —
    the slot holding a session with id `id` and address `addr` is left *exactly* as it is — and "nobody is connected
    from `addr`"; each of the two global counters grows by at most `b.length`; and the id stays unconnected as long
    as no operation reports `ClientConnected id` (`Quiet`). -/
theorem bystander_frame {a : AEAD} {addr : Addr} {id : Nat} (b : List Op) {s s' : NetcodeServer} {rs : List ServerResult}
    (hi : ServerInv s) (hm : ∀ op ∈ b, NotMine addr id op) (hr : runOps a s b = some (rs, s')) :
    (SameCfg s s' ∧ ServerInv s' ∧ s'.currentTime = s.currentTime ∧
      pendingFind s'.pendingClients addr = pendingFind s.pendingClients addr ∧
      (∀ i cn, At s.clients i cn → cn.clientId = id → cn.addr = addr → At s'.clients i cn) ∧
      (findClientByAddr s.clients addr = none → findClientByAddr s'.clients addr = none) ∧
      s'.globalSequence ≤ s.globalSequence + b.length ∧ s'.challengeSequence ≤ s.challengeSequence + b.length) ∧
    (findClientById s.clients id = none → Quiet id rs → findClientById s'.clients id = none) := by
  obtain ⟨f, hid⟩ := block_frame b hi hm hr
  exact ⟨⟨f.cfg, f.inv, f.time, f.pend, f.slots.mine,
    fun h => findAddr_none.mpr (f.slots.addrFree (findAddr_none.mp h)), f.gLe, f.cLe⟩, hid⟩

/-- **the bystander hypothesis of one round, spelled out** (`roundOKB` is its computable form): from the world `w`,
    every operation of the three blocks is `NotMine`; `b1` runs to its end (`sa`) from the server's state, `b2` from
    the state after the `update` (`sb`: the state in which the client's datagram, if it gets through, arrives), `b3`
    from the state after that datagram has been processed; no result announces a connection of this client's id; and
    if the datagram the client's `update` emits goes to this server and is not lost, then `Arr`: a request finds
    `Room`, a response finds a free slot (unless the server already holds the session). -/
theorem roundOK_spelled_out {x : RoundSpec} {w : NetcodeClient × NetcodeServer}
    (h : roundOKB a s0 addr me t expire xnonce x w = true) :
    (∀ op ∈ x.b1 ++ x.b2 ++ x.b3, NotMine addr t.clientId op) ∧
    ∃ rs1 sa, runOps a w.2 x.b1 = some (rs1, sa) ∧ Quiet t.clientId rs1 ∧
    ∃ rs2 sb, runOps a (srvTick sa x.d) x.b2 = some (rs2, sb) ∧ Quiet t.clientId rs2 ∧
    ∀ out c1, w.1.update a x.d = .ok (out, c1) →
      (∀ dg, out = some (dg, me) → x.f ≠ .upLost →
        (w.1.state = .sendingConnectionRequest → Room a s0 addr t expire xnonce sb) ∧
        (w.1.state = .sendingConnectionResponse → findClientById sb.clients t.clientId = none →
          countConnected sb.clients < sb.maxClients)) ∧
      ∀ r s2, up a addr me x.f out sb = some (r, s2) →
        ∃ rs3 sc, runOps a s2 x.b3 = some (rs3, sc) ∧ Quiet t.clientId rs3 := roundOK_elim h

/-- `Room`: fewer than the maximum *other* half-open sessions, every token-table entry with this token's MAC carries
    `addr`, fewer than `max_clients` connected -/
theorem room_iff {s : NetcodeServer} : Room a s0 addr t expire xnonce s ↔
    (pendingRemove s.pendingClients addr).length < Netcode.C.NETCODE_MAX_PENDING_CLIENTS ∧
    (∀ e, some e ∈ s.connectTokenEntries → e.mac = tokenMac (sealedPriv a s0 t expire xnonce) → e.address = addr) ∧
    countConnected s.clients < s.maxClients :=
  ⟨fun h => ⟨h.1, h.2, h.3⟩, fun h => ⟨h.1, h.2.1, h.2.2⟩⟩

/-- the bystander hypothesis of a schedule: round by round, each in the world the previous rounds lead to -/
theorem bysOK_step {x : RoundSpec} {rest : List RoundSpec} {w : NetcodeClient × NetcodeServer} :
    BysOK a s0 addr me t expire xnonce (x :: rest) w ↔
      roundOKB a s0 addr me t expire xnonce x w = true ∧
      ∀ w', roundB a addr me t.clientId x w = some w' → BysOK a s0 addr me t expire xnonce rest w' := bysOK_cons

/-- an open server is in particular a `Core` server with `Room` -/
theorem core_of_open {s : NetcodeServer} (h : SrvOpen a s0 addr t expire xnonce s) :
    Core s0 addr t s ∧ Room a s0 addr t expire xnonce s := ⟨Core.ofOpen h, Room.ofOpen h⟩

/-- **`handshake_with_bystanders`** (`C18T.handshake_through_update` in general position) — two delivered rounds of
    arbitrary lengths connect both sides whatever the server does for others in between: before its `update`, between
    the `update` and the arrival of this client's datagram, between that and the per-client tick, in both rounds
    (`x₁`, `x₂ : RoundSpec`).  `hs`: at the start nobody is connected from `addr` and the id is not connected.
    `hby`: the bystander hypothesis (`roundOK_spelled_out`) — in particular `Room` when the request arrives and a
    free slot when the response arrives.  `hb`: the budgets of `C18T`, with room in the counters for the bystander
    operations as well (`costB`). -/
theorem handshake_with_bystanders (hT : TokOK a s0 t expire xnonce) {c0 : NetcodeClient} {s : NetcodeServer}
    {x₁ x₂ : RoundSpec} (hc : CliReq a s0 t expire xnonce c0) (hsend : c0.lastPacketSendTime = none)
    (hme : c0.serverAddr = me) (hs : Core s0 addr t s) (hf₁ : x₁.f = .delivered) (hf₂ : x₂.f = .delivered)
    (hb : Budget t expire c0 s (x₁.d + x₂.d) (costB [x₁, x₂]))
    (hby : BysOK a s0 addr me t expire xnonce [x₁, x₂] (c0, s)) :
    ∃ c1 s1 c2 s2, roundB a addr me t.clientId x₁ (c0, s) = some (c1, s1) ∧
      c1.state = .sendingConnectionResponse ∧ roundB a addr me t.clientId x₂ (c1, s1) = some (c2, s2) ∧
      Established addr t expire c2 s2 ∧ s2.isClientConnected t.clientId = true ∧
      c2.currentTime = c0.currentTime + x₁.d + x₂.d ∧ s2.currentTime = s.currentTime + x₁.d + x₂.d :=
  through_update_B hT hc hsend hme hs hf₁ hf₂ hb hby

/-- **`handshake_despite_loss_with_bystanders`** (`C18T.handshake_despite_loss` in general position) — any number of
    rounds in which the client hears nothing, a delivered round, again lossy rounds (lost responses, or the lost
    keep-alive of `ClientConnected`), a delivered round (both at least the send rate long): connected after exactly the
    schedule's time — every round with its three bystander blocks. -/
theorem handshake_despite_loss_with_bystanders (hT : TokOK a s0 t expire xnonce) {c0 : NetcodeClient}
    {s : NetcodeServer} {l₁ l₂ : List RoundSpec} {x₁ x₂ : RoundSpec} (hc : CliReq a s0 t expire xnonce c0)
    (hme : c0.serverAddr = me) (hs : Core s0 addr t s) (hl₁ : LossyB l₁) (hl₂ : LossyB l₂)
    (hf₁ : x₁.f = .delivered) (hf₂ : x₂.f = .delivered) (hr₁ : c0.sendRate ≤ x₁.d) (hr₂ : c0.sendRate ≤ x₂.d)
    (hr₂' : Netcode.C.NETCODE_SEND_RATE_NS ≤ x₂.d)
    (hb : Budget t expire c0 s (totalTimeB (l₁ ++ x₁ :: (l₂ ++ [x₂]))) (costB (l₁ ++ x₁ :: (l₂ ++ [x₂]))))
    (hby : BysOK a s0 addr me t expire xnonce (l₁ ++ x₁ :: (l₂ ++ [x₂])) (c0, s)) :
    ∃ c' s', runRoundsB a addr me t.clientId (l₁ ++ x₁ :: (l₂ ++ [x₂])) (c0, s) = some (c', s') ∧
      Established addr t expire c' s' ∧ s'.isClientConnected t.clientId = true ∧
      c'.currentTime = c0.currentTime + totalTimeB (l₁ ++ x₁ :: (l₂ ++ [x₂])) ∧
      s'.currentTime = s.currentTime + totalTimeB (l₁ ++ x₁ :: (l₂ ++ [x₂])) :=
  despite_loss_B hT hc hme hs hl₁ hl₂ hf₁ hf₂ hr₁ hr₂ hr₂' hb hby

/-- **an established connection is not disturbed by bystander operations** (the server still holds the session, with
    the token's identity, after any block) -/
theorem established_survives_bystanders {c : NetcodeClient} {s s' : NetcodeServer} {b : List Op}
    {rs : List ServerResult} (h : Established addr t expire c s) (hm : ∀ op ∈ b, NotMine addr t.clientId op)
    (hr : runOps a s b = some (rs, s')) : Established addr t expire c s' := established_block h hm hr

end B

/-! ## C. duplicated and late datagrams of the handshake itself -/

section C
variable {a : AEAD} {s0 : NetcodeServer} {addr me : Addr} {t : PrivateConnectToken} {expire : Nat} {xnonce : Bytes}

/-- **`late_challenge_ignored`** — a client in `SendingConnectionResponse` or `Connected` that receives a(nother)
    challenge of the server (the answer to a duplicated or retransmitted request, arriving late) does not change at
    all: challenges are not subject to the replay window, and `process_packet` has no case for them in these states. -/
theorem late_challenge_ignored (hl : a.Laws) {c : NetcodeClient} {s : NetcodeServer} {t : PrivateConnectToken}
    (hst : c.state = .sendingConnectionResponse ∨ c.state = .connected)
    (hkey : c.connectToken.serverToClientKey = t.serverToClientKey) (hpid : c.connectToken.protocolId = s.protocolId)
    (hg : s.globalSequence < 2 ^ 64) (hcs : s.challengeSequence + 1 < 2 ^ 64) (hud : t.userData.length = 256) :
    c.processPacket a (challengeBytes a s t) = .ok (none, c) := NcLive4.late_challenge_ignored hl hst hkey hpid hg hcs hud

/-- **`handshake_despite_duplication`** — round 1 delivered; then the network delivers the request datagram a second
    time: the server answers with a second challenge (next challenge sequence number) and re-creates the half-open
    session; that challenge reaches the client after it has moved to `SendingConnectionResponse` and is ignored; round
    2: the client's response, which echoes the *first* challenge token, still connects (the server checks the token's
    id and user data, not its sequence number). -/
theorem handshake_despite_duplication (hT : TokOK a s0 t expire xnonce) {c0 : NetcodeClient} {s : NetcodeServer}
    {d₁ d₂ : Nat} (hc : CliReq a s0 t expire xnonce c0) (hsend : c0.lastPacketSendTime = none)
    (hme : c0.serverAddr = me) (hs : SrvOpen a s0 addr t expire xnonce s) (hb : Budget t expire c0 s (d₁ + d₂) 3) :
    ∃ c1 s1 s1' c2 s2, round a addr me t.clientId .delivered d₁ (c0, s) = some (c1, s1) ∧
      c1.state = .sendingConnectionResponse ∧
      s1.processPacket a addr (requestBytes a s0 t expire xnonce) =
        .ok (.packetToSend addr (challengeBytes a s1 t), s1') ∧
      c1.processPacket a (challengeBytes a s1 t) = .ok (none, c1) ∧
      round a addr me t.clientId .delivered d₂ (c1, s1') = some (c2, s2) ∧
      Established addr t expire c2 s2 ∧ s2.isClientConnected t.clientId = true ∧
      c2.currentTime = c0.currentTime + d₁ + d₂ ∧ s2.currentTime = s.currentTime + d₁ + d₂ :=
  NcLive4.handshake_despite_duplication hT hc hsend hme hs hb

/-- **after the connection**: a duplicated response is ignored by the server (the session stays as it is) and a late
    challenge — of this server in any later state `sx` — is ignored by the connected client -/
theorem established_despite_duplicates (hT : TokOK a s0 t expire xnonce) {c : NetcodeClient} {s sx : NetcodeServer}
    {T N D cs seq : Nat} (hcst : c.state = .connected) (htok : TokenFor a s0 t expire xnonce c.connectToken)
    (hsc : SrvConn s0 addr t expire T N D s) (hg : s.globalSequence < U64_MAX) (hch : s.challengeSequence < U64_MAX)
    (hcs : cs < 2 ^ 64) (hseq : seq < 2 ^ 64) (hcfg : SameCfg s0 sx) (hgx : sx.globalSequence < 2 ^ 64)
    (hcx : sx.challengeSequence + 1 < 2 ^ 64) :
    (∃ s', s.processPacket a addr (Packet.sealedBytes a (.response cs (challengeToken a s0 t.clientId t.userData cs))
        s0.protocolId seq t.clientToServerKey) = .ok (.none, s') ∧ SrvConn s0 addr t expire T N D s') ∧
    c.processPacket a (challengeBytes a sx t) = .ok (none, c) :=
  NcLive4.established_despite_duplicates hT hcst htok hsc hg hch hcs hseq hcfg hgx hcx

end C

/-! ## examples: the hypotheses are satisfiable (worlds of Lemmas/NcExamples.lean, Props/C18P.lean, Props/C18T.lean) -/
section Examples
open Ex C18T


/-! ### A: a token listing three addresses; the servers behind the first two are silent, `sC` listens on the third -/
def srv3 : Addr := .v4 [127, 0, 0, 3] 5002
def addrs3 : List (Option Addr) := some srvAddr :: some srv2 :: some srv3 :: List.replicate 29 none
def privG : PrivateConnectToken := ⟨11, 5, addrs3, kc2s, ks2c, udA⟩
def sC : NetcodeServer := { s0 with publicAddresses := [srv3] }
def cG : NetcodeClient :=
  { cA0 with connectToken := { tokenA with serverAddresses := addrs3
                                           privateData := sealedPriv AEAD.toy sC privG 30 xnA } }

theorem privG_wf : NcAead.Token.PTokenWF privG :=
  ⟨by decide, by decide, by decide,
    ⟨[srvAddr, srv2, srv3], by simp, by decide,
      by intro x hx; simp at hx; rcases hx with rfl | rfl | rfl <;> decide, rfl⟩,
    List.length_replicate, List.length_replicate, List.length_replicate⟩
theorem sC_empty : EmptyServer sC := ⟨rfl, by decide, rfl, 3, by decide, rfl⟩
theorem tokOK_G : TokOK AEAD.toy sC privG 30 xnA :=
  ⟨AEAD.toy_laws, privG_wf, rfl, by decide, by decide, fun _ => ⟨srv3, by simp [privG, addrs3], by simp [sC]⟩⟩
theorem cliReq_cG : CliReq AEAD.toy sC privG 30 xnA cG :=
  ⟨rfl, ⟨rfl, rfl, rfl, rfl, rfl, rfl⟩, (fun _ e => by cases e), rp_new_fresh⟩
theorem srvOpen_sC : SrvOpen AEAD.toy sC addrA privG 30 xnA sC :=
  srvOpen_of_fresh sC_empty.inv rfl rfl rfl (by decide) (by decide +kernel) (by decide)

def att1 : Attempt := ⟨[(.delivered, 2500000000), (.upLost, 2500000000)], .delivered, 250000000, srv2⟩
def att2 : Attempt := ⟨[(.downLost, 2500000000), (.delivered, 2500000000)], .delivered, 250000000, srv3⟩

example : ∃ c1 s1 c2 s2 c3 s3,
    runRounds AEAD.toy addrA srv3 privG.clientId (walkSched [att1] ++ att2.seg) (cG, sC) = some (c1, s1) ∧
    c1.state = .sendingConnectionRequest ∧ c1.serverAddr = srv2 ∧ c1.serverAddrIndex = 1 ∧
    round AEAD.toy addrA srv3 privG.clientId .delivered 250000000 (c1, s1) = some (c2, s2) ∧
    c2.state = .sendingConnectionResponse ∧ c2.serverAddr = srv3 ∧ c2.serverAddrIndex = 2 ∧
    c2.connectStartTime = 10500000000 ∧
    Established addrA privG 30 c3 s3 ∧ c3.currentTime = 10750000000 ∧
    FailoverStep AEAD.toy sC addrA srv3 privG 30 xnA privG.clientId (cG, sC) [] att1 0 srvAddr := by
  obtain ⟨c1, s1, c2, s2, c3, s3, h1, h2, h3, h4, _, h6, h7, h8, h9, h10, _, _, _, h14, _, h16, _, h18⟩ :=
    failover_walks_list (me := srv3) (d₂ := 250000000) tokOK_G [att1] att2 cliReq_cG (by decide) (by decide) (by decide)
      (by decide) rfl rfl (by decide) (by decide) (by decide +kernel) (by decide) srvOpen_sC (by decide) (by decide)
      (Or.inr (by decide)) (by decide) (by decide) (by decide) (by decide) (by decide) (by decide)
  exact ⟨c1, s1, c2, s2, c3, s3, h1, h2, h3, h4, h6, h7, h8, h9, h10, h14, h16, h18 [] att1 [] rfl⟩



/-- the two-address token of C18T (`cF2`: `srvAddr`, `srv2`), both servers silent (the rounds are played against `s0`,
    taken to listen on `srv3`, which the token does not list): fail-over to `srv2` at 5.25 s, gives up at 10.5 s -/
def attLast : Attempt := ⟨[(.delivered, 5000000000)], .upLost, 250000000, srv3⟩

example : ∃ cb sb s', runRounds AEAD.toy addrA srv3 11 (walkSched [att1] ++ attLast.seg) (cF2, s0) = some (cb, sb) ∧
    cb.state = .sendingConnectionRequest ∧ cb.serverAddr = srv2 ∧ cb.serverAddrIndex = 1 ∧
    cb.currentTime + 250000000 = 10500000000 ∧
    cb.update AEAD.toy 250000000 = .ok (none, gaveUp cb 250000000) ∧
    runRounds AEAD.toy addrA srv3 11 (walkSched [att1, attLast]) (cF2, s0) = some (gaveUp cb 250000000, s') ∧
    (gaveUp cb 250000000).state = .disconnected .connectionRequestTimedOut := by
  obtain ⟨cb, sb, s', h1, h2, h3, h4, h5, h6, h7, h8, _⟩ := failover_exhausts_list (me := srv3) (addr := addrA) (id := 11)
    (s := s0) tokOK_F [att1] attLast cliReq_cF2 (by decide) (by decide) (by decide) (by decide) (by decide) (by decide)
    (by decide) (by decide +kernel) (by decide) (by decide) (Or.inr (by decide +kernel)) rfl (by decide)
  exact ⟨cb, sb, s', h1, h2, h3, h4, h5, h6, h7, h8⟩

/-- … and stays disconnected -/
example : ({ cF2 with state := .disconnected .connectionRequestTimedOut } : NetcodeClient).update AEAD.toy 1000000000 =
    .ok (none, { cF2 with state := .disconnected .connectionRequestTimedOut, currentTime := 1000000000 }) :=
  disconnected_stays AEAD.toy rfl (by decide) (by decide)

/-- a token whose window (3 s) is shorter than its time-out (5 s): after 2 s of silence the `update(1 s)` finds the
    window closed -/
def cX : NetcodeClient :=
  { cA0 with connectToken := { tokenA with expireTimestamp := 3, privateData := sealedPriv AEAD.toy s0 privA 3 xnA } }
theorem tokOK_X : TokOK AEAD.toy s0 privA 3 xnA :=
  ⟨AEAD.toy_laws, C18P.privA_wf, rfl, by decide, by decide, fun _ => ⟨srvAddr, by simp [privA], by simp [s0]⟩⟩
theorem cliReq_cX : CliReq AEAD.toy s0 privA 3 xnA cX :=
  ⟨rfl, ⟨rfl, rfl, rfl, rfl, rfl, rfl⟩, (fun _ e => by cases e), rp_new_fresh⟩

example : ∃ cb sb s', runRounds AEAD.toy addrA srv2 11 ([] ++ [(.delivered, 2000000000)]) (cX, s0) = some (cb, sb) ∧
    cb.state = .sendingConnectionRequest ∧
    runRounds AEAD.toy addrA srv2 11 ([] ++ [(.delivered, 2000000000)] ++ [(.delivered, 1000000000)]) (cX, s0) =
      some ({ cb with currentTime := cb.currentTime + 1000000000, state := .disconnected .connectTokenExpired }, s') := by
  obtain ⟨cb, sb, s', h1, h2, _, _, _, h6⟩ := failover_token_expires (me := srv2) (addr := addrA) (id := 11) (s := s0)
    tokOK_X [] [(.delivered, 2000000000)] .delivered 1000000000 cliReq_cX (by decide) (by decide) (by decide) trivial
    (fun cw hw => by rw [hw.same rfl]; exact ⟨Or.inr (by decide), by decide, by decide⟩) (by decide) (by decide)
    (by decide) trivial (by decide) (fun _ h => by cases h) rfl (by decide)
  exact ⟨cb, sb, s', h1, h2, h6⟩



/-! ### B: client A's handshake with `s0` (2 slots) while client B (id 12, `addrB`) connects, receives a payload, is
    ticked and disconnected, and junk arrives from `addrB`.  The AEAD is `Ex.a` (the toy cipher whose private-token
    tag depends on the xnonce: with `AEAD.toy`'s constant tag all tokens have the same MAC, B's request would bind
    "the" token to `addrB`, and `Room` would fail for A — see `same_mac_blocks` below). -/

theorem a_laws : Ex.a.Laws := by
  have hlen : ∀ (tag c p : Bytes), (if c.length < 16 then none
      else if c.drop (c.length - 16) = tag then some (c.take (c.length - 16)) else none) = some p →
      p.length + 16 = c.length := by
    intro tag c p h
    by_cases hc : c.length < 16
    · simp [hc] at h
    · simp only [hc, if_false] at h
      split at h
      · cases h; simp [List.length_take]; omega
      · cases h
  refine ⟨?_, ?_, ?_, ?_, ?_, ?_⟩
  · intro k n ad p; simp [Ex.a]
  · intro k n ad p; simp [Ex.a]
  · intro k n ad c p h; exact hlen _ c p h
  · intro k n ad p; simp [Ex.a]
  · intro k n ad p; simp [Ex.a]
  · intro k n ad c p h; exact hlen _ c p h

/-- client A with its token's private part sealed by `Ex.a` -/
def cTa : NetcodeClient :=
  { cA0 with connectToken := { tokenA with privateData := sealedPriv Ex.a s0 privA 30 xnA } }
theorem tokOK_a : TokOK Ex.a s0 privA 30 xnA :=
  ⟨a_laws, C18P.privA_wf, rfl, by decide, by decide, fun _ => ⟨srvAddr, by simp [privA], by simp [s0]⟩⟩
theorem cliReq_cTa : CliReq Ex.a s0 privA 30 xnA cTa :=
  ⟨rfl, ⟨rfl, rfl, rfl, rfl, rfl, rfl⟩, (fun _ e => by cases e), rp_new_fresh⟩
theorem srvOpen_a : SrvOpen Ex.a s0 addrA privA 30 xnA s0 :=
  srvOpen_of_fresh s0_empty.inv rfl rfl rfl (by decide) (by decide +kernel) (by decide)
theorem core_s0 : Core s0 addrA privA s0 := Core.ofOpen srvOpen_a

/-- B's request and response (B answers challenge number 1, with sequence number 1) -/
def reqBt : Bytes := requestBytes Ex.a s0 privB 30 xnB
def respBt : Bytes := Packet.sealedBytes Ex.a (.response 1 (challengeToken Ex.a s0 12 udB 1)) 42 1 kBc2s

/-- round 1 (100 ms): B's request before the server's `update`; junk from `addrB` and a tick of id 12 before A's
    request arrives; B's response (B gets slot 0) before A's per-client tick -/
def xr1 : RoundSpec :=
  ⟨[.packet addrB reqBt], [.packet addrB [1, 2, 3], .updateClient 12], [.packet addrB respBt], .delivered, 100000000⟩
/-- round 2 (16 ms): a payload for B, a tick of B, and B is disconnected -/
def xr2 : RoundSpec := ⟨[.sendPayload 12 [9, 9]], [.updateClient 12], [.disconnect 12], .delivered, 16000000⟩

set_option maxRecDepth 100000 in
theorem bys_ok : BysOK Ex.a s0 addrA srvAddr privA 30 xnA [xr1, xr2] (cTa, s0) := by decide +kernel

/-- B really connects in round 1 (the blocks are not no-ops) -/
example : (roundB Ex.a addrA srvAddr 11 xr1 (cTa, s0)).map (fun w => w.2.isClientConnected 12) = some true := by
  decide +kernel

example : ∃ c1 s1 c2 s2, roundB Ex.a addrA srvAddr privA.clientId xr1 (cTa, s0) = some (c1, s1) ∧
    c1.state = .sendingConnectionResponse ∧ roundB Ex.a addrA srvAddr privA.clientId xr2 (c1, s1) = some (c2, s2) ∧
    Established addrA privA 30 c2 s2 ∧ s2.isClientConnected privA.clientId = true ∧
    c2.currentTime = cTa.currentTime + 100000000 + 16000000 ∧
    s2.currentTime = s0.currentTime + 100000000 + 16000000 :=
  handshake_with_bystanders (me := srvAddr) tokOK_a cliReq_cTa rfl rfl core_s0 rfl rfl
    ⟨⟨by decide, by decide, by decide, by decide, Or.inr (by decide)⟩, by decide, by decide, Or.inr (by decide),
      by decide, by decide, by decide⟩ bys_ok

/-- B2: A's first request is lost while B's request arrives; A's second request gets through (after junk and B's
    response: B connected); A's response is lost once, its answer once (the server holds A's session, B is ticked and
    gets a payload); the last round (250 ms) delivers the tick's keep-alive: connected after 1.25 s -/
def lossySched : List RoundSpec :=
  [⟨[.packet addrB reqBt], [], [], .upLost, 250000000⟩] ++
   ⟨[.packet addrB [1, 2, 3]], [.packet addrB respBt], [.updateClient 12], .delivered, 250000000⟩ ::
   ([⟨[.sendPayload 12 [9, 9]], [], [.updateClient 12], .upLost, 250000000⟩,
     ⟨[], [.packet addrB [7]], [.sendPayload 12 [8]], .downLost, 250000000⟩] ++
    [⟨[.updateClient 12], [.disconnect 12], [.packet addrB reqBt], .delivered, 250000000⟩])

set_option maxRecDepth 100000 in
theorem lossy_ok : BysOK Ex.a s0 addrA srvAddr privA 30 xnA lossySched (cTa, s0) := by decide +kernel

example : ∃ c' s', runRoundsB Ex.a addrA srvAddr privA.clientId lossySched (cTa, s0) = some (c', s') ∧
    Established addrA privA 30 c' s' ∧ s'.isClientConnected privA.clientId = true ∧
    c'.currentTime = cTa.currentTime + totalTimeB lossySched ∧ s'.currentTime = s0.currentTime + totalTimeB lossySched :=
  handshake_despite_loss_with_bystanders (me := srvAddr) tokOK_a cliReq_cTa rfl core_s0 (by decide) (by decide) rfl rfl
    (by decide) (by decide) (by decide)
    ⟨⟨by decide, by decide, by decide, by decide, Or.inr (by decide)⟩, by decide, by decide, Or.inr (by decide),
      by decide, by decide, by decide⟩ lossy_ok

/-! the capacity hypothesis is necessary: a one-slot server -/
def sOne : NetcodeServer := { s0 with clients := [none], maxClients := 1 }

/-- **`full_server_denies`, at the request**: B completes its handshake before A's request arrives (block `b1`); the
    server is full, `Room` fails (`roundOKB = false`), the request is answered with `ConnectionDenied` and A ends
    `Disconnected(ConnectionDenied)` -/
def xFull : RoundSpec := ⟨[.packet addrB reqBt, .packet addrB respBt], [], [], .delivered, 100000000⟩
example : roundOKB Ex.a sOne addrA srvAddr privA 30 xnA xFull (cTa, sOne) = false ∧
    (roundB Ex.a addrA srvAddr 11 xFull (cTa, sOne)).map (fun w => (w.1.state, w.2.isClientConnected 11)) =
      some (.disconnected .connectionDenied, false) := by
  constructor <;> decide +kernel

/-- **… at the response**: A's request is challenged while the slot is still free; B's response takes the slot before
    A's response arrives (block `b3` of round 1): no free slot at that arrival (`roundOKB = false` for round 2),
    `ConnectionDenied`, A ends `Disconnected(ConnectionDenied)` -/
example : roundOKB Ex.a sOne addrA srvAddr privA 30 xnA xr1 (cTa, sOne) = true ∧
    bysOKB Ex.a sOne addrA srvAddr privA 30 xnA [xr1, ⟨[], [], [], .delivered, 16000000⟩] (cTa, sOne) = false ∧
    (runRoundsB Ex.a addrA srvAddr 11 [xr1, ⟨[], [], [], .delivered, 16000000⟩] (cTa, sOne)).map
      (fun w => (w.1.state, w.2.isClientConnected 11)) = some (.disconnected .connectionDenied, false) := by
  refine ⟨?_, ?_, ?_⟩ <;> decide +kernel

/-- **the token-binding clause of `Room` is necessary too**: under `AEAD.toy` all private tokens carry the same MAC;
    B's request binds it to `addrB`, `Room` fails for A, whose (delivered) request is dropped without an answer -/
example : roundOKB AEAD.toy s0 addrA srvAddr privA 30 xnA
      ⟨[.packet addrB (requestBytes AEAD.toy s0 privB 30 xnB)], [], [], .delivered, 100000000⟩ (C18P.cT, s0) = false ∧
    (roundB AEAD.toy addrA srvAddr 11
      ⟨[.packet addrB (requestBytes AEAD.toy s0 privB 30 xnB)], [], [], .delivered, 100000000⟩ (C18P.cT, s0)).map
        (fun w => w.1.state) = some .sendingConnectionRequest := by
  constructor <;> decide +kernel


/-! ### C: the duplicated request in the world of C18T (`AEAD.toy`, `s0`, `C18P.cT`) -/

example : ∃ c1 s1 s1' c2 s2, round AEAD.toy addrA srvAddr privA.clientId .delivered 100000000 (C18P.cT, s0) = some (c1, s1) ∧
    c1.state = .sendingConnectionResponse ∧
    s1.processPacket AEAD.toy addrA (requestBytes AEAD.toy s0 privA 30 xnA) =
      .ok (.packetToSend addrA (challengeBytes AEAD.toy s1 privA), s1') ∧
    c1.processPacket AEAD.toy (challengeBytes AEAD.toy s1 privA) = .ok (none, c1) ∧
    round AEAD.toy addrA srvAddr privA.clientId .delivered 16000000 (c1, s1') = some (c2, s2) ∧
    Established addrA privA 30 c2 s2 ∧ s2.isClientConnected privA.clientId = true ∧
    c2.currentTime = C18P.cT.currentTime + 100000000 + 16000000 ∧
    s2.currentTime = s0.currentTime + 100000000 + 16000000 :=
  handshake_despite_duplication (me := srvAddr) tokOK_toy cliReq_cT rfl rfl srvOpen_s0
    ⟨⟨by decide, by decide, by decide, by decide, Or.inr (by decide)⟩, by decide, by decide, Or.inr (by decide),
      by decide, by decide, by decide⟩

end Examples

end RenetVerif.C18V
