/-
  C11 — A message sent to one client is obtained only by that client, a broadcast is obtained exactly
  once by every currently connected client (minus the excluded one for broadcast_except), and a message
  a client sent is obtained only under that client's id.  Misbehaviour, disconnection or a stalled
  ordered stream of one client or channel never delays, drops or corrupts traffic of other clients or
  other channels.

  This file: the frame / isolation half (which state each operation can touch and read).  The
  per-connection delivery guarantees (what a channel does with a message) are separate properties.

  Model: Renet/Conn.lean (`RenetClient`), Renet/Server.lean (`RenetServer`).
  Vocabulary (Lemmas/ServerLemmas.lean, namespace `RenetVerif.SL`):
    `Server.viewAt j r` / `Server.slotAt j r` – of a result `r`, client `j`'s connection afterwards (plus the output)
    `Res.outOf r`                              – of a result `r`, the output only
    `Conn.SendFrame ch`, `Conn.RecvFrame ch`   – all send / receive channels other than `ch` are unchanged
    `Conn.SameSendSide`, `Conn.SameRecvSide`, `Conn.SameFixed` – groups of unchanged fields
-/
import RenetVerif.Lemmas.ServerLemmas
namespace RenetVerif.C11
open RenetVerif RenetVerif.SL

/-! ### 4. Per-client frames of the server -/

/-- `send_message(i, ch, m)`: applies `Conn.sendMessage ch m` to client `i`'s connection (nothing if `i`
    is unknown); every other client, the event queue and the configuration are untouched. -/
theorem send_only_to_addressee (s s' : Server) (i ch : Nat) (m : Bytes) (h : s.sendMessage i ch m = .ok s') :
    (∀ j, j ≠ i → SMap.find? s'.conns j = SMap.find? s.conns j) ∧ s'.events = s.events ∧
    ((SMap.find? s.conns i = none ∧ s' = s) ∨
     (∃ c c', SMap.find? s.conns i = some c ∧ c.sendMessage ch m = .ok c' ∧ SMap.find? s'.conns i = some c')) :=
  let ⟨a, _, hi⟩ := Server.sendMessage_spec h
  ⟨a.others, a.events, hi⟩

/-- `receive_message(i, ch)`: the message returned is the one `Conn.receiveMessage ch` yields on client
    `i`'s own connection (none if `i` is unknown); every other client is untouched. -/
theorem receive_only_from_addressee (s s' : Server) (i ch : Nat) (out : Option Bytes)
    (h : s.receiveMessage i ch = .ok (s', out)) :
    (∀ j, j ≠ i → SMap.find? s'.conns j = SMap.find? s.conns j) ∧ s'.events = s.events ∧
    ((SMap.find? s.conns i = none ∧ s' = s ∧ out = none) ∨
     (∃ c c', SMap.find? s.conns i = some c ∧ c.receiveMessage ch = .ok (c', out) ∧
        SMap.find? s'.conns i = some c')) :=
  let ⟨a, _, hi⟩ := Server.receiveMessage_spec h
  ⟨a.others, a.events, hi⟩

/-- `get_packets_to_send(i)`: the packets are those of client `i`'s own connection. -/
theorem packets_only_from_addressee (s s' : Server) (i : Nat) (out : Option (List Bytes))
    (h : s.getPacketsToSend i = .ok (s', out)) :
    (∀ j, j ≠ i → SMap.find? s'.conns j = SMap.find? s.conns j) ∧ s'.events = s.events ∧
    ((SMap.find? s.conns i = none ∧ s' = s ∧ out = none) ∨
     (∃ c c' ps, SMap.find? s.conns i = some c ∧ c.getPacketsToSend = .ok (c', ps) ∧ out = some ps ∧
        SMap.find? s'.conns i = some c')) :=
  let ⟨a, _, hi⟩ := Server.getPacketsToSend_spec h
  ⟨a.others, a.events, hi⟩

/-- `process_packet_from(bytes, i)`: whatever the bytes are, they are processed by client `i`'s own
    connection and touch no other client ("a message a client sent is obtained only under that id"). -/
theorem packet_only_to_sender_slot (s s' : Server) (bytes : Bytes) (i : Nat) (out : Bool)
    (h : s.processPacketFrom bytes i = .ok (s', out)) :
    (∀ j, j ≠ i → SMap.find? s'.conns j = SMap.find? s.conns j) ∧ s'.events = s.events ∧
    ((SMap.find? s.conns i = none ∧ s' = s ∧ out = false) ∨
     (∃ c c', SMap.find? s.conns i = some c ∧ c.processPacket bytes = .ok c' ∧ out = true ∧
        SMap.find? s'.conns i = some c')) :=
  let ⟨a, _, hi⟩ := Server.processPacketFrom_spec h
  ⟨a.others, a.events, hi⟩

/-- `disconnect(i)`: only client `i`'s connection changes. -/
theorem disconnect_only_addressee (s : Server) (i : Nat) :
    (∀ j, j ≠ i → SMap.find? (s.disconnect i).conns j = SMap.find? s.conns j) ∧
    (s.disconnect i).events = s.events ∧
    SMap.find? (s.disconnect i).conns i = (SMap.find? s.conns i).map (·.disconnectWith .byServer) :=
  let ⟨a, _, hi⟩ := Server.disconnect_spec s i
  ⟨a.others, a.events, hi⟩

/-- The output of a client-addressed operation and that client's next connection state are functions
    of that client's current connection alone: two servers that agree on client `j` (and differ
    arbitrarily elsewhere) behave identically towards `j`. -/
theorem addressed_ops_local (s1 s2 : Server) (j : Nat) (h : SMap.find? s1.conns j = SMap.find? s2.conns j) :
    (∀ ch, Server.viewAt j (s1.receiveMessage j ch) = Server.viewAt j (s2.receiveMessage j ch)) ∧
    Server.viewAt j (s1.getPacketsToSend j) = Server.viewAt j (s2.getPacketsToSend j) ∧
    (∀ bytes, Server.viewAt j (s1.processPacketFrom bytes j) = Server.viewAt j (s2.processPacketFrom bytes j)) ∧
    (∀ ch m, Server.slotAt j (s1.sendMessage j ch m) = Server.slotAt j (s2.sendMessage j ch m)) :=
  ⟨fun ch => Server.receiveMessage_local s1 s2 j ch h, Server.getPacketsToSend_local s1 s2 j h,
   fun b => Server.processPacketFrom_local s1 s2 b j h, fun ch m => Server.sendMessage_local s1 s2 j ch m h⟩

/-- Outputs in closed form. -/
theorem receive_output (s : Server) (i ch : Nat) :
    Res.outOf (s.receiveMessage i ch) =
      match SMap.find? s.conns i with
      | none => .ok none
      | some c => Res.outOf (c.receiveMessage ch) := Server.receiveMessage_out s i ch

/-- Isolation of clients over whole runs: whatever sequence of client-addressed operations is executed
    for clients other than `j` (garbage or hostile packets from them, their disconnection, removal,
    re-adding, their local-client processing, sends and receives), client `j`'s connection is
    bit-identical afterwards – hence by `addressed_ops_local` everything `j` subsequently sends,
    receives and emits is what it would have been without them. -/
theorem other_clients_cannot_interfere (ops : List SrvOp) (st st' : SrvState) (j : Nat)
    (h : runSrv st ops = .ok st') (hall : ∀ op ∈ ops, ∃ i, op.target = some i ∧ i ≠ j) :
    SMap.find? st'.1.conns j = SMap.find? st.1.conns j := runSrv_frame ops st st' j h hall

/-- `broadcast_message(ch, m)`: exactly `Conn.sendMessage ch m` on every connection in the table, once
    each; no client appears or disappears; no event. -/
theorem broadcast_reaches_everyone (s s' : Server) (ch : Nat) (m : Bytes) (h : s.broadcast ch m = .ok s') :
    s'.events = s.events ∧
    ∀ j, (SMap.find? s.conns j = none → SMap.find? s'.conns j = none) ∧
         (∀ c, SMap.find? s.conns j = some c →
            ∃ c', c.sendMessage ch m = .ok c' ∧ SMap.find? s'.conns j = some c') :=
  let ⟨e, _, hj⟩ := Server.broadcast_spec h
  ⟨e, hj⟩

/-- `broadcast_message_except(ex, ch, m)`: the same for every `j ≠ ex`, and the identity on `ex`. -/
theorem broadcastExcept_skips_one (s s' : Server) (ex ch : Nat) (m : Bytes)
    (h : s.broadcastExcept ex ch m = .ok s') :
    s'.events = s.events ∧ SMap.find? s'.conns ex = SMap.find? s.conns ex ∧
    ∀ j, j ≠ ex → (SMap.find? s.conns j = none → SMap.find? s'.conns j = none) ∧
         (∀ c, SMap.find? s.conns j = some c →
            ∃ c', c.sendMessage ch m = .ok c' ∧ SMap.find? s'.conns j = some c') :=
  let ⟨e, _, hex, hj⟩ := Server.broadcastExcept_spec h
  ⟨e, hex, hj⟩

/-- `update(dt)` and `disconnect_all` act on each connection separately. -/
theorem update_pointwise (s s' : Server) (dt : Nat) (h : s.update dt = .ok s') :
    s'.events = s.events ∧
    ∀ j, (SMap.find? s.conns j = none → SMap.find? s'.conns j = none) ∧
         (∀ c, SMap.find? s.conns j = some c → ∃ c', c.update dt = .ok c' ∧ SMap.find? s'.conns j = some c') :=
  let ⟨e, _, hj⟩ := Server.update_spec h
  ⟨e, hj⟩

theorem disconnectAll_pointwise (s : Server) (j : Nat) :
    SMap.find? s.disconnectAll.conns j = (SMap.find? s.conns j).map (·.disconnectWith .byServer) :=
  Server.disconnectAll_find s j

/-! ### 5. Per-channel frames of a connection -/

/-- `send_message(ch, m)` changes send channel `ch` (and the status, if that channel overflows) and
    nothing else: every other send channel, every receive channel, the sent-packet table, the pending
    acks, the sequence counter. -/
theorem send_touches_one_channel (c c' : Conn) (ch : Nat) (m : Bytes) (h : c.sendMessage ch m = .ok c') :
    (∀ ch', ch' ≠ ch → SMap.find? c'.sendRel ch' = SMap.find? c.sendRel ch' ∧
                       SMap.find? c'.sendUnrel ch' = SMap.find? c.sendUnrel ch') ∧
    c'.recvRel = c.recvRel ∧ c'.recvUnrel = c.recvUnrel ∧ c'.sent = c.sent ∧
    c'.pendingAcks = c.pendingAcks ∧ c'.packetSeq = c.packetSeq ∧
    c'.now = c.now ∧ c'.order = c.order ∧ c'.budget = c.budget := Conn.sendMessage_frame h

/-- `receive_message(ch)` changes receive channel `ch` and nothing else (not even the status). -/
theorem receive_touches_one_channel (c c' : Conn) (ch : Nat) (out : Option Bytes)
    (h : c.receiveMessage ch = .ok (c', out)) :
    (∀ ch', ch' ≠ ch → SMap.find? c'.recvRel ch' = SMap.find? c.recvRel ch' ∧
                       SMap.find? c'.recvUnrel ch' = SMap.find? c.recvUnrel ch') ∧
    (c'.sendRel = c.sendRel ∧ c'.sendUnrel = c.sendUnrel ∧ c'.sent = c.sent ∧ c'.packetSeq = c.packetSeq) ∧
    c'.pendingAcks = c.pendingAcks ∧ c'.status = c.status ∧
    (c'.now = c.now ∧ c'.order = c.order ∧ c'.budget = c.budget) := Conn.receiveMessage_frame h

/-- … and reads nothing else: what it returns is determined by the disconnected flag and receive
    channel `ch`. -/
theorem receive_reads_one_channel (c1 c2 : Conn) (ch : Nat) (hs : c1.isDisconnected = c2.isDisconnected)
    (h1 : SMap.find? c1.recvRel ch = SMap.find? c2.recvRel ch)
    (h2 : SMap.find? c1.recvUnrel ch = SMap.find? c2.recvUnrel ch) :
    Res.outOf (c1.receiveMessage ch) = Res.outOf (c2.receiveMessage ch) := Conn.receiveMessage_local c1 c2 ch hs h1 h2

/-- A data packet (any of the four kinds) addressed to channel `ch` changes receive channel `ch`, the
    pending acks and possibly the status; no other receive channel and nothing on the send side. -/
theorem data_packet_touches_one_channel (c c' : Conn) (bytes : Bytes) (p : Packet) (ch : Nat)
    (hp : Packet.fromBytes bytes = .ok p) (hch : Packet.dataChannel p = some ch) (h : c.processPacket bytes = .ok c') :
    (∀ ch', ch' ≠ ch → SMap.find? c'.recvRel ch' = SMap.find? c.recvRel ch' ∧
                       SMap.find? c'.recvUnrel ch' = SMap.find? c.recvUnrel ch') ∧
    (c'.sendRel = c.sendRel ∧ c'.sendUnrel = c.sendUnrel ∧ c'.sent = c.sent ∧ c'.packetSeq = c.packetSeq) ∧
    (c'.now = c.now ∧ c'.order = c.order ∧ c'.budget = c.budget) := Conn.processPacket_data_frame hp hch h

/-- An ack packet touches no receive channel and never changes the status; an undecodable packet
    changes nothing but the status. -/
theorem ack_packet_touches_no_receive_channel (c c' : Conn) (bytes : Bytes) (seq : Nat) (ranges : List AckRange)
    (hp : Packet.fromBytes bytes = .ok (.ack seq ranges)) (h : c.processPacket bytes = .ok c') :
    c'.recvRel = c.recvRel ∧ c'.recvUnrel = c.recvUnrel ∧ c'.status = c.status ∧
    (c'.now = c.now ∧ c'.order = c.order ∧ c'.budget = c.budget) := Conn.processPacket_ack_frame hp h

theorem garbage_packet_only_disconnects (c : Conn) (bytes : Bytes) (e : SerErr)
    (hp : Packet.fromBytes bytes = .error e) :
    c.processPacket bytes = .ok (c.disconnectWith (.packetDeser e)) := Conn.processPacket_garbage hp

/-- Isolation of channels, in the form that is true of the code: traffic for channel `ch'` (a data
    packet for it, or draining it with `receive_message`) does not change what `receive_message(ch)`
    returns for any other channel `ch` — PROVIDED the connection was not disconnected by it.
    The proviso cannot be dropped, see `channel_error_kills_other_channels` below. -/
theorem other_channel_cannot_interfere_partial (c c' : Conn) (ch ch' : Nat) (hne : ch ≠ ch')
    (hframe : Conn.RecvFrame ch' c c') (hstatus : c'.isDisconnected = c.isDisconnected) :
    Res.outOf (c'.receiveMessage ch) = Res.outOf (c.receiveMessage ch) :=
  Conn.receiveMessage_local c' c ch hstatus (hframe ch hne).1 (hframe ch hne).2

/-! ### concrete instances -/
section Examples

def cfg : List ChanCfg := [⟨0, .ordered, 1000, 300⟩, ⟨1, .unreliable, 1000, 0⟩]
def srv2 : Server := ((Server.new 60000 cfg cfg).addConnection 1).addConnection 2
def client : Conn := (Server.new 60000 cfg cfg).newClient.setConnected

/-- sending to client 1 changes client 1 and leaves client 2 exactly as it was -/
example : Server.slotAt 2 (srv2.sendMessage 1 0 [7]) = .ok (SMap.find? srv2.conns 2) ∧
          Server.slotAt 1 (srv2.sendMessage 1 0 [7]) ≠ .ok (SMap.find? srv2.conns 1) := by decide

/-- broadcast_except 1: client 1 untouched, client 2 gets the message queued -/
example : Server.slotAt 1 (srv2.broadcastExcept 1 0 [7]) = .ok (SMap.find? srv2.conns 1) ∧
          Server.slotAt 2 (srv2.broadcastExcept 1 0 [7]) = Server.slotAt 2 (srv2.sendMessage 2 0 [7]) ∧
          Server.slotAt 2 (srv2.broadcast 0 [7]) = Server.slotAt 2 (srv2.sendMessage 2 0 [7]) ∧
          Server.slotAt 1 (srv2.broadcast 0 [7]) = Server.slotAt 1 (srv2.sendMessage 1 0 [7]) := by decide

/-- client 2 sends [5,6] on the ordered channel; client 1 sends garbage and is disconnected for it.
    The message is obtained under id 2 and only there; client 1's slot yields nothing. -/
def demoClients : Res Empty (Option Bytes × Option Bytes × Option Bytes) := do
  let cl ← client.sendMessage 0 [5, 6]
  let (_, pkts) ← cl.getPacketsToSend
  let (s, _) ← srv2.processPacketFrom [255] 1
  let (s, _) ← Server.feedServer s 2 pkts
  let (s, m1) ← s.receiveMessage 1 0
  let (s, m2) ← s.receiveMessage 2 0
  let (_, m2') ← s.receiveMessage 2 0
  pure (m1, m2, m2')

example : demoClients = .ok (none, some [5, 6], none) := by decide

/-- COUNTER-EXAMPLE to unconditional channel isolation (this is renet's behaviour, mirrored by the
    model): a message [42] is already queued on the unreliable channel 1; then one undecodable packet
    (or any channel error on channel 0) disconnects the connection, and `receive_message(1)` yields
    nothing any more — the queued message of the healthy channel is lost to the application. -/
def demoChannels : Res Empty (Option Bytes × Option Bytes) := do
  let cl ← client.sendMessage 1 [42]
  let (_, pkts) ← cl.getPacketsToSend
  let c ← Server.feedClient (Server.new 60000 cfg cfg).newConn.setConnected pkts
  let (_, before) ← c.receiveMessage 1
  let c ← c.processPacket [255]
  let (_, after) ← c.receiveMessage 1
  pure (before, after)

theorem channel_error_kills_other_channels : demoChannels = .ok (some [42], none) := by decide

end Examples

end RenetVerif.C11
