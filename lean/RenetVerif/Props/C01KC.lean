/-
  C01 — LIVENESS, the k-ROUND bound with the per-round side conditions CLOSED.

  Props/C01K.lean proves: from any reachable state with both ends live and receiver room, `k` full lossless rounds
  with `k * (B - SLICE_SIZE + 1) ≥ backlog` leave `obtained = submitted` — under PER-ROUND side conditions
  `Rounds cfg ch Sched s rs`, some of which are facts about the CODE's state in every round (counter ranges of both
  endpoints, B's pending-ack list non-empty and below the cap of 64 ranges) that C01K only assumes.
  Here those are DERIVED.  Definitions and proofs: Lemmas/LivenessKClosed.lean.

  WHAT REMAINS as hypotheses besides the standing ones of C01K (reachable, both ends live, H3 room at B):

  (a) SCHEDULE FACTS, per round — `RoundsSched ch Sched s rs` — what the ENVIRONMENT does:
        timer     `r.dt ≥ resend_time`,
        drain     `r.n` receive calls suffice,
        sched     the scheduling hypothesis `Sched su` of the theorem (H2/H4; nothing for a single-channel cfg),
        all/exact `r.ks` lists exactly the datagrams of this round's flush of A (lossless; any order, repetitions),
        nonempty  `r.ks ≠ []`: the round hands B at least one datagram (a fact about the schedule list; with `exact`
                  it says A's flush emitted something — NOT derived from "the backlog is non-empty"),
        back      `r.ai = ackIdx u`: the datagram handed to A is the last one of B's flush, and
                  `(flushPk u.b).length = 1`: B's flush is a single datagram — B's application has no traffic of
                  its own (the mirror image of H4; the system model `SysOp` has no `sendB`, so this holds in every
                  run, but it is assumed here, not derived).
  (b) HEAD-ROOM on the INITIAL state `s` of the rounds — `HeadRoom cfg s rs` — with `K = kTotal rs` the number of
      datagrams the schedule hands to B over all rounds (`Σ r.ks.length`, repetitions counted) and `k = rs.length`:
        sys      `CountersOK cfg s`            (channel ids are bytes, `packet_sequence ≤ 2^62`, submission logs in range),
        staticA/B `StaticOK s.a`, `StaticOK s.b` (message-id counters and memory limits of the send channels ≤ 2^62),
        seqA     `s.a.packetSeq + K + k ≤ 2^62`  (A emits at most `|r.ks| + 1` datagrams in round `r`),
        seqB     `s.b.packetSeq + 2 * k ≤ 2^62`,
        acks     `s.b.pendingAcks.length + K < ACK_RANGE_CAP = 64`.

  WHAT WAS REMOVED relative to C01K's `Rounds` (all per round, all about the code's state):
        counters   `CountersOK cfg su`            derived (submission logs do not move; A's sequence from `seqA`)
        countersA  `su.a.CountersOK`              derived: static part is invariant under everything a round does
                                                  (`step_frame`); `flushSeq ≤ packetSeq + |flush| + 1` holds WITHOUT any
                                                  counter hypothesis once the flush is non-empty (`flushSeq_le`)
        back.1     `u.b.CountersOK`               derived the same way (B's sequence from `seqB`)
        back.2     `u.b.pendingAcks ≠ []`         derived: B parsed a datagram of the flush (`round_pending`)
        cap        `su.b.pendingAcks.length + |r.ks| < 64`   derived from the ONE initial inequality `acks`
                                                  (each datagram adds at most one range; B's flush and A do not add any).
  NOT DONE: the sharp form of `acks` (`s.b.pendingAcks.length + k < 64`, one new range per ROUND because the
  sequence numbers of a flush are consecutive) — it needs a lemma about `Acks.add` on a contiguous block in arbitrary
  order; and `nonempty` is assumed rather than derived from a non-empty backlog.

  SECOND STEP (`…_closed2`, Lemmas/LivenessKClosed2.lean).
  (A) DONE.  "B's flush is one datagram" is no longer assumed: `SysOp` has no `sendB`, so in every state reachable from
      `Sys.init cfg` B's send side is idle (`SendIdle`, `idleB_reach`: invariant of `Sys.run`; `process_packet` reaches the
      send side only through the ack loop, which does nothing on an empty `unacked` map; the flush of an idle
      connection emits nothing from its channels).  Hence `flushSeq ≤ packetSeq + 1` for B without any hypothesis
      (`flushSeq_idle`), and B's flush is exactly the ack packet (`flushPk_idle_one`, `flushB_one_reach`).
      `RoundsSched2` = `RoundsSched` minus that conjunct; `HeadRoom2` = `HeadRoom` with
      `seqB : s.b.packetSeq + rs.length ≤ 2^62` (ONE datagram of B per round instead of two).
  (B) NOT POSSIBLE on top of C01K, and not attempted further.  The `_closed` theorems go through `Rounds`, whose field
      `cap` IS the coarse per-round inequality `su.b.pendingAcks.length + r.ks.length < 64` (with repetitions), consumed by
      `LiveK.full_round` → `deliver_pending` → `Acks.add_mem_iff`, which needs the list below the cap at EVERY delivery.
      The sharp hypothesis `s.b.pendingAcks.length + rs.length < 64` does not imply it (empty list, one round with 64
      datagrams), and it is not even true that the code stays below the cap under it: the datagrams of a flush may
      arrive in any order, and after the even-numbered ones of a block of `n` consecutive sequence numbers the list
      holds `n/2` more ranges — above 64 `add_pending_ack` drops the OLDEST range (`capFront`), i.e. B forgets to
      acknowledge.  "One range per round" holds only for the state after the COMPLETE block; obtaining it needs
      (i) the canonical-form lemma for WF range lists and (ii) re-proving `full_round` with a cap on the intermediate
      states of the delivery (a hypothesis on the ORDER, e.g. in-order delivery).  The same applies to "distinct
      datagrams": `Rounds.cap` counts `r.ks.length`.  The coarse `acks : s.b.pendingAcks.length + kTotal rs < 64` stays.
  (C) NOT DONE.  `r.ks ≠ []` cannot be derived from "backlog non-empty and `SLICE_SIZE ≤ B`" with the lemmas at hand,
      for a reason worth recording: the derivation of `su.a.CountersOK` (`flushSeq ≤ packetSeq + |flush| + 1`) USES
      `nonempty` (a non-empty `flushPk` certifies that serialisation did not fail), while every lemma that shows the
      flush non-empty (`flush_covers`, `flush_contains`, `getPackets_cover_part`) assumes `CountersOK`.  In the case
      `r.ks = []` ∧ `flushPk su.a = []` the sub-case "channel loop returned packets but serialisation failed because
      the sequence number passed 2^62" can only be excluded by a bound on the NUMBER of packets one channel loop
      emits (≤ stored small entries + pending slices, over all send channels); no such lemma exists yet
      (`chanLoop_budget` gives `seq' = seq + |ps|` but no bound on `|ps|`; the budget does not bound it — empty
      messages are free).  With that lemma: `seqA` becomes `packetSeq + k * (units + 1) ≤ 2^62` and `nonempty` follows
      while the backlog is non-empty; for rounds starting with an empty backlog `Rounds.back` still demands
      `pendingAcks ≠ []`, so `nonempty` would have to stay for those (or the round list be cut).
-/
import RenetVerif.Props.C01K
import RenetVerif.Lemmas.LivenessKClosed
import RenetVerif.Lemmas.LivenessKClosed2
namespace RenetVerif.C01KC
open RenetVerif C RenetVerif.System RenetVerif.Live RenetVerif.LiveK RenetVerif.LiveKC

/-- **C01 liveness, k rounds (bytes, any messages), side conditions closed.**  Same conclusion as
    `C01K.k_round_delivery`.  Hypotheses: the standing ones; the SCHEDULE facts `RoundsSched` (timer, drain,
    `SchedBytes` = H4 + `B ≤ availAtTurn`, all/exact, `r.ks ≠ []`, `r.ai = ackIdx u`, B's flush is one datagram);
    the HEAD-ROOM `HeadRoom cfg s rs` on the initial state; `k ≥ 1`, `k * (B - SLICE_SIZE + 1) ≥ backlog`.
    REMOVED relative to C01K (derived here for every round): `CountersOK cfg su`, `su.a.CountersOK`,
    `u.b.CountersOK`, `u.b.pendingAcks ≠ []`, and the per-round ack cap `su.b.pendingAcks.length + |r.ks| < 64`. -/
theorem k_round_delivery_closed (cfg : Cfg) (ops : List SysOp) (s : Sys) (hr : (Sys.init cfg).run ops = some s)
    (hda : s.a.isDisconnected = false) (hdb : s.b.isDisconnected = false)
    (ch : Nat) (ho : cfg.Ordered ch) (sA : SendRel) (hfA : SMap.find? s.a.sendRel ch = some sA)
    (rB : RecvRel) (hfB : SMap.find? s.b.recvRel ch = some rB) (H3 : Room (s.submitted ch) rB)
    (B : Nat) (hSB : SLICE_SIZE ≤ B)
    (rs : List RoundP) (hRS : RoundsSched ch (SchedBytes ch B) s rs) (hH : HeadRoom cfg s rs)
    (hk1 : rs ≠ []) (hk : backlog sA.unacked ≤ rs.length * (B - SLICE_SIZE + 1)) :
    ∃ u, s.run (roundsOps ch rs) = some u ∧ u.a.isDisconnected = false ∧ u.b.isDisconnected = false ∧
      u.submitted ch = s.submitted ch ∧ u.obtained ch = s.submitted ch :=
  C01K.k_round_delivery cfg ops s hr hda hdb ch ho sA hfA rB hfB H3 B hSB rs
    (rounds_of_sched cfg ch true ho (SchedBytes ch B) (fun _ _ _ h => h.1) rs ops s sA rB hr hda hdb hfA hfB H3 hRS hH)
    hk1 hk

/-- **Single-channel configuration, side conditions closed.**  Same conclusion as `C01K.k_round_delivery_single`; no
    scheduling hypothesis (`Sched = True`).  Hypotheses besides the standing ones: the schedule facts `RoundsSched`
    and the head-room `HeadRoom` on the initial state.  REMOVED relative to C01K: all per-round counter conditions
    (`CountersOK cfg su`, `su.a.CountersOK`, `u.b.CountersOK`), `u.b.pendingAcks ≠ []`, and the per-round ack cap. -/
theorem k_round_delivery_single_closed (cfg : Cfg) (ops : List SysOp) (s : Sys) (hr : (Sys.init cfg).run ops = some s)
    (hda : s.a.isDisconnected = false) (hdb : s.b.isDisconnected = false)
    (ch : Nat) (hsingle : Single cfg ch) (sA : SendRel) (hfA : SMap.find? s.a.sendRel ch = some sA)
    (rB : RecvRel) (hfB : SMap.find? s.b.recvRel ch = some rB) (H3 : Room (s.submitted ch) rB)
    (hSB : SLICE_SIZE ≤ cfg.budget)
    (rs : List RoundP) (hRS : RoundsSched ch (fun _ => True) s rs) (hH : HeadRoom cfg s rs)
    (hk1 : rs ≠ []) (hk : backlog sA.unacked ≤ rs.length * (cfg.budget - SLICE_SIZE + 1)) :
    ∃ u, s.run (roundsOps ch rs) = some u ∧ u.a.isDisconnected = false ∧ u.b.isDisconnected = false ∧
      u.submitted ch = s.submitted ch ∧ u.obtained ch = s.submitted ch :=
  C01K.k_round_delivery_single cfg ops s hr hda hdb ch hsingle sA hfA rB hfB H3 hSB rs
    (rounds_of_sched cfg ch true (single_ordered hsingle) (fun _ => True)
      (fun ops' su hr' _ => by
        obtain ⟨pkU, hU, -⟩ := system_inv cfg ops' su hr'
        exact single_only hU.invA.1 (single_order hsingle hU))
      rs ops s sA rB hr hda hdb hfA hfB H3 hRS hH)
    hk1 hk

/-- **C02 liveness, k rounds (ReliableUnordered channel), side conditions closed.**  Same conclusion as
    `C01K.k_round_delivery_unordered` (`obtained` is a permutation of `submitted`).  Hypotheses and removed side
    conditions as in `k_round_delivery_closed`. -/
theorem k_round_delivery_unordered_closed (cfg : Cfg) (ops : List SysOp) (s : Sys) (hr : (Sys.init cfg).run ops = some s)
    (hda : s.a.isDisconnected = false) (hdb : s.b.isDisconnected = false)
    (ch : Nat) (ho : cfg.Unordered ch) (sA : SendRel) (hfA : SMap.find? s.a.sendRel ch = some sA)
    (rB : RecvRel) (hfB : SMap.find? s.b.recvRel ch = some rB) (H3 : Room (s.submitted ch) rB)
    (B : Nat) (hSB : SLICE_SIZE ≤ B)
    (rs : List RoundP) (hRS : RoundsSched ch (SchedBytes ch B) s rs) (hH : HeadRoom cfg s rs)
    (hk1 : rs ≠ []) (hk : backlog sA.unacked ≤ rs.length * (B - SLICE_SIZE + 1)) :
    ∃ u, s.run (roundsOps ch rs) = some u ∧ u.a.isDisconnected = false ∧ u.b.isDisconnected = false ∧
      u.submitted ch = s.submitted ch ∧ (u.obtained ch).Perm (s.submitted ch) :=
  C01K.k_round_delivery_unordered cfg ops s hr hda hdb ch ho sA hfA rB hfB H3 B hSB rs
    (rounds_of_sched cfg ch false ho (SchedBytes ch B) (fun _ _ _ h => h.1) rs ops s sA rB hr hda hdb hfA hfB H3 hRS hH)
    hk1 hk

/-- **k rounds, cheap entries, side conditions closed** (`C01K.k_round_delivery_cost`). -/
theorem k_round_delivery_cost_closed (cfg : Cfg) (ops : List SysOp) (s : Sys) (hr : (Sys.init cfg).run ops = some s)
    (hda : s.a.isDisconnected = false) (hdb : s.b.isDisconnected = false)
    (ch : Nat) (ho : cfg.Ordered ch) (sA : SendRel) (hfA : SMap.find? s.a.sendRel ch = some sA)
    (rB : RecvRel) (hfB : SMap.find? s.b.recvRel ch = some rB) (H3 : Room (s.submitted ch) rB)
    (B c : Nat) (hcB : c ≤ B) (hcost : ∀ x ∈ sA.unacked, entryCost x.2 ≤ c)
    (rs : List RoundP) (hRS : RoundsSched ch (SchedBytes ch B) s rs) (hH : HeadRoom cfg s rs)
    (hk1 : rs ≠ []) (hk : backlog sA.unacked ≤ rs.length * (B - c + 1)) :
    ∃ u, s.run (roundsOps ch rs) = some u ∧ u.a.isDisconnected = false ∧ u.b.isDisconnected = false ∧
      u.submitted ch = s.submitted ch ∧ u.obtained ch = s.submitted ch :=
  C01K.k_round_delivery_cost cfg ops s hr hda hdb ch ho sA hfA rB hfB H3 B c hcB hcost rs
    (rounds_of_sched cfg ch true ho (SchedBytes ch B) (fun _ _ _ h => h.1) rs ops s sA rB hr hda hdb hfA hfB H3 hRS hH)
    hk1 hk

/-- **k rounds, entry count, side conditions closed** (`C01K.k_round_delivery_entries`). -/
theorem k_round_delivery_entries_closed (cfg : Cfg) (ops : List SysOp) (s : Sys) (hr : (Sys.init cfg).run ops = some s)
    (hda : s.a.isDisconnected = false) (hdb : s.b.isDisconnected = false)
    (ch : Nat) (ho : cfg.Ordered ch) (sA : SendRel) (hfA : SMap.find? s.a.sendRel ch = some sA)
    (rB : RecvRel) (hfB : SMap.find? s.b.recvRel ch = some rB) (H3 : Room (s.submitted ch) rB)
    (q : Nat) (rs : List RoundP) (hRS : RoundsSched ch (SchedCount ch q) s rs) (hH : HeadRoom cfg s rs)
    (hk1 : rs ≠ []) (hk : sA.unacked.length ≤ rs.length * q) :
    ∃ u, s.run (roundsOps ch rs) = some u ∧ u.a.isDisconnected = false ∧ u.b.isDisconnected = false ∧
      u.submitted ch = s.submitted ch ∧ u.obtained ch = s.submitted ch :=
  C01K.k_round_delivery_entries cfg ops s hr hda hdb ch ho sA hfA rB hfB H3 q rs
    (rounds_of_sched cfg ch true ho (SchedCount ch q) (fun _ _ _ h => h.1) rs ops s sA rB hr hda hdb hfA hfB H3 hRS hH)
    hk1 hk

/-! ## second step: "B's flush is one datagram" derived (`RoundsSched2`, `HeadRoom2`) -/

/-- **C01 liveness, k rounds, side conditions closed (2).**  As `k_round_delivery_closed`; REMOVED in addition: the
    conjunct `(flushPk u.b).length = 1` of the schedule facts (derived: B is idle in every reachable state), and B's
    head-room is `s.b.packetSeq + rs.length ≤ 2^62`.  REMAINING: standing hypotheses; `RoundsSched2` (timer, drain,
    `SchedBytes`, all/exact, `r.ks ≠ []`, `r.ai = ackIdx u`); `HeadRoom2` on the initial state. -/
theorem k_round_delivery_closed2 (cfg : Cfg) (ops : List SysOp) (s : Sys) (hr : (Sys.init cfg).run ops = some s)
    (hda : s.a.isDisconnected = false) (hdb : s.b.isDisconnected = false)
    (ch : Nat) (ho : cfg.Ordered ch) (sA : SendRel) (hfA : SMap.find? s.a.sendRel ch = some sA)
    (rB : RecvRel) (hfB : SMap.find? s.b.recvRel ch = some rB) (H3 : Room (s.submitted ch) rB)
    (B : Nat) (hSB : SLICE_SIZE ≤ B)
    (rs : List RoundP) (hRS : RoundsSched2 ch (SchedBytes ch B) s rs) (hH : HeadRoom2 cfg s rs)
    (hk1 : rs ≠ []) (hk : backlog sA.unacked ≤ rs.length * (B - SLICE_SIZE + 1)) :
    ∃ u, s.run (roundsOps ch rs) = some u ∧ u.a.isDisconnected = false ∧ u.b.isDisconnected = false ∧
      u.submitted ch = s.submitted ch ∧ u.obtained ch = s.submitted ch :=
  C01K.k_round_delivery cfg ops s hr hda hdb ch ho sA hfA rB hfB H3 B hSB rs
    (rounds_of_sched2 cfg ch true ho (SchedBytes ch B) (fun _ _ _ h => h.1) rs ops s sA rB hr hda hdb hfA hfB H3 hRS hH)
    hk1 hk

/-- **Single-channel configuration, side conditions closed (2).**  As `k_round_delivery_single_closed` with
    `RoundsSched2` / `HeadRoom2`: no scheduling hypothesis, no hypothesis on B's flush. -/
theorem k_round_delivery_single_closed2 (cfg : Cfg) (ops : List SysOp) (s : Sys) (hr : (Sys.init cfg).run ops = some s)
    (hda : s.a.isDisconnected = false) (hdb : s.b.isDisconnected = false)
    (ch : Nat) (hsingle : Single cfg ch) (sA : SendRel) (hfA : SMap.find? s.a.sendRel ch = some sA)
    (rB : RecvRel) (hfB : SMap.find? s.b.recvRel ch = some rB) (H3 : Room (s.submitted ch) rB)
    (hSB : SLICE_SIZE ≤ cfg.budget)
    (rs : List RoundP) (hRS : RoundsSched2 ch (fun _ => True) s rs) (hH : HeadRoom2 cfg s rs)
    (hk1 : rs ≠ []) (hk : backlog sA.unacked ≤ rs.length * (cfg.budget - SLICE_SIZE + 1)) :
    ∃ u, s.run (roundsOps ch rs) = some u ∧ u.a.isDisconnected = false ∧ u.b.isDisconnected = false ∧
      u.submitted ch = s.submitted ch ∧ u.obtained ch = s.submitted ch :=
  C01K.k_round_delivery_single cfg ops s hr hda hdb ch hsingle sA hfA rB hfB H3 hSB rs
    (rounds_of_sched2 cfg ch true (single_ordered hsingle) (fun _ => True)
      (fun ops' su hr' _ => by
        obtain ⟨pkU, hU, -⟩ := system_inv cfg ops' su hr'
        exact single_only hU.invA.1 (single_order hsingle hU))
      rs ops s sA rB hr hda hdb hfA hfB H3 hRS hH)
    hk1 hk

/-- **C02 liveness, k rounds (ReliableUnordered), side conditions closed (2).**  As `k_round_delivery_unordered_closed`
    with `RoundsSched2` / `HeadRoom2`. -/
theorem k_round_delivery_unordered_closed2 (cfg : Cfg) (ops : List SysOp) (s : Sys) (hr : (Sys.init cfg).run ops = some s)
    (hda : s.a.isDisconnected = false) (hdb : s.b.isDisconnected = false)
    (ch : Nat) (ho : cfg.Unordered ch) (sA : SendRel) (hfA : SMap.find? s.a.sendRel ch = some sA)
    (rB : RecvRel) (hfB : SMap.find? s.b.recvRel ch = some rB) (H3 : Room (s.submitted ch) rB)
    (B : Nat) (hSB : SLICE_SIZE ≤ B)
    (rs : List RoundP) (hRS : RoundsSched2 ch (SchedBytes ch B) s rs) (hH : HeadRoom2 cfg s rs)
    (hk1 : rs ≠ []) (hk : backlog sA.unacked ≤ rs.length * (B - SLICE_SIZE + 1)) :
    ∃ u, s.run (roundsOps ch rs) = some u ∧ u.a.isDisconnected = false ∧ u.b.isDisconnected = false ∧
      u.submitted ch = s.submitted ch ∧ (u.obtained ch).Perm (s.submitted ch) :=
  C01K.k_round_delivery_unordered cfg ops s hr hda hdb ch ho sA hfA rB hfB H3 B hSB rs
    (rounds_of_sched2 cfg ch false ho (SchedBytes ch B) (fun _ _ _ h => h.1) rs ops s sA rB hr hda hdb hfA hfB H3 hRS hH)
    hk1 hk

/-- **k rounds, cheap entries, side conditions closed (2)** -/
theorem k_round_delivery_cost_closed2 (cfg : Cfg) (ops : List SysOp) (s : Sys) (hr : (Sys.init cfg).run ops = some s)
    (hda : s.a.isDisconnected = false) (hdb : s.b.isDisconnected = false)
    (ch : Nat) (ho : cfg.Ordered ch) (sA : SendRel) (hfA : SMap.find? s.a.sendRel ch = some sA)
    (rB : RecvRel) (hfB : SMap.find? s.b.recvRel ch = some rB) (H3 : Room (s.submitted ch) rB)
    (B c : Nat) (hcB : c ≤ B) (hcost : ∀ x ∈ sA.unacked, entryCost x.2 ≤ c)
    (rs : List RoundP) (hRS : RoundsSched2 ch (SchedBytes ch B) s rs) (hH : HeadRoom2 cfg s rs)
    (hk1 : rs ≠ []) (hk : backlog sA.unacked ≤ rs.length * (B - c + 1)) :
    ∃ u, s.run (roundsOps ch rs) = some u ∧ u.a.isDisconnected = false ∧ u.b.isDisconnected = false ∧
      u.submitted ch = s.submitted ch ∧ u.obtained ch = s.submitted ch :=
  C01K.k_round_delivery_cost cfg ops s hr hda hdb ch ho sA hfA rB hfB H3 B c hcB hcost rs
    (rounds_of_sched2 cfg ch true ho (SchedBytes ch B) (fun _ _ _ h => h.1) rs ops s sA rB hr hda hdb hfA hfB H3 hRS hH)
    hk1 hk

/-- **k rounds, entry count, side conditions closed (2)** -/
theorem k_round_delivery_entries_closed2 (cfg : Cfg) (ops : List SysOp) (s : Sys) (hr : (Sys.init cfg).run ops = some s)
    (hda : s.a.isDisconnected = false) (hdb : s.b.isDisconnected = false)
    (ch : Nat) (ho : cfg.Ordered ch) (sA : SendRel) (hfA : SMap.find? s.a.sendRel ch = some sA)
    (rB : RecvRel) (hfB : SMap.find? s.b.recvRel ch = some rB) (H3 : Room (s.submitted ch) rB)
    (q : Nat) (rs : List RoundP) (hRS : RoundsSched2 ch (SchedCount ch q) s rs) (hH : HeadRoom2 cfg s rs)
    (hk1 : rs ≠ []) (hk : sA.unacked.length ≤ rs.length * q) :
    ∃ u, s.run (roundsOps ch rs) = some u ∧ u.a.isDisconnected = false ∧ u.b.isDisconnected = false ∧
      u.submitted ch = s.submitted ch ∧ u.obtained ch = s.submitted ch :=
  C01K.k_round_delivery_entries cfg ops s hr hda hdb ch ho sA hfA rB hfB H3 q rs
    (rounds_of_sched2 cfg ch true ho (SchedCount ch q) (fun _ _ _ h => h.1) rs ops s sA rB hr hda hdb hfA hfB H3 hRS hH)
    hk1 hk

/-! ## non-vacuity: the example `C01K.ExS` (3000 bytes per tick vs. a 3700-byte sliced message, backlog 4803, `k = 3`)

  The schedule facts are checked by evaluation along the run (`roundsSchedb`); the head-room is ONE evaluation on the
  initial state: `kTotal [r1, r2, r3] = 3 + 3 + 1 = 7`, A's and B's packet sequences are 0, B's pending list is empty:
  `0 + 7 + 3 ≤ 2^62`, `0 + 6 ≤ 2^62`, `0 + 7 < 64`. -/
namespace ExS
open C01K.ExS

/-- the schedule facts of the three rounds, each checked in the state the run reaches -/
theorem roundsSched : RoundsSched 0 (fun _ => True) s [r1, r2, r3] :=
  roundsSched_of_b (schedb := fun _ => true) (fun _ _ => trivial) _ _ (by decide +kernel)

/-- the head-room, checked on the initial state only -/
theorem headRoom : HeadRoom cfg s [r1, r2, r3] := headRoom_of_b (by decide +kernel)

/-- the numbers behind `headRoom` -/
example : kTotal [r1, r2, r3] = 7 ∧ s.a.packetSeq = 0 ∧ s.b.packetSeq = 0 ∧ s.b.pendingAcks = [] := by decide +kernel

/-- **`k_round_delivery_single_closed` applied with `k = 3`**: `4803 ≤ 3 * (3000 - 1200 + 1)` -/
theorem delivered : ∃ u, s.run (roundsOps 0 [r1, r2, r3]) = some u ∧ u.a.isDisconnected = false ∧
    u.b.isDisconnected = false ∧ u.submitted 0 = s.submitted 0 ∧ u.obtained 0 = s.submitted 0 :=
  k_round_delivery_single_closed cfg ops s run_s start.1 start.2.1 0 single0 sA find_sA rB find_rB start.2.2.1 (by decide)
    [r1, r2, r3] roundsSched headRoom (by simp) (by rw [start.2.2.2.1]; decide)

/-- second step: the schedule facts WITHOUT "B's flush is one datagram" … -/
theorem roundsSched2 : RoundsSched2 0 (fun _ => True) s [r1, r2, r3] :=
  roundsSched2_of_b (schedb := fun _ => true) (fun _ _ => trivial) _ _ (by decide +kernel)

/-- … and the head-room with one datagram of B per round: `0 + 7 + 3 ≤ 2^62`, `0 + 3 ≤ 2^62`, `0 + 7 < 64` -/
theorem headRoom2 : HeadRoom2 cfg s [r1, r2, r3] := headRoom2_of_b (by decide +kernel)

/-- **`k_round_delivery_single_closed2` applied with `k = 3`** -/
theorem delivered2 : ∃ u, s.run (roundsOps 0 [r1, r2, r3]) = some u ∧ u.a.isDisconnected = false ∧
    u.b.isDisconnected = false ∧ u.submitted 0 = s.submitted 0 ∧ u.obtained 0 = s.submitted 0 :=
  k_round_delivery_single_closed2 cfg ops s run_s start.1 start.2.1 0 single0 sA find_sA rB find_rB start.2.2.1 (by decide)
    [r1, r2, r3] roundsSched2 headRoom2 (by simp) (by rw [start.2.2.2.1]; decide)

end ExS

/-! `C01K.ExU` — ReliableUnordered channel, datagrams handed over in reverse order, one of them twice in round 2
    (`r2.ks = [5, 4, 3, 4]`): repetitions count in `kTotal = 3 + 4 + 1 = 8`. -/
namespace ExU
open C01K.ExU

theorem roundsSched : RoundsSched 0 (SchedBytes 0 3000) s [r1, r2, r3] :=
  roundsSched_of_b (schedBytes_of_b 0 3000) _ _ (by decide +kernel)

theorem headRoom : HeadRoom cfg s [r1, r2, r3] := headRoom_of_b (by decide +kernel)

/-- **`k_round_delivery_unordered_closed` applied with `B = 3000`, `k = 3`** -/
theorem delivered : ∃ u, s.run (roundsOps 0 [r1, r2, r3]) = some u ∧ u.a.isDisconnected = false ∧
    u.b.isDisconnected = false ∧ u.submitted 0 = s.submitted 0 ∧ (u.obtained 0).Perm (s.submitted 0) :=
  k_round_delivery_unordered_closed cfg ops s run_s start.1 start.2.1 0 unordered0 sA find_sA rB find_rB start.2.2.1 3000
    (by decide) [r1, r2, r3] roundsSched headRoom (by simp) (by rw [start.2.2.2.1]; decide)

/-- **`k_round_delivery_unordered_closed2`** on the same run (`RoundsSched2` from `RoundsSched`) -/
theorem delivered2 : ∃ u, s.run (roundsOps 0 [r1, r2, r3]) = some u ∧ u.a.isDisconnected = false ∧
    u.b.isDisconnected = false ∧ u.submitted 0 = s.submitted 0 ∧ (u.obtained 0).Perm (s.submitted 0) :=
  k_round_delivery_unordered_closed2 cfg ops s run_s start.1 start.2.1 0 unordered0 sA find_sA rB find_rB start.2.2.1 3000
    (by decide) [r1, r2, r3] (roundsSched2_of_roundsSched _ _ roundsSched) (headRoom2_of_b (by decide +kernel)) (by simp)
    (by rw [start.2.2.2.1]; decide)

end ExU

end RenetVerif.C01KC
