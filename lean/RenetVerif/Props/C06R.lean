/-
  C06 / C09, receive side — whatever slice or message a peer sends, the receive channels never
  unwind, and their memory accounting stays exact and within budget.

  Two invariants are used (definitions in Lemmas/RecvInv.lean):
    * `Inv`  : accounting equality, `mem ≤ maxMem`, sorted constructor map, every stored constructor
               satisfies the strict `SliceCtor.Inv`;
    * `WInv` : the same, but a stored constructor may also be a dead one announcing zero slices.
  `WInv` is preserved by every operation on EVERY input.  `Inv` is preserved on every input whose
  `numSlices` is at least one — which the packet decoder guarantees (`wire_slices_positive`); the
  counter-example for `numSlices = 0` is `zero_slices_break_strict_inv`.
-/
import RenetVerif.Lemmas.RecvInv
namespace RenetVerif.C06R
open RenetVerif C

/-! ### slice constructor -/

theorem ctor_new_inv (n : Nat) (h : 1 ≤ n) : (SliceCtor.new n).Inv := SliceCtor.new_inv n h

/-- the content of `SliceCtor.Inv` -/
theorem ctor_inv_iff (c : SliceCtor) : c.Inv ↔
    (1 ≤ c.numSlices ∧ c.received.length = c.numSlices ∧ c.numReceived = c.received.count true ∧
     c.numReceived < c.numSlices ∧
     (if c.received[c.numSlices - 1]? = some true
      then (c.numSlices - 1) * SLICE_SIZE ≤ c.data.length ∧ c.data.length ≤ c.numSlices * SLICE_SIZE
      else c.data.length = c.numSlices * SLICE_SIZE)) := Iff.rfl

theorem ctor_no_panic (c : SliceCtor) (h : c.Inv) (idx : Nat) (bytes : Bytes) :
    match c.processSlice idx bytes with
    | .panic _ => False
    | .err _ => True
    | .ok (c', none) => c'.Inv ∧ c'.numSlices = c.numSlices
    | .ok (c', some m) => m.length ≤ c.numSlices * SLICE_SIZE ∧ c'.numSlices = c.numSlices :=
  SliceCtor.ctor_no_panic c h idx bytes

/-! ### reliable receive channel -/

/-- the content of `RecvRel.Inv` -/
theorem recvRel_inv_facts (r : RecvRel) (h : r.Inv) :
    r.mem = SMap.sumBy List.length r.messages + SMap.sumBy (fun c => c.numSlices * SLICE_SIZE) r.slices ∧
    r.mem ≤ r.maxMem ∧ SMap.Sorted r.slices ∧
    (∀ id c, SMap.find? r.slices id = some c → c.Inv) ∧
    (r.ordered = false → ∀ k, SMap.contains r.messages k = true → k < r.oldest ∨ k ∈ r.received) :=
  ⟨h.acct, h.budget, h.slicesOk.1, fun _ _ hf => h.ctor hf, h.pending⟩

theorem recvRel_new_inv (maxMem : Nat) (ordered : Bool) : (RecvRel.new maxMem ordered).Inv :=
  RecvRel.new_inv maxMem ordered

theorem recvRel_processMessage_safe (r : RecvRel) (h : r.Inv) (m : Bytes) (id : Nat) :
    (∃ r', r.processMessage m id = .ok r' ∧ r'.Inv) ∨
    (∃ e r', r.processMessage m id = .err (e, r') ∧ r'.Inv) := r.processMessage_safe h m id

theorem recvRel_processSlice_safe_partial (r : RecvRel) (h : r.Inv) (sl : Slice) (hn : 1 ≤ sl.numSlices) :
    (∃ r', r.processSlice sl = .ok r' ∧ r'.Inv) ∨
    (∃ e r', r.processSlice sl = .err (e, r') ∧ r'.Inv) := r.processSlice_safe_partial h sl hn

theorem recvRel_receive_safe (r : RecvRel) (h : r.Inv) : ∃ r' m, r.receive = .ok (r', m) ∧ r'.Inv :=
  r.receive_safe h

/-- all inputs, weak invariant -/
theorem recvRel_safe_all_inputs (r : RecvRel) (h : r.WInv) :
    (∀ m id, (∃ r', r.processMessage m id = .ok r' ∧ r'.WInv) ∨
             (∃ e r', r.processMessage m id = .err (e, r') ∧ r'.WInv)) ∧
    (∀ sl, (∃ r', r.processSlice sl = .ok r' ∧ r'.WInv) ∨
           (∃ e r', r.processSlice sl = .err (e, r') ∧ r'.WInv)) ∧
    (∃ r' m, r.receive = .ok (r', m) ∧ r'.WInv) :=
  ⟨r.processMessage_safe_weak h, r.processSlice_safe_weak h, r.receive_safe_weak h⟩

theorem recvRel_never_panics (r : RecvRel) (h : r.Inv) :
    (∀ m id s, r.processMessage m id ≠ .panic s) ∧ (∀ sl s, r.processSlice sl ≠ .panic s) ∧
    (∀ s, r.receive ≠ .panic s) :=
  let ⟨a, b, c⟩ := r.never_panics h.weaken; ⟨a, b, c⟩

theorem recvRel_quiescent (r : RecvRel) (h : r.WInv) (hm : r.messages = []) (hs : r.slices = []) : r.mem = 0 :=
  r.quiescent h hm hs

/-! ### unreliable receive channel -/

/-- the content of `RecvUnrel.Inv` -/
theorem recvUnrel_inv_facts (r : RecvUnrel) (h : r.Inv) :
    r.mem = sumLen r.messages + SMap.sumBy (fun c => c.numSlices * SLICE_SIZE) r.slices ∧
    r.mem ≤ r.maxMem ∧ SMap.Sorted r.slices ∧ SMap.Sorted r.lastReceived ∧
    (∀ id c, SMap.find? r.slices id = some c → c.Inv) ∧
    (∀ k, SMap.contains r.lastReceived k = true → SMap.contains r.slices k = true) :=
  ⟨h.acct, h.budget, h.slicesOk.1, h.lastSorted, fun _ _ hf => h.ctor hf, h.lastSub⟩

theorem recvUnrel_new_inv (ch maxMem : Nat) : (RecvUnrel.new ch maxMem).Inv := RecvUnrel.new_inv ch maxMem

theorem recvUnrel_processMessage_safe (r : RecvUnrel) (h : r.Inv) (m : Bytes) : (r.processMessage m).Inv :=
  r.processMessage_safe h m

theorem recvUnrel_processSlice_safe_partial (r : RecvUnrel) (h : r.Inv) (sl : Slice) (now : Nat)
    (hn : 1 ≤ sl.numSlices) :
    (∃ r', r.processSlice sl now = .ok r' ∧ r'.Inv) ∨
    (∃ e r', r.processSlice sl now = .err (e, r') ∧ r'.Inv) := r.processSlice_safe_partial h sl now hn

theorem recvUnrel_discardOld_safe (r : RecvUnrel) (h : r.Inv) (now : Nat) :
    ∃ r', r.discardOld now = .ok r' ∧ r'.Inv := r.discardOld_safe h now

theorem recvUnrel_receive_safe (r : RecvUnrel) (h : r.Inv) : ∃ r' m, r.receive = .ok (r', m) ∧ r'.Inv :=
  r.receive_safe h

/-- all inputs, weak invariant -/
theorem recvUnrel_safe_all_inputs (r : RecvUnrel) (h : r.WInv) :
    (∀ m, (r.processMessage m).WInv) ∧
    (∀ sl now, (∃ r', r.processSlice sl now = .ok r' ∧ r'.WInv) ∨
               (∃ e r', r.processSlice sl now = .err (e, r') ∧ r'.WInv)) ∧
    (∀ now, ∃ r', r.discardOld now = .ok r' ∧ r'.WInv) ∧
    (∃ r' m, r.receive = .ok (r', m) ∧ r'.WInv) :=
  ⟨r.processMessage_safe_weak h, r.processSlice_safe_weak h, r.discardOld_safe_weak h, r.receive_safe_weak h⟩

theorem recvUnrel_never_panics (r : RecvUnrel) (h : r.Inv) :
    (∀ sl now s, r.processSlice sl now ≠ .panic s) ∧ (∀ now s, r.discardOld now ≠ .panic s) ∧
    (∀ s, r.receive ≠ .panic s) :=
  let ⟨a, b, c⟩ := r.never_panics h.weaken; ⟨a, b, c⟩

theorem recvUnrel_quiescent (r : RecvUnrel) (h : r.WInv) (hm : r.messages = []) (hs : r.slices = []) : r.mem = 0 :=
  r.quiescent h hm hs

/-- C09: a fragment whose last slice arrived at least `DISCARD_FRAGMENT_AFTER_NS` ago is gone after
    `discardOld` (its reservation is released: accounting stays exact by `recvUnrel_discardOld_safe`). -/
theorem discardOld_removes_stale (r r' : RecvUnrel) (h : r.Inv) (now id t : Nat)
    (hf : SMap.find? r.lastReceived id = some t) (hold : now - t ≥ DISCARD_FRAGMENT_AFTER_NS)
    (he : r.discardOld now = .ok r') : SMap.find? r'.slices id = none :=
  r.discardOld_removes_stale r' h now id t hf hold he

/-! ### the extra hypothesis of the `_partial` theorems -/

/-- discharged on the wire: a decoded slice packet never announces zero slices -/
theorem wire_slices_positive (b : Bytes) (p : Packet) (h : Packet.fromBytes b = .ok p) (seq ch : Nat) (sl : Slice)
    (hp : p = .reliableSlice seq ch sl ∨ p = .unreliableSlice seq ch sl) :
    1 ≤ sl.numSlices ∧ sl.numSlices ≤ MAX_NUM_SLICES := Packet.fromBytes_numSlices b p h seq ch sl hp

/-- and necessary: a `Slice` value with `numSlices = 0` leaves a dead constructor in the map -/
theorem zero_slices_break_strict_inv :
    ((RecvRel.new 100 true).processSlice ⟨0, 0, 0, []⟩ =
        .err (.invalidSlice, { RecvRel.new 100 true with slices := [(0, SliceCtor.new 0)] }) ∧
      ¬ RecvRel.Inv { RecvRel.new 100 true with slices := [(0, SliceCtor.new 0)] }) ∧
    ((RecvUnrel.new 0 100).processSlice ⟨0, 0, 0, []⟩ 0 =
        .err (.invalidSlice, { RecvUnrel.new 0 100 with slices := [(0, SliceCtor.new 0)] }) ∧
      ¬ RecvUnrel.Inv { RecvUnrel.new 0 100 with slices := [(0, SliceCtor.new 0)] }) :=
  ⟨RecvRel.zero_slices_counterexample, RecvUnrel.zero_slices_counterexample⟩

/-! ### non-vacuity: concrete non-trivial states satisfying the hypotheses -/

/-- first slice (of two) of message 7 -/
def sl0 : Slice := ⟨7, 0, 2, List.replicate 1200 1⟩

/-- a constructor that has seen one of two slices -/
@[irreducible] def exCtor : SliceCtor :=
  match (SliceCtor.new 2).processSlice 0 (List.replicate 1200 1) with
  | .ok (c, _) => c
  | _ => SliceCtor.new 0

theorem exCtor_run : (SliceCtor.new 2).processSlice 0 (List.replicate 1200 1) = .ok (exCtor, none) := by
  decide +kernel

example : exCtor.Inv ∧ exCtor.numReceived = 1 ∧ exCtor.data.length = 2400 := by
  refine ⟨?_, by decide +kernel, by decide +kernel⟩
  rcases SliceCtor.processSlice_spec (SliceCtor.new 2) (ctor_new_inv 2 (by decide)) 0 (List.replicate 1200 1) with
    ⟨e, he⟩ | ⟨c', he, hi, _⟩ | ⟨c', m, he, _⟩
  · rw [exCtor_run] at he; cases he
  · rw [exCtor_run] at he; cases he; exact hi
  · rw [exCtor_run] at he; cases he

/-- a reliable channel (unordered) holding one partially received 2-slice message and one small message -/
@[irreducible] def exRel : RecvRel :=
  match (RecvRel.new 10000 false).processSlice sl0 with
  | .ok r => (match r.processMessage [1, 2, 3] 9 with | .ok r => r | _ => r)
  | _ => RecvRel.new 0 false

theorem exRel_run : ∃ r1, (RecvRel.new 10000 false).processSlice sl0 = .ok r1 ∧
    r1.processMessage [1, 2, 3] 9 = .ok exRel := by
  refine ⟨match (RecvRel.new 10000 false).processSlice sl0 with | .ok r => r | _ => RecvRel.new 0 false, ?_, ?_⟩
  · decide +kernel
  · decide +kernel

example : exRel.Inv ∧ exRel.mem = 2403 ∧ exRel.slices.length = 1 ∧ exRel.messages.length = 1 := by
  refine ⟨?_, by decide +kernel, by decide +kernel, by decide +kernel⟩
  obtain ⟨r1, h1, h2⟩ := exRel_run
  have i1 : r1.Inv := by
    rcases recvRel_processSlice_safe_partial _ (recvRel_new_inv 10000 false) sl0 (by decide) with
      ⟨r', he, hi⟩ | ⟨e, r', he, _⟩
    · rw [h1] at he; cases he; exact hi
    · rw [h1] at he; cases he
  rcases recvRel_processMessage_safe r1 i1 [1, 2, 3] 9 with ⟨r', he, hi⟩ | ⟨e, r', he, _⟩
  · rw [h2] at he; cases he; exact hi
  · rw [h2] at he; cases he

/-- an unreliable channel holding one partially received 2-slice message, last touched at t = 5 -/
@[irreducible] def exUnrel : RecvUnrel :=
  match (RecvUnrel.new 0 10000).processSlice sl0 5 with
  | .ok r => r
  | _ => RecvUnrel.new 0 0

theorem exUnrel_run : (RecvUnrel.new 0 10000).processSlice sl0 5 = .ok exUnrel := by decide +kernel

example : exUnrel.Inv ∧ exUnrel.mem = 2400 ∧ SMap.find? exUnrel.lastReceived 7 = some 5 ∧
    (3000000005 : Nat) - 5 ≥ DISCARD_FRAGMENT_AFTER_NS ∧ SMap.contains exUnrel.slices 7 = true := by
  refine ⟨?_, by decide +kernel, by decide +kernel, by decide, by decide +kernel⟩
  rcases recvUnrel_processSlice_safe_partial _ (recvUnrel_new_inv 0 10000) sl0 5 (by decide) with
    ⟨r', he, hi⟩ | ⟨e, r', he, _⟩
  · rw [exUnrel_run] at he; cases he; exact hi
  · rw [exUnrel_run] at he; cases he

/-- the hypotheses of `wire_slices_positive` are satisfiable: a real slice packet decodes -/
example : ∃ b, Packet.fromBytes b = .ok (.reliableSlice 5 2 ⟨0, 1, 2, [9]⟩) :=
  ⟨[2, 5, 2, 0, 1, 2, 1, 9], by rfl⟩

end RenetVerif.C06R
