/-
  C04, client half, over WHOLE RUNS of the model `NetcodeClient` (closes the second NOT DONE bullet of
  `Props/SrcPropsNcClientHistory.lean` at the model level; the generated level is `Props/SrcPropsNcClientTrace.lean`).

  A run = any list of `Cl.COp` API calls — `update(d)`, `generate_payload_packet(p)`, `disconnect()`, `process_packet(bytes)` with
  ARBITRARY bytes — in any order, executed by `NcClientTrace.prun` from a client `c`; its ghost output `ps` lists, oldest first,
  every (datagram, payload) pair `process_packet` surfaced.  No hypothesis on the client's state: the statements hold through the
  handshake, while connected and after disconnection (a payload surfaces only while connected, `C04.client_payload_only_if_opened`).

    (1) `client_window_is_recv_window`   the client's STORED window after the run is the `Recv.run` window of the datagrams
                                         presented (history `pre` before the run ++ those of the run) — the missing link between
                                         `C04.payload_at_most_once` (a run of `decode` calls) and the client API;
    (2) `client_payloads_at_most_once`   the payloads surfaced along the run stem from pairwise distinct sequence numbers (the
                                         excluded point `2^64-1` of `C04.sentinel_collision` aside), none of which was surfaced in
                                         the history either; each is the plaintext that opens, as a `Payload` packet, under the
                                         token's server-to-client key with the nonce / additional data of that datagram's own
                                         header, and the datagram is one handed to `process_packet` in this run; the stored window
                                         satisfies `RP.Inv window accepted` for the ghost list of accepted sequence numbers, each of
                                         which was carried by a presented datagram that opened under the key;
    (3) `client_new_payloads_at_most_once`   the same from `NetcodeClient::new` (empty history).
-/
import RenetVerif.Lemmas.NcClientTrace
import RenetVerif.Lemmas.NcExamples
import RenetVerif.Props.C04
set_option linter.unusedSimpArgs false
set_option linter.unusedVariables false
namespace RenetVerif.C04C
open RenetVerif RenetVerif.Netcode RenetVerif.Netcode.Packet RenetVerif.NcAead RenetVerif.NcClientTrace

theorem run_append (a : AEAD) (proto : Nat) (key : Bytes) (pre bufs : List Bytes) :
    Recv.run a proto key (pre ++ bufs) = bufs.foldl (Recv.step a proto key) (Recv.run a proto key pre) := by
  simp only [Recv.run, List.foldl_append]

theorem protectedSeqs_append (l1 l2 : List (Nat × Packet)) :
    protectedSeqs (l1 ++ l2) = protectedSeqs l1 ++ protectedSeqs l2 := by
  simp only [protectedSeqs, List.filter_append, List.map_append]

theorem protectedSeqs_reverse (l : List (Nat × Packet)) : protectedSeqs l.reverse = (protectedSeqs l).reverse := by
  simp only [protectedSeqs, List.filter_reverse, List.map_reverse]

/-- the sequence numbers of the surfaced pairs, the excluded point `2^64-1` dropped -/
def surfacedSeqs (ps : List (Bytes × Bytes)) : List Nat :=
  (ps.map fun x => wireSeq x.1).filter fun s => decide (s ≠ 2 ^ 64 - 1)

theorem protectedSeqs_asSurf (ps : List (Bytes × Bytes)) : protectedSeqs (ps.map asSurf) = surfacedSeqs ps := by
  induction ps with
  | nil => rfl
  | cons x xs ih =>
    have ih' : (List.filter (fun r : Nat × Packet => r.2.packetType.applyReplayProtection && decide (r.1 ≠ 2 ^ 64 - 1))
        (xs.map asSurf)).map (·.1) = surfacedSeqs xs := ih
    by_cases h : wireSeq x.1 = 2 ^ 64 - 1
    · simp only [protectedSeqs, surfacedSeqs, List.map_cons, List.filter_cons, asSurf, Packet.packetType,
        PacketType.applyReplayProtection, h, ne_eq, not_true_eq_false, decide_false, Bool.and_false, Bool.false_eq_true,
        if_false]
      exact ih'
    · simp only [protectedSeqs, surfacedSeqs, List.map_cons, List.filter_cons, asSurf, Packet.packetType,
        PacketType.applyReplayProtection, h, ne_eq, not_false_eq_true, decide_true, Bool.and_self, if_true, List.cons.injEq,
        true_and]
      exact ih'

/-- **(1) the stored window is the receive-side window.**  If the client's stored window is the `Recv.run` window of some
    history `pre` of datagrams (`pre = []` for a client fresh from `new`), then after ANY run of API calls it is the `Recv.run`
    window of `pre` followed by the datagrams the run handed to `process_packet`; the token never changes. -/
theorem client_window_is_recv_window (a : AEAD) {c c' : NetcodeClient} {ops : List Cl.COp} {ps : List (Bytes × Bytes)}
    (pre : List Bytes)
    (hw : c.replayProtection = (Recv.run a c.connectToken.protocolId c.connectToken.serverToClientKey pre).window)
    (h : prun a c ops = some (c', ps)) :
    c'.connectToken = c.connectToken ∧
    c'.replayProtection =
      (Recv.run a c.connectToken.protocolId c.connectToken.serverToClientKey (pre ++ recvBufs ops)).window := by
  obtain ⟨h1, h2, -, -⟩ := prun_recv ops _ h hw.symm
  exact ⟨h1, by rw [run_append, h2]⟩

/-- **(2) C04 at-most-once over a whole client run.**  `pre`: ghost history of datagrams whose `Recv.run` window the client
    stores at the start.  Along any run of API calls from `c` that returns (`prun … = some (c', ps)`):
      * the sequence numbers of the surfaced payloads (`2^64-1` aside) are pairwise distinct, and none of them is the sequence
        number of a replay-protected packet that surfaced in the history;
      * every surfaced pair `(buf, p)`: `buf` was handed to `process_packet` in this run and opened, as a `Payload` packet, under
        the token's server-to-client key (nonce = its own sequence number, additional data = version ‖ protocol id ‖ its own
        prefix byte) to exactly `p`;
      * the stored window satisfies `RP.Inv` for the ghost list `accepted` of the receive side, and every accepted sequence number
        was carried by a presented datagram that opened under the key. -/
theorem client_payloads_at_most_once (a : AEAD) {c c' : NetcodeClient} {ops : List Cl.COp} {ps : List (Bytes × Bytes)}
    (pre : List Bytes)
    (hw : c.replayProtection = (Recv.run a c.connectToken.protocolId c.connectToken.serverToClientKey pre).window)
    (h : prun a c ops = some (c', ps)) :
    (surfacedSeqs ps).Nodup ∧
    (∀ s ∈ surfacedSeqs ps,
      s ∉ protectedSeqs (Recv.run a c.connectToken.protocolId c.connectToken.serverToClientKey pre).surfaced) ∧
    (∀ x ∈ ps, x.1 ∈ recvBufs ops ∧
      SealedOpen a x.1 c.connectToken.protocolId c.connectToken.serverToClientKey .payload x.2) ∧
    RP.Inv c'.replayProtection
      (Recv.run a c.connectToken.protocolId c.connectToken.serverToClientKey (pre ++ recvBufs ops)).accepted ∧
    (∀ s ∈ (Recv.run a c.connectToken.protocolId c.connectToken.serverToClientKey (pre ++ recvBufs ops)).accepted,
      ∃ buf ty plain, buf ∈ pre ++ recvBufs ops ∧ wireSeq buf = s ∧
        SealedOpen a buf c.connectToken.protocolId c.connectToken.serverToClientKey ty plain) := by
  obtain ⟨h1, h2, h3, h4⟩ := prun_recv ops _ h hw.symm
  rw [← run_append] at h2 h3
  have hnd := C04.payload_at_most_once a c.connectToken.protocolId c.connectToken.serverToClientKey (pre ++ recvBufs ops)
  have hsub : (protectedSeqs ((ps.map asSurf).reverse ++
      (Recv.run a c.connectToken.protocolId c.connectToken.serverToClientKey pre).surfaced)).Sublist
      (protectedSeqs (Recv.run a c.connectToken.protocolId c.connectToken.serverToClientKey (pre ++ recvBufs ops)).surfaced) := by
    unfold protectedSeqs
    exact (h3.filter _).map _
  have hnd' := hsub.nodup hnd
  rw [protectedSeqs_append, protectedSeqs_reverse, protectedSeqs_asSurf, List.nodup_append] at hnd'
  obtain ⟨n1, n2, n3⟩ := hnd'
  refine ⟨(List.pairwise_reverse.mp n1).imp (fun h => Ne.symm h), ?_, h4, ?_, fun s hs => C04.accepted_only_if_presented hs⟩
  · intro s hs hm
    exact n3 s (List.mem_reverse.mpr hs) s hm rfl
  · rw [← h2]
    exact C04.run_window_inv a _ _ _

/-- **… and is rejected for ever after**: at the end of the run the stored window reports the sequence number of every payload
    surfaced along the run as already received — so (`C04.client_replay_rejected`) no datagram carrying it, the accepted one, a
    copy, or a modification that keeps the sequence bytes, surfaces a payload in the state reached. -/
theorem client_surfaced_rejected_after (a : AEAD) {c c' : NetcodeClient} {ops : List Cl.COp} {ps : List (Bytes × Bytes)}
    (pre : List Bytes)
    (hw : c.replayProtection = (Recv.run a c.connectToken.protocolId c.connectToken.serverToClientKey pre).window)
    (h : prun a c ops = some (c', ps)) :
    ∀ s ∈ surfacedSeqs ps, c'.replayProtection.alreadyReceived s = true := by
  obtain ⟨h1, h2, h3, h4⟩ := prun_recv ops _ h hw.symm
  rw [← run_append] at h2 h3
  intro s hs
  have hsub : (protectedSeqs ((ps.map asSurf).reverse ++
      (Recv.run a c.connectToken.protocolId c.connectToken.serverToClientKey pre).surfaced)).Sublist
      (protectedSeqs (Recv.run a c.connectToken.protocolId c.connectToken.serverToClientKey (pre ++ recvBufs ops)).surfaced) := by
    unfold protectedSeqs
    exact (h3.filter _).map _
  have hm := hsub.subset (show s ∈ _ by
    rw [protectedSeqs_append, protectedSeqs_reverse, protectedSeqs_asSurf]
    exact List.mem_append_left _ (List.mem_reverse.mpr hs))
  have hacc := (Recv.good_run a c.connectToken.protocolId c.connectToken.serverToClientKey (pre ++ recvBufs ops)).sub s hm
  have hne : s ≠ 2 ^ 64 - 1 := by
    simp only [surfacedSeqs, List.mem_filter, decide_eq_true_eq] at hs
    exact hs.2
  rw [← h2]
  exact C04.no_reaccept (C04.run_window_inv a _ _ _) hacc hne

/-- **(3) … from `NetcodeClient::new`**: a client created by `new(now, Secure { token })` and driven by ANY API calls surfaces
    payloads from pairwise distinct sequence numbers only, each the plaintext its datagram opens to under the token's
    server-to-client key, and its stored window is the `Recv.run` window of exactly the datagrams it was handed. -/
theorem client_new_payloads_at_most_once (a : AEAD) {now : Nat} {tok : ConnectToken} {c c' : NetcodeClient}
    {ops : List Cl.COp} {ps : List (Bytes × Bytes)} (hn : NetcodeClient.new now tok = .ok c)
    (h : prun a c ops = some (c', ps)) :
    (surfacedSeqs ps).Nodup ∧
    (∀ x ∈ ps, x.1 ∈ recvBufs ops ∧ SealedOpen a x.1 tok.protocolId tok.serverToClientKey .payload x.2) ∧
    c'.connectToken = tok ∧
    c'.replayProtection = (Recv.run a tok.protocolId tok.serverToClientKey (recvBufs ops)).window ∧
    RP.Inv c'.replayProtection (Recv.run a tok.protocolId tok.serverToClientKey (recvBufs ops)).accepted := by
  have htok : c.connectToken = tok := (Cl.new_sequence hn).2.1
  have hw0 : c.replayProtection = RP.new := by
    unfold NetcodeClient.new at hn
    split at hn
    · cases hn; rfl
    · cases hn
  have hw : c.replayProtection = (Recv.run a c.connectToken.protocolId c.connectToken.serverToClientKey []).window := by
    rw [hw0]; rfl
  obtain ⟨p1, -, p3, p4, -⟩ := client_payloads_at_most_once a [] hw h
  obtain ⟨q1, q2⟩ := client_window_is_recv_window a [] hw h
  rw [htok] at p3 p4 q1 q2
  exact ⟨p1, p3, q1, q2, p4⟩

/-- in pairwise form: two surfaced payloads of one run never share a sequence number (unless it is the excluded `2^64-1`) -/
theorem client_payloads_pairwise (a : AEAD) {c c' : NetcodeClient} {ops : List Cl.COp} {ps : List (Bytes × Bytes)}
    (pre : List Bytes)
    (hw : c.replayProtection = (Recv.run a c.connectToken.protocolId c.connectToken.serverToClientKey pre).window)
    (h : prun a c ops = some (c', ps)) :
    ps.Pairwise (fun x y => wireSeq x.1 ≠ 2 ^ 64 - 1 → wireSeq x.1 ≠ wireSeq y.1) := by
  have hnd := (client_payloads_at_most_once a pre hw h).1
  clear h hw
  induction ps with
  | nil => exact List.Pairwise.nil
  | cons x xs ih =>
    by_cases hx : wireSeq x.1 = 2 ^ 64 - 1
    · have e : surfacedSeqs (x :: xs) = surfacedSeqs xs := by
        simp only [surfacedSeqs, List.map_cons, List.filter_cons, hx, ne_eq, not_true_eq_false, decide_false,
          Bool.false_eq_true, if_false]
      rw [e] at hnd
      exact List.Pairwise.cons (fun y _ hne => absurd hx hne) (ih hnd)
    · have e : surfacedSeqs (x :: xs) = wireSeq x.1 :: surfacedSeqs xs := by
        simp only [surfacedSeqs, List.map_cons, List.filter_cons, hx, ne_eq, not_false_eq_true, decide_true, if_true]
      rw [e, List.nodup_cons] at hnd
      refine List.Pairwise.cons (fun y hy _ heq => hnd.1 ?_) (ih hnd.2)
      simp only [surfacedSeqs, List.mem_filter, List.mem_map, decide_eq_true_eq]
      exact ⟨⟨y, hy, heq.symm⟩, hx⟩

/-! ## non-vacuity: a concrete model run (world of `Lemmas/NcExamples.lean`: AEAD `Ex.a`, token `tokenA`) -/
section Examples
open NS.Ex

/-- server-to-client payload datagrams (prefix 0x15 = Payload, one sequence byte) with sequence numbers 3, 5, 4, 7 -/
def pl3 : Bytes := 21 :: 3 :: ([9, 9] ++ List.replicate 16 0)
def pl5 : Bytes := 21 :: 5 :: ([5] ++ List.replicate 16 0)
def pl4 : Bytes := 21 :: 4 :: ([4, 4, 4] ++ List.replicate 16 0)
def pl7 : Bytes := 21 :: 7 :: ([7] ++ List.replicate 16 0)
/-- sequence 3 again with another body: a modification that keeps the sequence bytes -/
def pl3mod : Bytes := 21 :: 3 :: ([1, 2, 3] ++ List.replicate 16 0)
/-- a forgery (the AEAD does not open it) -/
def forgedP : Bytes := 21 :: 6 :: List.replicate 20 255

/-- handshake (request, challenge, response, keep-alive), then payloads 3 and 5, a replay of 3, a forgery, a modified 3, an
    outgoing payload, a clock step, payload 4 (late but inside the window), 5 again, `disconnect`, payload 7 (not surfaced: the
    client is disconnected — yet the window still moves) -/
def exOps : List Cl.COp :=
  [.update 0, .recv chalA, .update 250000000, .recv kaA,
   .recv pl3, .recv pl5, .recv pl3, .recv forgedP, .recv pl3mod, .send [1], .update 1000, .recv pl4, .recv pl5,
   .disconnect, .recv pl7]

set_option maxRecDepth 100000 in
theorem ex_run : (match NetcodeClient.new 0 tokenA with
    | .ok c => (prun NS.Ex.a c exOps).map (·.2)
    | _ => none) = some [(pl3, [9, 9]), (pl5, [5]), (pl4, [4, 4, 4])] := by decide +kernel

/-- `client_new_payloads_at_most_once` on that run: three payloads, sequence numbers 3, 5, 4 -/
example : ∃ c c' ps, NetcodeClient.new 0 tokenA = .ok c ∧ prun NS.Ex.a c exOps = some (c', ps) ∧
    ps.map (·.2) = [[9, 9], [5], [4, 4, 4]] ∧ surfacedSeqs ps = [3, 5, 4] ∧ (surfacedSeqs ps).Nodup ∧
    c'.replayProtection = (Recv.run NS.Ex.a tokenA.protocolId tokenA.serverToClientKey (recvBufs exOps)).window := by
  have hr := ex_run
  cases hn : NetcodeClient.new 0 tokenA with
  | ok c =>
    rw [hn] at hr
    dsimp only at hr
    cases hp : prun NS.Ex.a c exOps with
    | none => rw [hp] at hr; cases hr
    | some x =>
      obtain ⟨c', ps⟩ := x
      rw [hp] at hr
      simp only [Option.map_some, Option.some.injEq] at hr
      obtain ⟨h1, -, -, h4, -⟩ := client_new_payloads_at_most_once NS.Ex.a hn hp
      refine ⟨c, c', ps, rfl, hp, ?_, ?_, h1, h4⟩
      · rw [hr]; rfl
      · rw [hr]; decide +kernel
  | err e => rw [hn] at hr; cases hr
  | panic m => rw [hn] at hr; cases hr

/-- the window of that run accepted 0 (keep-alive), 3, 5, 4 and — after `disconnect` — 7 -/
example : (Recv.run NS.Ex.a tokenA.protocolId tokenA.serverToClientKey (recvBufs exOps)).accepted = [7, 4, 5, 3, 0] := by
  decide +kernel

end Examples

end RenetVerif.C04C
