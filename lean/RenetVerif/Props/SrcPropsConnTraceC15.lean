/-
  C15 — RETRANSMISSION — ON API TRACES OF THE GENERATED `RenetClient`, datagrams read by the GENERATED `Packet::from_bytes`.

  `GConn` (`Lemmas/SrcEquiv/SrcConnSystem.lean`): one generated `RenetClient` from the generated `from_channels`, driven by
  ANY list of public operations `COp`; `g.flushes` logs what every generated `get_packets_to_send` RETURNED.
  `GDecodes b gp` (`Lemmas/SrcEquiv/SrcSystem.lean`): the generated `Packet::from_bytes` on a fresh cursor over the datagram
  `b` returns the generated packet `gp`.  `GCarriesMsg ch id gp` / `GCarriesSlice ch id i gp`
  (`Lemmas/SrcEquiv/SrcConnC15.lean`): `gp` is a `SmallReliable` packet of channel `ch` with message id `id` among its
  messages, or a `ReliableSlice` packet of channel `ch` for message `id` (resp. for slice `i` of message `id`).

    * `src_never_after_ack`        (C15, last clause; C15A on traces)  once a step of the trace processed an Ack packet (read
                                   by the generated decoder) naming a sequence number `q` that the generated `sent_packets`
                                   table still holds, NO later flush of the trace — whatever operations come in between —
                                   returns a datagram from which the generated decoder reads a packet carrying a message
                                   (resp. the slice) that the table entry of `q` names;
    * `src_carried_is_recorded`    the table entry: after a flush of the trace that leaves the connection live, every
                                   datagram of THAT flush from which the generated decoder reads a reliable packet with
                                   sequence number `sq` is recorded in the generated `sent_packets` under `sq`, with the
                                   flush time and the ids (resp. id and slice index) the decoder reads;
    * `src_not_early`              (C15, first clause, on traces)  two flushes of a trace, ANY operations between them, that
                                   both return a datagram from which the generated decoder reads a transmission of the same
                                   small message (resp. the same slice) of channel `ch` are at least that channel's
                                   `resend_time` (field of the generated struct) apart on the generated `current_time`;
    * `src_clock`                  … which is the trace's own clock: `current_time` grows by exactly the sum of the `update`
                                   durations of the operations in between;
    * `src_flush_budget_decoded_partial` / `src_flush_budget_decoded_all`  (C14 through the generated decoder)  the payload
                                   the generated decoder reads from the datagrams of one flush sums to at most
                                   `available_bytes_per_tick` (PARTIAL only in that acceptance of every datagram by the decoder
                                   is not asserted — see the theorem's comment).

  Side conditions: `CRunInRange` (the range condition of the source tie, decidable by evaluation); for
  `src_never_after_ack` configured channel ids (`COpValid`, as in `src_never_panics`); and `GChanBytes`: the reliable send
  channel ids of the generated struct are bytes (`channel_id` is a `u8` in the Rust source; the generated code carries it as a
  `Nat`, and the wire format truncates it to one byte — without it a packet of channel 300 would be read as one of channel 44).

  Proofs: `SrcConnSystem.crun_sim_conv` + model-level trace theorems of `Lemmas/SrcEquiv/SrcConnC15.lean`:
  `mtr_never_after_ack` (from `Lemmas/AckFinal.lean`, i.e. `Props/C15A.lean`), `mtr_not_early` (a NEW trace-level invariant:
  the `last_sent` stamp of a transmitted slot is at least the time of that flush, `StampGE`, kept by every operation; from
  the one-flush theorems `C15.small_emitted` / `slice_emitted` / `entry_step`), `dec_enc_carries` / `dec_enc_payload` (the
  decoder reads from an ENCODING only what the packet carries — no appeal to the full round trip, hence no well-formedness
  side condition on the packets of a flush).
-/
import RenetVerif.Lemmas.SrcEquiv.SrcConnC15
import RenetVerif.Props.SrcPropsConnTrace
import RenetVerif.Props.C15A
set_option maxRecDepth 100000
set_option linter.unusedVariables false
set_option linter.unusedSimpArgs false
namespace RenetVerif.SrcPropsConnTraceC15
open RenetVerif RenetVerif.RustSem RenetVerif.C RenetVerif.System RenetVerif.SrcEquiv RenetVerif.SrcSystem RenetVerif.SrcConnSystem
open RenetVerif.SrcConnC15 RenetVerif.SrcPropsConnTrace RenetVerif.AckFinal
open Src.renet.remote_connection

/-! ## reading the generated struct -/

/-- the reliable send channel ids of the generated struct are bytes (`u8` in the Rust source) -/
def GChanBytes (cl : RenetClient) : Prop := ∀ x ∈ cl.send_reliable_channels, x.1 < 256

instance (cl : RenetClient) : Decidable (GChanBytes cl) := by unfold GChanBytes; infer_instance

theorem keys_of_gchan {mrs : Nat → Nat} {c : Conn} (h : GChanBytes (reprConn mrs c)) :
    ∀ ch s, SMap.find? c.sendRel ch = some s → ch < 256 := by
  intro ch s hf
  exact h (ch, reprSR s) (List.mem_map.mpr ⟨(ch, s), SMap.mem_of_find? hf, rfl⟩)

theorem sent_of_gsent {mrs : Nat → Nat} {c : Conn} {q : Nat} {e : PacketSent}
    (h : RustSem.Map.find? (reprConn mrs c).sent_packets q = some e) :
    ∃ tq info, SMap.find? c.sent q = some (tq, info) ∧ e = ⟨tq, reprInfo info⟩ := by
  simp only [reprConn, find_mapVals] at h
  cases hm : SMap.find? c.sent q with
  | none => rw [hm] at h; cases h
  | some x => obtain ⟨tq, info⟩ := x; rw [hm] at h; cases h; exact ⟨tq, info, rfl, rfl⟩

/-! ## C15, last clause — never after the ack was processed -/

/-- **C15 on the generated code: never transmitted again after the ack was processed.**  ANY trace `ops` of the generated
    `RenetClient` reaches `g`, live (`is_disconnected` returns `false`).  The next operation is `process_packet(ack)`, where
    the generated `from_bytes` reads from `ack` an `Ack` packet whose ranges cover `q`, and the generated `sent_packets` table
    of `g` still holds `q` (it was sent less than 3 s — `update`'s pruning — ago and not acknowledged before), with entry
    `e`.  Then ANY operations `ext` follow.  Every datagram `b` of every `get_packets_to_send` in `ext` (`news`: what the
    log of returned flushes grew by), read by the generated `from_bytes`, carries none of the messages `e.info` names
    (`ReliableMessages ch ids`), resp. not the slice it names (`ReliableSliceMessage ch id i`). -/
theorem src_never_after_ack (cfg : Cfg) (ops ext : List COp) (ack : Bytes) (g g' : GConn)
    (hg : GConn.exec cfg ops = some g) (hg' : GConn.exec cfg (ops ++ .process ack :: ext) = some g')
    (hv : ∀ op ∈ ops ++ .process ack :: ext, COpValid cfg op) (hrg : CRunInRange cfg (ops ++ .process ack :: ext))
    (hch : GChanBytes g.cl) (hlive : (RenetClient.is_disconnected g.cl : Res Empty Bool) = .ok false)
    {aseq : Nat} {ranges : List RustSem.Range} (hdec : GDecodes (toNats ack) (.Ack aseq ranges))
    {q : Nat} {e : PacketSent} (hq : RustSem.Map.find? g.cl.sent_packets q = some e)
    (hm : ∃ r ∈ ranges, r.start ≤ q ∧ q < r.«end») :
    ∃ news, g'.flushes = g.flushes ++ news ∧ ∀ bs ∈ news, ∀ b ∈ bs, ∀ gp, GDecodes b gp →
      (∀ ch ids, e.info = .ReliableMessages ch ids → ∀ id ∈ ids, ¬ GCarriesMsg ch id gp) ∧
      (∀ ch id i, e.info = .ReliableSliceMessage ch id i → ¬ GCarriesSlice ch id i gp) := by
  obtain ⟨t, t', ht, ht', sim, sim', hgood⟩ := crun_split cfg ops _ g g' hrg hg hg'
  obtain ⟨mrs, hC⟩ := sim.cl
  rw [hC] at hch hlive hq
  -- the model side
  have hgd : Good t.c := good_run ops _ t (good_init cfg) ht
  have hi0 : (MTr.init cfg).c.Inv := (C06.fresh_connection _ _ _).2
  have hv0 : ∀ op ∈ ops ++ .process ack :: ext, CI.ChanValid (MTr.init cfg).c op.toConnOp :=
    fun op ho => (cfgValid_of (hv op ho)).chanValid
  obtain ⟨hi, same⟩ := mtr_run_same ops _ t hi0 (fun o ho => hv0 o (List.mem_append_left _ ho))
    (crunInRangeFrom_prefix ops _ _ hrg.2) ht
  have hvt : ∀ op ∈ ext, CI.ChanValid t.c op.toConnOp :=
    fun o ho => (hv0 o (List.mem_append_right _ (List.mem_cons_of_mem _ ho))).same same
  have hrgt : CRunInRangeFrom t (.process ack :: ext) := by
    have aux : ∀ (ops : List COp) (t0 t : MTr) (rest : List COp), t0.run ops = some t →
        CRunInRangeFrom t0 (ops ++ rest) → CRunInRangeFrom t rest := by
      intro ops
      induction ops with
      | nil => intro t0 t rest h hr; cases h; exact hr
      | cons o ops ih =>
        intro t0 t rest h hr
        simp only [MTr.run] at h
        cases hs : t0.step o with
        | none => rw [hs] at h; cases h
        | some t1 =>
          rw [hs] at h
          have h3 := hr.2.2
          rw [hs] at h3
          exact ih t1 t rest h h3
    exact aux ops _ t _ ht hrg.2
  have hd : t.c.isDisconnected = false := by
    rw [SrcTie.conn_is_disconnected] at hlive
    exact Res.ok.inj hlive
  obtain ⟨p, hp, hpe⟩ := gdecodes_inv hdec
  obtain ⟨tq, info, hqm, rfl⟩ := sent_of_gsent hq
  -- the decoded packet is an Ack packet with the same ranges
  cases p with
  | ack aseq' ranges' =>
    simp only [reprPacket, Src.renet.packet.Packet.Ack.injEq] at hpe
    obtain ⟨rfl, rfl⟩ := hpe
    obtain ⟨news, hn, hnews⟩ := mtr_never_after_ack ext hgd hi hd hp hqm (mem_of_reprRange hm) (keys_of_gchan hch) hvt hrgt ht'
    refine ⟨news.map (List.map toNats), by rw [sim'.flushes, sim.flushes, hn, List.map_append], ?_⟩
    intro bs hbs b hb gp hgp
    obtain ⟨bs0, hbs0, rfl⟩ := List.mem_map.mp hbs
    obtain ⟨b0, hb0, rfl⟩ := List.mem_map.mp hb
    obtain ⟨p', hp', rfl⟩ := gdecodes_inv hgp
    obtain ⟨n1, n2⟩ := hnews bs0 hbs0 b0 hb0
    refine ⟨fun ch ids hinfo id hid hc => ?_, fun ch id i hinfo hc => ?_⟩
    · cases info <;> simp only [reprInfo] at hinfo <;> try cases hinfo
      exact n1 _ _ rfl id hid p' hp' ((gcarriesMsg_repr _ _ _).1 hc)
    · cases info <;> simp only [reprInfo] at hinfo <;> try cases hinfo
      exact n2 _ _ _ rfl p' hp' ((gcarriesSlice_repr _ _ _ _).1 hc)
  | smallReliable _ _ _ => simp only [reprPacket] at hpe; cases hpe
  | smallUnreliable _ _ _ => simp only [reprPacket] at hpe; cases hpe
  | reliableSlice _ _ _ => simp only [reprPacket] at hpe; cases hpe
  | unreliableSlice _ _ _ => simp only [reprPacket] at hpe; cases hpe

/-! ## the table entry: what a flush carried is recorded -/

/-- the range condition of the state a continuation starts from -/
theorem inRange_suffix : ∀ (ops : List COp) (t0 t : MTr) (rest : List COp), t0.run ops = some t →
    CRunInRangeFrom t0 (ops ++ rest) → CRunInRangeFrom t rest := by
  intro ops
  induction ops with
  | nil => intro t0 t rest h hr; cases h; exact hr
  | cons o ops ih =>
    intro t0 t rest h hr
    simp only [MTr.run] at h
    cases hs : t0.step o with
    | none => rw [hs] at h; cases h
    | some t1 =>
      rw [hs] at h
      have h3 := hr.2.2
      rw [hs] at h3
      exact ih t1 t rest h h3

/-- **C15A.0 on the generated code: the sent table records what each datagram carried.**  ANY trace `ops` reaches `g`; the
    next operation is a flush that leaves the connection live.  For every datagram `b` the generated `get_packets_to_send`
    returned: if the generated `from_bytes` reads a `SmallReliable sq ch msgs` packet from `b`, the generated `sent_packets`
    table now holds under `sq` an entry with the flush time (`current_time` of `g`) and `ReliableMessages ch ids`, every
    message id of `msgs` among `ids`; if it reads `ReliableSlice sq ch sl`, the entry is
    `ReliableSliceMessage ch sl.message_id sl.slice_index`.  (These are the hypotheses `hq` of `src_never_after_ack`.) -/
theorem src_carried_is_recorded (cfg : Cfg) (ops : List COp) (g g' : GConn)
    (hg : GConn.exec cfg ops = some g) (hg' : GConn.exec cfg (ops ++ [.flush]) = some g')
    (hrg : CRunInRange cfg (ops ++ [.flush])) (hch : GChanBytes g.cl)
    (hlive' : (RenetClient.is_disconnected g'.cl : Res Empty Bool) = .ok false) :
    ∃ bs, g'.flushes = g.flushes ++ [bs] ∧ ∀ b ∈ bs,
      (∀ sq ch msgs, GDecodes b (.SmallReliable sq ch msgs) →
        ∃ ids, RustSem.Map.find? g'.cl.sent_packets sq = some ⟨g.cl.current_time, .ReliableMessages ch ids⟩ ∧
          ∀ x ∈ msgs, x.1 ∈ ids) ∧
      (∀ sq ch sl, GDecodes b (.ReliableSlice sq ch sl) →
        RustSem.Map.find? g'.cl.sent_packets sq =
          some ⟨g.cl.current_time, .ReliableSliceMessage ch sl.message_id sl.slice_index⟩) := by
  obtain ⟨t, t', ht, ht', sim, sim', hgood⟩ := crun_split cfg ops _ g g' hrg hg hg'
  obtain ⟨mrs, hC⟩ := sim.cl
  obtain ⟨mrs', hC'⟩ := sim'.cl
  rw [hC] at hch
  rw [hC'] at hlive'
  have hgd : Good t.c := good_run ops _ t (good_init cfg) ht
  have hd' : t'.c.isDisconnected = false := by
    rw [SrcTie.conn_is_disconnected] at hlive'
    exact Res.ok.inj hlive'
  -- the flush step
  simp only [MTr.run] at ht'
  cases hs : t.step .flush with
  | none => rw [hs] at ht'; cases ht'
  | some t1 =>
    rw [hs] at ht'
    cases ht'
    simp only [MTr.step] at hs
    cases hm : t.c.getPacketsToSend with
    | err e => exact nomatch e
    | panic s => rw [hm] at hs; cases hs
    | ok x =>
      obtain ⟨c1, bs1⟩ := x
      rw [hm] at hs
      simp only [Option.some.injEq] at hs
      subst hs
      have key := flush_recorded_dec hgd (keys_of_gchan hch) hm hd'
      refine ⟨bs1.map toNats, by rw [sim'.flushes, sim.flushes]; simp only [List.map_append, List.map_cons, List.map_nil], ?_⟩
      intro b hb
      obtain ⟨b0, hb0, rfl⟩ := List.mem_map.mp hb
      have htime : g.cl.current_time = t.c.now := by rw [hC]; rfl
      refine ⟨fun sq ch msgs hgp => ?_, fun sq ch sl hgp => ?_⟩
      · obtain ⟨p', hp', hrepr⟩ := gdecodes_inv hgp
        cases p' with
        | smallReliable sq' ch' m' =>
          simp only [reprPacket, Src.renet.packet.Packet.SmallReliable.injEq] at hrepr
          obtain ⟨rfl, rfl, rfl⟩ := hrepr
          obtain ⟨ids, hf, hids⟩ := (key b0 hb0 _ hp').1 _ _ _ rfl
          refine ⟨ids, ?_, ?_⟩
          · rw [hC', htime]
            simp only [reprConn, find_mapVals]
            rw [hf]; rfl
          · intro x hx
            obtain ⟨y, hy, rfl⟩ := List.mem_map.mp hx
            exact hids y hy
        | smallUnreliable _ _ _ => simp only [reprPacket] at hrepr; cases hrepr
        | reliableSlice _ _ _ => simp only [reprPacket] at hrepr; cases hrepr
        | unreliableSlice _ _ _ => simp only [reprPacket] at hrepr; cases hrepr
        | ack _ _ => simp only [reprPacket] at hrepr; cases hrepr
      · obtain ⟨p', hp', hrepr⟩ := gdecodes_inv hgp
        cases p' with
        | reliableSlice sq' ch' sl' =>
          simp only [reprPacket, Src.renet.packet.Packet.ReliableSlice.injEq] at hrepr
          obtain ⟨rfl, rfl, rfl⟩ := hrepr
          have hf := (key b0 hb0 _ hp').2 _ _ _ rfl
          rw [hC', htime]
          simp only [reprConn, find_mapVals]
          rw [hf]; rfl
        | smallUnreliable _ _ _ => simp only [reprPacket] at hrepr; cases hrepr
        | smallReliable _ _ _ => simp only [reprPacket] at hrepr; cases hrepr
        | unreliableSlice _ _ _ => simp only [reprPacket] at hrepr; cases hrepr
        | ack _ _ => simp only [reprPacket] at hrepr; cases hrepr

/-! ## C15, first clause — not earlier than `resend_time` -/

theorem run_single {t t' : MTr} {op : COp} (h : t.run [op] = some t') : t.step op = some t' := by
  simp only [MTr.run] at h
  cases hs : t.step op with
  | none => rw [hs] at h; cases h
  | some t1 => rw [hs] at h; simp only [MTr.run] at h; rw [h]

/-- **the trace's own clock.**  The generated `current_time` after any continuation `mid` of a trace is the generated
    `current_time` before plus the sum of the durations of the `update` calls in `mid`. -/
theorem src_clock (cfg : Cfg) (ops mid : List COp) (g1 g2 : GConn) (h1 : GConn.exec cfg ops = some g1)
    (h2 : GConn.exec cfg (ops ++ mid) = some g2) (hrg : CRunInRange cfg (ops ++ mid)) :
    g2.cl.current_time = g1.cl.current_time + (mid.map COp.dt).sum := by
  obtain ⟨t, t', ht, ht', sim, sim', hgood⟩ := crun_split cfg ops mid g1 g2 hrg h1 h2
  obtain ⟨mrs, hC⟩ := sim.cl
  obtain ⟨mrs', hC'⟩ := sim'.cl
  rw [hC, hC']
  exact now_run mid t t' (good_run ops _ t (good_init cfg) ht) ht'

/-- **C15 on the generated code: NOT EARLY.**  ANY trace `ops`, then a flush, then ANY operations `mid`, then a flush.  If
    both flushes return a datagram from which the generated `from_bytes` reads a transmission of the same slot — a
    `SmallReliable` packet of channel `ch` with message id `id` among its messages (`w = none`), or the `ReliableSlice` packet
    of channel `ch` for slice `i` of message `id` (`w = some i`) — then that channel's `resend_time` (field of the generated
    struct) is at most the difference of the generated `current_time` at the two flushes; by `src_clock` that is the sum of
    the `update` durations in `mid`. -/
theorem src_not_early (cfg : Cfg) (ops mid : List COp) (g1 g1' g2 g3 : GConn)
    (h1 : GConn.exec cfg ops = some g1) (h1' : GConn.exec cfg (ops ++ [.flush]) = some g1')
    (h2 : GConn.exec cfg (ops ++ .flush :: mid) = some g2)
    (h3 : GConn.exec cfg (ops ++ .flush :: mid ++ [.flush]) = some g3)
    (hrg : CRunInRange cfg (ops ++ .flush :: mid ++ [.flush]))
    (hch1 : GChanBytes g1.cl) (hch2 : GChanBytes g2.cl) (ch id : Nat) (w : Option Nat) :
    ∃ bs1 bs2, g1'.flushes = g1.flushes ++ [bs1] ∧ g3.flushes = g2.flushes ++ [bs2] ∧
      ∀ b1 ∈ bs1, ∀ b2 ∈ bs2, ∀ gp1 gp2, GDecodes b1 gp1 → GDecodes b2 gp2 → GEmits ch id w gp1 → GEmits ch id w gp2 →
        ∀ s, RustSem.Map.find? g2.cl.send_reliable_channels ch = some s →
          s.resend_time ≤ g2.cl.current_time - g1.cl.current_time := by
  have eC : ops ++ .flush :: mid = (ops ++ [.flush]) ++ mid := by simp
  have r2 : CRunInRange cfg (ops ++ .flush :: mid) := crunInRange_prefix cfg _ [.flush] hrg
  have r1 : CRunInRange cfg ops := crunInRange_prefix cfg ops _ r2
  have r1' : CRunInRange cfg (ops ++ [.flush]) := by rw [eC] at r2; exact crunInRange_prefix cfg _ _ r2
  obtain ⟨t, ht, sim⟩ := crun_sim_conv cfg ops g1 r1 h1
  obtain ⟨t1, ht1, sim1⟩ := crun_sim_conv cfg _ g1' r1' h1'
  obtain ⟨t2, ht2, sim2⟩ := crun_sim_conv cfg _ g2 r2 h2
  obtain ⟨t3, ht3, sim3⟩ := crun_sim_conv cfg _ g3 hrg h3
  have s1 : t.step .flush = some t1 := by
    rw [MTr.run_append, ht] at ht1; exact run_single ht1
  have s2 : t1.run mid = some t2 := by
    rw [eC, MTr.run_append, ht1] at ht2; exact ht2
  have s3 : t2.step .flush = some t3 := by
    rw [MTr.run_append, ht2] at ht3; exact run_single ht3
  obtain ⟨mrs, hC⟩ := sim.cl
  obtain ⟨mrs2, hC2⟩ := sim2.cl
  rw [hC] at hch1
  rw [hC2] at hch2
  have hgd : Good t.c := good_run ops _ t (good_init cfg) ht
  obtain ⟨bs1, bs2, l1, l3, key⟩ := mtr_not_early hgd s1 s2 s3 (keys_of_gchan hch1) (keys_of_gchan hch2) ch id w
  refine ⟨bs1.map toNats, bs2.map toNats, ?_, ?_, ?_⟩
  · rw [sim1.flushes, sim.flushes, l1]; simp only [List.map_append, List.map_cons, List.map_nil]
  · rw [sim3.flushes, sim2.flushes, l3]; simp only [List.map_append, List.map_cons, List.map_nil]
  · intro b1 hb1 b2 hb2 gp1 gp2 d1 d2 e1 e2 s hs
    obtain ⟨b10, hb10, rfl⟩ := List.mem_map.mp hb1
    obtain ⟨b20, hb20, rfl⟩ := List.mem_map.mp hb2
    obtain ⟨p1, hp1, rfl⟩ := gdecodes_inv d1
    obtain ⟨p2, hp2, rfl⟩ := gdecodes_inv d2
    rw [hC2] at hs
    simp only [reprConn, find_mapVals] at hs
    cases hm : SMap.find? t2.c.sendRel ch with
    | none => rw [hm] at hs; cases hs
    | some sM =>
      rw [hm] at hs; cases hs
      have := key b10 hb10 b20 hb20 p1 p2 hp1 hp2 ((gemits_repr _ _ _ _).1 e1) ((gemits_repr _ _ _ _).1 e2) sM hm
      rw [hC, hC2]
      exact this

/-! ## C14 through the generated decoder -/

/-- **C14 on the generated code, datagrams read by the generated decoder (`_partial`).**  In every generated state `g`
    reached by ANY run (in range), what the generated `get_packets_to_send` returns, read datagram by datagram with the
    generated `from_bytes`, carries at most `available_bytes_per_tick` bytes of message payload: `gDecPay b` is the payload
    (`gPayloadBytes`) of the packet `from_bytes` reads from `b`, and `0` when it rejects `b`.
    PARTIAL in one respect: the theorem does not assert that `from_bytes` ACCEPTS every returned datagram (that is the full
    round trip and needs `Packet.WF` of every packet of a flush — channel ids bytes, at most `MAX_NUM_SLICES` slices —
    along the trace, which is not established here); a rejected datagram counts `0`.  The bound itself is unconditional.
    (Transports `C14.connection_budget` through `SrcConnC15.dec_enc_payload`: the decoder reads from an encoding at most the
    payload the packet carries.) -/
theorem src_flush_budget_decoded_partial (cfg : Cfg) (ops : List COp) (g : GConn) (hg : GConn.exec cfg ops = some g)
    (hrg : CRunInRange cfg (ops ++ [.flush])) :
    ∃ g' bs, GConn.exec cfg (ops ++ [.flush]) = some g' ∧ g'.flushes = g.flushes ++ [bs] ∧
      (bs.map gDecPay).sum ≤ g.cl.available_bytes_per_tick := by
  obtain ⟨g', bs, pk, e, hfl, hb, -, hser⟩ := src_flush_budget cfg ops g hg hrg
  refine ⟨g', bs, e, hfl, ?_⟩
  rcases hser with rfl | ⟨bs0, h0, rfl⟩
  · simp
  · have h1 := decPay_sum_le pk bs0 (System.serialiseAll_enc pk bs0 h0)
    have h2 : (bs0.map toNats).map gDecPay = bs0.map decPay := by
      rw [List.map_map]
      apply List.map_congr_left
      intro b _
      exact gDecPay_toNats b
    rw [h2]
    omega

/-- the generated decoder reads the packets `gps` from the datagrams `bs`, one for one -/
def DecAll : List GBytes → List Src.renet.packet.Packet → Prop
  | [], [] => True
  | b :: bs, gp :: gps => GDecodes b gp ∧ DecAll bs gps
  | _, _ => False

theorem decAll_pay : ∀ (bs : List GBytes) (gps : List Src.renet.packet.Packet), DecAll bs gps →
    bs.map gDecPay = gps.map gPayloadBytes
  | [], [], _ => rfl
  | [], _ :: _, h => h.elim
  | _ :: _, [], h => h.elim
  | b :: bs, gp :: gps, h => by
    simp only [List.map_cons, gDecPay_of_decodes h.1, decAll_pay bs gps h.2]

/-- … in the form "if the generated decoder reads the packets `gps` from the returned datagrams, one for one, their payload
    sum is at most `available_bytes_per_tick`" -/
theorem src_flush_budget_decoded_all (cfg : Cfg) (ops : List COp) (g : GConn) (hg : GConn.exec cfg ops = some g)
    (hrg : CRunInRange cfg (ops ++ [.flush])) :
    ∃ g' bs, GConn.exec cfg (ops ++ [.flush]) = some g' ∧ g'.flushes = g.flushes ++ [bs] ∧
      ∀ gps, DecAll bs gps → (gps.map gPayloadBytes).sum ≤ g.cl.available_bytes_per_tick := by
  obtain ⟨g', bs, e, hfl, hb⟩ := src_flush_budget_decoded_partial cfg ops g hg hrg
  refine ⟨g', bs, e, hfl, fun gps hall => ?_⟩
  rw [← decAll_pay bs gps hall]
  exact hb

/-! ## non-vacuity: a retransmission trace, executed by the kernel ON THE GENERATED CODE

  One reliable channel 0 with `resend_time` 100 ns.  `opsA`: connect, submit `[1, 2, 3]` (message id 0), flush at t = 0
  (emitted, packet 0); 50 ns pass, flush (NOT re-emitted: shorter than `resend_time`); 60 more ns pass (t = 110), flush
  (re-emitted, packet 1).  Then an Ack packet for the packets 0 and 1 is processed, and `ext` follows: 200 ns pass, flush;
  another message is submitted, 200 ns pass, flush — message 0 never again. -/
namespace Ex
abbrev chans : List ChanCfg := [⟨0, .ordered, 100000, 100⟩]
abbrev cfg : Cfg := ⟨60000, chans, chans⟩
abbrev opsA : List COp := [.setConnected, .send 0 [1, 2, 3], .flush, .update 50, .flush, .update 60, .flush]
/-- an Ack packet (sequence number 0) with the single range 0..2 -/
def ack : Bytes := match (Packet.ack 0 [(0, 2)]).toBytes SER_BUFFER with | .ok b => b | _ => []
abbrev ext : List COp := [.update 200, .flush, .send 0 [4, 5], .update 200, .flush]

def gzero : GConn := ⟨reprConn (fun _ => 0) (Conn.fromChannels 0 [] []), [], []⟩
def gF : GConn := (GConn.exec cfg (opsA.take 3)).getD gzero
def gA : GConn := (GConn.exec cfg opsA).getD gzero
def gE : GConn := (GConn.exec cfg (opsA ++ .process ack :: ext)).getD gzero

/-- reading a datagram with the generated decoder, as a function -/
def gdec (b : GBytes) : Option Src.renet.packet.Packet :=
  match Src.renet.packet.Packet.from_bytes (RustSem.Octets.with_slice b) with
  | .ok (_, p) => some p
  | _ => none

theorem gdec_of {b : GBytes} {gp : Src.renet.packet.Packet} (h : GDecodes b gp) : gdec b = some gp := by
  obtain ⟨cur, h⟩ := h
  simp only [gdec, h]

theorem inRange : CRunInRange cfg (opsA ++ .process ack :: ext) := by decide +kernel
theorem valid : ∀ op ∈ opsA ++ .process ack :: ext, COpValid cfg op := by decide +kernel
theorem grunF : GConn.exec cfg (opsA.take 2) = some ((GConn.exec cfg (opsA.take 2)).getD gzero) :=
  some_getD (by decide +kernel) _
theorem grunF' : GConn.exec cfg (opsA.take 2 ++ [.flush]) = some gF := some_getD (by decide +kernel) _
theorem grunA : GConn.exec cfg opsA = some gA := some_getD (by decide +kernel) _
theorem grunE : GConn.exec cfg (opsA ++ .process ack :: ext) = some gE := some_getD (by decide +kernel) _

/-- **the trace, as the kernel computes it on the generated code and the generated decoder**: flush 1 (t = 0) emits message
    0 in packet 0; flush 2 (t = 50, less than `resend_time` later) emits nothing; flush 3 (t = 110) emits it again in packet
    1; after the Ack, flush 4 emits nothing, flush 5 emits only the new message 1 (and the connection's own ack). -/
theorem gfacts :
    gA.flushes.map (·.map gdec) =
      [[some (.SmallReliable 0 0 [(0, [1, 2, 3])])], [], [some (.SmallReliable 1 0 [(0, [1, 2, 3])])]] ∧
    gE.flushes.map (·.map gdec) =
      [[some (.SmallReliable 0 0 [(0, [1, 2, 3])])], [], [some (.SmallReliable 1 0 [(0, [1, 2, 3])])],
       [some (.Ack 2 [⟨0, 1⟩])], [some (.SmallReliable 3 0 [(1, [4, 5])]), some (.Ack 4 [⟨0, 1⟩])]] ∧
    gA.cl.current_time = 110 ∧
    (RustSem.Map.find? gA.cl.send_reliable_channels 0).map (·.resend_time) = some 100 ∧
    RustSem.Map.find? gA.cl.sent_packets 0 = some ⟨0, .ReliableMessages 0 [0]⟩ ∧
    RustSem.Map.find? gA.cl.sent_packets 1 = some ⟨110, .ReliableMessages 0 [0]⟩ ∧
    gdec (toNats ack) = some (.Ack 0 [⟨0, 2⟩]) := by decide +kernel

theorem ack_decodes : GDecodes (toNats ack) (.Ack 0 [⟨0, 2⟩]) := by
  have : gdec (toNats ack) = some (.Ack 0 [⟨0, 2⟩]) := gfacts.2.2.2.2.2.2
  unfold gdec at this
  unfold GDecodes
  cases h : Src.renet.packet.Packet.from_bytes (RustSem.Octets.with_slice (toNats ack)) with
  | ok x => obtain ⟨cur, p⟩ := x; rw [h] at this; cases this; exact ⟨cur, rfl⟩
  | err e => rw [h] at this; cases this
  | panic s => rw [h] at this; cases this

/-- **`src_carried_is_recorded` applied** to the first flush: the datagram from which the generated decoder reads
    `SmallReliable 0 0 [(0, [1, 2, 3])]` is recorded under sequence number 0 with the flush time 0 and message id 0 -/
example : ∃ bs, gF.flushes = [] ++ [bs] ∧ ∀ b ∈ bs,
    (∀ sq ch msgs, GDecodes b (.SmallReliable sq ch msgs) →
      ∃ ids, RustSem.Map.find? gF.cl.sent_packets sq = some ⟨0, .ReliableMessages ch ids⟩ ∧ ∀ x ∈ msgs, x.1 ∈ ids) ∧
    (∀ sq ch sl, GDecodes b (.ReliableSlice sq ch sl) →
      RustSem.Map.find? gF.cl.sent_packets sq = some ⟨0, .ReliableSliceMessage ch sl.message_id sl.slice_index⟩) :=
  src_carried_is_recorded cfg (opsA.take 2) _ gF grunF grunF' (by decide +kernel) (by decide +kernel) (by decide +kernel)

/-- **`src_never_after_ack` applied**: the Ack covers packet 1, which the generated `sent_packets` of `gA` records as
    carrying message 0 of channel 0; so no datagram of the two later flushes, read by the generated decoder, carries
    message 0 of channel 0 … -/
theorem never_again : ∃ news, gE.flushes = gA.flushes ++ news ∧ ∀ bs ∈ news, ∀ b ∈ bs, ∀ gp, GDecodes b gp →
    ¬ GCarriesMsg 0 0 gp := by
  obtain ⟨news, h1, h2⟩ := src_never_after_ack cfg opsA ext ack gA gE grunA grunE valid inRange (by decide +kernel)
    (by decide +kernel) ack_decodes (q := 1) gfacts.2.2.2.2.2.1 ⟨⟨0, 2⟩, by simp, by decide, by decide⟩
  exact ⟨news, h1, fun bs hbs b hb gp hgp => (h2 bs hbs b hb gp hgp).1 0 [0] rfl 0 (by simp)⟩

/-- … while the hypothesis is not idle: before the Ack, flush 3 DID carry message 0 again (`resend_time` had elapsed), and
    flush 2 did not (it had not) -/
example : (gA.flushes.map (·.map fun b => (gdec b).map fun gp => decide (GCarriesMsg 0 0 gp))) =
    [[some true], [], [some true]] := by decide +kernel

theorem gdecodes_of_gdec {b : GBytes} {gp : Src.renet.packet.Packet} (h : gdec b = some gp) : GDecodes b gp := by
  unfold gdec at h
  unfold GDecodes
  cases hx : Src.renet.packet.Packet.from_bytes (RustSem.Octets.with_slice b) with
  | ok x => obtain ⟨cur, p⟩ := x; rw [hx] at h; cases h; exact ⟨cur, rfl⟩
  | err e => rw [hx] at h; cases h
  | panic s => rw [hx] at h; cases h

/-! #### not early, on the same trace: flush 1 and flush 3 both transmit message 0 -/
def g0 : GConn := (GConn.exec cfg (opsA.take 2)).getD gzero
def g2 : GConn := (GConn.exec cfg (opsA.take 6)).getD gzero
/-- the first datagram of the `k`-th flush of the whole run -/
def dgram (k : Nat) : GBytes := (gA.flushes.getD k []).headD []

theorem grun2 : GConn.exec cfg (opsA.take 2 ++ .flush :: [.update 50, .flush, .update 60]) = some g2 :=
  some_getD (by decide +kernel) _
theorem grun3 : GConn.exec cfg (opsA.take 2 ++ .flush :: [.update 50, .flush, .update 60] ++ [.flush]) = some gA :=
  some_getD (by decide +kernel) _

/-- **`src_not_early` applied** to flush 1 and flush 3 of the trace (`mid = [update 50, flush, update 60]`): both return a
    datagram read as a `SmallReliable` packet of channel 0 carrying message 0, so `resend_time` (100 ns) is at most the
    clock difference … -/
theorem not_early_applied : ∀ s, RustSem.Map.find? g2.cl.send_reliable_channels 0 = some s →
    s.resend_time ≤ g2.cl.current_time - g0.cl.current_time := by
  obtain ⟨bs1, bs2, e1, e2, h⟩ := src_not_early cfg (opsA.take 2) [.update 50, .flush, .update 60] g0 gF g2 gA
    grunF grunF' grun2 grun3 (by decide +kernel) (by decide +kernel) (by decide +kernel) 0 0 none
  have f1 : gF.flushes = g0.flushes ++ [[dgram 0]] := by decide +kernel
  have f2 : gA.flushes = g2.flushes ++ [[dgram 2]] := by decide +kernel
  rw [f1] at e1
  rw [f2] at e2
  have b1 : bs1 = [dgram 0] := by have := List.append_cancel_left e1; simpa using this.symm
  have b2 : bs2 = [dgram 2] := by have := List.append_cancel_left e2; simpa using this.symm
  subst b1; subst b2
  exact h (dgram 0) (by simp) (dgram 2) (by simp) (.SmallReliable 0 0 [(0, [1, 2, 3])]) (.SmallReliable 1 0 [(0, [1, 2, 3])])
    (gdecodes_of_gdec (by decide +kernel)) (gdecodes_of_gdec (by decide +kernel)) (by decide) (by decide)

/-- … which, with `src_clock`, is the sum of the `update` durations between them: 50 + 60 ns -/
example : g2.cl.current_time = g0.cl.current_time + (50 + 0 + 60) :=
  src_clock cfg (opsA.take 2) [.flush, .update 50, .flush, .update 60] g0 g2 grunF grun2 (by decide +kernel)

/-- and the flush in between (50 ns after the first, less than `resend_time`) returned nothing: the bound is not idle -/
example : gA.flushes.getD 1 [[0]] = [] ∧ (RustSem.Map.find? g2.cl.send_reliable_channels 0).map (·.resend_time) = some 100 ∧
    g2.cl.current_time = 110 ∧ g0.cl.current_time = 0 := by decide +kernel

/-! #### C14 through the generated decoder, on the same trace -/

/-- **`src_flush_budget_decoded_partial` applied** to one more flush after the whole trace -/
example : ∃ g' bs, GConn.exec cfg ((opsA ++ .process ack :: ext) ++ [.flush]) = some g' ∧ g'.flushes = gE.flushes ++ [bs] ∧
    (bs.map gDecPay).sum ≤ gE.cl.available_bytes_per_tick :=
  src_flush_budget_decoded_partial cfg _ gE grunE (by decide +kernel)

/-- the decoded payload of the five flushes of the trace, computed by the kernel on the generated code (every datagram IS
    accepted by the generated decoder here: `gfacts`), against the budget of 60000 bytes per tick -/
example : gE.flushes.map (fun bs => (bs.map gDecPay).sum) = [3, 0, 3, 0, 2] ∧ gE.cl.available_bytes_per_tick = 60000 := by
  decide +kernel

/-! #### a sliced message: the slice-level statements are not idle

  A 1300-byte message (id 0: two slices 1200 + 100) is submitted and flushed at t = 0 (packets 0, 1) and, 100 ns later, again
  (packets 2, 3).  An Ack packet for packet 3 (slice 1) is processed; 100 ns later the next flush transmits slice 0 again —
  slice 1 never. -/
abbrev big : Bytes := List.replicate 1300 7
abbrev opsS : List COp := [.setConnected, .send 0 big, .flush, .update 100, .flush]
def ackS : Bytes := match (Packet.ack 0 [(3, 4)]).toBytes SER_BUFFER with | .ok b => b | _ => []
abbrev extS : List COp := [.update 100, .flush]
def gS0 : GConn := (GConn.exec cfg (opsS.take 2)).getD gzero
def gS1 : GConn := (GConn.exec cfg (opsS.take 3)).getD gzero
def gS2 : GConn := (GConn.exec cfg (opsS.take 4)).getD gzero
def gS : GConn := (GConn.exec cfg opsS).getD gzero
def gSE : GConn := (GConn.exec cfg (opsS ++ .process ackS :: extS)).getD gzero

/-- sequence number and slice index of what the generated decoder reads -/
def sliceOf (b : GBytes) : Option (Nat × Nat) :=
  match gdec b with
  | some (.ReliableSlice sq _ sl) => some (sq, sl.slice_index)
  | _ => none

theorem grunS0 : GConn.exec cfg (opsS.take 2) = some gS0 := some_getD (by decide +kernel) _
theorem grunS1 : GConn.exec cfg (opsS.take 2 ++ [.flush]) = some gS1 := some_getD (by decide +kernel) _
theorem grunS2 : GConn.exec cfg (opsS.take 2 ++ .flush :: [.update 100]) = some gS2 := some_getD (by decide +kernel) _
theorem grunS : GConn.exec cfg opsS = some gS := some_getD (by decide +kernel) _
theorem grunS' : GConn.exec cfg (opsS.take 2 ++ .flush :: [.update 100] ++ [.flush]) = some gS := some_getD (by decide +kernel) _
theorem grunSE : GConn.exec cfg (opsS ++ .process ackS :: extS) = some gSE := some_getD (by decide +kernel) _

/-- the three flushes as the generated decoder reads them: (sequence number, slice index) -/
theorem sfacts :
    gSE.flushes.map (·.map sliceOf) =
      [[some (0, 0), some (1, 1)], [some (2, 0), some (3, 1)], [some (4, 0), none]] ∧
    RustSem.Map.find? gS.cl.sent_packets 3 = some ⟨100, .ReliableSliceMessage 0 0 1⟩ ∧
    gdec (toNats ackS) = some (.Ack 0 [⟨3, 4⟩]) := by decide +kernel

/-- **`src_never_after_ack` applied**, slice form: after the Ack for packet 3 no datagram read by the generated decoder
    carries slice 1 of message 0 -/
example : ∃ news, gSE.flushes = gS.flushes ++ news ∧ ∀ bs ∈ news, ∀ b ∈ bs, ∀ gp, GDecodes b gp →
    ¬ GCarriesSlice 0 0 1 gp := by
  obtain ⟨news, h1, h2⟩ := src_never_after_ack cfg opsS extS ackS gS gSE grunS grunSE (by decide +kernel) (by decide +kernel)
    (by decide +kernel) (by decide +kernel) (gdecodes_of_gdec sfacts.2.2) (q := 3) sfacts.2.1
    ⟨⟨3, 4⟩, by simp, by decide, by decide⟩
  exact ⟨news, h1, fun bs hbs b hb gp hgp => (h2 bs hbs b hb gp hgp).2 0 0 1 rfl⟩

/-- **`src_not_early` applied**, slice form (`w = some 1`): flush 1 and flush 2 both transmit slice 1 of message 0 (second
    datagram of each), so `resend_time` is at most the 100 ns between them -/
example : ∀ s, RustSem.Map.find? gS2.cl.send_reliable_channels 0 = some s →
    s.resend_time ≤ gS2.cl.current_time - gS0.cl.current_time := by
  obtain ⟨bs1, bs2, e1, e2, h⟩ := src_not_early cfg (opsS.take 2) [.update 100] gS0 gS1 gS2 gS
    grunS0 grunS1 grunS2 grunS' (by decide +kernel) (by decide +kernel) (by decide +kernel) 0 0 (some 1)
  have f1 : gS1.flushes = gS0.flushes ++ [gS.flushes.getD 0 []] := by decide +kernel
  have f2 : gS.flushes = gS2.flushes ++ [gS.flushes.getD 1 []] := by decide +kernel
  have b1 : bs1 = gS.flushes.getD 0 [] := by
    rw [f1] at e1; have := List.append_cancel_left e1; simpa using this.symm
  have b2 : bs2 = gS.flushes.getD 1 [] := by
    have e2' := e2; rw [f2] at e2'; have := List.append_cancel_left e2'; simpa using this.symm
  subst b1; subst b2
  have d1 : ∃ gp, gdec ((gS.flushes.getD 0 []).getD 1 []) = some gp ∧ GEmits 0 0 (some 1) gp := by decide +kernel
  have d2 : ∃ gp, gdec ((gS.flushes.getD 1 []).getD 1 []) = some gp ∧ GEmits 0 0 (some 1) gp := by decide +kernel
  obtain ⟨gp1, dd1, ee1⟩ := d1
  obtain ⟨gp2, dd2, ee2⟩ := d2
  exact h _ (by decide +kernel) _ (by decide +kernel) gp1 gp2 (gdecodes_of_gdec dd1) (gdecodes_of_gdec dd2) ee1 ee2

end Ex

end RenetVerif.SrcPropsConnTraceC15
