/-
  C15 — RETRANSMISSION — ON API TRACES OF THE GENERATED `RenetClient`, datagrams read by the GENERATED `Packet::from_bytes`.

  `GConn` (`Lemmas/SrcEquiv/SrcConnSystem.lean`): one generated `RenetClient` from the generated `from_channels`, driven by
  ANY list of public operations `COp`; `g.flushes` logs what every generated `get_packets_to_send` RETURNED.
  `GDecodes b gp` (`Lemmas/SrcEquiv/SrcSystem.lean`): the generated `Packet::from_bytes` on a fresh cursor over the datagram
  `b` returns the generated packet `gp`.  `GCarriesMsg ch id gp` / `GCarriesSlice ch id i gp`
  (`Lemmas/SrcEquiv/SrcConnC15.lean`): `gp` is a `SmallReliable` packet of channel `ch` with message id `id` among its
  messages, or a `ReliableSlice` packet of channel `ch` for message `id` (resp. for slice `i` of message `id`).

    * `src_never_after_ack`        (C15, last clause; C15A on traces)  once a step of the trace processed an Ack packet (read
                                   by the generated decoder) naming a sequence number `q` that the generated `sent_packets`
                                   table still holds, NO later flush of the trace — whatever operations come in between —
                                   returns a datagram from which the generated decoder reads a packet carrying a message
                                   (resp. the slice) that the table entry of `q` names;
    * `src_carried_is_recorded`    the table entry: after a flush of the trace that leaves the connection live, every
                                   datagram of THAT flush from which the generated decoder reads a reliable packet with
                                   sequence number `sq` is recorded in the generated `sent_packets` under `sq`, with the
                                   flush time and exactly the ids (resp. id and slice index) the decoder reads.

  Side conditions: `CRunInRange` (the range condition of the source tie, decidable by evaluation), configured channel ids
  (`COpValid`, as in `src_never_panics`), and: the reliable send channel ids of the generated struct are bytes (`channel_id`
  is a `u8` in the Rust source; the generated code carries it as a `Nat`).

  Proofs: `SrcConnSystem.crun_sim_conv` + the model theorems of `Lemmas/AckFinal.lean` (`Props/C15A.lean`) along `MTr` runs
  (`SrcConnC15.mtr_never_after_ack`) + `SrcConnC15.dec_enc_carries` (the decoder reads from an encoding only what the packet
  carries; no appeal to the full round trip, so no well-formedness side condition on the packets of a flush).
-/
import RenetVerif.Lemmas.SrcEquiv.SrcConnC15
import RenetVerif.Props.SrcPropsConnTrace
import RenetVerif.Props.C15A
set_option maxRecDepth 100000
set_option linter.unusedVariables false
set_option linter.unusedSimpArgs false
namespace RenetVerif.SrcPropsConnTraceC15
open RenetVerif RenetVerif.RustSem RenetVerif.C RenetVerif.System RenetVerif.SrcEquiv RenetVerif.SrcSystem RenetVerif.SrcConnSystem
open RenetVerif.SrcConnC15 RenetVerif.SrcPropsConnTrace RenetVerif.AckFinal
open Src.renet.remote_connection

/-! ## reading the generated struct -/

/-- the reliable send channel ids of the generated struct are bytes (`u8` in the Rust source) -/
def GChanBytes (cl : RenetClient) : Prop := ∀ x ∈ cl.send_reliable_channels, x.1 < 256

instance (cl : RenetClient) : Decidable (GChanBytes cl) := by unfold GChanBytes; infer_instance

theorem keys_of_gchan {mrs : Nat → Nat} {c : Conn} (h : GChanBytes (reprConn mrs c)) :
    ∀ ch s, SMap.find? c.sendRel ch = some s → ch < 256 := by
  intro ch s hf
  exact h (ch, reprSR s) (List.mem_map.mpr ⟨(ch, s), SMap.mem_of_find? hf, rfl⟩)

theorem sent_of_gsent {mrs : Nat → Nat} {c : Conn} {q : Nat} {e : PacketSent}
    (h : RustSem.Map.find? (reprConn mrs c).sent_packets q = some e) :
    ∃ tq info, SMap.find? c.sent q = some (tq, info) ∧ e = ⟨tq, reprInfo info⟩ := by
  simp only [reprConn, find_mapVals] at h
  cases hm : SMap.find? c.sent q with
  | none => rw [hm] at h; cases h
  | some x => obtain ⟨tq, info⟩ := x; rw [hm] at h; cases h; exact ⟨tq, info, rfl, rfl⟩

/-! ## C15, last clause — never after the ack was processed -/

/-- **C15 on the generated code: never transmitted again after the ack was processed.**  ANY trace `ops` of the generated
    `RenetClient` reaches `g`, live (`is_disconnected` returns `false`).  The next operation is `process_packet(ack)`, where
    the generated `from_bytes` reads from `ack` an `Ack` packet whose ranges cover `q`, and the generated `sent_packets` table
    of `g` still holds `q` (it was sent less than 3 s — `update`'s pruning — ago and not acknowledged before), with entry
    `e`.  Then ANY operations `ext` follow.  Every datagram `b` of every `get_packets_to_send` in `ext` (`news`: what the
    log of returned flushes grew by), read by the generated `from_bytes`, carries none of the messages `e.info` names
    (`ReliableMessages ch ids`), resp. not the slice it names (`ReliableSliceMessage ch id i`). -/
theorem src_never_after_ack (cfg : Cfg) (ops ext : List COp) (ack : Bytes) (g g' : GConn)
    (hg : GConn.exec cfg ops = some g) (hg' : GConn.exec cfg (ops ++ .process ack :: ext) = some g')
    (hv : ∀ op ∈ ops ++ .process ack :: ext, COpValid cfg op) (hrg : CRunInRange cfg (ops ++ .process ack :: ext))
    (hch : GChanBytes g.cl) (hlive : (RenetClient.is_disconnected g.cl : Res Empty Bool) = .ok false)
    {aseq : Nat} {ranges : List RustSem.Range} (hdec : GDecodes (toNats ack) (.Ack aseq ranges))
    {q : Nat} {e : PacketSent} (hq : RustSem.Map.find? g.cl.sent_packets q = some e)
    (hm : ∃ r ∈ ranges, r.start ≤ q ∧ q < r.«end») :
    ∃ news, g'.flushes = g.flushes ++ news ∧ ∀ bs ∈ news, ∀ b ∈ bs, ∀ gp, GDecodes b gp →
      (∀ ch ids, e.info = .ReliableMessages ch ids → ∀ id ∈ ids, ¬ GCarriesMsg ch id gp) ∧
      (∀ ch id i, e.info = .ReliableSliceMessage ch id i → ¬ GCarriesSlice ch id i gp) := by
  obtain ⟨t, t', ht, ht', sim, sim', hgood⟩ := crun_split cfg ops _ g g' hrg hg hg'
  obtain ⟨mrs, hC⟩ := sim.cl
  rw [hC] at hch hlive hq
  -- the model side
  have hgd : Good t.c := good_run ops _ t (good_init cfg) ht
  have hi0 : (MTr.init cfg).c.Inv := (C06.fresh_connection _ _ _).2
  have hv0 : ∀ op ∈ ops ++ .process ack :: ext, CI.ChanValid (MTr.init cfg).c op.toConnOp :=
    fun op ho => (cfgValid_of (hv op ho)).chanValid
  obtain ⟨hi, same⟩ := mtr_run_same ops _ t hi0 (fun o ho => hv0 o (List.mem_append_left _ ho))
    (crunInRangeFrom_prefix ops _ _ hrg.2) ht
  have hvt : ∀ op ∈ ext, CI.ChanValid t.c op.toConnOp :=
    fun o ho => (hv0 o (List.mem_append_right _ (List.mem_cons_of_mem _ ho))).same same
  have hrgt : CRunInRangeFrom t (.process ack :: ext) := by
    have aux : ∀ (ops : List COp) (t0 t : MTr) (rest : List COp), t0.run ops = some t →
        CRunInRangeFrom t0 (ops ++ rest) → CRunInRangeFrom t rest := by
      intro ops
      induction ops with
      | nil => intro t0 t rest h hr; cases h; exact hr
      | cons o ops ih =>
        intro t0 t rest h hr
        simp only [MTr.run] at h
        cases hs : t0.step o with
        | none => rw [hs] at h; cases h
        | some t1 =>
          rw [hs] at h
          have h3 := hr.2.2
          rw [hs] at h3
          exact ih t1 t rest h h3
    exact aux ops _ t _ ht hrg.2
  have hd : t.c.isDisconnected = false := by
    rw [SrcTie.conn_is_disconnected] at hlive
    exact Res.ok.inj hlive
  obtain ⟨p, hp, hpe⟩ := gdecodes_inv hdec
  obtain ⟨tq, info, hqm, rfl⟩ := sent_of_gsent hq
  -- the decoded packet is an Ack packet with the same ranges
  cases p with
  | ack aseq' ranges' =>
    simp only [reprPacket, Src.renet.packet.Packet.Ack.injEq] at hpe
    obtain ⟨rfl, rfl⟩ := hpe
    obtain ⟨news, hn, hnews⟩ := mtr_never_after_ack ext hgd hi hd hp hqm (mem_of_reprRange hm) (keys_of_gchan hch) hvt hrgt ht'
    refine ⟨news.map (List.map toNats), by rw [sim'.flushes, sim.flushes, hn, List.map_append], ?_⟩
    intro bs hbs b hb gp hgp
    obtain ⟨bs0, hbs0, rfl⟩ := List.mem_map.mp hbs
    obtain ⟨b0, hb0, rfl⟩ := List.mem_map.mp hb
    obtain ⟨p', hp', rfl⟩ := gdecodes_inv hgp
    obtain ⟨n1, n2⟩ := hnews bs0 hbs0 b0 hb0
    refine ⟨fun ch ids hinfo id hid hc => ?_, fun ch id i hinfo hc => ?_⟩
    · cases info <;> simp only [reprInfo] at hinfo <;> try cases hinfo
      exact n1 _ _ rfl id hid p' hp' ((gcarriesMsg_repr _ _ _).1 hc)
    · cases info <;> simp only [reprInfo] at hinfo <;> try cases hinfo
      exact n2 _ _ _ rfl p' hp' ((gcarriesSlice_repr _ _ _ _).1 hc)
  | smallReliable _ _ _ => simp only [reprPacket] at hpe; cases hpe
  | smallUnreliable _ _ _ => simp only [reprPacket] at hpe; cases hpe
  | reliableSlice _ _ _ => simp only [reprPacket] at hpe; cases hpe
  | unreliableSlice _ _ _ => simp only [reprPacket] at hpe; cases hpe

/-! ## the table entry: what a flush carried is recorded -/

/-- the range condition of the state a continuation starts from -/
theorem inRange_suffix : ∀ (ops : List COp) (t0 t : MTr) (rest : List COp), t0.run ops = some t →
    CRunInRangeFrom t0 (ops ++ rest) → CRunInRangeFrom t rest := by
  intro ops
  induction ops with
  | nil => intro t0 t rest h hr; cases h; exact hr
  | cons o ops ih =>
    intro t0 t rest h hr
    simp only [MTr.run] at h
    cases hs : t0.step o with
    | none => rw [hs] at h; cases h
    | some t1 =>
      rw [hs] at h
      have h3 := hr.2.2
      rw [hs] at h3
      exact ih t1 t rest h h3

/-- **C15A.0 on the generated code: the sent table records what each datagram carried.**  ANY trace `ops` reaches `g`; the
    next operation is a flush that leaves the connection live.  For every datagram `b` the generated `get_packets_to_send`
    returned: if the generated `from_bytes` reads a `SmallReliable sq ch msgs` packet from `b`, the generated `sent_packets`
    table now holds under `sq` an entry with the flush time (`current_time` of `g`) and `ReliableMessages ch ids`, every
    message id of `msgs` among `ids`; if it reads `ReliableSlice sq ch sl`, the entry is
    `ReliableSliceMessage ch sl.message_id sl.slice_index`.  (These are the hypotheses `hq` of `src_never_after_ack`.) -/
theorem src_carried_is_recorded (cfg : Cfg) (ops : List COp) (g g' : GConn)
    (hg : GConn.exec cfg ops = some g) (hg' : GConn.exec cfg (ops ++ [.flush]) = some g')
    (hrg : CRunInRange cfg (ops ++ [.flush])) (hch : GChanBytes g.cl)
    (hlive' : (RenetClient.is_disconnected g'.cl : Res Empty Bool) = .ok false) :
    ∃ bs, g'.flushes = g.flushes ++ [bs] ∧ ∀ b ∈ bs,
      (∀ sq ch msgs, GDecodes b (.SmallReliable sq ch msgs) →
        ∃ ids, RustSem.Map.find? g'.cl.sent_packets sq = some ⟨g.cl.current_time, .ReliableMessages ch ids⟩ ∧
          ∀ x ∈ msgs, x.1 ∈ ids) ∧
      (∀ sq ch sl, GDecodes b (.ReliableSlice sq ch sl) →
        RustSem.Map.find? g'.cl.sent_packets sq =
          some ⟨g.cl.current_time, .ReliableSliceMessage ch sl.message_id sl.slice_index⟩) := by
  obtain ⟨t, t', ht, ht', sim, sim', hgood⟩ := crun_split cfg ops _ g g' hrg hg hg'
  obtain ⟨mrs, hC⟩ := sim.cl
  obtain ⟨mrs', hC'⟩ := sim'.cl
  rw [hC] at hch
  rw [hC'] at hlive'
  have hgd : Good t.c := good_run ops _ t (good_init cfg) ht
  have hd' : t'.c.isDisconnected = false := by
    rw [SrcTie.conn_is_disconnected] at hlive'
    exact Res.ok.inj hlive'
  -- the flush step
  simp only [MTr.run] at ht'
  cases hs : t.step .flush with
  | none => rw [hs] at ht'; cases ht'
  | some t1 =>
    rw [hs] at ht'
    cases ht'
    simp only [MTr.step] at hs
    cases hm : t.c.getPacketsToSend with
    | err e => exact nomatch e
    | panic s => rw [hm] at hs; cases hs
    | ok x =>
      obtain ⟨c1, bs1⟩ := x
      rw [hm] at hs
      simp only [Option.some.injEq] at hs
      subst hs
      have key := flush_recorded_dec hgd (keys_of_gchan hch) hm hd'
      refine ⟨bs1.map toNats, by rw [sim'.flushes, sim.flushes]; simp only [List.map_append, List.map_cons, List.map_nil], ?_⟩
      intro b hb
      obtain ⟨b0, hb0, rfl⟩ := List.mem_map.mp hb
      have htime : g.cl.current_time = t.c.now := by rw [hC]; rfl
      refine ⟨fun sq ch msgs hgp => ?_, fun sq ch sl hgp => ?_⟩
      · obtain ⟨p', hp', hrepr⟩ := gdecodes_inv hgp
        cases p' with
        | smallReliable sq' ch' m' =>
          simp only [reprPacket, Src.renet.packet.Packet.SmallReliable.injEq] at hrepr
          obtain ⟨rfl, rfl, rfl⟩ := hrepr
          obtain ⟨ids, hf, hids⟩ := (key b0 hb0 _ hp').1 _ _ _ rfl
          refine ⟨ids, ?_, ?_⟩
          · rw [hC', htime]
            simp only [reprConn, find_mapVals]
            rw [hf]; rfl
          · intro x hx
            obtain ⟨y, hy, rfl⟩ := List.mem_map.mp hx
            exact hids y hy
        | smallUnreliable _ _ _ => simp only [reprPacket] at hrepr; cases hrepr
        | reliableSlice _ _ _ => simp only [reprPacket] at hrepr; cases hrepr
        | unreliableSlice _ _ _ => simp only [reprPacket] at hrepr; cases hrepr
        | ack _ _ => simp only [reprPacket] at hrepr; cases hrepr
      · obtain ⟨p', hp', hrepr⟩ := gdecodes_inv hgp
        cases p' with
        | reliableSlice sq' ch' sl' =>
          simp only [reprPacket, Src.renet.packet.Packet.ReliableSlice.injEq] at hrepr
          obtain ⟨rfl, rfl, rfl⟩ := hrepr
          have hf := (key b0 hb0 _ hp').2 _ _ _ rfl
          rw [hC', htime]
          simp only [reprConn, find_mapVals]
          rw [hf]; rfl
        | smallUnreliable _ _ _ => simp only [reprPacket] at hrepr; cases hrepr
        | smallReliable _ _ _ => simp only [reprPacket] at hrepr; cases hrepr
        | unreliableSlice _ _ _ => simp only [reprPacket] at hrepr; cases hrepr
        | ack _ _ => simp only [reprPacket] at hrepr; cases hrepr

/-! ## non-vacuity: a retransmission trace, executed by the kernel ON THE GENERATED CODE

  One reliable channel 0 with `resend_time` 100 ns.  `opsA`: connect, submit `[1, 2, 3]` (message id 0), flush at t = 0
  (emitted, packet 0); 50 ns pass, flush (NOT re-emitted: shorter than `resend_time`); 60 more ns pass (t = 110), flush
  (re-emitted, packet 1).  Then an Ack packet for the packets 0 and 1 is processed, and `ext` follows: 200 ns pass, flush;
  another message is submitted, 200 ns pass, flush — message 0 never again. -/
namespace Ex
abbrev chans : List ChanCfg := [⟨0, .ordered, 100000, 100⟩]
abbrev cfg : Cfg := ⟨60000, chans, chans⟩
abbrev opsA : List COp := [.setConnected, .send 0 [1, 2, 3], .flush, .update 50, .flush, .update 60, .flush]
/-- an Ack packet (sequence number 0) with the single range 0..2 -/
def ack : Bytes := match (Packet.ack 0 [(0, 2)]).toBytes SER_BUFFER with | .ok b => b | _ => []
abbrev ext : List COp := [.update 200, .flush, .send 0 [4, 5], .update 200, .flush]

def gzero : GConn := ⟨reprConn (fun _ => 0) (Conn.fromChannels 0 [] []), [], []⟩
def gF : GConn := (GConn.exec cfg (opsA.take 3)).getD gzero
def gA : GConn := (GConn.exec cfg opsA).getD gzero
def gE : GConn := (GConn.exec cfg (opsA ++ .process ack :: ext)).getD gzero

/-- reading a datagram with the generated decoder, as a function -/
def gdec (b : GBytes) : Option Src.renet.packet.Packet :=
  match Src.renet.packet.Packet.from_bytes (RustSem.Octets.with_slice b) with
  | .ok (_, p) => some p
  | _ => none

theorem gdec_of {b : GBytes} {gp : Src.renet.packet.Packet} (h : GDecodes b gp) : gdec b = some gp := by
  obtain ⟨cur, h⟩ := h
  simp only [gdec, h]

theorem inRange : CRunInRange cfg (opsA ++ .process ack :: ext) := by decide +kernel
theorem valid : ∀ op ∈ opsA ++ .process ack :: ext, COpValid cfg op := by decide +kernel
theorem grunF : GConn.exec cfg (opsA.take 2) = some ((GConn.exec cfg (opsA.take 2)).getD gzero) := some_getD (by decide +kernel) _
theorem grunF' : GConn.exec cfg (opsA.take 2 ++ [.flush]) = some gF := some_getD (by decide +kernel) _
theorem grunA : GConn.exec cfg opsA = some gA := some_getD (by decide +kernel) _
theorem grunE : GConn.exec cfg (opsA ++ .process ack :: ext) = some gE := some_getD (by decide +kernel) _

/-- **the trace, as the kernel computes it on the generated code and the generated decoder**: flush 1 (t = 0) emits message
    0 in packet 0; flush 2 (t = 50, less than `resend_time` later) emits nothing; flush 3 (t = 110) emits it again in packet
    1; after the Ack, flush 4 emits nothing, flush 5 emits only the new message 1 (and the connection's own ack). -/
theorem gfacts :
    gA.flushes.map (·.map gdec) =
      [[some (.SmallReliable 0 0 [(0, [1, 2, 3])])], [], [some (.SmallReliable 1 0 [(0, [1, 2, 3])])]] ∧
    gE.flushes.map (·.map gdec) =
      [[some (.SmallReliable 0 0 [(0, [1, 2, 3])])], [], [some (.SmallReliable 1 0 [(0, [1, 2, 3])])],
       [some (.Ack 2 [⟨0, 1⟩])], [some (.SmallReliable 3 0 [(1, [4, 5])]), some (.Ack 4 [⟨0, 1⟩])]] ∧
    gA.cl.current_time = 110 ∧
    (RustSem.Map.find? gA.cl.send_reliable_channels 0).map (·.resend_time) = some 100 ∧
    RustSem.Map.find? gA.cl.sent_packets 0 = some ⟨0, .ReliableMessages 0 [0]⟩ ∧
    RustSem.Map.find? gA.cl.sent_packets 1 = some ⟨110, .ReliableMessages 0 [0]⟩ ∧
    gdec (toNats ack) = some (.Ack 0 [⟨0, 2⟩]) := by decide +kernel

theorem ack_decodes : GDecodes (toNats ack) (.Ack 0 [⟨0, 2⟩]) := by
  have : gdec (toNats ack) = some (.Ack 0 [⟨0, 2⟩]) := gfacts.2.2.2.2.2.2
  unfold gdec at this
  unfold GDecodes
  cases h : Src.renet.packet.Packet.from_bytes (RustSem.Octets.with_slice (toNats ack)) with
  | ok x => obtain ⟨cur, p⟩ := x; rw [h] at this; cases this; exact ⟨cur, rfl⟩
  | err e => rw [h] at this; cases this
  | panic s => rw [h] at this; cases this

/-- **`src_carried_is_recorded` applied** to the first flush: the datagram from which the generated decoder reads
    `SmallReliable 0 0 [(0, [1, 2, 3])]` is recorded under sequence number 0 with the flush time 0 and message id 0 -/
example : ∃ bs, gF.flushes = [] ++ [bs] ∧ ∀ b ∈ bs,
    (∀ sq ch msgs, GDecodes b (.SmallReliable sq ch msgs) →
      ∃ ids, RustSem.Map.find? gF.cl.sent_packets sq = some ⟨0, .ReliableMessages ch ids⟩ ∧ ∀ x ∈ msgs, x.1 ∈ ids) ∧
    (∀ sq ch sl, GDecodes b (.ReliableSlice sq ch sl) →
      RustSem.Map.find? gF.cl.sent_packets sq = some ⟨0, .ReliableSliceMessage ch sl.message_id sl.slice_index⟩) :=
  src_carried_is_recorded cfg (opsA.take 2) _ gF grunF grunF' (by decide +kernel) (by decide +kernel) (by decide +kernel)

/-- **`src_never_after_ack` applied**: the Ack covers packet 1, which the generated `sent_packets` of `gA` records as
    carrying message 0 of channel 0; so no datagram of the two later flushes, read by the generated decoder, carries
    message 0 of channel 0 … -/
theorem never_again : ∃ news, gE.flushes = gA.flushes ++ news ∧ ∀ bs ∈ news, ∀ b ∈ bs, ∀ gp, GDecodes b gp →
    ¬ GCarriesMsg 0 0 gp := by
  obtain ⟨news, h1, h2⟩ := src_never_after_ack cfg opsA ext ack gA gE grunA grunE valid inRange (by decide +kernel)
    (by decide +kernel) ack_decodes (q := 1) gfacts.2.2.2.2.2.1 ⟨⟨0, 2⟩, by simp, by decide, by decide⟩
  exact ⟨news, h1, fun bs hbs b hb gp hgp => (h2 bs hbs b hb gp hgp).1 0 [0] rfl 0 (by simp)⟩

/-- … while the hypothesis is not idle: before the Ack, flush 3 DID carry message 0 again (`resend_time` had elapsed), and
    flush 2 did not (it had not) -/
example : (gA.flushes.map (·.map fun b => (gdec b).map fun gp => decide (GCarriesMsg 0 0 gp))) =
    [[some true], [], [some true]] := by decide +kernel

end Ex

end RenetVerif.SrcPropsConnTraceC15
