/-
  C08 — "A RELIABLE MESSAGE IS RELEASED ONLY AFTER THE PEER REALLY HAS IT", ON API TRACES OF THE GENERATED `RenetClient`.

  `GConn` (`Lemmas/SrcEquiv/SrcConnSystem.lean`) is one GENERATED `RenetClient` created by the generated `from_channels` and
  driven through the generated `send_message`, `receive_message`, `update`, `get_packets_to_send`, `process_packet` (ARBITRARY
  bytes) and the status setters, in ANY order (`COp`).  `GConn.exec cfg ops = some g`: `from_channels` and every call of the
  trace returned normally, and `g.cl` is the generated struct afterwards.

  The theorems below have GENERATED runs as hypotheses and read hypotheses and conclusions off the generated struct
  (`send_reliable_channels[ch].unacked_messages`, `sent_packets`, `pending_acks`) and the generated decoder
  (`GDecodes bytes p`: the generated `Packet::from_bytes` on a fresh cursor over `bytes` returns `p`):

    * `src_release_only_by_ack`        one step `op` of ANY kind: a message id leaves `unacked_messages` of a reliable send channel
                                       only if `op = process bytes`, `bytes` decode to an `Ack` packet, one of its ranges contains a
                                       sequence number `seq`, and the generated `sent_packets` (before the step) records under
                                       `seq` a packet that carried the message (`ReliableMessages ch ids`, `id ∈ ids`, or
                                       `ReliableSliceMessage ch id _`).  So: `send_message`, `receive_message`, `update`,
                                       `get_packets_to_send`, the status setters, non-Ack packets and garbage release nothing.
    * `src_send_channel_persists`      no step removes a channel from `send_reliable_channels`.
    * `src_slice_marked_only_by_ack`   slice `i` of message `id` stops being stored-and-unmarked (marked, or the message released)
                                       only by an Ack naming a recorded packet `ReliableSliceMessage ch id i`.
    * `src_sliced_release_needs_every_slice`   a sliced message leaves only when every slice was marked before or is named by
                                       this very Ack.
    * `src_memory_returned_only_by_ack`   `memory_usage_bytes` of a reliable send channel drops (available memory rises) only
                                       in such a step; `max_memory_usage_bytes` never changes.
    * `src_recorded_packet_was_emitted_partial`   every entry of the generated `sent_packets` describes a datagram returned by a
                                       generated `get_packets_to_send` of the run (datagram given by the model serialiser).
    * `src_release_trace`              whole traces: a message stored after `ops` and gone after `ops ++ ext` was released by
                                       some `process bytes` of `ext`, with the justification read off the generated state at
                                       that point of the trace.
    * `src_pending_acks_only_received` every sequence number covered by the generated `pending_acks` ranges is the (generated)
                                       `Packet::sequence` of a packet the generated decoder reads from the bytes of a
                                       `process_packet` of the trace.

  `CRunInRange` is the range side condition of the source tie (see `Props/SrcPropsConnTrace.lean`), decidable by evaluation.
  Proofs: `SrcConnSystem.crun_sim_conv` / `crun_split` + the model theorems of `Props/C08.lean` via
  `Lemmas/SrcEquiv/SrcConnC08.lean` (`mtr_step_release`, `mtr_run_acks`); `Conn.SendInv` and `Acks.WF` along the model runs
  are part of `SrcConnSystem.epGood_run`.
-/
import RenetVerif.Lemmas.SrcEquiv.SrcConnC08
set_option maxRecDepth 100000
set_option linter.unusedVariables false
set_option linter.unusedSimpArgs false
namespace RenetVerif.SrcPropsConnTraceC08
open RenetVerif RenetVerif.RustSem RenetVerif.C RenetVerif.System RenetVerif.SrcEquiv RenetVerif.SrcSystem RenetVerif.SrcConnSystem
open RenetVerif.SrcConnC08 RenetVerif.SI
open Src.renet.remote_connection

abbrev GSendRel := Src.renet.channel.reliable.SendChannelReliable

/-- `bytes` decode — by the GENERATED `Packet::from_bytes` — to an `Ack` packet; one of its ranges contains a sequence number
    `seq`; the generated `sent_packets` of `cl` has an entry under `seq`, whose `info` satisfies `P` -/
def GAckNames (cl : RenetClient) (bytes : Bytes) (P : PacketSentInfo → Prop) : Prop :=
  ∃ aseq ranges seq ps, GDecodes (toNats bytes) (.Ack aseq ranges) ∧ (∃ r ∈ ranges, r.start ≤ seq ∧ seq < r.«end») ∧
    RustSem.Map.find? cl.sent_packets seq = some ps ∧ P ps.info

/-- the recorded packet carried message `id` of channel `ch` (whole, among the small messages `ids`, or one of its slices) -/
def GCarried (ch id : Nat) (info : PacketSentInfo) : Prop :=
  (∃ ids, info = .ReliableMessages ch ids ∧ id ∈ ids) ∨ ∃ idx, info = .ReliableSliceMessage ch id idx

/-! ## auxiliary -/

/-- model justification ↦ generated justification -/
theorem gackNames_of {mrs : Nat → Nat} {c : Conn} {op : COp} {P : SentInfo → Prop} {Q : PacketSentInfo → Prop}
    (h : MAckNames c op P) (hPQ : ∀ info, P info → Q (reprInfo info)) :
    ∃ bytes, op = .process bytes ∧ GAckNames (reprConn mrs c) bytes Q := by
  obtain ⟨bytes, aseq, ranges, seq, t0, info, rfl, hpk, ⟨r, hr, h1, h2⟩, hfs, hp⟩ := h
  refine ⟨bytes, rfl, aseq, ranges.map reprRange, seq, reprSentEntry (t0, info), gdecodes_of_fromBytes hpk,
    ⟨reprRange r, List.mem_map_of_mem hr, h1, h2⟩, ?_, hPQ info hp⟩
  rw [find_sent_repr, hfs]; rfl

/-- the model step behind one more generated operation -/
theorem cstep_split (cfg : Cfg) (ops : List COp) (op : COp) (g g' : GConn) (hrg : CRunInRange cfg (ops ++ [op]))
    (hg : GConn.exec cfg ops = some g) (hg' : GConn.exec cfg (ops ++ [op]) = some g') :
    ∃ (t t' : MTr) (mrs mrs' : Nat → Nat), t.step op = some t' ∧ g.cl = reprConn mrs t.c ∧ g'.cl = reprConn mrs' t'.c ∧
      EpGood t.c := by
  obtain ⟨t, t', ht, ht', sim, sim', hgood⟩ := crun_split cfg ops [op] g g' hrg hg hg'
  obtain ⟨mrs, hC⟩ := sim.cl
  obtain ⟨mrs', hC'⟩ := sim'.cl
  simp only [MTr.run] at ht'
  cases hs : t.step op with
  | none => rw [hs] at ht'; cases ht'
  | some t1 => rw [hs] at ht'; cases ht'; exact ⟨t, _, mrs, mrs', hs, hC, hC', hgood⟩

theorem carried_of_names {ch id : Nat} (info : SentInfo) (h : Names info ch id) : GCarried ch id (reprInfo info) := by
  rcases h with ⟨ids, rfl, hid⟩ | ⟨idx, rfl⟩
  · exact Or.inl ⟨ids, rfl, hid⟩
  · exact Or.inr ⟨idx, rfl⟩

/-! ## (1) release only by a matching acknowledgement; nothing else releases -/

/-- **No operation removes a reliable send channel.** -/
theorem src_send_channel_persists (cfg : Cfg) (ops : List COp) (op : COp) (g g' : GConn)
    (hg : GConn.exec cfg ops = some g) (hg' : GConn.exec cfg (ops ++ [op]) = some g')
    (hrg : CRunInRange cfg (ops ++ [op])) (ch : Nat) (s : GSendRel)
    (hs : RustSem.Map.find? g.cl.send_reliable_channels ch = some s) :
    ∃ s', RustSem.Map.find? g'.cl.send_reliable_channels ch = some s' := by
  obtain ⟨t, t', mrs, mrs', hstep, hC, hC', hgood⟩ := cstep_split cfg ops op g g' hrg hg hg'
  rw [hC] at hs
  obtain ⟨sM, hfM, rfl⟩ := find_sendRel_repr hs
  obtain ⟨sM', hfM', -, -⟩ := mtr_step_release hgood.sinv.send hgood.sinv.acksWF hstep hfM
  exact ⟨reprSR sM', by rw [hC']; exact find_sendRel_repr_of hfM'⟩

/-- **C08 on the generated code, one step of ANY kind.**  `g` is the generated state after ANY run `ops`, `g'` the state after one
    more operation `op` (arbitrary: `send_message`, `receive_message`, `update`, `get_packets_to_send`, `process_packet` with
    arbitrary bytes, a status setter).  If message `id` is in the generated `unacked_messages` of the reliable send channel `ch`
    in `g` and in `g'` it is not (`hout` also covers "the channel is gone", which `src_send_channel_persists` excludes), then
    `op` is a `process_packet`, its bytes decode by the generated decoder to an `Ack` packet, one of the Ack's ranges contains a
    sequence number `seq`, and the generated `sent_packets` of `g` records under `seq` a packet that carried message `id` of
    channel `ch`.  (Transports `C08.release_only_by_ack` and the `…_never_releases` family.) -/
theorem src_release_only_by_ack (cfg : Cfg) (ops : List COp) (op : COp) (g g' : GConn)
    (hg : GConn.exec cfg ops = some g) (hg' : GConn.exec cfg (ops ++ [op]) = some g')
    (hrg : CRunInRange cfg (ops ++ [op])) (ch id : Nat) (s : GSendRel)
    (hs : RustSem.Map.find? g.cl.send_reliable_channels ch = some s)
    (hin : RustSem.Map.contains_key s.unacked_messages id = true)
    (hout : ∀ s', RustSem.Map.find? g'.cl.send_reliable_channels ch = some s' →
      RustSem.Map.contains_key s'.unacked_messages id = false) :
    ∃ bytes, op = .process bytes ∧ GAckNames g.cl bytes (GCarried ch id) := by
  obtain ⟨t, t', mrs, mrs', hstep, hC, hC', hgood⟩ := cstep_split cfg ops op g g' hrg hg hg'
  rw [hC] at hs
  obtain ⟨sM, hfM, rfl⟩ := find_sendRel_repr hs
  obtain ⟨sM', hfM', rel, -⟩ := mtr_step_release hgood.sinv.send hgood.sinv.acksWF hstep hfM
  have hout' := hout (reprSR sM') (by rw [hC']; exact find_sendRel_repr_of hfM')
  rw [contains_unacked_repr] at hin hout'
  have hm := rel id (by intro e; rw [e] at hin; cases hin)
    (by cases hv : SMap.find? sM'.unacked id with
        | none => rfl
        | some u => rw [hv] at hout'; cases hout')
  obtain ⟨bytes, e, hG⟩ := gackNames_of (mrs := mrs) hm carried_of_names
  exact ⟨bytes, e, by rw [hC]; exact hG⟩

/-- **Each slice is marked only by an Ack of a packet that carried exactly that slice** (generated code, one step of ANY
    kind).  `GPending s id i`: the generated `unacked_messages` of `s` holds `Sliced …` under `id` and its `acked[i]` is
    `false`.  If that holds in `g` and in `g'` no longer (slice marked, or the whole message released), then `op` is a
    `process_packet` of bytes decoding to an `Ack` with a range containing a `seq` that the generated `sent_packets` of `g`
    records as `ReliableSliceMessage ch id i`.  (Transports `C08.slice_marked_only_by_ack`.) -/
theorem src_slice_marked_only_by_ack (cfg : Cfg) (ops : List COp) (op : COp) (g g' : GConn)
    (hg : GConn.exec cfg ops = some g) (hg' : GConn.exec cfg (ops ++ [op]) = some g')
    (hrg : CRunInRange cfg (ops ++ [op])) (ch id i : Nat) (s : GSendRel)
    (hs : RustSem.Map.find? g.cl.send_reliable_channels ch = some s)
    (hpend : GPending s id i)
    (hnot : ∀ s', RustSem.Map.find? g'.cl.send_reliable_channels ch = some s' → ¬ GPending s' id i) :
    ∃ bytes, op = .process bytes ∧ GAckNames g.cl bytes (fun info => info = .ReliableSliceMessage ch id i) := by
  obtain ⟨t, t', mrs, mrs', hstep, hC, hC', hgood⟩ := cstep_split cfg ops op g g' hrg hg hg'
  rw [hC] at hs
  obtain ⟨sM, hfM, rfl⟩ := find_sendRel_repr hs
  obtain ⟨sM', hfM', -, pend⟩ := mtr_step_release hgood.sinv.send hgood.sinv.acksWF hstep hfM
  have hnot' := hnot (reprSR sM') (by rw [hC']; exact find_sendRel_repr_of hfM')
  rw [gpending_repr] at hpend hnot'
  rcases pend id i hpend with hp2 | hm
  · exact absurd hp2 hnot'
  · obtain ⟨bytes, e, hG⟩ := gackNames_of (mrs := mrs) (Q := fun info => info = .ReliableSliceMessage ch id i) hm
      (by rintro info rfl; rfl)
    exact ⟨bytes, e, by rw [hC]; exact hG⟩

/-- **A sliced message is released only after every one of its slices was acknowledged** (generated code, one step of ANY
    kind): when a `Sliced` entry with `n` slices leaves the generated `unacked_messages`, every slice index `i < n` was already
    marked in `g`, or the step is a `process_packet` of an Ack naming a recorded packet that carried slice `i`.
    (Transports `C08.sliced_release_needs_every_slice`.) -/
theorem src_sliced_release_needs_every_slice (cfg : Cfg) (ops : List COp) (op : COp) (g g' : GConn)
    (hg : GConn.exec cfg ops = some g) (hg' : GConn.exec cfg (ops ++ [op]) = some g')
    (hrg : CRunInRange cfg (ops ++ [op])) (ch id : Nat) (s : GSendRel)
    (hs : RustSem.Map.find? g.cl.send_reliable_channels ch = some s)
    (m : GBytes) (n k nx : Nat) (a : List Bool) (ls : List (Option Nat))
    (hf : RustSem.Map.find? s.unacked_messages id = some (.Sliced m n k nx a ls))
    (hout : ∀ s', RustSem.Map.find? g'.cl.send_reliable_channels ch = some s' →
      RustSem.Map.contains_key s'.unacked_messages id = false)
    (i : Nat) (hi : i < n) :
    a[i]? = some true ∨
      ∃ bytes, op = .process bytes ∧ GAckNames g.cl bytes (fun info => info = .ReliableSliceMessage ch id i) := by
  -- the bitmap has `n` entries (model invariant)
  have hlen : a.length = n := by
    obtain ⟨t, t', mrs, mrs', hstep, hC, hC', hgood⟩ := cstep_split cfg ops op g g' hrg hg hg'
    rw [hC] at hs
    obtain ⟨sM, hfM, rfl⟩ := find_sendRel_repr hs
    obtain ⟨m0, -, hf0⟩ := unacked_sliced_of_repr hf
    obtain ⟨-, -, o3, -⟩ := (hgood.sinv.send.chans ch sM hfM).1.find_ok hf0
    exact o3
  cases hb : a[i]? with
  | none => rw [List.getElem?_eq_none_iff] at hb; omega
  | some b =>
    cases b with
    | true => exact Or.inl rfl
    | false =>
      right
      refine src_slice_marked_only_by_ack cfg ops op g g' hg hg' hrg ch id i s hs ⟨m, n, k, nx, a, ls, hf, hb⟩ ?_
      rintro s' hs' ⟨m', n', k', nx', a', ls', hf', -⟩
      have := hout s' hs'
      simp only [RustSem.Map.contains_key, hf'] at this
      cases this

/-- **Channel memory is given back only through such a release** (generated code, one step of ANY kind).  The channel's
    `max_memory_usage_bytes` never changes, and if its `memory_usage_bytes` is smaller after the step (equivalently: the
    available memory rose), then the step is a `process_packet` of an Ack packet naming a recorded packet that carried some
    message `id` which was stored before and is not stored afterwards.  (Transports `C08.available_rises_only_on_release`
    and the memory clauses of the `…_never_releases` family.) -/
theorem src_memory_returned_only_by_ack (cfg : Cfg) (ops : List COp) (op : COp) (g g' : GConn)
    (hg : GConn.exec cfg ops = some g) (hg' : GConn.exec cfg (ops ++ [op]) = some g')
    (hrg : CRunInRange cfg (ops ++ [op])) (ch : Nat) (s : GSendRel)
    (hs : RustSem.Map.find? g.cl.send_reliable_channels ch = some s) :
    ∃ s', RustSem.Map.find? g'.cl.send_reliable_channels ch = some s' ∧
      s'.max_memory_usage_bytes = s.max_memory_usage_bytes ∧
      (s'.memory_usage_bytes < s.memory_usage_bytes →
        ∃ bytes id, op = .process bytes ∧ RustSem.Map.contains_key s.unacked_messages id = true ∧
          RustSem.Map.contains_key s'.unacked_messages id = false ∧ GAckNames g.cl bytes (GCarried ch id)) := by
  obtain ⟨t, t', mrs, mrs', hstep, hC, hC', hgood⟩ := cstep_split cfg ops op g g' hrg hg hg'
  rw [hC] at hs
  obtain ⟨sM, hfM, rfl⟩ := find_sendRel_repr hs
  obtain ⟨sM', hfM', hmax, hlt⟩ := mtr_step_mem hgood.sinv.send hgood.sinv.acksWF hstep hfM
  obtain ⟨sM2, hfM2, rel, -⟩ := mtr_step_release hgood.sinv.send hgood.sinv.acksWF hstep hfM
  rw [hfM'] at hfM2; cases hfM2
  refine ⟨reprSR sM', by rw [hC']; exact find_sendRel_repr_of hfM', hmax, ?_⟩
  intro hl
  obtain ⟨id, h1, h2⟩ := hlt hl
  obtain ⟨bytes, e, hG⟩ := gackNames_of (mrs := mrs) (rel id h1 h2) carried_of_names
  refine ⟨bytes, id, e, ?_, ?_, by rw [hC]; exact hG⟩
  · rw [contains_unacked_repr]
    cases hv : SMap.find? sM.unacked id with
    | none => exact absurd hv h1
    | some u => rfl
  · rw [contains_unacked_repr, h2]; rfl

/-! ## (1, the recorded packets) what `sent_packets` records was returned by a flush -/

/-- **Every entry of the generated `sent_packets` describes a datagram that a generated `get_packets_to_send` of the run
    returned** (so the Ack of `src_release_only_by_ack` names a packet that was really handed to the transport): in the generated
    state after ANY run, an entry `ps` under `seq` comes with a datagram `b` in the log of flush outputs which is the
    serialisation `Packet.enc p` of a packet `p` with sequence number `seq`, and `ps.info` is what `get_packets_to_send` records
    for `p` (`Conn.sentInfoOf`: `ReliableMessages ch (ids of the messages in p)` for a small reliable packet,
    `ReliableSliceMessage ch message_id slice_index` for a reliable slice packet).  (Transports
    `C08.flush_records_exactly_what_is_emitted` / `sent_table_only_shrinks_on_process` along the run.)

    `_partial`: the datagram is described by the MODEL serialiser (`Packet.enc`, proved equal to the generated `to_bytes`
    elsewhere) instead of being read back with the GENERATED decoder `GDecodes`.  Missing for that: the round trip
    `Packet.fromBytes (enc p) = p` needs `p.WF`, i.e. an invariant bounding the stored message lengths by
    `MAX_NUM_SLICES * SLICE_SIZE` and the channel ids by 256 along `MTr` runs, which `CRunInRange` does not provide. -/
theorem src_recorded_packet_was_emitted_partial (cfg : Cfg) (ops : List COp) (g : GConn) (hg : GConn.exec cfg ops = some g)
    (hrg : CRunInRange cfg ops) (seq : Nat) (ps : PacketSent) (hf : RustSem.Map.find? g.cl.sent_packets seq = some ps) :
    ∃ bs ∈ g.flushes, ∃ b ∈ bs, ∃ (p : Packet) (b0 : Bytes) (info : SentInfo),
      p.enc = .ok b0 ∧ b = toNats b0 ∧ p.sequence = seq ∧ Conn.sentInfoOf p = .ok info ∧ ps.info = reprInfo info := by
  obtain ⟨t, ht, sim⟩ := crun_sim_conv cfg ops g hrg hg
  obtain ⟨mrs, hC⟩ := sim.cl
  have hE := sentEmitted_run ops (MTr.init cfg) t (epGood_init cfg) hrg.2 ht (sentEmitted_init cfg)
  rw [hC, find_sent_repr] at hf
  cases hm : SMap.find? t.c.sent seq with
  | none => rw [hm] at hf; cases hf
  | some v =>
    obtain ⟨tm, info⟩ := v
    rw [hm] at hf; cases hf
    obtain ⟨bs, hbs, b, hb, p, henc, hseq, hinfo⟩ := hE seq tm info hm
    refine ⟨bs.map toNats, ?_, toNats b, List.mem_map_of_mem hb, p, b, info, henc, rfl, hseq, hinfo, rfl⟩
    rw [sim.flushes]; exact List.mem_map_of_mem hbs

/-! ## (1, whole traces) -/

/-- **C08 on the generated code, whole traces.**  If message `id` of channel `ch` is in the generated `unacked_messages` after
    the run `ops` and no longer after `ops ++ ext` (ANY operations `ext`), then `ext = ext1 ++ process bytes :: ext2` where, in
    the generated state `g1` reached after `ops ++ ext1`, the bytes decode to an `Ack` packet with a range containing a `seq`
    that the generated `sent_packets` of `g1` records as a packet that carried the message. -/
theorem src_release_trace (cfg : Cfg) : ∀ (ext ops : List COp) (g g' : GConn),
    GConn.exec cfg ops = some g → GConn.exec cfg (ops ++ ext) = some g' → CRunInRange cfg (ops ++ ext) →
    ∀ (ch id : Nat) (s : GSendRel), RustSem.Map.find? g.cl.send_reliable_channels ch = some s →
    RustSem.Map.contains_key s.unacked_messages id = true →
    (∀ s', RustSem.Map.find? g'.cl.send_reliable_channels ch = some s' →
      RustSem.Map.contains_key s'.unacked_messages id = false) →
    ∃ ext1 bytes ext2 g1, ext = ext1 ++ COp.process bytes :: ext2 ∧ GConn.exec cfg (ops ++ ext1) = some g1 ∧
      GAckNames g1.cl bytes (GCarried ch id)
  | [], ops, g, g', hg, hg', _, ch, id, s, hs, hin, hout => by
    rw [List.append_nil, hg] at hg'; cases hg'
    have := hout s hs
    rw [hin] at this; cases this
  | op :: ext, ops, g, g', hg, hg', hrg, ch, id, s, hs, hin, hout => by
    have eapp : ops ++ op :: ext = (ops ++ [op]) ++ ext := by simp
    rw [eapp] at hg' hrg
    have hrg1 := crunInRange_prefix cfg (ops ++ [op]) ext hrg
    -- the generated state after one more operation
    have hex := GConn.exec_append cfg (ops ++ [op]) ext
    rw [hg'] at hex
    cases hg1 : GConn.exec cfg (ops ++ [op]) with
    | none => rw [hg1] at hex; cases hex
    | some g1 =>
      obtain ⟨s1, hs1⟩ := src_send_channel_persists cfg ops op g g1 hg hg1 hrg1 ch s hs
      cases hc : RustSem.Map.contains_key s1.unacked_messages id with
      | false =>
        obtain ⟨bytes, e, hG⟩ := src_release_only_by_ack cfg ops op g g1 hg hg1 hrg1 ch id s hs hin
          (by intro s' hs'; rw [hs1] at hs'; cases hs'; exact hc)
        subst e
        exact ⟨[], bytes, ext, g, rfl, by rw [List.append_nil]; exact hg, hG⟩
      | true =>
        obtain ⟨ext1, bytes, ext2, g2, e, hg2, hG⟩ :=
          src_release_trace cfg ext (ops ++ [op]) g1 g' hg1 hg' hrg ch id s1 hs1 hc hout
        refine ⟨op :: ext1, bytes, ext2, g2, by rw [e]; rfl, ?_, hG⟩
        rw [← hg2]; congr 1; simp

/-! ## (2) pending acks ⊆ received -/

/-- **An endpoint never acknowledges a sequence number it did not receive** (generated code, whole traces).  In the generated
    state after ANY run `ops`, every number `x` covered by a range of the generated `pending_acks` is the sequence number
    (generated `Packet::sequence`) of a packet `p` that the generated `Packet::from_bytes` reads from the bytes of some
    `process_packet` call of the run.  (Transports `C08.pending_acks_only_received` / `pending_acks_unchanged_elsewhere`.) -/
theorem src_pending_acks_only_received (cfg : Cfg) (ops : List COp) (g : GConn) (hg : GConn.exec cfg ops = some g)
    (hrg : CRunInRange cfg ops) (x : Nat) (hx : ∃ r ∈ g.cl.pending_acks, r.start ≤ x ∧ x < r.«end») :
    ∃ bytes p, COp.process bytes ∈ ops ∧ GDecodes (toNats bytes) p ∧
      (Src.renet.packet.Packet.sequence p : Res Empty Nat) = .ok x := by
  obtain ⟨t, ht, sim⟩ := crun_sim_conv cfg ops g hrg hg
  obtain ⟨mrs, hC⟩ := sim.cl
  rw [hC] at hx
  rcases mtr_run_acks ops (MTr.init cfg) t (epGood_init cfg) ht x (mem_pendingAcks_repr hx) with h0 | ⟨bytes, p, hb, hp, e⟩
  · exact absurd h0 (by simp [MTr.init, Conn.fromChannels])
  · exact ⟨bytes, reprPacket p, hb, gdecodes_of_fromBytes hp, by rw [packet_sequence_eq, e]⟩

/-- … and the ranges of the generated `pending_acks` stay ascending, non-empty and non-adjacent in every reachable state -/
theorem src_pending_acks_wf (cfg : Cfg) (ops : List COp) (g : GConn) (hg : GConn.exec cfg ops = some g)
    (hrg : CRunInRange cfg ops) :
    List.Pairwise (fun (a b : RustSem.Range) => a.«end» < b.start) g.cl.pending_acks ∧
    ∀ r ∈ g.cl.pending_acks, r.start < r.«end» := by
  obtain ⟨t, ht, sim⟩ := crun_sim_conv cfg ops g hrg hg
  obtain ⟨mrs, hC⟩ := sim.cl
  have hw := (epGood_run ops _ t (epGood_init cfg) ht).sinv.acksWF
  rw [hC]
  simp only [reprConn]
  generalize t.c.pendingAcks = L at hw
  induction L with
  | nil => exact ⟨List.Pairwise.nil, fun _ h => by cases h⟩
  | cons r L ih =>
    obtain ⟨h1, h2, h3⟩ := Acks.wf_cons_iff.mp hw
    obtain ⟨i1, i2⟩ := ih h2
    refine ⟨?_, ?_⟩
    · rw [List.map_cons, List.pairwise_cons]
      refine ⟨?_, i1⟩
      intro b hb
      cases L with
      | nil => cases hb
      | cons r2 L2 =>
        have h4 : r.2 < r2.1 := h3 r2 rfl
        rw [List.map_cons, List.pairwise_cons] at i1
        rcases List.mem_cons.mp hb with rfl | hb
        · exact h4
        · have h5 := i1.1 b hb
          have h6 := i2 (ackR r2) (List.mem_cons_self ..)
          show r.2 < b.start
          have h7 : (ackR r2).«end» = r2.2 := rfl
          have h8 : (ackR r2).start = r2.1 := rfl
          omega
    · intro q hq
      rw [List.map_cons] at hq
      rcases List.mem_cons.mp hq with rfl | hq
      · exact h1
      · exact i2 q hq

/-! ## non-vacuity: traces executed by the kernel ON THE GENERATED CODE

  The configuration of `C08.Ex`: channel 0 ReliableOrdered (budget 10000 bytes, resend 100 ns), channel 1 Unreliable.
  Live phase `ops0`: a 3-byte message (id 0) and a 1201-byte message (id 1, two slices) are sent and flushed — the generated
  `sent_packets` then records packet 0 = slice 0 of id 1, packet 1 = slice 1 of id 1, packet 2 = the small message id 0.
  Then (`opsQ`): an Ack for sequence numbers never sent (`ackNone`), a non-Ack packet (`nonAck`), a clock step, a receive, one
  more send and a flush — NOTHING is released; then the matching Ack `ackSmall` (packet 2) releases id 0 (`opsR`); `ackSlice0`
  (packet 0) marks slice 0 of id 1 only (`opsS`); `ackSlice1` (packet 1) marks the last slice and releases id 1 (`opsT`).
  Separately: garbage after `ops0` releases nothing (and disconnects; after that even the matching Ack releases nothing). -/
namespace Ex
abbrev cfg : Cfg := ⟨60000, C08.Ex.cfg, C08.Ex.cfg⟩
abbrev ops0 : List COp := [.setConnected, .send 0 [1, 2, 3], .send 0 C08.Ex.big, .flush]
abbrev garbage : Bytes := [9, 9, 9]
/-- an Ack packet (own sequence 7) acknowledging the sequences 100 … 3999, never sent -/
abbrev ackNone : Bytes := C08.Ex.bytesOf (.ack 7 [(100, 4000)])
/-- a non-Ack packet (sequence 8): one unreliable message on channel 1 -/
abbrev nonAck : Bytes := C08.Ex.bytesOf (.smallUnreliable 8 1 [[5, 5]])
/-- acknowledges packet 2 (own sequence 0) -/
abbrev ackSmall : Bytes := C08.Ex.ackSmall
/-- acknowledges packet 0 (own sequence 1) -/
abbrev ackSlice0 : Bytes := C08.Ex.ackSlice0
/-- acknowledges packet 1 (own sequence 3) -/
abbrev ackSlice1 : Bytes := C08.Ex.bytesOf (.ack 3 [(1, 2)])
abbrev extQ : List COp := [.process ackNone, .process nonAck, .update 5, .recv 1, .send 0 [4], .flush]
abbrev opsQ : List COp := ops0 ++ extQ
abbrev opsR : List COp := opsQ ++ [.process ackSmall]
abbrev opsS : List COp := opsR ++ [.process ackSlice0]
abbrev opsT : List COp := opsS ++ [.process ackSlice1]

def gzero : GConn := ⟨reprConn (fun _ => 0) (Conn.fromChannels 0 [] []), [], []⟩
def g0 : GConn := (GConn.exec cfg ops0).getD gzero
def gQ : GConn := (GConn.exec cfg opsQ).getD gzero
def gR : GConn := (GConn.exec cfg opsR).getD gzero
def gS : GConn := (GConn.exec cfg opsS).getD gzero
def gT : GConn := (GConn.exec cfg opsT).getD gzero
/-- the generated reliable send channel 0 -/
def chan (g : GConn) : GSendRel := (RustSem.Map.find? g.cl.send_reliable_channels 0).getD ⟨0, [], 0, 0, 0, 0⟩
/-- the ids in its generated `unacked_messages` -/
def ids (g : GConn) : List Nat := (chan g).unacked_messages.map (·.1)

theorem inRange : CRunInRange cfg opsT := by decide +kernel
theorem run0 : GConn.exec cfg ops0 = some g0 := some_getD (by decide +kernel) _
theorem runQ : GConn.exec cfg opsQ = some gQ := some_getD (by decide +kernel) _
theorem runR : GConn.exec cfg opsR = some gR := some_getD (by decide +kernel) _
theorem runS : GConn.exec cfg opsS = some gS := some_getD (by decide +kernel) _
theorem runT : GConn.exec cfg opsT = some gT := some_getD (by decide +kernel) _
theorem chan0 : RustSem.Map.find? g0.cl.send_reliable_channels 0 = some (chan g0) := some_getD (by decide +kernel) _
theorem chanQ : RustSem.Map.find? gQ.cl.send_reliable_channels 0 = some (chan gQ) := some_getD (by decide +kernel) _
theorem chanR : RustSem.Map.find? gR.cl.send_reliable_channels 0 = some (chan gR) := some_getD (by decide +kernel) _
theorem chanS : RustSem.Map.find? gS.cl.send_reliable_channels 0 = some (chan gS) := some_getD (by decide +kernel) _
theorem chanT : RustSem.Map.find? gT.cl.send_reliable_channels 0 = some (chan gT) := some_getD (by decide +kernel) _

/-- **what the kernel computes on the generated code**: the recorded table after the first flush; the stored ids after the
    live phase, after the non-matching Ack / non-Ack packet / update / receive / send / flush (nothing released, id 2 added),
    after the matching Ack (id 0 released), after the Ack of packet 0 (nothing released), after the Ack of packet 1 (id 1
    released) -/
theorem gfacts :
    g0.cl.sent_packets.map (fun x => (x.1, x.2.info)) =
      [(0, .ReliableSliceMessage 0 1 0), (1, .ReliableSliceMessage 0 1 1), (2, .ReliableMessages 0 [0])] ∧
    ids g0 = [0, 1] ∧ ids gQ = [0, 1, 2] ∧ ids gR = [1, 2] ∧ ids gS = [1, 2] ∧ ids gT = [2] ∧
    gQ.cl.pending_acks = [⟨7, 9⟩] ∧ gT.cl.pending_acks = [⟨0, 2⟩, ⟨3, 4⟩, ⟨7, 9⟩] ∧
    gT.cl.connection_status = .Connected := by
  decide +kernel

/-- each single operation of `extQ`, applied right after the live phase, leaves both ids stored -/
example : ∀ op ∈ extQ, (GConn.exec cfg (ops0 ++ [op])).map ids = some (if op = .send 0 [4] then [0, 1, 2] else [0, 1]) := by
  decide +kernel

/-- garbage releases nothing (it disconnects: `PacketDeserialization`); afterwards even the matching Ack releases nothing -/
example : (GConn.exec cfg (ops0 ++ [.process garbage])).map (fun g => (ids g, g.cl.connection_status)) =
      some ([0, 1], .Disconnected (.PacketDeserialization .InvalidPacketType)) ∧
    (GConn.exec cfg (ops0 ++ [.process garbage, .process ackSmall])).map ids = some [0, 1] := by
  decide +kernel

theorem gone_of {m : RustSem.Map GSendRel} {ch id : Nat}
    (h : (RustSem.Map.find? m ch).map (fun s => RustSem.Map.contains_key s.unacked_messages id) = some false) :
    ∀ s', RustSem.Map.find? m ch = some s' → RustSem.Map.contains_key s'.unacked_messages id = false := by
  intro s' hs'; rw [hs'] at h; exact Option.some.inj h

/-- **`src_release_only_by_ack` applied** to the step `opsQ → opsR` (hypotheses: id 0 stored in `gQ`, not in `gR`): the step is
    a `process_packet` of an Ack naming a recorded packet that carried message 0 -/
example : ∃ bytes, COp.process ackSmall = .process bytes ∧ GAckNames gQ.cl bytes (GCarried 0 0) :=
  src_release_only_by_ack cfg opsQ (.process ackSmall) gQ gR runQ runR (crunInRange_prefix cfg opsR _ inRange) 0 0 (chan gQ) chanQ
    (by decide +kernel) (gone_of (by decide +kernel))

/-- … and to the step `opsS → opsT` (the sliced message 1 leaves) -/
example : ∃ bytes, COp.process ackSlice1 = .process bytes ∧ GAckNames gS.cl bytes (GCarried 0 1) :=
  src_release_only_by_ack cfg opsS (.process ackSlice1) gS gT runS runT inRange 0 1 (chan gS) chanS
    (by decide +kernel) (gone_of (by decide +kernel))

/-- **`src_send_channel_persists` applied** -/
example : ∃ s', RustSem.Map.find? gR.cl.send_reliable_channels 0 = some s' :=
  src_send_channel_persists cfg opsQ (.process ackSmall) gQ gR runQ runR (crunInRange_prefix cfg opsR _ inRange) 0 (chan gQ) chanQ

theorem entryR : RustSem.Map.find? (chan gR).unacked_messages 1 =
    some (.Sliced (toNats C08.Ex.big) 2 0 2 [false, false] [some 0, some 0]) := by decide +kernel
theorem entryS : RustSem.Map.find? (chan gS).unacked_messages 1 =
    some (.Sliced (toNats C08.Ex.big) 2 1 2 [true, false] [some 0, some 0]) := by decide +kernel

/-- **`src_slice_marked_only_by_ack` applied** to the step `opsR → opsS`: slice 0 of message 1 pending in `gR`, not in `gS`
    (while slice 1 stays pending and the message stays stored, `gfacts`) -/
example : ∃ bytes, COp.process ackSlice0 = .process bytes ∧
    GAckNames gR.cl bytes (fun info => info = .ReliableSliceMessage 0 1 0) := by
  refine src_slice_marked_only_by_ack cfg opsR (.process ackSlice0) gR gS runR runS (crunInRange_prefix cfg opsS _ inRange) 0 1 0
    (chan gR) chanR ⟨_, _, _, _, _, _, entryR, rfl⟩ ?_
  rintro s' hs' ⟨m, n, k, nx, a, ls, hf, ha⟩
  rw [chanS] at hs'; cases hs'
  rw [entryS] at hf; cases hf; cases ha
example : GPending (chan gS) 1 1 := ⟨_, _, _, _, _, _, entryS, rfl⟩

/-- **`src_sliced_release_needs_every_slice` applied** to the step `opsS → opsT`: slice 0 was marked before, slice 1 is named by
    this Ack -/
example : ∀ i, i < 2 → [true, false][i]? = some true ∨
    ∃ bytes, COp.process ackSlice1 = .process bytes ∧ GAckNames gS.cl bytes (fun info => info = .ReliableSliceMessage 0 1 i) :=
  fun i hi => src_sliced_release_needs_every_slice cfg opsS (.process ackSlice1) gS gT runS runT inRange 0 1 (chan gS) chanS
    _ 2 1 2 [true, false] _ entryS (gone_of (by decide +kernel)) i hi

/-- **`src_memory_returned_only_by_ack` applied** to the step `opsQ → opsR`: the generated `memory_usage_bytes` of channel 0
    drops from 1205 to 1202 (the 3 bytes of message 0), the budget stays 10000 -/
example : (chan gQ).memory_usage_bytes = 1205 ∧ (chan gR).memory_usage_bytes = 1202 ∧
    (chan gR).max_memory_usage_bytes = 10000 := by decide +kernel
example : ∃ s', RustSem.Map.find? gR.cl.send_reliable_channels 0 = some s' ∧
    s'.max_memory_usage_bytes = (chan gQ).max_memory_usage_bytes ∧
    (s'.memory_usage_bytes < (chan gQ).memory_usage_bytes →
      ∃ bytes id, COp.process ackSmall = .process bytes ∧ RustSem.Map.contains_key (chan gQ).unacked_messages id = true ∧
        RustSem.Map.contains_key s'.unacked_messages id = false ∧ GAckNames gQ.cl bytes (GCarried 0 id)) :=
  src_memory_returned_only_by_ack cfg opsQ (.process ackSmall) gQ gR runQ runR (crunInRange_prefix cfg opsR _ inRange) 0
    (chan gQ) chanQ

/-- **`src_recorded_packet_was_emitted_partial` applied** to the entry under sequence number 2 of `gQ` (the small packet that
    carried message 0; the Ack `ackSmall` names it) -/
example : ∃ bs ∈ gQ.flushes, ∃ b ∈ bs, ∃ (p : Packet) (b0 : Bytes) (info : SentInfo),
    p.enc = .ok b0 ∧ b = toNats b0 ∧ p.sequence = 2 ∧ Conn.sentInfoOf p = .ok info ∧
      (⟨0, .ReliableMessages 0 [0]⟩ : PacketSent).info = reprInfo info :=
  src_recorded_packet_was_emitted_partial cfg opsQ gQ runQ (crunInRange_prefix cfg opsQ _ inRange) 2 _ (by decide +kernel)

/-- **`src_release_trace` applied** to the whole extension after the live phase: message 0 (stored in `g0`, gone in `gT`) was
    released by a `process_packet` inside it -/
example : ∃ ext1 bytes ext2 g1, extQ ++ [.process ackSmall, .process ackSlice0, .process ackSlice1] =
      ext1 ++ COp.process bytes :: ext2 ∧ GConn.exec cfg (ops0 ++ ext1) = some g1 ∧ GAckNames g1.cl bytes (GCarried 0 0) :=
  src_release_trace cfg _ ops0 g0 gT run0 runT inRange 0 0 (chan g0) chan0 (by decide +kernel) (gone_of (by decide +kernel))

/-- **`src_pending_acks_only_received` applied**: 8 is pending in `gT` — it is the sequence number of `nonAck` -/
example : ∃ bytes p, COp.process bytes ∈ opsT ∧ GDecodes (toNats bytes) p ∧
    (Src.renet.packet.Packet.sequence p : Res Empty Nat) = .ok 8 :=
  src_pending_acks_only_received cfg opsT gT runT inRange 8 ⟨⟨7, 9⟩, by decide +kernel, by decide, by decide⟩
example : List.Pairwise (fun (a b : RustSem.Range) => a.«end» < b.start) gT.cl.pending_acks ∧
    ∀ r ∈ gT.cl.pending_acks, r.start < r.«end» := src_pending_acks_wf cfg opsT gT runT inRange

end Ex

end RenetVerif.SrcPropsConnTraceC08
