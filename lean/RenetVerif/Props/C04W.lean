/-
  C04 over WHOLE SERVER RUNS, the window itself (closes the "NOT covered here" point of `Props/C04H.lean`; server-side analogue
  of `Props/C04C.lean`, `client_window_is_recv_window`).  Model level; proofs: `Lemmas/NcSessionWindow.lean`.

  A run: `NS.ReachT a s tr` (any list of `NS.step` operations from an empty server, `tr` = (operation, result) list).
  Ghost list: `NS.addrBufs ad tr` — a function of the trace alone: the datagrams of the `process_packet` calls from address `ad`
  that were long enough to reach `Packet::decode`, oldest first, since the last call from `ad` that was answered with
  `PacketToSend` (from a source address that happens exactly when a connection request is answered with a challenge — the half-open
  session of `ad` is (re)created with a NEW window — or a request / response is denied — the half-open session of `ad` is
  dropped).  For an address that has a session, half-open or connected, this is the list of datagrams that reached `decode`
  under that session's receive key since its half-open entry was created (`addrBufs_mem`, `addrBufs_packet`).

    (1) `session_window_is_recv_window`   every occupied slot:  stored window = `(Recv.run a proto c.receiveKey (addrBufs c.addr tr)).window`
        `pending_window_is_recv_window`   every half-open session: the same with the address it is stored under;
    (2) `session_payloads_are_recv_results`  the payloads surfaced in the current session of a connected id are, in order, among the
                                          `Recv.run` results; `session_window_inv`: `RP.Inv` with the ghost list `accepted` of that run,
                                          every accepted sequence number carried by one of the ghost datagrams that opened under the key;
    (3) `session_payload_once`            `C04H.session_payload_once` RE-DERIVED from `C04.payload_at_most_once`;
    (4) `genuine_accepted_after_run`      the converse clause of C04 over whole runs: after ANY run, a genuine payload datagram
                                          (`sealedBytes` under the slot's receive key) whose sequence number was not accepted before
                                          (`…_first_time`: that no ghost datagram carried) and is less than 256 behind the newest one IS
                                          surfaced by `process_packet`, attributed to that client, and joins the session's payloads.
  Excluded point as in C04: sequence number `2^64-1` (`C04.sentinel_collision`) in (3).
-/
import RenetVerif.Lemmas.NcSessionWindow
import RenetVerif.Props.C04H
import RenetVerif.Props.C04C
set_option linter.unusedVariables false
set_option linter.unusedSimpArgs false
namespace RenetVerif.C04W
open RenetVerif RenetVerif.Netcode RenetVerif.Netcode.NS RenetVerif.Netcode.Packet RenetVerif.NcClientTrace

/-! ## the ghost list -/

/-- how the ghost list of `ad` moves with one `process_packet` call (no other operation moves it, `addrBufs_other`) -/
theorem addrBufs_packet (ad : Addr) (tr : Trace) (ad' : Addr) (buf : Bytes) (r : ServerResult) :
    addrBufs ad (tr ++ [(.packet ad' buf, r)]) =
      if ad' = ad then (if isToSend r then [] else addrBufs ad tr ++ dg buf) else addrBufs ad tr :=
  addrBufs_snoc_packet ad tr ad' buf r

theorem addrBufs_other (ad : Addr) (tr : Trace) {op : Op} (r : ServerResult) (hop : ∀ ad' buf, op ≠ .packet ad' buf) :
    addrBufs ad (tr ++ [(op, r)]) = addrBufs ad tr :=
  addrBufs_snoc_other ad tr r hop

theorem mem_foldl_bufStep (ad : Addr) : ∀ (tr : Trace) (L : List Bytes) (b : Bytes), b ∈ tr.foldl (bufStep ad) L →
    b ∈ L ∨ ∃ r, (Op.packet ad b, r) ∈ tr ∧ isToSend r = false ∧ ¬ b.length < 2 + C.NETCODE_MAC_BYTES := by
  intro tr
  induction tr with
  | nil => intro L b h; exact Or.inl h
  | cons x tr ih =>
    intro L b h
    rw [List.foldl_cons] at h
    have h' := ih _ b h
    clear h
    rcases h' with h | ⟨r, hm, hr⟩
    · obtain ⟨op, r⟩ := x
      cases op with
      | packet ad' buf =>
        have e : bufStep ad L (Op.packet ad' buf, r) =
            if ad' = ad then (if isToSend r then [] else L ++ dg buf) else L := rfl
        rw [e] at h
        clear e
        by_cases he : ad' = ad
        · subst he
          rw [if_pos rfl] at h
          cases hts : isToSend r with
          | true => rw [hts, if_pos rfl] at h; cases h
          | false =>
            rw [hts, if_neg (by simp)] at h
            rcases List.mem_append.mp h with h | h
            · exact Or.inl h
            · unfold dg at h
              by_cases hlen : buf.length < 2 + C.NETCODE_MAC_BYTES
              · rw [if_pos hlen] at h; cases h
              · rw [if_neg hlen, List.mem_singleton] at h
                subst h
                exact Or.inr ⟨r, List.mem_cons_self, hts, hlen⟩
        · rw [if_neg he] at h; exact Or.inl h
      | _ => exact Or.inl h
    · exact Or.inr ⟨r, List.mem_cons_of_mem _ hm, hr⟩

/-- every ghost datagram of `ad` was handed to `process_packet` from `ad` in this run, was long enough for `decode`, and was not
    answered with `PacketToSend` -/
theorem addrBufs_mem {ad : Addr} {tr : Trace} {b : Bytes} (h : b ∈ addrBufs ad tr) :
    ∃ r, (Op.packet ad b, r) ∈ tr ∧ isToSend r = false ∧ ¬ b.length < 2 + C.NETCODE_MAC_BYTES := by
  rcases mem_foldl_bufStep ad tr [] b h with h | h
  · cases h
  · exact h

/-! ## (1) the stored window IS the receive-side window -/

/-- **the stored window of a connected session, after any run** -/
theorem session_window_is_recv_window {a : AEAD} {s : NetcodeServer} {tr : Trace} (h : ReachT a s tr) {i : Nat}
    {c : Connection} (hc : At s.clients i c) :
    c.replayProtection = (Recv.run a s.protocolId c.receiveKey (addrBufs c.addr tr)).window :=
  (h.winInv.slot i c hc).1

/-- **the stored window of a half-open session, after any run** (a connected session starts with this window) -/
theorem pending_window_is_recv_window {a : AEAD} {s : NetcodeServer} {tr : Trace} (h : ReachT a s tr)
    {x : Addr × Connection} (hx : x ∈ s.pendingClients) :
    x.2.replayProtection = (Recv.run a s.protocolId x.2.receiveKey (addrBufs x.1 tr)).window :=
  h.winInv.pend x.1 x.2 (pendFind_of_mem_nodup h.inv.pendKeys hx)

/-! ## (2) the session's payloads are `Recv.run` results -/

theorem session_payloads_are_recv_results {a : AEAD} {s : NetcodeServer} {tr : Trace} (h : ReachT a s tr) {i : Nat}
    {c : Connection} (hc : At s.clients i c) :
    ((sessPayloads c.clientId tr).map asSurf).Sublist
      (Recv.run a s.protocolId c.receiveKey (addrBufs c.addr tr)).surfaced :=
  (h.winInv.slot i c hc).2

/-- the window invariant with the ghost list of THE run (`C04H.session_window` gave it for some ghost list); every accepted
    sequence number was carried by a ghost datagram — one handed to `process_packet` from the session's address — that opened
    under the session's receive key -/
theorem session_window_inv {a : AEAD} {s : NetcodeServer} {tr : Trace} (h : ReachT a s tr) {i : Nat}
    {c : Connection} (hc : At s.clients i c) :
    RP.Inv c.replayProtection (Recv.run a s.protocolId c.receiveKey (addrBufs c.addr tr)).accepted ∧
    ∀ sq ∈ (Recv.run a s.protocolId c.receiveKey (addrBufs c.addr tr)).accepted,
      ∃ buf ty plain r, (Op.packet c.addr buf, r) ∈ tr ∧ wireSeq buf = sq ∧
        SealedOpen a buf s.protocolId c.receiveKey ty plain := by
  refine ⟨?_, fun sq hsq => ?_⟩
  · rw [session_window_is_recv_window h hc]
    exact C04.run_window_inv a _ _ _
  · obtain ⟨buf, ty, plain, hb, hs, hso⟩ := C04.accepted_only_if_presented hsq
    obtain ⟨r, hm, _, _⟩ := addrBufs_mem hb
    exact ⟨buf, ty, plain, r, hm, hs, hso⟩

/-! ## (3) at most once, from `C04.payload_at_most_once` -/

theorem seqsOf_eq (L : List (Bytes × Bytes)) : seqsOf L = protectedSeqs (L.map asSurf) :=
  (C04C.protectedSeqs_asSurf L).symm

/-- **At most once per session, after any run** — `C04H.session_payload_once`, here as a COROLLARY of the run-of-`decode`
    theorem `C04.payload_at_most_once`: the payloads of the current session of any id are among the results of one `Recv.run`. -/
theorem session_payload_once {a : AEAD} {s : NetcodeServer} {tr : Trace} (h : ReachT a s tr) (id : Nat) :
    (seqsOf (sessPayloads id tr)).Nodup := by
  obtain ⟨key, bufs, hsub⟩ := h.winInv.surf id
  rw [seqsOf_eq]
  have hs : (protectedSeqs ((sessPayloads id tr).map asSurf)).Sublist
      (protectedSeqs (Recv.run a s.protocolId key bufs).surfaced) := by
    unfold protectedSeqs
    exact (hsub.filter _).map _
  exact hs.nodup (C04.payload_at_most_once a s.protocolId key bufs)

/-- … and every surfaced sequence number is now rejected by the stored window (from the `Recv.run` side) -/
theorem session_surfaced_rejected {a : AEAD} {s : NetcodeServer} {tr : Trace} (h : ReachT a s tr) {i : Nat}
    {c : Connection} (hc : At s.clients i c) :
    ∀ sq ∈ seqsOf (sessPayloads c.clientId tr), c.replayProtection.alreadyReceived sq = true := by
  intro sq hsq
  have hne : sq ≠ 2 ^ 64 - 1 := (mem_seqsOf.mp hsq).2
  rw [seqsOf_eq] at hsq
  have hs : (protectedSeqs ((sessPayloads c.clientId tr).map asSurf)).Sublist
      (protectedSeqs (Recv.run a s.protocolId c.receiveKey (addrBufs c.addr tr)).surfaced) := by
    unfold protectedSeqs
    exact ((session_payloads_are_recv_results h hc).filter _).map _
  have hacc := (Recv.good_run a s.protocolId c.receiveKey (addrBufs c.addr tr)).sub sq (hs.subset hsq)
  exact C04.no_reaccept (session_window_inv h hc).1 hacc hne

/-! ## (4) the converse clause over whole runs -/

/-- **A genuine, not yet accepted, in-window payload datagram IS surfaced, after any run.**  `c` occupies slot `i` after the run
    `tr`; `seq` was not accepted by the receive side of the session's ghost datagrams and is less than 256 behind the newest
    accepted one.  Then `process_packet(c.addr, sealedBytes (Payload p) seq c.receiveKey)` returns `Payload(c.clientId, p)`, the run
    continues with it, the datagram joins the payloads of the session, and the slot holds the session with the window advanced. -/
theorem genuine_accepted_after_run (a : AEAD) (hl : a.Laws) {s : NetcodeServer} {tr : Trace} (h : ReachT a s tr) {i : Nat}
    {c : Connection} (hc : At s.clients i c) (p : Bytes) {seq : Nat} (hs : seq < 2 ^ 64)
    (hfresh : seq ∉ (Recv.run a s.protocolId c.receiveKey (addrBufs c.addr tr)).accepted)
    (hw : c.replayProtection.mostRecent < seq + 256) :
    let d := sealedBytes a (.payload p) s.protocolId seq c.receiveKey
    let s' := NetcodeServer.setClient s i (some (c.received (c.replayProtection.advance seq) s.currentTime))
    step a s (.packet c.addr d) = some (.payload c.clientId p, s') ∧
    ReachT a s' (tr ++ [(.packet c.addr d, .payload c.clientId p)]) ∧
    sessPayloads c.clientId (tr ++ [(.packet c.addr d, .payload c.clientId p)]) = (d, p) :: sessPayloads c.clientId tr := by
  intro d s'
  have hf : findClientByAddr s.clients c.addr = some (i, c) := h.inv.slots.findAddr_iff.mpr ⟨rfl, hc⟩
  have hfr : c.replayProtection.alreadyReceived seq = false := C04.fresh_accept (session_window_inv h hc).1 hfresh hw
  have hpp := C04.server_genuine_accepted a hl s c.addr hf (h.inv.slots.conn i c hc) p hs hfr
  have hstep : step a s (.packet c.addr d) = some (.payload c.clientId p, s') := by
    simp only [step]
    rw [hpp]
  refine ⟨hstep, .step h hstep, ?_⟩
  rw [sessPayloads_snoc, sessStep_payload, if_pos rfl]

/-- … "first time": it suffices that no datagram handed to `process_packet` from the session's address since the half-open
    session was created carried that sequence number -/
theorem genuine_accepted_first_time (a : AEAD) (hl : a.Laws) {s : NetcodeServer} {tr : Trace} (h : ReachT a s tr) {i : Nat}
    {c : Connection} (hc : At s.clients i c) (p : Bytes) {seq : Nat} (hs : seq < 2 ^ 64)
    (hfirst : ∀ b ∈ addrBufs c.addr tr, wireSeq b ≠ seq)
    (hw : c.replayProtection.mostRecent < seq + 256) :
    ∃ s', step a s (.packet c.addr (sealedBytes a (.payload p) s.protocolId seq c.receiveKey)) =
      some (.payload c.clientId p, s') :=
  ⟨_, (genuine_accepted_after_run a hl h hc p hs (C04.not_accepted_of_not_presented hfirst) hw).1⟩

/-! ### non-vacuity: the model run of `Props/C04H.lean` (example world `Lemmas/NcExamples.lean`, toy AEAD `Ex.a`)

  request (answered with a challenge: `PacketToSend`, the ghost list of `addrA` restarts), response (decoded under the half-open
  session's key; → `ClientConnected 11`), payload seq 2, its replay, a hostile datagram, payload seq 3, a modified copy of the
  seq-2 datagram, `update_client`, a payload to the client. -/
section Examples
open Ex C04H

theorem exA_laws : Ex.a.Laws := by
  have hlen : ∀ (t c p : Bytes), t.length = 16 → (if c.length < 16 then none
      else if c.drop (c.length - 16) = t then some (c.take (c.length - 16)) else none) = some p →
      p.length + 16 = c.length := by
    intro t c p _ h
    by_cases hc : c.length < 16
    · simp [hc] at h
    · simp only [hc, if_false] at h
      split at h
      · cases h; simp [List.length_take]; omega
      · cases h
  refine ⟨?_, ?_, ?_, ?_, ?_, ?_⟩
  · intro k n ad p; simp [Ex.a]
  · intro k n ad p; simp [Ex.a]
  · intro k n ad c p h; exact hlen _ c p (by simp) h
  · intro k n ad p; simp [Ex.a]
  · intro k n ad p; simp [Ex.a]
  · intro k n ad c p h; exact hlen _ c p (by simp) h

def exResults : List ServerResult :=
  [.packetToSend addrA chalA, .clientConnected 11 addrA udA kaA, .payload 11 [1, 2, 3], .none, .none,
   .payload 11 [4, 5], .none, .none, .packetToSend addrA (21 :: 1 :: ([9, 9] ++ List.replicate 16 0))]

/-- the ghost list of `addrA` after that run: everything from `addrA` since the challenge went out -/
def exBufs : List Bytes := [respA, payFromA, payFromA, hostile, pay3, pay2']

theorem ex_bufs : addrBufs addrA (exOps.zip exResults) = exBufs := by decide +kernel

/-- the slot of `addrA` in the final state of the run (kernel-executed) -/
theorem ex_final : (runT Ex.a s0 exOps).map (fun x =>
      ((findClientByAddr x.2.clients addrA).map (fun y => (y.2.clientId, y.2.receiveKey, y.2.replayProtection.mostRecent)),
        x.2.protocolId)) = some (some (11, kc2s, 3), 42) := by decide +kernel

/-- the receive side of the ghost list accepted the sequence numbers 2 and 3 (the response is not replay-protected) -/
theorem ex_accepted : (Recv.run Ex.a 42 kc2s exBufs).accepted = [3, 2] := by decide +kernel

theorem ex_slot : ∃ tr s i c, ReachT Ex.a s tr ∧ tr = exOps.zip exResults ∧ At s.clients i c ∧ c.addr = addrA ∧
    c.clientId = 11 ∧ c.receiveKey = kc2s ∧ c.replayProtection.mostRecent = 3 ∧ s.protocolId = 42 := by
  obtain ⟨tr, s, hrun, hr, he⟩ := ex_trace
  have h := ex_final
  rw [hrun] at h
  simp only [Option.map_some, Option.some.injEq, Prod.mk.injEq] at h
  obtain ⟨h, hp⟩ := h
  cases hf : findClientByAddr s.clients addrA with
  | none => rw [hf] at h; cases h
  | some y =>
    obtain ⟨i, c⟩ := y
    rw [hf] at h
    simp only [Option.map_some, Option.some.injEq, Prod.mk.injEq] at h
    exact ⟨tr, s, i, c, hr, he, (findAddr_some hf).1, (findAddr_some hf).2, h.1, h.2.1, h.2.2, hp⟩

/-- `session_window_is_recv_window`, `session_window_inv` on that run: the window stored in the slot of id 11 is the `Recv.run`
    window of the six ghost datagrams, whose accepted list is `[3, 2]` -/
example : ∃ tr s i c, ReachT Ex.a s tr ∧ At s.clients i c ∧ c.clientId = 11 ∧ addrBufs c.addr tr = exBufs ∧
    c.replayProtection = (Recv.run Ex.a 42 kc2s exBufs).window ∧ RP.Inv c.replayProtection [3, 2] := by
  obtain ⟨tr, s, i, c, hr, he, hc, had, hid, hk, hm, hp⟩ := ex_slot
  have hb : addrBufs c.addr tr = exBufs := by rw [had, he]; exact ex_bufs
  have hw := session_window_is_recv_window hr hc
  have hi := (session_window_inv hr hc).1
  rw [hb, hk, hp] at hw hi
  rw [ex_accepted] at hi
  exact ⟨tr, s, i, c, hr, hc, hid, hb, hw, hi⟩

/-- `session_payload_once`, `session_surfaced_rejected` on that run -/
example : ∃ tr s i c, ReachT Ex.a s tr ∧ At s.clients i c ∧ seqsOf (sessPayloads c.clientId tr) = [3, 2] ∧
    (seqsOf (sessPayloads c.clientId tr)).Nodup ∧ c.replayProtection.alreadyReceived 3 = true ∧
    c.replayProtection.alreadyReceived 2 = true := by
  obtain ⟨tr, s, i, c, hr, he, hc, had, hid, hk, hm, hp⟩ := ex_slot
  have hL : seqsOf (sessPayloads c.clientId tr) = [3, 2] := by rw [hid, he]; decide +kernel
  have hrej := session_surfaced_rejected hr hc
  rw [hL] at hrej
  exact ⟨tr, s, i, c, hr, hc, hL, session_payload_once hr _, hrej 3 (by simp), hrej 2 (by simp)⟩

/-- `genuine_accepted_after_run` on that run: after request, response, payloads, a replay, a forgery and a modified copy, the
    genuine payload datagram with the fresh sequence number 4 IS surfaced, and the session then has the payloads of 4, 3, 2 -/
example : ∃ (tr : Trace) (s s' : NetcodeServer) (c : Connection), ReachT Ex.a s tr ∧ c.clientId = 11 ∧
    step Ex.a s (.packet addrA (sealedBytes Ex.a (.payload [7]) 42 4 kc2s)) = some (.payload 11 [7], s') ∧
    ReachT Ex.a s' (tr ++ [(.packet addrA (sealedBytes Ex.a (.payload [7]) 42 4 kc2s), .payload 11 [7])]) ∧
    seqsOf (sessPayloads 11 (tr ++ [(.packet addrA (sealedBytes Ex.a (.payload [7]) 42 4 kc2s), .payload 11 [7])])) = [4, 3, 2] := by
  obtain ⟨tr, s, i, c, hr, he, hc, had, hid, hk, hm, hp⟩ := ex_slot
  have hb : addrBufs c.addr tr = exBufs := by rw [had, he]; exact ex_bufs
  have hfresh : 4 ∉ (Recv.run Ex.a s.protocolId c.receiveKey (addrBufs c.addr tr)).accepted := by
    rw [hb, hk, hp, ex_accepted]; decide
  obtain ⟨h1, h2, h3⟩ := genuine_accepted_after_run Ex.a exA_laws hr hc [7] (seq := 4) (by decide) hfresh (by rw [hm]; decide)
  rw [had, hid, hk, hp] at h1 h2 h3
  refine ⟨tr, s, _, c, hr, hid, h1, h2, ?_⟩
  rw [h3, he]
  decide +kernel

/-- `pending_window_is_recv_window` on a run: a request, then a payload datagram while the session is still half-open — it is
    decoded under the half-open session's key and moves ITS window (the window the connected session would start with) -/
def pendOps : List Op := [.packet addrA reqA, .packet addrA payFromA]

theorem pend_results : (runT Ex.a s0 pendOps).map (fun x => x.1.map (·.2)) =
    some [.packetToSend addrA chalA, .none] := by decide +kernel

theorem pend_final : (runT Ex.a s0 pendOps).map (fun x =>
      (x.2.pendingClients.map (fun y => (decide (y.1 = addrA), y.2.receiveKey, y.2.replayProtection.mostRecent)),
        x.2.protocolId)) = some ([(true, kc2s, 2)], 42) := by decide +kernel

example : ∃ tr s x, ReachT Ex.a s tr ∧ x ∈ s.pendingClients ∧ x.1 = addrA ∧ addrBufs x.1 tr = [payFromA] ∧
    x.2.replayProtection = (Recv.run Ex.a 42 kc2s [payFromA]).window ∧ x.2.replayProtection.mostRecent = 2 := by
  have h := pend_final
  have h1 := pend_results
  cases hr : runT Ex.a s0 pendOps with
  | none => rw [hr] at h; cases h
  | some y =>
    obtain ⟨tr, s⟩ := y
    rw [hr] at h h1
    simp only [Option.map_some, Option.some.injEq, Prod.mk.injEq] at h h1
    obtain ⟨h2, h3⟩ := h
    have hreach := reachT_runT pendOps (ReachT.init (a := Ex.a) s0_empty) hr
    rw [List.nil_append] at hreach
    have hz := runT_zip pendOps hr
    rw [h1] at hz
    cases hp : s.pendingClients with
    | nil => rw [hp] at h2; cases h2
    | cons x rest =>
      rw [hp] at h2
      simp only [List.map_cons, List.cons.injEq, Prod.mk.injEq] at h2
      obtain ⟨⟨e1, e2, e3⟩, _⟩ := h2
      have e1 : x.1 = addrA := by simpa using e1
      have hx : x ∈ s.pendingClients := by rw [hp]; exact List.mem_cons_self
      have hb : addrBufs x.1 tr = [payFromA] := by rw [e1, hz]; decide +kernel
      have hw := pending_window_is_recv_window hreach hx
      rw [hb, e2, h3] at hw
      exact ⟨tr, s, x, hreach, hx, e1, hb, hw, e3⟩

end Examples

end RenetVerif.C04W
