/-
  C20F — THE FULL STACK, ABOUT THE GENERATED CODE.

  `GFS` (`Lemmas/SrcEquiv/SrcFullStack.lean`) is the system of `Props/C20F.lean` with GENERATED transports
  (`NetcodeClientTransport`, `NetcodeServerTransport`, each holding the generated `NetcodeClient` / `NetcodeServer`, a model socket
  and its receive buffer), a generated `RenetClient` and a generated `RenetServer`; all 14 operations `FSOp` are executed through
  generated functions only (`GFS.step`), with the AEAD `aeadOf a`.  `g0.run a cid ops = some g`: every generated call of the run
  returned normally.  `g.subC`, `g.subCU`, `g.obtS` (client → server) and `g.subS`, `g.subSU`, `g.obtC` (server → client) are
  the ghost logs of `C20F`, as `List Nat` byte strings.

  Hypotheses of every theorem:
  * `Established cfg cid fs0`, `FSGood fs0`, `SimFS fs0 g0` — the generated start state `g0` REPRESENTS an established model
    session `fs0` that satisfies the model invariants (`FSGood`: renet invariants of both endpoints, `CliInv`, `NS.ServerInv`);
    `gOf fs0` is such a `g0` (`simFS_gOf`).
  * `NoForgeryRunD`, `SingleSessionRun` — as in C20F, stated on the MODEL run of `ops.map cutOp` (the operations with every
    inbox cut to the transport's receive buffer, which is what the generated `recv_from` does); the model run is the one
    related to the generated run by the simulation (`SrcFullStack.frun_sim_conv`).
  * `GCountersUp` / `GCountersDown` — C20F's counter conditions read off the generated final state.
  * `FSRunOK a cid fs0 ops` — DECIDABLE: before every operation (along the model run) the range condition `FSOpInRange`
    (endpoint(s) of an application-level call in `ConnInRange`, messages `< 2^63` bytes, clocks within `Duration::MAX`,
    fewer than `2^64 - 1` queued datagrams) and, for the five transport calls, the LOCAL condition `OpLocalOk` of that one
    call (`Props/SrcTieTrLocal.lean`: `ConnInRange` at every model state the glue loop of the call reaches where a renet
    `process_packet(_from)` / `get_packets_to_send` is made).  It holds of live sessions with pending acks (checked by
    `decide +kernel` below) — unlike the run-closed range predicate of `SrcTieTrClosed.lean`, see `SrcTieTrLocal.lean`.
  The non-vacuity section applies the theorems to the runs of `C20F.Ex` / `C20F.ExU` (all hypotheses discharged, `FSGood fs0`
  derived through the handshake) and, independently, evaluates the generated full stack in the kernel.
-/
import RenetVerif.Lemmas.SrcEquiv.SrcFullStack
import RenetVerif.Props.C20F
set_option maxRecDepth 100000
namespace RenetVerif.SrcPropsFullStack
open RenetVerif C RenetVerif.System RenetVerif.Netcode RenetVerif.Transport RenetVerif.FullStack
open RenetVerif.SrcEquiv RenetVerif.SrcSystem RenetVerif.SrcMulti RenetVerif.SrcFullStack

/-- **C01 over the full stack, generated code.**  After every run of the generated full stack from (the representation of)
    an established session: on every ReliableOrdered client → server channel the messages the generated `RenetServer` handed
    to the server's application for this client are a prefix of what the client's application submitted to the generated
    `RenetClient`, and the same for every ReliableOrdered server → client channel; whatever the adversary puts into the
    sockets. -/
theorem src_full_stack_ordered_prefix (a : AEAD) (hl : a.Laws) (cfg : Cfg) (cid : Nat) (fs0 : FS) (g0 g : GFS) (ops : List FSOp)
    (he : Established cfg cid fs0) (hgood : FSGood fs0) (hsim : SimFS fs0 g0) (hr : g0.run a cid ops = some g)
    (hok : FSRunOK a cid fs0 ops) (hnf : NoForgeryRunD a cid fs0 (ops.map cutOp))
    (hss : SingleSessionRun a cid fs0 (ops.map cutOp)) :
    (GCountersUp cfg g → ∀ ch, cfg.Ordered ch → g.obtS ch <+: g.subC ch) ∧
    (GCountersDown cfg g → ∀ ch, (Cfg.swap cfg).Ordered ch → g.obtC ch <+: g.subS ch) := by
  obtain ⟨fs, hm, sim, -⟩ := frun_sim_conv a hl cid ops fs0 g0 g hgood hsim hok hr
  obtain ⟨h1, h2⟩ := C20F.full_stack_ordered_prefix a hl cfg cid fs0 fs _ he hm hnf hss
  constructor
  · intro hc ch ho
    rw [sim.obtS, sim.subC]
    exact (h1 (countersUp_of_sim sim hc) ch ho).map toNats
  · intro hc ch ho
    rw [sim.obtC, sim.subS]
    exact (h2 (countersDown_of_sim sim hc) ch ho).map toNats

/-- the same at every intermediate moment of a longer generated run -/
theorem src_full_stack_ordered_prefix_always (a : AEAD) (hl : a.Laws) (cfg : Cfg) (cid : Nat) (fs0 : FS) (g0 g1 : GFS)
    (ops1 ops2 : List FSOp) (he : Established cfg cid fs0) (hgood : FSGood fs0) (hsim : SimFS fs0 g0)
    (hr1 : g0.run a cid ops1 = some g1) (hok : FSRunOK a cid fs0 ops1)
    (hnf : NoForgeryRunD a cid fs0 ((ops1 ++ ops2).map cutOp)) (hss : SingleSessionRun a cid fs0 ((ops1 ++ ops2).map cutOp)) :
    (GCountersUp cfg g1 → ∀ ch, cfg.Ordered ch → g1.obtS ch <+: g1.subC ch) ∧
    (GCountersDown cfg g1 → ∀ ch, (Cfg.swap cfg).Ordered ch → g1.obtC ch <+: g1.subS ch) := by
  rw [List.map_append] at hnf hss
  exact src_full_stack_ordered_prefix a hl cfg cid fs0 g0 g1 ops1 he hgood hsim hr1 hok
    (runNFD_prefix a cid _ _ fs0 hnf) (runSS_prefix a cid _ _ fs0 hss)

/-- **C02 over the full stack, generated code.**  On every ReliableUnordered channel, in either direction, the obtained
    messages are the submitted messages at pairwise distinct positions of the submission log. -/
theorem src_full_stack_unordered_once (a : AEAD) (hl : a.Laws) (cfg : Cfg) (cid : Nat) (fs0 : FS) (g0 g : GFS) (ops : List FSOp)
    (he : Established cfg cid fs0) (hgood : FSGood fs0) (hsim : SimFS fs0 g0) (hr : g0.run a cid ops = some g)
    (hok : FSRunOK a cid fs0 ops) (hnf : NoForgeryRunD a cid fs0 (ops.map cutOp))
    (hss : SingleSessionRun a cid fs0 (ops.map cutOp)) :
    (GCountersUp cfg g → ∀ ch, cfg.Unordered ch →
      ∃ ids : List Nat, ids.Nodup ∧ (g.obtS ch).map some = ids.map (fun id => (g.subC ch)[id]?)) ∧
    (GCountersDown cfg g → ∀ ch, (Cfg.swap cfg).Unordered ch →
      ∃ ids : List Nat, ids.Nodup ∧ (g.obtC ch).map some = ids.map (fun id => (g.subS ch)[id]?)) := by
  obtain ⟨fs, hm, sim, -⟩ := frun_sim_conv a hl cid ops fs0 g0 g hgood hsim hok hr
  obtain ⟨h1, h2⟩ := C20F.full_stack_unordered_once a hl cfg cid fs0 fs _ he hm hnf hss
  constructor
  · intro hc ch hu
    obtain ⟨ids, hn, h⟩ := h1 (countersUp_of_sim sim hc) ch hu
    rw [sim.obtS, sim.subC]
    exact ⟨ids, hn, unordered_map h⟩
  · intro hc ch hu
    obtain ⟨ids, hn, h⟩ := h2 (countersDown_of_sim sim hc) ch hu
    rw [sim.obtC, sim.subS]
    exact ⟨ids, hn, unordered_map h⟩

/-- **C03 over the full stack, generated code.**  Every message either application obtains was submitted by the peer's
    application on that channel, byte for byte (reliable kinds: accepted by the channel; Unreliable: passed to
    `send_message`). -/
theorem src_full_stack_integrity (a : AEAD) (hl : a.Laws) (cfg : Cfg) (cid : Nat) (fs0 : FS) (g0 g : GFS) (ops : List FSOp)
    (he : Established cfg cid fs0) (hgood : FSGood fs0) (hsim : SimFS fs0 g0) (hr : g0.run a cid ops = some g)
    (hok : FSRunOK a cid fs0 ops) (hnf : NoForgeryRunD a cid fs0 (ops.map cutOp))
    (hss : SingleSessionRun a cid fs0 (ops.map cutOp)) :
    (GCountersUp cfg g →
      (∀ ch, cfg.Ordered ch ∨ cfg.Unordered ch → ∀ x ∈ g.obtS ch, x ∈ g.subC ch) ∧
      (∀ ch, cfg.Unreliable ch → ∀ x ∈ g.obtS ch, x ∈ g.subCU ch)) ∧
    (GCountersDown cfg g →
      (∀ ch, (Cfg.swap cfg).Ordered ch ∨ (Cfg.swap cfg).Unordered ch → ∀ x ∈ g.obtC ch, x ∈ g.subS ch) ∧
      (∀ ch, (Cfg.swap cfg).Unreliable ch → ∀ x ∈ g.obtC ch, x ∈ g.subSU ch)) := by
  obtain ⟨fs, hm, sim, -⟩ := frun_sim_conv a hl cid ops fs0 g0 g hgood hsim hok hr
  obtain ⟨h1, h2⟩ := C20F.full_stack_integrity a hl cfg cid fs0 fs _ he hm hnf hss
  have key : ∀ {o s : List Bytes}, (∀ x ∈ o, x ∈ s) → ∀ x ∈ o.map toNats, x ∈ s.map toNats := by
    intro o s h x hx
    obtain ⟨y, hy, rfl⟩ := List.mem_map.mp hx
    exact List.mem_map_of_mem (h y hy)
  constructor
  · intro hc
    obtain ⟨r1, r2⟩ := h1 (countersUp_of_sim sim hc)
    refine ⟨fun ch hk => ?_, fun ch hk => ?_⟩
    · rw [sim.obtS, sim.subC]; exact key (r1 ch hk)
    · rw [sim.obtS, sim.subCU]; exact key (r2 ch hk)
  · intro hc
    obtain ⟨r1, r2⟩ := h2 (countersDown_of_sim sim hc)
    refine ⟨fun ch hk => ?_, fun ch hk => ?_⟩
    · rw [sim.obtC, sim.subS]; exact key (r1 ch hk)
    · rw [sim.obtC, sim.subSU]; exact key (r2 ch hk)

theorem noDead_disconnectionsId {rs : Server} (hs : SL.SMap.Sorted rs.conns) (h : GI.NoDead rs) : rs.disconnectionsId = [] := by
  unfold Server.disconnectionsId
  have : rs.conns.filter (·.2.isDisconnected) = [] := by
    apply List.filter_eq_nil_iff.mpr
    intro x hx
    have hs' : SI.Sorted rs.conns := List.pairwise_map.mp hs
    have := h x.1 x.2 (SI.mem_find?_of_sorted (m := rs.conns) hs' hx)
    simp [this]
  rw [this]; rfl

/-- **C20 lock-step, generated code.**  If the model glue state the generated state represents is in lock-step (`GI.LockStep`:
    the renet table and the netcode slot table hold the same ids), then after the generated `NetcodeServerTransport::update` —
    whatever the adversary queued — the generated `NetcodeServer::clients_id` returns a duplicate-free list `ids`, the generated
    `RenetServer`'s connection table has exactly those keys, and `RenetServer::disconnections_id` is empty.
    (`SrvUpdateOk`: the decidable local condition of this one call, `SrcTieTrLocal.lean`.) -/
theorem src_update_lockstep (a : AEAD) (cid : Nat) (fs : FS) (g g' : GFS) (hg : FSGood fs) (sim : SimFS fs g)
    (hlaws : a.Laws) (hl : GI.LockStep fs.s) (d : Nat) (inbox : List Dgram) (hin : inbox.length + 1 < 2 ^ 64)
    (hloc : SrvUpdateOk a fs.s d (inbox.map (recvFrom C.TRANSPORT_SERVER_BUFFER)) #[])
    (hs : g.step a cid (.srvUpdate d inbox) = some g') :
    ∃ ids, (Src.renetcode.server.NetcodeServer.clients_id g'.ts.netcode_server : Res Empty _) = .ok ids ∧ ids.Nodup ∧
      (∀ id, RustSem.Map.contains_key g'.rs.connections id = true ↔ id ∈ ids) ∧
      (Src.renet.server.RenetServer.disconnections_id g'.rs : Res Empty _) = .ok [] := by
  have hstep := fstep_sim_tr a cid hg sim (.srvUpdate d inbox)
    (opTie_of_local a hlaws hg (.srvUpdate d inbox) hin hloc) trivial
  cases hm : fs.step a cid (cutOp (.srvUpdate d inbox)) with
  | none => rw [hm] at hstep; rw [hstep] at hs; cases hs
  | some fs' =>
    rw [hm] at hstep
    obtain ⟨g'', e, sim', -⟩ := hstep
    rw [hs] at e; cases e
    simp only [cutOp, FS.step] at hm
    split at hm
    · rename_i g1 out1 hu
      cases hm
      obtain ⟨hl', hnd⟩ := C20.update_lockstep hu hl
      obtain ⟨rest, out, o, buf, -, -, hts⟩ := sim'.ts
      obtain ⟨mrss, hrs⟩ := sim'.rs
      refine ⟨g1.netcode.clientsId, ?_, hl'.nodup, fun id => ?_, ?_⟩
      · rw [hts]; exact ns_clients_id_eq o g1.netcode
      · rw [hrs]
        have : RustSem.Map.contains_key (reprServer mrss g1.renet).connections id = SMap.contains g1.renet.conns id :=
          contains_reprConns mrss g1.renet.conns id
        rw [this]; exact hl'.sync id
      · rw [hrs, server_disconnections_id_eq, noDead_disconnectionsId hl'.sorted hnd]
    · cases hm

/-! ## non-vacuity: the generated full stack EVALUATED by the kernel on the sessions of `C20F`

  The start state is `gOf fs0`, the generated representation of the model state the handshake of `Props/C20.lean` leaves behind
  (toy AEAD).  The kernel runs the generated transports, the generated netcode (with `aeadOf toyAead`), the generated
  `RenetClient` / `RenetServer` through the whole schedule — replayed, corrupted, truncated, foreign and junk datagrams
  included — and the observations are read off the generated final state.  Then the theorems above are APPLIED to these runs: the side
  condition `FSRunOK` is decided by evaluation (`runOK`), `FSGood fs0` comes from the handshake (`Hs`), the run hypotheses
  from `C20F` (no datagram exceeds a receive buffer: `cut_ops`), the counters are evaluated on the generated final state. -/

/-! ### `FSGood` of the established session, through the handshake

  The model invariants hold of a fresh server glue (`exG0`) and a fresh client glue (`hsC0`); every transport `update` of the
  handshake keeps them (`srvUpdate_good` / `cliUpdate_good`: read off the local ties, the local condition of each call decided
  by evaluation). -/
namespace Hs
open RenetVerif.C20

theorem exNs0_inv : NS.ServerInv exNs0 := by
  have hno : ∀ i c, ¬ NS.At exNs0.clients i c := by
    intro i c h
    have : exNs0.clients = List.replicate 2 none := rfl
    unfold NS.At at h; rw [this, List.getElem?_replicate] at h; split at h <;> simp at h
  refine ⟨NS.SlotsOK.replicate 2, fun i c h => absurd h (hno i c), (fun p hp => nomatch hp), List.nodup_nil, by decide, by decide, ?_,
    by decide, by decide⟩
  intro i j ei ej h1
  have : exNs0.connectTokenEntries = List.replicate 2 none := rfl
  rw [this, List.getElem?_replicate] at h1; split at h1 <;> simp at h1

theorem sstep_good (g : ServerGlue) (d : Nat) (inbox : List Dgram) (hcut : inbox.map (recvFrom C.TRANSPORT_SERVER_BUFFER) = inbox)
    (hi : NS.ServerInv g.netcode) (hg : SGood g.renet) (hin : inbox.length + 1 < 2 ^ 64)
    (hok : SrvUpdateOk toyAead g d inbox #[]) :
    NS.ServerInv (sstep g d inbox).1.netcode ∧ SGood (sstep g d inbox).1.renet := by
  unfold sstep
  cases hm : serverUpdate toyAead g d inbox with
  | ok v =>
    obtain ⟨g', out⟩ := v
    exact srvUpdate_good toyAead toyAead_laws d inbox hi hg hin (by rw [hcut]; exact hok) (by rw [hcut]; exact hm)
  | err e => exact nomatch e
  | panic m => exact ⟨hi, hg⟩

theorem cstep_good (g : ClientGlue) (d : Nat) (inbox : List Dgram) (hcut : inbox.map (recvFrom C.TRANSPORT_CLIENT_BUFFER) = inbox)
    (hi : CliInv g.netcode) (hg : EpGood g.renet) (hin : inbox.length + 1 < 2 ^ 64)
    (hok : CliUpdateOk toyAead g inbox) :
    CliInv (cstep g d inbox).1.netcode ∧ EpGood (cstep g d inbox).1.renet := by
  unfold cstep
  cases hm : clientUpdate toyAead g d inbox with
  | ok r =>
    exact cliUpdate_good toyAead toyAead_laws d inbox hi hg hin (by rw [hcut]; exact hok) (by rw [hcut]; exact hm)
  | err e => exact nomatch e
  | panic m => exact ⟨hi, hg⟩

theorem exG0_good : NS.ServerInv exG0.netcode ∧ SGood exG0.renet :=
  ⟨exNs0_inv, sgood_new ⟨60000, exChans, exChans⟩ ⟨by decide, by decide, by decide, by decide⟩⟩
theorem s1_good : NS.ServerInv s1.1.netcode ∧ SGood s1.1.renet :=
  sstep_good exG0 1000 (up c1.2) (by decide +kernel) exG0_good.1 exG0_good.2 (by decide +kernel) (by decide +kernel)
theorem s2_good : NS.ServerInv s2.1.netcode ∧ SGood s2.1.renet :=
  sstep_good s1.1 1000 (up c2.2) (by decide +kernel) s1_good.1 s1_good.2 (by decide +kernel) (by decide +kernel)

theorem hsC0_good : CliInv hsC0.netcode ∧ EpGood hsC0.renet := by
  have e : hsC0.renet = Conn.fromChannels 60000 exChans exChans := by decide +kernel
  refine ⟨⟨by decide +kernel, by decide +kernel, fun _ => by decide +kernel⟩, ?_⟩
  rw [e]; exact epGood_fromChannels _ _ _
theorem c1_good : CliInv c1.1.netcode ∧ EpGood c1.1.renet :=
  cstep_good hsC0 1000 [] rfl hsC0_good.1 hsC0_good.2 (by decide) (by decide +kernel)
theorem c2_good : CliInv c2.1.netcode ∧ EpGood c2.1.renet :=
  cstep_good c1.1 1000 (down s1.2) (by decide +kernel) c1_good.1 c1_good.2 (by decide +kernel) (by decide +kernel)
theorem c3_good : CliInv c3.1.netcode ∧ EpGood c3.1.renet :=
  cstep_good c2.1 1000 (down s2.2) (by decide +kernel) c2_good.1 c2_good.2 (by decide +kernel) (by decide +kernel)
theorem c4_good : CliInv C20F.Ex.c4.netcode ∧ EpGood C20F.Ex.c4.renet :=
  cstep_good c3.1 1000 [] rfl c3_good.1 c3_good.2 (by decide) (by decide +kernel)

end Hs

namespace Ex
abbrev fs0 := C20F.Ex.fs0
abbrev ops := C20F.Ex.ops

def gfin : GFS := ((gOf fs0).run toyAead 7 ops).getD (gOf fs0)

/-- the generated full stack runs through the 15 operations of `C20F.Ex` without a panic -/
theorem grun : (gOf fs0).run toyAead 7 ops = some gfin := some_getD (by decide +kernel) _

/-- what the generated code did: exactly the observations of `C20F.Ex.all` — `[1,2,3]` and `[7,7]` obtained once each by the
    server's application in spite of replay, corruption, truncation and junk; `[9,9]` obtained once by the client's; three
    datagrams emitted by the client, two by the server — and the generated final logs are those of the model run -/
theorem gfacts :
    (gfin.subC 1 = [[1, 2, 3]] ∧ gfin.obtS 1 = [[1, 2, 3]] ∧ gfin.subCU 0 = [[7, 7]] ∧ gfin.obtS 0 = [[7, 7]] ∧
      gfin.subS 1 = [[9, 9]] ∧ gfin.obtC 1 = [[9, 9]] ∧ gfin.emC.length = 3 ∧ gfin.emS.length = 2) ∧
    (gfin.emC = C20F.Ex.fin.emC.map reprDgram ∧ gfin.emS = C20F.Ex.fin.emS.map reprDgram ∧
      gfin.ySeq = C20F.Ex.fin.ySeq ∧ gfin.rc.packet_sequence = C20F.Ex.fin.c.renet.packetSeq) := by
  decide +kernel

/-- **the side condition of the run holds** (range of every state an application-level call starts from, and the local
    condition of every transport call), decided by evaluation — the session is LIVE and has pending acks on both sides -/
theorem runOK : FSRunOK toyAead 7 fs0 ops := by decide +kernel
theorem inRange : FSRunInRange toyAead 7 fs0 ops := by decide +kernel

/-- the model invariants of the start state, from the handshake -/
theorem fs0_good : FSGood fs0 := ⟨Hs.c4_good.2, Hs.s2_good.2, Hs.c4_good.1, Hs.s2_good.1⟩
/-- no datagram of the run is longer than a receive buffer: the cut changes nothing -/
theorem cut_ops : ops.map cutOp = ops := by decide +kernel

/-- the counter hypotheses on the generated final state -/
theorem gcounters : GCountersUp C20F.Ex.cfg gfin ∧ GCountersDown C20F.Ex.cfg gfin := by
  constructor <;> refine ⟨?_, ?_, ?_, ?_, ?_⟩ <;> decide +kernel

/-- **`src_full_stack_ordered_prefix` applied** to the generated run (all hypotheses discharged), both directions -/
example : gfin.obtS 1 <+: gfin.subC 1 ∧ gfin.obtC 1 <+: gfin.subS 1 :=
  let h := src_full_stack_ordered_prefix toyAead toyAead_laws C20F.Ex.cfg 7 fs0 (gOf fs0) gfin ops C20F.Ex.fs0_established fs0_good
    (simFS_gOf fs0) grun runOK (by rw [cut_ops]; exact C20F.Ex.noForgery) (by rw [cut_ops]; exact C20F.Ex.singleSession)
  ⟨h.1 gcounters.1 1 C20F.Ex.ordered1, h.2 gcounters.2 1 C20F.Ex.ordered1'⟩
/-- **`src_full_stack_integrity` applied**: the unreliable channel 0, client → server -/
example : ∀ x ∈ gfin.obtS 0, x ∈ gfin.subCU 0 :=
  ((src_full_stack_integrity toyAead toyAead_laws C20F.Ex.cfg 7 fs0 (gOf fs0) gfin ops C20F.Ex.fs0_established fs0_good
    (simFS_gOf fs0) grun runOK (by rw [cut_ops]; exact C20F.Ex.noForgery) (by rw [cut_ops]; exact C20F.Ex.singleSession)).1
    gcounters.1).2 0 C20F.Ex.unreliable0

/-- **the local condition on a LIVE session with pending acks, across several flushes.**  After the run both endpoints are
    connected and hold pending acks; three more `send_packets` of the client and two of the server (each emits an ack packet:
    `packet_sequence` grows by one per flush and the pending acks stay) and a further `update` on both sides satisfy the side
    condition — whereas no `RangeClosed` predicate holds of these connections (`SrcTieTrLocal.lean`). -/
def flushes : List FSOp :=
  [.cliSendPackets, .cliSendPackets, .cliSendPackets, .srvSendPackets, .srvSendPackets, .srvUpdate 1000 [], .cliUpdate 1000 []]
example : FSRunOK toyAead 7 fs0 (ops ++ flushes) ∧
    (C20F.Ex.fin.c.renet.isDisconnected = false ∧ C20F.Ex.fin.c.renet.pendingAcks ≠ [] ∧
      (SMap.find? C20F.Ex.fin.s.renet.conns 7).map (fun y => (y.isDisconnected, y.pendingAcks.isEmpty)) = some (false, false)) ∧
    ((C20F.Ex.fin.run toyAead 7 flushes).map (fun fs => (fs.c.renet.packetSeq, fs.c.renet.pendingAcks.isEmpty, fs.emC.length)) =
      some (C20F.Ex.fin.c.renet.packetSeq + 3, false, C20F.Ex.fin.emC.length + 3)) ∧
    ((gfin.run toyAead 7 flushes).map (fun g => (g.rc.packet_sequence, g.emC.length, g.emS.length)) =
      some (gfin.rc.packet_sequence + 3, gfin.emC.length + 3, gfin.emS.length + 2)) := by
  decide +kernel

/-- the conclusions of `src_full_stack_ordered_prefix` / `src_full_stack_integrity` on the generated final state -/
example : gfin.obtS 1 <+: gfin.subC 1 ∧ gfin.obtC 1 <+: gfin.subS 1 ∧ (∀ x ∈ gfin.obtS 0, x ∈ gfin.subCU 0) := by
  obtain ⟨⟨h1, h2, h3, h4, h5, h6, -⟩, -⟩ := gfacts
  rw [h1, h2, h3, h4, h5, h6]
  exact ⟨List.prefix_refl _, List.prefix_refl _, fun x hx => hx⟩

end Ex

namespace ExU
abbrev fs0 := C20F.ExU.fs0
abbrev ops := C20F.ExU.ops

def gfin : GFS := ((gOf fs0).run toyAead 7 ops).getD (gOf fs0)
theorem grun : (gOf fs0).run toyAead 7 ops = some gfin := some_getD (by decide +kernel) _
/-- ReliableUnordered both ways, datagrams delivered out of order, replayed and corrupted: each message exactly once -/
theorem gfacts : gfin.subC 2 = [[1], [2]] ∧ gfin.obtS 2 = [[2], [1]] ∧ gfin.subS 2 = [[8], [9]] ∧ gfin.obtC 2 = [[9], [8]] := by
  decide +kernel
theorem inRange : FSRunInRange toyAead 7 fs0 ops := by decide +kernel
theorem runOK : FSRunOK toyAead 7 fs0 ops := by decide +kernel
theorem fs0_good : FSGood fs0 :=
  ⟨(epGood_fromChannels _ _ _).setConnected,
   (sgood_new ⟨60000, C20F.ExU.chans, C20F.ExU.chans⟩ ⟨by decide, by decide, by decide, by decide⟩).addConnection 7,
   Hs.c4_good.1, Hs.s2_good.1⟩
theorem cut_ops : ops.map cutOp = ops := by decide +kernel
theorem gcounters : GCountersUp C20F.ExU.cfg gfin ∧ GCountersDown C20F.ExU.cfg gfin := by
  constructor <;> refine ⟨?_, ?_, ?_, ?_, ?_⟩ <;> decide +kernel

/-- **`src_full_stack_unordered_once` applied** to the generated run (all hypotheses discharged), both directions -/
example : (∃ ids : List Nat, ids.Nodup ∧ (gfin.obtS 2).map some = ids.map (fun id => (gfin.subC 2)[id]?)) ∧
    (∃ ids : List Nat, ids.Nodup ∧ (gfin.obtC 2).map some = ids.map (fun id => (gfin.subS 2)[id]?)) :=
  let h := src_full_stack_unordered_once toyAead toyAead_laws C20F.ExU.cfg 7 fs0 (gOf fs0) gfin ops C20F.ExU.fs0_established fs0_good
    (simFS_gOf fs0) grun runOK (by rw [cut_ops]; exact C20F.ExU.noForgery) (by rw [cut_ops]; exact C20F.ExU.singleSession)
  ⟨h.1 gcounters.1 2 C20F.ExU.unordered2, h.2 gcounters.2 2 C20F.ExU.unordered2⟩

/-- the conclusion of `src_full_stack_unordered_once` on the generated final state (witness `ids = [1, 0]`, both ways) -/
example : (∃ ids : List Nat, ids.Nodup ∧ (gfin.obtS 2).map some = ids.map (fun id => (gfin.subC 2)[id]?)) ∧
    (∃ ids : List Nat, ids.Nodup ∧ (gfin.obtC 2).map some = ids.map (fun id => (gfin.subS 2)[id]?)) := by
  obtain ⟨h1, h2, h3, h4⟩ := gfacts
  rw [h1, h2, h3, h4]
  exact ⟨⟨[1, 0], by decide, by decide⟩, ⟨[1, 0], by decide, by decide⟩⟩

end ExU

end RenetVerif.SrcPropsFullStack
