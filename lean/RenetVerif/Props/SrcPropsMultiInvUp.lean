/-
  C11 — the MULTI-CLIENT system, ABOUT THE GENERATED CODE: the invariant package `C11E.per_client_system_inv`, direction
  client `i` → server (second component of the package, `projUp`), read on the generated system `GMulti`.

  `Props/SrcPropsMultiInv.lean` has the three statements for the direction server → client `i`.  Here the same three for the
  other direction; the datagrams are those of `gl.outC` (everything `i`'s generated client ever emitted), read through the
  GENERATED decoder (`GDecodes`), the acknowledging side is the server's generated connection for `i` (`srvConn`), the
  deliveries are `gl.delivS` (indices of `gl.outC` the network handed to the server under id `i`):

    * `src_per_client_up_sequences_increase`   (`Inv1.encA` + `Inv1.seqA`)  the datagrams client `i` emitted carry strictly
                                               increasing sequence numbers, all below `packet_sequence` of `i`'s generated client;
    * `src_per_client_up_record_was_emitted`   (`InvR.sentA` + `Inv2.wfA` + `Inv1.encA`)  every reliable record in `sent_packets`
                                               of `i`'s (live) generated client is a datagram of `gl.outC` that the generated
                                               decoder reads back with that sequence number and that record (`gRecordOf`);
    * `src_per_client_up_acks_only_delivered`  (`InvR.ackB` + `InvR.ackOutB` + `Inv1.delivB`)  the `pending_acks` of the server's
                                               generated connection for `i`, and every `Ack` packet the server ever emitted to `i`
                                               (`gl.outS`, read by the generated decoder), cover only sequence numbers of datagrams
                                               of client `i` that were delivered to the server under id `i` (`delivS`).

  Hypotheses as in `SrcPropsMultiInv`: generated run, untainted link, `MRunInRange`; `GCountersUp` where the round trip of
  reliable packets is needed.  Proofs: `SrcMulti.mrun_sim_conv` + `C11E.per_client_system_inv` (second component).
-/
import RenetVerif.Props.SrcPropsMultiInv
set_option maxRecDepth 100000
set_option linter.unusedVariables false
set_option linter.unusedSimpArgs false
namespace RenetVerif.SrcPropsMultiInvUp
open RenetVerif C RenetVerif.System RenetVerif.MultiSystem RenetVerif.SrcEquiv RenetVerif.SrcSystem RenetVerif.SrcMulti
open RenetVerif.C11E RenetVerif.SrcConnC08b RenetVerif.SrcConnC15 RenetVerif.SrcPropsMultiInv
open Src.renet.remote_connection

/-- the datagram with index `k` of `gl.outC` was handed to the server under id `i`, and whatever the generated decoder reads
    from it has sequence number `x` -/
def GDelivSeqUp (gl : GLink) (x : Nat) : Prop :=
  ∃ k ∈ gl.delivS, ∃ bytes, gl.outC[k]? = some bytes ∧
    ∀ gp : GPacket, GDecodes bytes gp → (Src.renet.packet.Packet.sequence gp : Res Empty Nat) = .ok x

/-! ## auxiliary -/

/-- the server's generated connection for `i` represents the `b` side of the projection `i` → server -/
theorem srvConn_repr_up {m : MSys} {g : GMulti} (sim : SimMulti m g) {i : Nat} {l : Link} {gl : GLink} (hsl : SimLink l gl) :
    ∃ mrs, srvConn g i gl = reprConn mrs (projUp m i l).b :=
  srvConn_repr sim hsl (i := i)

/-- a datagram of the model history behind an index of the generated history -/
theorem outC_lookup {l : Link} {gl : GLink} (hsl : SimLink l gl) {k : Nat} {bytes : GBytes} (h : gl.outC[k]? = some bytes) :
    ∃ b, l.outC[k]? = some b ∧ bytes = toNats b := by
  rw [hsl.outC, List.getElem?_map] at h
  cases hb : l.outC[k]? with
  | none => rw [hb] at h; cases h
  | some b => rw [hb] at h; cases h; exact ⟨b, rfl, rfl⟩

/-- model `DelivSeq` (ghost packet list) ↦ its reading through the generated decoder -/
theorem gdelivSeqUp_of {cfg : Cfg} {s : Sys} {pkA : List Packet} (h1 : Inv1 cfg s pkA) {l : Link} {gl : GLink}
    (hsl : SimLink l gl) (hout : s.outA = l.outC) (hdel : s.deliveredToB = l.delivS) {x : Nat}
    (h : DelivSeq s.deliveredToB pkA x) : GDelivSeqUp gl x := by
  obtain ⟨k, hk, p, hp, hseq⟩ := h
  obtain ⟨b, hb, henc⟩ := enc_lookup' h1.encA hp
  refine ⟨k, by rw [hsl.delivS, ← hdel]; exact hk, toNats b, by rw [hsl.outC, List.getElem?_map, ← hout, hb]; rfl, ?_⟩
  intro gp hgp
  obtain ⟨p', hp', rfl⟩ := gdecodes_inv hgp
  rw [packet_sequence_eq, (fromBytes_of_enc henc hp').1, hseq]

/-! ## `Inv1.encA` + `Inv1.seqA`: the sequence numbers of one client strictly increase -/

/-- **The datagrams generated client `i` emits carry strictly increasing sequence numbers** (any run, any interleaving with
    the other clients).  For two datagrams of `gl.outC` — everything `i`'s generated `get_packets_to_send` ever returned — at
    positions `j < k`, which the GENERATED decoder reads as `gp` and `gq`: `sequence gp < sequence gq`, and both are below the
    field `packet_sequence` of `i`'s generated client. -/
theorem src_per_client_up_sequences_increase (P : Params) (ops : List MOp) (g : GMulti) (i : Nat) (gl : GLink)
    (hr : GMulti.exec P ops = some g) (hl : g.links i = some gl) (hclean : gl.tainted = false)
    (hrg : MRunInRange P ops) (j k : Nat) (bj bk : GBytes) (gp gq : GPacket) (hjk : j < k)
    (hj : gl.outC[j]? = some bj) (hk : gl.outC[k]? = some bk) (dj : GDecodes bj gp) (dk : GDecodes bk gq) :
    ∃ sj sk, (Src.renet.packet.Packet.sequence gp : Res Empty Nat) = .ok sj ∧
      (Src.renet.packet.Packet.sequence gq : Res Empty Nat) = .ok sk ∧ sj < sk ∧
      sk < gl.cl.packet_sequence := by
  obtain ⟨m, hm, sim⟩ := mrun_sim_conv P ops g hrg hr
  obtain ⟨l, hml, hsl⟩ := link_of_sim sim hl
  have hat : C11E.At P ops m i l := ⟨hm, hml, by rw [← hsl.tainted]; exact hclean⟩
  obtain ⟨-, pkA, h1, -, -, -⟩ := C11E.per_client_system_inv hat
  obtain ⟨mrs, hA⟩ := hsl.cl
  obtain ⟨b1, hb1, rfl⟩ := outC_lookup hsl hj
  obtain ⟨b2, hb2, rfl⟩ := outC_lookup hsl hk
  obtain ⟨p1, hp1, rfl⟩ := gdecodes_inv dj
  obtain ⟨p2, hp2, rfl⟩ := gdecodes_inv dk
  obtain ⟨q1, hq1, he1⟩ := enc_lookup h1.encA (show (projUp m i l).outA[j]? = some b1 from hb1)
  obtain ⟨q2, hq2, he2⟩ := enc_lookup h1.encA (show (projUp m i l).outA[k]? = some b2 from hb2)
  have hlt : q1.sequence < q2.sequence :=
    pairwise_getElem? h1.seqA.1 hjk (by rw [List.getElem?_map, hq1]; rfl) (by rw [List.getElem?_map, hq2]; rfl)
  have hbd := h1.seqA.2 q2 (List.mem_of_getElem? hq2)
  refine ⟨p1.sequence, p2.sequence, packet_sequence_eq p1, packet_sequence_eq p2, ?_, ?_⟩
  · rw [(fromBytes_of_enc he1 hp1).1, (fromBytes_of_enc he2 hp2).1]; exact hlt
  · rw [(fromBytes_of_enc he2 hp2).1, hA]; exact hbd

/-! ## `InvR.sentA` + `Inv2.wfA`: every reliable record of client `i`'s table was emitted by client `i` -/

/-- **What generated client `i` records as sent was emitted by client `i`, and reads back as recorded.**  `ps` is an entry
    under `seq` of the generated `sent_packets` of `i`'s generated client, which is not disconnected, and `ps.info` is a
    reliable record (`ReliableMessages` / `ReliableSliceMessage`).  Then some datagram of `gl.outC` — the emission history of
    client `i`; NOT a datagram of another client — is read by the GENERATED decoder as a packet `gp` with
    `Packet::sequence = seq` for which `get_packets_to_send` records exactly `ps.info` (`gRecordOf`). -/
theorem src_per_client_up_record_was_emitted (P : Params) (ops : List MOp) (g : GMulti) (i : Nat) (gl : GLink)
    (hr : GMulti.exec P ops = some g) (hl : g.links i = some gl) (hclean : gl.tainted = false)
    (hrg : MRunInRange P ops) (hc : GCountersUp P gl)
    (hlive : ∀ r, gl.cl.connection_status ≠ .Disconnected r)
    (seq : Nat) (ps : PacketSent) (hf : RustSem.Map.find? gl.cl.sent_packets seq = some ps)
    (hrel : (∃ ch ids, ps.info = .ReliableMessages ch ids) ∨ ∃ ch id idx, ps.info = .ReliableSliceMessage ch id idx) :
    ∃ (k : Nat) (bytes : GBytes) (gp : GPacket), gl.outC[k]? = some bytes ∧ GDecodes bytes gp ∧
      (Src.renet.packet.Packet.sequence gp : Res Empty Nat) = .ok seq ∧ gRecordOf gp = some ps.info := by
  obtain ⟨m, hm, sim⟩ := mrun_sim_conv P ops g hrg hr
  obtain ⟨l, hml, hsl⟩ := link_of_sim sim hl
  have hat : C11E.At P ops m i l := ⟨hm, hml, by rw [← hsl.tainted]; exact hclean⟩
  obtain ⟨-, pkA, h1, h2, hR, -⟩ := C11E.per_client_system_inv hat
  have h2' := h2 (countersUp_of_sim (m := m) (i := i) hsl hc)
  obtain ⟨mrs, hA⟩ := hsl.cl
  rw [hA] at hf hlive
  have hd : (projUp m i l).a.isDisconnected = false := by
    unfold Conn.isDisconnected
    cases hst : (projUp m i l).a.status with
    | connected => rfl
    | connecting => rfl
    | disconnected r =>
      have hst' : l.cl.status = .disconnected r := hst
      exact absurd (by simp only [reprConn, hst', reprStatus]) (hlive (reprReason r))
  rw [SrcConnC08.find_sent_repr] at hf
  cases hfs : SMap.find? (projUp m i l).a.sent seq with
  | none =>
    have hfs' : SMap.find? l.cl.sent seq = none := hfs
    rw [hfs'] at hf; cases hf
  | some v =>
    obtain ⟨tm, info⟩ := v
    have hfs' : SMap.find? l.cl.sent seq = some (tm, info) := hfs
    rw [hfs'] at hf; cases hf
    obtain ⟨p, hp, hseq, hinfo⟩ := hR.sentA hd seq tm info hfs
    have hisrel : isRel p = true := by
      cases p with
      | smallReliable _ _ _ => rfl
      | reliableSlice _ _ _ => rfl
      | smallUnreliable s c ms =>
        simp only [Conn.sentInfoOf, Res.ok.injEq] at hinfo; subst hinfo
        rcases hrel with ⟨ch, ids, e⟩ | ⟨ch, id, idx, e⟩ <;> cases e
      | unreliableSlice s c sl =>
        simp only [Conn.sentInfoOf, Res.ok.injEq] at hinfo; subst hinfo
        rcases hrel with ⟨ch, ids, e⟩ | ⟨ch, id, idx, e⟩ <;> cases e
      | ack s r =>
        have := gRecordOf_repr hinfo
        simp only [reprPacket, gRecordOf] at this
        cases hl : (r.map reprRange).getLast? with
        | none => rw [hl] at this; cases this
        | some x =>
          rw [hl] at this; simp only [Option.map_some, Option.some.injEq] at this
          rcases hrel with ⟨ch, ids, e⟩ | ⟨ch, id, idx, e⟩
          · simp only [reprSentEntry] at e; rw [← this] at e; cases e
          · simp only [reprSentEntry] at e; rw [← this] at e; cases e
    have hwf := h2'.wfA p hp hisrel
    obtain ⟨k, hk⟩ := List.getElem?_of_mem hp
    obtain ⟨b, hb, henc⟩ := enc_lookup' h1.encA hk
    obtain ⟨b', hb', hdec⟩ := Packet.fromBytes_enc p hwf
    rw [henc] at hb'; cases hb'
    refine ⟨k, toNats b, reprPacket p, ?_, gdecodes_of_fromBytes hdec, by rw [packet_sequence_eq, hseq], gRecordOf_repr hinfo⟩
    rw [hsl.outC, List.getElem?_map]
    have : l.outC[k]? = some b := hb
    rw [this]; rfl

/-! ## `InvR.ackB` + `InvR.ackOutB`: the server acknowledges to `i` only what was delivered to it under id `i` -/

/-- **The server's connection for `i` acknowledges only datagrams of client `i` that were handed to the server under id `i`.**
    (a) every sequence number covered by the generated `pending_acks` of the server's generated connection for `i`, and (b) every
    sequence number covered by a range of an `Ack` packet that the GENERATED decoder reads from a datagram the server ever
    emitted to `i` (`gl.outS`), is the sequence number of a datagram of `gl.outC` whose index is in `gl.delivS` — it was emitted
    by client `i` and delivered to the server under id `i`; deliveries, hostile bytes and acknowledgements on the links of other
    clients contribute nothing.  (c) `delivS` holds indices of `gl.outC` only. -/
theorem src_per_client_up_acks_only_delivered (P : Params) (ops : List MOp) (g : GMulti) (i : Nat) (gl : GLink)
    (hr : GMulti.exec P ops = some g) (hl : g.links i = some gl) (hclean : gl.tainted = false)
    (hrg : MRunInRange P ops) :
    (∀ x, (∃ r ∈ (srvConn g i gl).pending_acks, r.start ≤ x ∧ x < r.«end») → GDelivSeqUp gl x) ∧
    (∀ b ∈ gl.outS, ∀ aseq ranges, GDecodes b (.Ack aseq ranges) →
      ∀ x, (∃ r ∈ ranges, r.start ≤ x ∧ x < r.«end») → GDelivSeqUp gl x) ∧
    (∀ k ∈ gl.delivS, k < gl.outC.length) := by
  obtain ⟨m, hm, sim⟩ := mrun_sim_conv P ops g hrg hr
  obtain ⟨l, hml, hsl⟩ := link_of_sim sim hl
  have hat : C11E.At P ops m i l := ⟨hm, hml, by rw [← hsl.tainted]; exact hclean⟩
  obtain ⟨-, pkA, h1, -, hR, -⟩ := C11E.per_client_system_inv hat
  refine ⟨?_, ?_, ?_⟩
  · intro x hx
    obtain ⟨mrs, hcl⟩ := srvConn_repr_up sim hsl (i := i)
    rw [hcl] at hx
    exact gdelivSeqUp_of h1 hsl rfl rfl (hR.ackB x (SrcConnC08.mem_pendingAcks_repr hx))
  · intro b hb aseq ranges hdec x hx
    rw [hsl.outS] at hb
    obtain ⟨b0, hb0, rfl⟩ := List.mem_map.mp hb
    obtain ⟨p, hp, hrepr⟩ := gdecodes_inv hdec
    cases p with
    | ack s r =>
      simp only [reprPacket, Src.renet.packet.Packet.Ack.injEq] at hrepr
      obtain ⟨rfl, rfl⟩ := hrepr
      exact gdelivSeqUp_of h1 hsl rfl rfl (hR.ackOutB b0 hb0 _ _ hp x (mem_of_reprRange hx))
    | smallReliable _ _ _ => simp only [reprPacket] at hrepr; cases hrepr
    | smallUnreliable _ _ _ => simp only [reprPacket] at hrepr; cases hrepr
    | reliableSlice _ _ _ => simp only [reprPacket] at hrepr; cases hrepr
    | unreliableSlice _ _ _ => simp only [reprPacket] at hrepr; cases hrepr
  · intro k hk
    rw [hsl.delivS] at hk
    have := h1.delivB k hk
    rw [hsl.outC, List.length_map]
    exact this

/-! ## non-vacuity: the run of `C11E.Ex` ON THE GENERATED CODE (`SrcPropsMulti.Ex`), client 3, direction 3 → server

  Client 3 submits `[33]` and emits one datagram (sequence number 0), which the network hands to the server; the server's
  connection for 3 has `[0, 1)` pending and its fourth datagram to 3 is `Ack 3 [0, 1)`.  In `opsX` (one more flush of
  client 3) client 3 has emitted a second datagram (its `Ack`, sequence number 1). -/
namespace Ex
open RenetVerif.SrcPropsMulti.Ex RenetVerif.SrcPropsMultiInv.Ex

/-- **the kernel's view on the generated code**: the datagrams client 3 emitted (read by the generated decoder), its
    generated `sent_packets`, `packet_sequence`, status; what was handed to the server under id 3, and the `pending_acks` of the
    server's generated connection for 3 -/
theorem ufacts :
    gl3.outC.map look = [some (0, some (.ReliableMessages 0 [0]))] ∧
    gl3.cl.sent_packets.map (fun x => (x.1, x.2.info)) = [(0, .ReliableMessages 0 [0])] ∧
    gl3.cl.connection_status = .Connected ∧
    gl3.delivS = [0] ∧ (srvConn gfin 3 gl3).pending_acks = [⟨0, 1⟩] := by
  decide +kernel

theorem uxfacts :
    glX3.outC.map look = [some (0, some (.ReliableMessages 0 [0])), some (1, some (.Ack 2))] ∧
    glX3.cl.packet_sequence = 2 := by
  decide +kernel

/-- **`src_per_client_up_record_was_emitted` applied** to the record under sequence number 0 (the packet that carried `[33]`,
    message id 0 of channel 0) of generated client 3 -/
example : ∃ (k : Nat) (bytes : GBytes) (gp : GPacket), gl3.outC[k]? = some bytes ∧ GDecodes bytes gp ∧
    (Src.renet.packet.Packet.sequence gp : Res Empty Nat) = .ok 0 ∧ gRecordOf gp = some (.ReliableMessages 0 [0]) :=
  src_per_client_up_record_was_emitted P ops gfin 3 gl3 grun glink3 clean3 inRange gcountersU3
    (by rw [ufacts.2.2.1]; intro r h; cases h) 0 ⟨0, .ReliableMessages 0 [0]⟩ (by decide +kernel) (Or.inl ⟨0, [0], rfl⟩)

/-- **`src_per_client_up_acks_only_delivered` (a) applied**: the server's connection for 3 has `[0, 1)` pending — 0 is the
    sequence number of a datagram of client 3 with index in `delivS = [0]` -/
example : GDelivSeqUp gl3 0 := by
  have h := (src_per_client_up_acks_only_delivered P ops gfin 3 gl3 grun glink3 clean3 inRange).1
  have e : (srvConn gfin 3 gl3).pending_acks = [⟨0, 1⟩] := ufacts.2.2.2.2
  exact h 0 ⟨⟨0, 1⟩, by rw [e]; exact List.mem_singleton.mpr rfl, by decide, by decide⟩
example : ∀ k ∈ gl3.delivS, k < gl3.outC.length :=
  (src_per_client_up_acks_only_delivered P ops gfin 3 gl3 grun glink3 clean3 inRange).2.2

/-- **`src_per_client_up_acks_only_delivered` (b) applied**: the `Ack` packet the generated server emitted to client 3 (fourth
    datagram of `gl3.outS`, read by the generated decoder as `Ack 3 [0, 1)`) covers 0 — the sequence number of a delivered
    datagram of client 3 -/
def bS : GBytes := (gl3.outS[3]?).getD []
def dS := (dec bS).getD dzero
theorem hbS : bS ∈ gl3.outS := by decide +kernel
theorem hdS : dec bS = some dS := some_getD (by decide +kernel) _
theorem hdS2 : dS.2 = .Ack 3 [⟨0, 1⟩] := by decide +kernel
example : GDelivSeqUp gl3 0 := by
  have hdec : GDecodes bS (.Ack 3 [⟨0, 1⟩]) := by rw [← hdS2]; exact gdecodes_of_dec hdS
  exact (src_per_client_up_acks_only_delivered P ops gfin 3 gl3 grun glink3 clean3 inRange).2.1 bS hbS 3 [⟨0, 1⟩] hdec
    0 ⟨⟨0, 1⟩, List.mem_singleton.mpr rfl, by decide, by decide⟩

/-- **`src_per_client_up_sequences_increase` applied** to the two datagrams generated client 3 emitted in `opsX` (sequence
    numbers 0 and 1, `packet_sequence` 2) -/
def c0 : GBytes := (glX3.outC[0]?).getD []
def c1 : GBytes := (glX3.outC[1]?).getD []
def e0 := (dec c0).getD dzero
def e1 := (dec c1).getD dzero
theorem hc0 : glX3.outC[0]? = some c0 := some_getD (by decide +kernel) _
theorem hc1 : glX3.outC[1]? = some c1 := some_getD (by decide +kernel) _
theorem he0 : dec c0 = some e0 := some_getD (by decide +kernel) _
theorem he1 : dec c1 = some e1 := some_getD (by decide +kernel) _
example : ∃ sj sk, (Src.renet.packet.Packet.sequence e0.2 : Res Empty Nat) = .ok sj ∧
    (Src.renet.packet.Packet.sequence e1.2 : Res Empty Nat) = .ok sk ∧ sj < sk ∧ sk < glX3.cl.packet_sequence :=
  src_per_client_up_sequences_increase P opsX gX 3 glX3 grunX glinkX3 xfacts.2.1 inRangeX 0 1 c0 c1 e0.2 e1.2 (by decide) hc0 hc1
    (gdecodes_of_dec he0) (gdecodes_of_dec he1)

end Ex

end RenetVerif.SrcPropsMultiInvUp
