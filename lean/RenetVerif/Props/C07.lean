/-
  C07 — renetcode survives hostile datagrams and tokens: no panic, no state change.

  "Whatever datagram is handed to a netcode server (from any source address, known or unknown) or client, and whatever
   bytes are parsed as a connect token, the call returns normally.  A datagram that is not authentic for the session
   it addresses changes nothing observable: no client connects or disconnects, no payload surfaces, no timeout is
   refreshed, and genuine traffic afterwards is still accepted."

  Proofs: Lemmas/NcWire.lean.  The model marks every Rust partial operation (`buffer[0]`, `split_at_mut`, `unwrap`,
  checked arithmetic, `unreachable!`) as `Res.panic`; "returns normally" = the result is not `panic`.

  State conditions that are needed (and sufficient):
    server  `SInv n`  : `global_sequence`, `challenge_sequence` and every pending `sequence` are at least `n` below
                        `u64::MAX` (each `process_packet` uses up at most one; `new` starts at 2^63, so `n ≤ 2^63-1`);
    client  `CInv`    : time stamps not in the future, 32 address slots, `timeout_seconds < 2^31` (all established by
                        `ConnectToken::read` + `NetcodeClient::new`, kept by `process_packet` and `update`); for
                        `update` also: clock below `Duration::MAX` minus the largest timeout, `sequence < u64::MAX`.
  No hypothesis on the AEAD is needed for totality.

  "Not authentic" at function level = `Packet::decode` under the session of the source address returns an error
  (or, for the never-authenticated connection request, its private token does not pass).  Exact list of what may
  still change:
    * the session's replay window, in one case: an *authentic* keep-alive whose plaintext is shorter than 8 bytes
      (only the key holder can make one) — `malformed_keepalive_advances_window`;
    * a pending entry's `last_packet_received_time` after a connection-request-shaped datagram from its address
      (never read before the response path overwrites it).
-/
import RenetVerif.Lemmas.NcWire
namespace RenetVerif.C07
open RenetVerif RenetVerif.Netcode RenetVerif.Netcode.Packet

/-! ### 1. returns normally -/

/-- `Packet::decode`: every byte string, with or without key, with or without window (repaired defects D4, D5, D6) -/
theorem decode_total (a : AEAD) (buf : Bytes) (proto : Nat) (key : Option Bytes) (rp : Option RP) (m : String) :
    (decode a buf proto key rp).1 ≠ .panic m :=
  Packet.decode_total a buf proto key rp m

/-- `ConnectToken::read`: every byte string -/
theorem connect_token_read_total (src : Bytes) (m : String) : ConnectToken.read src ≠ .panic m :=
  ConnectToken.read_total src m

/-- `NetcodeClient::new` on a token `read` accepted (repaired defect D7: a token without server address is rejected
    by `read`), and the client invariant holds -/
theorem client_new_total {src : Bytes} {t : ConnectToken} (h : ConnectToken.read src = .ok t) (now : Nat) :
    ∃ c, NetcodeClient.new now t = .ok c ∧ NetcodeClient.CInv c := by
  obtain ⟨c, hc⟩ := NetcodeClient.new_of_read h now
  exact ⟨c, hc, NetcodeClient.cinv_new h hc⟩

/-- `NetcodeServer::process_packet`: every source address, byte string and state with counter room -/
theorem server_process_packet_total (a : AEAD) {n : Nat} {s : NetcodeServer} (hinv : NetcodeServer.SInv (n + 1) s)
    (addr : Addr) (buf : Bytes) :
    ∃ r s', NetcodeServer.processPacket a s addr buf = .ok (r, s') ∧ NetcodeServer.SInv n s' :=
  NetcodeServer.processPacket_total a hinv addr buf

theorem server_inv_new {now maxClients proto : Nat} {addrs : List Addr} {secure : Bool} {pk ck : Bytes}
    {s : NetcodeServer} (h : NetcodeServer.new now maxClients proto addrs secure pk ck = .ok s) {n : Nat}
    (hn : Netcode.C.NETCODE_GLOBAL_SEQUENCE_START + n ≤ U64_MAX) : NetcodeServer.SInv n s :=
  NetcodeServer.SInv_new h hn

/-- the budget of a fresh server: 2^63 - 1 datagrams -/
theorem server_budget : Netcode.C.NETCODE_GLOBAL_SEQUENCE_START + (2 ^ 63 - 1) ≤ U64_MAX := by decide

/-- `NetcodeClient::process_packet`: every byte string, every state -/
theorem client_process_packet_total (a : AEAD) (c : NetcodeClient) (buf : Bytes) :
    ∃ r c', NetcodeClient.processPacket a c buf = .ok (r, c') :=
  NetcodeClient.processPacket_total a c buf

theorem client_inv_process_packet (a : AEAD) {c c' : NetcodeClient} {buf : Bytes} {r : Option Bytes}
    (hinv : NetcodeClient.CInv c) (h : NetcodeClient.processPacket a c buf = .ok (r, c')) :
    NetcodeClient.CInv c' ∧ c'.sequence = c.sequence ∧ c'.currentTime = c.currentTime :=
  NetcodeClient.processPacket_cinv a hinv h

/-- `NetcodeClient::update` (repaired defect D8: `expire - create` saturates) -/
theorem client_update_total (a : AEAD) (c : NetcodeClient) (d : Nat) (hinv : NetcodeClient.CInv c)
    (ht : c.currentTime + d + NetcodeClient.TIMEOUT_MAX_NS ≤ DURATION_MAX) (hseq : c.sequence + 1 ≤ U64_MAX) :
    ∃ r c', NetcodeClient.update a c d = .ok (r, c') ∧ NetcodeClient.CInv c' :=
  NetcodeClient.update_total a c d hinv ht hseq

/-! ### 2. not authentic ⇒ nothing observable changes -/

open NetcodeServer in
/-- Server, source address with a session (connected or pending): if `decode` under that session fails, the result is
    `None` and the state is unchanged — except for the authentic malformed keep-alive, where exactly the session's window
    is advanced. -/
theorem server_decode_error_noop (a : AEAD) (s : NetcodeServer) (addr : Addr) (buf : Bytes) {c : Connection}
    (hs : sessionOf s addr = some c) {e : NetcodeError}
    (hdec : (decode a buf s.protocolId (some c.receiveKey) (some c.replayProtection)).1 = .err e) :
    processPacket a s addr buf = .ok (.none, s) ∨
    (e = .ioError ∧ ∃ plain, SealedOpen a buf s.protocolId c.receiveKey .keepAlive plain ∧ plain.length < 8 ∧
      c.replayProtection.alreadyReceived (wireSeq buf) = false ∧
      processPacket a s addr buf = .ok (.none, withWindow s addr (c.replayProtection.advance (wireSeq buf)))) := by
  generalize hD : decode a buf s.protocolId (some c.receiveKey) (some c.replayProtection) = D at hdec
  obtain ⟨r, rp'⟩ := D
  dsimp only at hdec
  subst hdec
  rcases decode_err hD with h | ⟨k, plain, hk, hso, hd, hlen, he, hw⟩
  · subst h
    exact Or.inl (processPacket_decode_err_unchanged a s addr buf hs hD)
  · cases hk
    right
    refine ⟨he, plain, hso, hlen, ?_, ?_⟩
    · rw [isDup_some] at hd; simpa [PacketType.applyReplayProtection] using hd
    · rw [processPacket_decode_err a s addr buf hs hD, hw]; rfl

open NetcodeServer in
/-- Server, unknown source address: a datagram that does not decode (only a connection request can) gets `None`,
    nothing changes -/
theorem server_unknown_address_noop (a : AEAD) (s : NetcodeServer) (addr : Addr) (buf : Bytes)
    (hs : sessionOf s addr = none) {e : NetcodeError} (hdec : (decode a buf s.protocolId none none).1 = .err e) :
    processPacket a s addr buf = .ok (.none, s) :=
  processPacket_unknown_err a s addr buf hs hdec

open NetcodeServer in
/-- Server: a connection request (unauthenticated by design) whose version / protocol id / expiry / private token does
    not pass, from an address that is not connected: `None`; nothing changes, except the receive time of a pending
    entry at that address. -/
theorem server_invalid_request_noop (a : AEAD) (s : NetcodeServer) (addr : Addr) (buf : Bytes)
    (hf : findClientByAddr s.clients addr = none) {v : Bytes} {pid e : Nat} {x data : Bytes}
    (hread : Packet.read .connectionRequest (buf.drop 1) = .ok (.connectionRequest v pid e x data))
    (ht : wireType buf = 0) (h18 : 18 ≤ buf.length) (hinv : InvalidRequest a s v pid e x data) :
    processPacket a s addr buf =
      .ok (.none, match pendingFind s.pendingClients addr with
                  | some c => touchPending s addr c
                  | none => s) :=
  processPacket_invalid_request a s addr buf hf hread ht h18 hinv

open NetcodeServer in
/-- Server (repaired defect D12): any datagram of connection-request shape from the address of a connected client —
    valid token or not — yields `None` and changes nothing; `last_packet_received_time` does not move. -/
theorem server_request_from_connected_noop (a : AEAD) (s : NetcodeServer) (addr : Addr) (buf : Bytes)
    {slot : Nat} {c : Connection} (hf : findClientByAddr s.clients addr = some (slot, c)) (ht : wireType buf = 0) :
    processPacket a s addr buf = .ok (.none, s) :=
  processPacket_request_from_connected a s addr buf hf ht

open NetcodeClient in
/-- Client: if `decode` fails nothing surfaces and the client is unchanged, with the same single exception. -/
theorem client_decode_error_noop (a : AEAD) (c : NetcodeClient) (buf : Bytes) {e : NetcodeError}
    (hdec : (decode a buf c.connectToken.protocolId (some c.connectToken.serverToClientKey)
      (some c.replayProtection)).1 = .err e) :
    processPacket a c buf = .ok (none, c) ∨
    (e = .ioError ∧ ∃ plain,
      SealedOpen a buf c.connectToken.protocolId c.connectToken.serverToClientKey .keepAlive plain ∧ plain.length < 8 ∧
      c.replayProtection.alreadyReceived (wireSeq buf) = false ∧
      processPacket a c buf = .ok (none, c.withWindow (c.replayProtection.advance (wireSeq buf)))) := by
  generalize hD : decode a buf c.connectToken.protocolId (some c.connectToken.serverToClientKey)
    (some c.replayProtection) = D at hdec
  obtain ⟨r, rp'⟩ := D
  dsimp only at hdec
  subst hdec
  rcases decode_err hD with h | ⟨k, plain, hk, hso, hd, hlen, he, hw⟩
  · subst h
    exact Or.inl (processPacket_decode_err_unchanged a c buf hD)
  · cases hk
    right
    refine ⟨he, plain, hso, hlen, ?_, ?_⟩
    · rw [isDup_some] at hd; simpa [PacketType.applyReplayProtection] using hd
    · rw [processPacket_decode_err a c buf hD, hw]; rfl

/-! ### witnesses (toy AEAD) -/
section examples

def key : Bytes := List.replicate 32 7

/-- The exception is real: a keep-alive prefix (0x14: type 4, one sequence byte), sequence 9, a 4-byte plaintext that
    the (toy) AEAD accepts: `decode` says `IoError` and the window has moved to 9. -/
theorem malformed_keepalive_advances_window :
    (decode AEAD.toy (0x14 :: 9 :: ([1, 2, 3, 4] ++ List.replicate 16 0)) 42 (some key) (some RP.new)).1 = .err .ioError ∧
    (decode AEAD.toy (0x14 :: 9 :: ([1, 2, 3, 4] ++ List.replicate 16 0)) 42 (some key) (some RP.new)).2.map (·.mostRecent)
      = some 9 := by
  decide +kernel

/-- the inputs of the repaired defects: D4 (prefix announcing 9 sequence bytes), D5 (18 bytes, prefix 0x85),
    D6 (sequence 2^64-1) -/
example : (decode AEAD.toy (0x95 :: List.replicate 39 0) 42 (some key) (some RP.new)).1 = .err .ioError := by decide +kernel
example : (decode AEAD.toy (0x85 :: List.replicate 17 0) 42 (some key) (some RP.new)).1 = .err .packetTooSmall := by
  decide +kernel
example : (decode AEAD.toy (0x85 :: (List.replicate 8 0xFF ++ List.replicate 16 0xAA)) 42 (some key) (some RP.new)).1
    = .err .cryptoError := by decide +kernel
/-- D7: a connect token announcing zero server addresses is rejected by `read` -/
example : ConnectToken.read (leBytes 1 8 ++ Netcode.C.NETCODE_VERSION_INFO ++ leBytes 42 8 ++ leBytes 0 8 ++ leBytes 30 8 ++
    List.replicate 24 0 ++ List.replicate 1024 0 ++ leBytes 15 4 ++ leBytes 0 4 ++ List.replicate 64 0) = .err .ioError := by
  decide +kernel

/-! a server with one connected client (id 77) and one pending handshake -/
def cliAddr : Addr := .v4 [10, 0, 0, 2] 4000
def pendAddr : Addr := .v4 [10, 0, 0, 3] 4001
def otherAddr : Addr := .v4 [10, 0, 0, 9] 4009
def conn : Connection :=
  { confirmed := true, clientId := 77, state := .connected, sendKey := List.replicate 32 4, receiveKey := key,
    userData := [], addr := cliAddr, lastPacketReceivedTime := 0, lastPacketSendTime := 0, timeoutSeconds := 15,
    sequence := 0, expireTimestamp := 30, replayProtection := RP.new }
def pend : Connection :=
  { confirmed := false, clientId := 78, state := .pendingResponse, sendKey := List.replicate 32 5,
    receiveKey := List.replicate 32 6, userData := [], addr := pendAddr, lastPacketReceivedTime := 0,
    lastPacketSendTime := 0, timeoutSeconds := 15, sequence := 0, expireTimestamp := 30, replayProtection := RP.new }
def srv : NetcodeServer :=
  { clients := [none, some conn], pendingClients := [(pendAddr, pend)], connectTokenEntries := [none, none],
    protocolId := 42, connectKey := List.replicate 32 1, maxClients := 2, challengeSequence := 0,
    challengeKey := List.replicate 32 2, publicAddresses := [.v4 [127, 0, 0, 1] 5000], currentTime := 1000,
    globalSequence := 2 ^ 63, secure := true }

theorem srv_inv : NetcodeServer.SInv 1 srv :=
  ⟨by decide, by decide, fun x hx => by simp [srv] at hx; subst hx; decide⟩

/-- a payload-shaped forgery -/
def forged : Bytes := 0x15 :: 3 :: List.replicate 20 0xFF
/-- 1078 zero bytes: connection-request shape, invalid version -/
def junkRequest : Bytes := List.replicate 1078 0

example : ∃ r s', NetcodeServer.processPacket AEAD.toy srv cliAddr forged = .ok (r, s') ∧ NetcodeServer.SInv 0 s' :=
  server_process_packet_total AEAD.toy srv_inv cliAddr forged

/-- forgery to the connected client's address, to the pending address, from an unknown address: `None`, same state -/
example : NetcodeServer.processPacket AEAD.toy srv cliAddr forged = .ok (.none, srv) :=
  (server_decode_error_noop AEAD.toy srv cliAddr forged (c := conn) rfl (e := .cryptoError) (by decide +kernel)).resolve_right
    (by rintro ⟨h, _⟩; cases h)
example : NetcodeServer.processPacket AEAD.toy srv pendAddr forged = .ok (.none, srv) :=
  (server_decode_error_noop AEAD.toy srv pendAddr forged (c := pend) rfl (e := .cryptoError) (by decide +kernel)).resolve_right
    (by rintro ⟨h, _⟩; cases h)
example : NetcodeServer.processPacket AEAD.toy srv otherAddr forged = .ok (.none, srv) :=
  server_unknown_address_noop AEAD.toy srv otherAddr forged rfl (e := .unavailablePrivateKey) (by decide +kernel)

/-- D12's input: 1078 zero bytes from the connected client's address -/
example : NetcodeServer.processPacket AEAD.toy srv cliAddr junkRequest = .ok (.none, srv) :=
  server_request_from_connected_noop AEAD.toy srv cliAddr junkRequest (slot := 1) (c := conn) rfl (by decide +kernel)

/-- the same junk from an unknown address: nothing; from the pending address: only the pending receive time -/
theorem junk_read : Packet.read .connectionRequest (junkRequest.drop 1) =
    .ok (.connectionRequest (List.replicate 13 0) 0 0 (List.replicate 24 0) (List.replicate 1024 0)) := by decide +kernel
example : NetcodeServer.processPacket AEAD.toy srv otherAddr junkRequest = .ok (.none, srv) :=
  server_invalid_request_noop AEAD.toy srv otherAddr junkRequest rfl junk_read (by decide +kernel) (by decide +kernel)
    (Or.inl (by decide))
example : NetcodeServer.processPacket AEAD.toy srv pendAddr junkRequest =
    .ok (.none, NetcodeServer.touchPending srv pendAddr pend) :=
  server_invalid_request_noop AEAD.toy srv pendAddr junkRequest rfl junk_read (by decide +kernel) (by decide +kernel)
    (Or.inl (by decide))

/-- The counter hypothesis of `server_process_packet_total` is needed: with `global_sequence = u64::MAX` a valid
    connection request makes `global_sequence += 1` overflow (a panic in the debug profile; unreachable in practice:
    2^63 datagrams after start). -/
def okOr {ε α : Type} (d : α) : Res ε α → α
  | .ok a => a
  | _ => d
def emptyTok : ConnectToken :=
  { clientId := 0, versionInfo := [], protocolId := 0, createTimestamp := 0, expireTimestamp := 0, xnonce := [],
    serverAddresses := [], clientToServerKey := [], serverToClientKey := [], privateData := [], timeoutSeconds := 0 }
def goodTok : ConnectToken := okOr emptyTok
  (ConnectToken.generate AEAD.toy 0 42 30 79 15 [.v4 [127, 0, 0, 1] 5000] (List.replicate 256 9) (List.replicate 32 3)
    (List.replicate 32 4) (List.replicate 24 5) (List.replicate 32 1))
def goodRequest : Bytes := okOr [] (encode AEAD.toy
  (.connectionRequest Netcode.C.NETCODE_VERSION_INFO goodTok.protocolId goodTok.expireTimestamp goodTok.xnonce
    goodTok.privateData) 1400 42 none)
theorem counter_overflow_panics :
    (NetcodeServer.processPacket AEAD.toy { srv with globalSequence := 2 ^ 64 - 1 } otherAddr goodRequest).isPanic = true := by
  decide +kernel
example : (NetcodeServer.processPacket AEAD.toy srv otherAddr goodRequest).isPanic = false := by decide +kernel

/-! a client in its first state -/
def tok : ConnectToken :=
  { clientId := 77, versionInfo := Netcode.C.NETCODE_VERSION_INFO, protocolId := 42, createTimestamp := 0,
    expireTimestamp := 30, xnonce := List.replicate 24 0,
    serverAddresses := some (.v4 [127, 0, 0, 1] 5000) :: List.replicate 31 none,
    clientToServerKey := List.replicate 32 6, serverToClientKey := key, privateData := List.replicate 1024 0,
    timeoutSeconds := 15 }
def cli : NetcodeClient :=
  { state := .sendingConnectionRequest, clientId := 77, connectStartTime := 5, lastPacketSendTime := none,
    lastPacketReceivedTime := 5, currentTime := 5, sequence := 0, serverAddr := .v4 [127, 0, 0, 1] 5000,
    serverAddrIndex := 0, connectToken := tok, challengeTokenSequence := 0,
    challengeTokenData := List.replicate 300 0, maxClients := 0, clientIndex := 0,
    sendRate := Netcode.C.NETCODE_SEND_RATE_NS, replayProtection := RP.new }
example : NetcodeClient.new 5 tok = .ok cli := rfl
theorem cli_inv : NetcodeClient.CInv cli :=
  ⟨by decide, fun t h => (by cases h), by decide, by decide, by decide⟩

example : ∃ r c', NetcodeClient.update AEAD.toy cli 1000000 = .ok (r, c') ∧ NetcodeClient.CInv c' :=
  client_update_total AEAD.toy cli 1000000 cli_inv (by decide) (by decide)
example : NetcodeClient.processPacket AEAD.toy cli forged = .ok (none, cli) :=
  (client_decode_error_noop AEAD.toy cli forged (e := .cryptoError) (by decide +kernel)).resolve_right
    (by rintro ⟨h, _⟩; cases h)

end examples

end RenetVerif.C07
