/-
  Source tie, group Acks: `renet/src/remote_connection.rs` `RenetClient::{add_pending_ack, acked_largest}`
  ↔ `Acks.add 64` / `Acks.ackedLargest` of `Renet/Acks.lean`.  `RenetClient` is the struct of group ConnTypes (without
  its statistics fields); the two methods change nothing but `pending_acks`:
  `absAcks` : generated struct ↦ model list of half-open ranges, `reprAcks base l` : `base` with the pending acks `l`.
  The equivalences hold for ALL range lists (not only `Acks.WF` ones) of length ≤ 64 (the cap the code maintains).
-/
import RenetVerif.Lemmas.SrcEquiv.Acks
namespace RenetVerif.SrcTie
open RenetVerif RenetVerif.SrcEquiv RenetVerif.RustSem
open Src.renet.remote_connection

/-- `add_pending_ack(sequence)` for `sequence < u64::MAX` on a list of at most 64 ranges: never panics and yields
    exactly `Acks.add 64 sequence` -/
theorem acks_add_pending_ack {ε : Type} (c : RenetClient) (sequence : Nat) (hs : sequence < 2 ^ 64 - 1)
    (hlen : c.pending_acks.length ≤ 64) :
    (RenetClient.add_pending_ack c sequence : Res ε (RenetClient × Unit)) =
      .ok (reprAcks c (Acks.add 64 sequence (absAcks c)), ()) := by
  have h := add_pending_ack_eq (ε := ε) (base := c) (absAcks c) sequence (by omega) (by simpa [absAcks] using hlen)
  rwa [reprAcks_absAcks] at h

/-- at `sequence = u64::MAX` the checked `sequence + 1` overflows: panic, unless the first range already contains
    the sequence (then the state is returned unchanged) -/
theorem acks_add_pending_ack_u64_max {ε : Type} (base : RenetClient) (l : List AckRange) :
    match l with
    | [] => ∃ site, (RenetClient.add_pending_ack (reprAcks base l) (2 ^ 64 - 1) : Res ε _) = .panic site
    | (s, e) :: _ =>
      if s ≤ 2 ^ 64 - 1 ∧ 2 ^ 64 - 1 < e then
        (RenetClient.add_pending_ack (reprAcks base l) (2 ^ 64 - 1) : Res ε _) = .ok (reprAcks base l, ())
      else ∃ site, (RenetClient.add_pending_ack (reprAcks base l) (2 ^ 64 - 1) : Res ε _) = .panic site :=
  add_pending_ack_max l

/-- `acked_largest(largest_ack)` (the `while` loop, run on the manifest fuel `pending_acks.len() + 1`): for range ends
    that are `u64` values it never panics — in particular the fuel is never exhausted — and yields
    `Acks.ackedLargest` -/
theorem acks_acked_largest {ε : Type} (c : RenetClient) (largest_ack : Nat)
    (hb : ∀ r ∈ c.pending_acks, r.«end» < 2 ^ 64) (hfit : c.pending_acks.length + 1 < 2 ^ 64) :
    (RenetClient.acked_largest c largest_ack : Res ε (RenetClient × Unit)) =
      .ok (reprAcks c (Acks.ackedLargest largest_ack (absAcks c)), ()) := by
  have h := acked_largest_eq (ε := ε) (base := c) (absAcks c) largest_ack
    (by intro r hr; simp only [absAcks, List.mem_map] at hr; obtain ⟨x, hx, rfl⟩ := hr; exact hb x hx)
    (by simpa [absAcks] using hfit)
  rwa [reprAcks_absAcks] at h

/-- the distinguished fuel site of the translated `while` loop is unreachable -/
theorem acks_acked_largest_fuel_suffices {ε : Type} (c : RenetClient) (largest_ack : Nat)
    (hb : ∀ r ∈ c.pending_acks, r.«end» < 2 ^ 64) (hfit : c.pending_acks.length + 1 < 2 ^ 64) :
    (RenetClient.acked_largest c largest_ack : Res ε (RenetClient × Unit)) ≠
      .panic "renet/src/remote_connection.rs:RenetClient::acked_largest: fuel exhausted" := by
  rw [acks_acked_largest c largest_ack hb hfit]; intro h; cases h

/-- a client without channels -/
def exClient (acks : List RustSem.Range) : RenetClient := ⟨0, 0, [], acks, [], [], [], [], [], 0, .Connecting⟩

/-! the sequence of the Rust unit test `pending_acks`: 3, 4, 2, 0, 7, 1 -/
example : (RenetClient.add_pending_ack (exClient []) 3 : Res Empty _) = .ok ((exClient [⟨3, 4⟩]), ()) := by decide +kernel
example : (RenetClient.add_pending_ack (exClient [⟨3, 4⟩]) 4 : Res Empty _) = .ok ((exClient [⟨3, 5⟩]), ()) := by decide +kernel
example : (RenetClient.add_pending_ack (exClient [⟨3, 5⟩]) 2 : Res Empty _) = .ok ((exClient [⟨2, 5⟩]), ()) := by decide +kernel
example : (RenetClient.add_pending_ack (exClient [⟨2, 5⟩]) 0 : Res Empty _) = .ok ((exClient [⟨0, 1⟩, ⟨2, 5⟩]), ()) := by decide +kernel
example : (RenetClient.add_pending_ack (exClient [⟨0, 1⟩, ⟨2, 5⟩]) 7 : Res Empty _) = .ok ((exClient [⟨0, 1⟩, ⟨2, 5⟩, ⟨7, 8⟩]), ()) := by
  decide +kernel
example : (RenetClient.add_pending_ack (exClient [⟨0, 1⟩, ⟨2, 5⟩, ⟨7, 8⟩]) 1 : Res Empty _) = .ok ((exClient [⟨0, 5⟩, ⟨7, 8⟩]), ()) := by
  decide +kernel
example : (RenetClient.acked_largest (exClient [⟨0, 5⟩, ⟨7, 8⟩, ⟨10, 12⟩]) 7 : Res Empty _) = .ok ((exClient [⟨10, 12⟩]), ()) := by
  decide +kernel
example : (RenetClient.acked_largest (exClient [⟨0, 5⟩, ⟨7, 10⟩]) 7 : Res Empty _) = .ok ((exClient [⟨8, 10⟩]), ()) := by decide +kernel

end RenetVerif.SrcTie
