/-
  C04X: the RESET POINT of the ghost list `NS.addrBufs ad tr` of `Props/C04W.lean`, as theorems over `NS.step` (model level).

  `addrBufs ad tr` restarts exactly at the `process_packet` calls from `ad` answered with `PacketToSend`.  The header of
  `Lemmas/NcSessionWindow.lean` ARGUES that this is the point where the half-open session of `ad` is (re)created or dropped.
  Here that is proved, one step at a time (any server satisfying `ServerInv`, in particular every `ReachT` state):

    `toSend_resets`        a `PacketToSend` answer to a datagram from `addr`: `addr` is not connected before or after, the
                           answer goes to `addr`, the slot table is untouched, and the half-open session of `addr` afterwards
                           is ABSENT (denial) or has a NEW window `RP.new` (challenge: created / replaced);
    `no_toSend_keeps_pending`  any other answer: a half-open session of `addr` afterwards is NOT new — it is the one `addr`
                           had before, same receive key, and the datagram was either too short for `decode` (window unchanged)
                           or was handed to `Packet.decode` under THAT receive key and window, giving the stored window;
    `no_toSend_keeps_slot` … and a connected session of `addr` afterwards continues a connected or half-open session of `addr`
                           from before with the same receive key, the datagram decoded under that key (or too short).
    `step_reset_point_partial`  the three over `NS.step` on a `ReachT` state.

  NOT proved here (hence `_partial`): the whole-run statement (induction of these step facts along `ReachT`, giving "`addrBufs`
  = the datagrams decoded under the entry's key since its creation" as one theorem), and the frame facts for the operations
  other than `process_packet` and for addresses other than the sender (they are inside `step_winInv`, not restated here).
-/
import RenetVerif.Lemmas.NcSessionWindow
import RenetVerif.Props.C04W
set_option linter.unusedVariables false
set_option linter.unusedSimpArgs false
namespace RenetVerif.C04X
open RenetVerif RenetVerif.Netcode RenetVerif.Netcode.NS RenetVerif.Netcode.Packet RenetVerif.NcClientTrace

/-- the datagram reached `decode` under key `k` and window `w`, giving window `w'` — or was too short and `w' = w` -/
def DecodedUnder (a : AEAD) (proto : Nat) (buf : Bytes) (k : Bytes) (w w' : RP) : Prop :=
  (buf.length < 2 + C.NETCODE_MAC_BYTES ∧ w' = w) ∨
  (¬ buf.length < 2 + C.NETCODE_MAC_BYTES ∧ ∃ res, Packet.decode a buf proto (some k) (some w) = (res, some w'))

theorem decodedUnder_of_decode {a : AEAD} {proto : Nat} {buf k : Bytes} {w w' : RP} {res : NRes (Nat × Packet)}
    (h : Packet.decode a buf proto (some k) (some w) = (res, some w')) : DecodedUnder a proto buf k w w' := by
  by_cases hs : buf.length < 2 + C.NETCODE_MAC_BYTES
  · rw [decode_too_short a proto _ _ hs] at h
    simp only [Prod.mk.injEq, Option.some.injEq] at h
    exact Or.inl ⟨hs, h.2.symm⟩
  · exact Or.inr ⟨hs, res, h⟩

/-- **A `PacketToSend` answer resets.** -/
theorem toSend_resets {a : AEAD} {s s' : NetcodeServer} {addr : Addr} {buf : Bytes} {r : ServerResult}
    (hi : ServerInv s) (ho : PPOut a s addr buf r s') (hr : isToSend r = true) :
    findClientByAddr s.clients addr = none ∧ s'.clients = s.clients ∧ (∃ out, r = .packetToSend addr out) ∧
    (pendingFind s'.pendingClients addr = none ∨
      ∃ q, pendingFind s'.pendingClients addr = some q ∧ q.replayProtection = RP.new) := by
  have hcr : ∀ {s0 : NetcodeServer} {v : Bytes} {pid expire : Nat} {xnonce data : Bytes} {R : NetcodeServer.SRes},
      HcrOut a s0 addr v pid expire xnonce data R → HcrRes R r s' → s0.clients = s.clients →
      s'.clients = s.clients ∧ (∃ out, r = .packetToSend addr out) ∧
      (pendingFind s'.pendingClients addr = none ∨
        ∃ q, pendingFind s'.pendingClients addr = some q ∧ q.replayProtection = RP.new) := by
    intro s0 v pid expire xnonce data R hout hres hcl
    obtain ⟨h1, h2⟩ := hcr_clients hout hres
    refine ⟨h1.trans hcl, ?_, ?_⟩
    · rcases h2 with rfl | h2
      · cases hr
      · exact h2
    · cases hf : pendingFind s'.pendingClients addr with
      | none => exact Or.inl rfl
      | some q =>
        rcases hcr_pendingFind hout hres addr q hf with ⟨_, hts⟩ | ⟨_, hnew, _⟩
        · rw [hts rfl] at hr; cases hr
        · exact Or.inr ⟨q, rfl, hnew⟩
  cases ho with
  | short hs => cases hr
  | connErr i c e w' hfa hdec => cases hr
  | connDisconnect i c sq w' hfa hdec => cases hr
  | connKeepAlive i c sq ci mc w' hfa hdec => cases hr
  | connOther i c sq pk w' hfa hdec _ _ _ => cases hr
  | connPayload i c sq p w' hfa hdec => cases hr
  | pendErr p e w' hfa hpf hdec => cases hr
  | pendRequest p sq v pid expire xnonce data w' R _ _ hfa hpf hdec hout hres => exact ⟨hfa, hcr hout hres rfl⟩
  | pendOther p sq pk w' hfa hpf hdec _ _ => cases hr
  | respRejected p sq ts td w' hfa hpf hdec _ => cases hr
  | respDropped p sq ts td w' hfa hpf hdec _ => cases hr
  | respFull p sq ts td w' out hfa hpf hdec _ _ _ _ =>
    refine ⟨hfa, rfl, ⟨out, rfl⟩, Or.inl ?_⟩
    dsimp only
    rw [pendingFind_filter_ne, if_pos rfl]
  | respConnected p sq ts td w' i out hfa hpf hdec hct hid hff hen => cases hr
  | newErr e hfa hpf hdec => cases hr
  | newRequest sq v pid expire xnonce data R _ _ hfa hpf hdec hout hres => exact ⟨hfa, hcr hout hres rfl⟩

/-- **Any other answer keeps the half-open session of the sender** (if there is one afterwards): same receive key, and the
    datagram went through `decode` under that key. -/
theorem no_toSend_keeps_pending {a : AEAD} {s s' : NetcodeServer} {addr : Addr} {buf : Bytes} {r : ServerResult}
    (hi : ServerInv s) (ho : PPOut a s addr buf r s') (hr : isToSend r = false) {q : Connection}
    (hq : pendingFind s'.pendingClients addr = some q) :
    ∃ p, pendingFind s.pendingClients addr = some p ∧ q.receiveKey = p.receiveKey ∧
      DecodedUnder a s.protocolId buf p.receiveKey p.replayProtection q.replayProtection := by
  have conn : ∀ {i : Nat} {c : Connection}, findClientByAddr s.clients addr = some (i, c) →
      pendingFind s.pendingClients addr = some q → False := by
    intro i c hfa hf
    obtain ⟨hc, hca⟩ := findAddr_some hfa
    exact (hi.pend (addr, q) (NS.pendingFind_mem hf)).fresh i c hc hca
  have setq : ∀ {p x : Connection} {res : NRes (Nat × Packet)} {w' : RP},
      pendingFind (pendingSet s.pendingClients addr x) addr = some q → pendingFind s.pendingClients addr = some p →
      Packet.decode a buf s.protocolId (some p.receiveKey) (some p.replayProtection) = (res, some w') →
      x.receiveKey = p.receiveKey → x.replayProtection = w' →
      ∃ p, pendingFind s.pendingClients addr = some p ∧ q.receiveKey = p.receiveKey ∧
        DecodedUnder a s.protocolId buf p.receiveKey p.replayProtection q.replayProtection := by
    intro p x res w' hf hpf hdec hk hw
    rw [pendingFind_set, if_pos rfl] at hf
    cases hf
    exact ⟨p, hpf, hk, by rw [hw]; exact decodedUnder_of_decode hdec⟩
  cases ho with
  | short hs => exact ⟨q, hq, rfl, Or.inl ⟨hs, rfl⟩⟩
  | connErr i c e w' hfa hdec => exact (conn hfa hq).elim
  | connDisconnect i c sq w' hfa hdec => exact (conn hfa hq).elim
  | connKeepAlive i c sq ci mc w' hfa hdec => exact (conn hfa hq).elim
  | connOther i c sq pk w' hfa hdec _ _ _ => exact (conn hfa hq).elim
  | connPayload i c sq p w' hfa hdec => exact (conn hfa hq).elim
  | pendErr p e w' hfa hpf hdec => exact setq hq hpf hdec rfl rfl
  | pendRequest p sq v pid expire xnonce data w' R _ _ hfa hpf hdec hout hres =>
    rcases hcr_pendingFind hout hres addr q hq with ⟨hf', _⟩ | ⟨_, _, hts⟩
    · exact setq hf' hpf hdec rfl rfl
    · rw [hts] at hr; cases hr
  | pendOther p sq pk w' hfa hpf hdec _ _ => exact setq hq hpf hdec rfl rfl
  | respRejected p sq ts td w' hfa hpf hdec _ => exact setq hq hpf hdec rfl rfl
  | respDropped p sq ts td w' hfa hpf hdec _ =>
    dsimp only at hq
    rw [pendingFind_filter_ne, if_pos rfl] at hq; cases hq
  | respFull p sq ts td w' out hfa hpf hdec _ _ _ _ => cases hr
  | respConnected p sq ts td w' i out hfa hpf hdec hct hid hff hen =>
    dsimp only at hq
    rw [pendingFind_filter_ne, if_pos rfl] at hq; cases hq
  | newErr e hfa hpf hdec => rw [hpf] at hq; cases hq
  | newRequest sq v pid expire xnonce data R _ _ hfa hpf hdec hout hres =>
    rcases hcr_pendingFind hout hres addr q hq with ⟨hf', _⟩ | ⟨_, _, hts⟩
    · rw [hpf] at hf'; cases hf'
    · rw [hts] at hr; cases hr

/-- **… and keeps the connected session of the sender** (if there is one afterwards): it continues a connected or a half-open
    session of the sender with the same receive key, the datagram decoded under that key. -/
theorem no_toSend_keeps_slot {a : AEAD} {s s' : NetcodeServer} {addr : Addr} {buf : Bytes} {r : ServerResult}
    (hi : ServerInv s) (ho : PPOut a s addr buf r s') (hr : isToSend r = false) {j : Nat} {c' : Connection}
    (hc' : At s'.clients j c') (ha : c'.addr = addr) :
    (∃ c, At s.clients j c ∧ c.addr = addr ∧ c'.receiveKey = c.receiveKey ∧
      DecodedUnder a s.protocolId buf c.receiveKey c.replayProtection c'.replayProtection) ∨
    (∃ p, findClientByAddr s.clients addr = none ∧ pendingFind s.pendingClients addr = some p ∧
      c'.receiveKey = p.receiveKey ∧
      DecodedUnder a s.protocolId buf p.receiveKey p.replayProtection c'.replayProtection) := by
  have conn : ∀ {i : Nat} {c x : Connection} {res : NRes (Nat × Packet)} {w' : RP},
      At (s.clients.set i (some x)) j c' → findClientByAddr s.clients addr = some (i, c) →
      Packet.decode a buf s.protocolId (some c.receiveKey) (some c.replayProtection) = (res, some w') →
      x.receiveKey = c.receiveKey → x.replayProtection = w' →
      ∃ c, At s.clients j c ∧ c.addr = addr ∧ c'.receiveKey = c.receiveKey ∧
        DecodedUnder a s.protocolId buf c.receiveKey c.replayProtection c'.replayProtection := by
    intro i c x res w' hat hfa hdec hk hw
    obtain ⟨hc, hca⟩ := findAddr_some hfa
    rcases at_set_some hat with ⟨rfl, rfl⟩ | ⟨hne, hj⟩
    · exact ⟨c, hc, hca, hk, by rw [hw]; exact decodedUnder_of_decode hdec⟩
    · exact absurd (hi.slots.addrs i j c c' hc hj (by rw [hca, ha])) hne
  have noconn : findClientByAddr s.clients addr = none → At s.clients j c' → False :=
    fun hfa hj => findAddr_none.mp hfa j c' hj ha
  cases ho with
  | short hs => exact Or.inl ⟨c', hc', ha, rfl, Or.inl ⟨hs, rfl⟩⟩
  | connErr i c e w' hfa hdec => exact Or.inl (conn hc' hfa hdec rfl rfl)
  | connDisconnect i c sq w' hfa hdec =>
    obtain ⟨hc, hca⟩ := findAddr_some hfa
    dsimp only at hc'
    rw [at_set] at hc'
    split at hc'
    · exact nomatch hc'.2
    · rename_i hne
      exact absurd (hi.slots.addrs i j c c' hc hc' (by rw [hca, ha])) hne
  | connKeepAlive i c sq ci mc w' hfa hdec => exact Or.inl (conn hc' hfa hdec rfl rfl)
  | connOther i c sq pk w' hfa hdec _ _ _ => exact Or.inl (conn hc' hfa hdec rfl rfl)
  | connPayload i c sq p w' hfa hdec => exact Or.inl (conn hc' hfa hdec rfl rfl)
  | pendErr p e w' hfa hpf hdec => exact (noconn hfa hc').elim
  | pendRequest p sq v pid expire xnonce data w' R _ _ hfa hpf hdec hout hres =>
    rw [(hcr_clients hout hres).1] at hc'; exact (noconn hfa hc').elim
  | pendOther p sq pk w' hfa hpf hdec _ _ => exact (noconn hfa hc').elim
  | respRejected p sq ts td w' hfa hpf hdec _ => exact (noconn hfa hc').elim
  | respDropped p sq ts td w' hfa hpf hdec _ => exact (noconn hfa hc').elim
  | respFull p sq ts td w' out hfa hpf hdec _ _ _ _ => cases hr
  | respConnected p sq ts td w' i out hfa hpf hdec hct hid hff hen =>
    rcases at_set_some hc' with ⟨rfl, rfl⟩ | ⟨hne, hj⟩
    · exact Or.inr ⟨p, hfa, hpf, rfl, decodedUnder_of_decode hdec⟩
    · exact (noconn hfa hj).elim
  | newErr e hfa hpf hdec => exact (noconn hfa hc').elim
  | newRequest sq v pid expire xnonce data R _ _ hfa hpf hdec hout hres =>
    rw [(hcr_clients hout hres).1] at hc'; exact (noconn hfa hc').elim

/-- **The reset point of the ghost list, over `NS.step` on any reachable state.**  The ghost list of `addr` is emptied by this
    step iff the answer is `PacketToSend` (`addrBufs_snoc_reset` / `addrBufs_snoc_self`); in that case `addr` has no connected
    session and its half-open session is absent or NEW; otherwise every session of `addr` after the step continues one from
    before under the same receive key, with the datagram handed to `decode` under that key (appended to the ghost list iff long
    enough).  `_partial`: one step, sender address only; the run-level induction is not done here (see the file header). -/
theorem step_reset_point_partial {a : AEAD} {s s' : NetcodeServer} {tr : Trace} {addr : Addr} {buf : Bytes} {r : ServerResult}
    (h : ReachT a s tr) (hs : step a s (.packet addr buf) = some (r, s')) :
    (isToSend r = true →
      addrBufs addr (tr ++ [(.packet addr buf, r)]) = [] ∧
      findClientByAddr s.clients addr = none ∧ findClientByAddr s'.clients addr = none ∧
      (∃ out, r = .packetToSend addr out) ∧
      (pendingFind s'.pendingClients addr = none ∨
        ∃ q, pendingFind s'.pendingClients addr = some q ∧ q.replayProtection = RP.new)) ∧
    (isToSend r = false →
      addrBufs addr (tr ++ [(.packet addr buf, r)]) = addrBufs addr tr ++ dg buf ∧
      (∀ q, pendingFind s'.pendingClients addr = some q →
        ∃ p, pendingFind s.pendingClients addr = some p ∧ q.receiveKey = p.receiveKey ∧
          DecodedUnder a s.protocolId buf p.receiveKey p.replayProtection q.replayProtection) ∧
      (∀ j c', At s'.clients j c' → c'.addr = addr →
        (∃ c, At s.clients j c ∧ c.addr = addr ∧ c'.receiveKey = c.receiveKey ∧
          DecodedUnder a s.protocolId buf c.receiveKey c.replayProtection c'.replayProtection) ∨
        (∃ p, findClientByAddr s.clients addr = none ∧ pendingFind s.pendingClients addr = some p ∧
          c'.receiveKey = p.receiveKey ∧
          DecodedUnder a s.protocolId buf p.receiveKey p.replayProtection c'.replayProtection))) := by
  have hi := h.inv
  have ho : PPOut a s addr buf r s' := by
    simp only [step] at hs
    cases hp : s.processPacket a addr buf with
    | ok x => rw [hp] at hs; cases hs; exact pp_ok hi hp
    | err e => exact e.elim
    | panic m => rw [hp] at hs; cases hs
  refine ⟨fun hr => ?_, fun hr => ?_⟩
  · obtain ⟨h1, h2, h3, h4⟩ := toSend_resets hi ho hr
    exact ⟨addrBufs_snoc_reset _ _ _ hr, h1, by rw [h2]; exact h1, h3, h4⟩
  · exact ⟨addrBufs_snoc_self _ _ _ hr, fun q hq => no_toSend_keeps_pending hi ho hr hq,
      fun j c' hc' ha => no_toSend_keeps_slot hi ho hr hc' ha⟩

/-! ### non-vacuity (example world `Lemmas/NcExamples.lean`): the request of client A is answered with a challenge
    (`PacketToSend`, reset: the half-open session has the NEW window); the payload datagram that follows is answered with
    `None` and the half-open session continues under the same key -/
section Examples
open Ex C04H C04W

theorem ex_step1 : (step Ex.a s0 (.packet addrA reqA)).map (·.1) = some (.packetToSend addrA chalA) := by decide +kernel

example : ∃ s', step Ex.a s0 (.packet addrA reqA) = some (.packetToSend addrA chalA, s') ∧
    addrBufs addrA ([] ++ [(Op.packet addrA reqA, ServerResult.packetToSend addrA chalA)]) = [] ∧
    findClientByAddr s'.clients addrA = none ∧
    (pendingFind s'.pendingClients addrA = none ∨
      ∃ q, pendingFind s'.pendingClients addrA = some q ∧ q.replayProtection = RP.new) := by
  have h := ex_step1
  cases hs : step Ex.a s0 (.packet addrA reqA) with
  | none => rw [hs] at h; cases h
  | some x =>
    obtain ⟨r, s'⟩ := x
    rw [hs] at h
    simp only [Option.map_some, Option.some.injEq] at h
    subst h
    obtain ⟨h1, _, h3, _, h5⟩ := (step_reset_point_partial (ReachT.init (a := Ex.a) s0_empty) hs).1 rfl
    exact ⟨s', rfl, h1, h3, h5⟩

/-- two steps, kernel-executed: the second answer is `None` and `addrA` still has a half-open session -/
theorem ex_step2 : ((step Ex.a s0 (.packet addrA reqA)).bind (fun x => (step Ex.a x.2 (.packet addrA payFromA)).map
    (fun y => (y.1, (pendingFind y.2.pendingClients addrA).isSome)))) = some (.none, true) := by decide +kernel

/-- the non-reset branch: the payload datagram after the request is answered with `None`; the half-open session of `addrA`
    continues under the same key, the datagram decoded under it -/
example : ∃ tr s s' r, ReachT Ex.a s tr ∧ step Ex.a s (.packet addrA payFromA) = some (r, s') ∧ isToSend r = false ∧
    ∃ q p, pendingFind s'.pendingClients addrA = some q ∧ pendingFind s.pendingClients addrA = some p ∧
      q.receiveKey = p.receiveKey ∧
      DecodedUnder Ex.a s.protocolId payFromA p.receiveKey p.replayProtection q.replayProtection := by
  have h := ex_step2
  cases hs : step Ex.a s0 (.packet addrA reqA) with
  | none => rw [hs] at h; cases h
  | some x =>
    obtain ⟨r, s1⟩ := x
    have hr1 : ReachT Ex.a s1 ([] ++ [(Op.packet addrA reqA, r)]) := .step (.init s0_empty) hs
    rw [hs, Option.bind_some] at h
    cases hs2 : step Ex.a s1 (.packet addrA payFromA) with
    | none => rw [hs2] at h; cases h
    | some y =>
      obtain ⟨r2, s2⟩ := y
      rw [hs2] at h
      simp only [Option.map_some, Option.some.injEq, Prod.mk.injEq] at h
      have hr2 : isToSend r2 = false := by rw [h.1]; rfl
      cases hq : pendingFind s2.pendingClients addrA with
      | none => rw [hq] at h; exact absurd h.2 (by simp)
      | some q =>
        obtain ⟨p, hp1, hp2, hp3⟩ := ((step_reset_point_partial hr1 hs2).2 hr2).2.1 q hq
        exact ⟨_, s1, s2, r2, hr1, hs2, hr2, q, p, hq, hp1, hp2, hp3⟩

end Examples

end RenetVerif.C04X
